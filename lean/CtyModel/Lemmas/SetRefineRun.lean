/-
Histories: the invariant and the refinement, lifted from single operations to
every sequence of API calls on a file of set variables, by induction over
`List (SetOp α)`.

The specification side is a register file of mathematical sets
(`Nat → α → Prop`) transformed by `specStep`; outputs are judged by `OutOk`.
-/
import CtyModel.Lemmas.SetRefineAlg
namespace CtyModel
namespace SetImpl
variable {α : Type}

theorem getReg_nil (i : Nat) : getReg ([] : List (SetImpl α)) i = empty := by
  cases i <;> rfl

theorem getReg_putReg (st : List (SetImpl α)) (i j : Nat) (v : SetImpl α) :
    getReg (putReg st i v) j = if j = i then v else getReg st j := by
  induction st generalizing i j with
  | nil =>
    induction i generalizing j with
    | zero => cases j <;> simp [putReg, getReg]
    | succ i ih =>
      cases j with
      | zero => simp [putReg, getReg]
      | succ j => simp [putReg, getReg, ih]
  | cons s t ih =>
    cases i with
    | zero => cases j <;> simp [putReg, getReg]
    | succ i =>
      cases j with
      | zero => simp [putReg, getReg]
      | succ j => simp [putReg, getReg, ih]

/-- every register satisfies the invariant -/
def AllInv (R : Rules α) (st : List (SetImpl α)) : Prop := ∀ i, InvB R (getReg st i)

theorem allInv_nil (R : Rules α) : AllInv R ([] : List (SetImpl α)) := by
  intro i; rw [getReg_nil]; exact invB_empty R

theorem allInv_putReg {R : Rules α} {st : List (SetImpl α)} (h : AllInv R st) (i : Nat)
    {v : SetImpl α} (hv : InvB R v) : AllInv R (putReg st i v) := by
  intro j
  rw [getReg_putReg]
  split
  · exact hv
  · exact h j

/-- every API call preserves the invariant of every live set -/
theorem allInv_step {R : Rules α} (hR : R.Lawful) (op : SetOp α) {st : List (SetImpl α)}
    (h : AllInv R st) : AllInv R (step R op st).1 := by
  cases op with
  | add i x => exact allInv_putReg h i (invB_add hR (h i) x)
  | remove i x => exact allInv_putReg h i (invB_remove (h i) x)
  | has i x => exact h
  | length i => exact h
  | values i => exact h
  | copy d s => exact allInv_putReg h d (by rw [copy_eq_self (h s)]; exact h s)
  | union d a b => exact allInv_putReg h d (invB_union hR _ _)
  | intersection d a b => exact allInv_putReg h d (invB_intersection hR _ _)
  | subtract d a b => exact allInv_putReg h d (invB_subtract hR _ _)
  | symmetricDifference d a b => exact allInv_putReg h d (invB_symmetricDifference hR _ _)

theorem allInv_runRegs {R : Rules α} (hR : R.Lawful) (ops : List (SetOp α))
    {st : List (SetImpl α)} (h : AllInv R st) : AllInv R (runRegs R ops st).1 := by
  induction ops generalizing st with
  | nil => exact h
  | cons op ops ih => exact ih (allInv_step hR op h)

/-! ### the specification of a history -/

/-- mathematical register file -/
abbrev AbsRegs (α : Type) := Nat → α → Prop

def AbsRegs.set (A : AbsRegs α) (i : Nat) (S : α → Prop) : AbsRegs α :=
  fun j => if j = i then S else A j

/-- what each call does to the mathematical sets -/
def specStep (R : Rules α) : SetOp α → AbsRegs α → AbsRegs α
  | .add i x, A => A.set i (fun y => A i y ∨ R.equiv y x = true)
  | .remove i x, A => A.set i (fun y => A i y ∧ ¬ R.equiv y x = true)
  | .has _ _, A => A
  | .length _, A => A
  | .values _, A => A
  | .copy d s, A => A.set d (A s)
  | .union d a b, A => A.set d (fun y => A a y ∨ A b y)
  | .intersection d a b, A => A.set d (fun y => A a y ∧ A b y)
  | .subtract d a b, A => A.set d (fun y => A a y ∧ ¬ A b y)
  | .symmetricDifference d a b, A => A.set d (fun y => (A a y ∧ ¬ A b y) ∨ (A b y ∧ ¬ A a y))

def specRun (R : Rules α) : List (SetOp α) → AbsRegs α → AbsRegs α
  | [], A => A
  | op :: ops, A => specRun R ops (specStep R op A)

/-- `l` lists one representative of every class of `S` exactly once -/
def Represents (R : Rules α) (l : List α) (S : α → Prop) : Prop :=
  Inequiv R l ∧ ∀ y, S y ↔ ∃ m ∈ l, R.equiv y m = true

/-- what each call must return, in terms of the mathematical sets before it -/
def OutOk (R : Rules α) (A : AbsRegs α) : SetOp α → SetOut α → Prop
  | .has i x, o => ∃ b, o = .bool b ∧ (b = true ↔ A i x)
  | .length i, o => ∃ reps, o = .nat reps.length ∧ Represents R reps (A i)
  | .values i, o => ∃ l, o = .list l ∧ Represents R l (A i)
  | _, o => o = .none

def OutsOk (R : Rules α) : AbsRegs α → List (SetOp α) → List (SetOut α) → Prop
  | _, [], outs => outs = []
  | A, op :: ops, outs => ∃ o rest, outs = o :: rest ∧ OutOk R A op o ∧
      OutsOk R (specStep R op A) ops rest

/-- abstraction of a concrete register file -/
def absRegs (R : Rules α) (st : List (SetImpl α)) : AbsRegs α := fun i => abs R (getReg st i)

theorem absRegs_putReg (R : Rules α) (st : List (SetImpl α)) (i : Nat) (v : SetImpl α) :
    absRegs R (putReg st i v) = (absRegs R st).set i (abs R v) := by
  funext j
  simp only [absRegs, AbsRegs.set, getReg_putReg]
  split <;> rfl

theorem represents_values {R : Rules α} (hR : R.Lawful) {s : SetImpl α} (h : InvB R s) :
    Represents R (values s) (abs R s) :=
  ⟨(h.toInv hR).nodup, fun _ => Iff.rfl⟩

theorem represents_iter {R : Rules α} (hR : R.Lawful) {s : SetImpl α} (h : InvB R s) :
    Represents R (iter R s) (abs R s) :=
  ⟨inequiv_perm hR (iter_perm R s).symm (h.toInv hR).nodup,
    fun y => (exists_iter_iff R s y).symm⟩

/-- one call: the abstraction commutes with the call, and the call's return
value is the one the mathematical sets dictate -/
theorem step_refines {R : Rules α} (hR : R.Lawful) (op : SetOp α) {st : List (SetImpl α)}
    (h : AllInv R st) :
    absRegs R (step R op st).1 = specStep R op (absRegs R st) ∧
      OutOk R (absRegs R st) op (step R op st).2 := by
  cases op with
  | add i x =>
    refine ⟨?_, rfl⟩
    simp only [step, specStep, absRegs_putReg]
    congr 1
    funext y
    exact propext (abs_add hR (h i) x y)
  | remove i x =>
    refine ⟨?_, rfl⟩
    simp only [step, specStep, absRegs_putReg]
    congr 1
    funext y
    exact propext (abs_remove hR (h i) x y)
  | has i x => exact ⟨rfl, _, rfl, has_iff_abs hR (h i) x⟩
  | length i =>
    refine ⟨rfl, values (getReg st i), ?_, represents_values hR (h i)⟩
    simp [step, length_eq_values_length]
  | values i => exact ⟨rfl, _, rfl, represents_iter hR (h i)⟩
  | copy d s =>
    refine ⟨?_, rfl⟩
    simp only [step, specStep, absRegs_putReg, copy_eq_self (h s)]
    rfl
  | union d a b =>
    refine ⟨?_, rfl⟩
    simp only [step, specStep, absRegs_putReg]
    congr 1
    funext y
    exact propext (abs_union hR _ _ y)
  | intersection d a b =>
    refine ⟨?_, rfl⟩
    simp only [step, specStep, absRegs_putReg]
    congr 1
    funext y
    exact propext (abs_intersection hR _ (h b) y)
  | subtract d a b =>
    refine ⟨?_, rfl⟩
    simp only [step, specStep, absRegs_putReg]
    congr 1
    funext y
    exact propext (abs_subtract hR _ (h b) y)
  | symmetricDifference d a b =>
    refine ⟨?_, rfl⟩
    simp only [step, specStep, absRegs_putReg]
    congr 1
    funext y
    exact propext (abs_symmetricDifference hR (h a) (h b) y)

/-- every history: final mathematical sets and every returned value are the
ones the specification dictates -/
theorem runRegs_refines {R : Rules α} (hR : R.Lawful) (ops : List (SetOp α))
    {st : List (SetImpl α)} (h : AllInv R st) :
    absRegs R (runRegs R ops st).1 = specRun R ops (absRegs R st) ∧
      OutsOk R (absRegs R st) ops (runRegs R ops st).2 := by
  induction ops generalizing st with
  | nil => exact ⟨rfl, rfl⟩
  | cons op ops ih =>
    have ⟨h1, h2⟩ := step_refines hR op h
    have ⟨i1, i2⟩ := ih (allInv_step hR op h)
    simp only [runRegs, specRun]
    refine ⟨by rw [i1, h1], _, _, rfl, h2, ?_⟩
    rw [← h1]
    exact i2

/-- `Length` is the number of classes: it equals the length of *any* list of
representatives of the abstract set. -/
theorem length_eq_of_represents {R : Rules α} (hR : R.Lawful) {s : SetImpl α} (h : Inv R s)
    {reps : List α} (hr : Represents R reps (abs R s)) : length s = reps.length := by
  rw [length_eq_values_length]
  apply Nat.le_antisymm
  · apply length_le_of_cover hR _ _ h.nodup
    intro a ha
    exact (hr.2 a).mp ⟨a, ha, hR.refl a⟩
  · apply length_le_of_cover hR _ _ hr.1
    intro a ha
    exact (hr.2 a).mpr ⟨a, ha, hR.refl a⟩

theorem allInv_singleton {R : Rules α} {s : SetImpl α} (h : InvB R s) : AllInv R [s] := by
  intro i
  cases i with
  | zero => exact h
  | succ i => simp only [getReg]; exact invB_empty R

end SetImpl
end CtyModel
