/-
d03 — set-TYPED values whose element type is primitive (audit: "set-typed values
appear only in `decide` counterexamples"): the iteration order of the value
(`setIter`, Go `Set.Values()` with the monadic `Less`) is the pure stable sort by
`primLessB`, and `RawEquals` of two such set values is decided by comparing the
two sorted member lists position by position.
-/
import CtyModel.Lemmas.d03Rules
import CtyModel.Lemmas.d13Carrier
import CtyModel.Lemmas.FnCall
import CtyModel.Lemmas.MarksSets
namespace CtyModel
open Value SetImpl

/-! ### the monadic sort is the pure sort when `Less` returns -/

theorem insertBackM_eq {less : Payload → Payload → Res Bool} {lb : Payload → Payload → Bool} (x : Payload) :
    ∀ acc : List Payload, (∀ y ∈ acc, less x y = .ok (lb x y)) →
      Lvl.insertBackM less x acc = .ok (insertBack lb x acc)
  | [], _ => rfl
  | y :: ys, h => by
    have hy := h y (List.mem_cons_self ..)
    simp only [Lvl.insertBackM, hy, insertBack]
    cases lb x y
    · rfl
    · simp only [if_true]
      rw [insertBackM_eq x ys (fun z hz => h z (List.mem_cons_of_mem _ hz))]

theorem sortAuxM_eq {less : Payload → Payload → Res Bool} {lb : Payload → Payload → Bool} (S : Payload → Prop)
    (hS : ∀ x y, S x → S y → less x y = .ok (lb x y)) :
    ∀ (vs acc : List Payload), (∀ x ∈ vs, S x) → (∀ x ∈ acc, S x) →
      Lvl.sortAuxM less acc vs = .ok ((vs.foldl (fun acc x => insertBack lb x acc) acc).reverse)
  | [], acc, _, _ => rfl
  | v :: vs, acc, hv, ha => by
    have hvS := hv v (List.mem_cons_self ..)
    simp only [Lvl.sortAuxM, insertBackM_eq v acc (fun y hy => hS v y hvS (ha y hy)), List.foldl_cons]
    refine sortAuxM_eq S hS vs _ (fun x hx => hv x (List.mem_cons_of_mem _ hx)) ?_
    intro x hx
    rcases List.mem_cons.mp ((insertBack_perm lb v acc).mem_iff.mp hx) with rfl | h
    · exact hvS
    · exact ha x h

/-- a member of a set of primitive element type: well-formed and not marked -/
def PrimMem (e : Ty) (p : Payload) : Prop := p.shaped e = true ∧ p.containsMarked = false

theorem lvl_less_prim (n : Nat) {e : Ty} (he : e.isPrim = true) {x y : Payload} (hx : PrimMem e x) (hy : PrimMem e y) :
    (lvl (n + 1)).less e x y = .ok (primLessB e x y) := by
  obtain ⟨hp, hw⟩ := Ty.isPrim_plain he
  obtain ⟨wx, cx⟩ := hx
  obtain ⟨wy, cy⟩ := hy
  have mx := not_isMarked_of_clean cx
  have my := not_isMarked_of_clean cy
  simp only [Lvl.less, lvl_raw_eq _ hw hp wx wy, Res.bind_ok, primLessB]
  cases hr : rawB e x y
  · simp only [Bool.false_eq_true, if_false]
    cases e <;> simp [Ty.isPrim] at he <;>
      cases x <;> simp [Payload.shaped, Ty.isBool, Ty.isNumber, Ty.isString, Payload.isMarked] at wx mx <;>
      cases y <;> simp [Payload.shaped, Ty.isBool, Ty.isNumber, Ty.isString, Payload.isMarked] at wy my <;>
      simp [Payload.isNull, Payload.isKnown, Payload.unmark1] <;> rfl
  · simp

/-- **iteration order of a set value of primitive element type**: at every level the
monadic `Values()` returns, and returns the stable sort by `primLessB` -/
theorem lvl_iter_prim (n : Nat) {e : Ty} (he : e.isPrim = true) {vs : List Payload} (h : ∀ p ∈ vs, PrimMem e p) :
    (lvl (n + 1)).iter e vs = .ok (sortStable (primLessB e) vs) := by
  simp only [Lvl.iter, sortStable]
  exact sortAuxM_eq (PrimMem e) (fun x y hx hy => lvl_less_prim n he hx hy) vs [] h (by simp)

theorem setIter_prim {e : Ty} (he : e.isPrim = true) {vs : List Payload} (h : ∀ p ∈ vs, PrimMem e p) :
    setIter e vs = .ok (sortStable (primLessB e) vs) := lvl_iter_prim _ he h

/-! ### RawEquals of two set values -/

theorem rawAllL_prim (n : Nat) {e : Ty} (he : e.isPrim = true) : ∀ {xs ys : List Payload},
    (∀ p ∈ xs, PrimMem e p) → (∀ p ∈ ys, PrimMem e p) →
    (lvl (n + 1)).rawAllL e xs ys = .ok (rawBList e xs ys)
  | [], _, _, _ => by cases ‹List Payload› <;> rfl
  | _ :: _, [], _, _ => rfl
  | x :: xs, y :: ys, hx, hy => by
    obtain ⟨hp, hw⟩ := Ty.isPrim_plain he
    have hx0 := hx x (List.mem_cons_self ..)
    have hy0 := hy y (List.mem_cons_self ..)
    simp only [Lvl.rawAllL, lvl_raw_eq n hw hp hx0.1 hy0.1, rawBList]
    cases rawB e x y
    · rfl
    · simp only [Res.andThen, Bool.true_and]
      exact rawAllL_prim n he (fun p hp => hx p (List.mem_cons_of_mem _ hp)) (fun p hp => hy p (List.mem_cons_of_mem _ hp))

theorem depth_sset (ids : List Int) (vs : List Payload) : (Payload.sset ids vs).depth = Payload.depthL vs + 1 := by
  simp [Payload.depth]

/-- **`RawEquals` of two set values of one primitive element type** never fails and
is: same number of members, and the two iteration orders agree position by
position under `RawEquals` of the members. -/
theorem rawEq_set_prim {e : Ty} (he : e.isPrim = true) {ix iy : List Int} {xs ys : List Payload}
    (hx : ∀ p ∈ xs, PrimMem e p) (hy : ∀ p ∈ ys, PrimMem e p) :
    rawEq ⟨.set e, .sset ix xs⟩ ⟨.set e, .sset iy ys⟩ =
      .ok (decide (xs.length = ys.length) &&
        rawBList e (sortStable (primLessB e) xs) (sortStable (primLessB e) ys)) := by
  obtain ⟨hp, hw⟩ := Ty.isPrim_plain he
  have hwf : (Ty.set e).wf = true := by simpa [Ty.wf] using hw
  have hk : max (Payload.sset ix xs).depth (Payload.sset iy ys).depth =
      max (Payload.depthL xs) (Payload.depthL ys) + 1 := by
    rw [depth_sset, depth_sset]; omega
  have hraw : ∀ n, (lvl (n + 1)).raw = rawS (lvl n).setRaw := fun _ => rfl
  simp only [rawEq, rawEqP, hk, hraw, rawS, Ty.equals_self hwf, Bool.not_true, Bool.false_eq_true, if_false,
    rawK, rawRhs, Lvl.setRaw, lvl_iter_prim _ he hx, lvl_iter_prim _ he hy]
  have l1 : (sortStable (primLessB e) xs).length = xs.length := (sortStable_perm _ xs).length_eq
  have l2 : (sortStable (primLessB e) ys).length = ys.length := (sortStable_perm _ ys).length_eq
  by_cases hl : xs.length = ys.length
  · have : ((sortStable (primLessB e) xs).length != (sortStable (primLessB e) ys).length) = false := by
      simp [l1, l2, hl]
    simp only [this, Bool.false_eq_true, if_false, hl, decide_true, Bool.true_and]
    exact rawAllL_prim _ he (fun p hp => hx p ((mem_sortStable _ _ _).mp hp))
      (fun p hp => hy p ((mem_sortStable _ _ _).mp hp))
  · have : ((sortStable (primLessB e) xs).length != (sortStable (primLessB e) ys).length) = true := by
      simp [l1, l2, hl]
    simp only [this, if_true, hl, decide_false, Bool.false_and]

theorem rawBList_refl {e : Ty} (he : e.isPrim = true) : ∀ {xs : List Payload}, (∀ p ∈ xs, PrimMem e p) →
    rawBList e xs xs = true
  | [], _ => rfl
  | x :: xs, h => by
    simp only [rawBList, Bool.and_eq_true]
    exact ⟨rawB_refl e x (Ty.isPrim_plain he).1 (h x (List.mem_cons_self ..)).1,
      rawBList_refl he (fun p hp => h p (List.mem_cons_of_mem _ hp))⟩

/-! ### permutations of pairwise different integer-numbered members -/

/-- the stable sort by `Less` forgets the order of its input -/
theorem sortStable_prim_perm {e : Ty} (he : e.isPrim = true) {xs ys : List Payload}
    (hx : ∀ p ∈ xs, p.intMember e = true) (hne : xs.Pairwise (fun a b => rawB e a b = false)) (hp : xs.Perm ys) :
    sortStable (primLessB e) xs = sortStable (primLessB e) ys := by
  refine sortStable_eq_of_perm _ hp ⟨?_, ?_, ?_⟩
  · intro a ha; exact primLessB_irrefl he (Payload.intMember_spec (hx a ha)).1
  · intro a ha b hb c hc; exact primLessB_trans he (hx a ha) (hx b hb) (hx c hc)
  · exact List.Pairwise.imp_of_mem (fun ha hb h => primLessB_total he (hx _ ha) (hx _ hb) h) hne

theorem primMem_of_intMember {e : Ty} {p : Payload} (h : p.intMember e = true) : PrimMem e p :=
  ⟨(Payload.intMember_spec h).1, (Payload.intMember_spec h).2.2.1⟩

/-- cty's rules, seen on the carrier of integer-numbered members, are lawful -/
theorem ctyRules_lawful_pull_ints (e : Ty) (hw : e.wf = true) (hp : e.plain = true) :
    ((ctyRules e).pull (Subtype.val : {p : Payload // p.intMember e = true} → Payload)).Lawful := by
  have sp := fun a : {p : Payload // p.intMember e = true} => Payload.intMember_spec a.2
  have eqv : ∀ a b : {p : Payload // p.intMember e = true},
      ((ctyRules e).pull Subtype.val).equiv a b = rawB e a.1 b.1 := fun a b =>
    ctyRules_equiv_eq hw hp (sp a).1 (sp a).2.1 (sp a).2.2.1 (sp b).1 (sp b).2.1 (sp b).2.2.1
  refine ⟨fun a => ?_, fun a b h => ?_, fun a b c h1 h2 => ?_, fun a b h => ?_⟩
  · rw [eqv]; exact rawB_refl e a.1 hp (sp a).1
  · rw [eqv] at h ⊢; rw [rawB_symm e b.1 a.1 hp (sp b).1 (sp a).1]; exact h
  · rw [eqv] at h1 h2 ⊢; exact rawB_trans e a.1 b.1 c.1 hp (sp a).1 (sp b).1 (sp c).1 h1 h2
  · rw [eqv] at h
    exact ctyRules_hash_eq_ints hp a.2 b.2 h

/-- `SetVal`'s member list is a permutation of pairwise different inputs -/
theorem values_fromList_perm_ints {e : Ty} (hw : e.wf = true) (hp : e.plain = true) {l : List Payload}
    (hl : ∀ p ∈ l, p.intMember e = true) (hne : l.Pairwise (fun a b => rawB e a b = false)) :
    (values (fromList (ctyRules e) l)).Perm l := by
  have hR := ctyRules_lawful_pull_ints e hw hp
  have hv := liftL_val (P := fun p => p.intMember e = true) l hl
  have hI : Inequiv ((ctyRules e).pull Subtype.val) (liftL (P := fun p => p.intMember e = true) l hl) := by
    have h2 : ((liftL (P := fun p => p.intMember e = true) l hl).map Subtype.val).Pairwise
        (fun a b => rawB e a b = false) := by rw [hv]; exact hne
    rw [List.pairwise_map] at h2
    refine h2.imp ?_
    intro a b h
    have sa := Payload.intMember_spec a.2
    have sb := Payload.intMember_spec b.2
    show (ctyRules e).equiv a.1 b.1 = false
    rw [ctyRules_equiv_eq hw hp sa.1 sa.2.1 sa.2.2.1 sb.1 sb.2.1 sb.2.2.1]; exact h
  have := (values_fromList_perm hR hI).map Subtype.val
  rw [hv, ← values_mapS, ← fromList_mapS, hv] at this
  exact this

/-! ### `cty.SetVal` on unmarked inputs of one primitive type -/

theorem setValElemTy_same {e : Ty} (he : e.isPrim = true) : ∀ (l : List Payload),
    setValElemTy e (l.map fun p => (⟨e, p⟩ : Value)) = .ok e
  | [] => rfl
  | p :: l => by
    have hd : e.isDyn = false := by cases e <;> simp [Ty.isPrim] at he <;> rfl
    simp only [List.map_cons, setValElemTy, hd, Bool.false_eq_true, if_false, Bool.not_false, Bool.true_and,
      Ty.equals_self (Ty.isPrim_plain he).2, Bool.not_true]
    exact setValElemTy_same he l

theorem marksOfAll_clean {e : Ty} : ∀ (l : List Payload), (∀ p ∈ l, p.containsMarked = false) →
    marksOfAll (l.map fun p => (⟨e, p⟩ : Value)) = []
  | [], _ => rfl
  | p :: l, h => by
    simp only [List.map_cons, marksOfAll, Value.marksDeep,
      Payload.marksDeep_of_not_containsMarked p (h p (List.mem_cons_self ..)),
      marksOfAll_clean l (fun q hq => h q (List.mem_cons_of_mem _ hq))]
    rfl

/-- **`cty.SetVal` of a non-empty list of unmarked, quotable members of one primitive
type** returns the set value whose payload is the generic set built by `Add`ing
the inputs in order under `setRules{e}` -/
theorem mkSetVal_prim {e : Ty} (he : e.isPrim = true) {l : List Payload} (hne : l ≠ [])
    (hl : ∀ p ∈ l, PrimMem e p ∧ p.quotable = true) :
    mkSetVal (l.map fun p => (⟨e, p⟩ : Value)) = .ok ⟨.set e, setPayload (fromList (ctyRules e) l)⟩ := by
  obtain ⟨hp, hw⟩ := Ty.isPrim_plain he
  have hemp : (l.map fun p => (⟨e, p⟩ : Value)).isEmpty = false := by
    cases l with
    | nil => exact absurd rfl hne
    | cons _ _ => rfl
  have hraw : ((l.map fun p => (⟨e, p⟩ : Value)).map fun v => v.v.stripMarks) = l := by
    rw [List.map_map]
    have : ∀ p ∈ l, ((fun v : Value => v.v.stripMarks) ∘ fun p => (⟨e, p⟩ : Value)) p = p := fun p hp =>
      Payload.stripMarks_of_clean p (hl p hp).1.2
    rw [List.map_congr_left this, List.map_id'']
    intro x; rfl
  have hd : Ty.dyn.isDyn = true := rfl
  have hty : setValElemTy .dyn (l.map fun p => (⟨e, p⟩ : Value)) = .ok e := by
    cases l with
    | nil => exact absurd rfl hne
    | cons p l => simp only [List.map_cons, setValElemTy, hd, if_true]; exact setValElemTy_same he l
  have hcap : e.hasCapsule = false := by cases e <;> simp [Ty.isPrim] at he <;> rfl
  have hok : ctyRulesOk e l = true := by
    simp only [ctyRulesOk, hcap, Bool.not_false, Bool.true_and, List.all_eq_true]
    intro p hmem
    obtain ⟨bs, _, h⟩ := hash_ok (t := e) hp (hl p hmem).1.1 (hl p hmem).1.2 (hl p hmem).2
    rw [h]; rfl
  simp only [mkSetVal, hemp, Bool.false_eq_true, if_false, hty, hraw, hok, Bool.not_true,
    marksOfAll_clean l (fun p hp => (hl p hp).1.2)]
  simp [Value.withMarks, Payload.withMarks, setPayload, Payload.marks1, unionMarks]

theorem rawBList_symm {e : Ty} (he : e.isPrim = true) : ∀ {xs ys : List Payload}, (∀ p ∈ xs, PrimMem e p) →
    (∀ p ∈ ys, PrimMem e p) → rawBList e xs ys = rawBList e ys xs
  | [], ys, _, _ => by cases ys <;> rfl
  | _ :: _, [], _, _ => rfl
  | x :: xs, y :: ys, hx, hy => by
    simp only [rawBList]
    rw [rawB_symm e x y (Ty.isPrim_plain he).1 (hx x (List.mem_cons_self ..)).1 (hy y (List.mem_cons_self ..)).1,
      rawBList_symm he (fun p hp => hx p (List.mem_cons_of_mem _ hp)) (fun p hp => hy p (List.mem_cons_of_mem _ hp))]

theorem rawBList_trans {e : Ty} (he : e.isPrim = true) : ∀ {xs ys zs : List Payload}, (∀ p ∈ xs, PrimMem e p) →
    (∀ p ∈ ys, PrimMem e p) → (∀ p ∈ zs, PrimMem e p) → xs.length = ys.length →
    rawBList e xs ys = true → rawBList e ys zs = true → rawBList e xs zs = true
  | [], _, _, _, _, _, _, _, _ => by simp [rawBList]
  | _ :: _, [], _, _, _, _, hl, _, _ => by simp at hl
  | _ :: _, _ :: _, [], _, _, _, _, _, _ => by simp [rawBList]
  | x :: xs, y :: ys, z :: zs, hx, hy, hz, hl, h1, h2 => by
    simp only [rawBList, Bool.and_eq_true] at h1 h2 ⊢
    exact ⟨rawB_trans e x y z (Ty.isPrim_plain he).1 (hx x (List.mem_cons_self ..)).1 (hy y (List.mem_cons_self ..)).1
        (hz z (List.mem_cons_self ..)).1 h1.1 h2.1,
      rawBList_trans he (fun p hp => hx p (List.mem_cons_of_mem _ hp)) (fun p hp => hy p (List.mem_cons_of_mem _ hp))
        (fun p hp => hz p (List.mem_cons_of_mem _ hp)) (by simpa using hl) h1.2 h2.2⟩

end CtyModel
