/-
C12 / d12b: `hasindex` end to end: `Impl` is `Value.HasIndex` (C01 `sound_hasIndex`); both parameters accept
dynamically typed arguments and refuse unknown ones.
-/
import CtyModel.Lemmas.d12bConcat
namespace CtyModel
namespace D12b
open Fn Stdlib C12L Cov

theorem hasIndex_clean {v k : Value} (hv : v.containsMarked = false) (hk : k.containsMarked = false) :
    Value.hasIndex v k = Value.hasIndexU v k := by
  simp [Value.hasIndex, Value.binMarks, clean_not_marked hv, clean_not_marked hk]

theorem hasIndexType_mono {o w ok wk : Value} (hty : w.ty = o.ty ∨ w.ty.isDyn = true) :
    TypeMonoAt hasIndexType [o, ok] [w, wk] := by
  intro t ht
  have hto : t = .bool := by
    simp only [hasIndexType] at ht
    split at ht <;> first | (cases ht; rfl) | cases ht
  subst hto
  refine ⟨.bool, ?_, fun _ h => h⟩
  rcases hty with h | h
  · simp only [hasIndexType] at ht ⊢
    rw [h]; exact ht
  · have : w.ty = .dyn := by cases hw : w.ty <;> simp_all [Ty.isDyn]
    simp [hasIndexType, this]

theorem hasIndexType_bool {ws : List Value} {t : Ty} (h : hasIndexType ws = .ok t) : t = .bool := by
  unfold hasIndexType at h
  split at h
  · split at h <;> first | (cases h; rfl) | cases h
  · cases h

theorem hasindex_implSound (o w ok wk : Value) (hk : o.whollyKnown = true) (hkk : ok.whollyKnown = true)
    (hfo : o.wfc = true) (hfk : ok.wfc = true) (hfw : w.wfc = true) (hfwk : wk.wfc = true)
    (hmw : w.containsMarked = false) (hmwk : wk.containsMarked = false)
    (hc : CoversX w o = true) (hck : CoversX wk ok = true) :
    ImplSoundAt hasIndexType hasIndexImpl [o, ok] [w, wk] := by
  intro rt rt' r _ hw hio _ _ _ _
  have := hasIndexType_bool hw
  subst this
  simp only [hasIndexImpl] at hio ⊢
  obtain ⟨r', h1, h2⟩ := C01.sound_hasIndex o ok w wk r hk hkk hfo hfk hfw hfwk hc hck hio
  refine ⟨r', h1, ?_, h2⟩
  rw [hasIndex_clean hmw hmwk] at h1
  rcases hasIndexU_result h1 with h | ⟨b, h⟩ <;> rw [h] <;> rfl

end D12b
end CtyModel
