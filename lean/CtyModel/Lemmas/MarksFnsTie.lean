/-
Tie of the REGENERATED marks API (`Generated/MarksFns.lean`, translated from cty/marks.go by
extract/translate_marks.go on every check) to the hand-written marks model (`Marks.lean`, `MarksOps.lean`,
and for the deep variants `Walk.lean`).

For every translated function: `generated f = .ok (hand-written f)` (or the hand-written `Res`), for ALL
inputs, for every `mapOrder` that lists exactly the keys of the map it is given (`OrdOk`, any permutation
is one), under the hypothesis that the receiver's mark set is canonical (`MSorted`) only where the code
hands a COPY of it out (`Marks`, `Mark`, `Unmark`) — the hand-written model returns the stored list itself.

A source edit inside cty/marks.go changes `Generated/MarksFns.lean`; either these proofs still go through
(a harmless rewrite) or `lake build` fails, which `./check C04` reports as a broken tie.
-/
import CtyModel.Generated.MarksFns
import CtyModel.Lemmas.MarksSets
import CtyModel.Lemmas.MarksApi
import CtyModel.Lemmas.WalkMarks
namespace CtyModel
namespace MarksFnsTie
open Generated.MarksFns MarksGo Value

@[simp] theorem rbind_ok {α β} (a : α) (f : α → Res β) : Res.bind (.ok a) f = f a := rfl
@[simp] theorem rbind_err {α β} (c : String) (f : α → Res β) : Res.bind (.err c) f = .err c := rfl
@[simp] theorem rbind_panic {α β} (c : String) (f : α → Res β) : Res.bind (.panic c) f = .panic c := rfl
@[simp] theorem rbind_unmodelled {α β} (f : α → Res β) : Res.bind .unmodelled f = .unmodelled := rfl

/-! ### map iteration order, and copying a map key by key -/

/-- `range` over a map visits exactly its keys (every permutation does) -/
def OrdOk (ord : Ord) : Prop := ∀ (l : List String) (m : String), m ∈ ord l ↔ m ∈ l

theorem ordOk_id : OrdOk id := fun _ _ => Iff.rfl
theorem ordOk_reverse : OrdOk List.reverse := fun _ _ => List.mem_reverse
theorem ordOk_of_perm {ord : Ord} (h : ∀ l, (ord l).Perm l) : OrdOk ord := fun l _ => (h l).mem_iff

/-- `for k := range l { acc[k] = struct{}{} }` -/
def insAll (acc l : List String) : List String := l.foldl (fun a k => insertMark k a) acc

theorem insAll_sorted {acc : List String} (h : MSorted acc) : ∀ l, MSorted (insAll acc l) := by
  intro l
  induction l generalizing acc with
  | nil => exact h
  | cons x xs ih => exact ih (insertMark_sorted h)

theorem mem_insAll {m : String} : ∀ {l acc : List String}, m ∈ insAll acc l ↔ m ∈ acc ∨ m ∈ l
  | [], acc => by simp [insAll]
  | x :: xs, acc => by
    have : insAll acc (x :: xs) = insAll (insertMark x acc) xs := rfl
    rw [this, mem_insAll, mem_insertMark]
    simp only [List.mem_cons]
    constructor
    · rintro ((h | h) | h)
      · exact .inr (.inl h)
      · exact .inl h
      · exact .inr (.inr h)
    · rintro (h | h | h)
      · exact .inl (.inr h)
      · exact .inl (.inl h)
      · exact .inr h

theorem insAll_eq_nil {acc l : List String} : insAll acc l = [] ↔ acc = [] ∧ l = [] := by
  constructor
  · intro h
    refine ⟨?_, ?_⟩
    · cases acc with
      | nil => rfl
      | cons a as => have : a ∈ insAll (a :: as) l := mem_insAll.mpr (.inl (by simp)); simp [h] at this
    · cases l with
      | nil => rfl
      | cons a as => have : a ∈ insAll acc (a :: as) := mem_insAll.mpr (.inr (by simp)); simp [h] at this
  · rintro ⟨rfl, rfl⟩; rfl

/-- the copy of a map made key by key (`Marks()`, the first loop of `Mark` / `WithMarks` / `WithSameMarks`) -/
def copyM (ord : Ord) (ms : List String) : List String := insAll [] (ord ms)

theorem copyM_sorted (ord : Ord) (ms : List String) : MSorted (copyM ord ms) := insAll_sorted MSorted.nil _

theorem mem_copyM {ord : Ord} (ho : OrdOk ord) {ms : List String} {m : String} : m ∈ copyM ord ms ↔ m ∈ ms := by
  simp [copyM, mem_insAll, ho ms m]

/-- copying a canonical mark set gives the same list -/
theorem copyM_id {ord : Ord} (ho : OrdOk ord) {ms : List String} (h : MSorted ms) : copyM ord ms = ms :=
  MSorted.ext (copyM_sorted ord ms) h fun _ => mem_copyM ho

theorem ord_eq_nil {ord : Ord} (ho : OrdOk ord) {ms : List String} : ord ms = [] ↔ ms = [] := by
  constructor
  · intro h
    cases ms with
    | nil => rfl
    | cons a as => have := (ho (a :: as) a).mpr (by simp); simp [h] at this
  · intro h
    subst h
    cases h' : ord [] with
    | nil => rfl
    | cons a as => have := (ho [] a).mp (by simp [h']); simp at this

theorem copyM_eq_nil {ord : Ord} (ho : OrdOk ord) {ms : List String} : copyM ord ms = [] ↔ ms = [] := by
  simp [copyM, insAll_eq_nil, ord_eq_nil ho]

/-! ### the insertion loops (seven copies of the same three lines in the source) -/

theorem marks_loop (ord : Ord) : ∀ (l acc : List String), Value_Marks_loop1 ord acc l = .ok (insAll acc l)
  | [], _ => rfl
  | x :: xs, acc => by simp only [Value_Marks_loop1, rbind_ok, mapSet, marks_loop ord xs]; rfl

theorem mark_loop (ord : Ord) : ∀ (l acc : List String), Value_Mark_loop1 ord acc l = .ok (insAll acc l)
  | [], _ => rfl
  | x :: xs, acc => by simp only [Value_Mark_loop1, rbind_ok, mapSet, mark_loop ord xs]; rfl

theorem withMarks_loop2 (ord : Ord) : ∀ (l acc : List String), Value_WithMarks_loop2 ord acc l = .ok (insAll acc l)
  | [], _ => rfl
  | x :: xs, acc => by simp only [Value_WithMarks_loop2, rbind_ok, mapSet, withMarks_loop2 ord xs]; rfl

theorem withMarks_loop4 (ord : Ord) : ∀ (l acc : List String), Value_WithMarks_loop4 ord acc l = .ok (insAll acc l)
  | [], _ => rfl
  | x :: xs, acc => by simp only [Value_WithMarks_loop4, rbind_ok, mapSet, withMarks_loop4 ord xs]; rfl

theorem withSame_loop2 (ord : Ord) : ∀ (l acc : List String), Value_WithSameMarks_loop2 ord acc l = .ok (insAll acc l)
  | [], _ => rfl
  | x :: xs, acc => by simp only [Value_WithSameMarks_loop2, rbind_ok, mapSet, withSame_loop2 ord xs]; rfl

theorem withSame_loop4 (ord : Ord) : ∀ (l acc : List String), Value_WithSameMarks_loop4 ord acc l = .ok (insAll acc l)
  | [], _ => rfl
  | x :: xs, acc => by simp only [Value_WithSameMarks_loop4, rbind_ok, mapSet, withSame_loop4 ord xs]; rfl

theorem unmarkDeep_loop2 (ord : Ord) : ∀ (l acc : List String), Value_UnmarkDeep_loop2 ord acc l = .ok (insAll acc l)
  | [], _ => rfl
  | x :: xs, acc => by simp only [Value_UnmarkDeep_loop2, rbind_ok, mapSet, unmarkDeep_loop2 ord xs]; rfl

theorem newValueMarks_loop2 (ord : Ord) : ∀ (l acc : List String), NewValueMarks_loop2 ord acc l = .ok (insAll acc l)
  | [], _ => rfl
  | x :: xs, acc => by simp only [NewValueMarks_loop2, rbind_ok, mapSet, newValueMarks_loop2 ord xs]; rfl

/-- `for _, s := range sets { for m := range s { acc[m] = struct{}{} } }` -/
def insSets (ord : Ord) (acc : List String) (sets : List (List String)) : List String :=
  sets.foldl (fun a s => insAll a (ord s)) acc

theorem insSets_sorted (ord : Ord) : ∀ (sets : List (List String)) {acc : List String}, MSorted acc →
    MSorted (insSets ord acc sets)
  | [], _, h => h
  | _ :: rest, _, h => insSets_sorted ord rest (insAll_sorted h _)

theorem mem_insSets {ord : Ord} (ho : OrdOk ord) {m : String} : ∀ {sets : List (List String)} {acc : List String},
    m ∈ insSets ord acc sets ↔ m ∈ acc ∨ ∃ s ∈ sets, m ∈ s
  | [], acc => by simp [insSets]
  | s :: rest, acc => by
    have : insSets ord acc (s :: rest) = insSets ord (insAll acc (ord s)) rest := rfl
    rw [this, mem_insSets ho, mem_insAll, ho s m]
    simp only [List.mem_cons, exists_eq_or_imp, or_assoc]

theorem insSets_eq_nil {ord : Ord} (ho : OrdOk ord) : ∀ {sets : List (List String)} {acc : List String},
    insSets ord acc sets = [] ↔ acc = [] ∧ ∀ s ∈ sets, s = []
  | [], acc => by simp [insSets]
  | s :: rest, acc => by
    have : insSets ord acc (s :: rest) = insSets ord (insAll acc (ord s)) rest := rfl
    rw [this, insSets_eq_nil ho, insAll_eq_nil, ord_eq_nil ho]
    simp only [List.mem_cons, forall_eq_or_imp, and_assoc]

theorem withMarks_loop3 (ord : Ord) : ∀ (sets : List (List String)) (acc : List String),
    Value_WithMarks_loop3 ord acc sets = .ok (insSets ord acc sets)
  | [], _ => rfl
  | s :: rest, acc => by
    simp only [Value_WithMarks_loop3, withMarks_loop4, rbind_ok, withMarks_loop3 ord rest]; rfl

/-- total length of a list of maps -/
def sumLen (sets : List (List String)) : Nat := (sets.map List.length).sum

theorem sumLen_eq_zero : ∀ {sets : List (List String)}, sumLen sets = 0 ↔ ∀ s ∈ sets, s = []
  | [] => by simp [sumLen]
  | s :: rest => by
    have ih := sumLen_eq_zero (sets := rest)
    simp only [sumLen, List.map_cons, List.sum_cons, Nat.add_eq_zero_iff, List.length_eq_zero_iff, List.mem_cons,
      forall_eq_or_imp] at ih ⊢
    rw [ih]

theorem withMarks_loop1 (ord : Ord) : ∀ (sets : List (List String)) (n : Int),
    Value_WithMarks_loop1 ord n sets = .ok (n + Int.ofNat (sumLen sets))
  | [], n => by simp [Value_WithMarks_loop1, sumLen]
  | s :: rest, n => by
    simp only [Value_WithMarks_loop1, rbind_ok, withMarks_loop1 ord rest, mapLen, sumLen, List.map_cons, List.sum_cons]
    congr 1
    simp only [Int.ofNat_eq_natCast, Int.natCast_add]
    omega

theorem unionAllMarks_eq_nil : ∀ {sets : List (List String)}, unionAllMarks sets = [] ↔ ∀ s ∈ sets, s = []
  | [] => by simp [unionAllMarks]
  | s :: rest => by
    have : unionAllMarks (s :: rest) = unionMarks s (unionAllMarks rest) := rfl
    rw [this, unionMarks_eq_nil, unionAllMarks_eq_nil (sets := rest)]
    simp

/-! ### the shallow API -/

/-- the top-level mark set of a value with canonical marker layers is canonical -/
theorem msorted_marks_of_canon {v : Value} (hc : v.v.marksCanon) : MSorted v.marks := by
  obtain ⟨t, p⟩ := v
  cases p <;> first | exact MSorted.nil | exact hc.1


theorem IsMarked_tie (ord : Ord) (v : Value) : Value_IsMarked ord v = .ok v.isMarked := by
  obtain ⟨t, p⟩ := v
  cases p <;> rfl

/-- `Marks()` hands out a copy of the receiver's mark set, built key by key -/
theorem copyM_nil {ord : Ord} (ho : OrdOk ord) : copyM ord [] = [] := (copyM_eq_nil ho).mpr rfl

theorem Marks_copy {ord : Ord} (ho : OrdOk ord) (v : Value) : Value_Marks ord v = .ok (copyM ord v.marks) := by
  obtain ⟨t, p⟩ := v
  cases p <;> simp [Value_Marks, marks_loop, copyM_nil ho, Value.marks, Payload.marks1, mapEmpty]
  rfl

/-- **`Marks`** -/
theorem Marks_tie {ord : Ord} (ho : OrdOk ord) (v : Value) (hc : MSorted v.marks) : Value_Marks ord v = .ok v.marks := by
  rw [Marks_copy ho, copyM_id ho hc]

/-- **`HasMark`** with an ordinary mark -/
theorem HasMark_tie (ord : Ord) (v : Value) (m : String) : Value_HasMark ord v (.one m) = .ok (v.hasMark m) := by
  obtain ⟨t, p⟩ := v
  cases p <;> simp [Value_HasMark, keyOf, mapHas, hasMark, Value.marks, Payload.marks1]

/-- … and with a `ValueMarks` as the mark: Go's runtime panic when the receiver is marked, `false` otherwise -/
theorem HasMark_set (ord : Ord) (v : Value) (ms : List String) :
    Value_HasMark ord v (.set ms) =
      if v.isMarked then .panic "runtime error: hash of unhashable type cty.ValueMarks" else .ok false := by
  obtain ⟨t, p⟩ := v
  cases p <;> simp [Value_HasMark, keyOf, Value.isMarked, Payload.isMarked]

/-- **`Mark`** -/
theorem Mark_tie {ord : Ord} (ho : OrdOk ord) (v : Value) (hc : MSorted v.marks) (m : String) :
    Value_Mark ord v (.one m) = .ok (v.mark m) := by
  obtain ⟨t, p⟩ := v
  cases p <;> try (simp [Value_Mark, mark, mapSet, mapEmpty, Payload.marks1, Payload.unmark1]; done)
  rename_i ms r
  have : copyM ord ms = ms := copyM_id ho hc
  simp only [copyM] at this
  simp [Value_Mark, mark_loop, mark, mapSet, mapEmpty, Payload.marks1, Payload.unmark1, this]

/-- `Mark` refuses a `ValueMarks` -/
theorem Mark_set_panics (ord : Ord) (v : Value) (ms : List String) :
    Value_Mark ord v (.set ms) = .panic "cannot call Value.Mark with a ValueMarks value (use WithMarks instead)" := rfl

/-- **`Unmark`** -/
theorem Unmark_tie {ord : Ord} (ho : OrdOk ord) (v : Value) (hc : MSorted v.marks) :
    Value_Unmark ord v = .ok v.unmarkPair := by
  have hm := Marks_tie ho v hc
  obtain ⟨t, p⟩ := v
  cases p <;> try (simp [Value_Unmark, IsMarked_tie, unmarkPair, Value.isMarked, Payload.isMarked]; done)
  rename_i ms r
  simp [Value_Unmark, IsMarked_tie, unmarkPair, Value.isMarked, Payload.isMarked, hm, Value.unmark, Payload.unmark1]

/-- the value `Unmark` returns does not depend on the mark set being canonical -/
theorem Unmark_value {ord : Ord} (ho : OrdOk ord) (v : Value) :
    Value_Unmark ord v = .ok (v.unmark, if v.isMarked then copyM ord v.marks else []) := by
  have hm := Marks_copy ho v
  obtain ⟨t, p⟩ := v
  cases p <;> try (simp [Value_Unmark, IsMarked_tie, Value.isMarked, Payload.isMarked, Value.unmark, Payload.unmark1]; done)
  rename_i ms r
  simp [Value_Unmark, IsMarked_tie, Value.isMarked, Payload.isMarked, hm, Value.unmark, Payload.unmark1]

/-- **`unmarkForce`** -/
theorem unmarkForce_tie {ord : Ord} (ho : OrdOk ord) (v : Value) : Value_unmarkForce ord v = .ok v.unmark := by
  simp [Value_unmarkForce, Unmark_value ho]

/-- **`assertUnmarked`** panics exactly on a marked value -/
theorem assertUnmarked_tie (ord : Ord) (v : Value) :
    Value_assertUnmarked ord v = if v.isMarked then .panic "value is marked, so must be unmarked first" else .ok () := by
  simp [Value_assertUnmarked, IsMarked_tie]

/-- the mark set `WithMarks` / `WithSameMarks` build -/
theorem merged_eq {ord : Ord} (ho : OrdOk ord) (own : List String) (sets : List (List String)) :
    insSets ord (insAll [] (ord (copyM ord own))) sets = unionMarks own (unionAllMarks sets) := by
  refine MSorted.ext (insSets_sorted ord sets (insAll_sorted MSorted.nil _))
    (unionMarks_sorted own (unionAllMarks_sorted sets)) fun m => ?_
  rw [mem_insSets ho, mem_insAll, ho, mem_copyM ho, mem_unionMarks, mem_unionAllMarks]
  simp

theorem count_zero_iff {ord : Ord} (ho : OrdOk ord) (own : List String) (sets : List (List String)) :
    ((mapLen (copyM ord own) + Int.ofNat (sumLen sets)) == 0) = (unionMarks own (unionAllMarks sets)).isEmpty := by
  have h1 : ((mapLen (copyM ord own) + Int.ofNat (sumLen sets)) == 0) = true ↔ own = [] ∧ ∀ s ∈ sets, s = [] := by
    rw [← copyM_eq_nil ho (ms := own), ← sumLen_eq_zero, ← List.length_eq_zero_iff (l := copyM ord own)]
    simp only [mapLen, beq_iff_eq, Int.ofNat_eq_natCast]
    omega
  have h2 : (unionMarks own (unionAllMarks sets)).isEmpty = true ↔ own = [] ∧ ∀ s ∈ sets, s = [] := by
    rw [List.isEmpty_iff, unionMarks_eq_nil, unionAllMarks_eq_nil]
  cases h : (unionMarks own (unionAllMarks sets)).isEmpty
  · cases h' : ((mapLen (copyM ord own) + Int.ofNat (sumLen sets)) == 0)
    · rfl
    · rw [h1.mp h' |> h2.mpr] at h; cases h
  · exact h1.mpr (h2.mp h)

/-- **`WithMarks`**: for every receiver (one marker layer is merged into, `withMarks`) and every list of mark sets -/
theorem WithMarks_tie {ord : Ord} (ho : OrdOk ord) (v : Value) (mss : List (List String)) :
    Value_WithMarks ord v mss = .ok (v.withMarksV mss) := by
  unfold Value_WithMarks withMarksV
  by_cases h0 : mss.length = 0
  · simp [h0]
  · have h0' : ¬ ((Int.ofNat mss.length == (0 : Int)) = true) := by
      simp only [beq_iff_eq, Int.ofNat_eq_natCast]; omega
    have h0'' : ¬ ((mss.length == 0) = true) := by simpa using h0
    rw [if_neg h0', if_neg h0'']
    simp only [Marks_copy ho, rbind_ok, withMarks_loop1, withMarks_loop2, withMarks_loop3, mapEmpty]
    rw [count_zero_iff ho]
    have hm := merged_eq ho v.marks mss
    obtain ⟨t, p⟩ := v
    simp only [Value.marks] at hm ⊢
    by_cases hc : (unionMarks p.marks1 (unionAllMarks mss)).isEmpty = true
    · simp [hc, Value.withMarks, Payload.withMarks]
    · cases p <;> simp_all [Value.withMarks, Payload.withMarks, Payload.unmark1, Payload.marks1]

/-! ### `WithSameMarks` -/

theorem withSame_loop1 (ord : Ord) : ∀ (srcs : List Value) (n : Int),
    Value_WithSameMarks_loop1 ord n srcs = .ok (n + Int.ofNat (sumLen (srcs.map Value.marks)))
  | [], n => by simp [Value_WithSameMarks_loop1, sumLen]
  | ⟨t, p⟩ :: rest, n => by
    cases p <;>
      simp only [Value_WithSameMarks_loop1, rbind_ok, withSame_loop1 ord rest, mapLen, sumLen, List.map_cons,
        List.sum_cons, Value.marks, Payload.marks1, List.length_nil] <;>
      congr 1 <;> simp only [Int.ofNat_eq_natCast, Int.natCast_add] <;> omega

theorem withSame_loop3 {ord : Ord} (ho : OrdOk ord) : ∀ (srcs : List Value) (acc : List String),
    Value_WithSameMarks_loop3 ord acc srcs = .ok (insSets ord acc (srcs.map Value.marks))
  | [], _ => rfl
  | ⟨t, p⟩ :: rest, acc => by
    have hnil : insAll acc (ord []) = acc := by rw [(ord_eq_nil ho).mpr rfl]; rfl
    cases p <;>
      simp only [Value_WithSameMarks_loop3, withSame_loop4, rbind_ok, withSame_loop3 ho rest, List.map_cons, insSets,
        List.foldl_cons, Value.marks, Payload.marks1, hnil]

/-- **`WithSameMarks`** -/
theorem WithSameMarks_tie {ord : Ord} (ho : OrdOk ord) (v : Value) (srcs : List Value) :
    Value_WithSameMarks ord v srcs = .ok (v.withSameMarks srcs) := by
  unfold Value_WithSameMarks withSameMarks
  by_cases h0 : srcs.length = 0
  · simp [h0]
  · have h0' : ¬ ((Int.ofNat srcs.length == (0 : Int)) = true) := by
      simp only [beq_iff_eq, Int.ofNat_eq_natCast]; omega
    have h0'' : ¬ ((srcs.length == 0) = true) := by simpa using h0
    rw [if_neg h0', if_neg h0'']
    simp only [Marks_copy ho, rbind_ok, withSame_loop1, withSame_loop2, withSame_loop3 ho, mapEmpty]
    rw [count_zero_iff ho]
    have hm := merged_eq ho v.marks (srcs.map Value.marks)
    obtain ⟨t, p⟩ := v
    simp only [Value.marks] at hm ⊢
    by_cases hc : (unionMarks p.marks1 (unionAllMarks (srcs.map Value.marks))).isEmpty = true
    · simp [hc]
    · cases p <;> simp_all [Payload.unmark1, Payload.marks1]

/-! ### `ValueMarks.Equal`, `HasSameMarks` -/

theorem equal_loop (ord : Ord) (b : List String) : ∀ (l : List String),
    ValueMarks_Equal_loop1 ord b () l = .ok (if l.all b.contains then Flow.next () else Flow.ret false)
  | [] => rfl
  | x :: xs => by
    by_cases hx : x ∈ b
    · simp [ValueMarks_Equal_loop1, mapHas, hx, equal_loop ord b xs]
    · simp [ValueMarks_Equal_loop1, mapHas, hx]

theorem all_ord {ord : Ord} (ho : OrdOk ord) (a : List String) (p : String → Bool) : (ord a).all p = a.all p := by
  rw [Bool.eq_iff_iff, List.all_eq_true, List.all_eq_true]
  exact ⟨fun h x hx => h x ((ho a x).mpr hx), fun h x hx => h x ((ho a x).mp hx)⟩

/-- **`ValueMarks.Equal`** -/
theorem Equal_tie {ord : Ord} (ho : OrdOk ord) (a b : List String) : ValueMarks_Equal ord a b = .ok (marksEqual a b) := by
  unfold ValueMarks_Equal marksEqual
  by_cases hl : a.length = b.length
  · have : ¬ ((mapLen a != mapLen b) = true) := by simp [mapLen, hl]
    rw [if_neg this, equal_loop, all_ord ho]
    by_cases h : a.all b.contains = true <;> simp [h, hl]
  · have : (mapLen a != mapLen b) = true := by simp only [mapLen, bne_iff_ne, ne_eq, Int.ofNat_eq_natCast]; omega
    rw [if_pos this]
    simp [hl]

/-- **`HasSameMarks`** -/
theorem HasSameMarks_tie {ord : Ord} (ho : OrdOk ord) (a b : Value) : Value_HasSameMarks ord a b = .ok (a.hasSameMarks b) := by
  obtain ⟨ta, pa⟩ := a
  obtain ⟨tb, pb⟩ := b
  cases pa <;> cases pb <;>
    simp [Value_HasSameMarks, hasSameMarks, Equal_tie ho, Value.isMarked, Payload.isMarked, Value.marks, Payload.marks1]

/-! ### `NewValueMarks` -/

/-- the set an argument of `NewValueMarks` contributes -/
def argSet : MarkArg → List String
  | .one m => [m]
  | .set ms => ms

def insArgs (ord : Ord) (acc : List String) (args : List MarkArg) : List String :=
  args.foldl (fun a x => match x with
    | .set s => insAll a (ord s)
    | .one k => insertMark k a) acc

theorem insArgs_sorted (ord : Ord) : ∀ (args : List MarkArg) {acc : List String}, MSorted acc → MSorted (insArgs ord acc args)
  | [], _, h => h
  | .one _ :: rest, _, h => insArgs_sorted ord rest (insertMark_sorted h)
  | .set _ :: rest, _, h => insArgs_sorted ord rest (insAll_sorted h _)

theorem mem_insArgs {ord : Ord} (ho : OrdOk ord) {m : String} : ∀ {args : List MarkArg} {acc : List String},
    m ∈ insArgs ord acc args ↔ m ∈ acc ∨ ∃ a ∈ args, m ∈ argSet a
  | [], acc => by simp [insArgs]
  | .one k :: rest, acc => by
    have : insArgs ord acc (.one k :: rest) = insArgs ord (insertMark k acc) rest := rfl
    rw [this, mem_insArgs ho, mem_insertMark]
    simp only [List.mem_cons, exists_eq_or_imp, argSet, List.not_mem_nil, or_false]
    constructor
    · rintro ((h | h) | h)
      · exact .inr (.inl h)
      · exact .inl h
      · exact .inr (.inr h)
    · rintro (h | h | h)
      · exact .inl (.inr h)
      · exact .inl (.inl h)
      · exact .inr h
  | .set s :: rest, acc => by
    have : insArgs ord acc (.set s :: rest) = insArgs ord (insAll acc (ord s)) rest := rfl
    rw [this, mem_insArgs ho, mem_insAll, ho s m]
    simp only [List.mem_cons, exists_eq_or_imp, argSet, or_assoc]

theorem newValueMarks_loop1 (ord : Ord) : ∀ (args : List MarkArg) (acc : List String),
    NewValueMarks_loop1 ord acc args = .ok (insArgs ord acc args)
  | [], _ => rfl
  | .one k :: rest, acc => by
    simp only [NewValueMarks_loop1, rbind_ok, mapSet, newValueMarks_loop1 ord rest]; rfl
  | .set s :: rest, acc => by
    simp only [NewValueMarks_loop1, newValueMarks_loop2, rbind_ok, newValueMarks_loop1 ord rest]; rfl

/-- **`NewValueMarks`**: the union of what the arguments contribute (a `ValueMarks` argument is merged) -/
theorem NewValueMarks_tie {ord : Ord} (ho : OrdOk ord) (args : List MarkArg) :
    NewValueMarks ord args = .ok (unionAllMarks (args.map argSet)) := by
  have hr : insArgs ord [] args = unionAllMarks (args.map argSet) :=
    MSorted.ext (insArgs_sorted ord args MSorted.nil) (unionAllMarks_sorted _) fun m => by
      rw [mem_insArgs ho, mem_unionAllMarks]
      simp only [List.not_mem_nil, false_or, List.mem_map]
      constructor
      · rintro ⟨a, ha, hm⟩; exact ⟨_, ⟨a, ha, rfl⟩, hm⟩
      · rintro ⟨_, ⟨a, ha, rfl⟩, hm⟩; exact ⟨a, ha, hm⟩
  unfold NewValueMarks
  cases args with
  | nil => rfl
  | cons a rest =>
    have : ¬ ((Int.ofNat (a :: rest).length == (0 : Int)) = true) := by
      simp only [List.length_cons, beq_iff_eq, Int.ofNat_eq_natCast]; omega
    rw [if_neg this]
    simp only [newValueMarks_loop1, rbind_ok, mapEmpty, hr]
    by_cases h : (mapLen (unionAllMarks (List.map argSet (a :: rest))) == (0 : Int)) = true
    · rw [if_pos h]
      have : (unionAllMarks (List.map argSet (a :: rest))).length = 0 := by
        simp only [mapLen, beq_iff_eq, Int.ofNat_eq_natCast] at h; omega
      rw [List.length_eq_zero_iff.mp this]
    · rw [if_neg h]

/-! ### the deep variants: the two transformers over the hand-written `transform` -/

theorem sliceDone_some : ∀ xs : List PathStep, PathGo.sliceDone (xs.map some) = .ok xs
  | [] => rfl
  | x :: xs => by simp [PathGo.sliceDone, sliceDone_some xs, Res.map]

theorem sliceCopy_fresh : ∀ (p : List PathStep), PathGo.sliceCopy (List.replicate p.length none) p = p.map some
  | [] => rfl
  | x :: xs => by simp [PathGo.sliceCopy, List.replicate, sliceCopy_fresh xs]

/-- `path := make(Path, len(p), len(p)+1); copy(path, p)` is a copy of `p` -/
theorem path_copy (p : List PathStep) :
    (Res.bind (pathMake (Int.ofNat p.length) (Int.ofNat p.length + (1 : Int))) fun x =>
      PathGo.sliceDone (PathGo.sliceCopy x p)) = .ok p := by
  have h1 : ¬ (((p.length : Int) + (1 : Int)) < (p.length : Int)) := by omega
  have h2 : ¬ ((p.length : Int) < 0) := by omega
  simp only [pathMake, PathGo.sliceMake, Int.ofNat_eq_natCast, h1, h2, if_false, rbind_ok,
    Int.toNat_natCast, sliceCopy_fresh, sliceDone_some]

/-- the record `unmarkTransformer.Enter` appends: the path and a COPY of the mark set -/
def canonPVM (ord : Ord) (e : Walk.PVM) : Walk.PVM := (e.1, copyM ord e.2)

theorem canonPVM_id {ord : Ord} (ho : OrdOk ord) {e : Walk.PVM} (h : MSorted e.2) : canonPVM ord e = e := by
  obtain ⟨q, ms⟩ := e
  simp only [canonPVM, copyM_id ho h]

theorem Unmark_value' {ord : Ord} (ho : OrdOk ord) (v : Value) : Value_Unmark ord v = .ok (v.unmark, copyM ord v.marks) := by
  rw [Unmark_value ho]
  obtain ⟨t, p⟩ := v
  cases p <;> simp [Value.isMarked, Payload.isMarked, Value.marks, Payload.marks1, copyM_nil ho]

/-- **`unmarkTransformer.Enter`** -/
theorem unmarkEnter_eq {ord : Ord} (ho : OrdOk ord) (s : List Walk.PVM) (p : List PathStep) (v : Value) :
    unmarkTransformer_Enter ord s p v =
      .ok (if v.marks.isEmpty then s else s ++ [(p, copyM ord v.marks)], v.unmark) := by
  unfold unmarkTransformer_Enter
  rw [Unmark_value' ho]
  simp only [rbind_ok]
  by_cases h : v.marks = []
  · have hc : copyM ord v.marks = [] := (copyM_eq_nil ho).mpr h
    rw [hc, h]
    simp [mapLen]
  · have hne : copyM ord v.marks ≠ [] := fun hc => h ((copyM_eq_nil ho).mp hc)
    have hpos : (mapLen (copyM ord v.marks) > (0 : Int)) := by
      have := List.length_pos_iff.mpr hne
      simp only [mapLen, Int.ofNat_eq_natCast]; omega
    have hemp : v.marks.isEmpty = false := by simpa [List.isEmpty_iff] using h
    simp only [hpos, decide_true, if_true, hemp]
    have := path_copy p
    simp only [Res.bind] at this ⊢
    revert this
    cases pathMake (Int.ofNat p.length) (Int.ofNat p.length + 1) with
    | ok x =>
      simp only
      intro hx
      rw [hx]
      rfl
    | err c => intro hx; cases hx
    | panic w => intro hx; cases hx
    | unmodelled => intro hx; cases hx

theorem unmarkExit_eq (ord : Ord) (s : List Walk.PVM) (p : List PathStep) (v : Value) :
    unmarkTransformer_Exit ord s p v = .ok (s, v) := rfl

/-- the Go object `&unmarkTransformer{}` with its translated methods -/
def unmarkObj (ord : Ord) : GoTransformer (List Walk.PVM) := ⟨unmarkTransformer_Enter ord, unmarkTransformer_Exit ord⟩

/-- its field `pvm` after a history: one record per `Enter` that saw marks — the hand-written `pvmOf` -/
theorem unmark_replay {ord : Ord} (ho : OrdOk ord) : ∀ (log : List Walk.Ev) (s : List Walk.PVM),
    replay (unmarkObj ord) s log = s ++ (Walk.pvmOf log).map (canonPVM ord)
  | [], s => by simp [replay, Walk.pvmOf]
  | .enter p v :: rest, s => by
    have : Walk.pvmOf (.enter p v :: rest) =
        (if v.marks.isEmpty then [] else [(p, v.marks)]) ++ Walk.pvmOf rest := by
      simp only [Walk.pvmOf, List.filterMap_cons]
      split <;> rename_i h <;> split at h <;> simp_all
    rw [this]
    simp only [replay, show (unmarkObj ord).enter = unmarkTransformer_Enter ord from rfl, unmarkEnter_eq ho, after,
      unmark_replay ho rest]
    by_cases h : v.marks.isEmpty = true <;> simp [h, canonPVM]
  | .exit p v :: rest, s => by
    have : Walk.pvmOf (.exit p v :: rest) = Walk.pvmOf rest := by simp [Walk.pvmOf]
    rw [this]
    simp only [replay, show (unmarkObj ord).exit = unmarkTransformer_Exit ord from rfl, unmarkExit_eq, after,
      unmark_replay ho rest]

/-- as the hand-written `transform` sees it, the object IS the hand-written `unmarkT` -/
theorem unmark_toWalk {ord : Ord} (ho : OrdOk ord) (s0 : List Walk.PVM) : toWalk (unmarkObj ord) s0 = Walk.unmarkT := by
  simp only [toWalk, Walk.unmarkT, Walk.Transformer.mk.injEq]
  refine ⟨?_, ?_⟩
  · funext log p v
    simp only [unmarkObj, unmarkEnter_eq ho, Res.map]
  · funext log p v
    simp only [unmarkObj, unmarkExit_eq, Res.map]

/-- the run of the hand-written transform with the hand-written `unmarkT` -/
def unmarkRun (X : SetOracle) (σ : Walk.Sched) (v : Value) : List Walk.Ev × Res Value :=
  Walk.transformWith X σ Walk.unmarkT (v.v.depth + 1) v

/-- **`UnmarkDeepWithPaths`, every input**: the value of the hand-written run, and the hand-written record list
`pvmOf` with every mark set copied.  (When the run returns an error — it cannot: neither method fails — Go
still returns the records made so far; the hand-written `Walk.unmarkDeepWithPaths` says `[]` there.) -/
theorem UnmarkDeepWithPaths_run {ord : Ord} (ho : OrdOk ord) (X : SetOracle) (σ : Walk.Sched) (v : Value) :
    Value_UnmarkDeepWithPaths ord X σ v =
      match unmarkRun X σ v with
      | (log, .ok r) => .ok (r, (Walk.pvmOf log).map (canonPVM ord))
      | (log, .err _) => .ok (Value.dynVal, (Walk.pvmOf log).map (canonPVM ord))
      | (_, .panic w) => .panic w
      | (_, .unmodelled) => .unmodelled := by
  unfold Value_UnmarkDeepWithPaths transformWithTransformer unmarkRun
  have : (⟨unmarkTransformer_Enter ord, unmarkTransformer_Exit ord⟩ : GoTransformer (List Walk.PVM)) = unmarkObj ord := rfl
  rw [this, unmark_toWalk ho]
  rcases Walk.transformWith X σ Walk.unmarkT (v.v.depth + 1) v with ⟨log, r⟩
  cases r <;> simp [unmark_replay ho]

/-- **`UnmarkDeepWithPaths` = the hand-written `Walk.unmarkDeepWithPaths`** with every recorded mark set copied,
whenever the hand-written run does not end in an error -/
theorem UnmarkDeepWithPaths_tie {ord : Ord} (ho : OrdOk ord) (X : SetOracle) (σ : Walk.Sched) (v : Value)
    (hne : ∀ c, (unmarkRun X σ v).2 ≠ .err c) :
    Value_UnmarkDeepWithPaths ord X σ v =
      (Walk.unmarkDeepWithPaths X σ v).map fun q => (q.1, q.2.map (canonPVM ord)) := by
  rw [UnmarkDeepWithPaths_run ho]
  unfold Walk.unmarkDeepWithPaths
  unfold unmarkRun at hne ⊢
  rcases h : Walk.transformWith X σ Walk.unmarkT (v.v.depth + 1) v with ⟨log, r⟩
  rw [h] at hne
  cases r with
  | ok r => rfl
  | err c => exact absurd rfl (hne c)
  | panic w => rfl
  | unmodelled => rfl

theorem unmarkDeep_loop1 (ord : Ord) : ∀ (pvm : List Walk.PVM) (acc : List String),
    Value_UnmarkDeep_loop1 ord acc pvm = .ok (insSets ord acc (pvm.map (·.2)))
  | [], _ => rfl
  | e :: rest, acc => by
    simp only [Value_UnmarkDeep_loop1, unmarkDeep_loop2, rbind_ok, unmarkDeep_loop1 ord rest]; rfl

theorem insSets_nil_eq {ord : Ord} (ho : OrdOk ord) (sets : List (List String)) :
    insSets ord [] sets = unionAllMarks sets :=
  MSorted.ext (insSets_sorted ord sets MSorted.nil) (unionAllMarks_sorted sets) fun m => by
    rw [mem_insSets ho, mem_unionAllMarks]; simp

/-- **`UnmarkDeep`** is `UnmarkDeepWithPaths` followed by the union of the recorded mark sets -/
theorem UnmarkDeep_tie {ord : Ord} (ho : OrdOk ord) (X : SetOracle) (σ : Walk.Sched) (v : Value) :
    Value_UnmarkDeep ord X σ v =
      (Value_UnmarkDeepWithPaths ord X σ v).map fun q => (q.1, unionAllMarks (q.2.map (·.2))) := by
  unfold Value_UnmarkDeep Value_UnmarkDeepWithPaths
  cases transformWithTransformer X σ
      (⟨unmarkTransformer_Enter ord, unmarkTransformer_Exit ord⟩ : GoTransformer (List Walk.PVM)) [] v with
  | ok q =>
    obtain ⟨pvm, r, e⟩ := q
    simp only [rbind_ok, unmarkDeep_loop1, mapEmpty, insSets_nil_eq ho, Res.map]
  | err c => rfl
  | panic w => rfl
  | unmodelled => rfl

/-! ### the hand-written `transform` never returns an error of its own: only a callback can -/

open Walk

def NoErr {α} (r : Res α) : Prop := ∀ c, r ≠ .err c

theorem NoErr.map {α β} {f : α → β} {r : Res α} (h : NoErr r) : NoErr (r.map f) := by
  intro c
  cases r with
  | err c' => exact absurd rfl (h c')
  | ok a => simp [Res.map]
  | panic w => simp [Res.map]
  | unmodelled => simp [Res.map]

theorem unifyElemTy_noErr : ∀ (vs : List Value) (acc : Ty), NoErr (unifyElemTy acc vs)
  | [], _ => by intro c; simp [unifyElemTy]
  | v :: vs, acc => by
    unfold unifyElemTy
    split
    · exact unifyElemTy_noErr vs _
    · split
      · intro c; simp
      · exact unifyElemTy_noErr vs _

theorem listVal_noErr (vs : List Value) : NoErr (Walk.listVal vs) := by
  unfold Walk.listVal
  split
  · intro c; simp
  · exact (unifyElemTy_noErr vs _).map

theorem mapVal_noErr (ks : List String) (vs : List Value) : NoErr (Walk.mapVal ks vs) := by
  unfold Walk.mapVal
  split
  · intro c; simp
  · exact (unifyElemTy_noErr vs _).map

theorem setVal_noErr (X : SetOracle) (vs : List Value) : NoErr (Walk.setVal X vs) := by
  unfold Walk.setVal
  split
  · intro c; simp
  · have h := unifyElemTy_noErr (vs.map Value.unmarkDeep) .dyn
    simp only
    cases hu : unifyElemTy .dyn (vs.map Value.unmarkDeep) with
    | err c' => exact absurd hu (h c')
    | ok e => simp only; split <;> (intro c; simp)
    | panic w => intro c; simp
    | unmodelled => intro c; simp

theorem transformKids_noErr (rec : TRec) (h : ∀ log path v, NoErr (rec log path v).2) :
    ∀ (cs : List (PathStep × Value)) (log : List Ev) (path : Path), NoErr (transformKids rec log path cs).2
  | [], log, path => by intro c; simp [transformKids]
  | (s, c) :: rest, log, path => by
    have h1 := h log (path ++ [s]) c
    unfold transformKids
    rcases hr : rec log (path ++ [s]) c with ⟨log', r⟩
    rw [hr] at h1
    cases r with
    | err c' => exact absurd rfl (h1 c')
    | panic w => intro c; simp
    | unmodelled => intro c; simp
    | ok nv =>
      simp only
      have h2 := transformKids_noErr rec h rest log' path
      rcases hk : transformKids rec log' path rest with ⟨log'', r'⟩
      rw [hk] at h2
      cases r' with
      | err c' => exact absurd rfl (h2 c')
      | ok nvs => intro c; simp
      | panic w => intro c; simp
      | unmodelled => intro c; simp

theorem liftRes_noErr {α β} (log : List Ev) (r : Res α) (h : NoErr r) : NoErr (liftRes (β := β) log r).2 := by
  intro c
  cases r with
  | err c' => exact absurd rfl (h c')
  | ok a => simp [liftRes]
  | panic w => simp [liftRes]
  | unmodelled => simp [liftRes]

/-- what `rebuild` does with the transformed members -/
theorem kidsThen_noErr (rec : TRec) (h : ∀ log path v, NoErr (rec log path v).2) (log : List Ev) (path : Path)
    (cs : List (PathStep × Value)) (k : List Value → Res Value) (hk : ∀ es, NoErr (k es)) :
    NoErr (match transformKids rec log path cs with
      | (log, .ok elems) => (log, k elems)
      | (log, r) => liftRes log r).2 := by
  have h2 := transformKids_noErr rec h cs log path
  rcases hkids : transformKids rec log path cs with ⟨log', r⟩
  rw [hkids] at h2
  cases r with
  | ok es => exact hk es
  | err c' => exact absurd rfl (h2 c')
  | panic w => intro c; simp [liftRes]
  | unmodelled => intro c; simp [liftRes]

theorem rebuild_noErr (X : SetOracle) (σ : Sched) (rec : TRec) (h : ∀ log path v, NoErr (rec log path v).2)
    (log : List Ev) (path : Path) (val : Value) : NoErr (rebuild X σ rec log path val).2 := by
  unfold rebuild
  simp only
  split
  · intro c; simp
  · split
    · split
      · intro c; simp
      · exact kidsThen_noErr rec h _ _ _ _ fun es => (listVal_noErr es).map
    · split
      · intro c; simp
      · exact kidsThen_noErr rec h _ _ _ _ fun es => (setVal_noErr X es).map
    · split
      · intro c; simp
      · exact kidsThen_noErr rec h _ _ _ _ fun es => by intro c; simp
    · split
      · intro c; simp
      · exact kidsThen_noErr rec h _ _ _ _ fun es => (mapVal_noErr _ es).map
    · split
      · intro c; simp
      · exact kidsThen_noErr rec h _ _ _ _ fun es => by intro c; simp
    · intro c; simp

theorem transformFuel_noErr (X : SetOracle) (σ : Sched) (t : Transformer)
    (he : ∀ log p v, NoErr (t.enter log p v)) (hx : ∀ log p v, NoErr (t.exit log p v)) :
    ∀ (f : Nat) (log : List Ev) (path : Path) (v : Value), NoErr (transformFuel X σ t f log path v).2
  | 0, _, _, _ => by intro c; simp [transformFuel]
  | f + 1, log, path, v => by
    unfold transformFuel
    have h1 := he log path v
    cases hen : t.enter log path v with
    | err c' => exact absurd hen (h1 c')
    | panic w => intro c; simp
    | unmodelled => intro c; simp
    | ok val =>
      simp only
      have h2 := rebuild_noErr X σ (transformFuel X σ t f) (transformFuel_noErr X σ t he hx f)
        (log ++ [.enter path v]) path val
      generalize rebuild X σ (transformFuel X σ t f) (log ++ [.enter path v]) path val = rb at h2 ⊢
      obtain ⟨log', r⟩ := rb
      cases r with
      | err c' => exact absurd rfl (h2 c')
      | panic w => intro c; simp
      | unmodelled => intro c; simp
      | ok nv =>
        simp only
        have h3 := hx log' path nv
        generalize t.exit log' path nv = ex at h3 ⊢
        cases ex with
        | err c' => exact absurd rfl (h3 c')
        | ok r => intro c; simp
        | panic w => intro c; simp
        | unmodelled => intro c; simp

/-- the run of `unmarkT` never ends in an error -/
theorem unmarkRun_noErr (X : SetOracle) (σ : Sched) (v : Value) : ∀ c, (unmarkRun X σ v).2 ≠ .err c :=
  transformFuel_noErr X σ unmarkT (fun _ _ _ c => by simp [unmarkT]) (fun _ _ _ c => by simp [unmarkT]) _ _ _ _

/-- **`UnmarkDeepWithPaths` = the hand-written `Walk.unmarkDeepWithPaths`** with every recorded mark set copied:
every value, every oracle, every attribute order, every map order -/
theorem UnmarkDeepWithPaths_eq {ord : Ord} (ho : OrdOk ord) (X : SetOracle) (σ : Sched) (v : Value) :
    Value_UnmarkDeepWithPaths ord X σ v =
      (Walk.unmarkDeepWithPaths X σ v).map fun q => (q.1, q.2.map (canonPVM ord)) :=
  UnmarkDeepWithPaths_tie ho X σ v (unmarkRun_noErr X σ v)

theorem unionAll_copies {ord : Ord} (ho : OrdOk ord) (sets : List (List String)) :
    unionAllMarks (sets.map (copyM ord)) = unionAllMarks sets :=
  MSorted.ext (unionAllMarks_sorted _) (unionAllMarks_sorted _) fun m => by
    rw [mem_unionAllMarks, mem_unionAllMarks]
    constructor
    · rintro ⟨_, hs, hm⟩
      obtain ⟨s, hs', rfl⟩ := List.mem_map.mp hs
      exact ⟨s, hs', (mem_copyM ho).mp hm⟩
    · rintro ⟨s, hs, hm⟩
      exact ⟨_, List.mem_map.mpr ⟨s, hs, rfl⟩, (mem_copyM ho).mpr hm⟩

/-- **`UnmarkDeep` = the value of the hand-written `Walk.unmarkDeepWithPaths` and the union of the mark sets it
records**: every value, every oracle, every attribute order, every map order -/
theorem UnmarkDeep_eq {ord : Ord} (ho : OrdOk ord) (X : SetOracle) (σ : Sched) (v : Value) :
    Value_UnmarkDeep ord X σ v =
      (Walk.unmarkDeepWithPaths X σ v).map fun q => (q.1, unionAllMarks (q.2.map (·.2))) := by
  rw [UnmarkDeep_tie ho, UnmarkDeepWithPaths_eq ho]
  cases Walk.unmarkDeepWithPaths X σ v with
  | ok q =>
    simp only [Res.map, List.map_map]
    have : ((fun e : Walk.PVM => e.2) ∘ canonPVM ord) = (copyM ord ∘ fun e : Walk.PVM => e.2) := by
      funext e; rfl
    rw [this, ← List.map_map, unionAll_copies ho]
  | err c => rfl
  | panic w => rfl
  | unmodelled => rfl

/-! ### `MarkWithPaths` -/

/-- the loop of `applyPathValueMarksTransformer.Exit` is the hand-written `findPVM` -/
theorem markExit_loop {ord : Ord} (ho : OrdOk ord) (X : SetOracle) (σ : Walk.Sched) (tp : List Walk.PVM)
    (p : List PathStep) (v : Value) : ∀ (l : List Walk.PVM), (∀ e ∈ l, MSorted e.2) →
    applyPathValueMarksTransformer_Exit_loop1 ord X σ tp p v () l =
      (Walk.findPVM X p l).map fun o => match o with
        | some ms => Flow.ret (tp, v.withMarks ms)
        | none => Flow.next ()
  | [], _ => rfl
  | (q, ms) :: rest, hs => by
    have hms : MSorted ms := hs (q, ms) (by simp)
    have hw : Value_WithMarks ord v [ms] = .ok (v.withMarks ms) := by
      rw [WithMarks_tie ho]
      simp only [withMarksV, List.length_cons, List.length_nil]
      have : unionAllMarks [ms] = ms := unionMarks_nil_right_sorted hms
      rw [this]; rfl
    simp only [applyPathValueMarksTransformer_Exit_loop1, Walk.findPVM]
    cases Path.equals X p q with
    | ok b =>
      cases b
      · simp only [rbind_ok, Bool.false_eq_true, if_false]
        exact markExit_loop ho X σ tp p v rest fun e he => hs e (by simp [he])
      · simp only [rbind_ok, if_true, hw, Res.map]
    | err c => rfl
    | panic w => rfl
    | unmodelled => rfl

/-- **`applyPathValueMarksTransformer.Exit`** -/
theorem markExit_eq {ord : Ord} (ho : OrdOk ord) (X : SetOracle) (σ : Walk.Sched) (tp : List Walk.PVM)
    (hs : ∀ e ∈ tp, MSorted e.2) (p : List PathStep) (v : Value) :
    applyPathValueMarksTransformer_Exit ord X σ tp p v =
      (Walk.findPVM X p tp).map fun o => (tp, match o with
        | some ms => v.withMarks ms
        | none => v) := by
  unfold applyPathValueMarksTransformer_Exit
  rw [markExit_loop ho X σ tp p v tp hs]
  cases Walk.findPVM X p tp with
  | ok o => cases o <;> rfl
  | err c => rfl
  | panic w => rfl
  | unmodelled => rfl

/-- the Go object `&applyPathValueMarksTransformer{pvm}` with its translated methods -/
def markObj (ord : Ord) (X : SetOracle) (σ : Walk.Sched) : GoTransformer (List Walk.PVM) :=
  ⟨applyPathValueMarksTransformer_Enter ord, applyPathValueMarksTransformer_Exit ord X σ⟩

theorem mark_replay {ord : Ord} (ho : OrdOk ord) (X : SetOracle) (σ : Walk.Sched) (pvm : List Walk.PVM)
    (hs : ∀ e ∈ pvm, MSorted e.2) : ∀ (log : List Walk.Ev), replay (markObj ord X σ) pvm log = pvm
  | [] => rfl
  | .enter p v :: rest => by
    simp only [replay, markObj, applyPathValueMarksTransformer_Enter, after]
    exact mark_replay ho X σ pvm hs rest
  | .exit p v :: rest => by
    have : after (applyPathValueMarksTransformer_Exit ord X σ pvm p v) pvm = pvm := by
      rw [markExit_eq ho X σ pvm hs]
      cases Walk.findPVM X p pvm <;> rfl
    simp only [replay, markObj, this]
    exact mark_replay ho X σ pvm hs rest

theorem mark_toWalk {ord : Ord} (ho : OrdOk ord) (X : SetOracle) (σ : Walk.Sched) (pvm : List Walk.PVM)
    (hs : ∀ e ∈ pvm, MSorted e.2) : toWalk (markObj ord X σ) pvm = Walk.markT X pvm := by
  simp only [toWalk, Walk.markT, Walk.Transformer.mk.injEq]
  refine ⟨?_, ?_⟩
  · funext log p v
    simp only [markObj, applyPathValueMarksTransformer_Enter, Res.map]
  · funext log p v
    rw [mark_replay ho X σ pvm hs]
    simp only [markObj, markExit_eq ho X σ pvm hs]
    cases Walk.findPVM X p pvm with
    | ok o => cases o <;> rfl
    | err c => rfl
    | panic w => rfl
    | unmodelled => rfl

/-- **`MarkWithPaths` = the hand-written `Walk.markWithPaths`**, for every value and every record list whose
mark sets are canonical -/
theorem MarkWithPaths_tie {ord : Ord} (ho : OrdOk ord) (X : SetOracle) (σ : Walk.Sched) (v : Value)
    (pvm : List Walk.PVM) (hs : ∀ e ∈ pvm, MSorted e.2) :
    Value_MarkWithPaths ord X σ v pvm = Walk.markWithPaths X σ v pvm := by
  unfold Value_MarkWithPaths transformWithTransformer Walk.markWithPaths
  have : (⟨applyPathValueMarksTransformer_Enter ord, applyPathValueMarksTransformer_Exit ord X σ⟩ :
      GoTransformer (List Walk.PVM)) = markObj ord X σ := rfl
  rw [this, mark_toWalk ho X σ pvm hs]
  rcases Walk.transformWith X σ (Walk.markT X pvm) (v.v.depth + 1) v with ⟨log, r⟩
  cases r <;> rfl

/-- **`PathValueMarks.Equal`** -/
theorem PathValueMarksEqual_tie {ord : Ord} (ho : OrdOk ord) (X : SetOracle) (σ : Walk.Sched) (a b : Walk.PVM) :
    PathValueMarks_Equal ord X σ a.1 a.2 b.1 b.2 = (Path.equals X a.1 b.1).map fun e => e && marksEqual a.2 b.2 := by
  unfold PathValueMarks_Equal
  cases Path.equals X a.1 b.1 with
  | ok e => cases e <;> simp [Equal_tie ho, Res.map] <;> cases marksEqual a.2 b.2 <;> rfl
  | err c => rfl
  | panic w => rfl
  | unmodelled => rfl

/-! ### the deep variants on values the hand-written walk theorems cover (`Walk.Good`) -/

open Walk in
/-- **Unmark, then remark — the regenerated functions.**  For every value meeting `Walk.Good` whose mark sets are
canonical at every position, every pair of attribute schedules and every map order: the translated
`UnmarkDeepWithPaths` returns the value with every mark removed at every depth and exactly one record (path, marks)
per marked position, and the translated `MarkWithPaths` of that value with those records returns the original value. -/
theorem unmark_remark_generated {ord : Ord} (ho : OrdOk ord) {X : SetOracle} (hX : IterPerm X) {σ σ' : Sched}
    (hσ : SchedOk σ) (hσ' : SchedOk σ') (v : Value) (hg : Good X v)
    (hcan : ∀ r n, nodeAt X v r = some n → MSorted n.marks) :
    ∃ pvm, Value_UnmarkDeepWithPaths ord X σ v = .ok (v.unmarkDeep, pvm) ∧
      v.unmarkDeep.containsMarked = false ∧
      (∀ q ms, (q, ms) ∈ pvm ↔
        ∃ r n, nodeAt X v r = some n ∧ pathAt X v r = some q ∧ ms = n.marks ∧ n.marks ≠ []) ∧
      Value_MarkWithPaths ord X σ' v.unmarkDeep pvm = .ok v := by
  have hmem : ∀ q ms, (q, ms) ∈ pvmOf (unEvs X σ (v.v.depth + 1) [] v) ↔
      ∃ r n, nodeAt X v r = some n ∧ pathAt X v r = some q ∧ ms = n.marks ∧ n.marks ≠ [] := by
    intro q ms
    rw [mem_pvmOf_unEvs hX hσ (v.v.depth + 1) v (by omega) hg.shaped [] q ms]
    constructor
    · rintro ⟨r, n, q', h1, h2, h3, h4, h5⟩
      exact ⟨r, n, h1, by simpa [h3] using h2, h4, h5⟩
    · rintro ⟨r, n, h1, h2, h3, h4⟩
      exact ⟨r, n, q, h1, h2, by simp, h3, h4⟩
  have hsorted : ∀ e ∈ pvmOf (unEvs X σ (v.v.depth + 1) [] v), MSorted e.2 := by
    rintro ⟨q, ms⟩ he
    obtain ⟨r, n, h1, _, h3, _⟩ := (hmem q ms).mp he
    rw [h3]; exact hcan r n h1
  have hcanon : (pvmOf (unEvs X σ (v.v.depth + 1) [] v)).map (canonPVM ord) = pvmOf (unEvs X σ (v.v.depth + 1) [] v) := by
    rw [List.map_congr_left fun e he => canonPVM_id ho (hsorted e he), List.map_id']
  refine ⟨pvmOf (unEvs X σ (v.v.depth + 1) [] v), ?_, stripMarks_not_containsMarked v.v, hmem, ?_⟩
  · have h := transformFuel_unmark hX hσ (v.v.depth + 1) v (by omega) hg [] []
    rw [UnmarkDeepWithPaths_run ho]
    simp only [unmarkRun, transformWith, h, List.nil_append, hcanon]
  · rw [MarkWithPaths_tie ho X σ' _ _ hsorted]
    obtain ⟨evs, hev⟩ := transformFuel_remark hX hσ' (pvmOf (unEvs X σ (v.v.depth + 1) [] v))
      ((strip v).v.depth + 1) v (by omega) hg []
      (fun r m q hm hq => by simpa using adequate_unmark hX hσ v hg.shaped r m q hm hq)
    simp only [Walk.markWithPaths, transformWith]
    have := hev []
    simp only [strip] at this
    rw [this]

open Walk in
/-- **`UnmarkDeep`, regenerated, on `Good` values**: the value with every mark removed, and a canonical mark set
holding exactly the marks found at some position. -/
theorem unmarkDeep_generated {ord : Ord} (ho : OrdOk ord) {X : SetOracle} (hX : IterPerm X) {σ : Sched}
    (hσ : SchedOk σ) (v : Value) (hg : Good X v) :
    ∃ ms, Value_UnmarkDeep ord X σ v = .ok (v.unmarkDeep, ms) ∧ MSorted ms ∧
      v.unmarkDeep.containsMarked = false ∧
      ∀ m, m ∈ ms ↔ ∃ r n, nodeAt X v r = some n ∧ m ∈ n.marks := by
  have h := transformFuel_unmark hX hσ (v.v.depth + 1) v (by omega) hg [] []
  refine ⟨unionAllMarks (((pvmOf (unEvs X σ (v.v.depth + 1) [] v)).map (canonPVM ord)).map (·.2)), ?_,
    unionAllMarks_sorted _, stripMarks_not_containsMarked v.v, fun m => ?_⟩
  · rw [UnmarkDeep_tie ho, UnmarkDeepWithPaths_run ho]
    simp only [unmarkRun, transformWith, h, List.nil_append, Res.map]
  · rw [mem_unionAllMarks]
    constructor
    · rintro ⟨ms, hms, hm⟩
      obtain ⟨e', he', rfl⟩ := List.mem_map.mp hms
      obtain ⟨⟨q, ms0⟩, he, rfl⟩ := List.mem_map.mp he'
      obtain ⟨r, n, q', h1, _, _, h4, _⟩ :=
        (mem_pvmOf_unEvs hX hσ (v.v.depth + 1) v (by omega) hg.shaped [] q ms0).mp he
      refine ⟨r, n, h1, ?_⟩
      simp only [canonPVM, mem_copyM ho] at hm
      rw [← h4]; exact hm
    · rintro ⟨r, n, h1, hm⟩
      obtain ⟨q, hq⟩ := pathAt_isSome_of_nodeAt r v n h1
      have hne : n.marks ≠ [] := fun h => by rw [h] at hm; cases hm
      have he := (mem_pvmOf_unEvs hX hσ (v.v.depth + 1) v (by omega) hg.shaped [] q n.marks).mpr
        ⟨r, n, q, h1, hq, by simp, rfl, hne⟩
      exact ⟨copyM ord n.marks, List.mem_map.mpr ⟨canonPVM ord (q, n.marks), List.mem_map.mpr ⟨_, he, rfl⟩, rfl⟩,
        (mem_copyM ho).mpr hm⟩

/-! ### `ContainsMarked`: the function literal over the hand-written `Walk.walk` -/

/-- the callback of `ContainsMarked` as the hand-written walk sees it: descend exactly below unmarked values -/
def cmCb : Walk.WalkCb := fun _ _ v => .ok (!v.isMarked)

def anyMarked (evs : List Walk.Visit) : Bool := evs.any fun e => e.2.isMarked

theorem cm_func (ord : Ord) (st : Bool) (p : List PathStep) (v : Value) :
    Value_ContainsMarked_func1 ord st p v = .ok (if v.isMarked then (true, false) else (st, true)) := by
  simp only [Value_ContainsMarked_func1, IsMarked_tie, rbind_ok]
  cases v.isMarked <;> rfl

/-- the captured variable `ret` after a history: some visited value was marked -/
theorem cm_replay (ord : Ord) : ∀ (log : List Walk.Visit) (s : Bool),
    replayW (Value_ContainsMarked_func1 ord) s log = (s || anyMarked log)
  | [], s => by simp [replayW, anyMarked]
  | (p, v) :: rest, s => by
    simp only [replayW, cm_func, after, cm_replay ord rest, anyMarked, List.any_cons]
    cases v.isMarked <;> cases s <;> simp

theorem cm_cb (ord : Ord) :
    (fun log p v => (Value_ContainsMarked_func1 ord (replayW (Value_ContainsMarked_func1 ord) false log) p v).map (·.2)) =
      cmCb := by
  funext log p v
  simp only [cm_func, cmCb, Res.map]
  cases v.isMarked <;> rfl

theorem anyMarked_append (a b : List Walk.Visit) : anyMarked (a ++ b) = (anyMarked a || anyMarked b) := by
  simp [anyMarked, List.any_append]

open Walk in
theorem cm_walkKids (rec : WalkRec) : ∀ (cs : List (PathStep × Value)),
    (∀ c ∈ cs, ∀ log path, ∃ evs, rec log path c.2 = (log ++ evs, .ok ()) ∧ anyMarked evs = c.2.containsMarked) →
    ∀ log path, ∃ evs, walkKids rec log path cs = (log ++ evs, .ok ()) ∧
      anyMarked evs = cs.any fun c => c.2.containsMarked
  | [], _, log, path => ⟨[], by simp [walkKids], rfl⟩
  | (s, c) :: rest, h, log, path => by
    obtain ⟨e1, h1, a1⟩ := h (s, c) (by simp) log (path ++ [s])
    obtain ⟨e2, h2, a2⟩ := cm_walkKids rec rest (fun c hc => h c (by simp [hc])) (log ++ e1) path
    refine ⟨e1 ++ e2, ?_, ?_⟩
    · simp only [walkKids, h1, h2, List.append_assoc]
    · simp only [anyMarked_append, a1, a2, List.any_cons]

open Walk in
theorem seqKids_any (e : Ty) : ∀ (i : Nat) (vs : List Payload),
    (seqKids e i vs).any (fun c => c.2.v.containsMarked) = Payload.containsMarkedL vs
  | _, [] => rfl
  | i, v :: vs => by simp only [seqKids, List.any_cons, Payload.containsMarkedL, seqKids_any e (i + 1) vs]

open Walk in
theorem mapKids_any (e : Ty) : ∀ (ks : List String) (vs : List Payload), ks.length = vs.length →
    (mapKids e ks vs).any (fun c => c.2.v.containsMarked) = Payload.containsMarkedL vs
  | [], [], _ => rfl
  | [], _ :: _, h => by cases h
  | _ :: _, [], h => by cases h
  | k :: ks, v :: vs, h => by
    simp only [mapKids, List.any_cons, Payload.containsMarkedL, mapKids_any e ks vs (by simpa using h)]

open Walk in
theorem tupKids_any : ∀ (i : Nat) (ts : List Ty) (vs : List Payload), ts.length = vs.length →
    (tupKids i ts vs).any (fun c => c.2.v.containsMarked) = Payload.containsMarkedL vs
  | _, [], [], _ => rfl
  | _, [], _ :: _, h => by cases h
  | _, _ :: _, [], h => by cases h
  | i, t :: ts, v :: vs, h => by
    simp only [tupKids, List.any_cons, Payload.containsMarkedL, tupKids_any (i + 1) ts vs (by simpa using h)]

open Walk in
theorem objKids_any : ∀ (ns : List String) (ts : List Ty) (vs : List Payload), ns.length = ts.length →
    ts.length = vs.length → (objKids ns ts vs).any (fun c => c.2.v.containsMarked) = Payload.containsMarkedL vs
  | [], [], [], _, _ => rfl
  | [], _ :: _, _, h, _ => by cases h
  | _ :: _, [], _, h, _ => by cases h
  | [], [], _ :: _, _, h => by cases h
  | _ :: _, _ :: _, [], _, h => by cases h
  | n :: ns, t :: ts, v :: vs, h1, h2 => by
    simp only [objKids, List.any_cons, Payload.containsMarkedL, objKids_any ns ts vs (by simpa using h1) (by simpa using h2)]

open Walk in
theorem setKids_any_false (e : Ty) : ∀ (ms : List Payload), (∀ m ∈ ms, m.containsMarked = false) →
    (setKids e ms).any (fun c => c.2.v.containsMarked) = false
  | [], _ => rfl
  | m :: ms, h => by
    simp only [setKids, List.any_cons, h m (by simp), Bool.false_or]
    exact setKids_any_false e ms fun x hx => h x (by simp [hx])

open Walk in
/-- the members of an unmarked shaped value hold a mark exactly when the value does -/
theorem children_any {X : SetOracle} (hX : IterPerm X) (v : Value) (hs : shapedV v = true) (hm : v.isMarked = false) :
    (children X v).any (fun c => c.2.containsMarked) = v.containsMarked := by
  obtain ⟨ty, p⟩ := v
  cases ty <;> cases p <;>
    simp only [shapedV, shaped, Bool.and_eq_true, Bool.false_eq_true, beq_iff_eq, decide_eq_true_eq,
      Bool.not_eq_true'] at hs <;>
    simp only [children, List.any_nil, Value.containsMarked, Payload.containsMarked, Value.isMarked,
      Payload.isMarked, Bool.true_eq_false] at hm ⊢
  · exact seqKids_any _ _ _
  · rw [hs.1.2]
    exact setKids_any_false _ _ fun m hm' => containsMarkedL_mem hs.1.2 m ((hX _ _ _).mem_iff.mp hm')
  · exact mapKids_any _ _ _ hs.1.1
  · exact tupKids_any _ _ _ hs.1.1
  · exact objKids_any _ _ _ hs.1.1.1.1.2 hs.1.1.2

open Walk in
/-- **the walk of `ContainsMarked`**: it succeeds, and some visited value is marked exactly when the value
contains a mark -/
theorem cm_walkFuel {X : SetOracle} (hX : IterPerm X) : ∀ (f : Nat) (val : Value), val.v.depth < f →
    shapedV val = true → ∀ log path, ∃ evs, walkFuel X cmCb f log path val = (log ++ evs, .ok ()) ∧
      anyMarked evs = val.containsMarked
  | 0, _, h, _, _, _ => by omega
  | f + 1, val, hd, hs, log, path => by
    by_cases hm : val.isMarked = true
    · refine ⟨[(path, val)], by simp [walkFuel, cmCb, hm], ?_⟩
      obtain ⟨t, p⟩ := val
      cases p <;> simp_all [anyMarked, Value.isMarked, Payload.isMarked, Value.containsMarked, Payload.containsMarked]
    · have hm' : val.isMarked = false := by simpa using hm
      have hu : val.unmark = val := by
        obtain ⟨t, p⟩ := val
        cases p <;> simp_all [Value.isMarked, Payload.isMarked, Value.unmark, Payload.unmark1]
      by_cases hn : (val.isNull || !val.isKnown) = true
      · refine ⟨[(path, val)], by simp [walkFuel, cmCb, hm', hn], ?_⟩
        obtain ⟨t, p⟩ := val
        cases p <;> simp_all [anyMarked, Value.isMarked, Payload.isMarked, Value.containsMarked, Payload.containsMarked,
          Value.isNull, Payload.isNull, Value.isKnown, Payload.isKnown, Payload.unmark1]
      · have hkids := cm_walkKids (walkFuel X cmCb f) (children X val) (fun c hc log' path' =>
          cm_walkFuel hX f c.2 (by
            have := depth_lt_of_mem_members (children_mem hX _ _ hc)
            omega) (children_shaped hX val hs c hc) log' path') (log ++ [(path, val)]) path
        obtain ⟨evs, h1, h2⟩ := hkids
        refine ⟨(path, val) :: evs, ?_, ?_⟩
        · simp only [walkFuel, cmCb, hm', Bool.not_false, Bool.not_true, Bool.false_eq_true, if_false, hn, hu, h1,
            List.append_assoc, List.singleton_append]
        · simp only [anyMarked, List.any_cons, hm', Bool.false_or]
          exact h2.trans (children_any hX val hs hm')

open Walk in
/-- **`ContainsMarked`** -/
theorem ContainsMarked_tie (ord : Ord) {X : SetOracle} (hX : IterPerm X) (σ : Sched) (v : Value)
    (hs : shapedV v = true) : Value_ContainsMarked ord X σ v = .ok v.containsMarked := by
  obtain ⟨evs, h1, h2⟩ := cm_walkFuel hX (v.v.depth + 1) v (by omega) hs [] []
  unfold Value_ContainsMarked MarksGo.walk
  rw [cm_cb]
  simp only [Walk.walk]
  rw [h1]
  simp [cm_replay, h2]

end MarksFnsTie
end CtyModel
