/-
C12 / d12b: `coalesce` end to end (general.go CoalesceFunc): the first non-null argument, converted to the
unified type; an UNKNOWN argument met first gives the unknown of that type.  The conversion of a known
argument of another type is `convert.Convert` — a parameter of the model (`Env.convert`); what the proof
needs of it is the law `EnvConvertSound` (property C08 proves it of the conversion model).
-/
import CtyModel.Lemmas.d12bKeys
namespace CtyModel
namespace D12b
open Fn Stdlib C12L Cov

/-- what `coalesce` / `lookup` need of `convert.Convert`: converting a weakening (same type) of a value
succeeds when converting the value does, to a result of the same type that admits the concrete one -/
def EnvConvertSound (E : Env) : Prop :=
  ∀ o w t r, CoversX w o = true → w.ty = o.ty → E.convert o t = .ok r →
    ∃ r', E.convert w t = .ok r' ∧ r'.ty = r.ty ∧ Covers r' r = true

/-- every weakened argument has the type of the argument it weakens -/
def TyKeptS : List Value → List Value → Prop
  | [], [] => True
  | w :: ws, o :: os => w.ty = o.ty ∧ TyKeptS ws os
  | _, _ => False

theorem TyKeptS.toU : ∀ {ws os : List Value}, TyKeptS ws os → TyKeptU ws os
  | [], [], _ => trivial
  | [], _ :: _, h => h
  | _ :: _, [], h => h
  | _ :: ws, _ :: os, h => ⟨Or.inl h.1, TyKeptS.toU h.2⟩

theorem TyKeptS.map_ty : ∀ {ws os : List Value}, TyKeptS ws os → ws.map (·.ty) = os.map (·.ty)
  | [], [], _ => rfl
  | [], _ :: _, h => by cases h
  | _ :: _, [], h => by cases h
  | _ :: ws, _ :: os, h => by simp [h.1, TyKeptS.map_ty h.2]

theorem coalesceType_eq (E : Env) {ws os : List Value} (h : TyKeptS ws os) : coalesceType E ws = coalesceType E os := by
  simp [coalesceType, TyKeptS.map_ty h]

/-- the argument loop of `Impl` -/
theorem coalesceLoop_sound (E : Env) (hE : EnvConvertSound E) (rt : Ty) (r : Value)
    (hunk : Covers (Value.unknown rt) r = true) :
    ∀ (os ws : List Value), coversAll ws os = true → TyKeptS ws os →
    (∀ a ∈ os, a.containsMarked = false) → (∀ a ∈ ws, a.containsMarked = false) →
    coalesceLoop E rt os = .ok r →
    ∃ r', coalesceLoop E rt ws = .ok r' ∧ Covers r' r = true ∧ (r' = Value.unknown rt ∨ r'.ty = r.ty)
  | [], [], _, _, _, _, h => by simp [coalesceLoop] at h
  | [], _ :: _, hc, _, _, _, _ => by simp [coversAll] at hc
  | _ :: _, [], hc, _, _, _, _ => by simp [coversAll] at hc
  | o :: os, w :: ws, hc, hk, hmo, hmw, h => by
    simp only [coversAll, Bool.and_eq_true] at hc
    have hmo0 := hmo o (by simp)
    have hmw0 := hmw w (by simp)
    have ih := coalesceLoop_sound E hE rt r hunk os ws hc.2 hk.2 (fun a ha => hmo a (by simp [ha]))
      (fun a ha => hmw a (by simp [ha]))
    simp only [coalesceLoop] at h ⊢
    by_cases hwk : w.isKnown = true
    · obtain ⟨hok, hnull⟩ := known_shape hmw0 hmo0 hc.1 hwk
      by_cases hok' : o.isKnown = true
      · simp only [hwk, hok', Bool.not_true, Bool.false_eq_true, if_false] at h ⊢
        rw [hnull]
        by_cases hn : o.isNull = true
        · simp only [hn, if_true] at h ⊢
          exact ih h
        · simp only [hn, Bool.false_eq_true, if_false] at h ⊢
          unfold convertTo at h ⊢
          rw [hk.1]
          by_cases heq : o.ty.equals rt.stripOpt = true
          · simp only [heq, if_true, Res.ok.injEq] at h ⊢
            subst h
            exact ⟨w, rfl, coversX_covers hc.1, Or.inr hk.1⟩
          · simp only [heq, Bool.false_eq_true, if_false] at h ⊢
            obtain ⟨r', h1, h2, h3⟩ := hE o w rt r hc.1 hk.1 h
            exact ⟨r', h1, h3, Or.inr h2⟩
      · rw [hok] at hok'; exact absurd rfl hok'
    · simp only [hwk, Bool.not_false, if_true]
      exact ⟨_, rfl, hunk, Or.inl rfl⟩

theorem coalesce_implSound (E : Env) (hE : EnvConvertSound E) (os ws : List Value) (hcov : coversAll ws os = true)
    (hk : TyKeptS ws os)
    (hmo : ∀ a ∈ os, a.containsMarked = false) (hmw : ∀ a ∈ ws, a.containsMarked = false) :
    ImplSoundAt (coalesceType E) (coalesceImpl E) os ws := by
  intro rt rt' r ho hw hio hconf hwf' hrwf _
  rw [coalesceType_eq E hk, ho] at hw
  cases hw
  have hunk : Covers (Value.unknown rt) r = true :=
    unknown_covers_of_matches rt r ((Ty.conform_iff rt r.ty hwf' hrwf).mp hconf)
  obtain ⟨r', hr', hcr, hty⟩ := coalesceLoop_sound E hE rt r hunk os ws hcov hk hmo hmw hio
  refine ⟨r', hr', ?_, hcr⟩
  rcases hty with h | h
  · rw [h]; exact (Ty.conform_iff rt rt hwf' hwf').mpr (Ty.matches_refl rt)
  · rw [h]; exact hconf

end D12b
end CtyModel
