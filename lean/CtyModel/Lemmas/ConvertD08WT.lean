/-
Well-typedness is preserved by conversion (C08, audit "missing theorems" / brief item 3):
the result of a successful conversion of a well-typed value to a placeholder-free
target is well typed (`Value.wt`), and it is wholly known when the input was.

The typing theorem of `ConvertType.lean` gives the result *type*; this file adds
that the result *payload* is one that type can have (`wtP`), for every closure body.
-/
import CtyModel.Lemmas.ConvertProps
import CtyModel.Lemmas.WFRefine
set_option linter.unusedSimpArgs false
namespace CtyModel
namespace Convert
open Ty

/-! ### marks and well-typed payloads -/

theorem wtP_unmark1 {t : Ty} {p : Payload} (h : wtP t p = true) :
    wtP t p.unmark1 = true ∧ p.unmark1.isMarked = false := by
  cases p <;> simp_all [Payload.unmark1, Payload.isMarked, wtP]

theorem wtP_withMarks {t : Ty} {p : Payload} (ms : List String) (h : wtP t p = true) :
    wtP t (p.withMarks ms) = true := by
  simp only [Payload.withMarks]
  split
  · exact h
  · have := wtP_unmark1 h
    simp [wtP, this.1, this.2]

theorem wk_unmark1 (p : Payload) : p.unmark1.whollyKnown = p.whollyKnown := by
  cases p <;> simp [Payload.unmark1, Payload.whollyKnown]

theorem wk_withMarks (p : Payload) (ms : List String) : (p.withMarks ms).whollyKnown = p.whollyKnown := by
  simp only [Payload.withMarks]
  split
  · rfl
  · simp [Payload.whollyKnown, wk_unmark1]

theorem stripMarksL_len : ∀ (vs : List Payload), (Payload.stripMarksL vs).length = vs.length
  | [] => rfl
  | _ :: vs => by simp [Payload.stripMarksL, stripMarksL_len vs]

mutual
theorem wtP_stripMarks : ∀ (t : Ty) (p : Payload), wtP t p = true → wtP t p.stripMarks = true
  | t, .marked ms r, h => by
    simp only [wtP, Bool.and_eq_true] at h
    simp only [Payload.stripMarks]; exact wtP_stripMarks t r h.2
  | t, .seq vs, h => by
    cases t <;> simp [wtP] at h
    · simp only [Payload.stripMarks, wtP]; exact wtAll_stripMarks _ vs h
    · simp only [Payload.stripMarks, wtP]; exact wtZip_stripMarks _ vs h
  | t, .smap ks vs, h => by
    cases t <;> simp [wtP] at h
    · simp only [Payload.stripMarks, wtP, stripMarksL_len, Bool.and_eq_true, beq_iff_eq]
      exact ⟨h.1, wtAll_stripMarks _ vs h.2⟩
    · simp only [Payload.stripMarks, wtP, Bool.and_eq_true, beq_iff_eq]
      exact ⟨h.1, wtZip_stripMarks _ vs h.2⟩
  | t, .sset ids vs, h => by
    cases t <;> simp [wtP] at h
    simp only [Payload.stripMarks, wtP, stripMarksL_len, Bool.and_eq_true, beq_iff_eq]
    exact ⟨h.1, wtAll_stripMarks _ vs h.2⟩
  | t, .null, _ => by simp [Payload.stripMarks, wtP]
  | t, .unk r, h => by simp [Payload.stripMarks, wtP]
  | t, .b _, h | t, .n _, h | t, .s _, h | t, .caps, h | t, .bad _, h => by simpa [Payload.stripMarks] using h
theorem wtAll_stripMarks : ∀ (e : Ty) (vs : List Payload), wtAll e vs = true → wtAll e (Payload.stripMarksL vs) = true
  | _, [], _ => rfl
  | e, v :: vs, h => by
    simp only [wtAll, Bool.and_eq_true] at h
    simp [Payload.stripMarksL, wtAll, wtP_stripMarks e v h.1, wtAll_stripMarks e vs h.2]
theorem wtZip_stripMarks : ∀ (ts : List Ty) (vs : List Payload), wtZip ts vs = true → wtZip ts (Payload.stripMarksL vs) = true
  | [], [], _ => rfl
  | [], _ :: _, h => by simp [wtZip] at h
  | _ :: _, [], h => by simp [wtZip] at h
  | t :: ts, v :: vs, h => by
    simp only [wtZip, Bool.and_eq_true] at h
    simp [Payload.stripMarksL, wtZip, wtP_stripMarks t v h.1, wtZip_stripMarks ts vs h.2]
end

mutual
theorem wk_stripMarks : ∀ (p : Payload), p.stripMarks.whollyKnown = p.whollyKnown
  | .marked _ r => by simp only [Payload.stripMarks, Payload.whollyKnown]; exact wk_stripMarks r
  | .seq vs => by simp [Payload.stripMarks, Payload.whollyKnown, wkL_stripMarks vs]
  | .smap _ vs => by simp [Payload.stripMarks, Payload.whollyKnown, wkL_stripMarks vs]
  | .sset _ vs => by simp [Payload.stripMarks, Payload.whollyKnown, wkL_stripMarks vs]
  | .null | .unk _ | .b _ | .n _ | .s _ | .caps | .bad _ => by simp [Payload.stripMarks]
theorem wkL_stripMarks : ∀ (vs : List Payload), Payload.whollyKnownL (Payload.stripMarksL vs) = Payload.whollyKnownL vs
  | [] => rfl
  | v :: vs => by simp [Payload.stripMarksL, Payload.whollyKnownL, wk_stripMarks v, wkL_stripMarks vs]
end

mutual
theorem stripMarks_noMarks : ∀ (p : Payload), p.stripMarks.containsMarked = false
  | .marked _ r => by simp only [Payload.stripMarks]; exact stripMarks_noMarks r
  | .seq vs => by simp [Payload.stripMarks, Payload.containsMarked, stripMarksL_noMarks vs]
  | .smap _ vs => by simp [Payload.stripMarks, Payload.containsMarked, stripMarksL_noMarks vs]
  | .sset _ vs => by simp [Payload.stripMarks, Payload.containsMarked, stripMarksL_noMarks vs]
  | .null | .unk _ | .b _ | .n _ | .s _ | .caps | .bad _ => by simp [Payload.stripMarks, Payload.containsMarked]
theorem stripMarksL_noMarks : ∀ (vs : List Payload), Payload.containsMarkedL (Payload.stripMarksL vs) = false
  | [] => rfl
  | v :: vs => by simp [Payload.stripMarksL, Payload.containsMarkedL, stripMarks_noMarks v, stripMarksL_noMarks vs]
end

/-! ### the invariant: the payload is one the value's own type can have; wholly known if asked -/

/-- `k = true` additionally asks for a wholly-known payload -/
def vgood (k : Bool) (v : Value) : Prop := wtP v.ty v.v = true ∧ (k = true → v.v.whollyKnown = true)

theorem vgood_withMarks {k : Bool} {v : Value} (ms : List String) (h : vgood k v) : vgood k (v.withMarks ms) :=
  ⟨wtP_withMarks ms h.1, fun hk => by simp [Value.withMarks, wk_withMarks, h.2 hk]⟩

theorem vgood_null (k : Bool) (t : Ty) : vgood k (Value.null t) := ⟨by simp [Value.null, wtP], fun _ => rfl⟩

theorem vgood_stripNull {k : Bool} {v : Value} (h : vgood k v) : vgood k (stripNull v) := by
  unfold stripNull
  split
  · exact vgood_withMarks _ (vgood_null k _)
  · exact h

theorem vgood_unknown (t : Ty) : vgood false (Value.unknown t) := ⟨by simp [Value.unknown, wtP], by simp⟩

/-! ### lists of good values make good collections -/

theorem wtAll_of_good {k : Bool} {t : Ty} : ∀ (vs : List Value), (∀ v ∈ vs, v.ty = t) → (∀ v ∈ vs, vgood k v) →
    wtAll t (vs.map (·.v)) = true
  | [], _, _ => rfl
  | v :: vs, ht, hg => by
    have h1 := (hg v (by simp)).1
    rw [ht v (by simp)] at h1
    have ih := wtAll_of_good vs (fun x hx => ht x (List.mem_cons_of_mem _ hx))
      (fun x hx => hg x (List.mem_cons_of_mem _ hx))
    simp [wtAll, h1, ih]

theorem wtZip_of_good {k : Bool} : ∀ (vs : List Value), (∀ v ∈ vs, vgood k v) →
    wtZip (vs.map (·.ty)) (vs.map (·.v)) = true
  | [], _ => rfl
  | v :: vs, hg => by
    have ih := wtZip_of_good vs (fun x hx => hg x (List.mem_cons_of_mem _ hx))
    simp [wtZip, (hg v (by simp)).1, ih]

theorem wkL_of_good : ∀ (vs : List Value), (∀ v ∈ vs, vgood true v) →
    Payload.whollyKnownL (vs.map (·.v)) = true
  | [], _ => rfl
  | v :: vs, hg => by
    have ih := wkL_of_good vs (fun x hx => hg x (List.mem_cons_of_mem _ hx))
    simp [Payload.whollyKnownL, (hg v (by simp)).2 rfl, ih]

theorem wkL_of_good' {k : Bool} {vs : List Value} (hg : ∀ v ∈ vs, vgood k v) (hk : k = true) :
    Payload.whollyKnownL (vs.map (·.v)) = true := by
  subst hk; exact wkL_of_good vs hg

theorem wtAll_of_forall {e : Ty} : ∀ (ps : List Payload), (∀ p ∈ ps, wtP e p = true) → wtAll e ps = true
  | [], _ => rfl
  | p :: ps, h => by
    simp [wtAll, h p (by simp), wtAll_of_forall ps (fun x hx => h x (List.mem_cons_of_mem _ hx))]

theorem wkL_of_forall : ∀ (ps : List Payload), (∀ p ∈ ps, p.whollyKnown = true) → Payload.whollyKnownL ps = true
  | [], _ => rfl
  | p :: ps, h => by
    simp [Payload.whollyKnownL, h p (by simp), wkL_of_forall ps (fun x hx => h x (List.mem_cons_of_mem _ hx))]

theorem wkL_mem' : ∀ {ps : List Payload}, Payload.whollyKnownL ps = true → ∀ p ∈ ps, p.whollyKnown = true
  | [], _, _, hp => by simp at hp
  | q :: qs, h, p, hp => by
    simp only [Payload.whollyKnownL, Bool.and_eq_true] at h
    rcases List.mem_cons.mp hp with rfl | hp
    · exact h.1
    · exact wkL_mem' h.2 p hp

theorem lengthKnown_of_wk {v : Value} (h : v.v.whollyKnown = true) : lengthKnown v = true := by
  unfold lengthKnown
  split
  · rename_i hv
    rw [hv] at h
    simp only [Payload.whollyKnown] at h
    simp [h]
  · rfl

/-! ### value constructors -/

theorem listVal_good {k : Bool} {vs : List Value} {r : Value} {t : Ty} (hw : wf t = true) (hd : t.isDyn = false)
    (h : ∀ v ∈ vs, v.ty = t) (hg : ∀ v ∈ vs, vgood k v) (hr : listVal vs = .ok r) : vgood k r := by
  unfold listVal at hr
  by_cases he : vs.isEmpty
  · simp [he] at hr
  · have hne : vs ≠ [] := by simpa using he
    simp [he, elemTyOf_same hw hd hne h] at hr
    subst hr
    exact ⟨by simpa [wtP] using wtAll_of_good vs h hg,
      fun hk => by simpa [Payload.whollyKnown] using wkL_of_good' hg hk⟩

theorem mapVal_good {k : Bool} {ks : List String} {vs : List Value} {r : Value} {t : Ty} (hw : wf t = true)
    (hd : t.isDyn = false) (hl : ks.length = vs.length) (h : ∀ v ∈ vs, v.ty = t) (hg : ∀ v ∈ vs, vgood k v)
    (hr : mapVal ks vs = .ok r) : vgood k r := by
  unfold mapVal at hr
  by_cases he : vs.isEmpty
  · simp [he] at hr
  · have hne : vs ≠ [] := by simpa using he
    simp [he, elemTyOf_same hw hd hne h] at hr
    subst hr
    exact ⟨by simpa [wtP, hl] using wtAll_of_good vs h hg,
      fun hk => by simpa [Payload.whollyKnown] using wkL_of_good' hg hk⟩

theorem setAdd_mem {E : Env} {ety : Ty} {h : Int} {x : Payload} :
    ∀ {l l' : List (Int × Payload)}, setAdd E ety h x l = .ok l' → ∀ y ∈ l', y.2 = x ∨ y ∈ l
  | [], l', hr, y, hy => by
    simp [setAdd] at hr; subst hr; simp at hy; subst hy; exact .inl rfl
  | (j, z) :: rest, l', hr, y, hy => by
    simp only [setAdd] at hr
    split at hr
    · obtain ⟨l0, hl0, rfl⟩ := Res.map_eq_ok hr
      rcases List.mem_cons.mp hy with rfl | hy
      · exact .inr (by simp)
      · rcases setAdd_mem hl0 y hy with h1 | h1
        · exact .inl h1
        · exact .inr (List.mem_cons_of_mem _ h1)
    · split at hr
      · split at hr
        · simp at hr; subst hr; exact .inr hy
        · obtain ⟨l0, hl0, rfl⟩ := Res.map_eq_ok hr
          rcases List.mem_cons.mp hy with rfl | hy
          · exact .inr (by simp)
          · rcases setAdd_mem hl0 y hy with h1 | h1
            · exact .inl h1
            · exact .inr (List.mem_cons_of_mem _ h1)
        · simp at hr
        · simp at hr
        · simp at hr
      · simp at hr; subst hr
        rcases List.mem_cons.mp hy with rfl | hy
        · exact .inl rfl
        · exact .inr hy

theorem newSetAcc_mem {E : Env} {ety : Ty} : ∀ {xs : List Payload} {acc bs : List (Int × Payload)},
    newSetAcc E ety xs acc = .ok bs → ∀ y ∈ bs, y.2 ∈ xs ∨ y ∈ acc
  | [], acc, bs, hr, y, hy => by simp [newSetAcc] at hr; subst hr; exact .inr hy
  | x :: xs, acc, bs, hr, y, hy => by
    simp only [newSetAcc] at hr
    split at hr
    · split at hr
      · rename_i acc' hsa
        rcases newSetAcc_mem hr y hy with h1 | h1
        · exact .inl (List.mem_cons_of_mem _ h1)
        · rcases setAdd_mem hsa y h1 with h2 | h2
          · exact .inl (by simp [h2])
          · exact .inr h2
      · simp at hr
      · simp at hr
      · simp at hr
    · simp at hr
    · simp at hr
    · simp at hr

theorem setVal_good {E : Env} {k : Bool} {vs : List Value} {r : Value} {t : Ty} (hw : wf t = true)
    (hd : t.isDyn = false) (h : ∀ v ∈ vs, v.ty = t) (hg : ∀ v ∈ vs, vgood k v)
    (hr : setVal E vs = .ok r) : vgood k r := by
  unfold setVal at hr
  by_cases he : vs.isEmpty
  · simp [he] at hr
  · have hne : vs ≠ [] := by simpa using he
    simp only [he, elemTyOf_same hw hd hne h] at hr
    obtain ⟨p, hp, rfl⟩ := Res.map_eq_ok hr
    apply vgood_withMarks
    unfold newSet at hp
    obtain ⟨bs, hbs, rfl⟩ := Res.map_eq_ok hp
    have hmem : ∀ y ∈ bs, ∃ v ∈ vs, y.2 = v.v.stripMarks := by
      intro y hy
      rcases newSetAcc_mem hbs y hy with h1 | h1
      · obtain ⟨v, hv, hv'⟩ := List.mem_map.mp h1
        exact ⟨v, hv, hv'.symm⟩
      · simp at h1
    refine ⟨?_, fun hk => ?_⟩
    · simp only [wtP, List.length_map, beq_self_eq_true, Bool.true_and]
      apply wtAll_of_forall
      intro q hq
      obtain ⟨y, hy, rfl⟩ := List.mem_map.mp hq
      obtain ⟨v, hv, hyv⟩ := hmem y hy
      rw [hyv]
      have := (hg v hv).1
      rw [h v hv] at this
      exact wtP_stripMarks t _ this
    · simp only [Payload.whollyKnown]
      apply wkL_of_forall
      intro q hq
      obtain ⟨y, hy, rfl⟩ := List.mem_map.mp hq
      obtain ⟨v, hv, hyv⟩ := hmem y hy
      rw [hyv, wk_stripMarks]
      exact (hg v hv).2 hk

/-! ### the recursive calls keep values good -/

def RecWT (E : Env) (rec : Rec) : Prop :=
  ∀ (k : Bool) (inT out : Ty) (uns : Bool) (c : Plan) (v r : Value), gck E inT out uns = some c →
    Conds inT out v → (k = true → v.v.whollyKnown = true) → rec (.wrap out c) v = .ok r → vgood k r

/-- members of a collection: same type, well-typed, wholly known if asked -/
def MembersK (k : Bool) (es : List Value) (ie : Ty) : Prop :=
  ∀ e ∈ es, e.ty = ie ∧ wtP ie e.v = true ∧ (k = true → e.v.whollyKnown = true)

section Bodies
variable {E : Env} {rec : Rec} (hwt : RecWT E rec)
include hwt

theorem planFor_good {k : Bool} {uns : Bool} {it ot : Ty} {p : Plan} {e e' : Value}
    (hp : PlanFor E uns it ot p) (hc : Conds it ot e) (hk : k = true → e.v.whollyKnown = true)
    (h : applyOpt rec p e = .ok e') : vgood k e' := by
  rcases hp with ⟨rfl, _⟩ | ⟨c, rfl, hg⟩
  · simp [applyOpt] at h; subst h
    exact ⟨by rw [hc.ty]; exact hc.wt, hk⟩
  · simp [applyOpt] at h
    exact hwt k it ot uns c e e' hg hc hk h

theorem members_good {k : Bool} {uns : Bool} {ie oe conv} {post : Value → Value}
    (hpost : ∀ v : Value, vgood k v → vgood k (post v))
    (hpf : PlanFor E uns ie oe conv) (hwi : wf ie = true) (hoi : hasOpt ie = false)
    (hwo : wf oe = true) (hdo : hasDyn oe = false)
    {es es' : List Value} (hes : MembersK k es ie)
    (h : mapRes (fun e => (applyOpt rec conv e).map post) es = .ok es') : ∀ e' ∈ es', vgood k e' := by
  refine (mapRes_forall (P := fun (e : Value) => e.ty = ie ∧ wtP ie e.v = true ∧ (k = true → e.v.whollyKnown = true))
    (Q := fun (e' : Value) => vgood k e') ?_ es es' hes h).2
  intro a b ⟨hat, haw, hak⟩ hb
  obtain ⟨b', hb', rfl⟩ := Res.map_eq_ok hb
  exact hpost _ (planFor_good hwt hpf ⟨hat, hwi, hwo, hoi, hdo, haw⟩ hak hb')

theorem applyZip_all_good {k : Bool} {uns : Bool} {t : Ty} (post : Value → Value)
    (hpost : ∀ v : Value, vgood k v → vgood k (post v)) (hwt' : wf t = true) (hdt : hasDyn t = false) :
    ∀ (its : List Ty) (cs : List Plan) (ps : List Payload) (es' : List Value),
    All2 (fun it p => PlanFor E uns it t p) its cs → wtZip its ps = true →
    (k = true → Payload.whollyKnownL ps = true) →
    (∀ it ∈ its, wf it = true ∧ hasOpt it = false) →
    applyZip rec post cs (zipTys its ps) = .ok es' → ∀ e' ∈ es', vgood k e'
  | [], _, [], es', .nil, _, _, _, h => by simp [zipTys, applyZip] at h; subst h; simp
  | [], _, _ :: _, _, _, hw, _, _, _ => by simp [wtZip] at hw
  | _ :: _, _, [], _, _, hw, _, _, _ => by simp [wtZip] at hw
  | it :: its, _, p :: ps, es', .cons hp hps, hw, hk, hall, h => by
    simp only [wtZip, Bool.and_eq_true] at hw
    simp only [zipTys, applyZip] at h
    obtain ⟨v', hv', h⟩ := Res.bind_eq_ok h
    obtain ⟨vs', hvs', h⟩ := Res.bind_eq_ok h
    simp at h; subst h
    obtain ⟨hwi, hoi⟩ := hall it (by simp)
    have hk1 : k = true → p.whollyKnown = true := fun hk' => by
      have := hk hk'; simp only [Payload.whollyKnownL, Bool.and_eq_true] at this; exact this.1
    have hk2 : k = true → Payload.whollyKnownL ps = true := fun hk' => by
      have := hk hk'; simp only [Payload.whollyKnownL, Bool.and_eq_true] at this; exact this.2
    have h1 := planFor_good hwt hp (e := ⟨it, p⟩) ⟨rfl, hwi, hwt', hoi, hdt, hw.1⟩ hk1 hv'
    have ih := applyZip_all_good post hpost hwt' hdt its _ ps vs' hps hw.2 hk2
      (fun x hx => hall x (by simp [hx])) hvs'
    intro e' he'
    rcases List.mem_cons.mp he' with rfl | he'
    · exact hpost _ h1
    · exact ih e' he'

theorem applyZip_zip_good {k : Bool} {uns : Bool} :
    ∀ (its ots : List Ty) (cs : List Plan) (ps : List Payload) (es' : List Value),
    All3 (fun it ot p => PlanFor E uns it ot p) its ots cs → wtZip its ps = true →
    (k = true → Payload.whollyKnownL ps = true) →
    wfL its = true → hasOptL its = false → wfL ots = true → hasDynL ots = false →
    applyZip rec id cs (zipTys its ps) = .ok es' → ∀ e' ∈ es', vgood k e'
  | [], _, _, [], es', .nil, _, _, _, _, _, _, h => by
    simp [zipTys, applyZip] at h; subst h; simp
  | [], _, _, _ :: _, _, _, hw, _, _, _, _, _, _ => by simp [wtZip] at hw
  | _ :: _, _, _, [], _, _, hw, _, _, _, _, _, _ => by simp [wtZip] at hw
  | it :: its, ot :: ots, c :: cs, p :: ps, es', .cons hp hps, hw, hk, hwi, hoi, hwo, hdo, h => by
    simp only [wtZip, Bool.and_eq_true] at hw
    simp only [wfL, Bool.and_eq_true] at hwi hwo
    simp only [hasOptL, Bool.or_eq_false_iff] at hoi
    simp only [hasDynL, Bool.or_eq_false_iff] at hdo
    simp only [zipTys, applyZip] at h
    obtain ⟨v', hv', h⟩ := Res.bind_eq_ok h
    obtain ⟨vs', hvs', h⟩ := Res.bind_eq_ok h
    simp at h; subst h
    have hk1 : k = true → p.whollyKnown = true := fun hk' => by
      have := hk hk'; simp only [Payload.whollyKnownL, Bool.and_eq_true] at this; exact this.1
    have hk2 : k = true → Payload.whollyKnownL ps = true := fun hk' => by
      have := hk hk'; simp only [Payload.whollyKnownL, Bool.and_eq_true] at this; exact this.2
    have h1 := planFor_good hwt hp (e := ⟨it, p⟩) ⟨rfl, hwi.1, hwo.1, hoi.1, hdo.1, hw.1⟩ hk1 hv'
    have ih := applyZip_zip_good its ots cs ps vs' hps hw.2 hk2 hwi.2 hoi.2 hwo.2 hdo.2 hvs'
    intro e' he'
    rcases List.mem_cons.mp he' with rfl | he'
    · exact h1
    · exact ih e' he'

end Bodies

/-! ### object-building loops -/

theorem lookupVal_mem {k : String} {v : Value} : ∀ {ns : List String} {vs : List Value},
    lookupVal k ns vs = some v → v ∈ vs
  | [], _, h => by simp [lookupVal] at h
  | _ :: _, [], h => by simp [lookupVal] at h
  | n :: ns, w :: ws, h => by
    simp only [lookupVal] at h
    split at h
    · simp at h; subst h; simp
    · exact List.mem_cons_of_mem _ (lookupVal_mem h)

theorem objFill_good {k : Bool} {names : List String} {vals : List Value} (hv : ∀ v ∈ vals, vgood k v) :
    ∀ (ns : List String) (ts : List Ty) (os : List Bool), ∀ v ∈ (objFill names vals ns ts os).2, vgood k v
  | [], _, _ => by simp [objFill]
  | _ :: _, [], _ => by simp [objFill]
  | _ :: _, _ :: _, [] => by simp [objFill]
  | n :: ns, t :: ts, o :: os => by
    have ih := objFill_good (names := names) hv ns ts os
    simp only [objFill]
    split
    · rename_i w hl
      intro v hvm
      rcases List.mem_cons.mp hvm with rfl | hvm
      · exact hv _ (lookupVal_mem hl)
      · exact ih v hvm
    · split
      · intro v hvm
        rcases List.mem_cons.mp hvm with rfl | hvm
        · exact vgood_null k _
        · exact ih v hvm
      · exact ih

theorem objectVal_good {k : Bool} (names : List String) {vs : List Value} (hv : ∀ v ∈ vs, vgood k v) :
    vgood k (objectVal names vs) :=
  ⟨by simpa [objectVal, wtP] using wtZip_of_good vs hv,
   fun hk => by simpa [objectVal, Payload.whollyKnown] using wkL_of_good' hv hk⟩

theorem mapObjFill_good {k : Bool} {keys : List String} {vals : List Value} (hv : ∀ v ∈ vals, vgood k v) :
    ∀ (ns : List String) (ts : List Ty) (os : List Bool) (out : List Value),
    mapObjFill keys vals ns ts os = .ok out → ∀ v ∈ out, vgood k v
  | [], _, _, out, h => by simp [mapObjFill] at h; subst h; simp
  | _ :: _, [], _, out, h => by simp [mapObjFill] at h; subst h; simp
  | _ :: _, _ :: _, [], out, h => by simp [mapObjFill] at h; subst h; simp
  | n :: ns, t :: ts, o :: os, out, h => by
    simp only [mapObjFill] at h
    split at h
    · rename_i w hl
      obtain ⟨rest, hrest, rfl⟩ := Res.map_eq_ok h
      intro v hvm
      rcases List.mem_cons.mp hvm with rfl | hvm
      · exact hv _ (lookupVal_mem hl)
      · exact mapObjFill_good hv ns ts os rest hrest v hvm
    · split at h
      · obtain ⟨rest, hrest, rfl⟩ := Res.map_eq_ok h
        intro v hvm
        rcases List.mem_cons.mp hvm with rfl | hvm
        · exact vgood_null k _
        · exact mapObjFill_good hv ns ts os rest hrest v hvm
      · simp at h

section Loops
variable {E : Env} {rec : Rec} (hwt : RecWT E rec)
include hwt

theorem objAttrLoop_good {k : Bool} {uns : Bool} {on : List String}
    {ot : List Ty} {oo : List Bool} {keys : List String} {convs : List Plan} :
    ∀ (ns : List String) (its : List Ty) (cs : List Plan) (ps : List Payload) (r : List String × List Value),
    All3 (AttrOK E uns on ot oo keys convs) ns its cs → wtZip its ps = true →
    (k = true → Payload.whollyKnownL ps = true) →
    objAttrLoop rec keys convs ns (zipTys its ps) = .ok r → ∀ v ∈ r.2, vgood k v
  | [], [], [], [], r, .nil, _, _, h => by
    simp [objAttrLoop] at h; subst h; simp
  | _ :: _, _ :: _, _ :: _, [], _, _, hw, _, _ => by simp [wtZip] at hw
  | n :: ns, it :: its, c :: cs, p :: ps, r, .cons hok hoks, hw, hk, h => by
    simp only [wtZip, Bool.and_eq_true] at hw
    obtain ⟨hlk, hap, hwi, hoi, hout⟩ := hok
    have hk1 : k = true → p.whollyKnown = true := fun hk' => by
      have := hk hk'; simp only [Payload.whollyKnownL, Bool.and_eq_true] at this; exact this.1
    have hk2 : k = true → Payload.whollyKnownL ps = true := fun hk' => by
      have := hk hk'; simp only [Payload.whollyKnownL, Bool.and_eq_true] at this; exact this.2
    simp only [zipTys, objAttrLoop, hlk] at h
    rcases hap with ⟨rfl, hfn⟩ | ⟨oty, o, hf, hpf⟩
    · simp only at h
      exact objAttrLoop_good ns its cs ps r hoks hw.2 hk2 h
    · have hc : Conds it oty ⟨it, p⟩ :=
        ⟨rfl, hwi, (hout oty o hf).1, hoi, (hout oty o hf).2, hw.1⟩
      have h' : ((applyOpt rec c ⟨it, p⟩).bind fun v' =>
          (objAttrLoop rec keys convs ns (zipTys its ps)).bind fun r' =>
            Res.ok (n :: r'.1, stripNull v' :: r'.2)) = .ok r := by
        rcases hpf with ⟨rfl, _⟩ | ⟨c', rfl, _⟩ <;> exact h
      obtain ⟨v', hv', h'⟩ := Res.bind_eq_ok h'
      obtain ⟨r', hr', h'⟩ := Res.bind_eq_ok h'
      simp at h'; subst h'
      have ih := objAttrLoop_good ns its cs ps r' hoks hw.2 hk2 hr'
      have h1 := planFor_good hwt hpf hc hk1 hv'
      intro v hvm
      rcases List.mem_cons.mp hvm with rfl | hvm
      · exact vgood_stripNull h1
      · exact ih v hvm

theorem mapObjLoop_good {k : Bool} {uns : Bool} {ie : Ty}
    {names : List String} {tys : List Ty} {opts : List Bool} {convs : List Plan}
    (hpl : All2 (fun ot p => MapObjPlan E uns ie ot p) tys convs)
    (hl1 : names.length = tys.length) (hl2 : opts.length = tys.length)
    (hwi : wf ie = true) (hoi : hasOpt ie = false)
    (hty : ∀ n t o, Ty.find n names tys opts = some (t, o) → wf t = true ∧ hasDyn t = false) :
    ∀ (ks : List String) (ps : List Payload) (r : List String × List Value), wtAll ie ps = true →
    (k = true → Payload.whollyKnownL ps = true) →
    mapObjLoop rec names tys opts convs ks (ps.map fun p => ⟨ie, p⟩) = .ok r → ∀ v ∈ r.2, vgood k v
  | [], _, r, _, _, h => by
    simp [mapObjLoop] at h; subst h; simp
  | _ :: _, [], r, _, _, h => by
    simp [mapObjLoop] at h; subst h; simp
  | kk :: ks, p :: ps, r, hw, hk, h => by
    simp only [wtAll, Bool.and_eq_true] at hw
    have hk1 : k = true → p.whollyKnown = true := fun hk' => by
      have := hk hk'; simp only [Payload.whollyKnownL, Bool.and_eq_true] at this; exact this.1
    have hk2 : k = true → Payload.whollyKnownL ps = true := fun hk' => by
      have := hk hk'; simp only [Payload.whollyKnownL, Bool.and_eq_true] at this; exact this.2
    simp only [List.map_cons, mapObjLoop] at h
    split at h
    · exact mapObjLoop_good hpl hl1 hl2 hwi hoi hty ks ps r hw.2 hk2 h
    · rename_i hc
      have hc' : names.contains kk = true := by simpa using hc
      have hsome := find_of_contains names tys opts hl1 hl2 hc'
      obtain ⟨⟨t, o⟩, hf⟩ := Option.isSome_iff_exists.mp hsome
      obtain ⟨pl, hlk, hmp⟩ := find_lookupPlan names tys opts convs hpl hf
      obtain ⟨hwt', hdt⟩ := hty kk t o hf
      simp only [hlk] at h
      obtain ⟨v', hv', h⟩ := Res.bind_eq_ok h
      obtain ⟨r', hr', h⟩ := Res.bind_eq_ok h
      simp at h; subst h
      have ih := mapObjLoop_good hpl hl1 hl2 hwi hoi hty ks ps r' hw.2 hk2 hr'
      have hv'g : vgood k v' := by
        rcases hmp with rfl | ⟨rfl, he⟩ | ⟨c, rfl, hg⟩
        · simp at hv'
        · simp at hv'; subst hv'
          exact ⟨hw.1, hk1⟩
        · simp at hv'
          exact hwt k ie t uns c ⟨ie, p⟩ v' hg ⟨rfl, hwi, hwt', hoi, hdt, hw.1⟩ hk1 hv'
      intro v hvm
      rcases List.mem_cons.mp hvm with rfl | hvm
      · exact vgood_stripNull hv'g
      · exact ih v hvm

end Loops

/-! ### the closure bodies -/

section Bodies2
variable {E : Env} (hU : UnifyLaws E) {rec : Rec} (hrec : RecOK E rec) (hwt : RecWT E rec)
include hU hrec hwt

theorem collToList_good {k : Bool} {uns : Bool} {ie oe conv} {v r : Value}
    (hpf : PlanFor E uns ie oe conv) (hwi : wf ie = true) (hoi : hasOpt ie = false)
    (hwo : wf oe = true) (hdo : hasDyn oe = false) (hkv : k = true → v.v.whollyKnown = true)
    (hel : ∀ es, elemsOf E v = .ok es → MembersK k es ie)
    (h : applyStep E rec (.collToList oe conv) v = .ok r) : vgood k r := by
  have hnd : oe.isDyn = false := not_isDyn_of_noDyn hdo
  simp only [applyStep, hnd, hdo] at h
  split at h
  · rename_i hlk
    simp at h; subst h
    refine ⟨by simp [Value.unknown, wtP], fun hk => ?_⟩
    rw [lengthKnown_of_wk (hkv hk)] at hlk
    simp at hlk
  · obtain ⟨es, hes, h⟩ := Res.bind_eq_ok h
    obtain ⟨es', hes', h⟩ := Res.bind_eq_ok h
    have hm := converted_members hU hrec (post := stripNull) (fun _ hv => stripNull_ty' hv)
      hpf hwi hoi hwo hdo (fun e he => ⟨(hel es hes e he).1, (hel es hes e he).2.1⟩) hes'
    have hg := members_good hwt (post := stripNull) (fun _ hv => vgood_stripNull hv)
      hpf hwi hoi hwo hdo (hel es hes) hes'
    split at h
    · simp at h; subst h; exact ⟨by simp [wtP, wtAll], fun _ => by simp [Payload.whollyKnown, Payload.whollyKnownL]⟩
    · rename_i hne
      have hne' : es' ≠ [] := by simpa using hne
      have hT := wf_stripOpt oe hwo
      have hTd : (stripOpt oe).isDyn = false := not_isDyn_of_noDyn (by rw [stripOpt_hasDyn]; exact hdo)
      simp only [canCollVal_same hT hTd hne' hm.2] at h
      exact listVal_good hT hTd hm.2 hg h

theorem collToSet_good {k : Bool} {uns : Bool} {ie oe conv} {v r : Value}
    (hpf : PlanFor E uns ie oe conv) (hwi : wf ie = true) (hoi : hasOpt ie = false)
    (hwo : wf oe = true) (hdo : hasDyn oe = false)
    (hel : ∀ es, elemsOf E v = .ok es → MembersK k es ie)
    (h : applyStep E rec (.collToSet oe conv) v = .ok r) : vgood k r := by
  have hnd : oe.isDyn = false := not_isDyn_of_noDyn hdo
  simp only [applyStep, hnd, hdo] at h
  obtain ⟨es, hes, h⟩ := Res.bind_eq_ok h
  obtain ⟨es', hes', h⟩ := Res.bind_eq_ok h
  have hm := converted_members hU hrec (post := stripNull) (fun _ hv => stripNull_ty' hv)
    hpf hwi hoi hwo hdo (fun e he => ⟨(hel es hes e he).1, (hel es hes e he).2.1⟩) hes'
  have hg := members_good hwt (post := stripNull) (fun _ hv => vgood_stripNull hv)
    hpf hwi hoi hwo hdo (hel es hes) hes'
  split at h
  · simp at h; subst h; exact ⟨by simp [wtP, wtAll], fun _ => by simp [Payload.whollyKnown, Payload.whollyKnownL]⟩
  · rename_i hne
    have hne' : es' ≠ [] := by simpa using hne
    have hT := wf_stripOpt oe hwo
    have hTd : (stripOpt oe).isDyn = false := not_isDyn_of_noDyn (by rw [stripOpt_hasDyn]; exact hdo)
    simp only [canCollVal_same hT hTd hne' hm.2] at h
    exact setVal_good hT hTd hm.2 hg h

theorem collToMap_good {k : Bool} {uns : Bool} {ie oe conv} {ks : List String} {ps : List Payload} {r : Value}
    (hpf : PlanFor E uns ie oe conv) (hwi : wf ie = true) (hoi : hasOpt ie = false)
    (hwo : wf oe = true) (hdo : hasDyn oe = false) (hlen : ks.length = ps.length)
    (hel : MembersK k (ps.map fun p => ⟨ie, p⟩) ie)
    (h : applyStep E rec (.collToMap oe conv) ⟨.map ie, .smap ks ps⟩ = .ok r) : vgood k r := by
  have hnd : oe.isDyn = false := not_isDyn_of_noDyn hdo
  simp only [applyStep, hnd, hdo, elemsOf, keysOf] at h
  obtain ⟨es, hes, h⟩ := Res.bind_eq_ok h
  simp at hes; subst hes
  obtain ⟨es', hes', h⟩ := Res.bind_eq_ok h
  have hes'' : mapRes (fun e => (applyOpt rec conv e).map id) (ps.map fun p => (⟨ie, p⟩ : Value)) = .ok es' := by
    have : (fun e => (applyOpt rec conv e).map id) = fun e => applyOpt rec conv e := by
      funext e; cases applyOpt rec conv e <;> rfl
    rw [this]; exact hes'
  have hm := converted_members hU hrec (post := id) (fun _ hv => hv)
    hpf hwi hoi hwo hdo (fun e he => ⟨(hel e he).1, (hel e he).2.1⟩) hes''
  have hg := members_good hwt (post := id) (fun _ hv => hv) hpf hwi hoi hwo hdo hel hes''
  split at h
  · simp at h; subst h; exact ⟨by simp [wtP, wtAll], fun _ => by simp [Payload.whollyKnown, Payload.whollyKnownL]⟩
  · rename_i hne
    have hne' : es' ≠ [] := by simpa using hne
    have hT := wf_stripOpt oe hwo
    have hTo := stripOpt_noOpt oe
    have hTd : (stripOpt oe).isDyn = false := not_isDyn_of_noDyn (by rw [stripOpt_hasDyn]; exact hdo)
    have hun : (if isCollOrObj oe = true then unifyElems E rec false es' else Res.ok es') = .ok es' := by
      split
      · exact unifyElems_same hU hT hTo hne' hm.2
      · rfl
    rw [hun] at h
    simp only [Res.bind, canCollVal_same hT hTd hne' hm.2] at h
    refine mapVal_good hT hTd ?_ hm.2 hg h
    rw [hm.1]; simpa using hlen

theorem tupToList_good {k : Bool} {uns : Bool} {its : List Ty} {oe : Ty} {cs : List Plan} {ps : List Payload}
    {r : Value}
    (hpl : All2 (fun it p => PlanFor E uns it oe p) its cs) (hne : its ≠ []) (hw : wtZip its ps = true)
    (hk : k = true → Payload.whollyKnownL ps = true)
    (hall : ∀ it ∈ its, wf it = true ∧ hasOpt it = false)
    (hwo : wf oe = true) (hdo : hasDyn oe = false)
    (h : applyStep E rec (.tupToList cs uns) ⟨.tuple its, .seq ps⟩ = .ok r) : vgood k r := by
  simp only [applyStep, elemsOf] at h
  obtain ⟨es, hes, h⟩ := Res.bind_eq_ok h
  simp at hes; subst hes
  obtain ⟨es', hes', h⟩ := Res.bind_eq_ok h
  have hm := applyZip_all hrec id (fun _ hv => hv) hwo hdo its cs ps es' hpl hw hall hes'
  have hg := applyZip_all_good hwt id (fun _ hv => hv) hwo hdo its cs ps es' hpl hw hk hall hes'
  have hne' : es' ≠ [] := by
    intro he; rw [he] at hm
    have h0 := hm.1
    simp at h0
    exact hne (List.length_eq_zero_iff.mp h0.symm)
  have hT := wf_stripOpt oe hwo
  have hTd : (stripOpt oe).isDyn = false := not_isDyn_of_noDyn (by rw [stripOpt_hasDyn]; exact hdo)
  rw [unifyElems_same hU hT (stripOpt_noOpt oe) hne' hm.2] at h
  simp only [Res.bind, canCollVal_same hT hTd hne' hm.2] at h
  exact listVal_good hT hTd hm.2 hg h

omit hU in
theorem tupToSet_good {k : Bool} {uns : Bool} {its : List Ty} {oe : Ty} {cs : List Plan} {ps : List Payload}
    {r : Value}
    (hpl : All2 (fun it p => PlanFor E uns it oe p) its cs) (hne : its ≠ []) (hw : wtZip its ps = true)
    (hk : k = true → Payload.whollyKnownL ps = true)
    (hall : ∀ it ∈ its, wf it = true ∧ hasOpt it = false)
    (hwo : wf oe = true) (hdo : hasDyn oe = false)
    (h : applyStep E rec (.tupToSet cs) ⟨.tuple its, .seq ps⟩ = .ok r) : vgood k r := by
  simp only [applyStep, elemsOf] at h
  obtain ⟨es, hes, h⟩ := Res.bind_eq_ok h
  simp at hes; subst hes
  obtain ⟨es', hes', h⟩ := Res.bind_eq_ok h
  have hm := applyZip_all hrec stripNull (fun _ hv => stripNull_ty' hv) hwo hdo its cs ps es' hpl hw hall hes'
  have hg := applyZip_all_good hwt stripNull (fun _ hv => vgood_stripNull hv) hwo hdo its cs ps es' hpl hw hk
    hall hes'
  have hne' : es' ≠ [] := by
    intro he; rw [he] at hm
    have h0 := hm.1
    simp at h0
    exact hne (List.length_eq_zero_iff.mp h0.symm)
  have hT := wf_stripOpt oe hwo
  have hTd : (stripOpt oe).isDyn = false := not_isDyn_of_noDyn (by rw [stripOpt_hasDyn]; exact hdo)
  simp only [canCollVal_same hT hTd hne' hm.2] at h
  exact setVal_good hT hTd hm.2 hg h

theorem objToMap_good {k : Bool} {uns : Bool} {inn : List String} {its : List Ty} {ios : List Bool} {oe : Ty}
    {cs : List Plan} {ps : List Payload} {r : Value}
    (hpl : All2 (fun it p => PlanFor E uns it oe p) its cs) (hne : its ≠ []) (hw : wtZip its ps = true)
    (hk : k = true → Payload.whollyKnownL ps = true)
    (hnd : inn.Nodup) (hln : inn.length = its.length)
    (hall : ∀ it ∈ its, wf it = true ∧ hasOpt it = false)
    (hwo : wf oe = true) (hdo : hasDyn oe = false)
    (h : applyStep E rec (.objToMap inn cs oe uns) ⟨.object inn its ios, .smap inn ps⟩ = .ok r) :
    vgood k r := by
  simp only [applyStep, elemsOf, keysOf] at h
  obtain ⟨es, hes, h⟩ := Res.bind_eq_ok h
  simp at hes; subst hes
  have hlc : inn.length = cs.length := by rw [hln]; exact hpl.length
  have hself := lookup_map_self [] [] inn cs rfl hlc (by simp) hnd
  simp only [List.nil_append] at hself
  rw [hself] at h
  obtain ⟨es', hes', h⟩ := Res.bind_eq_ok h
  have hm := applyZip_all hrec id (fun _ hv => hv) hwo hdo its cs ps es' hpl hw hall hes'
  have hg := applyZip_all_good hwt id (fun _ hv => hv) hwo hdo its cs ps es' hpl hw hk hall hes'
  have hne' : es' ≠ [] := by
    intro he; rw [he] at hm
    have h0 := hm.1
    simp at h0
    exact hne (List.length_eq_zero_iff.mp h0.symm)
  have hT := wf_stripOpt oe hwo
  have hTd : (stripOpt oe).isDyn = false := not_isDyn_of_noDyn (by rw [stripOpt_hasDyn]; exact hdo)
  have hun : (if isCollOrObj oe = true then unifyElems E rec uns es' else Res.ok es') = .ok es' := by
    split
    · exact unifyElems_same hU hT (stripOpt_noOpt oe) hne' hm.2
    · rfl
  rw [hun] at h
  simp only [Res.bind, canCollVal_same hT hTd hne' hm.2] at h
  refine mapVal_good hT hTd ?_ hm.2 hg h
  rw [hm.1, hln]

omit hU hrec in
theorem tupToTup_good {k : Bool} {uns : Bool} {its ots : List Ty} {cs : List Plan} {ps : List Payload} {r : Value}
    (hpl : All3 (fun it ot p => PlanFor E uns it ot p) its ots cs) (hw : wtZip its ps = true)
    (hk : k = true → Payload.whollyKnownL ps = true)
    (hwi : wfL its = true) (hoi : hasOptL its = false) (hwo : wfL ots = true) (hdo : hasDynL ots = false)
    (h : applyStep E rec (.tupToTup cs) ⟨.tuple its, .seq ps⟩ = .ok r) : vgood k r := by
  simp only [applyStep, elemsOf] at h
  obtain ⟨es, hes, h⟩ := Res.bind_eq_ok h
  simp at hes; subst hes
  obtain ⟨es', hes', h⟩ := Res.bind_eq_ok h
  simp at h; subst h
  have hg := applyZip_zip_good hwt its ots cs ps es' hpl hw hk hwi hoi hwo hdo hes'
  exact ⟨by simpa [tupleVal, wtP] using wtZip_of_good es' hg,
    fun hk' => by simpa [tupleVal, Payload.whollyKnown] using wkL_of_good' hg hk'⟩

omit hU hrec in
theorem objToObj_good {k : Bool} {uns : Bool} {inn : List String} {its : List Ty} {ios : List Bool}
    {on : List String} {ot : List Ty} {oo : List Bool} {cs : List Plan} {ps : List Payload} {r : Value}
    (hpl : All3 (AttrPlan E uns on ot oo) inn its cs) (hw : wtZip its ps = true)
    (hk : k = true → Payload.whollyKnownL ps = true)
    (hwfI : wf (.object inn its ios) = true) (hoI : hasOpt (.object inn its ios) = false)
    (hwfO : wf (.object on ot oo) = true) (hdO : hasDyn (.object on ot oo) = false)
    (h : applyStep E rec (.objToObj inn cs on ot oo) ⟨.object inn its ios, .smap inn ps⟩ = .ok r) :
    vgood k r := by
  simp only [wf, Bool.and_eq_true, beq_iff_eq] at hwfI hwfO
  simp only [hasOpt, Bool.or_eq_false_iff] at hoI
  simp only [hasDyn] at hdO
  simp only [applyStep, elemsOf, keysOf] at h
  obtain ⟨es, hes, h⟩ := Res.bind_eq_ok h
  simp at hes; subst hes
  obtain ⟨rr, hrr, h⟩ := Res.bind_eq_ok h
  simp at h; subst h
  have hndI := strictAsc_nodup hwfI.1.2
  have hok := attrOK_build (E := E) (uns := uns) (on := on) (ot := ot) (oo := oo) [] [] [] [] inn its ios cs
    rfl rfl rfl hwfI.1.1.2 (by simp) hndI hpl (by
      intro n it b hf
      simp only [List.nil_append] at hf
      refine ⟨wfL_mem hwfI.2 it (find_mem_ty hf), hasOptL_mem hoI.2 it (find_mem_ty hf), ?_⟩
      intro oty o hfo
      exact ⟨wfL_mem hwfO.2 oty (find_mem_ty hfo), hasDynL_mem hdO oty (find_mem_ty hfo)⟩)
  simp only [List.nil_append] at hok
  have hg := objAttrLoop_good hwt inn its cs ps rr hok hw hk hrr
  exact objectVal_good _ (objFill_good hg on ot oo)

omit hU hrec in
theorem mapToObj_good {k : Bool} {uns : Bool} {ie : Ty} {on : List String} {ot : List Ty} {oo : List Bool}
    {cs : List Plan} {ks : List String} {ps : List Payload} {r : Value}
    (hpl : All2 (fun t p => MapObjPlan E uns ie t p) ot cs) (hw : wtAll ie ps = true)
    (hk : k = true → Payload.whollyKnownL ps = true)
    (hwi : wf ie = true) (hoi : hasOpt ie = false)
    (hwfO : wf (.object on ot oo) = true) (hdO : hasDyn (.object on ot oo) = false)
    (h : applyStep E rec (.mapToObj on ot oo cs) ⟨.map ie, .smap ks ps⟩ = .ok r) : vgood k r := by
  simp only [wf, Bool.and_eq_true, beq_iff_eq] at hwfO
  simp only [hasDyn] at hdO
  simp only [applyStep, elemsOf, keysOf] at h
  obtain ⟨es, hes, h⟩ := Res.bind_eq_ok h
  simp at hes; subst hes
  obtain ⟨rr, hrr, h⟩ := Res.bind_eq_ok h
  obtain ⟨vals, hvals, h⟩ := Res.bind_eq_ok h
  simp at h; subst h
  have hg := mapObjLoop_good hwt hpl hwfO.1.1.1 hwfO.1.1.2 hwi hoi (by
      intro n t o hf
      exact ⟨wfL_mem hwfO.2 t (find_mem_ty hf), hasDynL_mem hdO t (find_mem_ty hf)⟩)
    ks ps rr hw hk hrr
  exact objectVal_good _ (mapObjFill_good hg on ot oo vals hvals)

end Bodies2

/-! ### primitive conversions -/

theorem prim_good {E : Env} {rec : Rec} {k : Bool} {c : Plan} {v r : Value}
    (hc : c = .numToStr ∨ c = .boolToStr ∨ c = .strToNum ∨ c = .strToBool)
    (h : applyStep E rec c v = .ok r) : vgood k r := by
  rcases hc with rfl | rfl | rfl | rfl
  · simp only [applyStep] at h
    split at h <;> simp at h
    subst h; exact ⟨rfl, fun _ => rfl⟩
  · simp only [applyStep] at h
    split at h <;> simp at h
    subst h; exact ⟨rfl, fun _ => rfl⟩
  · simp only [applyStep] at h
    split at h
    · obtain ⟨x, _, hx⟩ := Res.map_eq_ok h
      subst hx; exact ⟨rfl, fun _ => rfl⟩
    · simp at h
  · simp only [applyStep] at h
    split at h
    · split at h
      · simp at h; subst h; exact ⟨rfl, fun _ => rfl⟩
      · split at h
        · simp at h; subst h; exact ⟨rfl, fun _ => rfl⟩
        · simp at h
    · simp at h

theorem membersK_map {k : Bool} {ie : Ty} {ps : List Payload} (hps : wtAll ie ps = true)
    (hk : k = true → Payload.whollyKnownL ps = true) : MembersK k (ps.map fun p => (⟨ie, p⟩ : Value)) ie := by
  intro e he
  obtain ⟨p, hpm, rfl⟩ := List.mem_map.mp he
  exact ⟨rfl, wtAll_mem hps p hpm, fun hk' => wkL_mem' (hk hk') p hpm⟩

theorem membersK_set {E : Env} {k : Bool} {ie : Ty} {ps : List Payload} (hps : wtAll ie ps = true)
    (hk : k = true → Payload.whollyKnownL ps = true) :
    MembersK k ((setValues E ie ps).map fun p => (⟨ie, p⟩ : Value)) ie := by
  intro e he
  obtain ⟨p, hpm, rfl⟩ := List.mem_map.mp he
  exact ⟨rfl, wtAll_mem hps p (setValues_mem hpm), fun hk' => wkL_mem' (hk hk') p (setValues_mem hpm)⟩

/-! ### every closure body -/

theorem inner_good {E : Env} (hU : UnifyLaws E) {rec : Rec} (hrec : RecOK E rec) (hwt : RecWT E rec)
    (k : Bool) (inT out : Ty) (uns : Bool) (c : Plan) (v r : Value) (hg : gck E inT out uns = some c)
    (hc : Conds inT out v) (hp : plain v.v) (hk : k = true → v.v.whollyKnown = true)
    (h : applyStep E rec c v = .ok r) : vgood k r := by
  obtain ⟨hty, hwI, hwO, hoI, hdO, hwt'⟩ := hc
  obtain ⟨vt, vp⟩ := v
  simp only at hty hwt' hp hk
  subst hty
  have hid : vt.isDyn = false := by
    cases vt <;> simp [Ty.isDyn]
    exact (shape_prim_dyn hp hwt').elim
  cases out with
  | dyn => simp [hasDyn] at hdO
  | bool =>
    cases vt <;> simp [gck, Ty.isDyn, isPrim, primSafe, primUnsafe] at hg hid
    all_goals (obtain ⟨_, rfl⟩ := hg; exact prim_good (by simp) h)
  | number =>
    cases vt <;> simp [gck, Ty.isDyn, isPrim, primSafe, primUnsafe] at hg hid
    all_goals (obtain ⟨_, rfl⟩ := hg; exact prim_good (by simp) h)
  | string =>
    cases vt <;> simp [gck, Ty.isDyn, isPrim, primSafe, primUnsafe] at hg hid
    · subst hg; exact prim_good (by simp) h
    · subst hg; exact prim_good (by simp) h
  | capsule i =>
    cases vt <;> simp [gck, Ty.isDyn, isPrim, primSafe, primUnsafe] at hg hid
  | list oe =>
    have hwo : wf oe = true := by simpa [wf] using hwO
    have hdo : hasDyn oe = false := by simpa [hasDyn] using hdO
    cases vt <;> simp [gck, Ty.isDyn, isPrim] at hg hid
    case list ie =>
      have hwi : wf ie = true := by simpa [wf] using hwI
      have hoi : hasOpt ie = false := by simpa [hasOpt] using hoI
      obtain ⟨ps, rfl, hps⟩ := shape_list hp hwt'
      have hel : ∀ es, elemsOf E ⟨.list ie, .seq ps⟩ = .ok es → MembersK k es ie := by
        intro es hes
        simp [elemsOf] at hes; subst hes
        exact membersK_map hps (by simpa [Payload.whollyKnown] using hk)
      have hpf : ∃ conv, c = .collToList oe conv ∧ PlanFor E uns ie oe conv := by
        split at hg
        · rename_i he; simp at hg; exact ⟨.nil, hg.symm, .inl ⟨rfl, he⟩⟩
        · obtain ⟨c', hc', rfl⟩ := Option.map_eq_some_iff.mp hg
          exact ⟨_, rfl, .inr ⟨c', rfl, hc'⟩⟩
      obtain ⟨conv, rfl, hpf⟩ := hpf
      exact collToList_good hU hrec hwt hpf hwi hoi hwo hdo hk hel h
    case set ie =>
      have hwi : wf ie = true := by simpa [wf] using hwI
      have hoi : hasOpt ie = false := by simpa [hasOpt] using hoI
      obtain ⟨ids, ps, rfl, hps⟩ := shape_set hp hwt'
      have hel : ∀ es, elemsOf E ⟨.set ie, .sset ids ps⟩ = .ok es → MembersK k es ie := by
        intro es hes
        simp [elemsOf] at hes; subst hes
        exact membersK_set hps (by simpa [Payload.whollyKnown] using hk)
      have hpf : ∃ conv, c = .collToList oe conv ∧ PlanFor E uns ie oe conv := by
        split at hg
        · rename_i he; simp at hg; exact ⟨.nil, hg.symm, .inl ⟨rfl, he⟩⟩
        · obtain ⟨c', hc', rfl⟩ := Option.map_eq_some_iff.mp hg
          exact ⟨_, rfl, .inr ⟨c', rfl, hc'⟩⟩
      obtain ⟨conv, rfl, hpf⟩ := hpf
      exact collToList_good hU hrec hwt hpf hwi hoi hwo hdo hk hel h
    case tuple its =>
      have hwi : wfL its = true := by simpa [wf] using hwI
      have hoi : hasOptL its = false := by simpa [hasOpt] using hoI
      obtain ⟨ps, rfl, hps⟩ := shape_tuple hp hwt'
      split at hg
      · simp at hg; subst hg
        simp only [applyStep] at h
        simp at h; subst h
        exact ⟨by simp [wtP, wtAll], fun _ => by simp [Payload.whollyKnown, Payload.whollyKnownL]⟩
      · rename_i hne
        have hnd : oe.isDyn = false := not_isDyn_of_noDyn hdo
        simp only [seqTargetEty, hnd] at hg
        obtain ⟨cs, hcs, rfl⟩ := Option.map_eq_some_iff.mp hg
        have hpl := gcAll_inv E uns oe hcs
        exact tupToList_good hU hrec hwt hpl hne hps (by simpa [Payload.whollyKnown] using hk)
          (fun it hit => ⟨wfL_mem hwi it hit, hasOptL_mem hoi it hit⟩) hwo hdo h
  | set oe =>
    have hwo : wf oe = true := by simpa [wf] using hwO
    have hdo : hasDyn oe = false := by simpa [hasDyn] using hdO
    cases vt <;> simp [gck, Ty.isDyn, isPrim] at hg hid
    case list ie =>
      have hwi : wf ie = true := by simpa [wf] using hwI
      have hoi : hasOpt ie = false := by simpa [hasOpt] using hoI
      obtain ⟨ps, rfl, hps⟩ := shape_list hp hwt'
      have hel : ∀ es, elemsOf E ⟨.list ie, .seq ps⟩ = .ok es → MembersK k es ie := by
        intro es hes
        simp [elemsOf] at hes; subst hes
        exact membersK_map hps (by simpa [Payload.whollyKnown] using hk)
      have hpf : ∃ conv, c = .collToSet oe conv ∧ PlanFor E uns ie oe conv := by
        obtain ⟨_, hg⟩ := hg
        split at hg
        · rename_i he; simp at hg; exact ⟨.nil, hg.symm, .inl ⟨rfl, he⟩⟩
        · obtain ⟨c', hc', rfl⟩ := Option.map_eq_some_iff.mp hg
          exact ⟨_, rfl, .inr ⟨c', rfl, hc'⟩⟩
      obtain ⟨conv, rfl, hpf⟩ := hpf
      exact collToSet_good hU hrec hwt hpf hwi hoi hwo hdo hel h
    case set ie =>
      have hwi : wf ie = true := by simpa [wf] using hwI
      have hoi : hasOpt ie = false := by simpa [hasOpt] using hoI
      obtain ⟨ids, ps, rfl, hps⟩ := shape_set hp hwt'
      have hel : ∀ es, elemsOf E ⟨.set ie, .sset ids ps⟩ = .ok es → MembersK k es ie := by
        intro es hes
        simp [elemsOf] at hes; subst hes
        exact membersK_set hps (by simpa [Payload.whollyKnown] using hk)
      have hpf : ∃ conv, c = .collToSet oe conv ∧ PlanFor E uns ie oe conv := by
        split at hg
        · rename_i he; simp at hg; exact ⟨.nil, hg.symm, .inl ⟨rfl, he⟩⟩
        · obtain ⟨c', hc', rfl⟩ := Option.map_eq_some_iff.mp hg
          exact ⟨_, rfl, .inr ⟨c', rfl, hc'⟩⟩
      obtain ⟨conv, rfl, hpf⟩ := hpf
      exact collToSet_good hU hrec hwt hpf hwi hoi hwo hdo hel h
    case tuple its =>
      have hwi : wfL its = true := by simpa [wf] using hwI
      have hoi : hasOptL its = false := by simpa [hasOpt] using hoI
      obtain ⟨ps, rfl, hps⟩ := shape_tuple hp hwt'
      split at hg
      · simp at hg; subst hg
        simp only [applyStep] at h
        simp at h; subst h
        exact ⟨by simp [wtP, wtAll], fun _ => by simp [Payload.whollyKnown, Payload.whollyKnownL]⟩
      · rename_i hne
        have hnd : oe.isDyn = false := not_isDyn_of_noDyn hdo
        simp only [seqTargetEty, hnd] at hg
        obtain ⟨cs, hcs, rfl⟩ := Option.map_eq_some_iff.mp hg
        have hpl := gcAll_inv E uns oe hcs
        exact tupToSet_good hrec hwt hpl hne hps (by simpa [Payload.whollyKnown] using hk)
          (fun it hit => ⟨wfL_mem hwi it hit, hasOptL_mem hoi it hit⟩) hwo hdo h
  | map oe =>
    have hwo : wf oe = true := by simpa [wf] using hwO
    have hdo : hasDyn oe = false := by simpa [hasDyn] using hdO
    cases vt <;> simp [gck, Ty.isDyn, isPrim] at hg hid
    case map ie =>
      have hwi : wf ie = true := by simpa [wf] using hwI
      have hoi : hasOpt ie = false := by simpa [hasOpt] using hoI
      obtain ⟨ks, ps, rfl, hlen, hps⟩ := shape_map hp hwt'
      obtain ⟨c', hc', rfl⟩ := hg
      exact collToMap_good hU hrec hwt (.inr ⟨c', rfl, hc'⟩) hwi hoi hwo hdo hlen
        (membersK_map hps (by simpa [Payload.whollyKnown] using hk)) h
    case object inn its ios =>
      have hwi : wfL its = true := by
        simp only [wf, Bool.and_eq_true] at hwI; exact hwI.2
      have hoi : hasOptL its = false := by
        simp only [hasOpt, Bool.or_eq_false_iff] at hoI; exact hoI.2
      obtain ⟨ps, rfl, hps⟩ := shape_object hp hwt'
      split at hg
      · simp at hg; subst hg
        simp only [applyStep] at h
        simp at h; subst h
        exact ⟨by simp [wtP, wtAll], fun _ => by simp [Payload.whollyKnown, Payload.whollyKnownL]⟩
      · rename_i hne
        have hnd : oe.isDyn = false := not_isDyn_of_noDyn hdo
        simp only [mapTargetEty, hnd] at hg
        obtain ⟨cs, hcs, rfl⟩ := Option.map_eq_some_iff.mp hg
        have hpl := gcAll_inv E uns oe hcs
        simp only [wf, Bool.and_eq_true, beq_iff_eq] at hwI
        exact objToMap_good hU hrec hwt hpl hne hps (by simpa [Payload.whollyKnown] using hk)
          (strictAsc_nodup hwI.1.2) hwI.1.1.1
          (fun it hit => ⟨wfL_mem hwi it hit, hasOptL_mem hoi it hit⟩) hwo hdo h
  | tuple ots =>
    cases vt <;> simp [gck, Ty.isDyn, isPrim] at hg hid
    case tuple its =>
      obtain ⟨hlen, cs, hcs, rfl⟩ := hg
      obtain ⟨ps, rfl, hps⟩ := shape_tuple hp hwt'
      have hpl := gcZip_inv E uns hlen hcs
      exact tupToTup_good hwt hpl hps (by simpa [Payload.whollyKnown] using hk)
        (by simpa [wf] using hwI) (by simpa [hasOpt] using hoI)
        (by simpa [wf] using hwO) (by simpa [hasDyn] using hdO) h
  | object on ot oo =>
    cases vt <;> simp [gck, Ty.isDyn, isPrim] at hg hid
    case map ie =>
      obtain ⟨_, cs, hcs, rfl⟩ := hg
      obtain ⟨ks, ps, rfl, _, hps⟩ := shape_map hp hwt'
      have hwO' := hwO
      simp only [wf, Bool.and_eq_true, beq_iff_eq] at hwO'
      have hpl := mapToObjConvs_inv E uns ie (hwO'.1.1.2.symm) hcs
      exact mapToObj_good hwt hpl hps (by simpa [Payload.whollyKnown] using hk)
        (by simpa [wf] using hwI) (by simpa [hasOpt] using hoI) hwO hdO h
    case object inn its ios =>
      obtain ⟨hreq, cs, hcs, rfl⟩ := hg
      obtain ⟨ps, rfl, hps⟩ := shape_object hp hwt'
      have hwI' := hwI
      simp only [wf, Bool.and_eq_true, beq_iff_eq] at hwI'
      have hpl := gcObj_inv E uns on ot oo hwI'.1.1.1 hcs
      exact objToObj_good hwt hpl hps (by simpa [Payload.whollyKnown] using hk) hwI hoI hwO hdO h

/-! ### unknown results: `prepareUnknownResult` goes through the refinement builder, whose results
are well-formed in the sense of C06 (`Value.WF`, `Refine.wf_refine`), which implies `wtP` -/

mutual
theorem wtP_of_wfP {nfc : String → Bool} : ∀ (t : Ty) (p : Payload), Payload.wfP nfc t p = true → wtP t p = true
  | t, .marked ms r, h => by
    simp only [Payload.wfP_marked, Bool.and_eq_true] at h
    simp only [wtP, Bool.and_eq_true]; exact ⟨h.1.2, wtP_of_wfP t r h.2⟩
  | t, .null, _ => by simp [wtP]
  | t, .unk _, _ => by simp [wtP]
  | t, .seq vs, h => by
    cases t <;> simp [Payload.wfP] at h
    · simp only [wtP]; exact wtAll_of_wfAll _ vs h
    · simp only [wtP]; exact wtZip_of_wfZip _ vs h.1 h.2
  | t, .smap ks vs, h => by
    cases t <;> simp [Payload.wfP] at h
    · simp only [wtP, Bool.and_eq_true, beq_iff_eq]; exact ⟨h.1.1.1, wtAll_of_wfAll _ vs h.2⟩
    · simp only [wtP, Bool.and_eq_true, beq_iff_eq]; exact ⟨h.1.1, wtZip_of_wfZip _ vs h.1.2 h.2⟩
  | t, .sset ids vs, h => by
    cases t <;> simp [Payload.wfP] at h
    simp only [wtP, Bool.and_eq_true, beq_iff_eq]; exact ⟨h.1.1.1.1, wtAll_of_wfAll _ vs h.2⟩
  | t, .b _, h => by cases t <;> simp [Payload.wfP] at h <;> simp [wtP]
  | t, .n _, h => by cases t <;> simp [Payload.wfP] at h <;> simp [wtP]
  | t, .s _, h => by cases t <;> simp [Payload.wfP] at h <;> simp [wtP]
  | t, .caps, h => by cases t <;> simp [Payload.wfP] at h <;> simp [wtP]
  | t, .bad _, h => by cases t <;> simp [Payload.wfP] at h
theorem wtAll_of_wfAll {nfc : String → Bool} : ∀ (e : Ty) (vs : List Payload), Payload.wfAll nfc e vs = true →
    wtAll e vs = true
  | _, [], _ => rfl
  | e, v :: vs, h => by
    simp only [Payload.wfAll, Bool.and_eq_true] at h
    simp [wtAll, wtP_of_wfP e v h.1, wtAll_of_wfAll e vs h.2]
theorem wtZip_of_wfZip {nfc : String → Bool} : ∀ (ts : List Ty) (vs : List Payload), ts.length = vs.length →
    Payload.wfZip nfc ts vs = true → wtZip ts vs = true
  | [], [], _, _ => rfl
  | [], _ :: _, hl, _ => by simp at hl
  | _ :: _, [], hl, _ => by simp at hl
  | t :: ts, v :: vs, hl, h => by
    simp only [Payload.wfZip, Bool.and_eq_true] at h
    simp [wtZip, wtP_of_wfP t v h.1, wtZip_of_wfZip ts vs (by simpa using hl) h.2]
end

theorem namesAll_true : ∀ (t : Ty), t.namesAll (fun _ => true) = true := by
  intro t
  induction t using Ty.rec (motive_2 := fun ts => Ty.namesAllL (fun _ => true) ts = true) with
  | list e ih | set e ih | map e ih => simpa [Ty.namesAll] using ih
  | tuple es ih => simpa [Ty.namesAll] using ih
  | object ns ts os ih => simp [Ty.namesAll, ih]
  | nil => rfl
  | cons t ts iht ihts => simp [Ty.namesAllL, iht, ihts]
  | _ => rfl

theorem prepareUnknownResult_wt {src : Refine.ValueRange} {t : Ty} {r : Value} (hw : t.wf = true)
    (ho : t.hasOpt = false) (h : prepareUnknownResult src t = .ok r) : wtP r.ty r.v = true := by
  let nfc : String → Bool := fun _ => true
  have hWF0 : (Value.unknown t).WF nfc = true := by
    simp [Value.WF, Ty.ok, hw, ho, namesAll_true, Value.unknown, nfc, Payload.kindOk_unref]
  have step : ∀ (v r' : Value) cs, v.WF nfc = true → Refine.refine v cs = .ok r' → r'.WF nfc = true :=
    fun v r' cs hv hr => Res.all_iff.mp (Refine.wf_refine v cs hv) r' hr
  have fin : r.WF nfc = true → wtP r.ty r.v = true := by
    intro hr
    simp only [Value.WF, Bool.and_eq_true] at hr
    exact wtP_of_wfP _ _ hr.2
  unfold prepareUnknownResult at h
  simp only at h
  obtain ⟨ret, hret, h⟩ := Res.bind_eq_ok h
  have hret' : ret.WF nfc = true := by
    split at hret
    · exact step _ _ _ hWF0 hret
    · simp at hret; subst hret; exact hWF0
  apply fin
  split at h
  · exact step _ _ _ hret' h
  · exact step _ _ _ hret' h
  · split at h <;> exact step _ _ _ hret' h
  · split at h
    · obtain ⟨lo, _, h⟩ := Res.bind_eq_ok h
      obtain ⟨hi, _, h⟩ := Res.bind_eq_ok h
      exact step _ _ _ hret' h
    · simp at h; subst h; exact hret'

/-! ### the wrapper, and every fuel -/

theorem not_wk_of_unknown {v : Value} (hm : v.isMarked = false) (hk : v.isKnown = false) :
    v.v.whollyKnown = false := by
  obtain ⟨t, p⟩ := v
  cases p <;> simp_all [Value.isMarked, Value.isKnown, Payload.isMarked, Payload.isKnown, Payload.unmark1,
    Payload.whollyKnown]

theorem recWT_apply {E : Env} (hU : UnifyLaws E) : ∀ n, RecWT E (apply E n) := by
  intro n
  induction n using Nat.strongRecOn with
  | _ n ih =>
    intro k inT out uns c v r hg hc hkv h
    cases n with
    | zero => simp [apply] at h
    | succ n =>
      have hnd : out.isDyn = false := not_isDyn_of_noDyn hc.dynO
      simp only [apply, applyStep] at h
      split at h
      · rename_i hm
        split at h
        · rename_i r0 hr0
          simp at h; subst h
          have hc' : Conds inT out v.unmark :=
            ⟨hc.ty, hc.wfI, hc.wfO, hc.optI, hc.dynO, unmark_wt hm hc.wt⟩
          have := ih n (Nat.lt_succ_self n) k inT out uns c v.unmark r0 hg hc'
            (fun hk' => by simpa [Value.unmark, wk_unmark1] using hkv hk') hr0
          exact vgood_withMarks _ this
        · rename_i hno
          exact absurd h (by
            intro hh
            exact hno r hh)
      · rename_i hm
        simp only [hnd, Bool.false_eq_true, if_false] at h
        split at h
        · have hrepl := dynRepl_id E inT out hc.dynO hc.wfO
          rw [hc.ty, hrepl] at h
          simp only at h
          split at h
          · rename_i hunk
            obtain ⟨rng, _, h⟩ := Res.bind_eq_ok h
            refine ⟨prepareUnknownResult_wt (wf_stripOpt out hc.wfO) (stripOpt_noOpt out) h, fun hk' => ?_⟩
            have := not_wk_of_unknown (by simpa using hm) (by simpa using hunk)
            rw [hkv hk'] at this
            simp at this
          · simp at h; subst h; exact vgood_null k _
        · rename_i hkn
          have hk : v.isKnown = true ∧ v.isNull = false := by
            simp only [Bool.or_eq_true, Bool.not_eq_true', not_or, Bool.not_eq_false,
              Bool.not_eq_true] at hkn
            exact hkn
          cases n with
          | zero => simp [apply] at h
          | succ m =>
            simp only [apply] at h
            have hm' : v.v.isMarked = false := by
              have : v.isMarked = false := by simpa using hm
              exact this
            exact inner_good hU (recOK_apply hU m) (ih m (by omega)) k inT out uns c v r hg hc
              ⟨hm', hk.1, hk.2⟩ hkv h

/-- **Well-typedness preservation** for a conversion obtained from `getConversion*`: the result
is well typed, and wholly known if the input is. -/
theorem apply_wt {E : Env} (hU : UnifyLaws E) {v r : Value} {want : Ty} {uns : Bool} {p : Plan} {fuel : Nat}
    (hp : RegularPair v want) (hg : getConv E v.ty want uns = some p) (h : apply E fuel p v = .ok r) :
    Value.wt r = true ∧ (v.v.whollyKnown = true → r.v.whollyKnown = true) := by
  obtain ⟨c, hc, rfl⟩ := Option.map_eq_some_iff.mp hg
  have hty := recOK_apply hU fuel v.ty want uns c v r hc hp.conds h
  have h1 := recWT_apply hU fuel false v.ty want uns c v r hc hp.conds (by simp) h
  refine ⟨?_, fun hk => ?_⟩
  · simp only [Value.wt, Bool.and_eq_true, Bool.not_eq_true']
    exact ⟨⟨by rw [hty]; exact wf_stripOpt want hp.wfT, by rw [hty]; exact stripOpt_noOpt want⟩, h1.1⟩
  · exact (recWT_apply hU fuel true v.ty want uns c v r hc hp.conds (fun _ => hk) h).2 rfl

theorem convert_wt {E : Env} (hU : UnifyLaws E) {v r : Value} {want : Ty} {fuel : Nat}
    (hp : RegularPair v want) (h : convert E fuel v want = .ok r) :
    Value.wt r = true ∧ (v.v.whollyKnown = true → r.v.whollyKnown = true) := by
  unfold convert convertWith at h
  split at h
  · simp at h; subst h
    exact ⟨hp.wt, fun hk => hk⟩
  · split at h
    · simp at h
    · rename_i p hg
      exact apply_wt hU hp hg h

end Convert
end CtyModel
