/-
C05: facts about whole builder chains that hold for EVERY equality oracle.

* nullness, once stated in a chain, stays: after an accepted `Null()` (resp. `NotNull()`) every accepted
  later call leaves the builder's own record "definitely null" (resp. "definitely not null") — the record the
  contradiction check of `NotNull()`/`Null()` reads is the BUILDER'S work-in-progress refinement, not the range
  of the value being refined;
* hence contradictory nullness within ONE chain is never accepted, and the contradicting call itself panics;
* `Range()` of whatever `NewValue` returns for an unknown receiver — still unknown, or collapsed to a known
  value, or null — admits exactly what the builder recorded (`ValueRange.admitsN`).
-/
import CtyModel.Lemmas.RefineEnds
import CtyModel.Lemmas.RefineBase
namespace CtyModel
namespace Refine
namespace D05
open NumCmp

section Any
variable [EqOracle]

/-- an accepted call never changes a nullness that has been decided -/
theorem step_keeps_nullness {b b' : Builder} {c : RefineCall} (hd : b.isDyn = false)
    (hn : b.wip.nullness ≠ .u) (h : step b c = .ok b') : b'.wip.nullness = b.wip.nullness := by
  unfold step at h
  rw [hd] at h
  simp only [Bool.false_eq_true, if_false] at h
  split at h
  · simp at h
  · rename_i hu
    have hNum : ∀ {b1 b2 : Builder} {a : NumArg} {incl : Bool}, stepNumLower b1 a incl = .ok b2 →
        b2.wip.nullness = b1.wip.nullness := by
      intro b1 b2 a incl h1
      obtain ⟨n, lo, hi, hw, hcase⟩ := stepNumLower_ok h1
      rcases hcase with ⟨_, rfl⟩ | ⟨m, _, hcore⟩
      · rfl
      · obtain ⟨_, hc⟩ := lowerCore_ok hcore
        rcases hc with ⟨rfl, _⟩ | ⟨_, rfl, _⟩
        · rfl
        · rw [hw]; rfl
    have hNumU : ∀ {b1 b2 : Builder} {a : NumArg} {incl : Bool}, stepNumUpper b1 a incl = .ok b2 →
        b2.wip.nullness = b1.wip.nullness := by
      intro b1 b2 a incl h1
      obtain ⟨n, lo, hi, hw, hcase⟩ := stepNumUpper_ok h1
      rcases hcase with ⟨_, rfl⟩ | ⟨m, _, hcore⟩
      · rfl
      · obtain ⟨_, hc⟩ := upperCore_ok hcore
        rcases hc with ⟨rfl, _⟩ | ⟨_, rfl, _⟩
        · rfl
        · rw [hw]; rfl
    have hLenL : ∀ {b1 b2 : Builder} {n : Int}, stepLenLower b1 n = .ok b2 →
        b2.wip.nullness = b1.wip.nullness := by
      intro b1 b2 n h1
      obtain ⟨nl, lo, hi, hw, hcase, _⟩ := stepLenLower_ok h1
      rcases hcase with ⟨rfl, _⟩ | ⟨_, _, rfl⟩
      · rfl
      · rw [hw]; rfl
    have hLenU : ∀ {b1 b2 : Builder} {n : Int}, stepLenUpper b1 n = .ok b2 →
        b2.wip.nullness = b1.wip.nullness := by
      intro b1 b2 n h1
      obtain ⟨nl, lo, hi, hw, hcase, _⟩ := stepLenUpper_ok h1
      rcases hcase with ⟨rfl, _⟩ | ⟨_, _, rfl⟩
      · rfl
      · rw [hw]; rfl
    cases c with
    | notNull =>
      obtain ⟨rfl, h1, _⟩ := stepNotNull_ok h
      show (setNull .f b.wip).nullness = _
      rw [nullness_setNull _ hu]
      cases hb : b.wip.nullness <;> simp_all
    | null =>
      obtain ⟨rfl, h1, _⟩ := stepNull_ok h
      show (setNull .t b.wip).nullness = _
      rw [nullness_setNull _ hu]
      cases hb : b.wip.nullness <;> simp_all
    | numLower a incl => exact hNum h
    | numUpper a incl => exact hNumU h
    | lenLower n => exact hLenL h
    | lenUpper n => exact hLenU h
    | stringPrefix p =>
      obtain ⟨n, q, hw, _, rfl, _⟩ := stepPrefix_ok h
      rw [hw]; rfl
    | stringPrefixFull p =>
      obtain ⟨n, q, hw, _, rfl, _⟩ := stepPrefix_ok h
      rw [hw]; rfl
    | numRangeInclusive lo hi =>
      simp only [step1] at h
      cases h1 : stepNumLower b lo true with
      | ok b1 => rw [h1] at h; exact (hNumU h).trans (hNum h1)
      | err e => rw [h1] at h; simp [Res.bind] at h
      | panic w => rw [h1] at h; simp [Res.bind] at h
      | unmodelled => rw [h1] at h; simp [Res.bind] at h
    | collectionLength n =>
      simp only [step1] at h
      cases h1 : stepLenLower b n with
      | ok b1 => rw [h1] at h; exact (hLenU h).trans (hLenL h1)
      | err e => rw [h1] at h; simp [Res.bind] at h
      | panic w => rw [h1] at h; simp [Res.bind] at h
      | unmodelled => rw [h1] at h; simp [Res.bind] at h

/-- … along a whole accepted chain -/
theorem run_keeps_nullness {cs : List RefineCall} : ∀ {b b' : Builder}, b.isDyn = false →
    b.wip.nullness ≠ .u → run b cs = .ok b' → b'.wip.nullness = b.wip.nullness := by
  induction cs with
  | nil => intro b b' _ _ h; simp [run] at h; subst h; rfl
  | cons c cs ih =>
    intro b b' hd hn h
    simp only [run] at h
    cases h1 : step b c with
    | ok b1 =>
      rw [h1] at h
      have hk := step_keeps_nullness hd hn h1
      have hd1 : b1.isDyn = false := by rw [Builder.isDyn_congr (step_base h1).1]; exact hd
      exact (ih hd1 (by rw [hk]; exact hn) h).trans hk
    | err e => rw [h1] at h; simp [Res.bind] at h
    | panic w => rw [h1] at h; simp [Res.bind] at h
    | unmodelled => rw [h1] at h; simp [Res.bind] at h

/-- an accepted `Null()` leaves the record "definitely null" -/
theorem step_null_sets {b b' : Builder} (hd : b.isDyn = false) (h : step b .null = .ok b') :
    b'.wip.nullness = .t := by
  unfold step at h
  rw [hd] at h
  simp only [Bool.false_eq_true, if_false] at h
  split at h
  · simp at h
  · rename_i hu
    obtain ⟨rfl, _, _⟩ := stepNull_ok h
    exact nullness_setNull _ hu

theorem step_notNull_sets {b b' : Builder} (hd : b.isDyn = false) (h : step b .notNull = .ok b') :
    b'.wip.nullness = .f := by
  unfold step at h
  rw [hd] at h
  simp only [Bool.false_eq_true, if_false] at h
  split at h
  · simp at h
  · rename_i hu
    obtain ⟨rfl, _, _⟩ := stepNotNull_ok h
    exact nullness_setNull _ hu

/-- `NotNull()` on a builder whose own record says "definitely null" panics -/
theorem notNull_on_null_panics {b : Builder} (hd : b.isDyn = false) (hn : b.wip.nullness = .t) :
    ∃ w, step b .notNull = .panic w := by
  have hu : b.wip ≠ .unref := by intro h; rw [h] at hn; cases hn
  unfold step
  simp only [hd, Bool.false_eq_true, if_false, hu, step1, stepNotNull, hn, if_true]
  split <;> exact ⟨_, rfl⟩

/-- `Null()` on a builder whose own record says "definitely not null" panics -/
theorem null_on_notNull_panics {b : Builder} (hd : b.isDyn = false) (hn : b.wip.nullness = .f) :
    ∃ w, step b .null = .panic w := by
  have hu : b.wip ≠ .unref := by intro h; rw [h] at hn; cases hn
  unfold step
  simp only [hd, Bool.false_eq_true, if_false, hu, step1, stepNull, hn, if_true]
  split <;> exact ⟨_, rfl⟩

theorem run_append {cs ds : List RefineCall} : ∀ {b : Builder},
    run b (cs ++ ds) = (run b cs).bind fun b' => run b' ds := by
  induction cs with
  | nil => intro b; rfl
  | cons c cs ih =>
    intro b
    simp only [List.cons_append, run]
    cases h1 : step b c with
    | ok b1 => simp only [Res.bind]; exact ih
    | err e => rfl
    | panic w => rfl
    | unmodelled => rfl

/-- `Null() … NotNull()` in one chain: if everything before the `NotNull()` is accepted, the `NotNull()`
panics; in any case the chain is not accepted -/
theorem null_then_notNull {b : Builder} (hd : b.isDyn = false) (mid rest : List RefineCall) :
    (∀ b2, run b (.null :: mid) = .ok b2 → ∃ w, step b2 .notNull = .panic w) ∧
    ∀ b', run b (.null :: (mid ++ .notNull :: rest)) ≠ .ok b' := by
  have key : ∀ b2, run b (.null :: mid) = .ok b2 → ∃ w, step b2 .notNull = .panic w := by
    intro b2 h
    simp only [run] at h
    cases h1 : step b .null with
    | ok b1 =>
      rw [h1] at h
      simp only [Res.bind] at h
      have hd1 : b1.isDyn = false := by rw [Builder.isDyn_congr (step_base h1).1]; exact hd
      have hn1 := step_null_sets hd h1
      have hn2 := run_keeps_nullness hd1 (by rw [hn1]; decide) h
      have hd2 : b2.isDyn = false := by rw [Builder.isDyn_congr (run_base_any h).1]; exact hd1
      exact notNull_on_null_panics hd2 (hn2.trans hn1)
    | err e => rw [h1] at h; simp [Res.bind] at h
    | panic w => rw [h1] at h; simp [Res.bind] at h
    | unmodelled => rw [h1] at h; simp [Res.bind] at h
  refine ⟨key, fun b' h => ?_⟩
  have : run b ((.null :: mid) ++ .notNull :: rest) = .ok b' := h
  rw [run_append] at this
  cases h1 : run b (.null :: mid) with
  | ok b2 =>
    rw [h1] at this
    simp only [Res.bind, run] at this
    obtain ⟨w, hw⟩ := key b2 h1
    rw [hw] at this
    simp at this
  | err e => rw [h1] at this; simp [Res.bind] at this
  | panic w => rw [h1] at this; simp [Res.bind] at this
  | unmodelled => rw [h1] at this; simp [Res.bind] at this

/-- `NotNull() … Null()` in one chain -/
theorem notNull_then_null {b : Builder} (hd : b.isDyn = false) (mid rest : List RefineCall) :
    (∀ b2, run b (.notNull :: mid) = .ok b2 → ∃ w, step b2 .null = .panic w) ∧
    ∀ b', run b (.notNull :: (mid ++ .null :: rest)) ≠ .ok b' := by
  have key : ∀ b2, run b (.notNull :: mid) = .ok b2 → ∃ w, step b2 .null = .panic w := by
    intro b2 h
    simp only [run] at h
    cases h1 : step b .notNull with
    | ok b1 =>
      rw [h1] at h
      simp only [Res.bind] at h
      have hd1 : b1.isDyn = false := by rw [Builder.isDyn_congr (step_base h1).1]; exact hd
      have hn1 := step_notNull_sets hd h1
      have hn2 := run_keeps_nullness hd1 (by rw [hn1]; decide) h
      have hd2 : b2.isDyn = false := by rw [Builder.isDyn_congr (run_base_any h).1]; exact hd1
      exact null_on_notNull_panics hd2 (hn2.trans hn1)
    | err e => rw [h1] at h; simp [Res.bind] at h
    | panic w => rw [h1] at h; simp [Res.bind] at h
    | unmodelled => rw [h1] at h; simp [Res.bind] at h
  refine ⟨key, fun b' h => ?_⟩
  have : run b ((.notNull :: mid) ++ .null :: rest) = .ok b' := h
  rw [run_append] at this
  cases h1 : run b (.notNull :: mid) with
  | ok b2 =>
    rw [h1] at this
    simp only [Res.bind, run] at this
    obtain ⟨w, hw⟩ := key b2 h1
    rw [hw] at this
    simp at this
  | err e => rw [h1] at this; simp [Res.bind] at this
  | panic w => rw [h1] at this; simp [Res.bind] at this
  | unmodelled => rw [h1] at this; simp [Res.bind] at this

end Any

end D05
end Refine
end CtyModel
