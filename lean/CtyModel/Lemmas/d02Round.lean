/-
C02, precision-PINNED rounding.  `RoundNE N p q k` says: `q·2^k` is THE
round-to-nearest-even value of the natural number `N` at `p` significant bits —
the cut-off position is pinned (`k = bitlen N − p`), the kept mantissa uses all
`p` bits when anything was cut off, ties go to the even mantissa.  It determines
`q` uniquely (`RoundNE.unique`), so no degenerate witness (such as 0) satisfies it.
`Exact c v e` says: the number `c` is finite and its exact value is `v·2^e`
(cross-multiplied to a common exponent, no escape clause for zero).
-/
import CtyModel.Lemmas.NumRound
import CtyModel.Lemmas.NumCmp
import CtyModel.Lemmas.GoctyNum
namespace CtyModel
namespace D02
open Num NumCmp

/-- `c` is finite and its exact value is `v · 2^e` -/
def Exact (c : Num) (v : Int) (e : Int) : Prop :=
  match c with
  | .fin n m e' _ => sgnm n m * 2 ^ (e' - min e e').toNat = v * 2 ^ (e - min e e').toNat
  | .inf _ => False

/-- `q·2^k` is the nearest-even rounding of `N` to `p` significant bits -/
structure RoundNE (N p q k : Nat) : Prop where
  shift : k = bitlen N - p
  lo : 2 * (q * 2 ^ k) ≤ 2 * N + 2 ^ k
  hi : 2 * N ≤ 2 * (q * 2 ^ k) + 2 ^ k
  tie : (2 * (q * 2 ^ k) = 2 * N + 2 ^ k ∨ 2 * N = 2 * (q * 2 ^ k) + 2 ^ k) → q % 2 = 0
  fits : q ≤ 2 ^ p
  full : 0 < k → 2 ^ (p - 1) ≤ q

theorem two_pow_pos' (k : Nat) : 0 < 2 ^ k := Nat.two_pow_pos k

/-- nothing is cut off when `N` fits: the rounding is `N` itself -/
theorem RoundNE.exact_of_fits {N p q k : Nat} (h : RoundNE N p q k) (hf : bitlen N ≤ p) : k = 0 ∧ q = N := by
  have hk : k = 0 := by have := h.shift; omega
  subst hk
  have h1 := h.lo; have h2 := h.hi
  simp only [Nat.pow_zero, Nat.mul_one] at h1 h2
  exact ⟨rfl, by omega⟩

/-- the rounding is unique -/
theorem RoundNE.unique {N p q k q' k' : Nat} (h : RoundNE N p q k) (h' : RoundNE N p q' k') : q = q' ∧ k = k' := by
  have hk : k = k' := by rw [h.shift, h'.shift]
  subst hk
  refine ⟨?_, rfl⟩
  have hK := two_pow_pos' k
  have aux : ∀ {a b : Nat}, RoundNE N p a k → RoundNE N p b k → a < b → False := by
    intro a b ha hb hab
    have h1 : (a + 1) * 2 ^ k ≤ b * 2 ^ k := Nat.mul_le_mul_right _ hab
    rw [Nat.add_mul, Nat.one_mul] at h1
    have h2 := ha.hi
    have h3 := hb.lo
    have h4 : b * 2 ^ k = a * 2 ^ k + 2 ^ k := by omega
    have h5 : b = a + 1 := by
      have : b * 2 ^ k = (a + 1) * 2 ^ k := by rw [Nat.add_mul, Nat.one_mul]; exact h4
      exact Nat.eq_of_mul_eq_mul_right hK this
    have h6 := ha.tie (.inr (by omega))
    have h7 := hb.tie (.inl (by omega))
    omega
  rcases Nat.lt_trichotomy q q' with hlt | heq | hgt
  · exact (aux h h' hlt).elim
  · exact heq
  · exact (aux h' h hgt).elim

/-- `roundME` computes the nearest-even rounding, with the cut-off position pinned -/
theorem roundME_roundNE (m : Nat) (e : Int) (p : Nat) (hp : 0 < p) :
    RoundNE m p (roundME m e p).1 (bitlen m - p) ∧ (roundME m e p).2 = e + ((bitlen m - p : Nat) : Int) := by
  unfold roundME
  have hp' : p ≠ 0 := by omega
  simp only [hp', if_false]
  split
  · rename_i hbl
    have hk : bitlen m - p = 0 := by omega
    rw [hk]
    refine ⟨⟨by omega, by simp, by simp, ?_, ?_, by omega⟩, by simp⟩
    · simp only [Nat.pow_zero, Nat.mul_one]; omega
    · exact Nat.le_of_lt ((bitlen_le_iff m p).mp hbl)
  · rename_i hbl
    refine ⟨?_, by simp⟩
    generalize hk : bitlen m - p = k
    have hk0 : 0 < k := by omega
    have hm0 : m ≠ 0 := by
      intro h; subst h; simp [bitlen] at hbl
    have hdm := Nat.div_add_mod m (2 ^ k)
    have hlt := Nat.mod_lt m (Nat.two_pow_pos k)
    have hhalf : 2 ^ k = 2 * 2 ^ (k - 1) := by
      rw [← Nat.pow_succ']; congr 1; omega
    -- range of the truncated mantissa
    have hqhi : m / 2 ^ k < 2 ^ p := by
      rw [Nat.div_lt_iff_lt_mul (Nat.two_pow_pos k), ← Nat.pow_add]
      have : p + k = bitlen m := by omega
      rw [this]; exact lt_two_pow_bitlen m
    have hqlo : 2 ^ (p - 1) ≤ m / 2 ^ k := by
      rw [Nat.le_div_iff_mul_le (Nat.two_pow_pos k), ← Nat.pow_add]
      have : p - 1 + k = bitlen m - 1 := by omega
      rw [this]; exact two_pow_bitlen_le hm0
    rw [Nat.shiftRight_eq_div_pow]
    generalize m / 2 ^ k = q at *
    generalize m % 2 ^ k = r at *
    generalize 2 ^ (k - 1) = h at *
    generalize hA : 2 ^ k * q = A at *
    simp only []
    split
    · rename_i hup
      have hr : r ≥ h := by
        rcases hup with h1 | h1
        · exact Nat.le_of_lt h1
        · exact Nat.le_of_eq h1.1.symm
      have hmul : (q + 1) * 2 ^ k = A + 2 ^ k := by rw [Nat.add_mul, Nat.mul_comm q, hA, Nat.one_mul]
      refine ⟨hk.symm, by rw [hmul]; omega, by rw [hmul]; omega, ?_, by omega, fun _ => by omega⟩
      rw [hmul]
      intro ht
      rcases hup with h1 | h1
      · omega
      · omega
    · rename_i hdown
      have hr : r ≤ h := Nat.le_of_not_gt fun c => hdown (.inl c)
      have hmul : q * 2 ^ k = A := by rw [Nat.mul_comm q, hA]
      refine ⟨hk.symm, by rw [hmul]; omega, by rw [hmul]; omega, ?_, by omega, fun _ => by omega⟩
      rw [hmul]
      intro ht
      have : r = h := by omega
      have : ¬ (q % 2 = 1) := fun c => hdown (.inr ⟨this, c⟩)
      omega

/-- the number `Num.mk` builds has the value it was given -/
theorem mk_exact (neg : Bool) (m : Nat) (e : Int) (p : Nat) : Exact (mk neg m e p) (sgnm neg m) e := by
  unfold mk Exact
  by_cases hm : m = 0
  · subst hm
    simp [norm_zero, sgnm]
  · have := norm_val m e hm
    have h2 : ((norm m e).1 : Int) * 2 ^ ((norm m e).2 - e).toNat = m := by exact_mod_cast this.2
    have hmin : min e (norm m e).2 = e := by omega
    simp only [hmin, Int.sub_self, Int.toNat_zero, Int.pow_zero, Int.mul_one]
    unfold sgnm
    cases neg <;> simp [h2, Int.neg_mul]

/-- `Num.round` is the nearest-even rounding of `±m·2^e` at precision `p`: value, pinned rounding, precision -/
theorem round_roundNE (neg : Bool) (m : Nat) (e : Int) (p : Nat) (hp : 0 < p) :
    ∃ q : Nat, Exact (round neg m e p) (sgnm neg q) (e + ((bitlen m - p : Nat) : Int)) ∧
      RoundNE m p q (bitlen m - p) ∧ (round neg m e p).prec = p := by
  obtain ⟨h1, h2⟩ := roundME_roundNE m e p hp
  refine ⟨(roundME m e p).1, ?_, h1, rfl⟩
  unfold round
  simp only []
  rw [← h2]
  exact mk_exact neg _ _ p

/-- exact values are unique -/
theorem Exact.unique {c : Num} {v v' e : Int} (h : Exact c v e) (h' : Exact c v' e) : v = v' := by
  cases c with
  | inf n => exact h.elim
  | fin n m e' p =>
    simp only [Exact] at h h'
    rw [h] at h'
    exact Int.eq_of_mul_eq_mul_right (Int.ne_of_gt (two_pow_pos _)) h'

/-- exact signed sum of two finite numbers at their common exponent `min ea eb` -/
def exactSum (na : Bool) (ma : Nat) (ea : Int) (nb : Bool) (mb : Nat) (eb : Int) : Int :=
  scaleTo (sgnm na ma) ea (min ea eb) + scaleTo (sgnm nb mb) eb (min ea eb)

theorem add_fin_eq (na nb : Bool) (ma mb : Nat) (ea eb : Int) (pa pb : Nat)
    (hs : exactSum na ma ea nb mb eb ≠ 0) :
    Num.add (.fin na ma ea pa) (.fin nb mb eb pb) =
      .ok (round (decide (exactSum na ma ea nb mb eb < 0)) (exactSum na ma ea nb mb eb).natAbs (min ea eb) (max pa pb)) := by
  have hnz : ¬ (ma = 0 ∧ mb = 0) := by
    rintro ⟨rfl, rfl⟩
    apply hs
    simp [exactSum, scaleTo, sgnm]
  simp only [Num.add, hnz, if_false]
  have : (exactSum na ma ea nb mb eb = 0) = False := by simp [hs]
  simp only [exactSum, sgnm] at this ⊢
  simp only [this, if_false]
  rfl

/-- ADD, finite operands, non-zero exact sum `s`: the result is the nearest-even
rounding of `s·2^(min ea eb)` at precision `max pa pb` -/
theorem add_fin_rounds (na nb : Bool) (ma mb : Nat) (ea eb : Int) (pa pb : Nat)
    (hp : 0 < max pa pb) (hs : exactSum na ma ea nb mb eb ≠ 0) :
    ∃ (c : Num) (q : Nat), Num.add (.fin na ma ea pa) (.fin nb mb eb pb) = .ok c ∧
      c.prec = max pa pb ∧
      Exact c (if exactSum na ma ea nb mb eb < 0 then -(q : Int) else q)
        (min ea eb + ((bitlen (exactSum na ma ea nb mb eb).natAbs - max pa pb : Nat) : Int)) ∧
      RoundNE (exactSum na ma ea nb mb eb).natAbs (max pa pb) q (bitlen (exactSum na ma ea nb mb eb).natAbs - max pa pb) := by
  obtain ⟨q, h1, h2, h3⟩ := round_roundNE (decide (exactSum na ma ea nb mb eb < 0))
    (exactSum na ma ea nb mb eb).natAbs (min ea eb) (max pa pb) hp
  refine ⟨_, q, add_fin_eq na nb ma mb ea eb pa pb hs, h3, ?_, h2⟩
  simpa [sgnm] using h1

/-- ADD, exact sum zero: the result is a zero of precision `max pa pb` -/
theorem add_fin_zero (na nb : Bool) (ma mb : Nat) (ea eb : Int) (pa pb : Nat)
    (hs : exactSum na ma ea nb mb eb = 0) :
    ∃ n, Num.add (.fin na ma ea pa) (.fin nb mb eb pb) = .ok (.fin n 0 0 (max pa pb)) := by
  simp only [Num.add]
  split
  · exact ⟨_, rfl⟩
  · simp only [exactSum, sgnm] at hs
    simp only [hs, if_true]
    exact ⟨_, rfl⟩

/-- MUL: the result is the nearest-even rounding of the exact product at 512 bits
(cty's working precision), stored with precision max(operand precisions, bits needed) -/
theorem mul_fin_rounds (na nb : Bool) (ma mb : Nat) (ea eb : Int) (pa pb : Nat) :
    ∃ (c : Num) (q : Nat), Num.mulCty (.fin na ma ea pa) (.fin nb mb eb pb) = .ok c ∧
      Exact c (sgnm (na != nb) q) (ea + eb + ((bitlen (ma * mb) - 512 : Nat) : Int)) ∧
      RoundNE (ma * mb) 512 q (bitlen (ma * mb) - 512) ∧
      c.prec = max (max pa pb) c.minPrec := by
  obtain ⟨q, h1, h2, _⟩ := round_roundNE (na != nb) (ma * mb) (ea + eb) 512 (by decide)
  simp only [Num.mulCty]
  generalize hr : round (na != nb) (ma * mb) (ea + eb) 512 = r at *
  cases r with
  | inf n => exact h1.elim
  | fin n m e p => exact ⟨_, q, rfl, h1, h2, rfl⟩

end D02
end CtyModel
