/-
The marks API (`Mark`, `Unmark`, `WithMarks`, `WithSameMarks`, `HasSameMarks`,
`HasMark`), the collection constructors and the conversion wrapper:
specifications of the transliterations in `CtyModel/MarksOps.lean`.
-/
import CtyModel.Lemmas.MarksCall
import CtyModel.Lemmas.MarksOps
namespace CtyModel
namespace Value

/-! ### Mark / Unmark / WithMarks -/

theorem unmarkPair_mark (v : Value) (m : String) :
    (v.mark m).unmarkPair = (v.unmark, insertMark m v.marks) := rfl

theorem unmarkPair_mark_of_unmarked {v : Value} (h : v.isMarked = false) (m : String) :
    (v.mark m).unmarkPair = (v, [m]) := by
  rw [unmarkPair_mark, unmark_of_not_marked h, marks_of_not_marked h]; rfl

theorem mem_marks_mark {v : Value} {m x : String} : x ∈ (v.mark m).marks ↔ x = m ∨ x ∈ v.marks :=
  mem_insertMark

theorem hasMark_iff (v : Value) (m : String) : v.hasMark m = true ↔ m ∈ v.marks := by
  simp [hasMark]

/-- `Unmark` then `WithMarks` gives the value back -/
theorem withMarks_unmarkPair {v : Value} (hw : v.v.markerWF = true) (hc : v.v.marksCanon) :
    v.unmarkPair.1.withMarks v.unmarkPair.2 = v := by
  obtain ⟨t, p⟩ := v
  cases p
  case marked ms r =>
    simp only [Payload.markerWF, Bool.and_eq_true, Bool.not_eq_true', List.isEmpty_eq_false_iff] at hw
    have hne : ms ≠ [] := by simpa using hw.1.1
    have hr : r.marks1 = [] := Payload.marks1_eq_nil_of_not_marked hw.1.2
    have hu : r.unmark1 = r := Payload.unmark1_eq_of_not_marked hw.1.2
    have e : unionMarks [] ms = ms := rfl
    show (⟨t, r.withMarks ms⟩ : Value) = _
    rw [Payload.withMarks_def, hr, e, hu]
    simp [hne]
  all_goals simp [unmarkPair, isMarked, Payload.isMarked, withMarks, Payload.withMarks, Payload.marks1, unionMarks]

theorem mem_marks_withMarksV {v : Value} {mss : List (List String)} {m : String} :
    m ∈ (v.withMarksV mss).marks ↔ m ∈ v.marks ∨ ∃ ms ∈ mss, m ∈ ms := by
  unfold withMarksV
  split
  · rename_i h
    have : mss = [] := by simpa using h
    simp [this]
  · rw [mem_marks_withMarks, mem_unionAllMarks]

theorem unmark_withMarks (v : Value) (ms : List String) : (v.withMarks ms).unmark = v.unmark := by
  simp [unmark, withMarks, Payload.unmark1_withMarks]

theorem unmark_withMarksV (v : Value) (mss : List (List String)) : (v.withMarksV mss).unmark = v.unmark := by
  unfold withMarksV; split
  · rfl
  · exact unmark_withMarks _ _

/-! ### WithSameMarks / HasSameMarks -/

theorem mem_marks_withSameMarks {v : Value} {srcs : List Value} {m : String} :
    m ∈ (v.withSameMarks srcs).marks ↔ m ∈ v.marks ∨ ∃ s ∈ srcs, m ∈ s.marks := by
  unfold withSameMarks
  split
  · rename_i h
    have : srcs = [] := by simpa using h
    simp [this]
  · simp only
    split
    · rename_i h
      have h' : unionMarks v.marks (unionAllMarks (srcs.map Value.marks)) = [] := by simpa using h
      obtain ⟨h1, h2⟩ := unionMarks_eq_nil.mp h'
      have h3 : ∀ s ∈ srcs, s.marks = [] := by
        intro s hs
        apply List.eq_nil_iff_forall_not_mem.mpr
        intro x hx
        have : x ∈ unionAllMarks (srcs.map Value.marks) := mem_unionAllMarks.mpr ⟨s.marks, List.mem_map.mpr ⟨s, hs, rfl⟩, hx⟩
        rw [h2] at this; simp at this
      constructor
      · exact .inl
      · rintro (h | ⟨s, hs, hm⟩)
        · exact h
        · rw [h3 s hs] at hm; simp at hm
    · show m ∈ unionMarks v.marks (unionAllMarks (srcs.map Value.marks)) ↔ _
      rw [mem_unionMarks, mem_unionAllMarks]
      constructor
      · rintro (h | ⟨ms, hms, hm⟩)
        · exact .inl h
        · obtain ⟨s, hs, rfl⟩ := List.mem_map.mp hms
          exact .inr ⟨s, hs, hm⟩
      · rintro (h | ⟨s, hs, hm⟩)
        · exact .inl h
        · exact .inr ⟨s.marks, List.mem_map.mpr ⟨s, hs, rfl⟩, hm⟩

theorem unmark_withSameMarks (v : Value) (srcs : List Value) : (v.withSameMarks srcs).unmark = v.unmark := by
  unfold withSameMarks
  split
  · rfl
  · simp only
    split
    · rfl
    · rfl

theorem sorted_subset_length_le : ∀ {x y : List String}, MSorted x → MSorted y → (∀ m ∈ x, m ∈ y) →
    x.length ≤ y.length
  | [], _, _, _, _ => by simp
  | a :: xs, [], _, _, h => by have := h a (by simp); simp at this
  | a :: xs, b :: ys, hx, hy, h => by
    have hxa := List.pairwise_cons.mp hx
    have hyb := List.pairwise_cons.mp hy
    by_cases hab : a = b
    · subst hab
      have : ∀ m ∈ xs, m ∈ ys := fun m hm => by
        rcases List.mem_cons.mp (h m (by simp [hm])) with h1 | h1
        · subst h1; exact absurd (hxa.1 m hm) (String.lt_irrefl _)
        · exact h1
      have := sorted_subset_length_le hxa.2 hyb.2 this
      simp; omega
    · have ha : a ∈ ys := by
        rcases List.mem_cons.mp (h a (by simp)) with h1 | h1
        · exact absurd h1 hab
        · exact h1
      have hba : b < a := hyb.1 a ha
      have : ∀ m ∈ a :: xs, m ∈ ys := fun m hm => by
        rcases List.mem_cons.mp (h m hm) with h1 | h1
        · subst h1
          rcases List.mem_cons.mp hm with h2 | h2
          · subst h2; exact absurd hba (String.lt_irrefl _)
          · exact absurd (String.lt_trans hba (hxa.1 m h2)) (String.lt_irrefl _)
        · exact h1
      have := sorted_subset_length_le hx hyb.2 this
      simp at this ⊢; omega

theorem sorted_subset_eq : ∀ {x y : List String}, MSorted x → MSorted y → (∀ m ∈ x, m ∈ y) →
    x.length = y.length → x = y
  | [], [], _, _, _, _ => rfl
  | [], _ :: _, _, _, _, hl => by simp at hl
  | _ :: _, [], _, _, _, hl => by simp at hl
  | a :: xs, b :: ys, hx, hy, h, hl => by
    have hxa := List.pairwise_cons.mp hx
    have hyb := List.pairwise_cons.mp hy
    by_cases hab : a = b
    · subst hab
      have : ∀ m ∈ xs, m ∈ ys := fun m hm => by
        rcases List.mem_cons.mp (h m (by simp [hm])) with h1 | h1
        · subst h1; exact absurd (hxa.1 m hm) (String.lt_irrefl _)
        · exact h1
      rw [sorted_subset_eq hxa.2 hyb.2 this (by simpa using hl)]
    · have ha : a ∈ ys := by
        rcases List.mem_cons.mp (h a (by simp)) with h1 | h1
        · exact absurd h1 hab
        · exact h1
      have hba : b < a := hyb.1 a ha
      have : ∀ m ∈ a :: xs, m ∈ ys := fun m hm => by
        rcases List.mem_cons.mp (h m hm) with h1 | h1
        · subst h1
          rcases List.mem_cons.mp hm with h2 | h2
          · subst h2; exact absurd hba (String.lt_irrefl _)
          · exact absurd (String.lt_trans hba (hxa.1 m h2)) (String.lt_irrefl _)
        · exact h1
      have := sorted_subset_length_le hx hyb.2 this
      simp at this hl; omega

theorem marksEqual_iff {x y : List String} (hx : MSorted x) (hy : MSorted y) : marksEqual x y = true ↔ x = y := by
  constructor
  · intro h
    simp only [marksEqual, Bool.and_eq_true, beq_iff_eq, List.all_eq_true, List.contains_iff_mem] at h
    exact sorted_subset_eq hx hy (fun m hm => by simpa using h.2 m hm) h.1
  · rintro rfl
    simp [marksEqual]

/-- `HasSameMarks` decides equality of the two top-level mark sets (on canonical marker layers) -/
theorem hasSameMarks_iff {a b : Value} (ha : a.v.markerWF = true) (hb : b.v.markerWF = true)
    (hca : a.v.marksCanon) (hcb : b.v.marksCanon) : a.hasSameMarks b = true ↔ a.marks = b.marks := by
  obtain ⟨ta, pa⟩ := a
  obtain ⟨tb, pb⟩ := b
  cases pa <;> cases pb <;>
    simp_all [hasSameMarks, isMarked, Payload.isMarked, marks, Payload.marks1, Payload.markerWF, Payload.marksCanon]
  · rename_i ms1 r1 ms2 r2
    exact marksEqual_iff hca.1 hcb.1
  all_goals (intro h; simp_all)

/-! ### SetVal hoists, ListVal / MapVal do not touch marks -/

theorem mem_setInsert {h : Int} {x p : Payload} : ∀ {ids : List Int} {vs : List Payload},
    p ∈ (setInsert h x ids vs).2 → p = x ∨ p ∈ vs
  | [], _, hp => by simp [setInsert] at hp; exact .inl hp
  | _ :: _, [], hp => by simp [setInsert] at hp; exact .inl hp
  | j :: js, y :: ys, hp => by
    simp only [setInsert] at hp
    split at hp
    · simp at hp; rcases hp with h1 | h1 | h1 <;> simp [h1]
    · simp only [List.mem_cons] at hp
      rcases hp with h1 | h1
      · simp [h1]
      · rcases mem_setInsert h1 with h2 | h2 <;> simp [h2]

theorem mem_setAddAll {e : Ty} {p : Payload} : ∀ {xs : List Payload} {hs : List (Option Int)} {ids : List Int}
    {vs : List Payload} {r : List Int × List Payload}, setAddAll e xs hs ids vs = .ok r → p ∈ r.2 → p ∈ vs ∨ p ∈ xs
  | [], _, _, _, _, h, hp => by simp [setAddAll] at h; subst h; exact .inl hp
  | _ :: _, [], _, _, _, h, _ => by simp [setAddAll] at h
  | _ :: _, none :: _, _, _, _, h, _ => by simp [setAddAll] at h
  | x :: xs, some hh :: hs, ids, vs, r, h, hp => by
    simp only [setAddAll] at h
    split at h
    · rcases mem_setAddAll h hp with h1 | h1
      · exact .inl h1
      · exact .inr (List.mem_cons_of_mem _ h1)
    · rcases mem_setAddAll h hp with h1 | h1
      · rcases mem_setInsert h1 with h2 | h2
        · exact .inr (by simp [h2])
        · exact .inl h2
      · exact .inr (List.mem_cons_of_mem _ h1)
    · simp at h
    · simp at h
    · simp at h

theorem setValLoop_spec : ∀ {acc : Ty} {vals : List Value} {t : Ty} {ps : List Payload} {mss : List (List String)},
    setValLoop acc vals = .ok (t, ps, mss) →
    (∀ m, (∃ ms ∈ mss, m ∈ ms) ↔ ∃ v ∈ vals, m ∈ v.marksDeep) ∧
    ((∀ v ∈ vals, v.v.markerWF = true) → ∀ p ∈ ps, p.containsMarked = false)
  | _, [], _, _, _, h => by simp [setValLoop] at h; obtain ⟨_, rfl, rfl⟩ := h; simp
  | acc, v :: vs, t, ps, mss, h => by
    simp only [setValLoop] at h
    split at h
    · simp at h
    · rename_i a _
      cases hr : setValLoop a vs with
      | ok r =>
        obtain ⟨t', ps', mss'⟩ := r
        simp only [hr, Res.ok.injEq, Prod.mk.injEq] at h
        obtain ⟨rfl, rfl, rfl⟩ := h
        obtain ⟨ih1, ih2⟩ := setValLoop_spec hr
        constructor
        · intro m
          simp only [List.mem_append, List.mem_cons]
          constructor
          · rintro ⟨ms, (h1 | h1), hm⟩
            · split at h1
              · simp at h1; subst h1; exact ⟨v, .inl rfl, hm⟩
              · simp at h1
            · obtain ⟨w, hw, hm'⟩ := (ih1 m).mp ⟨ms, h1, hm⟩
              exact ⟨w, .inr hw, hm'⟩
          · rintro ⟨w, (rfl | hw), hm⟩
            · refine ⟨w.marksDeep, .inl ?_, hm⟩
              have : w.marksDeep.length > 0 := List.length_pos_iff.mpr (List.ne_nil_of_mem hm)
              simp [this]
            · obtain ⟨ms, hms, hm'⟩ := (ih1 m).mpr ⟨w, hw, hm⟩
              exact ⟨ms, .inr hms, hm'⟩
        · intro hwf p hp
          rcases List.mem_cons.mp hp with rfl | hp'
          · split
            · exact Payload.containsMarked_stripMarks _
            · rename_i hl
              have h0 : v.marksDeep = [] := List.eq_nil_of_length_eq_zero (by omega)
              exact Payload.not_containsMarked_of_marksDeep_nil _ (hwf v (by simp)) h0
          · exact ih2 (fun w hw => hwf w (by simp [hw])) p hp'
      | err c => simp [hr] at h
      | panic w => simp [hr] at h
      | unmodelled => simp [hr] at h

/-- `SetVal`: the marks found at any depth of any element are exactly the marks of
the set, and no member of the set contains a mark -/
theorem setVal_spec {vals : List Value} {hashes : List (Option Int)} {r : Value} (h : setVal vals hashes = .ok r) :
    (∀ m, m ∈ r.marks ↔ ∃ v ∈ vals, m ∈ v.marksDeep) ∧
    ((∀ v ∈ vals, v.v.markerWF = true) → r.unmark.containsMarked = false) := by
  unfold setVal at h
  split at h
  · simp at h
  · cases hl : setValLoop .dyn vals with
    | ok q =>
      obtain ⟨et, ps, mss⟩ := q
      simp only [hl] at h
      cases ha : setAddAll et ps hashes [] [] with
      | ok idv =>
        obtain ⟨ids, vs⟩ := idv
        simp only [ha, Res.ok.injEq] at h
        subst h
        obtain ⟨h1, h2⟩ := setValLoop_spec hl
        constructor
        · intro m
          rw [mem_marks_withMarksV, ← h1 m]
          simp [marks, Payload.marks1]
        · intro hwf
          rw [unmark_withMarksV]
          show Payload.containsMarked (Payload.sset ids vs).unmark1 = false
          simp only [Payload.unmark1, Payload.containsMarked, Payload.containsMarkedL_eq_any, List.any_eq_false]
          intro p hp
          rcases mem_setAddAll ha hp with h3 | h3
          · simp at h3
          · simp [h2 hwf p h3]
      | err c => simp [ha] at h
      | panic w => simp [ha] at h
      | unmodelled => simp [ha] at h
    | err c => simp [hl] at h
    | panic w => simp [hl] at h
    | unmodelled => simp [hl] at h

theorem setValLoop_unmarkDeep : ∀ (acc : Ty) (vals : List Value), (∀ v ∈ vals, v.v.markerWF = true) →
    setValLoop acc (vals.map unmarkDeep) = (setValLoop acc vals).map fun q => (q.1, q.2.1, [])
  | _, [], _ => rfl
  | acc, v :: vs, hwf => by
    have hv : (if v.marksDeep.length > 0 then v.unmarkDeep else v) = v.unmarkDeep := by
      split
      · rfl
      · rename_i hl
        exact (Fn.clean_of_marksDeep_nil (hwf v (by simp)) (List.eq_nil_of_length_eq_zero (by omega))).symm
    simp only [List.map_cons, setValLoop, marksDeep_unmarkDeep, List.length_nil, Nat.lt_irrefl, gt_iff_lt, if_false, hv]
    cases elemTypeStep acc v.unmarkDeep.ty with
    | none => rfl
    | some a =>
      simp only [setValLoop_unmarkDeep a vs (fun w hw => hwf w (by simp [hw]))]
      cases setValLoop a vs with
      | ok q => obtain ⟨t, ps, mss⟩ := q; simp [Res.map]
      | err c => rfl
      | panic w => rfl
      | unmodelled => rfl

/-- non-interference of `SetVal`: the set built from marked elements, unmarked, is
the set built from the unmarked elements -/
theorem setVal_unmark_commutes (vals : List Value) (hashes : List (Option Int))
    (hwf : ∀ v ∈ vals, v.v.markerWF = true) :
    (setVal vals hashes).map unmarkDeep = setVal (vals.map unmarkDeep) hashes := by
  by_cases he : vals.isEmpty = true
  · have : vals = [] := by simpa using he
    subst this; rfl
  · have he' : (vals.map unmarkDeep).isEmpty = false := by simpa using he
    unfold setVal
    simp only [he, he', Bool.false_eq_true, if_false, setValLoop_unmarkDeep .dyn vals hwf]
    cases hl : setValLoop .dyn vals with
    | ok q =>
      obtain ⟨et, ps, mss⟩ := q
      simp only [Res.map]
      cases ha : setAddAll et ps hashes [] [] with
      | ok idv =>
        obtain ⟨ids, vs⟩ := idv
        simp only [Res.ok.injEq]
        have hclean : (⟨.set et, .sset ids vs⟩ : Value).containsMarked = false := by
          show Payload.containsMarked (.sset ids vs) = false
          simp only [Payload.containsMarked, Payload.containsMarkedL_eq_any, List.any_eq_false]
          intro p hp
          rcases mem_setAddAll ha hp with h3 | h3
          · simp at h3
          · simp [(setValLoop_spec hl).2 hwf p h3]
        have e1 : ∀ M, ((⟨.set et, .sset ids vs⟩ : Value).withMarksV M).unmarkDeep = ⟨.set et, .sset ids vs⟩ := by
          intro M
          unfold withMarksV
          split
          · exact unmarkDeep_of_clean hclean
          · rw [unmarkDeep_withMarks]; exact unmarkDeep_of_clean hclean
        rw [e1]; rfl
      | err c => rfl
      | panic w => rfl
      | unmodelled => rfl
    | err c => rfl
    | panic w => rfl
    | unmodelled => rfl

theorem payloadsOf_getElem? : ∀ (vals : List Value) (i : Nat), (payloadsOf vals)[i]? = vals[i]?.map (·.v)
  | [], _ => by simp [payloadsOf]
  | v :: vs, 0 => by simp [payloadsOf]
  | v :: vs, i + 1 => by simp [payloadsOf, payloadsOf_getElem? vs i]

/-- `ListVal`: the list itself is unmarked and every member keeps exactly the
payload — marks included — of the element it was built from -/
theorem listVal_spec {vals : List Value} {r : Value} (h : listVal vals = .ok r) :
    r.isMarked = false ∧ ∃ et, r = ⟨.list et, .seq (payloadsOf vals)⟩ := by
  unfold listVal at h
  split at h
  · simp at h
  · obtain ⟨et, _, rfl⟩ := Res.map_eq_ok.mp h
    exact ⟨rfl, et, rfl⟩

theorem mapVal_spec {keys : List String} {vals : List Value} {r : Value} (h : mapVal keys vals = .ok r) :
    r.isMarked = false ∧ ∃ et, r = ⟨.map et, .smap keys (payloadsOf vals)⟩ := by
  unfold mapVal at h
  split at h
  · simp at h
  · obtain ⟨et, _, rfl⟩ := Res.map_eq_ok.mp h
    exact ⟨rfl, et, rfl⟩

/-! ### the conversion wrapper -/

/-- every top-level mark of the converted value is on the result, for every inner conversion -/
theorem convWrap_top {inner : Value → Res Value} {v r : Value} (h : convWrap inner v = .ok r) {m : String}
    (hm : m ∈ v.marks) : m ∈ r.marks :=
  unMarks_top (f := inner) h hm

/-- the wrapper adds nothing but the input's top-level marks -/
theorem convWrap_noinv {inner : Value → Res Value} {v r : Value} (h : convWrap inner v = .ok r) :
    ∃ r0, inner v.unmark = .ok r0 ∧ r.unmark = r0.unmark ∧ ∀ m, m ∈ r.marks ↔ (m ∈ r0.marks ∨ m ∈ v.marks) := by
  unfold convWrap at h
  by_cases hc : v.isMarked = true
  · simp only [hc, if_true] at h
    obtain ⟨r0, h0, rfl⟩ := Res.map_eq_ok.mp h
    exact ⟨r0, h0, unmark_withMarks _ _, fun m => mem_marks_withMarks⟩
  · have hc' : v.isMarked = false := by simpa using hc
    simp only [hc', Bool.false_eq_true, if_false] at h
    refine ⟨r, by rw [unmark_of_not_marked hc']; exact h, rfl, fun m => ?_⟩
    rw [marks_of_not_marked hc']; simp

/-- the wrapper does not let the inner conversion see the top-level marks:
converting the marked value and converting the unmarked value differ by those marks only -/
theorem convWrap_unmark (inner : Value → Res Value) (v : Value) (hw : v.v.markerWF = true) :
    (convWrap inner v).map Value.unmark = (convWrap inner v.unmark).map Value.unmark := by
  have hu : v.unmark.isMarked = false := Payload.isMarked_unmark1_of_wf hw
  unfold convWrap
  simp only [hu, Bool.false_eq_true, if_false]
  by_cases hc : v.isMarked = true
  · simp only [hc, if_true, Res.map_map]
    exact Res.map_congr _ (fun r _ => by simp [Function.comp, unmark_withMarks])
  · have hc' : v.isMarked = false := by simpa using hc
    simp [hc', unmark_of_not_marked hc']

end Value
end CtyModel
