/- Type JSON: decoding the encoding of a capsule-free type returns that type. -/
import CtyModel.Lemmas.TyMisc
import CtyModel.TyJson
namespace CtyModel
namespace Ty

/-! all attribute names occurring in the type are fixed points of `norm` -/
mutual
def namesFixed (norm : String → String) : Ty → Bool
  | .list e | .set e | .map e => namesFixed norm e
  | .tuple es => namesFixedL norm es
  | .object ns ts _ => ns.all (fun n => norm n == n) && namesFixedL norm ts
  | _ => true
def namesFixedL (norm : String → String) : List Ty → Bool
  | [] => true
  | t :: ts => namesFixed norm t && namesFixedL norm ts
end

theorem insertField_lt {k : String} {t : Ty} {ns : List String} {ts : List Ty}
    (hl : ns.length = ts.length) (h : ∀ x ∈ ns, k < x) :
    insertField k t ns ts = (k :: ns, t :: ts) := by
  cases ns with
  | nil => cases ts with
    | nil => simp [insertField]
    | cons _ _ => simp at hl
  | cons n ns => cases ts with
    | nil => simp at hl
    | cons u us => simp [insertField, h n (by simp)]

theorem buildFields_asc {norm : String → String} : ∀ {ns : List String} {ts : List Ty},
    strictAsc ns = true → ns.length = ts.length → (ns.all fun n => norm n == n) = true →
    buildFields norm ns ts = (ns, ts)
  | [], [], _, _, _ => by simp [buildFields]
  | [], _ :: _, _, h, _ => by simp at h
  | _ :: _, [], _, h, _ => by simp at h
  | n :: ns, t :: ts, ha, hl, hn => by
    have ⟨ha', hlt⟩ := strictAsc_cons ha
    simp only [List.all_cons, Bool.and_eq_true, beq_iff_eq] at hn
    simp only [buildFields]
    rw [buildFields_asc ha' (by simpa using hl) hn.2, hn.1]
    exact insertField_lt (by simpa using hl) hlt

theorem strList_strs : ∀ l : List String, strList (l.map Json.str) = some l
  | [] => rfl
  | s :: l => by simp [strList, strList_strs l]

theorem optNames_sub : ∀ {ns : List String} {os : List Bool}, ∀ x ∈ optNames ns os, x ∈ ns
  | [], _, _, h => by simp [optNames] at h
  | _ :: _, [], _, h => by simp [optNames] at h
  | n :: ns, o :: os, x, h => by
    simp only [optNames] at h
    split at h
    · rcases List.mem_cons.mp h with rfl | h
      · simp
      · exact List.mem_cons_of_mem _ (optNames_sub x h)
    · exact List.mem_cons_of_mem _ (optNames_sub x h)

theorem optNames_flags : ∀ {ns : List String} {os : List Bool}, strictAsc ns = true →
    ns.length = os.length → ns.map (fun n => decide (n ∈ optNames ns os)) = os
  | [], [], _, _ => rfl
  | [], _ :: _, _, h => by simp at h
  | _ :: _, [], _, h => by simp at h
  | n :: ns, o :: os, ha, hl => by
    have ⟨ha', hlt⟩ := strictAsc_cons ha
    have ih := optNames_flags ha' (by simpa using hl : ns.length = os.length)
    have hn : n ∉ optNames ns os := fun h => String.lt_irrefl _ (hlt n (optNames_sub n h))
    have hrest : ns.map (fun x => decide (x ∈ optNames (n :: ns) (o :: os))) = os := by
      refine Eq.trans (List.map_congr_left ?_) ih
      intro x hx
      have hxn : x ≠ n := fun e => String.lt_irrefl _ (e ▸ hlt x hx)
      cases o <;> simp [optNames, hxn]
    simp only [List.map_cons, hrest, List.cons.injEq, and_true]
    cases o <;> simp [optNames, hn]

theorem map_const_false {α} : ∀ (ns : List α) (os : List Bool), ns.length = os.length →
    os.any id = false → ns.map (fun _ => false) = os
  | [], [], _, _ => rfl
  | [], _ :: _, h, _ => by simp at h
  | _ :: _, [], h, _ => by simp at h
  | _ :: ns, o :: os, hl, h => by
    simp only [List.any_cons, id, Bool.or_eq_false_iff] at h
    simp [h.1, map_const_false ns os (by simpa using hl) h.2]

mutual
theorem json_roundtrip (norm : String → String) : ∀ t : Ty, wf t = true → hasCapsule t = false →
    namesFixed norm t = true → ∃ j, toJson t = .ok j ∧ ofJson norm j = .ok t
  | .bool, _, _, _ => ⟨_, rfl, by simp [ofJson]⟩
  | .number, _, _, _ => ⟨_, rfl, by simp [ofJson]⟩
  | .string, _, _, _ => ⟨_, rfl, by simp [ofJson]⟩
  | .dyn, _, _, _ => ⟨_, rfl, by simp [ofJson]⟩
  | .capsule _, _, h, _ => by simp [hasCapsule] at h
  | .list e, hw, hc, hn => by
    obtain ⟨j, h1, h2⟩ := json_roundtrip norm e (by simpa [wf] using hw)
      (by simpa [hasCapsule] using hc) (by simpa [namesFixed] using hn)
    exact ⟨.arr [.str "list", j], by simp [toJson, h1, Res.map], by simp [ofJson, h2, Res.map]⟩
  | .set e, hw, hc, hn => by
    obtain ⟨j, h1, h2⟩ := json_roundtrip norm e (by simpa [wf] using hw)
      (by simpa [hasCapsule] using hc) (by simpa [namesFixed] using hn)
    exact ⟨.arr [.str "set", j], by simp [toJson, h1, Res.map], by simp [ofJson, h2, Res.map]⟩
  | .map e, hw, hc, hn => by
    obtain ⟨j, h1, h2⟩ := json_roundtrip norm e (by simpa [wf] using hw)
      (by simpa [hasCapsule] using hc) (by simpa [namesFixed] using hn)
    exact ⟨.arr [.str "map", j], by simp [toJson, h1, Res.map], by simp [ofJson, h2, Res.map]⟩
  | .tuple es, hw, hc, hn => by
    obtain ⟨js, h1, h2⟩ := json_roundtripL norm es (by simpa [wf] using hw)
      (by simpa [hasCapsule] using hc) (by simpa [namesFixed] using hn)
    exact ⟨.arr [.str "tuple", .arr js], by simp [toJson, h1, Res.map], by simp [ofJson, h2, Res.bind]⟩
  | .object ns ts os, hw, hc, hn => by
    simp only [wf, Bool.and_eq_true, beq_iff_eq] at hw
    obtain ⟨⟨⟨l1, l2⟩, ha⟩, hwl⟩ := hw
    simp only [namesFixed, Bool.and_eq_true] at hn
    obtain ⟨js, h1, h2⟩ := json_roundtripL norm ts hwl
      (by simpa [hasCapsule] using hc) hn.2
    have hb := buildFields_asc (norm := norm) (ts := ts) ha l1 hn.1
    by_cases hany : os.any id = true
    · refine ⟨.arr [.str "object", .obj ns js, .arr ((optNames ns os).map .str)], by simp only [toJson, h1, Res.map, hany, if_true], ?_⟩
      have hfix : (optNames ns os).map norm = optNames ns os := by
        conv => rhs; rw [← List.map_id (optNames ns os)]
        apply List.map_congr_left
        intro x hx
        have := List.all_eq_true.mp hn.1 x (optNames_sub x hx)
        simpa using this
      have hall : ((optNames ns os).all fun o => ns.contains o) = true := by
        simp only [List.all_eq_true, List.contains_iff_mem]
        exact fun x hx => optNames_sub x hx
      have hall' : ∀ x ∈ optNames ns os, x ∈ ns := fun x hx => optNames_sub x hx
      simp [ofJson, h2, Res.map, Res.bind, hb, strList_strs, hfix,
        optNames_flags ha (by omega : ns.length = os.length)]
      exact hall'
    · have hany' : os.any id = false := by simpa using hany
      refine ⟨.arr [.str "object", .obj ns js], by simp only [toJson, h1, Res.map, hany', Bool.false_eq_true, if_false], ?_⟩
      simp [ofJson, h2, Res.map, Res.bind, hb, map_const_false ns os (by omega) hany']
theorem json_roundtripL (norm : String → String) : ∀ ts : List Ty, wfL ts = true →
    hasCapsuleL ts = false → namesFixedL norm ts = true →
    ∃ js, toJsonL ts = .ok js ∧ ofJsonL norm js = .ok ts
  | [], _, _, _ => ⟨[], rfl, rfl⟩
  | t :: ts, hw, hc, hn => by
    simp only [wfL, Bool.and_eq_true] at hw
    simp only [hasCapsuleL, Bool.or_eq_false_iff] at hc
    simp only [namesFixedL, Bool.and_eq_true] at hn
    obtain ⟨j, h1, h2⟩ := json_roundtrip norm t hw.1 hc.1 hn.1
    obtain ⟨js, h3, h4⟩ := json_roundtripL norm ts hw.2 hc.2 hn.2
    exact ⟨j :: js, by simp [toJsonL, h1, h3, Res.map], by simp [ofJsonL, h2, h4, Res.map]⟩
end

end Ty
end CtyModel
