/-
d19b — `pathSetRules` on paths whose index keys are ANY wholly known, mark-free
value of a set- and capsule-free type: null keys (of any type) and keys of compound
type (lists, maps, tuples, objects of primitives, nested) besides numbers and strings.

`pathSetRules.Equivalent` reads `aStep.Key.Equals(bStep.Key)` and wants it known and
true.  On such keys `Equals` is an equivalence relation (C03: `equals_of_members`,
`rawB` reflexive / symmetric / transitive) on each type; across types it is true only
for two nulls (`Equals` of two nulls is true whatever their types) and false
otherwise.  Hence `Equivalent` is an equivalence on those paths, and with the hash
clause (`d19Hash`, all paths) the rules are lawful there (`Rules.LawfulOn`), so the
PathSet refinement holds for histories over them.
-/
import CtyModel.Lemmas.WalkPathSet
import CtyModel.Lemmas.d19Hash
import CtyModel.Lemmas.ValEqRules
import CtyModel.Lemmas.ValEqSymm
import CtyModel.Lemmas.d13Carrier
import CtyModel.Lemmas.WalkStrip
import CtyModel.Lemmas.WalkTrans
namespace CtyModel
namespace PathSet
open Value SetImpl

/-- a wholly known, mark-free key of a well-formed type without set and capsule types
(null included, of any such type) -/
def wideKey (k : Value) : Bool :=
  k.ty.wf && k.ty.plain && k.v.shaped k.ty && k.v.whollyKnown && !k.v.containsMarked

def keysWide : Path → Bool
  | [] => true
  | .getAttr _ :: p => keysWide p
  | .index k :: p => wideKey k && keysWide p

/-- what `Equivalent` asks of one pair of keys: `Equals` succeeds, and — marks aside —
is known and true -/
def keyT (a b : Value) : Bool :=
  match Value.equals a b with
  | .ok r => r.unmark.isKnown && r.unmark.isTrue
  | _ => false

def stepsT : Path → Path → Bool
  | .getAttr a :: p, .getAttr b :: q => a == b && stepsT p q
  | .index a :: p, .index b :: q => keyT a b && stepsT p q
  | [], _ => true
  | _, _ => false

/-- the step loop of `Equivalent` answers true exactly when every pair of steps matches
— for ALL paths (a comparison that fails or panics is not "true") -/
theorem equivSteps_true_iff : ∀ (p q : Path), equivSteps p q = .ok true ↔ stepsT p q = true
  | [], q => by cases q <;> simp [equivSteps, stepsT]
  | .getAttr a :: p, [] => by simp [equivSteps, stepsT]
  | .index a :: p, [] => by simp [equivSteps, stepsT]
  | .getAttr a :: p, .index b :: q => by simp [equivSteps, stepsT]
  | .index a :: p, .getAttr b :: q => by simp [equivSteps, stepsT]
  | .getAttr a :: p, .getAttr b :: q => by
    simp only [equivSteps, stepsT]
    by_cases h : a = b
    · simp [h, equivSteps_true_iff p q]
    · simp [h]
  | .index a :: p, .index b :: q => by
    simp only [equivSteps, stepsT, keyT]
    cases h : Value.equals a b with
    | ok r =>
      simp only
      by_cases hk : r.unmark.isKnown = true
      · by_cases ht : r.unmark.isTrue = true
        · simp [hk, ht, equivSteps_true_iff p q]
        · simp [hk, ht]
      · simp [hk]
    | err c => simp
    | panic w => simp
    | unmodelled => simp

theorem pathRules_equiv_iff (p q : Path) :
    pathRules.equiv p q = true ↔ (p.length = q.length ∧ stepsT p q = true) := by
  simp only [pathRules, equiv]
  by_cases hl : p.length = q.length
  · simp only [hl, bne_self_eq_false, Bool.false_eq_true, if_false, true_and]
    rw [← equivSteps_true_iff]
    cases equivSteps p q with
    | ok b => cases b <;> simp
    | err c => simp
    | panic w => simp
    | unmodelled => simp
  · simp [hl]

/-! ### `Equals` on wide keys -/

theorem wideKey_spec {k : Value} (h : wideKey k = true) :
    k.ty.wf = true ∧ k.ty.plain = true ∧ k.v.shaped k.ty = true ∧ k.v.whollyKnown = true ∧
      k.v.containsMarked = false := by
  simp only [wideKey, Bool.and_eq_true, Bool.not_eq_true'] at h
  exact ⟨h.1.1.1.1, h.1.1.1.2, h.1.1.2, h.1.2, h.2⟩

theorem isKnown_of_wide {p : Payload} (hk : p.whollyKnown = true) : p.isKnown = true := by
  cases p <;> simp_all [Payload.whollyKnown, Payload.isKnown, Payload.unmark1]
  rename_i ms r
  cases r <;> simp_all [Payload.whollyKnown]

theorem isNull_eq_null {p : Payload} (hm : p.containsMarked = false) (hn : p.isNull = true) : p = .null := by
  cases p <;> simp_all [Payload.isNull, Payload.unmark1, Payload.containsMarked]

/-- across two different types `Equals` of wholly known mark-free values is true for two
nulls and false otherwise -/
theorem equals_cross {ta tb : Ty} {a b : Payload} (hwa : ta.wf = true) (hwb : tb.wf = true)
    (hne : ta ≠ tb) (ka : a.whollyKnown = true) (kb : b.whollyKnown = true)
    (ma : a.containsMarked = false) (mb : b.containsMarked = false) :
    Value.equals ⟨ta, a⟩ ⟨tb, b⟩ = .ok (boolVal (a.isNull && b.isNull)) := by
  have hteq : ta.equals tb = false := by
    cases h : ta.equals tb with
    | false => rfl
    | true => exact absurd ((Ty.equals_iff_eq ta tb hwa hwb).mp h) hne
  simp only [Value.equals, Value.containsMarked, ma, mb, Bool.or_self, Bool.false_eq_true, if_false, equalsP,
    equalsFuel]
  rw [equalsPre_of_known ta tb a b (isKnown_of_wide ka) (isKnown_of_wide kb)]
  cases hna : a.isNull <;> cases hnb : b.isNull <;>
    simp [hwkt_of_known ta a ka, hwkt_of_known tb b kb, hteq]

theorem keyT_boolVal (b : Bool) : ((boolVal b).unmark.isKnown && (boolVal b).unmark.isTrue) = b := by
  cases b <;> rfl

/-- on wide keys `keyT` is: same type and `rawB`, or two nulls -/
theorem keyT_wide {a b : Value} (ha : wideKey a = true) (hb : wideKey b = true) :
    keyT a b = if a.ty = b.ty then rawB a.ty a.v b.v else (a.v.isNull && b.v.isNull) := by
  obtain ⟨wa, pa, sa, ka, ma⟩ := wideKey_spec ha
  obtain ⟨wb, pb, sb, kb, mb⟩ := wideKey_spec hb
  obtain ⟨ta, va⟩ := a
  obtain ⟨tb, vb⟩ := b
  simp only at wa pa sa ka ma wb pb sb kb mb ⊢
  by_cases h : ta = tb
  · subst h
    simp only [keyT, equals_of_members wa pa sa ka ma sb kb mb, keyT_boolVal, if_true]
  · simp only [keyT, equals_cross wa wb h ka kb ma mb, keyT_boolVal, h, if_false]

theorem rawB_null_iff {t : Ty} {a : Payload} (hp : t.plain = true) (sa : a.shaped t = true)
    (ka : a.whollyKnown = true) (ma : a.containsMarked = false) (wt : t.wf = true) :
    rawB t a .null = true → a = .null := by
  intro h
  have h1 := equals_of_members wt hp sa ka ma (b := .null) (by simp [Payload.shaped]) rfl rfl
  by_cases hn : a.isNull = true
  · exact isNull_eq_null ma hn
  · have := (C03aux_equals_nulls t t a (isKnown_of_wide ka) (by simpa using hn) ma).2
    rw [h1, h] at this
    cases this
where
  C03aux_equals_nulls (t t' : Ty) (p : Payload) (hk : p.isKnown = true) (hn : p.isNull = false)
      (hm : p.containsMarked = false) :
      equals ⟨t, .null⟩ ⟨t', p⟩ = .ok (boolVal false) ∧ equals ⟨t', p⟩ ⟨t, .null⟩ = .ok (boolVal false) := by
    constructor
    · simp only [equals, Value.containsMarked, Payload.containsMarked, hm, Bool.or_self, Bool.false_eq_true,
        if_false, equalsP, equalsFuel]
      rw [equalsPre_of_known _ _ _ _ rfl hk]
      simp [hn, show Payload.isNull .null = true from rfl]
    · simp only [equals, Value.containsMarked, Payload.containsMarked, hm, Bool.or_self, Bool.false_eq_true,
        if_false, equalsP, equalsFuel]
      rw [equalsPre_of_known _ _ _ _ hk rfl]
      simp [hn, show Payload.isNull .null = true from rfl]

theorem keyT_refl {a : Value} (ha : wideKey a = true) : keyT a a = true := by
  obtain ⟨wa, pa, sa, _, _⟩ := wideKey_spec ha
  rw [keyT_wide ha ha]
  simp [rawB_refl a.ty a.v pa sa]

theorem keyT_symm {a b : Value} (ha : wideKey a = true) (hb : wideKey b = true) (h : keyT a b = true) :
    keyT b a = true := by
  obtain ⟨wa, pa, sa, _, _⟩ := wideKey_spec ha
  obtain ⟨wb, pb, sb, _, _⟩ := wideKey_spec hb
  rw [keyT_wide ha hb] at h
  rw [keyT_wide hb ha]
  by_cases ht : a.ty = b.ty
  · simp only [ht, if_true] at h ⊢
    rw [rawB_symm b.ty b.v a.v pb sb (ht ▸ sa)]
    exact h
  · have ht' : ¬ b.ty = a.ty := fun h' => ht h'.symm
    simp only [ht, ht', if_false, Bool.and_eq_true] at h ⊢
    exact ⟨h.2, h.1⟩

theorem keyT_trans {a b c : Value} (ha : wideKey a = true) (hb : wideKey b = true) (hc : wideKey c = true)
    (h : keyT a b = true) (h' : keyT b c = true) : keyT a c = true := by
  obtain ⟨wa, pa, sa, ka, ma⟩ := wideKey_spec ha
  obtain ⟨wb, pb, sb, kb, mb⟩ := wideKey_spec hb
  obtain ⟨wc, pc, sc, kc, mc⟩ := wideKey_spec hc
  rw [keyT_wide ha hb] at h
  rw [keyT_wide hb hc] at h'
  rw [keyT_wide ha hc]
  obtain ⟨ta, va⟩ := a
  obtain ⟨tb, vb⟩ := b
  obtain ⟨tc, vc⟩ := c
  simp only at *
  by_cases h1 : ta = tb
  · subst h1
    by_cases h2 : ta = tc
    · subst h2
      simp only [if_true] at h h' ⊢
      exact rawB_trans ta va vb vc pa sa sb sc h h'
    · simp only [h2, if_true, if_false, Bool.and_eq_true] at h h' ⊢
      -- b and c are null, and a equals the null b in its own type
      have hbn := isNull_eq_null mb h'.1
      subst hbn
      have han := rawB_null_iff pa sa ka ma wa h
      subst han
      exact ⟨rfl, h'.2⟩
  · simp only [h1, if_false, Bool.and_eq_true] at h
    have han := isNull_eq_null ma h.1
    have hbn := isNull_eq_null mb h.2
    subst han hbn
    by_cases h2 : tb = tc
    · subst h2
      simp only [if_true, h1, if_false] at h' ⊢
      have hcn : vc = .null := by
        have := rawB_symm tb .null vc pb sb sc
        rw [this] at h'
        exact rawB_null_iff pb sc kc mc wb h'
      subst hcn
      rfl
    · simp only [h2, if_false, Bool.and_eq_true] at h'
      have hcn := isNull_eq_null mc h'.2
      subst hcn
      by_cases h3 : ta = tc
      · subst h3
        simp [rawB_refl ta .null pa sa]
      · simp [h3, Payload.isNull, Payload.unmark1]

/-! ### the rules on wide paths -/

theorem stepsT_refl : ∀ (p : Path), keysWide p = true → stepsT p p = true
  | [], _ => rfl
  | .getAttr a :: p, h => by
    simp only [keysWide] at h
    simp [stepsT, stepsT_refl p h]
  | .index a :: p, h => by
    simp only [keysWide, Bool.and_eq_true] at h
    simp [stepsT, keyT_refl h.1, stepsT_refl p h.2]

theorem stepsT_symm : ∀ (p q : Path), p.length = q.length → keysWide p = true → keysWide q = true →
    stepsT p q = true → stepsT q p = true
  | [], [], _, _, _, _ => rfl
  | [], _ :: _, hl, _, _, _ => by simp at hl
  | _ :: _, [], hl, _, _, _ => by simp at hl
  | .getAttr a :: p, .index b :: q, _, _, _, h => by simp [stepsT] at h
  | .index a :: p, .getAttr b :: q, _, _, _, h => by simp [stepsT] at h
  | .getAttr a :: p, .getAttr b :: q, hl, hp, hq, h => by
    simp only [keysWide] at hp hq
    simp only [stepsT, Bool.and_eq_true, beq_iff_eq] at h ⊢
    exact ⟨h.1.symm, stepsT_symm p q (by simpa using hl) hp hq h.2⟩
  | .index a :: p, .index b :: q, hl, hp, hq, h => by
    simp only [keysWide, Bool.and_eq_true] at hp hq
    simp only [stepsT, Bool.and_eq_true] at h ⊢
    exact ⟨keyT_symm hp.1 hq.1 h.1, stepsT_symm p q (by simpa using hl) hp.2 hq.2 h.2⟩

theorem stepsT_trans : ∀ (p q r : Path), p.length = q.length → q.length = r.length →
    keysWide p = true → keysWide q = true → keysWide r = true →
    stepsT p q = true → stepsT q r = true → stepsT p r = true
  | [], _, _, _, _, _, _, _, _, _ => by simp [stepsT]
  | _ :: _, [], _, hl, _, _, _, _, _, _ => by simp at hl
  | _ :: _, _ :: _, [], _, hl, _, _, _, _, _ => by simp at hl
  | .getAttr a :: p, .index b :: q, _ :: _, _, _, _, _, _, h, _ => by simp [stepsT] at h
  | .index a :: p, .getAttr b :: q, _ :: _, _, _, _, _, _, h, _ => by simp [stepsT] at h
  | .getAttr a :: p, .getAttr b :: q, .index c :: r, _, _, _, _, _, _, h => by simp [stepsT] at h
  | .index a :: p, .index b :: q, .getAttr c :: r, _, _, _, _, _, _, h => by simp [stepsT] at h
  | .getAttr a :: p, .getAttr b :: q, .getAttr c :: r, h1, h2, hp, hq, hr, h, h' => by
    simp only [keysWide] at hp hq hr
    simp only [stepsT, Bool.and_eq_true, beq_iff_eq] at h h' ⊢
    exact ⟨h.1.trans h'.1, stepsT_trans p q r (by simpa using h1) (by simpa using h2) hp hq hr h.2 h'.2⟩
  | .index a :: p, .index b :: q, .index c :: r, h1, h2, hp, hq, hr, h, h' => by
    simp only [keysWide, Bool.and_eq_true] at hp hq hr
    simp only [stepsT, Bool.and_eq_true] at h h' ⊢
    exact ⟨keyT_trans hp.1 hq.1 hr.1 h.1 h'.1,
      stepsT_trans p q r (by simpa using h1) (by simpa using h2) hp.2 hq.2 hr.2 h.2 h'.2⟩

/-- **`pathSetRules` is lawful on paths with wide keys** -/
theorem pathRules_lawfulOn_wide : pathRules.LawfulOn (fun p => keysWide p = true) where
  refl a ha := (pathRules_equiv_iff a a).mpr ⟨rfl, stepsT_refl a ha⟩
  symm a b ha hb h := by
    obtain ⟨hl, hs⟩ := (pathRules_equiv_iff a b).mp h
    exact (pathRules_equiv_iff b a).mpr ⟨hl.symm, stepsT_symm a b hl ha hb hs⟩
  trans a b c ha hb hc h h' := by
    obtain ⟨hl, hs⟩ := (pathRules_equiv_iff a b).mp h
    obtain ⟨hl', hs'⟩ := (pathRules_equiv_iff b c).mp h'
    exact (pathRules_equiv_iff a c).mpr ⟨hl.trans hl', stepsT_trans a b c hl hl' ha hb hc hs hs'⟩
  hash_eq a b _ _ h := pathRules_hash_eq a b h

abbrev WidePath := { p : Path // keysWide p = true }

/-- the very functions of `pathRules`, on the subtype -/
def wideRules : Rules WidePath := pathRules.pull Subtype.val

theorem wideRules_lawful : wideRules.Lawful := pathRules_lawfulOn_wide.pull

theorem keysWide_take : ∀ (p : Path) (n : Nat), keysWide p = true → keysWide (p.take n) = true
  | [], n, _ => by cases n <;> rfl
  | _ :: _, 0, _ => rfl
  | .getAttr _ :: p, n + 1, h => by
    simp only [List.take_succ_cons, keysWide] at h ⊢
    exact keysWide_take p n h
  | .index k :: p, n + 1, h => by
    simp only [List.take_succ_cons, keysWide, Bool.and_eq_true] at h ⊢
    exact ⟨h.1, keysWide_take p n h.2⟩

def prefixesW (p : WidePath) : List WidePath :=
  (List.range p.1.length).map fun i => ⟨p.1.take (i + 1), keysWide_take p.1 (i + 1) p.2⟩

/-! ### marks on keys, at any depth

`Equals` drops the marks of both operands at every depth before it compares and puts
them on its result; `Equivalent` drops them from the result (9ae0f30).  So the marks of
a key — on the key itself or inside a compound key — play no part. -/

theorem keyT_unmarkDeep (a b : Value) : keyT a b = keyT a.unmarkDeep b.unmarkDeep := by
  have ha := Walk.stripMarks_not_containsMarked a.v
  have hb := Walk.stripMarks_not_containsMarked b.v
  simp only [keyT, Value.equals, Value.unmarkDeep, Value.containsMarked, ha, hb, Bool.or_self,
    Bool.false_eq_true, if_false]
  by_cases hm : (a.v.containsMarked || b.v.containsMarked) = true
  · simp only [hm, if_true]
    cases equalsP a.ty a.v.stripMarks b.ty b.v.stripMarks with
    | ok r => simp only [Res.map, unmark_withMarks]
    | err c => rfl
    | panic w => rfl
    | unmodelled => rfl
  · simp only [hm, Bool.false_eq_true, if_false]
    simp only [Bool.or_eq_true, not_or, Bool.not_eq_true] at hm
    rw [Walk.stripMarks_id a.v hm.1, Walk.stripMarks_id b.v hm.2]

def stripStep : PathStep → PathStep
  | .getAttr n => .getAttr n
  | .index k => .index k.unmarkDeep

theorem stepsT_strip : ∀ (p q : Path), stepsT p q = stepsT (p.map stripStep) (q.map stripStep)
  | [], q => by cases q <;> rfl
  | .getAttr a :: p, [] => rfl
  | .index a :: p, [] => rfl
  | .getAttr a :: p, .index b :: q => rfl
  | .index a :: p, .getAttr b :: q => rfl
  | .getAttr a :: p, .getAttr b :: q => by simp [stepsT, stripStep, stepsT_strip p q]
  | .index a :: p, .index b :: q => by
    simp only [List.map_cons, stripStep, stepsT, ← keyT_unmarkDeep, stepsT_strip p q]

/-- every index key, its marks removed at every depth, is a wide key: wholly known, of
a type without set and capsule types — known numbers and strings, nulls, lists / maps /
tuples / objects of such, marked anywhere or not -/
def keysWideM (p : Path) : Bool := keysWide (p.map stripStep)

theorem keysOk_wideM : ∀ (p : Path), keysOk p = true → keysWideM p = true
  | [], _ => rfl
  | .getAttr _ :: p, h => by
    simp only [keysOk] at h
    simpa [keysWideM, stripStep, keysWide] using keysOk_wideM p h
  | .index k :: p, h => by
    simp only [keysOk, Bool.and_eq_true] at h
    have ih := keysOk_wideM p h.2
    simp only [keysWideM, List.map_cons, stripStep, keysWide, Bool.and_eq_true] at ih ⊢
    refine ⟨?_, ih⟩
    rcases primKey_cases h.1 with ⟨x, rfl⟩ | ⟨ms, x, rfl⟩ | ⟨x, rfl⟩ | ⟨ms, x, rfl⟩ <;> rfl

/-- **`pathSetRules` is lawful on paths whose keys are wide after unmarking** — the
carrier that contains `keysOk` (known numbers / strings, marked or not) and adds null
keys and keys of compound type -/
theorem pathRules_lawfulOn_wideM : pathRules.LawfulOn (fun p => keysWideM p = true) where
  refl a ha := by
    rw [pathRules_equiv_iff, stepsT_strip]
    exact ⟨rfl, stepsT_refl _ ha⟩
  symm a b ha hb h := by
    rw [pathRules_equiv_iff, stepsT_strip] at h ⊢
    exact ⟨h.1.symm, stepsT_symm _ _ (by simpa using h.1) ha hb h.2⟩
  trans a b c ha hb hc h h' := by
    rw [pathRules_equiv_iff, stepsT_strip] at h h' ⊢
    exact ⟨h.1.trans h'.1, stepsT_trans _ _ _ (by simpa using h.1) (by simpa using h'.1) ha hb hc h.2 h'.2⟩
  hash_eq a b _ _ h := pathRules_hash_eq a b h

abbrev WidePathM := { p : Path // keysWideM p = true }

/-- the very functions of `pathRules`, on the subtype -/
def wideRulesM : Rules WidePathM := pathRules.pull Subtype.val

theorem wideRulesM_lawful : wideRulesM.Lawful := pathRules_lawfulOn_wideM.pull

theorem keysWideM_take (p : Path) (n : Nat) (h : keysWideM p = true) : keysWideM (p.take n) = true := by
  simp only [keysWideM, List.map_take] at h ⊢
  exact keysWide_take _ n h

def prefixesWM (p : WidePathM) : List WidePathM :=
  (List.range p.1.length).map fun i => ⟨p.1.take (i + 1), keysWideM_take p.1 (i + 1) p.2⟩

/-! ### any carrier of keys on which `keyT` is an equivalence -/

/-- `keyT` is an equivalence relation on the keys admitted by `K` -/
structure KeyEquiv (K : Value → Bool) : Prop where
  refl : ∀ a, K a = true → keyT a a = true
  symm : ∀ a b, K a = true → K b = true → keyT a b = true → keyT b a = true
  trans : ∀ a b c, K a = true → K b = true → K c = true → keyT a b = true → keyT b c = true →
    keyT a c = true

def keysIn (K : Value → Bool) : Path → Bool
  | [] => true
  | .getAttr _ :: p => keysIn K p
  | .index k :: p => K k && keysIn K p

section Carrier
variable {K : Value → Bool} (hK : KeyEquiv K)
include hK

theorem stepsT_refl_in : ∀ (p : Path), keysIn K p = true → stepsT p p = true
  | [], _ => rfl
  | .getAttr a :: p, h => by
    simp only [keysIn] at h
    simp [stepsT, stepsT_refl_in p h]
  | .index a :: p, h => by
    simp only [keysIn, Bool.and_eq_true] at h
    simp [stepsT, hK.refl a h.1, stepsT_refl_in p h.2]

theorem stepsT_symm_in : ∀ (p q : Path), p.length = q.length → keysIn K p = true → keysIn K q = true →
    stepsT p q = true → stepsT q p = true
  | [], [], _, _, _, _ => rfl
  | [], _ :: _, hl, _, _, _ => by simp at hl
  | _ :: _, [], hl, _, _, _ => by simp at hl
  | .getAttr a :: p, .index b :: q, _, _, _, h => by simp [stepsT] at h
  | .index a :: p, .getAttr b :: q, _, _, _, h => by simp [stepsT] at h
  | .getAttr a :: p, .getAttr b :: q, hl, hp, hq, h => by
    simp only [keysIn] at hp hq
    simp only [stepsT, Bool.and_eq_true, beq_iff_eq] at h ⊢
    exact ⟨h.1.symm, stepsT_symm_in p q (by simpa using hl) hp hq h.2⟩
  | .index a :: p, .index b :: q, hl, hp, hq, h => by
    simp only [keysIn, Bool.and_eq_true] at hp hq
    simp only [stepsT, Bool.and_eq_true] at h ⊢
    exact ⟨hK.symm a b hp.1 hq.1 h.1, stepsT_symm_in p q (by simpa using hl) hp.2 hq.2 h.2⟩

theorem stepsT_trans_in : ∀ (p q r : Path), p.length = q.length → q.length = r.length →
    keysIn K p = true → keysIn K q = true → keysIn K r = true →
    stepsT p q = true → stepsT q r = true → stepsT p r = true
  | [], _, _, _, _, _, _, _, _, _ => by simp [stepsT]
  | _ :: _, [], _, hl, _, _, _, _, _, _ => by simp at hl
  | _ :: _, _ :: _, [], _, hl, _, _, _, _, _ => by simp at hl
  | .getAttr a :: p, .index b :: q, _ :: _, _, _, _, _, _, h, _ => by simp [stepsT] at h
  | .index a :: p, .getAttr b :: q, _ :: _, _, _, _, _, _, h, _ => by simp [stepsT] at h
  | .getAttr a :: p, .getAttr b :: q, .index c :: r, _, _, _, _, _, _, h => by simp [stepsT] at h
  | .index a :: p, .index b :: q, .getAttr c :: r, _, _, _, _, _, _, h => by simp [stepsT] at h
  | .getAttr a :: p, .getAttr b :: q, .getAttr c :: r, h1, h2, hp, hq, hr, h, h' => by
    simp only [keysIn] at hp hq hr
    simp only [stepsT, Bool.and_eq_true, beq_iff_eq] at h h' ⊢
    exact ⟨h.1.trans h'.1, stepsT_trans_in p q r (by simpa using h1) (by simpa using h2) hp hq hr h.2 h'.2⟩
  | .index a :: p, .index b :: q, .index c :: r, h1, h2, hp, hq, hr, h, h' => by
    simp only [keysIn, Bool.and_eq_true] at hp hq hr
    simp only [stepsT, Bool.and_eq_true] at h h' ⊢
    exact ⟨hK.trans a b c hp.1 hq.1 hr.1 h.1 h'.1,
      stepsT_trans_in p q r (by simpa using h1) (by simpa using h2) hp.2 hq.2 hr.2 h.2 h'.2⟩

/-- `pathSetRules` is lawful on the paths whose index keys lie in such a carrier -/
theorem pathRules_lawfulOn_in : pathRules.LawfulOn (fun p => keysIn K p = true) where
  refl a ha := (pathRules_equiv_iff a a).mpr ⟨rfl, stepsT_refl_in hK a ha⟩
  symm a b ha hb h := by
    obtain ⟨hl, hs⟩ := (pathRules_equiv_iff a b).mp h
    exact (pathRules_equiv_iff b a).mpr ⟨hl.symm, stepsT_symm_in hK a b hl ha hb hs⟩
  trans a b c ha hb hc h h' := by
    obtain ⟨hl, hs⟩ := (pathRules_equiv_iff a b).mp h
    obtain ⟨hl', hs'⟩ := (pathRules_equiv_iff b c).mp h'
    exact (pathRules_equiv_iff a c).mpr ⟨hl.trans hl', stepsT_trans_in hK a b c hl hl' ha hb hc hs hs'⟩
  hash_eq a b _ _ h := pathRules_hash_eq a b h

/-- marks on the keys, at any depth, play no part: the carrier may be asked of the unmarked key -/
theorem KeyEquiv.unmarkDeep : KeyEquiv (fun k => K k.unmarkDeep) where
  refl a ha := by rw [keyT_unmarkDeep]; exact hK.refl _ ha
  symm a b ha hb h := by rw [keyT_unmarkDeep] at h ⊢; exact hK.symm _ _ ha hb h
  trans a b c ha hb hc h h' := by
    rw [keyT_unmarkDeep] at h h' ⊢
    exact hK.trans _ _ _ ha hb hc h h'

end Carrier

/-- a carrier is an equivalence as soon as `keyT` is one among its keys OF EACH TYPE, its keys
are wholly known and mark-free, and their types well formed: across types `Equals` is true for
two nulls only -/
theorem keyEquiv_of_sameType (K : Value → Bool)
    (hw : ∀ k, K k = true → k.ty.wf = true ∧ k.v.whollyKnown = true ∧ k.v.containsMarked = false)
    (hrefl : ∀ a, K a = true → keyT a a = true)
    (hsymm : ∀ t a b, K ⟨t, a⟩ = true → K ⟨t, b⟩ = true → keyT ⟨t, a⟩ ⟨t, b⟩ = true → keyT ⟨t, b⟩ ⟨t, a⟩ = true)
    (htrans : ∀ t a b c, K ⟨t, a⟩ = true → K ⟨t, b⟩ = true → K ⟨t, c⟩ = true →
      keyT ⟨t, a⟩ ⟨t, b⟩ = true → keyT ⟨t, b⟩ ⟨t, c⟩ = true → keyT ⟨t, a⟩ ⟨t, c⟩ = true) :
    KeyEquiv K := by
  have cross : ∀ ta tb a b, K ⟨ta, a⟩ = true → K ⟨tb, b⟩ = true → ta ≠ tb →
      keyT ⟨ta, a⟩ ⟨tb, b⟩ = (a.isNull && b.isNull) := by
    intro ta tb a b ha hb hne
    obtain ⟨wa, ka, ma⟩ := hw _ ha
    obtain ⟨wb, kb, mb⟩ := hw _ hb
    simp only [keyT, equals_cross wa wb hne ka kb ma mb, keyT_boolVal]
  have nullOf : ∀ t a, K ⟨t, a⟩ = true → keyT ⟨t, a⟩ ⟨t, .null⟩ = true → a = .null := by
    intro t a ha h
    obtain ⟨_, ka, ma⟩ := hw _ ha
    by_cases hn : a.isNull = true
    · exact isNull_eq_null ma hn
    · have := (rawB_null_iff.C03aux_equals_nulls t t a (isKnown_of_wide ka) (by simpa using hn) ma).2
      simp only [keyT, this] at h
      cases h
  refine ⟨hrefl, ?_, ?_⟩
  · intro a b ha hb h
    obtain ⟨ta, va⟩ := a
    obtain ⟨tb, vb⟩ := b
    by_cases ht : ta = tb
    · subst ht; exact hsymm ta va vb ha hb h
    · rw [cross ta tb va vb ha hb ht] at h
      rw [cross tb ta vb va hb ha (fun h' => ht h'.symm)]
      simp only [Bool.and_eq_true] at h ⊢
      exact ⟨h.2, h.1⟩
  · intro a b c ha hb hc h h'
    obtain ⟨ta, va⟩ := a
    obtain ⟨tb, vb⟩ := b
    obtain ⟨tc, vc⟩ := c
    obtain ⟨_, _, ma⟩ := hw _ ha
    obtain ⟨_, _, mb⟩ := hw _ hb
    obtain ⟨_, _, mc⟩ := hw _ hc
    simp only at ma mb mc
    by_cases h1 : ta = tb
    · subst h1
      by_cases h2 : ta = tc
      · subst h2; exact htrans ta va vb vc ha hb hc h h'
      · rw [cross ta tc vb vc hb hc h2] at h'
        simp only [Bool.and_eq_true] at h'
        have hbn := isNull_eq_null mb h'.1
        subst hbn
        have han := nullOf ta va ha h
        subst han
        rw [cross ta tc .null vc ha hc h2, h'.2]
        rfl
    · rw [cross ta tb va vb ha hb h1] at h
      simp only [Bool.and_eq_true] at h
      have han := isNull_eq_null ma h.1
      have hbn := isNull_eq_null mb h.2
      subst han hbn
      by_cases h2 : tb = tc
      · subst h2
        have hcn : vc = .null := nullOf tb vc hc (hsymm tb .null vc hb hc h')
        subst hcn
        rw [cross ta tb .null .null ha hc h1]
        rfl
      · rw [cross tb tc .null vc hb hc h2] at h'
        simp only [Bool.and_eq_true] at h'
        have hcn := isNull_eq_null mc h'.2
        subst hcn
        by_cases h3 : ta = tc
        · subst h3; exact hrefl _ ha
        · rw [cross ta tc .null .null ha hc h3]
          rfl

end PathSet
end CtyModel
