/-
C15 (d15) — the encoder's output for a set-free value against ANY constraint has the
structure `mirrorsW` describes: a wrapper object `{"value": x, "type": τ}` exactly where the
constraint is the placeholder (τ = the type document of the value's type there), and below
it the value's own structure.  Nothing but "the encoder returned a document" and "no set
type in the value's type" is assumed: knownness, absence of marks and agreement of payload,
type and constraint all follow from the encoder having answered `ok`.
-/
import CtyModel.JsonD15
import CtyModel.Lemmas.JsonValMirror
namespace CtyModel
namespace JsonVal
open Ty

mutual
theorem jsonSame_refl : ∀ j : Json, jsonSame j j = true
  | .null => by simp [jsonSame]
  | .bool _ => by simp [jsonSame]
  | .num _ => by simp [jsonSame]
  | .str _ => by simp [jsonSame]
  | .arr xs => by simp [jsonSame, jsonSameL_refl xs]
  | .obj ks vs => by simp [jsonSame, jsonSameL_refl vs]
theorem jsonSameL_refl : ∀ js : List Json, jsonSameL js js = true
  | [] => by simp [jsonSameL]
  | j :: js => by simp [jsonSameL, jsonSame_refl j, jsonSameL_refl js]
end

/-- `mirrorsW` below the wrapper: the body `x` against the constraint `t'` it was encoded with -/
def mirrorsB (t' vt : Ty) : Payload → Json → Bool
  | .null, .null => true
  | .b a, .bool b => a == b
  | .s a, .str b => a == b
  | .n a, .num l => l == Num.textF a
  | .seq vs, .arr js =>
    match t', vt with
    | .list e, .list ve => mirrorsWAll e ve vs js
    | .tuple es, .tuple ves => mirrorsWZip es ves vs js
    | _, _ => false
  | .smap ks vs, .obj ks' js =>
    match t', vt with
    | .map e, .map ve => ks == ks' && mirrorsWAll e ve vs js
    | .object _ ts _, .object _ vts _ => ks == ks' && mirrorsWZip ts vts vs js
    | _, _ => false
  | _, _ => false

theorem mirrorsW_of_unwrap (t vt t' : Ty) (p : Payload) (j x : Json)
    (h : unwrapDyn t vt j = some (t', x)) (hb : mirrorsB t' vt p x = true) : mirrorsW t vt p j = true := by
  cases p <;> cases x <;> simp [mirrorsB] at hb <;> simp only [mirrorsW, h]
  · simpa using hb
  · simpa using hb
  · simpa using hb
  · cases t' <;> cases vt <;> simp_all
  · cases t' <;> cases vt <;> simp_all

/-- no wrapper where the constraint is not the placeholder, or the value's type is it too -/
theorem unwrap_plain (t vt : Ty) (j : Json) (h : (t.isDyn && !vt.isDyn) = false) :
    unwrapDyn t vt j = some (t, j) := by
  simp [unwrapDyn, h]

theorem unwrap_wrapper (t vt : Ty) (x τ : Json) (h : (t.isDyn && !vt.isDyn) = true) (hτ : vt.toJson = .ok τ) :
    unwrapDyn t vt (.obj ["value", "type"] [x, τ]) = some (vt, x) := by
  simp [unwrapDyn, h, hτ, jsonSame_refl]

mutual
theorem mirrorB_known (env : JEnv) : ∀ (p : Payload) (t vt : Ty) (j : Json), setFree vt = true →
    marshalKnown env t vt p = .ok j → mirrorsB t vt p j = true
  | .null, _, _, j, _, hj => by simp [marshalKnown] at hj; subst hj; rfl
  | .unk _, _, _, _, _, hj => by simp [marshalKnown] at hj
  | .marked _ _, _, _, _, _, hj => by simp [marshalKnown] at hj
  | .bad _, _, _, _, _, hj => by simp [marshalKnown] at hj
  | .caps, t, _, _, _, hj => by cases t <;> simp [marshalKnown] at hj
  | .b x, t, _, j, _, hj => by
    cases t <;> simp [marshalKnown] at hj
    subst hj; simp [mirrorsB]
  | .s x, t, _, j, _, hj => by
    cases t <;> simp [marshalKnown] at hj
    subst hj; simp [mirrorsB]
  | .n x, t, _, j, _, hj => by
    cases t <;> simp only [marshalKnown] at hj <;> try (simp at hj; done)
    split at hj
    · simp at hj
    · simp at hj; subst hj; simp [mirrorsB]
  | .sset _ vs, t, vt, j, hs, hj => by
    cases t <;> cases vt <;> simp [marshalKnown, setFree] at hj hs
  | .seq vs, t, vt, j, hs, hj => by
    cases t <;> cases vt <;> simp only [marshalKnown] at hj <;> try (simp at hj; done)
    · rename_i e ve
      obtain ⟨js, hjs, rfl⟩ := map_eq_ok hj
      simpa [mirrorsB] using mirrorW_all env vs e ve js (by simpa [setFree] using hs) hjs
    · rename_i es ves
      obtain ⟨js, hjs, rfl⟩ := map_eq_ok hj
      simpa [mirrorsB] using mirrorW_zip env vs es ves js (by simpa [setFree] using hs) hjs
  | .smap ks vs, t, vt, j, hs, hj => by
    cases t <;> cases vt <;> simp only [marshalKnown] at hj <;> try (simp at hj; done)
    · rename_i e ve
      obtain ⟨js, hjs, rfl⟩ := map_eq_ok hj
      simpa [mirrorsB] using mirrorW_all env vs e ve js (by simpa [setFree] using hs) hjs
    · rename_i ns ts os vns vts vos
      split at hj
      · obtain ⟨js, hjs, rfl⟩ := map_eq_ok hj
        simpa [mirrorsB] using mirrorW_zip env vs ts vts js (by simpa [setFree] using hs) hjs
      · simp at hj
theorem mirrorW_entry (env : JEnv) : ∀ (p : Payload) (t vt : Ty) (j : Json), setFree vt = true →
    marshalEntry t vt p (fun t' => marshalKnown env t' vt p) = .ok j → mirrorsW t vt p j = true
  | p, t, vt, j, hs, hj => by
    unfold marshalEntry at hj
    split at hj
    · simp at hj
    · split at hj
      · simp at hj
      · split at hj
        · rename_i hw
          split at hj
          · rename_i tj htj
            split at hj
            · rename_i x hx
              simp at hj; subst hj
              exact mirrorsW_of_unwrap t vt vt p _ x (unwrap_wrapper t vt x tj hw htj)
                (mirrorB_known env p vt vt x hs hx)
            · simp at hj
            · rename_i r _ _
              cases r <;> simp_all
          · simp at hj
          · simp at hj
          · simp at hj
        · rename_i hw
          exact mirrorsW_of_unwrap t vt t p j j (unwrap_plain t vt j (by simpa using hw))
            (mirrorB_known env p t vt j hs hj)
theorem mirrorW_all (env : JEnv) : ∀ (vs : List Payload) (e ve : Ty) (js : List Json), setFree ve = true →
    marshalAll env e ve vs = .ok js → mirrorsWAll e ve vs js = true
  | [], _, _, js, _, hj => by simp [marshalAll] at hj; subst hj; rfl
  | v :: vs, e, ve, js, hs, hj => by
    simp only [marshalAll] at hj
    split at hj
    · rename_i j hjv
      obtain ⟨js', hjs', rfl⟩ := map_eq_ok hj
      simp [mirrorsWAll, mirrorW_entry env v e ve j hs hjv, mirrorW_all env vs e ve js' hs hjs']
    · simp at hj
    · simp at hj
    · simp at hj
theorem mirrorW_zip (env : JEnv) : ∀ (vs : List Payload) (es ves : List Ty) (js : List Json), setFreeL ves = true →
    marshalZip env es ves vs = .ok js → mirrorsWZip es ves vs js = true
  | [], _, _, js, _, hj => by simp [marshalZip] at hj; subst hj; simp [mirrorsWZip]
  | _ :: _, [], _, _, _, hj => by simp [marshalZip] at hj
  | _ :: _, _ :: _, [], _, _, hj => by simp [marshalZip] at hj
  | v :: vs, e :: es, ve :: ves, js, hs, hj => by
    simp only [setFreeL, Bool.and_eq_true] at hs
    simp only [marshalZip] at hj
    split at hj
    · rename_i j hjv
      obtain ⟨js', hjs', rfl⟩ := map_eq_ok hj
      simp [mirrorsWZip, mirrorW_entry env v e ve j hs.1 hjv, mirrorW_zip env vs es ves js' hs.2 hjs']
    · simp at hj
    · simp at hj
    · simp at hj
end

/-! ### against a placeholder-free constraint `mirrorsW` is the plain mirror -/

theorem unwrap_noDyn (t vt : Ty) (j : Json) (hd : hasDyn t = false) : unwrapDyn t vt j = some (t, j) :=
  unwrap_plain t vt j (by simp [isDyn_of_hasDyn hd])

mutual
theorem mirrors_of_mirrorsW : ∀ (p : Payload) (t vt : Ty) (j : Json), hasDyn t = false →
    mirrorsW t vt p j = true → mirrors p j = true
  | .null, t, vt, j, hd, h => by
    simp only [mirrorsW, unwrap_noDyn t vt j hd] at h
    cases j <;> simp_all [mirrors]
  | .b a, t, vt, j, hd, h => by
    simp only [mirrorsW, unwrap_noDyn t vt j hd] at h
    cases j <;> simp_all [mirrors]
  | .s a, t, vt, j, hd, h => by
    simp only [mirrorsW, unwrap_noDyn t vt j hd] at h
    cases j <;> simp_all [mirrors]
  | .n a, t, vt, j, hd, h => by
    simp only [mirrorsW, unwrap_noDyn t vt j hd] at h
    cases j <;> simp_all [mirrors]
  | .seq vs, t, vt, j, hd, h => by
    simp only [mirrorsW, unwrap_noDyn t vt j hd] at h
    cases t <;> cases j <;> simp at h
    · rename_i e js
      cases vt <;> simp at h
      rename_i ve
      simpa [mirrors] using mirrorsL_of_all vs e ve js (by simpa [hasDyn] using hd) h
    · rename_i es js
      cases vt <;> simp at h
      rename_i ves
      simpa [mirrors] using mirrorsL_of_zip vs es ves js (by simpa [hasDyn] using hd) h
  | .smap ks vs, t, vt, j, hd, h => by
    simp only [mirrorsW, unwrap_noDyn t vt j hd] at h
    cases t <;> cases j <;> simp at h
    · rename_i e ks' js
      cases vt <;> simp at h
      rename_i ve
      simp [mirrors, h.1, mirrorsL_of_all vs e ve js (by simpa [hasDyn] using hd) h.2]
    · rename_i ns ts os ks' js
      cases vt <;> simp at h
      rename_i vns vts vos
      simp [mirrors, h.1, mirrorsL_of_zip vs ts vts js (by simpa [hasDyn] using hd) h.2]
  | .unk _, _, _, _, _, h => by simp [mirrorsW] at h
  | .marked _ _, _, _, _, _, h => by simp [mirrorsW] at h
  | .caps, _, _, _, _, h => by simp [mirrorsW] at h
  | .bad _, _, _, _, _, h => by simp [mirrorsW] at h
  | .sset _ _, _, _, _, _, h => by simp [mirrorsW] at h
theorem mirrorsL_of_all : ∀ (vs : List Payload) (e ve : Ty) (js : List Json), hasDyn e = false →
    mirrorsWAll e ve vs js = true → mirrorsL vs js = true
  | [], _, _, [], _, _ => rfl
  | [], _, _, _ :: _, _, h => by simp [mirrorsWAll] at h
  | _ :: _, _, _, [], _, h => by simp [mirrorsWAll] at h
  | v :: vs, e, ve, j :: js, hd, h => by
    simp only [mirrorsWAll, Bool.and_eq_true] at h
    simp [mirrorsL, mirrors_of_mirrorsW v e ve j hd h.1, mirrorsL_of_all vs e ve js hd h.2]
theorem mirrorsL_of_zip : ∀ (vs : List Payload) (es ves : List Ty) (js : List Json), hasDynL es = false →
    mirrorsWZip es ves vs js = true → mirrorsL vs js = true
  | [], _, _, [], _, _ => rfl
  | [], _, _, _ :: _, _, h => by simp [mirrorsWZip] at h
  | _ :: _, _, _, [], _, h => by simp [mirrorsWZip] at h
  | _ :: _, [], _, _ :: _, _, h => by simp [mirrorsWZip] at h
  | _ :: _, _ :: _, [], _ :: _, _, h => by simp [mirrorsWZip] at h
  | v :: vs, e :: es, ve :: ves, j :: js, hd, h => by
    simp only [hasDynL, Bool.or_eq_false_iff] at hd
    simp only [mirrorsWZip, Bool.and_eq_true] at h
    simp [mirrorsL, mirrors_of_mirrorsW v e ve j hd.1 h.1, mirrorsL_of_zip vs es ves js hd.2 h.2]
end

end JsonVal
end CtyModel
