/-
C15 — optional-attribute annotations and the JSON codec (/repo afdc0a2).

`Unmarshal` drops the annotations of the requested type (`unmarshalTop env j t =
unmarshal env j t.stripOpt`); `marshal` never looks at them.  So the round trip against an
annotated constraint `t` is the round trip against `t.stripOpt`, and a constraint without a
placeholder — annotated or not — pins the type of every null and every empty collection.
-/
import CtyModel.Lemmas.JsonValRT
namespace CtyModel
namespace JsonVal
open Ty

/-! ### erasure keeps well-formedness and conformance -/
mutual
theorem wf_strip : ∀ t : Ty, wf t = true → wf (stripOpt t) = true
  | .bool, _ | .number, _ | .string, _ | .dyn, _ | .capsule _, _ => by simp [stripOpt, wf]
  | .list e, h | .set e, h | .map e, h => by
    simp only [wf] at h; simp [stripOpt, wf, wf_strip e h]
  | .tuple es, h => by simp only [wf] at h; simp [stripOpt, wf, wfL_strip es h]
  | .object ns ts os, h => by
    simp only [wf, Bool.and_eq_true] at h
    simp [stripOpt, wf, wfL_strip ts h.2, stripOptL_length, h.1.1.1, h.1.1.2, h.1.2]
theorem wfL_strip : ∀ ts : List Ty, wfL ts = true → wfL (stripOptL ts) = true
  | [], _ => rfl
  | t :: ts, h => by
    simp only [wfL, Bool.and_eq_true] at h
    simp [stripOptL, wfL, wf_strip t h.1, wfL_strip ts h.2]
end

mutual
theorem matches_strip : ∀ c t : Ty, «matches» (stripOpt c) t = «matches» c t
  | .bool, t | .number, t | .string, t | .dyn, t | .capsule _, t => by simp [stripOpt]
  | .list c, t | .set c, t | .map c, t => by
    cases t <;> simp [stripOpt, «matches», matches_strip c]
  | .tuple cs, t => by cases t <;> simp [stripOpt, «matches», matchesL_strip cs]
  | .object cn ct co, t => by cases t <;> simp [stripOpt, «matches», matchesL_strip ct]
theorem matchesL_strip : ∀ (cs ts : List Ty), matchesL (stripOptL cs) ts = matchesL cs ts
  | [], ts => by simp [stripOptL]
  | c :: cs, [] => by simp [stripOptL, matchesL]
  | c :: cs, t :: ts => by simp [stripOptL, matchesL, matches_strip c t, matchesL_strip cs ts]
end

/-- the hypotheses of the round trip pass from a constraint to its erased form -/
theorem RT.strip {norm t vt p} (h : RT norm t vt p) : RT norm t.stripOpt vt p :=
  { h with wt := wf_strip t h.wt, conf := by rw [matches_strip]; exact h.conf }

/-! ### `marshal` does not look at the annotations -/
mutual
theorem marshalKnown_strip (env : JEnv) : ∀ (p : Payload) (t vt : Ty),
    marshalKnown env (stripOpt t) vt p = marshalKnown env t vt p
  | .null, _, _ | .bad _, _, _ | .unk _, _, _ | .marked _ _, _, _ => by simp [marshalKnown]
  | .s _, t, _ | .n _, t, _ | .b _, t, _ | .caps, t, _ => by cases t <;> simp [marshalKnown, stripOpt]
  | .seq vs, t, vt => by
    cases t <;> cases vt <;>
      simp [marshalKnown, stripOpt, marshalAll_strip env vs, marshalZip_strip env vs]
  | .sset _ vs, t, vt => by
    cases t <;> cases vt <;> simp [marshalKnown, stripOpt, marshalAll_strip env vs]
  | .smap ks vs, t, vt => by
    cases t <;> cases vt <;>
      simp [marshalKnown, stripOpt, marshalAll_strip env vs, marshalZip_strip env vs]
theorem marshalAll_strip (env : JEnv) : ∀ (vs : List Payload) (e ve : Ty),
    marshalAll env (stripOpt e) ve vs = marshalAll env e ve vs
  | [], _, _ => by simp [marshalAll]
  | v :: vs, e, ve => by
    simp only [marshalAll, marshalEntry, isDyn_stripOpt, marshalKnown_strip env v e ve,
      marshalAll_strip env vs e ve]
theorem marshalZip_strip (env : JEnv) : ∀ (vs : List Payload) (es ves : List Ty),
    marshalZip env (stripOptL es) ves vs = marshalZip env es ves vs
  | [], es, ves => by simp [marshalZip]
  | _ :: _, [], ves => by simp [stripOptL, marshalZip]
  | _ :: _, _ :: _, [] => by simp [stripOptL, marshalZip]
  | v :: vs, e :: es, ve :: ves => by
    simp only [stripOptL, marshalZip, marshalEntry, isDyn_stripOpt, marshalKnown_strip env v e ve,
      marshalZip_strip env vs es ves]
end

theorem marshal_strip (env : JEnv) (v : Value) (t : Ty) :
    marshal env v t.stripOpt = marshal env v t := by
  simp only [marshal, marshalEntry, isDyn_stripOpt, marshalKnown_strip env v.v t v.ty]

/-! ### a constraint without a placeholder pins every type -/
mutual
theorem fill_noDyn' : ∀ (c t : Ty), hasDyn c = false → fill c t = c
  | .dyn, _, h => by simp [hasDyn] at h
  | .bool, _, _ | .number, _, _ | .string, _, _ | .capsule _, _, _ => by simp [fill]
  | .list c, t, h | .set c, t, h | .map c, t, h => by
    cases t <;> simp [fill]
    all_goals exact fill_noDyn' c _ (by simpa [hasDyn] using h)
  | .tuple cs, t, h => by
    cases t <;> simp [fill]
    exact fillL_noDyn' cs _ (by simpa [hasDyn] using h)
  | .object cn ct co, t, h => by
    cases t <;> simp [fill]
    exact fillL_noDyn' ct _ (by simpa [hasDyn] using h)
theorem fillL_noDyn' : ∀ (cs ts : List Ty), hasDynL cs = false → fillL cs ts = cs
  | [], _, _ => by simp [fillL]
  | _ :: _, [], _ => by simp [fillL]
  | c :: cs, t :: ts, h => by
    simp only [hasDynL, Bool.or_eq_false_iff] at h
    simp [fillL, fill_noDyn' c t h.1, fillL_noDyn' cs ts h.2]
end

/-- a placeholder-free constraint, annotations dropped, IS the type of every value that
conforms to it -/
theorem strip_eq_of_noDyn (t vt : Ty) (hwt : wf t = true) (hwv : wf vt = true)
    (hd : hasDyn t = false) (ho : hasOpt vt = false) (hc : «matches» t vt = true) :
    t.stripOpt = vt := by
  have := (matches_iff_fill t vt hwt hwv).mp hc
  rw [fill_noDyn' t vt hd, stripOpt_id_of_noOpt vt ho] at this
  exact this

/-- … so no null and no empty collection sits at an inexact position -/
theorem exact_of_noDyn (t vt : Ty) (p : Payload) (hwt : wf t = true) (hwv : wf vt = true)
    (hd : hasDyn t = false) (ho : hasOpt vt = false) (hc : «matches» t vt = true)
    (hp : wfP vt p = true) : exact t vt p = true := by
  have hnd : t.isDyn = false := by cases t <;> simp_all [Ty.isDyn, hasDyn]
  simp only [exact, hnd, Bool.false_eq_true, if_false, strip_eq_of_noDyn t vt hwt hwv hd ho hc]
  exact exactK_self p vt hwv hp

/-- the structural type of a document carries no annotation -/
theorem hasOpt_map_false : ∀ (ks : List String), (ks.map fun _ => false).any id = false
  | [] => rfl
  | _ :: ks => by simp [hasOpt_map_false ks]

mutual
theorem structTy_noOpt (norm : String → String) : ∀ j : Json, hasOpt (structTy norm j) = false
  | .null | .bool _ | .num _ | .str _ => by simp [structTy, hasOpt]
  | .arr xs => by simp [structTy, hasOpt, structTyL_noOpt norm xs]
  | .obj ks vs => by
    simp only [structTy, hasOpt, structTyL_noOpt norm vs, Bool.or_false]
    exact hasOpt_map_false ks
theorem structTyL_noOpt (norm : String → String) : ∀ js : List Json, hasOptL (structTyL norm js) = false
  | [] => rfl
  | j :: js => by simp [structTyL, hasOptL, structTy_noOpt norm j, structTyL_noOpt norm js]
end

end JsonVal
end CtyModel
