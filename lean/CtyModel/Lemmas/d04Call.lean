/-
d04 (audit C04, missing theorem (b)): `call_noninterference` for specifications WITH
`AllowMarked` parameters, made applicable to the standard library.

`Fn.RefineBlind` (Lemmas/MarksCall.lean) quantifies over ALL values, including values with a
marker directly inside a marker, which `Value.Refine()` (model: `Refine.init`) does not
model: it is FALSE for `refineNonNull`, the `RefineResult` of most stdlib functions
(`refineBlind_refineNN_counterexample`), so `C04.call_noninterference_allowMarked` could
not be instantiated for any of them.  `RefineBlindWF` asks the same only of values as the
call protocol hands them to `RefineResult` (top-level unmarked); the theorem is re-proved
from it, and `Type` / `Impl` of `stdlib.LengthFunc` are shown blind.
-/
import CtyModel.Lemmas.MarksCall
import CtyModel.Lemmas.MarksOps
import CtyModel.Stdlib.Collection
namespace CtyModel
namespace Fn

/-- `RefineResult` does not look at marks, on the values the protocol hands it
(`refineWith` calls it on `val.Unmark()`) -/
def RefineBlindWF (spec : Spec) : Prop :=
  ∀ r, spec.refine = some r → ∀ v : Value, v.isMarked = false → (r v).map Payload.stripMarks = r v.unmarkDeep

theorem RefineBlind.toWF {spec : Spec} (h : RefineBlind spec) : RefineBlindWF spec :=
  fun r hr v _ => h r hr v

theorem refineWith_blindWF (rf : RefineFn)
    (hb : ∀ v : Value, v.isMarked = false → (rf v).map Payload.stripMarks = rf v.unmarkDeep)
    (val : Value) (hw : val.v.markerWF = true) :
    Out.map Value.unmarkDeep (refineWith rf val) = refineWith rf val.unmarkDeep := by
  unfold refineWith
  have hb' := hb val.unmark (Payload.isMarked_unmark1_of_wf hw)
  rw [Value.unmarkDeep_unmark] at hb'
  have eun : val.unmarkDeep.unmark = val.unmarkDeep := Value.unmark_of_not_marked (Value.isMarked_unmarkDeep _)
  have em : val.unmarkDeep.marks = [] := Value.marks_of_not_marked (Value.isMarked_unmarkDeep _)
  rw [eun, em]
  cases hq : rf val.unmark with
  | none => rw [hq] at hb'; simp only [Option.map_none] at hb'; rw [← hb']; rfl
  | some q =>
    rw [hq] at hb'
    simp only [Option.map_some] at hb'
    rw [← hb']
    simp only [Out.map, Out.ok.injEq]
    rw [Value.unmarkDeep_withMarks]
    have hnm : (⟨val.unmarkDeep.ty, q.stripMarks⟩ : Value).isMarked = false := Payload.isMarked_stripMarks q
    rw [Value.withMarks_nil_of_unmarked hnm]
    rfl

theorem finish_blindWF (spec : Spec) (hr : RefineBlindWF spec) (val : Value) (hw : val.v.markerWF = true)
    (tr tr' : List Event) :
    Out.map Value.unmarkDeep (finish spec (.ok val, tr)).1 = (finish spec (.ok val.unmarkDeep, tr')).1 := by
  unfold finish
  cases hrf : spec.refine with
  | none => rfl
  | some rf =>
    simp only [deferredRefine]
    have hk : val.unmarkDeep.isKnown = val.isKnown := isKnown_unmarkDeep_wf hw
    have ety : val.unmarkDeep.ty = val.ty := rfl
    rw [hk, ety]
    split
    · exact refineWith_blindWF rf (hr rf hrf) val hw
    · rfl

theorem callTail_blindWF (spec : Spec) (impl : ImplFn) (himpl : ImplBlind impl) (hr : RefineBlindWF spec)
    (rt : Ty) (R : Pass2) (as' : List Value) (hp2 : R.args.map Value.unmarkDeep = as')
    (hp3 : ∀ a ∈ R.args, a.v.markerWF = true) (tr tr' : List Event) :
    Out.map Value.unmarkDeep (finish spec ((callTail impl rt false R).1, tr)).1 =
      (finish spec ((callTail impl rt false ⟨as', [], R.unknown⟩).1, tr')).1 := by
  obtain ⟨hi1, hi2⟩ := himpl R.args rt hp3
  rw [hp2] at hi1
  unfold callTail
  by_cases hu : (false || R.unknown) = true
  · simp only [hu, if_true]
    have e0 : withMarkSets (Value.unknown rt) ([] : List (List String)) = Value.unknown rt := rfl
    have hwf : (withMarkSets (Value.unknown rt) R.marks).v.markerWF = true := by
      unfold withMarkSets; split
      · rfl
      · exact Value.markerWF_withMarks rfl _
    have hud : (withMarkSets (Value.unknown rt) R.marks).unmarkDeep = Value.unknown rt := by
      rw [unmarkDeep_withMarkSets]; rfl
    rw [e0, finish_blindWF spec hr _ hwf tr tr', hud]
  · simp only [hu, Bool.false_eq_true, if_false]
    cases hi : impl R.args rt with
    | ok retVal =>
      rw [hi] at hi1
      have hi1' : impl as' rt = .ok retVal.unmarkDeep := hi1.symm
      have hwr := hi2 retVal hi
      simp only [hi1', List.length_nil, Nat.lt_irrefl, gt_iff_lt, if_false]
      generalize hrv : (if 0 < R.marks.length then withMarkSets retVal R.marks else retVal) = rv
      have hrv1 : rv.unmarkDeep = retVal.unmarkDeep := by
        rw [← hrv]; split
        · exact unmarkDeep_withMarkSets _ _
        · rfl
      have hrv2 : rv.ty = retVal.ty := by
        rw [← hrv]; split
        · exact withMarkSets_ty _ _
        · rfl
      have hrv3 : rv.v.markerWF = true := by
        rw [← hrv]; split
        · unfold withMarkSets; split
          · exact hwr
          · exact Value.markerWF_withMarks hwr _
        · exact hwr
      have ety : retVal.unmarkDeep.ty = retVal.ty := rfl
      rw [hrv2, ety]
      split
      · rw [finish_passes (by simp), finish_passes (by simp)]; rfl
      · rw [finish_blindWF spec hr _ hrv3 _ tr', hrv1]
    | err c =>
      rw [hi] at hi1
      simp only [← hi1, Res.map]
      rw [finish_passes (by simp), finish_passes (by simp)]; rfl
    | panic w =>
      rw [hi] at hi1
      simp only [← hi1, Res.map]
      rw [finish_passes (by simp), finish_passes (by simp)]; rfl
    | unmodelled =>
      rw [hi] at hi1
      simp only [← hi1, Res.map]
      rw [finish_passes (by simp), finish_passes (by simp)]; rfl

theorem callTable_blindWF (spec : Spec) (tf : TypeFn) (impl : ImplFn) (args : List Value)
    (htf : TypeBlind tf) (himpl : ImplBlind impl) (hr : RefineBlindWF spec)
    (hw : ∀ v ∈ args, v.v.markerWF = true) :
    Out.map Value.unmarkDeep (callTable spec tf impl args).1 =
      (callTable spec tf impl (args.map Value.unmarkDeep)).1 := by
  unfold callTable
  simp only [List.length_map]
  by_cases hc : spec.countOK args.length = true
  · simp only [hc, if_true]
    have hl := Spec.expand_length hc
    obtain ⟨hp1, hp2, hp3⟩ := pass2_clean _ args hl hw
    rw [firstFail_unmarkDeep _ _ hw, zipWith_typeArg_clean _ _ hl, hp1]
    cases hf : firstFail (spec.expand args.length) args with
    | some kf =>
      obtain ⟨k, f⟩ := kf
      cases f <;> simp only [Out.map]
      have e0 : withMarkSets (Value.unknown .dyn) ([] : List (List String)) = Value.unknown .dyn := rfl
      rw [e0, unmarkDeep_withMarkSets]; rfl
    | none =>
      simp only
      have htT : tf (List.zipWith Param.typeArg (spec.expand args.length) args) = tf (args.map Value.unmarkDeep) := by
        rw [htf, map_unmarkDeep_zipWith Param.typeArg_unmarkDeep _ _ hl]
      rw [htT]
      cases ht : tf (args.map Value.unmarkDeep) with
      | ok rt => exact callTail_blindWF spec impl himpl hr rt _ _ hp2 hp3 _ _
      | err c => rfl
      | panic w => rfl
      | unmodelled => rfl
  · simp [hc, Out.map]

/-! ### `RefineBlind` is false of `refineNonNull` -/

/-- a marker directly inside a marker (not constructible through the API): `Refine()` is
not modelled on it, on its unmarked twin it is -/
theorem refineBlind_refineNN_counterexample :
    ¬ RefineBlind { params := [], refine := some Stdlib.refineNN } := by
  intro h
  have := h Stdlib.refineNN rfl ⟨.bool, .marked ["a"] (.marked ["b"] (.b true))⟩
  have e1 : (Stdlib.refineNN ⟨.bool, .marked ["a"] (.marked ["b"] (.b true))⟩).map Payload.stripMarks = none := rfl
  have e2 : Stdlib.refineNN (Value.unmarkDeep ⟨.bool, .marked ["a"] (.marked ["b"] (.b true))⟩) = some (.b true) := rfl
  rw [e1, e2] at this
  cases this

/-! ### `stdlib.LengthFunc` -/

theorem length_typeBlind : TypeBlind Stdlib.lengthType := by
  intro as
  cases as with
  | nil => rfl
  | cons c cs => rfl

open Value in
theorem length_unmark_commutes {a : Value} (ha : a.v.markerWF = true) :
    (Value.length a).map unmarkDeep = Value.length a.unmarkDeep := by
  show (unMarks lengthU a).map unmarkDeep = unMarks lengthU a.unmarkDeep
  rw [unMarks_of_unmarked (isMarked_unmarkDeep a)]
  by_cases h : a.isMarked = true
  · simp only [unMarks, h, if_true, Res.map_map]
    rw [Res.map_congr (g := unmarkDeep) _ (fun r _ => by simp [Function.comp, unmarkDeep_withMarks])]
    rw [map_unmarkDeep_of_clean (lengthU_clean _), ← lengthU_strip (show a.unmark.isMarked = false from Payload.isMarked_unmark1_of_wf ha),
      unmarkDeep_unmark]
  · have h' : a.isMarked = false := by simpa using h
    rw [unMarks_of_unmarked h', map_unmarkDeep_of_clean (lengthU_clean _), lengthU_strip h']

open Value in
theorem length_markerWF {a r : Value} (h : Value.length a = .ok r) : r.v.markerWF = true := by
  change unMarks lengthU a = .ok r at h
  unfold unMarks at h
  split at h
  · obtain ⟨r0, h0, rfl⟩ := Res.map_eq_ok.mp h
    exact (((lengthU_clean _).of_eq h0).withMarks_wf _).1
  · exact ((lengthU_clean _).of_eq h).marksWF.1

theorem length_implBlind : ImplBlind Stdlib.lengthImpl := by
  intro as t hw
  cases as with
  | nil => exact ⟨rfl, fun r h => by simp [Stdlib.lengthImpl, Stdlib.oob] at h⟩
  | cons c cs =>
    exact ⟨length_unmark_commutes (hw c (by simp)), fun r h => length_markerWF h⟩

end Fn
end CtyModel
