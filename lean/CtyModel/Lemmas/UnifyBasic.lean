/-
Structural facts about the pieces of the unify model (Unify.lean): the conversion
loop, `mapRes`, the kind counters, index bookkeeping.
-/
import CtyModel.UnifySpec
import CtyModel.Lemmas.ConvertProps
namespace CtyModel
namespace Unify
open Convert Ty

/-! ### `Res` plumbing -/

theorem mapRes_ok_map {α β} (f : α → Res β) (g : α → β) :
    ∀ (l : List α), (∀ x ∈ l, f x = .ok (g x)) → mapRes f l = .ok (l.map g)
  | [], _ => rfl
  | a :: as, h => by
    have ha := h a (by simp)
    have ih := mapRes_ok_map f g as (fun x hx => h x (List.mem_cons_of_mem _ hx))
    simp [mapRes, ha, ih, Res.bind]

theorem mapRes_length {α β} (f : α → Res β) :
    ∀ (l : List α) (r : List β), mapRes f l = .ok r → r.length = l.length
  | [], r, h => by simp [mapRes] at h; subst h; rfl
  | a :: as, r, h => by
    simp only [mapRes] at h
    obtain ⟨b, _, h⟩ := Res.bind_eq_ok h
    obtain ⟨bs, hbs, h⟩ := Res.bind_eq_ok h
    simp at h; subst h
    simp [mapRes_length f as bs hbs]

/-- a `mapRes` panics only if one of its calls does -/
theorem mapRes_no_panic {α β} (f : α → Res β) :
    ∀ (l : List α), (∀ x ∈ l, ∃ b, f x = .ok b) → ∃ r, mapRes f l = .ok r
  | [], _ => ⟨[], rfl⟩
  | a :: as, h => by
    obtain ⟨b, hb⟩ := h a (by simp)
    obtain ⟨bs, hbs⟩ := mapRes_no_panic f as (fun x hx => h x (List.mem_cons_of_mem _ hx))
    exact ⟨b :: bs, by simp [mapRes, hb, hbs, Res.bind]⟩

theorem mapRes_get {α β} (f : α → Res β) :
    ∀ (l : List α) (r : List β), mapRes f l = .ok r → ∀ (i : Nat) a, l[i]? = some a → ∃ b, r[i]? = some b ∧ f a = .ok b
  | [], _, _, i, a, hi => by simp at hi
  | x :: xs, r, h, i, a, hi => by
    simp only [mapRes] at h
    obtain ⟨b, hb, h⟩ := Res.bind_eq_ok h
    obtain ⟨bs, hbs, h⟩ := Res.bind_eq_ok h
    simp at h; subst h
    cases i with
    | zero => simp at hi; subst hi; exact ⟨b, by simp, hb⟩
    | succ i => simpa using mapRes_get f xs bs hbs i a (by simpa using hi)

/-! ### the kind counters -/

theorem count_all {p : Ty → Bool} {ts : List Ty} (h : ∀ x ∈ ts, p x = true) : count p ts = ts.length := by
  simp [count, List.filter_eq_self.mpr h]

theorem count_none {p : Ty → Bool} {ts : List Ty} (h : ∀ x ∈ ts, p x = false) : count p ts = 0 := by
  simp only [count, List.length_eq_zero_iff, List.filter_eq_nil_iff]
  intro a ha; simp [h a ha]

theorem all_of_count {p : Ty → Bool} {ts : List Ty} (h : count p ts = ts.length) : ∀ x ∈ ts, p x = true :=
  List.length_filter_eq_length_iff.mp h

theorem count_le (p : Ty → Bool) (ts : List Ty) : count p ts ≤ ts.length := List.length_filter_le p ts

/-! ### the conversion loop -/

theorem convLoop_get {E : Env} {uns : Bool} {retTy : Ty} :
    ∀ {ts : List Ty} {cs : Convs}, convLoop E uns retTy ts = some cs →
      cs.length = ts.length ∧ ∀ (i : Nat) ty, ts[i]? = some ty → slotOf E uns retTy ty = cs[i]?
  | [], cs, h => by simp [convLoop] at h; subst h; simp
  | t :: ts, cs, h => by
    simp only [convLoop] at h
    split at h
    · rename_i he
      obtain ⟨cs', hcs', rfl⟩ := Option.map_eq_some_iff.mp h
      have ih := convLoop_get hcs'
      refine ⟨by simp [ih.1], ?_⟩
      intro i ty hi
      cases i with
      | zero => simp at hi; subst hi; simp [slotOf, he]
      | succ i => simpa using ih.2 i ty (by simpa using hi)
    · rename_i he
      split at h
      · simp at h
      · rename_i p hp
        obtain ⟨cs', hcs', rfl⟩ := Option.map_eq_some_iff.mp h
        have ih := convLoop_get hcs'
        refine ⟨by simp [ih.1], ?_⟩
        intro i ty hi
        cases i with
        | zero => simp at hi; subst hi; simp [slotOf, he, hp]
        | succ i => simpa using ih.2 i ty (by simpa using hi)

theorem convLoop_length {E : Env} {uns : Bool} {retTy : Ty} {ts : List Ty} {cs : Convs}
    (h : convLoop E uns retTy ts = some cs) : cs.length = ts.length := (convLoop_get h).1

/-- when every input already is the result type the loop hands out no conversion -/
theorem convLoop_same {E : Env} {uns : Bool} {retTy : Ty} :
    ∀ (ts : List Ty), (∀ x ∈ ts, x.equals retTy = true) → convLoop E uns retTy ts = some (ts.map fun _ => none)
  | [], _ => rfl
  | t :: ts, h => by
    simp [convLoop, h t (by simp), convLoop_same ts (fun x hx => h x (List.mem_cons_of_mem _ hx))]

/-- the loop succeeds iff every slot can be filled -/
theorem convLoop_isSome {E : Env} {uns : Bool} {retTy : Ty} :
    ∀ (ts : List Ty), (∀ x ∈ ts, (slotOf E uns retTy x).isSome = true) → (convLoop E uns retTy ts).isSome = true
  | [], _ => rfl
  | t :: ts, h => by
    have ht := h t (by simp)
    have ih := convLoop_isSome ts (fun x hx => h x (List.mem_cons_of_mem _ hx))
    obtain ⟨cs, hcs⟩ := Option.isSome_iff_exists.mp ih
    simp only [convLoop]
    split
    · simp [hcs]
    · rename_i he
      simp only [slotOf, he] at ht
      split
      · rename_i hn; simp [hn] at ht
      · simp [hcs]

theorem convLoop_none_slot {E : Env} {uns : Bool} {retTy : Ty} :
    ∀ (ts : List Ty), convLoop E uns retTy ts = none → ∃ x ∈ ts, slotOf E uns retTy x = none := by
  intro ts h
  apply Classical.byContradiction
  intro hn
  have : ∀ x ∈ ts, (slotOf E uns retTy x).isSome = true := by
    intro x hx
    cases hs : slotOf E uns retTy x with
    | none => exact absurd ⟨x, hx, hs⟩ hn
    | some _ => rfl
  have := convLoop_isSome ts this
  simp [h] at this

/-! ### index bookkeeping -/

theorem replaceAt_length (idxs : List Nat) (ty : Ty) : ∀ (types : List Ty), (replaceAt idxs ty types).length = types.length := by
  induction idxs with
  | nil => intro types; rfl
  | cons i is ih => intro types; simp [replaceAt, List.foldl_cons] at ih ⊢; rw [ih]; simp

theorem replaceAt_get (ty : Ty) : ∀ (idxs : List Nat) (types : List Ty) (j : Nat),
    (replaceAt idxs ty types)[j]? = if j ∈ idxs ∧ j < types.length then some ty else types[j]? := by
  intro idxs
  induction idxs with
  | nil => intro types j; simp [replaceAt]
  | cons i is ih =>
    intro types j
    have := ih (types.set i ty) j
    simp only [replaceAt, List.foldl_cons] at this ⊢
    rw [this]
    simp only [List.length_set, List.mem_cons, List.getElem?_set]
    by_cases hji : j = i
    · subst hji
      by_cases hl : j < types.length
      · simp [hl]
      · simp [hl]
    · have : ¬ i = j := fun e => hji e.symm
      simp [hji, this]

theorem idxsFrom_get (p : Ty → Bool) : ∀ (ts : List Ty) (o k j : Nat), (idxsFrom p o ts)[k]? = some j →
    o ≤ j ∧ ∃ t, ts[j - o]? = some t ∧ p t = true ∧ (ts.filter p)[k]? = some t
  | [], _, _, _, h => by simp [idxsFrom] at h
  | t :: ts, o, k, j, h => by
    simp only [idxsFrom] at h
    by_cases hp : p t = true
    · simp only [hp, if_true] at h
      cases k with
      | zero =>
        simp at h; subst h
        exact ⟨Nat.le_refl _, t, by simp, hp, by simp [List.filter, hp]⟩
      | succ k =>
        simp only [List.getElem?_cons_succ] at h
        obtain ⟨ho, t', ht', hp', hf⟩ := idxsFrom_get p ts (o + 1) k j h
        refine ⟨by omega, t', ?_, hp', by simp [List.filter, hp, hf]⟩
        have : j - o = (j - (o + 1)) + 1 := by omega
        rw [this]; simpa using ht'
    · have hpf : p t = false := by simpa using hp
      simp only [hpf, Bool.false_eq_true, if_false] at h
      obtain ⟨ho, t', ht', hp', hf⟩ := idxsFrom_get p ts (o + 1) k j h
      refine ⟨by omega, t', ?_, hp', by simp [List.filter, hp, hf]⟩
      have : j - o = (j - (o + 1)) + 1 := by omega
      rw [this]; simpa using ht'

theorem idxsFrom_length (p : Ty → Bool) : ∀ (ts : List Ty) (o : Nat), (idxsFrom p o ts).length = (ts.filter p).length
  | [], _ => rfl
  | t :: ts, o => by
    by_cases hp : p t = true <;> simp [idxsFrom, List.filter, hp, idxsFrom_length p ts (o + 1)]

theorem idxsFrom_mem (p : Ty → Bool) : ∀ (ts : List Ty) (o j : Nat),
    j ∈ idxsFrom p o ts ↔ o ≤ j ∧ ∃ t, ts[j - o]? = some t ∧ p t = true
  | [], _, _ => by simp [idxsFrom]
  | t :: ts, o, j => by
    have ih := idxsFrom_mem p ts (o + 1) j
    by_cases hp : p t = true
    · simp only [idxsFrom, hp, if_true, List.mem_cons, ih]
      constructor
      · rintro (rfl | ⟨ho, t', ht', hp'⟩)
        · exact ⟨Nat.le_refl _, t, by simp, hp⟩
        · refine ⟨by omega, t', ?_, hp'⟩
          have : j - o = (j - (o + 1)) + 1 := by omega
          rw [this]; simpa using ht'
      · rintro ⟨ho, t', ht', hp'⟩
        by_cases hj : j = o
        · exact .inl hj
        · right
          refine ⟨by omega, t', ?_, hp'⟩
          have : j - o = (j - (o + 1)) + 1 := by omega
          rw [this] at ht'; simpa using ht'
    · have hpf : p t = false := by simpa using hp
      simp only [idxsFrom, hpf, Bool.false_eq_true, if_false, ih]
      constructor
      · rintro ⟨ho, t', ht', hp'⟩
        refine ⟨by omega, t', ?_, hp'⟩
        have : j - o = (j - (o + 1)) + 1 := by omega
        rw [this]; simpa using ht'
      · rintro ⟨ho, t', ht', hp'⟩
        have hj : j ≠ o := by
          intro e; subst e; simp at ht'; subst ht'; exact hp hp'
        refine ⟨by omega, t', ?_, hp'⟩
        have : j - o = (j - (o + 1)) + 1 := by omega
        rw [this] at ht'; simpa using ht'

theorem idxsFrom_nodup (p : Ty → Bool) : ∀ (ts : List Ty) (o : Nat), (idxsFrom p o ts).Nodup
  | [], _ => by simp [idxsFrom]
  | t :: ts, o => by
    by_cases hp : p t = true
    · simp only [idxsFrom, hp, if_true, List.nodup_cons]
      refine ⟨?_, idxsFrom_nodup p ts (o + 1)⟩
      intro hm
      have := ((idxsFrom_mem p ts (o + 1) o).mp hm).1
      omega
    · have hpf : p t = false := by simpa using hp
      simp only [idxsFrom, hpf, Bool.false_eq_true, if_false]
      exact idxsFrom_nodup p ts (o + 1)

theorem idxsOf_mem {p : Ty → Bool} {types : List Ty} {i : Nat} :
    i ∈ idxsOf p types ↔ ∃ t, types[i]? = some t ∧ p t = true := by
  simp [idxsOf, idxsFrom_mem]

theorem idxsOf_lt {p : Ty → Bool} {types : List Ty} {i : Nat} (h : i ∈ idxsOf p types) : i < types.length := by
  obtain ⟨t, ht, _⟩ := idxsOf_mem.mp h
  exact (List.getElem?_eq_some_iff.mp ht).1

theorem idxsOf_get {p : Ty → Bool} {types : List Ty} {k j : Nat} (h : (idxsOf p types)[k]? = some j) :
    ∃ t, types[j]? = some t ∧ p t = true ∧ (types.filter p)[k]? = some t := by
  simpa using (idxsFrom_get p types 0 k j h).2

theorem idxsOf_length (p : Ty → Bool) (types : List Ty) : (idxsOf p types).length = (types.filter p).length :=
  idxsFrom_length p types 0

theorem idxsOf_nodup (p : Ty → Bool) (types : List Ty) : (idxsOf p types).Nodup := idxsFrom_nodup p types 0

end Unify
end CtyModel
