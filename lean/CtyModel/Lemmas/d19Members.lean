/-
An independent characterisation of "the value and each nested member".

`nodeAt` / `pathAt` (and through them clause (2) of `C19.walk_preorder_once`) are
defined by way of `children`, the very function `walk` iterates; a `children`
that forgot a kind of member would satisfy that clause equally.  Here the members
are characterised WITHOUT `children`, `kids` or the iteration oracle:

* `nodes p`           — the number of nested members of a payload (itself included),
                        by recursion on the payload alone: a list / tuple payload
                        has its slice elements, a map / object payload its map
                        values, a set payload its stored members; null, unknown,
                        primitive and capsule payloads have none; a marker has those
                        of what it wraps.
* `preorder_length`   — on shaped values the pre-order listing (= what `Walk`
                        visits, `walk_eq_preorder`) has exactly `nodes` entries.
* `kids_steps_spec`   — the steps under which the members are reported, by type
                        and payload: a list of `n` elements / a tuple of `n` element
                        types has the index steps `0 … n-1` (as `NumberIntVal`), a map
                        the index steps of its keys (as `StringVal`, in key order), an
                        object the attribute steps of its TYPE's attributes, a set
                        its members in iteration order, each as its own key.
-/
import CtyModel.Lemmas.WalkPre
import CtyModel.Lemmas.WalkShape
namespace CtyModel
namespace Walk
open Value

mutual
/-- the number of nested members of a payload, itself included -/
def nodes : Payload → Nat
  | .marked _ r => nodes r
  | .seq vs => 1 + nodesL vs
  | .smap _ vs => 1 + nodesL vs
  | .sset _ vs => 1 + nodesL vs
  | _ => 1
def nodesL : List Payload → Nat
  | [] => 0
  | v :: vs => nodes v + nodesL vs
end

theorem nodes_unmark1 (p : Payload) : nodes p.unmark1 = nodes p := by
  cases p <;> simp [Payload.unmark1, nodes]

theorem nodesL_perm {l l' : List Payload} (h : l.Perm l') : nodesL l = nodesL l' := by
  induction h with
  | nil => rfl
  | cons x _ ih => simp [nodesL, ih]
  | swap x y l => simp only [nodesL]; omega
  | trans _ _ ih1 ih2 => exact ih1.trans ih2

/-- the nested members below a list of (step, member) pairs -/
def kidNodes (cs : List (PathStep × Value)) : Nat := (cs.map fun c => nodes c.2.v).sum

theorem seqKids_nodes (e : Ty) : ∀ (i : Nat) (vs : List Payload), kidNodes (seqKids e i vs) = nodesL vs
  | _, [] => rfl
  | i, v :: vs => by
    have := seqKids_nodes e (i + 1) vs
    simp only [kidNodes] at this
    simp [kidNodes, seqKids, nodesL, this]

theorem setKids_nodes (e : Ty) : ∀ (ms : List Payload), kidNodes (setKids e ms) = nodesL ms
  | [] => rfl
  | m :: ms => by
    have := setKids_nodes e ms
    simp only [kidNodes] at this
    simp [kidNodes, setKids, nodesL, this]

theorem tupKids_nodes : ∀ (i : Nat) (ts : List Ty) (vs : List Payload), ts.length = vs.length →
    kidNodes (tupKids i ts vs) = nodesL vs
  | _, [], [], _ => rfl
  | _, [], _ :: _, h => by simp at h
  | _, _ :: _, [], h => by simp at h
  | i, t :: ts, v :: vs, h => by
    have := tupKids_nodes (i + 1) ts vs (by simpa using h)
    simp only [kidNodes] at this
    simp [kidNodes, tupKids, nodesL, this]

theorem mapKids_nodes (e : Ty) : ∀ (ks : List String) (vs : List Payload), ks.length = vs.length →
    kidNodes (mapKids e ks vs) = nodesL vs
  | [], [], _ => rfl
  | [], _ :: _, h => by simp at h
  | _ :: _, [], h => by simp at h
  | k :: ks, v :: vs, h => by
    have := mapKids_nodes e ks vs (by simpa using h)
    simp only [kidNodes] at this
    simp [kidNodes, mapKids, nodesL, this]

theorem objKids_nodes : ∀ (ns : List String) (ts : List Ty) (vs : List Payload),
    ns.length = ts.length → ts.length = vs.length → kidNodes (objKids ns ts vs) = nodesL vs
  | [], [], [], _, _ => rfl
  | [], _ :: _, _, h, _ => by simp at h
  | _ :: _, [], _, h, _ => by simp at h
  | [], [], _ :: _, _, h => by simp at h
  | _ :: _, _ :: _, [], _, h => by simp at h
  | n :: ns, t :: ts, v :: vs, h, h' => by
    have := objKids_nodes ns ts vs (by simpa using h) (by simpa using h')
    simp only [kidNodes] at this
    simp [kidNodes, objKids, nodesL, this]

/-- **the members `walk` descends into are all the nested members**: counted
independently of `children`, a shaped value has one node more than its kids have -/
theorem kids_nodes {X : SetOracle} (hX : IterPerm X) (v : Value) (hs : shapedV v = true) :
    nodes v.v = 1 + kidNodes (kids X v) := by
  have hsu : shaped v.ty v.v.unmark1 = true := shaped_unmark1 hs
  have hmu := shaped_unmark1_notMarked hs
  rw [← nodes_unmark1]
  simp only [kids]
  by_cases hnk : (v.isNull || !v.isKnown) = true
  · simp only [hnk, if_true, kidNodes, List.map_nil, List.sum_nil, Nat.add_zero]
    simp only [Bool.or_eq_true, Bool.not_eq_true', Value.isNull, Payload.isNull, Value.isKnown,
      Payload.isKnown] at hnk
    cases hp : v.v.unmark1 <;> simp_all [nodes]
  · simp only [hnk, Bool.false_eq_true, if_false]
    obtain ⟨t, p⟩ := v
    simp only [Value.unmark]
    simp only at hsu hmu
    cases t <;> cases hp : p.unmark1 <;> simp only [hp] at hsu hmu <;>
      first
      | (exfalso; exact Bool.noConfusion (show false = true from hsu))
      | (exfalso; simp [Payload.isMarked] at hmu; done)
      | (simp only [children, nodes, kidNodes, List.map_nil, List.sum_nil, Nat.add_zero]; done)
      | skip
    · -- list
      simp only [children, nodes, seqKids_nodes]
    · -- set
      simp only [children, nodes, setKids_nodes, nodesL_perm (hX _ _ _)]
    · -- map
      simp only [shaped, Bool.and_eq_true, beq_iff_eq] at hsu
      simp only [children, nodes, mapKids_nodes _ _ _ hsu.1.1]
    · -- tuple
      simp only [shaped, Bool.and_eq_true, beq_iff_eq] at hsu
      simp only [children, nodes, tupKids_nodes _ _ _ hsu.1.1]
    · -- object
      simp only [shaped, Bool.and_eq_true, beq_iff_eq] at hsu
      obtain ⟨⟨⟨⟨⟨_, h2⟩, _⟩, h4⟩, _⟩, _⟩ := hsu
      simp only [children, nodes, objKids_nodes _ _ _ h2 h4]

theorem preKids_length (rec : Pos → Path → Value → List Node) (pos : Pos) (path : Path) :
    ∀ (cs : List (PathStep × Value)) (i : Nat),
      (∀ c ∈ cs, ∀ pos path, (rec pos path c.2).length = nodes c.2.v) →
      (preKids rec pos path i cs).length = kidNodes cs
  | [], _, _ => rfl
  | (s, c) :: rest, i, h => by
    have ih := preKids_length rec pos path rest (i + 1) (fun c hc => h c (List.mem_cons_of_mem _ hc))
    simp only [kidNodes] at ih
    simp [preKids, kidNodes, h (s, c) (by simp), ih]

theorem preFuel_length {X : SetOracle} (hX : IterPerm X) : ∀ (f : Nat) (v : Value), v.v.depth < f →
    shapedV v = true → ∀ (pos : Pos) (path : Path), (preFuel X f pos path v).length = nodes v.v
  | 0, _, h, _ => by omega
  | f + 1, v, h, hs => by
    intro pos path
    simp only [preFuel, List.length_cons]
    rw [preKids_length (preFuel X f) pos path (kids X v) 0, kids_nodes hX v hs]
    · omega
    · intro c hc pos path
      exact preFuel_length hX f c.2 (by have := kids_depth_lt hX v c hc; omega)
        (kids_shaped hX v hs c hc) pos path

/-- the pre-order listing of a shaped value has exactly one entry per nested member -/
theorem preorder_length {X : SetOracle} (hX : IterPerm X) (v : Value) (hs : shapedV v = true) :
    (preorder X v).length = nodes v.v :=
  preFuel_length hX _ v (by omega) hs [] []

/-! ### the steps under which the members are reported -/

theorem seqKids_steps (e : Ty) : ∀ (i : Nat) (vs : List Payload),
    (seqKids e i vs).map (·.1) = (List.range' i vs.length).map fun j => .index (intVal (j : Int))
  | _, [] => rfl
  | i, v :: vs => by
    simp only [seqKids, List.map_cons, List.length_cons, List.range'_succ, seqKids_steps e (i + 1) vs]

theorem tupKids_steps : ∀ (i : Nat) (ts : List Ty) (vs : List Payload), ts.length = vs.length →
    (tupKids i ts vs).map (·.1) = (List.range' i ts.length).map fun j => .index (intVal (j : Int))
  | _, [], [], _ => rfl
  | _, [], _ :: _, h => by simp at h
  | _, _ :: _, [], h => by simp at h
  | i, t :: ts, v :: vs, h => by
    simp only [tupKids, List.map_cons, List.length_cons, List.range'_succ,
      tupKids_steps (i + 1) ts vs (by simpa using h)]

theorem mapKids_steps (e : Ty) : ∀ (ks : List String) (vs : List Payload), ks.length = vs.length →
    (mapKids e ks vs).map (·.1) = ks.map fun k => .index (strVal k)
  | [], [], _ => rfl
  | [], _ :: _, h => by simp at h
  | _ :: _, [], h => by simp at h
  | k :: ks, v :: vs, h => by
    simp only [mapKids, List.map_cons, mapKids_steps e ks vs (by simpa using h)]

theorem objKids_steps : ∀ (ns : List String) (ts : List Ty) (vs : List Payload),
    ns.length = ts.length → ts.length = vs.length → (objKids ns ts vs).map (·.1) = ns.map .getAttr
  | [], [], [], _, _ => rfl
  | [], _ :: _, _, h, _ => by simp at h
  | _ :: _, [], _, h, _ => by simp at h
  | [], [], _ :: _, _, h => by simp at h
  | _ :: _, _ :: _, [], _, h => by simp at h
  | n :: ns, t :: ts, v :: vs, h, h' => by
    simp only [objKids, List.map_cons, objKids_steps ns ts vs (by simpa using h) (by simpa using h')]

theorem setKids_eq (e : Ty) : ∀ (ms : List Payload),
    setKids e ms = ms.map fun m => (.index ⟨e, m⟩, ⟨e, m⟩)
  | [] => rfl
  | m :: ms => by simp only [setKids, List.map_cons, setKids_eq e ms]

/-- what `kids_steps_spec` says, by type and raw payload of a known, non-null value -/
def StepsSpec (X : SetOracle) (v : Value) (cs : List (PathStep × Value)) : Prop :=
  match v.ty, v.v.unmark1 with
  | .list _, .seq vs =>
    cs.map (·.1) = (List.range vs.length).map fun j => .index (intVal (j : Int))
  | .tuple ts, .seq _ =>
    cs.map (·.1) = (List.range ts.length).map fun j => .index (intVal (j : Int))
  | .map _, .smap ks _ => cs.map (·.1) = ks.map fun k => .index (strVal k)
  | .object ns _ _, .smap _ _ => cs.map (·.1) = ns.map .getAttr
  | .set e, .sset ids vs => cs = (X.iter e ids vs).map fun m => (.index ⟨e, m⟩, ⟨e, m⟩)
  | _, _ => cs = []

/-- **the steps of the members, by type and payload** (shaped, known, non-null value) -/
theorem kids_steps_spec (X : SetOracle) (v : Value) (hs : shapedV v = true)
    (hnull : v.isNull = false) (hknown : v.isKnown = true) : StepsSpec X v (kids X v) := by
  have hsu : shaped v.ty v.v.unmark1 = true := shaped_unmark1 hs
  have hmu := shaped_unmark1_notMarked hs
  simp only [kids, hnull, hknown, Bool.not_true, Bool.or_self, Bool.false_eq_true, if_false,
    StepsSpec]
  obtain ⟨t, p⟩ := v
  simp only [Value.unmark]
  simp only at hsu hmu
  cases t <;> cases hp : p.unmark1 <;> simp only [hp] at hsu hmu <;>
    first
    | (exfalso; exact Bool.noConfusion (show false = true from hsu))
    | (exfalso; simp [Payload.isMarked] at hmu; done)
    | (simp only [children]; done)
    | skip
  · simp only [children, seqKids_steps, List.range_eq_range']
  · simp only [children, setKids_eq]
  · simp only [shaped, Bool.and_eq_true, beq_iff_eq] at hsu
    simp only [children, mapKids_steps _ _ _ hsu.1.1]
  · simp only [shaped, Bool.and_eq_true, beq_iff_eq] at hsu
    simp only [children, tupKids_steps _ _ _ hsu.1.1, List.range_eq_range']
  · simp only [shaped, Bool.and_eq_true, beq_iff_eq] at hsu
    obtain ⟨⟨⟨⟨⟨_, h2⟩, _⟩, h4⟩, _⟩, _⟩ := hsu
    simp only [children, objKids_steps _ _ _ h2 h4]

end Walk
end CtyModel
