/-
C17 (MessagePack half) — a value `D17.unmarshal` returns has a well-formed type that CONFORMS to
the requested type and carries no optional-attribute annotation: every item tree whose maps are
parallel lists (`itemOk`: what any lexed document is), every requested type that is well-formed
and free of such annotations (what `Unmarshal` makes of its argument), every oracle, every `Ext`.
-/
import CtyModel.Lemmas.d17MsgpackNP
import CtyModel.Lemmas.C17JsonVal
import CtyModel.Lemmas.RefineBase
import CtyModel.Lemmas.JsonValStrip
import CtyModel.Lemmas.TyMisc
namespace CtyModel
namespace D17
open Msgpack Refine Ty

mutual
/-- keys and values of every map item are parallel lists of one length (the representation
invariant of `Item.map`; the lexer builds them from pairs).  Extension bodies are not looked at. -/
def itemOk : Item → Bool
  | .arr xs => itemOkL xs
  | .map ks vs => ks.length == vs.length && itemOkL vs
  | _ => true
def itemOkL : List Item → Bool
  | [] => true
  | x :: xs => itemOk x && itemOkL xs
end

/-- the requested type as the recursive function sees it -/
def TOk (t : Ty) : Prop := Ty.wf t = true ∧ Ty.hasOpt t = false

/-- what is shown of a decoded value -/
def Good (t : Ty) (v : Value) : Prop := Ty.wf v.ty = true ∧ Ty.matches t v.ty = true ∧ Ty.hasOpt v.ty = false

theorem good_self {t : Ty} {v : Value} (ht : TOk t) (h : v.ty = t) : Good t v := by
  unfold Good; rw [h]; exact ⟨ht.1, matches_refl t, ht.2⟩

theorem TOk.list {e : Ty} (h : TOk (.list e)) : TOk e := by simpa [TOk, Ty.wf, Ty.hasOpt] using h
theorem TOk.set {e : Ty} (h : TOk (.set e)) : TOk e := by simpa [TOk, Ty.wf, Ty.hasOpt] using h
theorem TOk.map {e : Ty} (h : TOk (.map e)) : TOk e := by simpa [TOk, Ty.wf, Ty.hasOpt] using h

/-! ### the element-type loop of `ListVal` / `SetVal` / `MapVal` -/

theorem elemTy_ok : ∀ (vals : List Value) (acc e : Ty), elemTy vals acc = .ok e → Ty.wf acc = true →
    (∀ v ∈ vals, Ty.wf v.ty = true) →
    (acc.isDyn = false → e = acc) ∧ (∀ v ∈ vals, v.ty = .dyn ∨ v.ty = e) ∧ (e = acc ∨ ∃ v ∈ vals, v.ty = e)
  | [], acc, e, h, _, _ => by
    have he : acc = e := by simpa [elemTy] using h
    subst he
    exact ⟨fun _ => rfl, (by intro v hv; simp at hv), Or.inl rfl⟩
  | v :: vs, acc, e, h, hw, hv => by
    have hvs : ∀ x ∈ vs, Ty.wf x.ty = true := fun x hx => hv x (List.mem_cons_of_mem _ hx)
    simp only [elemTy] at h
    split at h
    · rename_i hd
      obtain ⟨h1, h2, h3⟩ := elemTy_ok vs v.ty e h (hv v (by simp)) hvs
      refine ⟨(fun hf => by rw [hd] at hf; cases hf), ?_, ?_⟩
      · intro x hx
        rcases List.mem_cons.mp hx with rfl | hx
        · cases hxd : x.ty.isDyn
          · exact Or.inr (h1 hxd).symm
          · exact Or.inl (C17Json.isDyn_eq hxd)
        · exact h2 x hx
      · rcases h3 with h3 | ⟨x, hx, hxe⟩
        · exact Or.inr ⟨v, by simp, h3.symm⟩
        · exact Or.inr ⟨x, List.mem_cons_of_mem _ hx, hxe⟩
    · rename_i hd
      split at h
      · cases h
      · rename_i hne
        obtain ⟨h1, h2, h3⟩ := elemTy_ok vs acc e h hw hvs
        have hd' : acc.isDyn = false := by simpa using hd
        have hea := h1 hd'
        refine ⟨fun _ => hea, ?_, ?_⟩
        · intro x hx
          rcases List.mem_cons.mp hx with rfl | hx
          · cases hxd : x.ty.isDyn
            · have : acc.equals x.ty = true := by simpa [hxd] using hne
              exact Or.inr (by rw [hea]; exact ((Ty.equals_iff_eq _ _ hw (hv x (by simp))).mp this).symm)
            · exact Or.inl (C17Json.isDyn_eq hxd)
          · exact h2 x hx
        · rcases h3 with h3 | ⟨x, hx, hxe⟩
          · exact Or.inl h3
          · exact Or.inr ⟨x, List.mem_cons_of_mem _ hx, hxe⟩

/-- the inferred element type of a NON-EMPTY list of good members is good -/
theorem elemTy_good {e e' : Ty} {vals : List Value} (hne : vals ≠ []) (hv : ∀ v ∈ vals, Good e v)
    (h : elemTy vals .dyn = .ok e') : Ty.wf e' = true ∧ Ty.matches e e' = true ∧ Ty.hasOpt e' = false := by
  obtain ⟨_, h2, h3⟩ := elemTy_ok vals .dyn e' h rfl (fun v hv' => (hv v hv').1)
  obtain ⟨v0, hv0, hv0e⟩ := C17Json.unify_some hne h2 h3
  have := hv v0 hv0
  unfold Good at this
  rw [hv0e] at this
  exact this

/-! ### `insertKV` -/

theorem insertKV_vals {α} (k : String) (v : α) : ∀ (ns : List String) (us : List α),
    (insertKV k v ns us).2 ≠ [] ∧ ∀ x ∈ (insertKV k v ns us).2, x = v ∨ x ∈ us
  | [], _ => by simp [insertKV]
  | _ :: _, [] => by simp [insertKV]
  | n :: ns, u :: us => by
    have ih := insertKV_vals k v ns us
    simp only [insertKV]
    split
    · simp
    · split
      · refine ⟨by simp, ?_⟩
        intro x hx
        rcases List.mem_cons.mp hx with rfl | hx
        · exact Or.inl rfl
        · exact Or.inr (by simp [hx])
      · refine ⟨by simp, ?_⟩
        intro x hx
        rcases List.mem_cons.mp hx with rfl | hx
        · exact Or.inr (by simp)
        · rcases ih.2 x hx with h | h
          · exact Or.inl h
          · exact Or.inr (by simp [h])

/-- keys and values in step, every pair related by `R` -/
def Assoc {α} (R : String → α → Prop) : List String → List α → Prop
  | [], [] => True
  | k :: ks, v :: vs => R k v ∧ Assoc R ks vs
  | _, _ => False

theorem insertKV_assoc {α} (R : String → α → Prop) (k : String) (v : α) (hkv : R k v) :
    ∀ (ns : List String) (us : List α), Assoc R ns us → Ty.strictAsc ns = true → k ∉ ns →
    Ty.strictAsc (insertKV k v ns us).1 = true ∧ Assoc R (insertKV k v ns us).1 (insertKV k v ns us).2 ∧
    (insertKV k v ns us).1.length = ns.length + 1 ∧ (∀ x ∈ (insertKV k v ns us).1, x = k ∨ x ∈ ns)
  | [], [], _, _, _ => by simp [insertKV, Ty.strictAsc, Assoc, hkv]
  | [], _ :: _, h, _, _ => by simp [Assoc] at h
  | _ :: _, [], h, _, _ => by simp [Assoc] at h
  | n :: ns, u :: us, hA, ha, hk => by
    have ⟨ha', hlt⟩ := Ty.strictAsc_cons ha
    simp only [insertKV]
    split
    · rename_i hkn
      refine ⟨Ty.strictAsc_of ha ?_, ⟨hkv, hA⟩, by simp, by intro x hx; simpa using hx⟩
      intro x hx
      rcases List.mem_cons.mp hx with rfl | hx
      · exact hkn
      · exact String.lt_trans hkn (hlt x hx)
    · rename_i hkn
      have hne : k ≠ n := fun e => hk (by simp [e])
      simp only [hne, if_false]
      obtain ⟨i1, i2, i3, i4⟩ := insertKV_assoc R k v hkv ns us hA.2 ha' (fun hm => hk (List.mem_cons_of_mem _ hm))
      refine ⟨Ty.strictAsc_of i1 ?_, ⟨hA.1, i2⟩, by simp [i3], ?_⟩
      · intro x hx
        rcases i4 x hx with rfl | hx
        · exact JsonVal.str_lt_of_not _ _ hkn hne
        · exact hlt x hx
      · intro x hx
        rcases List.mem_cons.mp hx with rfl | hx
        · exact Or.inr (by simp)
        · rcases i4 x hx with h | h
          · exact Or.inl h
          · exact Or.inr (by simp [h])

/-! ### the extension branch: the result has the requested type -/

theorem bind_ok {α β} {r : Res α} {f : α → Res β} {b : β} (h : r.bind f = .ok b) : ∃ a, r = .ok a ∧ f a = .ok b := by
  cases r <;> simp_all [Res.bind]

theorem map_ok {α β} {r : Res α} {f : α → β} {b : β} (h : r.map f = .ok b) : ∃ a, r = .ok a ∧ f a = b := by
  cases r <;> simp_all [Res.map]

theorem recoverErr_ok {α} {r : Res α} {a : α} (h : recoverErr r = .ok a) : r = .ok a := by
  cases r <;> simp_all [recoverErr]

section
variable [O : EqOracle] (E : Ext)

theorem rfnLoop_orig (ty : Ty) : ∀ (n : Nat) (stream : List Item) (b : Builder) (st : LenSt) (b' : Builder) (st' : LenSt),
    rfnLoop E ty n stream b st = .ok (b', st') → b'.orig = b.orig
  | 0, stream, b, st, b', st', h => by
    cases stream <;> (simp only [D17.rfnLoop] at h; cases h; rfl)
  | _ + 1, [], _, _, _, _, h => by simp [D17.rfnLoop] at h
  | n + 1, k :: rest, b, st, b', st', h => by
    rw [D17.rfnLoop.eq_def] at h
    simp only at h
    repeat' split at h
    all_goals first
      | (cases h; done)
      | (exact rfnLoop_orig ty n _ _ _ _ _ h)
      | (have h1 := rfnLoop_orig ty n _ _ _ _ _ h
         have h2 := (step_base (by assumption)).1.1
         rw [h1, h2])

theorem newValue_of_init {ty : Ty} {b b' : Builder} {w : Value} (hi : Refine.init (Value.unknown ty) = .ok b)
    (hb : b'.orig = b.orig) (hn : Refine.newValue b' = .ok w) : w.ty = ty := by
  rw [newValue_ty_any hn, hb, (init_ok hi).1]; rfl

/-- an unknown-value extension item decodes to a value of exactly the requested type -/
theorem ext_ty {code : Int} {len : Nat} {hdr : ExtHdr} {stream : List Item} {ty : Ty} {v : Value}
    (h : unmarshal E (.ext code len hdr stream) ty = .ok v) : v.ty = ty := by
  simp only [D17.unmarshal] at h
  have h := recoverErr_ok h
  repeat' split at h
  all_goals first
    | (cases h; done)
    | (cases h; rfl)
    | (obtain ⟨b, hi, hn⟩ := bind_ok h
       exact newValue_of_init hi rfl hn)
    | (obtain ⟨b, hi, h2⟩ := bind_ok h
       obtain ⟨r, hl, h3⟩ := bind_ok h2
       have ho := rfnLoop_orig E ty _ _ _ _ r.1 r.2 hl
       split at h3
       · cases h3
       · exact newValue_of_init hi ho h3)

/-! ### tuples and objects -/

def TOkL (ts : List Ty) : Prop := Ty.wfL ts = true ∧ Ty.hasOptL ts = false

theorem TOkL.cons {t : Ty} {ts : List Ty} (h : TOkL (t :: ts)) : TOk t ∧ TOkL ts := by
  simp only [TOkL, Ty.wfL, Ty.hasOptL, Bool.and_eq_true, Bool.or_eq_false_iff] at h
  exact ⟨⟨h.1.1, h.2.1⟩, ⟨h.1.2, h.2.2⟩⟩

theorem TOkL.mem : ∀ {ts : List Ty}, TOkL ts → ∀ t ∈ ts, TOk t
  | [], _, _, h => by simp at h
  | _ :: _, h, t, hm => by
    rcases List.mem_cons.mp hm with rfl | hm
    · exact h.cons.1
    · exact TOkL.mem h.cons.2 t hm

def ZipGood : List Ty → List Value → Prop
  | [], [] => True
  | e :: es, v :: vs => Good e v ∧ ZipGood es vs
  | _, _ => False

theorem zipGood_types : ∀ (es : List Ty) (vs : List Value), ZipGood es vs →
    Ty.wfL (types vs) = true ∧ Ty.matchesL es (types vs) = true ∧ Ty.hasOptL (types vs) = false
  | [], [], _ => by simp [types, Ty.wfL, Ty.matchesL, Ty.hasOptL]
  | [], _ :: _, h => by simp [ZipGood] at h
  | _ :: _, [], h => by simp [ZipGood] at h
  | e :: es, v :: vs, h => by
    obtain ⟨⟨g1, g2, g3⟩, hr⟩ := h
    obtain ⟨i1, i2, i3⟩ := zipGood_types es vs hr
    simp [types, Ty.wfL, Ty.matchesL, Ty.hasOptL, g1, g2, g3, i1, i2, i3]

theorem find_name_mem {k : String} : ∀ {ns : List String} {ts : List Ty} {os : List Bool} {a : Ty} {o : Bool},
    Ty.find k ns ts os = some (a, o) → k ∈ ns
  | [], _, _, _, _, h => by simp [Ty.find] at h
  | _ :: _, [], _, _, _, h => by simp [Ty.find] at h
  | _ :: _, _ :: _, [], _, _, h => by simp [Ty.find] at h
  | n :: ns, t :: ts, o :: os, a, o', h => by
    simp only [Ty.find] at h
    split at h
    · rename_i e; simp [e]
    · exact List.mem_cons_of_mem _ (find_name_mem h)

/-- the relation between an attribute name and its decoded value -/
def AttrR (ns : List String) (ts : List Ty) (os : List Bool) (k : String) (v : Value) : Prop :=
  ∃ aty o, Ty.find k ns ts os = some (aty, o) ∧ Good aty v

theorem assoc_types {NS : List String} {TS : List Ty} {OS : List Bool} : ∀ (ks : List String) (tsub : List Ty) (vs : List Value),
    C17Json.FindAll NS TS OS ks tsub → Assoc (AttrR NS TS OS) ks vs → ks.length = tsub.length →
    Ty.wfL (types vs) = true ∧ Ty.matchesL tsub (types vs) = true ∧ Ty.hasOptL (types vs) = false ∧
      (types vs).length = ks.length
  | [], [], [], _, _, _ => by simp [types, Ty.wfL, Ty.matchesL, Ty.hasOptL]
  | [], _ :: _, _, _, _, h => by simp at h
  | _ :: _, [], _, _, _, h => by simp at h
  | [], [], _ :: _, _, h, _ => by simp [Assoc] at h
  | _ :: _, _ :: _, [], _, h, _ => by simp [Assoc] at h
  | k :: ks, t :: tsub, v :: vs, hf, ha, hl => by
    obtain ⟨⟨o, ho⟩, hf'⟩ := hf
    obtain ⟨⟨aty, o', ho', g1, g2, g3⟩, ha'⟩ := ha
    rw [ho] at ho'
    have hta : t = aty := by cases ho'; rfl
    subst hta
    obtain ⟨i1, i2, i3, i4⟩ := assoc_types ks tsub vs hf' ha' (by simpa using hl)
    simp [types, Ty.wfL, Ty.matchesL, Ty.hasOptL, g1, g2, g3, i1, i2, i3, i4]

theorem object_good {ns : List String} {ts : List Ty} {os : List Bool} (ht : TOk (.object ns ts os))
    {rK : List String} {rV : List Value} (ha : Ty.strictAsc rK = true) (hA : Assoc (AttrR ns ts os) rK rV)
    (hl : rK.length = ts.length) (hm : ∀ x ∈ rK, x ∈ ns) :
    Good (.object ns ts os) ⟨.object rK (types rV) (rK.map fun _ => false), .smap rK (payloads rV)⟩ := by
  have hw := ht.1
  simp only [Ty.wf, Bool.and_eq_true, beq_iff_eq] at hw
  obtain ⟨⟨⟨h1, h2⟩, h3⟩, h4⟩ := hw
  have hE : rK = ns := Ty.asc_subset_eq rK ns ha h3 (by omega) hm
  subst hE
  obtain ⟨i1, i2, i3, i4⟩ := assoc_types rK ts rV (C17Json.findAll_self rK ts os h3 h1 h2) hA h1
  simp [Good, Ty.wf, Ty.matches, Ty.hasOpt, i1, i2, i3, i4, h3, JsonVal.hasOpt_map_false]

/-! ### the decoder -/

mutual
theorem unmarshal_good : ∀ (it : Item) (ty : Ty) (v : Value), itemOk it = true → TOk ty →
    unmarshal E it ty = .ok v → Good ty v
  | .ext _ _ _ _, _, _, _, ht, h => good_self ht (ext_ty E h)
  | .nil, _, _, _, ht, h => by simp only [D17.unmarshal] at h; cases h; exact good_self ht rfl
  | .bool _, ty, _, _, ht, h => by
    cases ty <;> simp only [D17.unmarshal] at h <;> first
      | (cases h; done)
      | (cases h; exact good_self ht rfl)
  | .int _, ty, _, _, ht, h | .uint _, ty, _, _, ht, h | .f32 _, ty, _, _, ht, h | .f64 _, ty, _, _, ht, h
  | .fnan, ty, _, _, ht, h => by
    cases ty <;> simp only [D17.unmarshal] at h <;> first
      | (cases h; done)
      | (obtain ⟨x, _, rfl⟩ := map_ok h; exact good_self ht rfl)
  | .str _, ty, _, _, ht, h | .bin _, ty, _, _, ht, h | .binj _, ty, _, _, ht, h => by
    cases ty <;> simp only [D17.unmarshal] at h <;> first
      | (cases h; done)
      | (obtain ⟨x, _, rfl⟩ := map_ok h; exact good_self ht rfl)
      | (split at h <;> first | (cases h; done) | (cases h; exact good_self ht rfl))
  | .arr xs, ty, v, hi, ht, h => by
    have hi' : itemOkL xs = true := by simpa [itemOk] using hi
    cases ty with
    | dyn => exact unmarshalArrDyn_good xs v hi' h
    | list e =>
      simp only [D17.unmarshal] at h
      split at h
      · cases h; exact good_self ht rfl
      · rename_i hne
        obtain ⟨vs, hvs, hl⟩ := bind_ok h
        obtain ⟨hg, hlen⟩ := unmarshalAll_good xs e vs hi' ht.list hvs
        obtain ⟨e', he', rfl⟩ := map_ok hl
        have hne' : vs ≠ [] := by
          intro e0; subst e0
          cases xs <;> simp_all
        have := elemTy_good hne' hg he'
        simpa [Good, Ty.wf, Ty.matches, Ty.hasOpt] using this
    | set e =>
      simp only [D17.unmarshal] at h
      split at h
      · cases h; exact good_self ht rfl
      · rename_i hne
        obtain ⟨vs, hvs, hl⟩ := bind_ok h
        obtain ⟨hg, hlen⟩ := unmarshalAll_good xs e vs hi' ht.set hvs
        obtain ⟨e', he', h2⟩ := bind_ok hl
        obtain ⟨p, _, rfl⟩ := map_ok h2
        have hne' : vs ≠ [] := by
          intro e0; subst e0
          cases xs <;> simp_all
        have := elemTy_good hne' hg he'
        simpa [Good, Ty.wf, Ty.matches, Ty.hasOpt] using this
    | tuple es =>
      have htl : TOkL es := by simpa [TOk, TOkL, Ty.wf, Ty.hasOpt] using ht
      simp only [D17.unmarshal] at h
      split at h
      · cases h
      · rename_i hlen
        have hlen' : xs.length = es.length := by simpa using hlen
        split at h
        · rename_i hemp
          cases h
          have : es = [] := by cases xs <;> cases es <;> simp_all
          subst this
          simp [Good, Ty.wf, Ty.wfL, Ty.matches, Ty.matchesL, Ty.hasOpt, Ty.hasOptL]
        · obtain ⟨vs, hvs, rfl⟩ := map_ok h
          obtain ⟨i1, i2, i3⟩ := zipGood_types es vs (unmarshalZip_good xs es vs hi' htl hlen' hvs)
          simp [Good, tupleVal, Ty.wf, Ty.matches, Ty.hasOpt, i1, i2, i3]
    | bool | number | string | capsule _ | map _ | object _ _ _ => simp [D17.unmarshal] at h
  | .map ks vs, ty, v, hi, ht, h => by
    have hi' : ks.length = vs.length ∧ itemOkL vs = true := by simpa [itemOk] using hi
    cases ty with
    | map e =>
      simp only [D17.unmarshal] at h
      split at h
      · cases h; exact good_self ht rfl
      · rename_i hne
        obtain ⟨r, hr, hm⟩ := bind_ok h
        obtain ⟨hg, _, hnn⟩ := unmarshalEntries_good ks vs e [] [] r hi'.2 ht.map (by intro v hv; simp at hv) hr
        have hne' : r.2 ≠ [] := hnn (by cases ks <;> simp_all) (by cases ks <;> cases vs <;> simp_all)
        unfold mapVal at hm
        split at hm
        · cases hm
        · obtain ⟨e', he', rfl⟩ := map_ok hm
          have := elemTy_good hne' hg he'
          simpa [Good, Ty.wf, Ty.matches, Ty.hasOpt] using this
    | object ns ts os =>
      have htl : TOkL ts := by
        have := ht
        simp only [TOk, Ty.wf, Ty.hasOpt, Bool.and_eq_true, Bool.or_eq_false_iff] at this
        exact ⟨this.1.2, this.2.2⟩
      simp only [D17.unmarshal] at h
      split at h
      · cases h
      · rename_i hlen
        have hlen' : ks.length = ts.length := by simpa using hlen
        split at h
        · rename_i hemp
          cases h
          have hk : ks = [] := List.isEmpty_iff.mp hemp
          subst hk
          have hts : ts = [] := by
            cases ts with
            | nil => rfl
            | cons _ _ => simp at hlen'
          subst hts
          have hw := ht.1
          simp only [Ty.wf, Bool.and_eq_true, beq_iff_eq] at hw
          have hns : ns = [] := by
            cases ns with
            | nil => rfl
            | cons _ _ => have := hw.1.1.1; simp at this
          subst hns
          simp [Good, Ty.wf, Ty.wfL, Ty.matches, Ty.matchesL, Ty.hasOpt, Ty.hasOptL, Ty.strictAsc]
        · obtain ⟨r, hr, hm⟩ := bind_ok h
          obtain ⟨a1, a2, a3, a4⟩ := unmarshalAttrs_good ks vs ns ts os [] [] r hi'.2 htl (by simp [Ty.strictAsc])
            (by simp [Assoc]) hi'.1 hr
          unfold objectVal at hm
          split at hm
          · cases hm
          · cases hm
            exact object_good ht a1 a2 (by simpa [hlen'] using a3) (fun x hx => by
              rcases a4 x hx with h0 | h0
              · simp at h0
              · exact h0)
    | bool | number | string | capsule _ | dyn | list _ | set _ | tuple _ => simp [D17.unmarshal] at h
theorem unmarshalArrDyn_good : ∀ (xs : List Item) (v : Value), itemOkL xs = true →
    unmarshal E (.arr xs) .dyn = .ok v → Good .dyn v
  | [], _, _, h => by simp [D17.unmarshal] at h
  | [_], _, _, h => by simp [D17.unmarshal] at h
  | _ :: _ :: _ :: _, _, _, h => by simp [D17.unmarshal] at h
  | [tj, body], v, hi, h => by
    have hib : itemOk body = true := by simp [itemOkL] at hi; exact hi.2
    have hb := fun t ht => unmarshal_good body t v hib ht
    cases tj with
    | binj j =>
      simp only [D17.unmarshal] at h
      have hj := C17Json.ofJson_sat E.norm j
      cases hr : typeOfJson E j with
      | ok t =>
        rw [hr] at h; simp only [] at h
        have hwt : Ty.wf t = true := by
          unfold typeOfJson at hr
          split at hr
          · cases hr
          · rw [hr] at hj; exact hj.1
        have g := hb t.stripOpt ⟨JsonVal.wf_strip t hwt, Ty.stripOpt_noOpt t⟩ h
        exact ⟨g.1, by simp [Ty.matches], g.2.2⟩
      | err c => rw [hr] at h; cases h
      | panic w => rw [hr] at h; cases h
      | unmodelled => rw [hr] at h; cases h
    | _ => simp [D17.unmarshal] at h
theorem unmarshalAll_good : ∀ (xs : List Item) (e : Ty) (vs : List Value), itemOkL xs = true → TOk e →
    unmarshalAll E xs e = .ok vs → (∀ v ∈ vs, Good e v) ∧ vs.length = xs.length
  | [], _, vs, _, _, h => by simp [D17.unmarshalAll] at h; subst h; simp
  | x :: xs, e, vs, hi, ht, h => by
    have hi' : itemOk x = true ∧ itemOkL xs = true := by simpa [itemOkL] using hi
    simp only [D17.unmarshalAll] at h
    split at h
    · rename_i v hv
      obtain ⟨vs', hvs', rfl⟩ := map_ok h
      have g := unmarshal_good x e v hi'.1 ht hv
      obtain ⟨g2, l2⟩ := unmarshalAll_good xs e vs' hi'.2 ht hvs'
      refine ⟨?_, by simp [l2]⟩
      intro y hy
      rcases List.mem_cons.mp hy with rfl | hy
      · exact g
      · exact g2 y hy
    all_goals cases h
theorem unmarshalZip_good : ∀ (xs : List Item) (es : List Ty) (vs : List Value), itemOkL xs = true → TOkL es →
    xs.length = es.length → unmarshalZip E xs es = .ok vs → ZipGood es vs
  | [], [], vs, _, _, _, h => by simp [D17.unmarshalZip] at h; subst h; simp [ZipGood]
  | [], _ :: _, _, _, _, hl, _ => by simp at hl
  | _ :: _, [], _, _, _, hl, _ => by simp at hl
  | x :: xs, e :: es, vs, hi, ht, hl, h => by
    have hi' : itemOk x = true ∧ itemOkL xs = true := by simpa [itemOkL] using hi
    simp only [D17.unmarshalZip] at h
    split at h
    · rename_i v hv
      obtain ⟨vs', hvs', rfl⟩ := map_ok h
      exact ⟨unmarshal_good x e v hi'.1 ht.cons.1 hv,
        unmarshalZip_good xs es vs' hi'.2 ht.cons.2 (by simpa using hl) hvs'⟩
    all_goals cases h
theorem unmarshalEntries_good : ∀ (ks vs : List Item) (e : Ty) (accK : List String) (accV : List Value)
    (r : List String × List Value), itemOkL vs = true → TOk e → (∀ v ∈ accV, Good e v) →
    unmarshalEntries E ks vs e accK accV = .ok r →
    (∀ v ∈ r.2, Good e v) ∧ (accV ≠ [] → r.2 ≠ []) ∧ (ks ≠ [] → vs ≠ [] → r.2 ≠ [])
  | [], _, _, _, _, r, _, _, ha, h => by
    simp [D17.unmarshalEntries] at h; subst h; exact ⟨ha, id, fun h => absurd rfl h⟩
  | _ :: _, [], _, _, _, r, _, _, ha, h => by
    simp [D17.unmarshalEntries] at h; subst h; exact ⟨ha, id, fun _ h => absurd rfl h⟩
  | k :: ks, v :: vs, e, accK, accV, r, hi, ht, ha, h => by
    have hi' : itemOk v = true ∧ itemOkL vs = true := by simpa [itemOkL] using hi
    simp only [D17.unmarshalEntries] at h
    split at h
    · rename_i key _
      split at h
      · rename_i val hv
        have g := unmarshal_good v e val hi'.1 ht hv
        have hins := insertKV_vals key val accK accV
        obtain ⟨i1, i2, _⟩ := unmarshalEntries_good ks vs e _ _ r hi'.2 ht (by
          intro x hx
          rcases hins.2 x hx with rfl | hx
          · exact g
          · exact ha x hx) h
        exact ⟨i1, fun _ => i2 hins.1, fun _ _ => i2 hins.1⟩
      all_goals cases h
    all_goals cases h
theorem unmarshalAttrs_good : ∀ (ks vs : List Item) (ns : List String) (ts : List Ty) (os : List Bool)
    (accK : List String) (accV : List Value) (r : List String × List Value), itemOkL vs = true → TOkL ts →
    Ty.strictAsc accK = true → Assoc (AttrR ns ts os) accK accV → ks.length = vs.length →
    unmarshalAttrs E ks vs ns ts os accK accV = .ok r →
    Ty.strictAsc r.1 = true ∧ Assoc (AttrR ns ts os) r.1 r.2 ∧ r.1.length = accK.length + ks.length ∧
      (∀ x ∈ r.1, x ∈ accK ∨ x ∈ ns)
  | [], _, _, _, _, _, _, r, _, _, ha, hA, _, h => by
    simp [D17.unmarshalAttrs] at h; subst h; exact ⟨ha, hA, by simp, fun x hx => Or.inl hx⟩
  | _ :: _, [], _, _, _, _, _, _, _, _, _, _, hl, _ => by simp at hl
  | k :: ks, v :: vs, ns, ts, os, accK, accV, r, hi, ht, ha, hA, hl, h => by
    have hi' : itemOk v = true ∧ itemOkL vs = true := by simpa [itemOkL] using hi
    simp only [D17.unmarshalAttrs] at h
    split at h
    · rename_i key _
      split at h
      · cases h
      · rename_i aty o hf
        split at h
        · cases h
        · rename_i hc
          split at h
          · rename_i val hv
            have g := unmarshal_good v aty val hi'.1 (ht.mem aty (JsonVal.find_mem hf)) hv
            have hnot : key ∉ accK := by simpa using hc
            obtain ⟨j1, j2, j3, j4⟩ := insertKV_assoc (AttrR ns ts os) key val ⟨aty, o, hf, g⟩ accK accV hA ha hnot
            obtain ⟨i1, i2, i3, i4⟩ := unmarshalAttrs_good ks vs ns ts os _ _ r hi'.2 ht j1 j2 (by simpa using hl) h
            refine ⟨i1, i2, by simp [i3, j3]; omega, ?_⟩
            intro x hx
            rcases i4 x hx with h0 | h0
            · rcases j4 x h0 with rfl | h1
              · exact Or.inr (find_name_mem hf)
              · exact Or.inl h1
            · exact Or.inr h0
          all_goals cases h
    all_goals cases h
end

/-- the exported `Unmarshal`: the requested type is stripped of optional-attribute annotations first -/
theorem Unmarshal_good (it : Item) (ty : Ty) (v : Value) (hi : itemOk it = true) (hw : Ty.wf ty = true)
    (h : Unmarshal E it ty = .ok v) : Good ty v := by
  have g := unmarshal_good E it ty.stripOpt v hi ⟨JsonVal.wf_strip ty hw, Ty.stripOpt_noOpt ty⟩ h
  exact ⟨g.1, by rw [← JsonVal.matches_strip]; exact g.2.1, g.2.2⟩

end

end D17
end CtyModel
