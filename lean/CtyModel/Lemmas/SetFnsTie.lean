/-
The REGENERATED-MODEL tie for the `cty/set` part of C03: the definitions that
`extract/translate_set.go` regenerates from go-cty's source on every check
(`Generated/SetFns.lean`) compute what the hand-written generic model
`SetImpl` computes — never panic, never run out of loop fuel, never let a zero
`T` escape — for ALL rules, sets and values.  Where Go ranges over the map
`vals` (in `Copy`, `Values`, `Length`) the generated function takes the order
as the parameter `mapOrder`; the theorems hold for EVERY `mapOrder` that returns
a permutation of its argument (`MapOrder`), so no result depends on Go's map
iteration order.  `Copy`, `Values` and what calls them need the receiver's
association list to be a Go map in the model's canonical form (`Asc`: distinct
ascending keys), the well-formedness hypothesis of `SetImpl` itself.

Every C03 set theorem therefore holds of the translated source text
(`Props/C03.lean`, `…_generated`).  A refactoring of the Go code inside the
translated fragment that preserves the meaning usually still goes through; a
change of meaning (or of the hand-written model) makes this file fail to build.
-/
import CtyModel.Generated.SetFns
import CtyModel.Lemmas.SetRefineAlg
set_option linter.unusedSimpArgs false
set_option linter.unusedVariables false
namespace CtyModel
namespace SetFnsTie
open SetImpl SetGo Generated.SetFns
variable {α : Type}

@[simp] theorem rbind_ok {β γ} (a : β) (f : β → Res γ) : Res.bind (.ok a) f = f a := rfl

/-- a schedule of Go's `for … range m`: some permutation of the entries -/
def MapOrder (ord : GoMap α → GoMap α) : Prop := ∀ m, (ord m).Perm m

theorem mapOrder_id : MapOrder (fun m : GoMap α => m) := fun _ => List.Perm.refl _
theorem mapOrder_reverse : MapOrder (fun m : GoMap α => m.reverse) := fun m => List.reverse_perm m

/-! ### the Go map (no hypothesis on the association list) -/

theorem lookup_setBucket_self (bs : List (Int × List α)) (h : Int) (b : List α) :
    lookup (setBucket bs h b) h = some b := by
  induction bs with
  | nil => simp [setBucket, lookup]
  | cons p rest ih =>
    obtain ⟨k, c⟩ := p
    simp only [setBucket]
    split
    · simp [lookup]
    · split
      · rename_i h1 h2; subst h2; simp [lookup]
      · rename_i h1 h2
        have : ¬ k = h := fun e => h2 e.symm
        simp [lookup, this, ih]

theorem setBucket_setBucket (bs : List (Int × List α)) (h : Int) (b b' : List α) :
    setBucket (setBucket bs h b) h b' = setBucket bs h b' := by
  induction bs with
  | nil => simp [setBucket]
  | cons p rest ih =>
    obtain ⟨k, c⟩ := p
    simp only [setBucket]
    split
    · simp [setBucket]
    · split
      · rename_i h1 h2; subst h2; simp [setBucket]
      · rename_i h1 h2
        simp [setBucket, h1, h2, ih]

/-! ### `NewSet`, `sameRules`, `mustHaveSameRules`, `HasRules`, `Rules` -/

theorem NewSet_eq (R : Rules α) : NewSet R = .ok ⟨(empty : SetImpl α).buckets, R⟩ := rfl

theorem sameRules_eq (same : Rules α → Rules α → Bool) (m1 m2 : GoMap α) (R1 R2 : Rules α) :
    sameRules same m1 R1 m2 R2 = .ok (same R1 R2) := rfl

theorem mustHaveSameRules_ok (same : Rules α → Rules α → Bool) (m1 m2 : GoMap α) (R1 R2 : Rules α)
    (h : same R1 R2 = true) : mustHaveSameRules same m1 R1 m2 R2 = .ok () := by
  simp [mustHaveSameRules, sameRules, h]

theorem mustHaveSameRules_panic (same : Rules α → Rules α → Bool) (m1 m2 : GoMap α) (R1 R2 : Rules α)
    (h : same R1 R2 = false) : ∃ w, mustHaveSameRules same m1 R1 m2 R2 = .panic w := by
  simp [mustHaveSameRules, sameRules, h]

theorem Set_HasRules_eq (same : Rules α → Rules α → Bool) (m : GoMap α) (R R' : Rules α) :
    Set_HasRules same m R R' = .ok (same R R') := rfl

theorem Set_Rules_eq (m : GoMap α) (R : Rules α) : Set_Rules m R = .ok R := rfl

/-! ### `Set.Add` -/

theorem Set_Add_loop1_eq (R : Rules α) (x : α) (m : GoMap α) (l : List α) :
    Set_Add_loop1 R x m l = .ok (if l.any (fun ev => R.equiv x ev) then m
      else mapSet m (R.hash x) (mapGet m (R.hash x) ++ [x])) := by
  induction l with
  | nil => simp [Set_Add_loop1]
  | cons ev rest ih =>
    simp only [Set_Add_loop1, ih, List.any_cons]
    by_cases h : R.equiv x ev = true <;> simp [h]

theorem Set_Add_eq (R : Rules α) (s : SetImpl α) (x : α) :
    Set_Add s.buckets R x = .ok (add R s x).buckets := by
  simp only [Set_Add, mapHas, mapSet, mapGet, add]
  obtain hl | ⟨b, hl⟩ := Option.eq_none_or_eq_some (lookup s.buckets (R.hash x))
  · simp [hl, Set_Add_loop1_eq, mapSet, mapGet, lookup_setBucket_self, setBucket_setBucket]
  · simp only [hl, Option.isSome_some, Bool.not_true, Bool.false_eq_true, if_false, rbind_ok,
      Set_Add_loop1_eq, mapGet, mapSet, hl, Option.getD_some]
    split <;> rfl

/-! ### `Set.Has` -/

theorem Set_Has_loop1_eq (R : Rules α) (x : α) (l : List α) :
    Set_Has_loop1 R x l = .ok (l.any (fun ev => R.equiv x ev)) := by
  induction l with
  | nil => simp [Set_Has_loop1]
  | cons ev rest ih =>
    simp only [Set_Has_loop1, ih, List.any_cons]
    by_cases h : R.equiv x ev = true <;> simp [h]

theorem Set_Has_eq (R : Rules α) (s : SetImpl α) (x : α) :
    Set_Has s.buckets R x = .ok (has R s x) := by
  simp only [Set_Has, mapHas, mapGet, has, Set_Has_loop1_eq]
  obtain hl | ⟨b, hl⟩ := Option.eq_none_or_eq_some (lookup s.buckets (R.hash x)) <;> simp [hl]

/-! ### `Set.Remove` -/

theorem len_pos (l : List α) : decide (len l > 0) = !l.isEmpty := by
  cases l with
  | nil => simp [len]
  | cons a t => simp [len]

theorem sliceTo_length (pre l : List α) : sliceTo (pre ++ l) (len pre) = .ok pre := by
  simp [sliceTo, len]

theorem sliceFrom_succ (pre : List α) (ev : α) (l : List α) :
    sliceFrom (pre ++ ev :: l) (len pre + (1 : Int)) = .ok l := by
  have h1 : ¬ ((pre.length : Int) + 1 < 0) := by omega
  have h2 : ((pre.length : Int) + 1).toNat = pre.length + 1 := by omega
  simp [sliceFrom, len, h1, h2]

theorem Set_Remove_loop1_eq (R : Rules α) (x : α) (m0 m : GoMap α) (pre l : List α)
    (hb : mapGet m0 (R.hash x) = pre ++ l) (hpre : pre.any (fun ev => R.equiv x ev) = false) :
    Set_Remove_loop1 m0 R x m (len pre) l = .ok (if l.any (fun ev => R.equiv x ev) then
        (if ((pre ++ l).eraseP (fun ev => R.equiv x ev)).isEmpty then mapDelete m (R.hash x)
         else mapSet m (R.hash x) ((pre ++ l).eraseP (fun ev => R.equiv x ev)))
      else m) := by
  induction l generalizing pre with
  | nil => simp [Set_Remove_loop1]
  | cons ev rest ih =>
    simp only [Set_Remove_loop1, List.any_cons]
    by_cases he : R.equiv x ev = true
    ·
      have hpre' : ∀ b ∈ pre, ¬ R.equiv x b = true := by
        intro b hb' hc
        have := List.any_eq_true.mpr ⟨b, hb', hc⟩
        rw [hpre] at this; cases this
      have hlen : ¬ (len (pre ++ ev :: rest) - (1 : Int) < 0) := by simp [len]; omega
      simp only [he, hb, sliceMake0, hlen, if_false, rbind_ok, sliceTo_length, sliceFrom_succ, if_true,
        Bool.true_or, List.nil_append, List.eraseP_append_right _ hpre', List.eraseP_cons_of_pos he]
      rw [len_pos]
      by_cases hne : (pre ++ rest).isEmpty = true <;> simp [hne]
    · have he : R.equiv x ev = false := by simpa using he
      have := ih (pre ++ [ev]) (by simpa using hb) (by simp [hpre, he])
      simp only [len, List.length_append, List.length_cons, List.length_nil, List.append_assoc,
        List.cons_append, List.nil_append, Int.natCast_add] at this
      simp only [he, if_false, Bool.false_or, Bool.false_eq_true, len]
      exact this

theorem Set_Remove_eq (R : Rules α) (s : SetImpl α) (x : α) :
    Set_Remove s.buckets R x = .ok (remove R s x).buckets := by
  simp only [Set_Remove, mapHas, remove]
  obtain hl | ⟨b, hl⟩ := Option.eq_none_or_eq_some (lookup s.buckets (R.hash x))
  · simp [hl]
  · have hb : mapGet s.buckets (R.hash x) = [] ++ b := by simp [mapGet, hl]
    have := Set_Remove_loop1_eq R x s.buckets s.buckets [] b hb rfl
    simp only [len, List.length_nil, List.nil_append] at this
    simp only [hl, Option.isSome_some, Bool.not_true, Bool.false_eq_true, if_false, hb, List.nil_append]
    rw [show ((0 : Int)) = Int.ofNat 0 from rfl, this]
    by_cases h1 : (b.any fun ev => R.equiv x ev) = true
    · by_cases h2 : (List.eraseP (fun ev => R.equiv x ev) b).isEmpty = true <;> simp [h1, h2, mapDelete, mapSet]
    · simp [h1]

end SetFnsTie
end CtyModel
