/-
The REGENERATED-MODEL tie for the `cty/set` part of C03: the definitions that
`extract/translate_set.go` regenerates from go-cty's source on every check
(`Generated/SetFns.lean`) compute what the hand-written generic model
`SetImpl` computes — never panic, never run out of loop fuel, never let a zero
`T` escape — for ALL rules, sets and values.  Where Go ranges over the map
`vals` (in `Copy`, `Values`, `Length`) the generated function takes the order
as the parameter `mapOrder`; the theorems hold for EVERY `mapOrder` that returns
a permutation of its argument (`MapOrder`), so no result depends on Go's map
iteration order.  `Copy`, `Values` and what calls them need the receiver's
association list to be a Go map in the model's canonical form (`Asc`: distinct
ascending keys), the well-formedness hypothesis of `SetImpl` itself.

Every C03 set theorem therefore holds of the translated source text
(`Props/C03.lean`, `…_generated`).  A refactoring of the Go code inside the
translated fragment that preserves the meaning usually still goes through; a
change of meaning (or of the hand-written model) makes this file fail to build.
-/
import CtyModel.Generated.SetFns
import CtyModel.Lemmas.SetRefineAlg
set_option linter.unusedSimpArgs false
set_option linter.unusedVariables false
namespace CtyModel
namespace SetFnsTie
open SetImpl SetGo Generated.SetFns
variable {α : Type}

@[simp] theorem rbind_ok {β γ} (a : β) (f : β → Res γ) : Res.bind (.ok a) f = f a := rfl

/-- a schedule of Go's `for … range m`: some permutation of the entries -/
def MapOrder (ord : GoMap α → GoMap α) : Prop := ∀ m, (ord m).Perm m

theorem mapOrder_id : MapOrder (fun m : GoMap α => m) := fun _ => List.Perm.refl _
theorem mapOrder_reverse : MapOrder (fun m : GoMap α => m.reverse) := fun m => List.reverse_perm m

/-! ### the Go map (no hypothesis on the association list) -/

theorem lookup_setBucket_self (bs : List (Int × List α)) (h : Int) (b : List α) :
    lookup (setBucket bs h b) h = some b := by
  induction bs with
  | nil => simp [setBucket, lookup]
  | cons p rest ih =>
    obtain ⟨k, c⟩ := p
    simp only [setBucket]
    split
    · simp [lookup]
    · split
      · rename_i h1 h2; subst h2; simp [lookup]
      · rename_i h1 h2
        have : ¬ k = h := fun e => h2 e.symm
        simp [lookup, this, ih]

theorem setBucket_setBucket (bs : List (Int × List α)) (h : Int) (b b' : List α) :
    setBucket (setBucket bs h b) h b' = setBucket bs h b' := by
  induction bs with
  | nil => simp [setBucket]
  | cons p rest ih =>
    obtain ⟨k, c⟩ := p
    simp only [setBucket]
    split
    · simp [setBucket]
    · split
      · rename_i h1 h2; subst h2; simp [setBucket]
      · rename_i h1 h2
        simp [setBucket, h1, h2, ih]

/-! ### `NewSet`, `sameRules`, `mustHaveSameRules`, `HasRules`, `Rules` -/

theorem NewSet_eq (R : Rules α) : NewSet R = .ok ⟨(empty : SetImpl α).buckets, R⟩ := rfl

theorem sameRules_eq (same : Rules α → Rules α → Bool) (m1 m2 : GoMap α) (R1 R2 : Rules α) :
    sameRules same m1 R1 m2 R2 = .ok (same R1 R2) := rfl

theorem mustHaveSameRules_ok (same : Rules α → Rules α → Bool) (m1 m2 : GoMap α) (R1 R2 : Rules α)
    (h : same R1 R2 = true) : mustHaveSameRules same m1 R1 m2 R2 = .ok () := by
  simp [mustHaveSameRules, sameRules, h]

theorem mustHaveSameRules_panic (same : Rules α → Rules α → Bool) (m1 m2 : GoMap α) (R1 R2 : Rules α)
    (h : same R1 R2 = false) : ∃ w, mustHaveSameRules same m1 R1 m2 R2 = .panic w := by
  simp [mustHaveSameRules, sameRules, h]

theorem Set_HasRules_eq (same : Rules α → Rules α → Bool) (m : GoMap α) (R R' : Rules α) :
    Set_HasRules same m R R' = .ok (same R R') := rfl

theorem Set_Rules_eq (m : GoMap α) (R : Rules α) : Set_Rules m R = .ok R := rfl

/-! ### `Set.Add` -/

theorem Set_Add_loop1_eq (R : Rules α) (x : α) (m : GoMap α) (l : List α) :
    Set_Add_loop1 R x m l = .ok (if l.any (fun ev => R.equiv x ev) then m
      else mapSet m (R.hash x) (mapGet m (R.hash x) ++ [x])) := by
  induction l with
  | nil => simp [Set_Add_loop1]
  | cons ev rest ih =>
    simp only [Set_Add_loop1, ih, List.any_cons]
    by_cases h : R.equiv x ev = true <;> simp [h]

theorem Set_Add_eq (R : Rules α) (s : SetImpl α) (x : α) :
    Set_Add s.buckets R x = .ok (add R s x).buckets := by
  simp only [Set_Add, mapHas, mapSet, mapGet, add]
  obtain hl | ⟨b, hl⟩ := Option.eq_none_or_eq_some (lookup s.buckets (R.hash x))
  · simp [hl, Set_Add_loop1_eq, mapSet, mapGet, lookup_setBucket_self, setBucket_setBucket]
  · simp only [hl, Option.isSome_some, Bool.not_true, Bool.false_eq_true, if_false, rbind_ok,
      Set_Add_loop1_eq, mapGet, mapSet, hl, Option.getD_some]
    split <;> rfl

/-! ### `Set.Has` -/

theorem Set_Has_loop1_eq (R : Rules α) (x : α) (l : List α) :
    Set_Has_loop1 R x l = .ok (l.any (fun ev => R.equiv x ev)) := by
  induction l with
  | nil => simp [Set_Has_loop1]
  | cons ev rest ih =>
    simp only [Set_Has_loop1, ih, List.any_cons]
    by_cases h : R.equiv x ev = true <;> simp [h]

theorem Set_Has_eq (R : Rules α) (s : SetImpl α) (x : α) :
    Set_Has s.buckets R x = .ok (has R s x) := by
  simp only [Set_Has, mapHas, mapGet, has, Set_Has_loop1_eq]
  obtain hl | ⟨b, hl⟩ := Option.eq_none_or_eq_some (lookup s.buckets (R.hash x)) <;> simp [hl]

/-! ### `Set.Remove` -/

theorem len_pos (l : List α) : decide (len l > 0) = !l.isEmpty := by
  cases l with
  | nil => simp [len]
  | cons a t => simp [len]

theorem len_eq_zero (l : List α) : (len l == 0) = l.isEmpty := by
  cases l with
  | nil => simp [len]
  | cons a t => simp [len]; omega

theorem len_ne_zero (l : List α) : (len l != 0) = !l.isEmpty := by
  simp [bne, len_eq_zero]

theorem sliceTo_length (pre l : List α) : sliceTo (pre ++ l) (len pre) = .ok pre := by
  simp [sliceTo, len]

theorem sliceFrom_succ (pre : List α) (ev : α) (l : List α) :
    sliceFrom (pre ++ ev :: l) (len pre + (1 : Int)) = .ok l := by
  have h1 : ¬ ((pre.length : Int) + 1 < 0) := by omega
  have h2 : ((pre.length : Int) + 1).toNat = pre.length + 1 := by omega
  simp [sliceFrom, len, h1, h2]

theorem Set_Remove_loop1_eq (R : Rules α) (x : α) (m0 m : GoMap α) (pre l : List α)
    (hb : mapGet m0 (R.hash x) = pre ++ l) (hpre : pre.any (fun ev => R.equiv x ev) = false) :
    Set_Remove_loop1 m0 R x m (len pre) l = .ok (if l.any (fun ev => R.equiv x ev) then
        (if ((pre ++ l).eraseP (fun ev => R.equiv x ev)).isEmpty then mapDelete m (R.hash x)
         else mapSet m (R.hash x) ((pre ++ l).eraseP (fun ev => R.equiv x ev)))
      else m) := by
  induction l generalizing pre with
  | nil => simp [Set_Remove_loop1]
  | cons ev rest ih =>
    simp only [Set_Remove_loop1, List.any_cons]
    by_cases he : R.equiv x ev = true
    ·
      have hpre' : ∀ b ∈ pre, ¬ R.equiv x b = true := by
        intro b hb' hc
        have := List.any_eq_true.mpr ⟨b, hb', hc⟩
        rw [hpre] at this; cases this
      have hlen : ¬ (len (pre ++ ev :: rest) - (1 : Int) < 0) := by simp [len]; omega
      simp only [he, hb, sliceMake0, hlen, if_false, rbind_ok, sliceTo_length, sliceFrom_succ, if_true,
        Bool.true_or, List.nil_append, List.eraseP_append_right _ hpre', List.eraseP_cons_of_pos he]
      by_cases hne : (pre ++ rest).isEmpty = true <;> simp [hne, len_pos, len_eq_zero, len_ne_zero]
    · have he : R.equiv x ev = false := by simpa using he
      have := ih (pre ++ [ev]) (by simpa using hb) (by simp [hpre, he])
      simp only [len, List.length_append, List.length_cons, List.length_nil, List.append_assoc,
        List.cons_append, List.nil_append, Int.natCast_add] at this
      simp only [he, if_false, Bool.false_or, Bool.false_eq_true, len]
      exact this

theorem Set_Remove_eq (R : Rules α) (s : SetImpl α) (x : α) :
    Set_Remove s.buckets R x = .ok (remove R s x).buckets := by
  simp only [Set_Remove, mapHas, remove]
  obtain hl | ⟨b, hl⟩ := Option.eq_none_or_eq_some (lookup s.buckets (R.hash x))
  · simp [hl]
  · have hb : mapGet s.buckets (R.hash x) = [] ++ b := by simp [mapGet, hl]
    have := Set_Remove_loop1_eq R x s.buckets s.buckets [] b hb rfl
    simp only [len, List.length_nil, List.nil_append] at this
    simp only [hl, Option.isSome_some, Bool.not_true, Bool.false_eq_true, if_false, hb, List.nil_append]
    rw [show ((0 : Int)) = Int.ofNat 0 from rfl, this]
    by_cases h1 : (b.any fun ev => R.equiv x ev) = true
    · by_cases h2 : (List.eraseP (fun ev => R.equiv x ev) b).isEmpty = true <;> simp [h1, h2, mapDelete, mapSet]
    · simp [h1]

/-! ### `Set.Length` -/

theorem Set_Length_loop1_eq (c : Int) (l : List (Int × List α)) :
    Set_Length_loop1 c l = .ok (c + Int.ofNat (l.map (fun kv => kv.2.length)).sum) := by
  induction l generalizing c with
  | nil => simp [Set_Length_loop1]
  | cons p rest ih =>
    obtain ⟨k, b⟩ := p
    simp only [Set_Length_loop1, ih, len, List.map_cons, List.sum_cons]
    congr 1
    simp only [Int.ofNat_eq_natCast, Int.natCast_add]
    omega

theorem length_eq_sum (s : SetImpl α) : length s = (s.buckets.map (fun kv => kv.2.length)).sum := by
  have : ∀ (l : List (Int × List α)) (c : Nat),
      l.foldl (fun count kv => count + kv.2.length) c = c + (l.map (fun kv => kv.2.length)).sum := by
    intro l
    induction l with
    | nil => simp
    | cons p rest ih => intro c; simp [ih]; omega
  simp [length, this]

/-- `Length` does not depend on the order in which Go's `range` visits the buckets. -/
theorem Set_Length_eq (ord : GoMap α → GoMap α) (ho : MapOrder ord) (R : Rules α) (s : SetImpl α) :
    Set_Length ord s.buckets R = .ok (Int.ofNat (length s)) := by
  simp only [Set_Length, Set_Length_loop1_eq, length_eq_sum]
  rw [((ho s.buckets).map _).sum_nat]
  simp

/-! ### `Set.Copy` -/

theorem sliceDone_map_some (v : List α) : sliceDone (v.map some) = .ok v := by
  induction v with
  | nil => rfl
  | cons a t ih => simp [sliceDone, ih]

theorem sliceCopy_fresh (v : List α) : sliceCopy (List.replicate v.length none) v = v.map some := by
  simp [sliceCopy]

theorem Set_Copy_loop1_eq (x : GoSet α) (acc : GoMap α) (l : List (Int × List α)) :
    Set_Copy_loop1 x acc l = .ok ⟨l.foldl (fun acc kv => setBucket acc kv.1 kv.2) acc, x.rules⟩ := by
  induction l generalizing acc with
  | nil => simp [Set_Copy_loop1]
  | cons p rest ih =>
    obtain ⟨k, b⟩ := p
    have h0 : ¬ ((b.length : Int) < 0) := by omega
    have h1 : (b.length : Int).toNat = b.length := by omega
    simp only [Set_Copy_loop1, sliceMakeN, len, Int.ofNat_eq_natCast, h0, h1, if_false, rbind_ok,
      sliceCopy_fresh, sliceDone_map_some, ih, mapSet, List.foldl_cons]

theorem asc_ext {a b : List (Int × List α)} (ha : Asc a) (hb : Asc b) (h : ∀ p, p ∈ a ↔ p ∈ b) : a = b := by
  have na : a.Nodup := ha.imp (fun {x y} hxy e => by subst e; omega)
  have nb : b.Nodup := hb.imp (fun {x y} hxy e => by subst e; omega)
  have hp : a.Perm b := (List.perm_ext_iff_of_nodup na nb).mpr h
  have ha' : a.Pairwise (fun x y => x.1 < y.1) := ha
  have hb' : b.Pairwise (fun x y => x.1 < y.1) := hb
  exact List.Perm.eq_of_pairwise (le := fun x y => x.1 < y.1) (fun x y _ _ h1 h2 => by omega) ha' hb' hp

/-- assigning the entries of a map with distinct keys into a map that has none of those keys: the result is
ascending and holds exactly the old and the new entries, whatever the order of assignment -/
theorem foldl_setBucket_mem (l : List (Int × List α)) :
    ∀ (acc : List (Int × List α)), Asc acc → l.Pairwise (fun a b => a.1 ≠ b.1) →
      (∀ p ∈ l, ∀ q ∈ acc, p.1 ≠ q.1) →
      Asc (l.foldl (fun acc kv => setBucket acc kv.1 kv.2) acc) ∧
      ∀ p, p ∈ l.foldl (fun acc kv => setBucket acc kv.1 kv.2) acc ↔ p ∈ acc ∨ p ∈ l := by
  induction l with
  | nil => intro acc ha _ _; simp [ha]
  | cons e rest ih =>
    intro acc ha hd hdis
    have ⟨he, hrest⟩ := List.pairwise_cons.mp hd
    have ha' := asc_setBucket ha e.1 e.2
    have hmem := mem_setBucket ha e.1 e.2
    have := ih (setBucket acc e.1 e.2) ha' hrest (by
      intro p hp q hq
      rcases (hmem q).mp hq with rfl | ⟨hq, _⟩
      · exact fun h => he p hp h.symm
      · exact hdis p (List.mem_cons_of_mem _ hp) q hq)
    refine ⟨this.1, fun p => ?_⟩
    rw [List.foldl_cons, this.2 p, hmem p]
    constructor
    · rintro ((rfl | ⟨hp, _⟩) | hp)
      · exact Or.inr (by simp)
      · exact Or.inl hp
      · exact Or.inr (List.mem_cons_of_mem _ hp)
    · rintro (hp | hp)
      · exact Or.inl (Or.inr ⟨hp, fun h => hdis e (by simp) p hp h.symm⟩)
      · rcases List.mem_cons.mp hp with rfl | hp
        · exact Or.inl (Or.inl rfl)
        · exact Or.inr hp

theorem asc_keys_ne {m : List (Int × List α)} (ha : Asc m) : m.Pairwise (fun a b => a.1 ≠ b.1) :=
  ha.imp (fun {x y} hxy => by omega)

theorem foldl_setBucket_perm {m l : List (Int × List α)} (ha : Asc m) (hp : l.Perm m) :
    l.foldl (fun acc kv => setBucket acc kv.1 kv.2) [] = m := by
  have hd : l.Pairwise (fun a b => a.1 ≠ b.1) :=
    (List.Perm.pairwise_iff (fun {a b} h => Ne.symm h) hp.symm).mp (asc_keys_ne ha)
  have := foldl_setBucket_mem l [] asc_nil hd (by simp)
  exact asc_ext this.1 ha (fun p => by rw [this.2 p]; simp [hp.mem_iff])

/-- `Copy` returns the model's copy whatever order Go's `range` visits the buckets in. -/
theorem Set_Copy_eq (ord : GoMap α → GoMap α) (ho : MapOrder ord) (R : Rules α) (s : SetImpl α)
    (ha : Asc s.buckets) : Set_Copy ord s.buckets R = .ok ⟨(copy s).buckets, R⟩ := by
  simp only [Set_Copy, NewSet, rbind_ok, Set_Copy_loop1_eq, mapEmpty, foldl_setBucket_perm ha (ho s.buckets),
    copy_eq ha]

/-! ### `Set.Values`, `Set.Iterator` -/

/-- the tail of `Values`: `sort.SliceStable` by `Less` iff the rules are `OrderedRules` -/
def finish (R : Rules α) (l : List α) : List α :=
  match R.less with
  | none => l
  | some less => sortStable less l

theorem Set_Values_loop2_eq (m : GoMap α) (R : Rules α) (acc : List α) (ids : List Int) :
    Set_Values_loop2 m R acc ids = .ok (finish R (acc ++ ids.flatMap (mapGet m))) := by
  induction ids generalizing acc with
  | nil =>
    obtain hl | ⟨f, hl⟩ := Option.eq_none_or_eq_some R.less <;>
      simp [Set_Values_loop2, finish, hl, sortSliceStable]
  | cons k rest ih => simp [Set_Values_loop2, ih]

theorem Set_Values_loop1_eq (m : GoMap α) (R : Rules α) (ids : List Int) (l : List (Int × List α)) :
    Set_Values_loop1 m R ids l = Set_Values_loop2 m R [] (sortInts (ids ++ l.map Prod.fst)) := by
  induction l generalizing ids with
  | nil => simp [Set_Values_loop1]
  | cons p rest ih =>
    obtain ⟨k, b⟩ := p
    simp [Set_Values_loop1, ih]

/-- `sort.Ints` of the keys collected in any order is the ascending key list -/
theorem sortInts_keys {m l : List (Int × List α)} (ha : Asc m) (hp : l.Perm m) :
    sortInts (l.map Prod.fst) = m.map Prod.fst := by
  have hk : (l.map Prod.fst).Perm (m.map Prod.fst) := hp.map _
  have hs : (m.map Prod.fst).Pairwise (fun a b => a < b) := by
    have : m.Pairwise (fun x y => x.1 < y.1) := ha
    exact List.pairwise_map.mpr this
  have hne : (l.map Prod.fst).Pairwise (fun a b => decide (a < b) = true ∨ decide (b < a) = true) := by
    refine (List.Perm.pairwise_iff (fun {a b} h => h.symm) hk.symm).mp (hs.imp ?_)
    intro a b h; simp; omega
  have hst : StrictTotalOnList (fun a b : Int => decide (a < b)) (l.map Prod.fst) :=
    ⟨fun a _ => by simp, fun a _ b _ c _ => by simp; omega, hne⟩
  have h1 := sortStable_sorted _ _ hst
  have h2 : (sortStable (fun a b : Int => decide (a < b)) (l.map Prod.fst)).Perm (m.map Prod.fst) :=
    (sortStable_perm _ _).trans hk
  refine List.Perm.eq_of_pairwise (le := fun a b : Int => a < b) (fun a b _ _ h1 h2 => by omega) ?_ hs h2
  exact h1.imp (fun {a b} h => by simpa using h)

theorem flatMap_mapGet {m : List (Int × List α)} (ha : Asc m) :
    ∀ l : List (Int × List α), (∀ p ∈ l, p ∈ m) → (l.map Prod.fst).flatMap (mapGet m) = l.flatMap (fun kv => kv.2)
  | [], _ => rfl
  | (k, b) :: rest, h => by
    have := flatMap_mapGet ha rest (fun p hp => h p (List.mem_cons_of_mem _ hp))
    have hl : lookup m k = some b := lookup_of_mem ha (h (k, b) (by simp))
    simp [mapGet, hl, this]

/-- `Values()` is the model's iteration order whatever order Go's `range` visits the buckets in. -/
theorem Set_Values_eq (ord : GoMap α → GoMap α) (ho : MapOrder ord) (R : Rules α) (s : SetImpl α)
    (ha : Asc s.buckets) : Set_Values ord s.buckets R = .ok (iter R s) := by
  have h0 : ¬ (mapLen s.buckets < 0) := by simp [mapLen]
  simp only [Set_Values, sliceMake0, h0, if_false, rbind_ok, Set_Values_loop1_eq, List.nil_append,
    sortInts_keys ha (ho s.buckets), Set_Values_loop2_eq, flatMap_mapGet ha s.buckets (fun _ h => h)]
  obtain hl | ⟨f, hl⟩ := Option.eq_none_or_eq_some R.less <;> simp [finish, iter, hl, values, valuesSorted]

theorem Set_Iterator_eq (ord : GoMap α → GoMap α) (ho : MapOrder ord) (R : Rules α) (s : SetImpl α)
    (ha : Asc s.buckets) : Set_Iterator ord s.buckets R = .ok ⟨iter R s, -1⟩ := by
  simp [Set_Iterator, Set_Values_eq ord ho R s ha]

theorem Iterator_Value_eq (vals : List α) (i : Int) : Iterator_Value vals i = sliceGet vals i := by
  simp only [Iterator_Value]
  cases sliceGet vals i <;> rfl

theorem Iterator_Next_eq (vals : List α) (i : Int) :
    Iterator_Next vals i = .ok (i + 1, decide (i + 1 < len vals)) := rfl

/-! ### `Set.EachValue` -/

/-- calling a callback on every element of a list in turn, threading its state -/
def foldRes {σ : Type} (cb : σ → α → Res σ) : σ → List α → Res σ
  | st, [] => .ok st
  | st, a :: l => (cb st a).bind fun st' => foldRes cb st' l

theorem foldRes_ok {σ : Type} (cb : σ → α → Res σ) (f : σ → α → σ) (h : ∀ st a, cb st a = .ok (f st a)) :
    ∀ (l : List α) (st : σ), foldRes cb st l = .ok (l.foldl f st)
  | [], st => rfl
  | a :: l, st => by simp [foldRes, h, foldRes_ok cb f h l]

theorem sliceGet_length (pre : List α) (a : α) (l : List α) : sliceGet (pre ++ a :: l) (len pre) = .ok a := by
  have h0 : ¬ ((pre.length : Int) < 0) := by omega
  simp [sliceGet, len, h0]

/-- the iterator loop visits the remaining elements in order and never runs out of fuel -/
theorem Set_EachValue_loop1_eq {σ : Type} (cb : σ → α → Res σ) (i0 : Int) :
    ∀ (l pre : List α) (fuel : Nat) (st : σ), l.length < fuel →
      Set_EachValue_loop1 cb ⟨pre ++ l, i0⟩ fuel st (len pre - 1) = foldRes cb st l
  | [], pre, fuel + 1, st, _ => by
    simp [Set_EachValue_loop1, Iterator_Next_eq, foldRes, len]
  | a :: l, pre, fuel + 1, st, h => by
    have hlt : (pre.length : Int) < (pre.length : Int) + ((l.length : Int) + 1) := by omega
    have ih := Set_EachValue_loop1_eq cb i0 l (pre ++ [a]) fuel
    simp only [List.append_assoc, List.cons_append, List.nil_append, len, List.length_append, List.length_cons,
      List.length_nil, Int.ofNat_eq_natCast, Int.natCast_add, Int.natCast_one, Int.natCast_zero, Int.zero_add,
      Int.add_sub_cancel] at ih
    simp only [Set_EachValue_loop1, Iterator_Next_eq, rbind_ok, Iterator_Value_eq, len, List.length_append,
      List.length_cons, Int.ofNat_eq_natCast, Int.natCast_add, Int.natCast_one, Int.sub_add_cancel, hlt, decide_true,
      if_true, foldRes]
    have hg := sliceGet_length pre a l
    simp only [len, Int.ofNat_eq_natCast] at hg
    rw [hg, rbind_ok]
    congr 1
    funext st'
    exact ih st' (by simp at h; omega)

/-- `EachValue` calls the callback on the members in the model's iteration order -/
theorem Set_EachValue_eq {σ : Type} (ord : GoMap α → GoMap α) (ho : MapOrder ord) (R : Rules α) (s : SetImpl α)
    (ha : Asc s.buckets) (cb : σ → α → Res σ) (st : σ) :
    Set_EachValue ord s.buckets R cb st = foldRes cb st (iter R s) := by
  simp only [Set_EachValue, Set_Iterator_eq ord ho R s ha, rbind_ok]
  have := Set_EachValue_loop1_eq cb (-1) (iter R s) [] (Int.toNat (len (iter R s) + 1)) st (by simp [len])
  simpa [len] using this

/-! ### `NewSetFromSlice` and the set algebra -/

theorem addWhere_buckets (R : Rules α) (p : α → Bool) (l : List α) : ∀ rs : SetImpl α,
    (addWhere R p rs l).buckets =
      l.foldl (fun b v => if p v then (add R ⟨b⟩ v).buckets else b) rs.buckets := by
  induction l with
  | nil => intro rs; rfl
  | cons v rest ih =>
    intro rs
    rw [addWhere_cons, ih]
    by_cases h : p v = true <;> simp [h]

theorem NewSetFromSlice_loop1_eq (x : GoSet α) (m : GoMap α) (l : List α) :
    NewSetFromSlice_loop1 x m l = .ok ⟨(addWhere x.rules (fun _ => true) ⟨m⟩ l).buckets, x.rules⟩ := by
  induction l generalizing m with
  | nil => simp [NewSetFromSlice_loop1, addWhere]
  | cons v rest ih =>
    have := Set_Add_eq x.rules ⟨m⟩ v
    simp only at this
    simp [NewSetFromSlice_loop1, this, ih, addWhere_cons]

theorem NewSetFromSlice_eq (R : Rules α) (l : List α) :
    NewSetFromSlice R l = .ok ⟨(fromList R l).buckets, R⟩ := by
  simp [NewSetFromSlice, NewSet, NewSetFromSlice_loop1_eq, fromList, mapEmpty, empty]

/-- `s.EachValue(func(v T) { if p(v) { rs.Add(v) } })` for a callback that is, as a state transformer on the map of
`rs`, the model's conditional `add` -/
theorem eachValue_addWhere (ord : GoMap α → GoMap α) (ho : MapOrder ord) (R : Rules α) (s : SetImpl α)
    (ha : Asc s.buckets) (p : α → Bool) (cb : GoMap α → α → Res (GoMap α))
    (hcb : ∀ b v, cb b v = .ok (if p v then (add R ⟨b⟩ v).buckets else b)) (rs : SetImpl α) :
    Set_EachValue ord s.buckets R cb rs.buckets = .ok (addWhere R p rs (iter R s)).buckets := by
  rw [Set_EachValue_eq ord ho R s ha, foldRes_ok cb _ hcb, addWhere_buckets]

/-- discharges "the function literal is the model's conditional add" whatever way the literal is written -/
macro "cb_tac" R:term "," s:term : tactic =>
  `(tactic| (intro b v; have hadd := Set_Add_eq $R ⟨b⟩ v; simp only at hadd
             by_cases h : has $R $s v = true <;> simp [Set_Has_eq, hadd, h]))

variable (same : Rules α → Rules α → Bool) (ord : GoMap α → GoMap α) (ho : MapOrder ord) (R : Rules α)
  (s1 s2 : SetImpl α) (h1 : Asc s1.buckets) (h2 : Asc s2.buckets) (hs : same R R = true)
include ho h1 h2 hs

theorem Set_Union_eq :
    Set_Union same ord s1.buckets R s2.buckets R = .ok ⟨(union R s1 s2).buckets, R⟩ := by
  simp only [Set_Union, mustHaveSameRules_ok same _ _ R R hs, NewSet, rbind_ok, mapEmpty]
  rw [eachValue_addWhere ord ho R s1 h1 (fun _ => true) _ ?_ ⟨[]⟩, rbind_ok,
    eachValue_addWhere ord ho R s2 h2 (fun _ => true) _ ?_, rbind_ok]
  · rfl
  all_goals cb_tac R, s1

omit h2 in
theorem Set_Intersection_eq :
    Set_Intersection same ord s1.buckets R s2.buckets R = .ok ⟨(intersection R s1 s2).buckets, R⟩ := by
  simp only [Set_Intersection, mustHaveSameRules_ok same _ _ R R hs, NewSet, rbind_ok, mapEmpty]
  rw [eachValue_addWhere ord ho R s1 h1 (fun v => has R s2 v) _ ?_ ⟨[]⟩, rbind_ok]
  · rfl
  all_goals cb_tac R, s2

omit h2 in
theorem Set_Subtract_eq :
    Set_Subtract same ord s1.buckets R s2.buckets R = .ok ⟨(subtract R s1 s2).buckets, R⟩ := by
  simp only [Set_Subtract, mustHaveSameRules_ok same _ _ R R hs, NewSet, rbind_ok, mapEmpty]
  rw [eachValue_addWhere ord ho R s1 h1 (fun v => !has R s2 v) _ ?_ ⟨[]⟩, rbind_ok]
  · rfl
  all_goals cb_tac R, s2

theorem Set_SymmetricDifference_eq :
    Set_SymmetricDifference same ord s1.buckets R s2.buckets R =
      .ok ⟨(symmetricDifference R s1 s2).buckets, R⟩ := by
  simp only [Set_SymmetricDifference, mustHaveSameRules_ok same _ _ R R hs, NewSet, rbind_ok, mapEmpty]
  rw [eachValue_addWhere ord ho R s1 h1 (fun v => !has R s2 v) _ ?_ ⟨[]⟩, rbind_ok,
    eachValue_addWhere ord ho R s2 h2 (fun v => !has R s1 v) _ ?_, rbind_ok]
  · rfl
  · cb_tac R, s1
  · cb_tac R, s2

omit ho h1 h2 hs in
/-- with incompatible rules all four panic (the branch `SetImpl` leaves out: it shares one `Rules` by construction) -/
theorem algebra_panics (R1 R2 : Rules α) (m1 m2 : GoMap α) (hne : same R1 R2 = false) :
    (∃ w, Set_Union same ord m1 R1 m2 R2 = .panic w) ∧ (∃ w, Set_Intersection same ord m1 R1 m2 R2 = .panic w) ∧
    (∃ w, Set_Subtract same ord m1 R1 m2 R2 = .panic w) ∧
    (∃ w, Set_SymmetricDifference same ord m1 R1 m2 R2 = .panic w) := by
  obtain ⟨w, hw⟩ := mustHaveSameRules_panic same m1 m2 R1 R2 hne
  refine ⟨⟨w, ?_⟩, ⟨w, ?_⟩, ⟨w, ?_⟩, ⟨w, ?_⟩⟩ <;>
    simp [Set_Union, Set_Intersection, Set_Subtract, Set_SymmetricDifference, hw, NewSet, Res.bind]

end SetFnsTie
end CtyModel
