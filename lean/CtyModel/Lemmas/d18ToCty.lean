/-
d18: `ToCtyValue` never panics on a Go value that holds no NaN — whatever the Go value and
whatever the wanted cty type (conforming or not).  (NaN itself: `big.Float.SetFloat64` panics,
which the model reproduces; the property excludes NaN.)
-/
import CtyModel.Lemmas.GoctyRT
namespace CtyModel
namespace Gocty

/-! `noNaN norm g`: no NaN anywhere in `g`, and the keys of every Go map are NFC (for keys that are
not, `cty.MapVal` re-keys the map and the model re-sorts its members; not needed for the claim) -/
mutual
def noNaN (norm : String → String) : GoVal → Bool
  | .nan => false
  | .slice vs | .arr vs | .struct _ vs => noNaNL norm vs
  | .map ks vs => ks.map norm == ks && noNaNL norm vs
  | .ptr v => noNaN norm v
  | _ => true
def noNaNL (norm : String → String) : List GoVal → Bool
  | [] => true
  | v :: vs => noNaN norm v && noNaNL norm vs
end

theorem seqAll_ok_length {α} : ∀ (rs : List (Res α)) (xs : List α), seqAll rs = .ok xs → xs.length = rs.length
  | [], xs, h => by simp only [seqAll, Res.ok.injEq] at h; subst h; rfl
  | r :: rs, xs, h => by
    cases r with
    | ok a =>
      simp only [seqAll] at h
      cases hs : seqAll rs with
      | ok as =>
        rw [hs] at h; simp only [Res.ok.injEq] at h; subst h
        simp [seqAll_ok_length rs as hs]
      | err c => rw [hs] at h; cases h
      | panic w => rw [hs] at h; cases h
      | unmodelled => rw [hs] at h; cases h
    | err c => simp [seqAll] at h
    | panic w => simp [seqAll] at h
    | unmodelled => simp [seqAll] at h

theorem combAll_ok_length {α} (rs : List (Res α)) (xs : List α) (h : combAll rs = .ok xs) : xs.length = rs.length := by
  have := combAll_ok_inv rs xs h
  rw [this]; simp

theorem elemTypeOf_isPanic_or_ok : ∀ (ws : List Value) (acc : Ty),
    (∃ t, elemTypeOf acc ws = .ok t) ∨ ∃ w, elemTypeOf acc ws = .panic w
  | [], acc => Or.inl ⟨acc, rfl⟩
  | v :: ws, acc => by
    simp only [elemTypeOf]
    split
    · exact elemTypeOf_isPanic_or_ok ws _
    · split
      · exact Or.inr ⟨_, rfl⟩
      · exact elemTypeOf_isPanic_or_ok ws _

theorem listVal_isPanic (ws : List Value) (hne : ws ≠ []) (hc : canListVal ws = true) : (listVal ws).isPanic = false := by
  unfold listVal
  have : ws.isEmpty = false := by cases ws <;> simp_all
  simp only [this, Bool.false_eq_true, if_false]
  unfold canListVal at hc
  rcases elemTypeOf_isPanic_or_ok ws .dyn with ⟨t, ht⟩ | ⟨w, hw⟩
  · rw [ht]; rfl
  · rw [hw] at hc; simp at hc

theorem mapVal_isPanic (ks : List String) (ws : List Value) (hne : ws ≠ []) (hc : canListVal ws = true) :
    (mapVal ks ws).isPanic = false := by
  unfold mapVal
  have : ws.isEmpty = false := by cases ws <;> simp_all
  simp only [this, Bool.false_eq_true, if_false]
  unfold canListVal at hc
  rcases elemTypeOf_isPanic_or_ok ws .dyn with ⟨t, ht⟩ | ⟨w, hw⟩
  · rw [ht]; rfl
  · rw [hw] at hc; simp at hc

theorem lookupKey_mem {α} {k : String} {x : α} : ∀ {ks : List String} {xs : List α}, lookupKey k ks xs = some x → x ∈ xs
  | [], _, h => by simp [lookupKey] at h
  | _ :: _, [], h => by simp [lookupKey] at h
  | n :: ns, y :: ys, h => by
    simp only [lookupKey] at h
    split at h
    · cases h; simp
    · exact List.mem_cons_of_mem _ (lookupKey_mem h)

theorem attrResults_noPanic (ks : List String) (rs : List (Res Value)) (h : anyPanic rs = false) :
    ∀ (names : List String) (atys : List Ty), anyPanic (attrResults names atys ks rs) = false
  | [], _ => by simp [attrResults, anyPanic]
  | _ :: _, [] => by simp [attrResults, anyPanic]
  | k :: names, aty :: atys => by
    simp only [attrResults, anyPanic_cons, attrResults_noPanic ks rs h names atys, Bool.or_false]
    cases hl : lookupKey k ks rs with
    | none => rfl
    | some r => exact (anyPanic_false_iff rs).mp h r (lookupKey_mem hl)

theorem toCtyL_length (norm : String → String) (ety : Ty) : ∀ (vs : List GoVal), (toCtyL norm vs ety).length = vs.length
  | [] => rfl
  | v :: vs => by simp [toCtyL, toCtyL_length norm ety vs]

theorem ne_nil_of_length {α β} {xs : List α} {ys : List β} (h : xs.length = ys.length) (hy : ys.isEmpty = false) : xs ≠ [] := by
  intro e; subst e; cases ys <;> simp_all

mutual
theorem toCtyG_noPanic (norm : String → String) : ∀ (g : GoVal) (pass : Bool) (ty : Ty), noNaN norm g = true →
    (toCtyG norm pass g ty).isPanic = false
  | .nilPtr, pass, ty, _ => by simp [toCtyG, Res.isPanic]
  | .ptr v, pass, ty, h => by
    simp only [noNaN] at h
    simp only [toCtyG]; exact toCtyG_noPanic norm v false ty h
  | .cvalNil, pass, ty, _ => by simp [toCtyG, Res.isPanic]
  | .cval v, pass, ty, _ => by
    simp only [toCtyG]
    split
    · unfold passthrough; split; · rfl
      split <;> rfl
    · split <;> first | rfl | (split <;> rfl)
  | .int v, pass, ty, _ => by simp only [toCtyG]; split <;> rfl
  | .flt x, pass, ty, _ => by simp only [toCtyG]; split <;> rfl
  | .nan, pass, ty, h => by simp [noNaN] at h
  | .str s, pass, ty, _ => by simp only [toCtyG]; split <;> rfl
  | .bool b, pass, ty, _ => by simp only [toCtyG]; split <;> rfl
  | .bigInt v, pass, ty, _ => by simp only [toCtyG]; split <;> first | rfl | (split <;> rfl)
  | .bigFloat x, pass, ty, _ => by simp only [toCtyG]; split <;> first | rfl | (split <;> rfl)
  | .nilSlice, pass, ty, _ => by simp only [toCtyG]; split <;> rfl
  | .nilMap, pass, ty, _ => by simp only [toCtyG]; split <;> rfl
  | .slice vs, pass, ty, h => by
    simp only [noNaN] at h
    simp only [toCtyG]
    split
    · -- list
      rename_i ety
      split; · rfl
      rename_i hne
      have hp := seqAll_isPanic _ (toCtyL_noPanic norm vs ety h)
      cases hs : seqAll (toCtyL norm vs ety) with
      | ok ws =>
        simp only []
        split; · rfl
        rename_i hc
        have hl := seqAll_ok_length _ _ hs
        rw [toCtyL_length] at hl
        exact listVal_isPanic ws (ne_nil_of_length hl (by simpa using hne)) (by simpa using hc)
      | err c => rfl
      | panic w => rw [hs] at hp; simp [Res.isPanic] at hp
      | unmodelled => rfl
    · split <;> rfl
    · rename_i etys
      split; · rfl
      have hp := seqAll_isPanic _ (toCtyZ_noPanic norm vs etys h)
      cases hs : seqAll (toCtyZ norm vs etys) with
      | ok ws => rfl
      | err c => rfl
      | panic w => rw [hs] at hp; simp [Res.isPanic] at hp
      | unmodelled => rfl
    · rfl
    · rfl
  | .arr vs, pass, ty, h => by
    simp only [noNaN] at h
    simp only [toCtyG]
    split
    · rename_i ety
      split; · rfl
      rename_i hne
      have hp := seqAll_isPanic _ (toCtyL_noPanic norm vs ety h)
      cases hs : seqAll (toCtyL norm vs ety) with
      | ok ws =>
        simp only []
        split; · rfl
        rename_i hc
        have hl := seqAll_ok_length _ _ hs
        rw [toCtyL_length] at hl
        exact listVal_isPanic ws (ne_nil_of_length hl (by simpa using hne)) (by simpa using hc)
      | err c => rfl
      | panic w => rw [hs] at hp; simp [Res.isPanic] at hp
      | unmodelled => rfl
    · split <;> rfl
    · rfl
    · rfl
  | .map ks vs, pass, ty, h => by
    simp only [noNaN, Bool.and_eq_true, beq_iff_eq] at h
    simp only [toCtyG]
    split
    · rename_i ety
      split; · rfl
      rename_i hne
      have hp := combAll_isPanic _ (toCtyL_noPanic norm vs ety h.2)
      cases hs : combAll (toCtyL norm vs ety) with
      | ok ws =>
        simp only []
        split; · rfl
        rename_i hc
        have hl := combAll_ok_length _ _ hs
        rw [toCtyL_length] at hl
        simp only [h.1, bne_self_eq_false, Bool.false_eq_true, if_false]
        exact mapVal_isPanic ks ws (ne_nil_of_length hl (by simpa using hne)) (by simpa using hc)
      | err c => rfl
      | panic w => rw [hs] at hp; simp [Res.isPanic] at hp
      | unmodelled => rfl
    · rename_i names atys opt
      split; · rfl
      have hp := combAll_isPanic _ (attrResults_noPanic ks _ (toCtyM_noPanic norm ks vs names atys h.2) names atys)
      cases hs : combAll (attrResults names atys ks (toCtyM norm ks vs names atys)) with
      | ok ws => rfl
      | err c => rfl
      | panic w => rw [hs] at hp; simp [Res.isPanic] at hp
      | unmodelled => rfl
    · rfl
    · rfl
  | .struct tags vs, pass, ty, h => by
    simp only [noNaN] at h
    simp only [toCtyG]
    split
    · rename_i names atys opt
      split; · rfl
      have hp := combAll_isPanic _ (attrResults_noPanic (taggedNames (effTags tags)) _
        (toCtyF_noPanic norm (effTags tags) vs names atys h) names atys)
      cases hs : combAll (attrResults names atys (taggedNames (effTags tags)) (toCtyF norm (effTags tags) vs names atys)) with
      | ok ws => rfl
      | err c => rfl
      | panic w => rw [hs] at hp; simp [Res.isPanic] at hp
      | unmodelled => rfl
    · rename_i etys
      split; · rfl
      have hp := seqAll_isPanic _ (toCtyZ_noPanic norm vs etys h)
      cases hs : seqAll (toCtyZ norm vs etys) with
      | ok ws => rfl
      | err c => rfl
      | panic w => rw [hs] at hp; simp [Res.isPanic] at hp
      | unmodelled => rfl
    · rfl
    · rfl
theorem toCtyL_noPanic (norm : String → String) : ∀ (vs : List GoVal) (ety : Ty), noNaNL norm vs = true →
    anyPanic (toCtyL norm vs ety) = false
  | [], _, _ => rfl
  | v :: vs, ety, h => by
    simp only [noNaNL, Bool.and_eq_true] at h
    simp only [toCtyL, anyPanic_cons, toCtyG_noPanic norm v true ety h.1, toCtyL_noPanic norm vs ety h.2, Bool.or_false]
theorem toCtyZ_noPanic (norm : String → String) : ∀ (vs : List GoVal) (etys : List Ty), noNaNL norm vs = true →
    anyPanic (toCtyZ norm vs etys) = false
  | [], _, _ => by simp [toCtyZ, anyPanic]
  | _ :: _, [], _ => by simp [toCtyZ, anyPanic]
  | v :: vs, ety :: etys, h => by
    simp only [noNaNL, Bool.and_eq_true] at h
    simp only [toCtyZ, anyPanic_cons, toCtyG_noPanic norm v true ety h.1, toCtyZ_noPanic norm vs etys h.2, Bool.or_false]
theorem toCtyM_noPanic (norm : String → String) : ∀ (ks : List String) (vs : List GoVal) (names : List String) (atys : List Ty),
    noNaNL norm vs = true → anyPanic (toCtyM norm ks vs names atys) = false
  | [], _, _, _, _ => by simp [toCtyM, anyPanic]
  | _ :: _, [], _, _, _ => by simp [toCtyM, anyPanic]
  | k :: ks, v :: vs, names, atys, h => by
    simp only [noNaNL, Bool.and_eq_true] at h
    simp only [toCtyM, anyPanic_cons, toCtyM_noPanic norm ks vs names atys h.2, Bool.or_false]
    split
    · exact toCtyG_noPanic norm v true _ h.1
    · rfl
theorem toCtyF_noPanic (norm : String → String) : ∀ (tags : List String) (vs : List GoVal) (names : List String) (atys : List Ty),
    noNaNL norm vs = true → anyPanic (toCtyF norm tags vs names atys) = false
  | [], _, _, _, _ => by simp [toCtyF, anyPanic]
  | _ :: _, [], _, _, _ => by simp [toCtyF, anyPanic]
  | t :: tags, v :: vs, names, atys, h => by
    simp only [noNaNL, Bool.and_eq_true] at h
    simp only [toCtyF]
    split
    · exact toCtyF_noPanic norm tags vs names atys h.2
    · simp only [anyPanic_cons, toCtyF_noPanic norm tags vs names atys h.2, Bool.or_false]
      split
      · exact toCtyG_noPanic norm v true _ h.1
      · rfl
end

end Gocty
end CtyModel
