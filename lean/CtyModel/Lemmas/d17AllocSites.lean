/- d17: what the `make(` calls of the two wire decoders are sized by.

`Generated.decoderAllocSites` is re-read from /repo/cty/msgpack/*.go and /repo/cty/json/*.go on every
check (extract/allocs.go): one row per `make(` call, with the provenance of its length and capacity.
The extractor stops with an error on an expression it cannot classify, so the statements below are
about every `make(` of the two packages as the source stands now. -/
import CtyModel.Generated.DecoderAllocs
namespace CtyModel.D17Sites
open CtyModel.Generated

/-- a site one of whose two sizes has the given provenance -/
def siteHas (s : AllocSite) (a : AllocSize) : Bool := s.len == a || s.cap == a

/-- number of sites of `file` one of whose sizes is `.clamped` -/
def clampedIn (file : String) : Nat :=
  (decoderAllocSites.filter (fun s => s.file == file && siteHas s .clamped)).length

/-- No `make(` call of cty/msgpack or cty/json takes its length or its capacity from an integer that
the input merely announces (`x := dec.DecodeArrayLen()`, `DecodeMapLen`, `DecodeExtHeader`, …). -/
theorem no_raw_header_capacity :
    decoderAllocSites.all (fun s => s.len != .rawHeader && s.cap != .rawHeader) = true := by decide

/-- Where the msgpack decoder does size an allocation by an announced length, the length is clamped:
the five collection decoders of unmarshal.go and impliedTupleType go through `allocHint`, the two
reads of an unknown-value extension body stand under a guard on `extLen`; cty/json sizes nothing by
its input.  A new decoder `make(` site changes one of these numbers. -/
theorem decoder_sites_listed :
    clampedIn "cty/msgpack/unmarshal.go" = 5 ∧
    clampedIn "cty/msgpack/type_implied.go" = 1 ∧
    clampedIn "cty/msgpack/unknown.go" = 2 ∧
    (decoderAllocSites.filter (siteHas · .clamped)).length = 8 ∧
    decoderAllocSites.length = 14 := by decide

/-- every size in the table is a literal, a length of in-memory data, a clamp, or absent -/
theorem sizes_are_bounded :
    decoderAllocSites.all (fun s =>
      [s.len, s.cap].all (fun a => match a with
        | .const _ | .lenOfData | .clamped | .none => true
        | .rawHeader => false)) = true := by decide

end CtyModel.D17Sites
