/- Lemmas for the `format` model (C14): width / precision on cluster lists, argument lookup. -/
import CtyModel.Stdlib.Format
import CtyModel.Stdlib.NumberSpec
namespace CtyModel
namespace StdNum

theorem padWidth_none (clusters : String → List String) (v : Verb) (s : String) (h : v.hasWidth = false) :
    padWidth clusters v s = s := by
  simp [padWidth, h]

theorem padWidth_wide (clusters : String → List String) (v : Verb) (s : String) (h : v.hasWidth = true)
    (hw : (clusters s).length ≥ v.width) : padWidth clusters v s = s := by
  simp [padWidth, h, hw]

theorem padWidth_pads (clusters : String → List String) (v : Verb) (s : String) (h : v.hasWidth = true)
    (hw : (clusters s).length < v.width) :
    padWidth clusters v s =
      (let pads := String.ofList (List.replicate (v.width - (clusters s).length) (if v.zero && !v.minus then '0' else ' '))
       if v.minus then s ++ pads else pads ++ s) := by
  have : ¬ (clusters s).length ≥ v.width := by omega
  simp [padWidth, h, this]

theorem precCut_has (clusters : String → List String) (v : Verb) (s : String) (h : v.hasPrec = true) :
    precCut clusters v s = String.join ((clusters s).take v.prec) := by
  simp [precCut, h]

theorem formatAppend_missing (L : Lib) (v : Verb) (args : List Value) (h : args.length < v.argNum) :
    formatAppend L v args = .err "not enough arguments" := by
  have : args[v.argNum - 1]? = none := by
    apply List.getElem?_eq_none; omega
  have h0 : (v.argNum == 0) = false := by simp; omega
  simp [formatAppend, this, h0]

end StdNum
end CtyModel
