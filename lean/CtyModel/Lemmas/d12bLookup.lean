/-
C12 / d12b: `lookup` on a MAP end to end (collection.go LookupFunc): a map that is not wholly known gives
the unknown of the element type; a wholly known map is the concrete map itself, and what remains weakened
is the default value, which is returned (converted to the element type) only when the key is absent.
-/
import CtyModel.Lemmas.d12bSort
namespace CtyModel
namespace D12b
open Fn Stdlib C12L Cov

/-- `convert.Convert(d, t)` as the stdlib calls it, on a weakening known at the top of the same type -/
theorem convertTo_sound (E : Env) (hE : EnvConvertSound E) {o w : Value} (t : Ty) (hty : w.ty = o.ty)
    (hc : CoversX w o = true) {r : Value} (h : convertTo E o t = .ok r) :
    ∃ r', convertTo E w t = .ok r' ∧ r'.ty = r.ty ∧ Covers r' r = true := by
  unfold convertTo at h ⊢
  rw [hty]
  split at h
  · rename_i heq
    simp only [heq, if_true]
    cases h
    exact ⟨w, rfl, hty, coversX_covers hc⟩
  · rename_i heq
    simp only [heq, if_false]
    exact hE o w t r hc hty h

theorem ite_branch {c : Bool} {A B B' : Res Value} {P : Value → Value → Prop} {r : Value}
    (h : (if c = true then A else B) = .ok r) (hA : P r r) (hB : B = .ok r → ∃ x', B' = .ok x' ∧ P x' r) :
    ∃ r', (if c = true then A else B') = .ok r' ∧ P r' r := by
  cases c
  · simp only [Bool.false_eq_true, if_false] at h ⊢
    exact hB h
  · simp only [if_true] at h ⊢
    exact ⟨r, h, hA⟩

theorem lookupType_map (E : Env) {m k d : Value} {e : Ty} (hm : m.ty = .map e) :
    lookupType E [m, k, d] = (match convertTo E d e with
      | .ok _ => .ok e
      | .err _ => .err "the default value must have the same type as the map elements"
      | r => Res.cast r) := by
  simp only [lookupType, hm]
  cases convertTo E d e <;> rfl

theorem lookupType_map_mono (E : Env) (hE : EnvConvertSound E) {om wm k od wd : Value} {e : Ty}
    (hm : om.ty = .map e) (htm : wm.ty = om.ty) (htd : wd.ty = od.ty) (hcd : CoversX wd od = true) :
    TypeMonoAt (lookupType E) [om, k, od] [wm, k, wd] := by
  intro t ht
  rw [lookupType_map E hm] at ht
  rw [lookupType_map E (htm.trans hm)]
  cases hcv : convertTo E od e with
  | ok r =>
    rw [hcv] at ht
    simp only [Res.ok.injEq] at ht
    subst ht
    obtain ⟨r', h1, _, _⟩ := convertTo_sound E hE e htd hcd hcv
    rw [h1]
    exact ⟨e, rfl, fun _ hc => hc⟩
  | err c => rw [hcv] at ht; cases ht
  | panic c => rw [hcv] at ht; simp [Res.cast] at ht
  | unmodelled => rw [hcv] at ht; simp [Res.cast] at ht

/-- **`lookup(map, key, default)`** at the level of the callback -/
theorem lookup_map_implSound (E : Env) (hE : EnvConvertSound E) (om wm k od wd : Value) {e : Ty}
    (hm : om.ty = .map e) (htm : wm.ty = om.ty) (htd : wd.ty = od.ty)
    (hmom : om.containsMarked = false) (hmwm : wm.containsMarked = false) (hmk : k.containsMarked = false)
    (hs : noSet wm.v = true) (hcm : CoversX wm om = true) (hcd : CoversX wd od = true) :
    ImplSoundAt (lookupType E) (lookupImpl E) [om, k, od] [wm, k, wd] := by
  intro rt rt' r ho hw hio hconf hwf' hrwf hrefl
  have hmono := lookupType_map_mono E hE (k := k) hm htm htd hcd
  -- both predictions are the element type
  have hrt : rt = e := by
    rw [lookupType_map E hm] at ho
    cases hcv : convertTo E od e <;> rw [hcv] at ho <;> simp [Res.cast] at ho
    exact ho.symm
  have hrt' : rt' = e := by
    rw [lookupType_map E (htm.trans hm)] at hw
    cases hcv : convertTo E wd e <;> rw [hcv] at hw <;> simp [Res.cast] at hw
    exact hw.symm
  subst hrt hrt'
  obtain ⟨huw, hmsw⟩ := clean_unmark hmwm
  obtain ⟨huo, hmso⟩ := clean_unmark hmom
  obtain ⟨huk, hmsk⟩ := clean_unmark hmk
  simp only [lookupImpl, huw, hmsw, huo, hmso, huk, hmsk, List.length_nil, Nat.lt_irrefl, if_false,
    List.append_nil, gt_iff_lt] at hio ⊢
  cases hks : asString k with
  | ok key =>
    rw [hks] at hio
    simp only at hio ⊢
    by_cases hkw : wm.whollyKnown = true
    · have := coversX_wk_eq htm hmwm hmom hkw hs hcm
      subst this
      simp only [hkw, Bool.not_true, Bool.false_eq_true, if_false] at hio ⊢
      rw [hm] at hio ⊢
      simp only at hio ⊢
      cases hhi : Value.hasIndex wm (strVal key) with
      | ok h =>
        rw [hhi] at hio
        simp only at hio ⊢
        refine ite_branch (P := fun x' x => Ty.conformErrs rt' x'.ty = 0 ∧ Covers x' x = true) hio ⟨hconf, hrefl⟩ ?_
        intro hx
        obtain ⟨c, hc1, rfl⟩ := res_map_ok hx
        obtain ⟨c', h1, h2, h3⟩ := convertTo_sound E hE rt' htd hcd hc1
        rw [h1]
        refine ⟨_, rfl, ?_, ?_⟩
        · show Ty.conformErrs rt' (Stdlib.withMarkSets c' [[]]).ty = 0
          rw [withMarkSets_nil1', withMarks_ty, h2]
          rw [withMarkSets_nil1', withMarks_ty] at hconf
          exact hconf
        · show Covers (Stdlib.withMarkSets c' [[]]) (Stdlib.withMarkSets c [[]]) = true
          rw [withMarkSets_nil1', withMarkSets_nil1', covers_withMarks_left, covers_withMarks_right]
          exact h3
      | err c => rw [hhi] at hio; simp [Res.cast] at hio
      | panic c => rw [hhi] at hio; simp [Res.cast] at hio
      | unmodelled => rw [hhi] at hio; simp [Res.cast] at hio
    · have hkw' : wm.whollyKnown = false := by simpa using hkw
      simp only [hkw', Bool.not_false, if_true]
      refine ⟨_, rfl, ?_, ?_⟩
      · rw [withMarkSets_nil1']
        exact (Ty.conform_iff rt' rt' hwf' hwf').mpr (Ty.matches_refl rt')
      · rw [withMarkSets_nil1', covers_withMarks_left]
        exact unknown_covers_of_matches rt' r ((Ty.conform_iff rt' r.ty hwf' hrwf).mp hconf)
  | err c => rw [hks] at hio; simp [Res.cast] at hio
  | panic c => rw [hks] at hio; simp [Res.cast] at hio
  | unmodelled => rw [hks] at hio; simp [Res.cast] at hio

/-- parameters that do not say `AllowDynamicType`: weakenings that pass the checks kept their types -/
theorem firstFail_none_tyKeptS : ∀ (ps : List Param) (ws os : List Value), firstFail ps ws = none →
    ps.length = ws.length → (∀ p ∈ ps, p.allowDynamic = false) → TyKept ws os → TyKeptS ws os
  | _, [], [], _, _, _, _ => trivial
  | _, [], _ :: _, _, _, _, h => by cases h
  | _, _ :: _, [], _, _, _, h => by cases h
  | [], _ :: _, _ :: _, _, hl, _, _ => by simp at hl
  | p :: ps, w :: ws, o :: os, hf, hl, hd, hk => by
    simp only [firstFail] at hf
    cases hc : p.check w with
    | some f => rw [hc] at hf; simp at hf
    | none =>
      rw [hc] at hf
      simp only [Option.map_eq_none_iff] at hf
      refine ⟨?_, firstFail_none_tyKeptS ps ws os hf (by simpa using hl) (fun q hq => hd q (by simp [hq])) hk.2⟩
      rcases hk.1 with h' | h'
      · exact h'
      · exfalso
        unfold Param.check at hc
        split at hc
        · cases hc
        · simp [h', hd p (by simp)] at hc

/-- parameters that do not say `AllowUnknown`: weakenings that reach `Impl` are known -/
theorem pass2_all_known : ∀ (ps : List Param) (ws : List Value), (pass2 ps ws).unknown = false →
    ps.length = ws.length → (∀ p ∈ ps, p.allowUnknown = false) → ∀ w ∈ ws, w.isKnown = true
  | _, [], _, _, _ => by simp
  | [], _ :: _, _, hl, _ => by simp at hl
  | p :: ps, w :: ws, hu, hl, hd => by
    simp only [pass2, Bool.or_eq_false_iff, Param.blocksUnknown, hd p (by simp), Bool.not_false, Bool.and_true] at hu
    intro a ha
    simp only [List.mem_cons] at ha
    rcases ha with rfl | ha
    · simpa using hu.1
    · exact pass2_all_known ps ws hu.2 (by simpa using hl) (fun q hq => hd q (by simp [hq])) a ha

end D12b
end CtyModel
