/-
C09 / d09b — the FULL model on placeholder-free, well-formed, annotation-free input types
(`plainTy`): the unified type is plain again, and so is the target of every step of every
returned conversion (`stepTargets`: the result type, and the intermediate list / map type of the
closures composed by unifyTuplesAsList / unifyObjectsAsMaps) — for every environment whose
`unify` keeps plain types plain (`PlainPres`; proved of `unifyTy` in d09bPlainTy).  These are
the side conditions `plainTy t` / `∀ m ∈ stepTargets c, plainTy m` of the applied-conversion
theorems of Props/C09, which therefore hold unconditionally for plain inputs.
-/
import CtyModel.Lemmas.d09bPlainTy
import CtyModel.Lemmas.d09bTotal
namespace CtyModel
namespace Unify
open Convert Ty

/-- every step of every conversion in the slice converts to a plain type -/
def AllT (cs : Convs) : Prop := ∀ c', some c' ∈ cs → ∀ m ∈ stepTargets c', plainTy m = true

/-- what a (sub-)unifier answers on plain types -/
def PlainOut (r : Res UOut) : Prop := ∀ t cs, r = .ok (some (t, cs)) → plainTy t = true ∧ AllT cs

theorem AllT_nil : AllT [] := by intro c' h; simp at h

theorem AllT_cons {c : Option UConv} {cs : Convs} (hc : ∀ c', c = some c' → ∀ m ∈ stepTargets c', plainTy m = true)
    (hcs : AllT cs) : AllT (c :: cs) := by
  intro c' h m hm
  rcases List.mem_cons.mp h with e | h
  · exact hc c' e.symm m hm
  · exact hcs c' h m hm

theorem AllT_set {cs : Convs} (hcs : AllT cs) (i : Nat) {x : Option UConv}
    (hx : ∀ c', x = some c' → ∀ m ∈ stepTargets c', plainTy m = true) : AllT (cs.set i x) := by
  intro c' h m hm
  rcases List.mem_or_eq_of_mem_set h with h | e
  · exact hcs c' h m hm
  · exact hx c' e.symm m hm

theorem AllT_none_map {α} (l : List α) : AllT (l.map fun _ => none) := by
  intro c' h; simp at h

theorem targets_getConv {E : Env} {a b : Ty} {uns : Bool} {p : Plan} (h : getConv E a b uns = some p) :
    stepTargets (.plan p) = [b] := by
  obtain ⟨k, _, rfl⟩ := Option.map_eq_some_iff.mp h
  rfl

theorem mapRes_mem {α β} (f : α → Res β) : ∀ (l : List α) (r : List β), mapRes f l = .ok r →
    ∀ b ∈ r, ∃ a ∈ l, f a = .ok b
  | [], r, h => by simp [mapRes] at h; subst h; simp
  | x :: xs, r, h => by
    simp only [mapRes] at h
    obtain ⟨b, hb, h⟩ := Res.bind_eq_ok h
    obtain ⟨bs, hbs, h⟩ := Res.bind_eq_ok h
    simp at h; subst h
    intro y hy
    rcases List.mem_cons.mp hy with rfl | hy
    · exact ⟨x, by simp, hb⟩
    · obtain ⟨a, ha, hfa⟩ := mapRes_mem f xs bs hbs y hy
      exact ⟨a, List.mem_cons_of_mem _ ha, hfa⟩

theorem idxR_mem {α} {xs : List α} {i : Nat} {x : α} (h : idxR xs i = .ok x) : x ∈ xs := by
  simp only [idxR] at h
  split at h
  · rename_i y hy
    simp only [Res.ok.injEq] at h; subst h
    exact List.mem_of_getElem? hy
  · simp at h

theorem find_mem (k : String) : ∀ (ns : List String) (ts : List Ty) (os : List Bool) (t : Ty) (o : Bool),
    Ty.find k ns ts os = some (t, o) → t ∈ ts
  | [], _, _, _, _, h => by simp [Ty.find] at h
  | _ :: _, [], _, _, _, h => by simp [Ty.find] at h
  | _ :: _, _ :: _, [], _, _, h => by simp [Ty.find] at h
  | n :: ns, t' :: ts, o' :: os, t, o, h => by
    simp only [Ty.find] at h
    split at h
    · simp only [Option.some.injEq, Prod.mk.injEq] at h; simp [h.1]
    · exact List.mem_cons_of_mem _ (find_mem k ns ts os t o h)

section
variable {E : Env} {uns : Bool}

theorem unifyG_plain (hE : PlainPres E.unify) {L : List Ty} {t : Ty} (hL : ∀ x ∈ L, plainTy x = true)
    (h : E.unifyG uns L = some t) : plainTy t = true := by
  simp only [Env.unifyG] at h
  split at h
  · simp at h
  · exact hE uns L t hL h

theorem convLoop_AllT {retTy : Ty} (hr : plainTy retTy = true) : ∀ (ts : List Ty) (cs : Convs),
    convLoop E uns retTy ts = some cs → AllT cs
  | [], cs, h => by simp [convLoop] at h; subst h; exact AllT_nil
  | t :: ts, cs, h => by
    simp only [convLoop] at h
    split at h
    · obtain ⟨cs', hcs', rfl⟩ := Option.map_eq_some_iff.mp h
      exact AllT_cons (by intro c' e; simp at e) (convLoop_AllT hr ts cs' hcs')
    · split at h
      · simp at h
      · rename_i p hp
        obtain ⟨cs', hcs', rfl⟩ := Option.map_eq_some_iff.mp h
        refine AllT_cons ?_ (convLoop_AllT hr ts cs' hcs')
        intro c' e m hm
        simp only [Option.some.injEq] at e; subst e
        rw [targets_getConv hp] at hm
        simp at hm; subst hm; exact hr

/-- the tail shared by the `unify…Types` functions: `retTy` with the slice of the conversion loop -/
theorem loopOut_plain {retTy : Ty} (hr : plainTy retTy = true) (types : List Ty) :
    PlainOut (match convLoop E uns retTy types with
      | none => .ok none
      | some cs => .ok (some (retTy, cs))) := by
  intro t cs h
  split at h
  · simp at h
  · rename_i cs' hcs'
    simp only [Res.ok.injEq, Option.some.injEq, Prod.mk.injEq] at h
    obtain ⟨rfl, rfl⟩ := h
    exact ⟨hr, convLoop_AllT hr _ _ hcs'⟩

theorem plain_of_elementType {x e : Ty} (hx : plainTy x = true) (h : elementType x = .ok e) : plainTy e = true := by
  cases x <;> simp [elementType] at h <;> subst h <;> simpa [plain_list, plain_set, plain_map] using hx

theorem collectionTypes_plain (hE : PlainPres E.unify) {mk : Ty → Ty} (hmk : ∀ e, plainTy (mk e) = plainTy e)
    {types : List Ty} (hp : ∀ x ∈ types, plainTy x = true) :
    PlainOut (collectionTypes E uns mk types false) := by
  intro t cs h
  simp only [collectionTypes, Bool.false_eq_true, if_false] at h
  obtain ⟨es, hes, h⟩ := Res.bind_eq_ok h
  split at h
  · simp at h
  · rename_i e he
    have hpe : plainTy (mk e) = true := by
      rw [hmk]
      refine unifyG_plain hE ?_ he
      intro y hy
      obtain ⟨x, hx, hxy⟩ := mapRes_mem _ _ _ hes y hy
      exact plain_of_elementType (hp x hx) hxy
    exact loopOut_plain hpe types t cs h

theorem plain_of_attrTysR {x : Ty} {ts : List Ty} (hx : plainTy x = true) (h : attrTysR x = .ok ts) :
    ∀ y ∈ ts, plainTy y = true := by
  cases x <;> simp [attrTysR] at h
  subst h
  exact ((plain_object_iff _ _ _).mp hx).2

theorem plain_of_tupleEtysR {x : Ty} {ts : List Ty} (hx : plainTy x = true) (h : tupleEtysR x = .ok ts) :
    ∀ y ∈ ts, plainTy y = true := by
  cases x <;> simp [tupleEtysR] at h
  subst h
  exact (plain_tuple_iff _).mp hx

theorem objectTypesToMap_plain (hE : PlainPres E.unify) {types : List Ty} (hp : ∀ x ∈ types, plainTy x = true) :
    PlainOut (objectTypesToMap E uns types) := by
  intro t cs h
  simp only [objectTypesToMap] at h
  obtain ⟨ess, hes, h⟩ := Res.bind_eq_ok h
  split at h
  · simp at h
  · rename_i e he
    have hpe : plainTy (.map e) = true := by
      rw [plain_map]
      refine unifyG_plain hE ?_ he
      intro y hy
      obtain ⟨l, hl, hyl⟩ := List.mem_flatten.mp hy
      obtain ⟨x, hx, hxl⟩ := mapRes_mem _ _ _ hes l hl
      exact plain_of_attrTysR (hp x hx) hxl y hyl
    exact loopOut_plain hpe types t cs h

theorem tupleTypesToList_plain (hE : PlainPres E.unify) {types : List Ty} (hp : ∀ x ∈ types, plainTy x = true) :
    PlainOut (tupleTypesToList E uns types) := by
  intro t cs h
  simp only [tupleTypesToList] at h
  obtain ⟨ess, hes, h⟩ := Res.bind_eq_ok h
  split at h
  · simp at h
  · rename_i e he
    have hpe : plainTy (.list e) = true := by
      rw [plain_list]
      refine unifyG_plain hE ?_ he
      intro y hy
      obtain ⟨l, hl, hyl⟩ := List.mem_flatten.mp hy
      obtain ⟨x, hx, hxl⟩ := mapRes_mem _ _ _ hes l hl
      exact plain_of_tupleEtysR (hp x hx) hxl y hyl
    exact loopOut_plain hpe types t cs h

theorem unifyColumns_plain (hE : PlainPres E.unify) : ∀ (cols : List (List Ty)) (atys : List Ty),
    unifyColumns E uns cols = some atys → (∀ col ∈ cols, ∀ x ∈ col, plainTy x = true) →
    atys.length = cols.length ∧ ∀ a ∈ atys, plainTy a = true
  | [], atys, h, _ => by simp [unifyColumns] at h; subst h; simp
  | col :: cols, atys, h, hc => by
    simp only [unifyColumns] at h
    split at h
    · simp at h
    · rename_i t hg
      obtain ⟨rest, hr, rfl⟩ := Option.map_eq_some_iff.mp h
      have ih := unifyColumns_plain hE cols rest hr (fun c hcm => hc c (List.mem_cons_of_mem _ hcm))
      refine ⟨by simp [ih.1], ?_⟩
      intro a ha
      rcases List.mem_cons.mp ha with rfl | ha
      · exact unifyG_plain hE (hc col (by simp)) hg
      · exact ih.2 a ha

theorem attrColumn_plain {name : String} {types col : List Ty} (hp : ∀ x ∈ types, plainTy x = true)
    (h : attrColumn name types = .ok col) : ∀ y ∈ col, plainTy y = true := by
  intro y hy
  obtain ⟨x, hx, hxy⟩ := mapRes_mem _ _ _ h y hy
  have hpx := hp x hx
  split at hxy
  · rename_i ns ts os
    split at hxy
    · rename_i t o hf
      simp only [Res.ok.injEq] at hxy; subst hxy
      exact ((plain_object_iff _ _ _).mp hpx).2 _ (find_mem _ _ _ _ _ _ hf)
    · simp at hxy
  · simp at hxy

theorem tupleColumn_plain {idx : Nat} {types col : List Ty} (hp : ∀ x ∈ types, plainTy x = true)
    (h : tupleColumn idx types = .ok col) : ∀ y ∈ col, plainTy y = true := by
  intro y hy
  obtain ⟨x, hx, hxy⟩ := mapRes_mem _ _ _ h y hy
  obtain ⟨es, hes, hxy⟩ := Res.bind_eq_ok hxy
  exact plain_of_tupleEtysR (hp x hx) hes y (idxR_mem hxy)

theorem objectTypes_plain (hE : PlainPres E.unify) {types : List Ty} (hp : ∀ x ∈ types, plainTy x = true) :
    PlainOut (objectTypes E uns types false) := by
  intro t cs h
  simp only [objectTypes, Bool.false_eq_true, if_false] at h
  obtain ⟨first, hfirst, h⟩ := Res.bind_eq_ok h
  obtain ⟨names, hnames, h⟩ := Res.bind_eq_ok h
  obtain ⟨same, _, h⟩ := Res.bind_eq_ok h
  split at h
  · exact objectTypesToMap_plain hE hp t cs h
  · obtain ⟨cols, hcols, h⟩ := Res.bind_eq_ok h
    split at h
    · simp at h
    · rename_i atys hat
      have hpf := hp first (idxR_mem hfirst)
      have hasc : strictAsc names = true := by
        cases first <;> simp [attrNamesR] at hnames
        subst hnames
        exact ((plain_object_iff _ _ _).mp hpf).1.2.2.1
      have hc := unifyColumns_plain hE cols atys hat (by
        intro col hcol
        obtain ⟨name, _, hn⟩ := mapRes_mem _ _ _ hcols col hcol
        exact attrColumn_plain hp hn)
      have hlen := mapRes_length _ _ _ hcols
      have hret : plainTy (.object names atys (atys.map fun _ => false)) = true :=
        (plain_object_iff _ _ _).mpr ⟨⟨by omega, by simp, hasc, by simp⟩, hc.2⟩
      split at h
      · exact objectTypesToMap_plain hE hp t cs h
      · rename_i cs' hcs'
        simp only [Res.ok.injEq, Option.some.injEq, Prod.mk.injEq] at h
        obtain ⟨rfl, rfl⟩ := h
        exact ⟨hret, convLoop_AllT hret _ _ hcs'⟩

theorem tupleTypes_plain (hE : PlainPres E.unify) {types : List Ty} (hp : ∀ x ∈ types, plainTy x = true) :
    PlainOut (tupleTypes E uns types false) := by
  intro t cs h
  simp only [tupleTypes, Bool.false_eq_true, if_false] at h
  obtain ⟨first, _, h⟩ := Res.bind_eq_ok h
  obtain ⟨etys0, _, h⟩ := Res.bind_eq_ok h
  obtain ⟨same, _, h⟩ := Res.bind_eq_ok h
  split at h
  · exact tupleTypesToList_plain hE hp t cs h
  · obtain ⟨cols, hcols, h⟩ := Res.bind_eq_ok h
    split at h
    · simp at h
    · rename_i etys hat
      have hc := unifyColumns_plain hE cols etys hat (by
        intro col hcol
        obtain ⟨idx, _, hn⟩ := mapRes_mem _ _ _ hcols col hcol
        exact tupleColumn_plain hp hn)
      have hret : plainTy (.tuple etys) = true := (plain_tuple_iff _).mpr hc.2
      split at h
      · exact tupleTypesToList_plain hE hp t cs h
      · rename_i cs' hcs'
        simp only [Res.ok.injEq, Option.some.injEq, Prod.mk.injEq] at h
        obtain ⟨rfl, rfl⟩ := h
        exact ⟨hret, convLoop_AllT hret _ _ hcs'⟩

theorem wrapLoop_AllT {firstConvs : Convs} (hf : AllT firstConvs) : ∀ (idxs : List Nat) (i : Nat) (convs out : Convs),
    AllT convs → wrapLoop firstConvs i idxs convs = .ok out → AllT out
  | [], _, convs, out, hc, h => by simp [wrapLoop] at h; subst h; exact hc
  | idx :: rest, i, convs, out, hc, h => by
    simp only [wrapLoop] at h
    obtain ⟨second, hsec, h⟩ := Res.bind_eq_ok h
    obtain ⟨first, hfst, h⟩ := Res.bind_eq_ok h
    have hfm := idxR_mem hfst
    have hsm := idxR_mem hsec
    cases second with
    | none =>
      refine wrapLoop_AllT hf rest _ _ out (AllT_set hc idx ?_) h
      intro c' e; subst e; exact hf c' hfm
    | some s =>
      refine wrapLoop_AllT hf rest _ _ out (AllT_set hc idx ?_) h
      intro c' e m hm
      simp only [Option.some.injEq] at e; subst e
      cases first with
      | none => exact hc s hsm m (by simpa [stepTargets] using hm)
      | some f =>
        simp only [stepTargets, List.mem_append] at hm
        rcases hm with hm | hm
        · exact hf f hfm m hm
        · exact hc s hsm m hm

theorem tryCandidate_AllT {wantIdx : Nat} {want : Ty} (hw : plainTy want = true) : ∀ (rest : List Ty) (i : Nat) (buf : Convs),
    AllT buf → AllT (tryCandidate E uns wantIdx want i rest buf).1
  | [], _, buf, hb => by simpa [tryCandidate] using hb
  | ty :: rest, i, buf, hb => by
    simp only [tryCandidate]
    have hnone : AllT (buf.set i none) := AllT_set hb i (by intro c' e; simp at e)
    split
    · exact tryCandidate_AllT hw rest _ _ hnone
    · split
      · exact tryCandidate_AllT hw rest _ _ hnone
      · split
        · exact hnone
        · rename_i p hp
          refine tryCandidate_AllT hw rest _ _ (AllT_set hb i ?_)
          intro c' e m hm
          simp only [Option.some.injEq] at e; subst e
          rw [targets_getConv hp] at hm
          simp at hm; subst hm; exact hw

theorem prefLoop_plain {types : List Ty} (hp : ∀ x ∈ types, plainTy x = true) : ∀ (order : List Nat) (buf : Convs),
    AllT buf → PlainOut (prefLoop E uns types order buf)
  | [], _, _ => by intro t cs h; simp [prefLoop] at h
  | w :: rest, buf, hb => by
    intro t cs h
    simp only [prefLoop] at h
    obtain ⟨want, hwant, h⟩ := Res.bind_eq_ok h
    have hpw := hp want (idxR_mem hwant)
    have hb' := tryCandidate_AllT (E := E) (uns := uns) (wantIdx := w) hpw types 0 buf hb
    split at h
    · simp only [Res.ok.injEq, Option.some.injEq, Prod.mk.injEq] at h
      obtain ⟨rfl, rfl⟩ := h
      exact ⟨hpw, hb'⟩
    · exact prefLoop_plain hp rest _ hb' t cs h

theorem general_plain {types : List Ty} (hp : ∀ x ∈ types, plainTy x = true) : PlainOut (general E uns types) :=
  prefLoop_plain hp _ _ (AllT_none_map types)

theorem replaceAt_plain {idxs : List Nat} {ty : Ty} {types : List Ty} (hty : plainTy ty = true)
    (hp : ∀ x ∈ types, plainTy x = true) : ∀ x ∈ replaceAt idxs ty types, plainTy x = true := by
  intro x hx
  rcases replaceAt_mem hx with rfl | ⟨j, _, hj⟩
  · exact hty
  · exact hp x (List.mem_of_getElem? hj)

theorem reunify_plain {self : Self} {isStruct isColl : Ty → Bool} {toColl : List Ty → Res UOut} {types : List Ty}
    (hp : ∀ x ∈ types, plainTy x = true)
    (hc : PlainOut (toColl (types.filter isStruct)))
    (hs : ∀ L, (∀ x ∈ L, plainTy x = true) → PlainOut (self uns L)) :
    PlainOut (reunify uns self isStruct isColl toColl types) := by
  intro t cs h
  simp only [reunify] at h
  obtain ⟨r, hr, h⟩ := Res.bind_eq_ok h
  split at h
  · simp at h
  · rename_i ty fc
    obtain ⟨hty, hfc⟩ := hc ty fc hr
    split at h
    · simp at h
    · obtain ⟨r2, hr2, h⟩ := Res.bind_eq_ok h
      split at h
      · simp at h
      · rename_i newTy convs
        obtain ⟨hnt, hcv⟩ := hs _ (replaceAt_plain hty hp) newTy convs hr2
        split at h
        · simp at h
        · obtain ⟨convs', hw, h⟩ := Res.bind_eq_ok h
          simp only [Res.ok.injEq, Option.some.injEq, Prod.mk.injEq] at h
          obtain ⟨rfl, rfl⟩ := h
          exact ⟨hnt, wrapLoop_AllT hfc _ _ _ _ hcv hw⟩

/-- ONE ACTIVATION of the full model keeps plain types plain, result type and step targets -/
theorem unifyStep_plain (hE : PlainPres E.unify) {self : Self}
    (hs : ∀ L, (∀ x ∈ L, plainTy x = true) → PlainOut (self uns L))
    {types : List Ty} (hp : ∀ x ∈ types, plainTy x = true) : PlainOut (Unify.unifyStep E uns self types) := by
  have hd := dynCount_zero hp
  have hg := general_plain (E := E) (uns := uns) hp
  intro t cs h
  simp only [Unify.unifyStep, hd, Nat.add_zero, Nat.lt_irrefl, decide_false] at h
  split at h
  · simp at h
  split at h
  · exact collectionTypes_plain hE plain_map hp t cs h
  split at h
  · obtain ⟨r, hr, h⟩ := Res.bind_eq_ok h
    have hro := reunify_plain (isStruct := isObjectTy) (isColl := isMapTy) (toColl := objectTypesToMap E uns) hp
      (objectTypesToMap_plain hE (fun x hx => hp x (List.mem_filter.mp hx).1)) hs
    split at h
    · rename_i ty convs
      split at h
      · simp only [Res.ok.injEq, Option.some.injEq, Prod.mk.injEq] at h
        obtain ⟨rfl, rfl⟩ := h
        exact hro _ _ hr
      · exact hg t cs h
    · exact hg t cs h
  split at h
  · exact collectionTypes_plain hE plain_list hp t cs h
  split at h
  · obtain ⟨r, hr, h⟩ := Res.bind_eq_ok h
    have hro := reunify_plain (isStruct := isTupleTy) (isColl := isListTy) (toColl := tupleTypesToList E uns) hp
      (tupleTypesToList_plain hE (fun x hx => hp x (List.mem_filter.mp hx).1)) hs
    split at h
    · rename_i ty convs
      split at h
      · simp only [Res.ok.injEq, Option.some.injEq, Prod.mk.injEq] at h
        obtain ⟨rfl, rfl⟩ := h
        exact hro _ _ hr
      · exact hg t cs h
    · exact hg t cs h
  split at h
  · exact collectionTypes_plain hE plain_set hp t cs h
  split at h
  · exact objectTypes_plain hE hp t cs h
  split at h
  · exact tupleTypes_plain hE hp t cs h
  split at h
  · simp at h
  · exact hg t cs h

/-- THE INVARIANT for `unify`: on plain input types the unified type and the target of every step
of every returned conversion are plain — every fuel, either mode, every environment whose
`unify` keeps plain types plain -/
theorem unifyF_plain (hE : PlainPres E.unify) : ∀ (fuel : Nat) (uns : Bool) (types : List Ty),
    (∀ x ∈ types, plainTy x = true) → PlainOut (unifyF E fuel uns types)
  | 0, _, _, _ => by intro t cs h; simp [unifyF] at h
  | fuel + 1, uns, types, hp => by
    simp only [unifyF]
    exact unifyStep_plain hE (fun L hL => unifyF_plain hE fuel uns L hL) hp
end

theorem plainPres_std (base : Env) : PlainPres (Env.std base).unify := unifyTy_plain

end Unify
end CtyModel
