/-
`marshalC` (= `Marshal` with the conversion path) against the existing `marshal`; `marshalV`
is total (a value or an error, never `.unmodelled`, never `.panic`) on well-shaped inputs;
a mark at any depth gives an error.
-/
import CtyModel.d16Marshal
import CtyModel.Lemmas.MsgpackMarks
import CtyModel.Lemmas.TyConform
namespace CtyModel
namespace Msgpack

/-- a result that is a value or an error -/
def OkErr {α : Type} (r : Res α) : Prop := (∃ a, r = .ok a) ∨ (∃ e, r = .err e)

theorem okErr_ok {α : Type} (a : α) : OkErr (Res.ok a) := .inl ⟨a, rfl⟩
theorem okErr_err {α : Type} (e : String) : OkErr (Res.err e : Res α) := .inr ⟨e, rfl⟩

theorem okErr_map {α β : Type} {r : Res α} (f : α → β) (h : OkErr r) : OkErr (r.map f) := by
  rcases h with ⟨a, rfl⟩ | ⟨e, rfl⟩
  · exact .inl ⟨f a, rfl⟩
  · exact .inr ⟨e, rfl⟩

mutual
theorem toJson_total : ∀ t : Ty, OkErr (Ty.toJson t)
  | .bool | .number | .string | .dyn => by simp [Ty.toJson, OkErr]
  | .capsule _ => by simp [Ty.toJson, OkErr]
  | .list e | .set e | .map e => by
    simp only [Ty.toJson]; exact okErr_map _ (toJson_total e)
  | .tuple es => by
    simp only [Ty.toJson]; exact okErr_map _ (toJsonL_total es)
  | .object ns ts os => by
    simp only [Ty.toJson]; exact okErr_map _ (toJsonL_total ts)
theorem toJsonL_total : ∀ ts : List Ty, OkErr (Ty.toJsonL ts)
  | [] => by simp [Ty.toJsonL, OkErr]
  | t :: ts => by
    have h1 := toJson_total t
    have h2 := toJsonL_total ts
    simp only [Ty.toJsonL]
    rcases h1 with ⟨j, hj⟩ | ⟨e, he⟩
    · rw [hj]; exact okErr_map _ h2
    · rw [he]; exact okErr_err e
end

theorem wrapDyn_total (vt : Ty) (inner : Res Item) (h : OkErr inner) : OkErr (wrapDyn vt inner) := by
  unfold wrapDyn
  rcases toJson_total vt with ⟨j, hj⟩ | ⟨e, he⟩
  · rw [hj]
    rcases h with ⟨a, rfl⟩ | ⟨e, rfl⟩
    · exact okErr_ok _
    · exact okErr_err _
  · rw [he]; exact okErr_err _

theorem rfnEntries_total (E : Ext) (hs : SafeTotal E) (vt : Ty) (r : Rfn) : ∃ sp, rfnEntries E vt r = .ok sp := by
  have h2 : ∀ bs, E.safePrefix bs ≠ none := fun bs hb => by
    have := hs bs; rw [hb] at this; simp at this
  unfold rfnEntries
  repeat' split
  all_goals first
    | exact ⟨_, rfl⟩
    | (rename_i hn; exact absurd hn (h2 _))

theorem marshalUnknown_total (E : Ext) (hs : SafeTotal E) (vt : Ty) (r : Rfn) : OkErr (marshalUnknown E vt r) := by
  unfold marshalUnknown
  split
  · exact okErr_ok _
  · obtain ⟨sp, h⟩ := rfnEntries_total E hs vt r
    rw [h]
    simp only
    repeat' split
    all_goals exact okErr_ok _

mutual
theorem confShape_refl : ∀ t : Ty, confShape t t = true
  | .bool | .number | .string | .dyn => by simp [confShape]
  | .capsule _ => by simp [confShape]
  | .list e | .set e | .map e => by simp [confShape, confShape_refl e]
  | .tuple es => by simp [confShape, confShapeL_refl es]
  | .object ns ts os => by simp [confShape, confShapeL_refl ts]
theorem confShapeL_refl : ∀ ts : List Ty, confShapeL ts ts = true
  | [] => by simp [confShapeL]
  | t :: ts => by simp [confShapeL, confShape_refl t, confShapeL_refl ts]
end

theorem confShapeL_length : ∀ {cs ts : List Ty}, confShapeL cs ts = true → cs.length = ts.length
  | [], [], _ => rfl
  | [], _ :: _, h => by simp [confShapeL] at h
  | _ :: _, [], h => by simp [confShapeL] at h
  | _ :: cs, _ :: ts, h => by
    simp only [confShapeL, Bool.and_eq_true] at h
    simp [confShapeL_length h.2]

/-- what is proved of every payload -/
def TOT (E : Ext) (p : Payload) : Prop :=
  ∀ vt ct : Ty, confShape ct vt = true → (ct.isDyn = true → vt.isDyn = true) → shapeP vt p = true →
    OkErr (marshalP E vt p ct)

theorem childItem_tot (E : Ext) (p : Payload) (ih : TOT E p) (ce ve : Ty)
    (hc : confShape ce ve = true) (hp : shapeP ve p = true) : OkErr (childItem E ce ve p) := by
  by_cases hm : ∃ ms q, p = .marked ms q
  · obtain ⟨ms, q, rfl⟩ := hm
    exact okErr_err _
  · have hci : childItem E ce ve p =
        (if ce.isDyn && !ve.isDyn then wrapDyn ve (marshalP E ve p ve) else marshalP E ve p ce) := by
      cases p <;> first | rfl | exact absurd ⟨_, _, rfl⟩ hm
    rw [hci]
    split
    · exact wrapDyn_total ve _ (ih ve ve (confShape_refl ve) id hp)
    · rename_i hd
      refine ih ve ce hc (fun h => ?_) hp
      cases hv : ve.isDyn <;> simp_all

theorem marshalAll_tot (E : Ext) (ve ce : Ty) (hc : confShape ce ve = true) :
    ∀ ps : List Payload, (∀ p ∈ ps, TOT E p) → shapeAll ve ps = true → OkErr (marshalAll E ve ps ce)
  | [], _, _ => by simp [marshalAll, OkErr]
  | p :: ps, ih, hs => by
    simp only [shapeAll, Bool.and_eq_true] at hs
    have h1 := childItem_tot E p (ih p (by simp)) ce ve hc hs.1
    have h2 := marshalAll_tot E ve ce hc ps (fun q hq => ih q (by simp [hq])) hs.2
    rw [marshalAll_cons]
    rcases h1 with ⟨it, h⟩ | ⟨e, h⟩
    · rw [h]; exact okErr_map _ h2
    · rw [h]; exact okErr_err _

theorem marshalZip_tot (E : Ext) : ∀ (ves : List Ty) (ps : List Payload) (ces : List Ty),
    (∀ p ∈ ps, TOT E p) → confShapeL ces ves = true → shapeZip ves ps = true → OkErr (marshalZip E ves ps ces)
  | ve :: ves, p :: ps, ce :: ces, ih, hc, hs => by
    simp only [shapeZip, Bool.and_eq_true] at hs
    simp only [confShapeL, Bool.and_eq_true] at hc
    have h1 := childItem_tot E p (ih p (by simp)) ce ve hc.1 hs.1
    have h2 := marshalZip_tot E ves ps ces (fun q hq => ih q (by simp [hq])) hc.2 hs.2
    rw [marshalZip_cons]
    rcases h1 with ⟨it, h⟩ | ⟨e, h⟩
    · rw [h]; exact okErr_map _ h2
    · rw [h]; exact okErr_err _
  | [], _, _, _, _, _ => by simp [marshalZip, OkErr]
  | _ :: _, [], _, _, _, _ => by simp [marshalZip, OkErr]
  | _ :: _, _ :: _, [], _, _, _ => by simp [marshalZip, OkErr]

theorem tot_seq (E : Ext) (vs : List Payload) (ih : ∀ p ∈ vs, TOT E p) : TOT E (.seq vs) := by
  intro vt ct hc hd hp
  cases ct <;> cases vt <;> simp only [confShape, shapeP, Ty.isDyn] at hc hd hp <;> try (simp at hc hd hp)
  case list.list ce ve =>
    simp only [marshalP]
    exact okErr_map _ (marshalAll_tot E ve ce hc vs ih hp)
  case tuple.tuple ces ves =>
    simp only [marshalP]
    have hl := confShapeL_length hc
    rw [if_pos ⟨by omega, hp.1⟩]
    exact okErr_map _ (marshalZip_tot E ves vs ces ih hc hp.2)

theorem tot_sset (E : Ext) (ids : List Int) (vs : List Payload) (ih : ∀ p ∈ vs, TOT E p) : TOT E (.sset ids vs) := by
  intro vt ct hc hd hp
  cases ct <;> cases vt <;> simp only [confShape, shapeP, Ty.isDyn] at hc hd hp <;> try (simp at hc hd hp)
  case set.set ce ve =>
    simp only [marshalP]
    exact okErr_map _ (marshalAll_tot E ve ce hc vs ih hp)

theorem tot_smap (E : Ext) (ks : List String) (vs : List Payload) (ih : ∀ p ∈ vs, TOT E p) : TOT E (.smap ks vs) := by
  intro vt ct hc hd hp
  cases ct <;> cases vt <;> simp only [confShape, shapeP, Ty.isDyn] at hc hd hp <;> try (simp at hc hd hp)
  case map.map ce ve =>
    simp only [marshalP]
    rw [if_pos hp.1]
    exact okErr_map _ (marshalAll_tot E ve ce hc vs ih hp.2)
  case object.object cns cts cos vns vts vos =>
    simp only [marshalP]
    have hl := confShapeL_length hc.2
    rw [if_pos ⟨by rw [hc.1, hp.1.1], hp.1.1, by omega, hp.1.2⟩]
    exact okErr_map _ (marshalZip_tot E vts vs cts ih hc.2 hp.2)

mutual
theorem tot (E : Ext) (hs : SafeTotal E) : ∀ p : Payload, TOT E p
  | .null => by intro vt ct _ _ _; simp [marshalP, OkErr]
  | .unk r => by intro vt ct _ _ _; simp only [marshalP]; exact marshalUnknown_total E hs vt r
  | .b _ => by
    intro vt ct hc hd hp
    cases ct <;> cases vt <;> simp_all [marshalP, confShape, shapeP, OkErr, Ty.isDyn]
  | .n _ => by
    intro vt ct hc hd hp
    cases ct <;> cases vt <;> simp_all [marshalP, confShape, shapeP, OkErr, Ty.isDyn]
  | .s _ => by
    intro vt ct hc hd hp
    cases ct <;> cases vt <;> simp_all [marshalP, confShape, shapeP, OkErr, Ty.isDyn]
  | .caps => by
    intro vt ct hc hd hp
    cases ct <;> cases vt <;> simp_all [marshalP, confShape, shapeP, OkErr, Ty.isDyn]
  | .bad _ => by intro vt ct _ _ hp; simp [shapeP] at hp
  | .marked _ _ => by intro vt ct _ _ _; simp [marshalP, OkErr]
  | .seq vs => tot_seq E vs (totL E hs vs)
  | .sset ids vs => tot_sset E ids vs (totL E hs vs)
  | .smap ks vs => tot_smap E ks vs (totL E hs vs)
theorem totL (E : Ext) (hs : SafeTotal E) : ∀ ps : List Payload, ∀ p ∈ ps, TOT E p
  | [], _, h => by simp at h
  | q :: qs, p, h => by
    by_cases hp : p = q
    · rw [hp]; exact tot E hs q
    · exact totL E hs qs p (by simpa [hp] using h)
end

/-- T3 -/
theorem marshalV_total (E : Ext) (hs : SafeTotal E) (v : Value) (ct : Ty)
    (hc : confShape ct v.ty = true) (hp : shapeP v.ty v.v = true) :
    (∃ it, marshalV E v ct = .ok it) ∨ (∃ e, marshalV E v ct = .err e) := by
  rw [marshalV_eq]
  exact childItem_tot E v.v (tot E hs v.v) ct v.ty hc hp

theorem marshalV_no_panic (E : Ext) (v : Value) (ct : Ty) (w : String) : marshalV E v ct ≠ .panic w := by
  rw [marshalV_eq]; exact (childItem_np E v.v (np E v.v) ct v.ty).1 w

/-- a value that contains a mark anywhere is refused, conforming or not -/
theorem marshalC_marked_err (E : Ext) (C : Convert.Env) (fuel : Nat) (v : Value) (ct : Ty)
    (hm : v.containsMarked = true) : marshalC E C fuel v ct = .err "value has marks, so it cannot be serialized" := by
  unfold marshalC; rw [if_pos hm]

/-- T1 -/
theorem marshalC_conforming (E : Ext) (C : Convert.Env) (fuel : Nat) (v : Value) (ct : Ty)
    (h : Ty.conformErrs ct v.ty = 0) (hm : v.containsMarked = false) : marshalC E C fuel v ct = marshal E v ct := by
  unfold marshalC marshal
  simp only [hm, Bool.false_eq_true, if_false, h, ne_eq, not_true_eq_false]
  split
  · rename_i hmk
    unfold marshalV
    cases hv : v.v <;> simp_all [Payload.isMarked]
  · rfl

/-- T2 -/
theorem marshalC_panic_only_from_convert (E : Ext) (C : Convert.Env) (fuel : Nat) (v : Value) (ct : Ty)
    (w : String) (h : marshalC E C fuel v ct = .panic w) : Convert.convert C fuel v ct = .panic w := by
  unfold marshalC at h
  split at h
  · cases h
  · split at h
    · cases hc : Convert.convert C fuel v ct with
      | ok v' => rw [hc] at h; exact absurd h (marshalV_no_panic E v' ct w)
      | err e => rw [hc] at h; simp at h
      | panic w' => rw [hc] at h; simpa using h
      | unmodelled => rw [hc] at h; simp at h
    · exact absurd h (marshalV_no_panic E v ct w)

mutual
theorem confShape_eq_matches : ∀ c t : Ty, confShape c t = Ty.«matches» c t
  | .dyn, t => by simp [confShape, Ty.«matches»]
  | .bool, t | .number, t | .string, t => by cases t <;> simp [confShape, Ty.«matches»]
  | .capsule _, t => by cases t <;> simp [confShape, Ty.«matches»]
  | .list c, t | .set c, t | .map c, t => by
    cases t <;> simp [confShape, Ty.«matches», confShape_eq_matches c]
  | .tuple cs, t => by cases t <;> simp [confShape, Ty.«matches», confShapeL_eq_matchesL cs]
  | .object _ cs _, t => by cases t <;> simp [confShape, Ty.«matches», confShapeL_eq_matchesL cs]
theorem confShapeL_eq_matchesL : ∀ cs ts : List Ty, confShapeL cs ts = Ty.matchesL cs ts
  | [], ts => by cases ts <;> simp [confShapeL, Ty.matchesL]
  | c :: cs, ts => by
    cases ts <;> simp [confShapeL, Ty.matchesL, confShape_eq_matches c, confShapeL_eq_matchesL cs]
end

/-- T4 -/
theorem confShape_of_conform (ct vt : Ty) (hc : ct.wf = true) (hv : vt.wf = true)
    (h : Ty.conformErrs ct vt = 0) : confShape ct vt = true := by
  rw [confShape_eq_matches]; exact (Ty.conform_iff ct vt hc hv).mp h

/-- T6 -/
theorem marshal_total (E : Ext) (hs : SafeTotal E) (v : Value) (ct : Ty)
    (hconf : Ty.conformErrs ct v.ty = 0) (hc : confShape ct v.ty = true) (hp : shapeP v.ty v.v = true) :
    (∃ it, marshal E v ct = .ok it) ∨ (∃ e, marshal E v ct = .err e) := by
  unfold marshal
  split
  · exact .inr ⟨_, rfl⟩
  · simp only [hconf, ne_eq, not_true_eq_false, if_false]
    exact marshalV_total E hs v ct hc hp

/-- T5 -/
theorem marked_nested_err (E : Ext) (hs : SafeTotal E) (v : Value) (ct : Ty)
    (hconf : Ty.conformErrs ct v.ty = 0) (hc : confShape ct v.ty = true) (hp : shapeP v.ty v.v = true)
    (hm : v.containsMarked = true) : ∃ e, marshal E v ct = .err e := by
  rcases marshal_total E hs v ct hconf hc hp with ⟨it, h⟩ | h
  · have := marshal_ok_unmarked E v ct it h
    rw [hm] at this; exact absurd this (by simp)
  · exact h

/-- the conversion path: when `convert.Convert` answers a well-shaped value, the result is a value or an error -/
theorem marshalC_total_of_convert (E : Ext) (hs : SafeTotal E) (C : Convert.Env) (fuel : Nat) (v v' : Value) (ct : Ty)
    (hn : Ty.conformErrs ct v.ty ≠ 0) (hcv : Convert.convert C fuel v ct = .ok v')
    (hc : confShape ct v'.ty = true) (hp : shapeP v'.ty v'.v = true) :
    (∃ it, marshalC E C fuel v ct = .ok it) ∨ (∃ e, marshalC E C fuel v ct = .err e) := by
  unfold marshalC
  by_cases hm : v.containsMarked = true
  · rw [if_pos hm]; exact .inr ⟨_, rfl⟩
  · rw [if_neg hm, if_pos hn, hcv]
    exact marshalV_total E hs v' ct hc hp

end Msgpack
end CtyModel
