/-
`distinct` and `contains` with LOCAL (and, for plain element types, PROVED)
equality hypotheses.

`Lemmas/StdlibSeq.distinctImpl_eq` assumes transitivity of `eqT` over ALL values
and decidedness as a second global hypothesis; neither is proved anywhere.  Here
both are asked only of the members of the list (`distinctLoop_eq_on`), and proved
for the members of a list of a well-formed plain element type that are well-formed,
wholly known and mark-free, where `Equals` is `rawB` (C03 `equals_of_members`).
-/
import CtyModel.Lemmas.StdlibCall
import CtyModel.Lemmas.ValEqRules
namespace CtyModel
namespace Stdlib
open Value

/-- decidedness and transitivity of `Equal` on the members of `L` -/
structure EqOn (L : List Value) : Prop where
  decided : ∀ a ∈ L, ∀ b ∈ L, ∃ bv, equalCall a b = .ok (boolVal bv)
  trans : ∀ a ∈ L, ∀ b ∈ L, ∀ c ∈ L, eqT a b = true → eqT b c = true → eqT a c = true

theorem EqOn.mono {L L' : List Value} (h : EqOn L) (hs : ∀ x ∈ L', x ∈ L) : EqOn L' :=
  ⟨fun a ha b hb => h.decided a (hs a ha) b (hs b hb),
   fun a ha b hb c hc => h.trans a (hs a ha) b (hs b hb) c (hs c hc)⟩

theorem distinctLoop_eq_on (before acc xs : List Value)
    (hE : EqOn (before ++ xs))
    (hsub : ∀ z ∈ acc, z ∈ before)
    (hrep : ∀ y ∈ before, y ∈ acc ∨ ∃ z ∈ acc, eqT z y = true) :
    distinctLoop acc xs = .ok (acc ++ Spec.firstOccsFrom eqT before xs) := by
  induction xs generalizing before acc with
  | nil => simp [distinctLoop, Spec.firstOccsFrom]
  | cons x xs ih =>
    have hxL : x ∈ before ++ x :: xs := by simp
    have hbL : ∀ y ∈ before, y ∈ before ++ x :: xs := fun y hy => by simp [hy]
    have hmiss : isMissing x acc = .ok (!acc.any (fun y => eqT y x)) := by
      apply isMissing_eq
      intro a ha
      exact hE.decided a (hbL a (hsub a ha)) x hxL
    have hany : acc.any (fun y => eqT y x) = before.any (fun y => eqT y x) := by
      rw [Bool.eq_iff_iff, List.any_eq_true, List.any_eq_true]
      constructor
      · rintro ⟨z, hz, hzx⟩; exact ⟨z, hsub z hz, hzx⟩
      · rintro ⟨y, hy, hyx⟩
        rcases hrep y hy with hya | ⟨z, hz, hzy⟩
        · exact ⟨y, hya, hyx⟩
        · exact ⟨z, hz, hE.trans z (hbL z (hsub z hz)) y (hbL y hy) x hxL hzy hyx⟩
    have hE' : EqOn ((before ++ [x]) ++ xs) := by simpa using hE
    simp only [distinctLoop, appendIfMissing, hmiss, Spec.firstOccsFrom]
    by_cases hb : before.any (fun y => eqT y x) = true
    · have ha : acc.any (fun y => eqT y x) = true := hany ▸ hb
      simp only [ha, hb, Bool.not_true, if_true]
      apply ih (before ++ [x]) acc hE'
      · intro z hz; simp [hsub z hz]
      · intro y hy
        rcases List.mem_append.mp hy with hy | hy
        · exact hrep y hy
        · simp only [List.mem_singleton] at hy
          subst hy
          right
          simpa [List.any_eq_true] using ha
    · have hb' : before.any (fun y => eqT y x) = false := by simpa using hb
      have ha : acc.any (fun y => eqT y x) = false := hany ▸ hb'
      simp only [ha, hb', Bool.not_false, Bool.false_eq_true, if_false]
      rw [ih (before ++ [x]) (acc ++ [x]) hE']
      · simp
      · intro z hz
        rcases List.mem_append.mp hz with hz | hz
        · simp [hsub z hz]
        · simp at hz; simp [hz]
      · intro y hy
        rcases List.mem_append.mp hy with hy | hy
        · rcases hrep y hy with h1 | ⟨z, hz, hzy⟩
          · left; simp [h1]
          · right; exact ⟨z, by simp [hz], hzy⟩
        · left; simp at hy; simp [hy]

theorem firstOccsFrom_sub {α} (eqv : α → α → Bool) : ∀ (before l : List α), ∀ v ∈ Spec.firstOccsFrom eqv before l, v ∈ l := by
  intro before l
  induction l generalizing before with
  | nil => simp [Spec.firstOccsFrom]
  | cons x xs ih =>
    intro v hv
    simp only [Spec.firstOccsFrom] at hv
    split at hv
    · exact List.mem_cons_of_mem _ (ih _ v hv)
    · rcases List.mem_cons.mp hv with rfl | hv
      · simp
      · exact List.mem_cons_of_mem _ (ih _ v hv)

/-- first occurrences commute with an embedding that preserves the equality on the members -/
theorem firstOccsFrom_map {α β} (f : α → β) (eqa : α → α → Bool) (eqb : β → β → Bool) :
    ∀ (xs before : List α), (∀ a ∈ before ++ xs, ∀ b ∈ before ++ xs, eqb (f a) (f b) = eqa a b) →
      Spec.firstOccsFrom eqb (before.map f) (xs.map f) = (Spec.firstOccsFrom eqa before xs).map f
  | [], _, _ => rfl
  | x :: xs, before, h => by
    have hany : (before.map f).any (fun y => eqb y (f x)) = before.any (fun y => eqa y x) := by
      rw [Bool.eq_iff_iff, List.any_eq_true, List.any_eq_true]
      constructor
      · rintro ⟨z, hz, hzx⟩
        obtain ⟨y, hy, rfl⟩ := List.mem_map.mp hz
        exact ⟨y, hy, by rw [← h y (by simp [hy]) x (by simp)]; exact hzx⟩
      · rintro ⟨y, hy, hyx⟩
        exact ⟨f y, List.mem_map.mpr ⟨y, hy, rfl⟩, by rw [h y (by simp [hy]) x (by simp)]; exact hyx⟩
    have ih := firstOccsFrom_map f eqa eqb xs (before ++ [x]) (by
      intro a ha b hb
      exact h a (by simpa using ha) b (by simpa using hb))
    simp only [List.map_append, List.map_cons, List.map_nil] at ih
    simp only [List.map_cons, Spec.firstOccsFrom, hany]
    split
    · exact ih
    · simp only [List.map_cons]; rw [ih]

/-- **distinct keeps exactly the first occurrences** — the equality hypotheses asked only
of the members of the list -/
theorem distinctImpl_eq_on (E : Env) (e : Ty) (he : e.equals e = true) (vs : List Payload)
    (hk : Payload.whollyKnownL vs = true) (hE : EqOn (vs.map (⟨e, ·⟩))) :
    ∃ kept, distinctImpl E [⟨.list e, .seq vs⟩] (.list e) = .ok (mkList e kept) ∧
      kept.map (⟨e, ·⟩) = Spec.firstOccs eqT (vs.map (⟨e, ·⟩)) := by
  have hk' : (⟨.list e, .seq vs⟩ : Value).whollyKnown = true := by
    simp [Value.whollyKnown, Payload.whollyKnown, hk]
  have hloop := distinctLoop_eq_on [] [] (vs.map (⟨e, ·⟩)) (by simpa using hE) (by simp) (by simp)
  simp only [List.nil_append] at hloop
  have hform : ∀ l : List Value, (∀ v ∈ l, ∃ p, v = ⟨e, p⟩) → ∃ ps : List Payload, l = ps.map (⟨e, ·⟩) := by
    intro l
    induction l with
    | nil => intro _; exact ⟨[], rfl⟩
    | cons v l ih =>
      intro h
      obtain ⟨p, hp⟩ := h v (by simp)
      obtain ⟨ps, hps⟩ := ih (fun w hw => h w (by simp [hw]))
      exact ⟨p :: ps, by simp [hp, hps]⟩
  obtain ⟨kept, hkept⟩ := hform (Spec.firstOccsFrom eqT [] (vs.map (⟨e, ·⟩))) (by
    intro v hv
    have := firstOccsFrom_sub eqT [] _ v hv
    simp only [List.mem_map] at this
    obtain ⟨p, _, hp⟩ := this
    exact ⟨p, hp.symm⟩)
  refine ⟨kept, ?_, by simp [Spec.firstOccs, hkept]⟩
  simp only [distinctImpl, hk', Bool.not_true, Bool.false_eq_true, if_false, elems_list, hloop, hkept,
    List.length_map, elementTypeOf, Res.map]
  by_cases h0 : kept.length = 0
  · have := List.eq_nil_of_length_eq_zero h0
    simp [this, listEmpty, mkList]
  · have hne : kept ≠ [] := fun hn => h0 (by simp [hn])
    simp only [h0, beq_iff_eq, if_false]
    exact listVal_map e he _ hne

/-! ### plain element types: `Equal` is `rawB` -/

/-- a member `distinct` / `contains` / the set functions can compare: well-formed for the
element type, wholly known, no mark at any depth -/
def Payload.plainMember (e : Ty) (p : Payload) : Bool :=
  p.shaped e && p.whollyKnown && !p.containsMarked

theorem plainMember_parts {e : Ty} {p : Payload} (h : Payload.plainMember e p = true) :
    p.shaped e = true ∧ p.whollyKnown = true ∧ p.containsMarked = false := by
  simp only [Payload.plainMember, Bool.and_eq_true, Bool.not_eq_true'] at h
  exact ⟨h.1.1, h.1.2, h.2⟩

theorem equalCall_plain {e : Ty} (hw : e.wf = true) (hp : e.plain = true) {a b : Payload}
    (ha : Payload.plainMember e a = true) (hb : Payload.plainMember e b = true) :
    equalCall ⟨e, a⟩ ⟨e, b⟩ = .ok (boolVal (rawB e a b)) := by
  obtain ⟨wa, ka, ma⟩ := plainMember_parts ha
  obtain ⟨wb, kb, mb⟩ := plainMember_parts hb
  exact equals_of_members hw hp wa ka ma wb kb mb

theorem eqT_plain {e : Ty} (hw : e.wf = true) (hp : e.plain = true) {a b : Payload}
    (ha : Payload.plainMember e a = true) (hb : Payload.plainMember e b = true) :
    eqT ⟨e, a⟩ ⟨e, b⟩ = rawB e a b := by
  simp only [eqT, equalCall_plain hw hp ha hb]
  cases rawB e a b <;> rfl

theorem eqOn_plain {e : Ty} (hw : e.wf = true) (hp : e.plain = true) (vs : List Payload)
    (hm : ∀ p ∈ vs, Payload.plainMember e p = true) : EqOn (vs.map (⟨e, ·⟩)) := by
  refine ⟨?_, ?_⟩
  · intro a ha b hb
    obtain ⟨p, hp', rfl⟩ := List.mem_map.mp ha
    obtain ⟨q, hq', rfl⟩ := List.mem_map.mp hb
    exact ⟨_, equalCall_plain hw hp (hm p hp') (hm q hq')⟩
  · intro a ha b hb c hc h1 h2
    obtain ⟨p, hp', rfl⟩ := List.mem_map.mp ha
    obtain ⟨q, hq', rfl⟩ := List.mem_map.mp hb
    obtain ⟨r, hr', rfl⟩ := List.mem_map.mp hc
    rw [eqT_plain hw hp (hm p hp') (hm q hq')] at h1
    rw [eqT_plain hw hp (hm q hq') (hm r hr')] at h2
    rw [eqT_plain hw hp (hm p hp') (hm r hr')]
    exact rawB_trans e p q r hp (plainMember_parts (hm p hp')).1 (plainMember_parts (hm q hq')).1
      (plainMember_parts (hm r hr')).1 h1 h2

theorem d13Seq_whollyKnownL : ∀ (vs : List Payload), (∀ p ∈ vs, p.whollyKnown = true) →
    Payload.whollyKnownL vs = true
  | [], _ => rfl
  | v :: vs, h => by
    simp only [Payload.whollyKnownL, Bool.and_eq_true]
    exact ⟨h v (by simp), d13Seq_whollyKnownL vs fun p hp => h p (List.mem_cons_of_mem _ hp)⟩

theorem map_mk_inj (e : Ty) : ∀ (a b : List Payload), a.map (fun p => (⟨e, p⟩ : Value)) = b.map (⟨e, ·⟩) → a = b
  | [], [], _ => rfl
  | [], _ :: _, h => by simp at h
  | _ :: _, [], h => by simp at h
  | x :: xs, y :: ys, h => by
    simp only [List.map_cons, List.cons.injEq, Value.mk.injEq, true_and] at h
    rw [h.1, map_mk_inj e xs ys h.2]

/-- **distinct on a list of a plain element type**: the first occurrences up to `RawEquals`,
in payload vocabulary, with no hypothesis left about `Equals` -/
theorem distinctImpl_plain (E : Env) (e : Ty) (hw : e.wf = true) (hp : e.plain = true) (vs : List Payload)
    (hm : ∀ p ∈ vs, Payload.plainMember e p = true) :
    distinctImpl E [⟨.list e, .seq vs⟩] (.list e) = .ok (mkList e (Spec.firstOccs (rawB e) vs)) := by
  have hk := d13Seq_whollyKnownL vs fun p h => (plainMember_parts (hm p h)).2.1
  obtain ⟨kept, h1, h2⟩ := distinctImpl_eq_on E e (Ty.equals_self hw) vs hk (eqOn_plain hw hp vs hm)
  have hmap : Spec.firstOccs eqT (vs.map (⟨e, ·⟩)) = (Spec.firstOccs (rawB e) vs).map (⟨e, ·⟩) := by
    have := firstOccsFrom_map (fun p : Payload => (⟨e, p⟩ : Value)) (rawB e) eqT vs [] (by
      intro a ha b hb
      exact eqT_plain hw hp (hm a (by simpa using ha)) (hm b (by simpa using hb)))
    simpa [Spec.firstOccs] using this
  rw [hmap] at h2
  have hinj : kept = Spec.firstOccs (rawB e) vs := by
    exact map_mk_inj e _ _ h2
  rw [h1, hinj]

/-! ### `contains` over lists, tuples and sets -/

/-- the search loop when every comparison is decided -/
theorem containsLoop_decided (x : Value) : ∀ es : List Value,
    (∀ v ∈ es, ∃ bv, Value.equals x v = .ok (boolVal bv)) →
    containsLoop x es false = .ok (some (es.any fun v => eqT x v))
  | [], _ => rfl
  | v :: es, h => by
    obtain ⟨bv, hb⟩ := h v (by simp)
    have ih := containsLoop_decided x es (fun q hq => h q (by simp [hq]))
    cases bv
    · have he : eqT x v = false := by simp [eqT, equalCall, hb, boolVal, Value.isTrue]
      simp [containsLoop, hb, boolVal, Value.isKnown, Payload.isKnown, Payload.unmark1, boolTrue,
        Value.isMarked, Payload.isMarked, Ty.isBool, ih, he]
    · have he : eqT x v = true := by simp [eqT, equalCall, hb, boolVal, Value.isTrue]
      simp [containsLoop, hb, boolVal, Value.isKnown, Payload.isKnown, Payload.unmark1, boolTrue,
        Value.isMarked, Payload.isMarked, Ty.isBool, he]

/-- **contains on any known non-empty list, tuple or set**: `true` iff `Equals` answers
true for some element the iterator yields -/
theorem containsImpl_elems (E : Env) (c x : Value) (retTy : Ty) (es : List Value) (n : Nat)
    (hty : (isListTy c.ty || isTupleTy c.ty || isSetTy c.ty) = true) (hnull : c.isNull = false)
    (hk : c.isKnown = true) (hx : x.isKnown = true) (hlen : lengthInt c = .ok n) (hn : n ≠ 0)
    (hel : elems E c = .ok es) (hd : ∀ v ∈ es, ∃ bv, Value.equals x v = .ok (boolVal bv)) :
    containsImpl E [c, x] retTy = .ok (boolVal (es.any fun v => eqT x v)) := by
  have hty' : (!isListTy c.ty && !isTupleTy c.ty && !isSetTy c.ty) = false := by
    cases h1 : isListTy c.ty <;> cases h2 : isTupleTy c.ty <;> cases h3 : isSetTy c.ty <;> simp_all
  simp only [containsImpl, hty', Bool.false_eq_true, if_false, hnull, hlen, beq_iff_eq, hn, hk, hx, Bool.not_true,
    Bool.or_self, hel, containsLoop_decided x es hd]

/-- outside the documented domain — not a list, tuple or set, or a null collection — the
call fails -/
theorem containsImpl_outside (E : Env) (c x : Value) (retTy : Ty)
    (h : (isListTy c.ty || isTupleTy c.ty || isSetTy c.ty) = false ∨ c.isNull = true) :
    Fails (containsImpl E [c, x] retTy) := by
  by_cases hty : (isListTy c.ty || isTupleTy c.ty || isSetTy c.ty) = true
  · rcases h with h | h
    · rw [h] at hty; cases hty
    · have hty' : (!isListTy c.ty && !isTupleTy c.ty && !isSetTy c.ty) = false := by
        cases h1 : isListTy c.ty <;> cases h2 : isTupleTy c.ty <;> cases h3 : isSetTy c.ty <;> simp_all
      exact ⟨"cannot search a nil list or set", by simp only [containsImpl, hty', Bool.false_eq_true, if_false, h, if_true]⟩
  · have hty' : (!isListTy c.ty && !isTupleTy c.ty && !isSetTy c.ty) = true := by
      cases h1 : isListTy c.ty <;> cases h2 : isTupleTy c.ty <;> cases h3 : isSetTy c.ty <;> simp_all
    exact ⟨"argument must be list, tuple, or set", by simp only [containsImpl, hty', if_true]⟩

theorem any_setIter (E : Env) (e : Ty) (vs : List Payload) (f : Payload → Bool) :
    (setIter E e vs).any f = vs.any f := by
  rw [Bool.eq_iff_iff, List.any_eq_true, List.any_eq_true]
  constructor
  · rintro ⟨x, hx, h⟩; exact ⟨x, (SetImpl.mem_sortStable _ _ _).mp hx, h⟩
  · rintro ⟨x, hx, h⟩; exact ⟨x, (SetImpl.mem_sortStable _ _ _).mpr hx, h⟩

/-- **contains on a list or a set of a plain element type**, needle of that type: `true` iff
some member is `RawEquals` to the needle — nothing assumed about `Equals` -/
theorem containsImpl_plain (E : Env) (e : Ty) (hw : e.wf = true) (hp : e.plain = true) (ids : List Int)
    (vs : List Payload) (q : Payload) (retTy : Ty) (hne : vs ≠ [])
    (hm : ∀ p ∈ vs, Payload.plainMember e p = true) (hq : Payload.plainMember e q = true) :
    containsImpl E [⟨.list e, .seq vs⟩, ⟨e, q⟩] retTy = .ok (boolVal (vs.any fun p => rawB e q p)) ∧
    containsImpl E [⟨.set e, .sset ids vs⟩, ⟨e, q⟩] retTy = .ok (boolVal (vs.any fun p => rawB e q p)) := by
  obtain ⟨_, kq, mq⟩ := plainMember_parts hq
  have hx : (⟨e, q⟩ : Value).isKnown = true := by
    cases q <;> simp_all [Payload.whollyKnown, Value.isKnown, Payload.isKnown, Payload.unmark1, Payload.containsMarked]
  have h0 : vs.length ≠ 0 := fun h => hne (List.eq_nil_of_length_eq_zero h)
  have hdec : ∀ (l : List Payload), (∀ p ∈ l, p ∈ vs) →
      ∀ v ∈ l.map (fun p => (⟨e, p⟩ : Value)), ∃ bv, Value.equals ⟨e, q⟩ v = .ok (boolVal bv) := by
    intro l hl v hv
    obtain ⟨p, hp', rfl⟩ := List.mem_map.mp hv
    exact ⟨_, equalCall_plain hw hp hq (hm p (hl p hp'))⟩
  have hany : ∀ (l : List Payload), (∀ p ∈ l, p ∈ vs) →
      ((l.map (fun p => (⟨e, p⟩ : Value))).any fun v => eqT ⟨e, q⟩ v) = l.any fun p => rawB e q p := by
    intro l hl
    rw [List.any_map, Bool.eq_iff_iff, List.any_eq_true, List.any_eq_true]
    constructor
    · rintro ⟨p, hp', h⟩; exact ⟨p, hp', by rw [← eqT_plain hw hp hq (hm p (hl p hp'))]; exact h⟩
    · rintro ⟨p, hp', h⟩; exact ⟨p, hp', by simp only [Function.comp]; rw [eqT_plain hw hp hq (hm p (hl p hp'))]; exact h⟩
  refine ⟨?_, ?_⟩
  · rw [containsImpl_elems E ⟨.list e, .seq vs⟩ ⟨e, q⟩ retTy _ vs.length (by simp [isListTy]) rfl rfl hx
      (lengthInt_list e vs) h0 (elems_list E e vs) (hdec vs fun _ h => h), hany vs fun _ h => h]
  · have hsub : ∀ p ∈ setIter E e vs, p ∈ vs := fun p h => (SetImpl.mem_sortStable _ _ _).mp h
    rw [containsImpl_elems E ⟨.set e, .sset ids vs⟩ ⟨e, q⟩ retTy _ vs.length (by simp [isSetTy]) rfl rfl hx
      (lengthInt_set e ids vs) h0 (elems_set E e ids vs) (hdec _ hsub), hany _ hsub, any_setIter]


end Stdlib
end CtyModel
