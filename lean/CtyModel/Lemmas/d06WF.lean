/-
C06 (d06) lemmas about the strict duplicate clause (`CtyModel/d06WF.lean`):
 * the strict clause implies the old one, and agrees with it wherever `Equals` can be evaluated;
 * the capsule oracle is irrelevant for capsule-free types;
 * `SetVal`'s result is STRICTLY duplicate-free (its guard evaluated `Equals` on every pair).
-/
import CtyModel.d06WF
import CtyModel.Lemmas.WFSet
set_option linter.unusedSimpArgs false
set_option linter.unusedVariables false
namespace CtyModel
namespace D06
variable {nfc : String → Bool}

theorem equivR_some_false {e : Ty} {x y : Payload} (h : equivR e x y = some false) : equivP e x y = false := by
  unfold equivR at h
  unfold equivP
  split at h <;> simp_all

theorem equivR_of_isOk {e : Ty} {x y : Payload} (h : (Value.equalsP e x e y).isOk = true) :
    equivR e x y = some (equivP e x y) := by
  unfold equivR equivP
  cases hr : Value.equalsP e x e y <;> simp_all [Res.isOk]

/-- the strict clause implies the clause `Value.WF` uses -/
theorem noDup_of_noDupS (e : Ty) : ∀ (vs : List Payload), noDupS e vs = true → noDup e vs = true
  | [], _ => rfl
  | x :: xs, h => by
    simp only [noDupS, Bool.and_eq_true, List.all_eq_true, beq_iff_eq] at h
    simp only [noDup, Bool.and_eq_true, List.all_eq_true, Bool.not_eq_true']
    exact ⟨fun y hy => equivR_some_false (h.1 y hy), noDup_of_noDupS e xs h.2⟩

/-- … and is the same wherever `Equals` evaluates on every pair of members (`pairsOk`, the guard of the
`SetVal` model) -/
theorem noDupS_of_noDup (e : Ty) : ∀ (vs : List Payload), Value.pairsOk e vs = true → noDup e vs = true →
    noDupS e vs = true := by
  intro vs hp
  have hp' : ∀ x ∈ vs, ∀ y ∈ vs, (Value.equalsP e x e y).isOk = true := by
    simpa [Value.pairsOk, List.all_eq_true] using hp
  clear hp
  induction vs with
  | nil => intro _; rfl
  | cons x xs ih =>
    intro h
    simp only [noDup, Bool.and_eq_true, List.all_eq_true, Bool.not_eq_true'] at h
    simp only [noDupS, Bool.and_eq_true, List.all_eq_true, beq_iff_eq]
    refine ⟨fun y hy => ?_, ih (fun a ha b hb => hp' a (by simp [ha]) b (by simp [hb])) h.2⟩
    rw [equivR_of_isOk (hp' x (by simp) y (by simp [hy])), h.1 y hy]

/-! ### the oracle does not matter where there is no capsule type -/

mutual
theorem decapTy_id : ∀ (t : Ty), hasCapsTy t = false → decapTy t = t
  | .capsule _, h => by simp [hasCapsTy] at h
  | .list e, h => by simp only [hasCapsTy] at h; simp [decapTy, decapTy_id e h]
  | .set e, h => by simp only [hasCapsTy] at h; simp [decapTy, decapTy_id e h]
  | .map e, h => by simp only [hasCapsTy] at h; simp [decapTy, decapTy_id e h]
  | .tuple es, h => by simp only [hasCapsTy] at h; simp [decapTy, decapTyL_id es h]
  | .object ns ts os, h => by simp only [hasCapsTy] at h; simp [decapTy, decapTyL_id ts h]
  | .bool, _ | .number, _ | .string, _ | .dyn, _ => by simp [decapTy]
theorem decapTyL_id : ∀ (ts : List Ty), hasCapsTyL ts = false → decapTyL ts = ts
  | [], _ => rfl
  | t :: ts, h => by
    simp only [hasCapsTyL, Bool.or_eq_false_iff] at h
    simp [decapTyL, decapTy_id t h.1, decapTyL_id ts h.2]
end

mutual
theorem relabel_id (cid : Nat → Nat) : ∀ (t : Ty) (p : Payload) (k : Nat), hasCapsTy t = false →
    Payload.wfP nfc t p = true → relabel cid p k = p
  | t, .marked ms r, k, hc, h => by
    simp only [Payload.wfP_marked, Bool.and_eq_true] at h
    simp [relabel, relabel_id cid t r k hc h.2]
  | _, .null, _, _, _ | _, .unk _, _, _, _ | _, .b _, _, _, _ | _, .n _, _, _, _ | _, .s _, _, _, _
  | _, .bad _, _, _, _ => by simp [relabel]
  | t, .caps, _, hc, h => by cases t <;> simp [Payload.wfP, hasCapsTy] at h hc
  | t, .seq vs, k, hc, h => by
    cases t <;> simp [Payload.wfP] at h
    · simp only [hasCapsTy] at hc; simp [relabel, relabelAll_id cid _ vs k hc h]
    · simp only [hasCapsTy] at hc; simp [relabel, relabelZip_id cid _ vs k hc h.1 h.2]
  | t, .smap ks vs, k, hc, h => by
    cases t <;> simp [Payload.wfP] at h
    · simp only [hasCapsTy] at hc; simp [relabel, relabelAll_id cid _ vs k hc h.2]
    · simp only [hasCapsTy] at hc; simp [relabel, relabelZip_id cid _ vs k hc h.1.2 h.2]
  | t, .sset ids vs, k, hc, h => by
    cases t <;> simp [Payload.wfP] at h
    simp only [hasCapsTy] at hc; simp [relabel, relabelAll_id cid _ vs k hc h.2]
theorem relabelAll_id (cid : Nat → Nat) : ∀ (e : Ty) (vs : List Payload) (k : Nat), hasCapsTy e = false →
    Payload.wfAll nfc e vs = true → relabelL cid vs k = vs
  | _, [], _, _, _ => rfl
  | e, v :: vs, k, hc, h => by
    simp only [Payload.wfAll, Bool.and_eq_true] at h
    simp [relabelL, relabel_id cid e v k hc h.1, relabelAll_id cid e vs _ hc h.2]
theorem relabelZip_id (cid : Nat → Nat) : ∀ (ts : List Ty) (vs : List Payload) (k : Nat), hasCapsTyL ts = false →
    ts.length = vs.length → Payload.wfZip nfc ts vs = true → relabelL cid vs k = vs
  | _, [], _, _, _, _ => rfl
  | [], _ :: _, _, _, hl, _ => by simp at hl
  | t :: ts, v :: vs, k, hc, hl, h => by
    simp only [Payload.wfZip, Bool.and_eq_true] at h
    simp only [hasCapsTyL, Bool.or_eq_false_iff] at hc
    simp [relabelL, relabel_id cid t v k hc.1 h.1, relabelZip_id cid ts vs _ hc.2 (by simpa using hl) h.2]
end

/-- for a well-formed value of a capsule-free type the capsule oracle is irrelevant: the strict clause
speaks about the value itself -/
theorem dupFreeC_of_noCaps (cid : Nat → Nat) {v : Value} (hc : hasCapsTy v.ty = false) (hv : v.WF nfc = true) :
    dupFreeC cid v = setsDupFree v.ty v.v := by
  simp only [Value.WF, Bool.and_eq_true] at hv
  simp [dupFreeC, decapTy_id _ hc, relabel_id cid _ _ 0 hc hv.2]

theorem WFc_of_noCaps (cid cid' : Nat → Nat) {v : Value} (hc : hasCapsTy v.ty = false) :
    v.WFc cid nfc = v.WFc cid' nfc := by
  simp only [Value.WFc]
  cases hv : v.WF nfc with
  | false => simp
  | true => simp [dupFreeC_of_noCaps cid hc hv, dupFreeC_of_noCaps cid' hc hv]

theorem WF_of_WFc {cid : Nat → Nat} {v : Value} (h : v.WFc cid nfc = true) : v.WF nfc = true := by
  simp only [Value.WFc, Bool.and_eq_true] at h; exact h.1

/-! ### `SetVal` returns a STRICTLY duplicate-free set -/

theorem mem_map_fst_values {et : Ty} {l : List (Payload × Int)} {p : Payload}
    (h : p ∈ (SetImpl.values (SetImpl.fromList (Value.setRules et) l)).map (·.1))
    (hsym : ∀ a ∈ l, ∀ b ∈ l, (Value.setRules et).equiv a b = false → (Value.setRules et).equiv b a = false) :
    p ∈ l.map (·.1) := by
  obtain ⟨m, hm, rfl⟩ := List.mem_map.mp h
  exact List.mem_map.mpr ⟨m, SetImpl.J_mem_values (SetImpl.J_fromList (R := Value.setRules et) hsym) hm, rfl⟩

theorem pairsOk_sub {e : Ty} {big small : List Payload} (h : Value.pairsOk e big = true)
    (hsub : ∀ p ∈ small, p ∈ big) : Value.pairsOk e small = true := by
  simp only [Value.pairsOk, List.all_eq_true] at h ⊢
  exact fun x hx y hy => h x (hsub x hx) y (hsub y hy)

theorem withMarkSets_unmark (v : Value) (mss : List (List String)) (hm : v.isMarked = false) :
    (Fn.withMarkSets v mss).unmark = v := by
  obtain ⟨t, p⟩ := v
  simp only [Value.isMarked] at hm
  unfold Fn.withMarkSets
  split
  · cases p <;> simp_all [Value.unmark, Payload.unmark1, Payload.isMarked]
  · simp only [Value.withMarks, Payload.withMarks, Value.unmark]
    split
    · cases p <;> simp_all [Payload.unmark1, Payload.isMarked]
    · cases p <;> simp_all [Payload.unmark1, Payload.isMarked]

/-- `SetVal`, whenever it returns (same hypotheses as `wf_setVal_partial`): below its one mark layer the
result is a set value whose members are strictly duplicate-free — every pair has an `Equals` the model
evaluates, none is known true -/
theorem setVal_noDupS {ws : List Value} {hs : List Int} {r : Value} (h : Value.setValH ws hs = .ok r)
    (hws : ∀ w ∈ ws, w.WF nfc = true)
    (hok : ∀ et, Gocty.elemTypeOf .dyn (ws.map Value.setMember) = .ok et →
      Value.setRulesOk et ((Gocty.payloads (ws.map Value.setMember)).zip hs) = true) :
    ∃ et ids vs, r.unmark = ⟨.set et, .sset ids vs⟩ ∧ noDupS et vs = true := by
  have hwf := Value.wf_setVal_partial h hws hok
  unfold Value.setValH at h
  split at h
  · cases h
  · simp only at h
    split at h <;> try cases h
    rename_i et he
    split at h
    · cases h
    · rename_i hpo
      simp only [Res.ok.injEq] at h
      subst h
      have ⟨hsym, _⟩ := Value.setRulesOk_spec (hok et he)
      refine ⟨et, _, _, withMarkSets_unmark _ _ rfl, ?_⟩
      have hsub : ∀ p ∈ (SetImpl.values (SetImpl.fromList (Value.setRules et)
          ((Gocty.payloads (ws.map Value.setMember)).zip hs))).map (·.1),
          p ∈ Gocty.payloads (ws.map Value.setMember) := by
        intro p hp
        have := mem_map_fst_values hp hsym
        obtain ⟨m, hm, rfl⟩ := List.mem_map.mp this
        exact (List.of_mem_zip hm).1
      have hpo' : Value.pairsOk et (Gocty.payloads (ws.map Value.setMember)) = true := by simpa using hpo
      apply noDupS_of_noDup et _ (pairsOk_sub hpo' hsub)
      -- the non-strict clause is part of the result's well-formedness
      have hwf' := Value.wf_unmark hwf
      rw [withMarkSets_unmark _ _ rfl] at hwf'
      simp only [Value.WF, Payload.wfP, Bool.and_eq_true] at hwf'
      exact hwf'.2.1.2

/-! ### the audit's witness: the old clause passes for the wrong reason, the strict one does not -/

/-- a set holding the SAME capsule twice: `Value.WF` accepts it (its `noDup` reads the unmodelled capsule
`Equals` as "not equivalent"); `WFc` rejects it, and accepts the set of two different capsules -/
theorem wrong_reason_witness :
    Value.WF (fun _ => true) ⟨.set (.capsule 1), .sset [5, 5] [.caps, .caps]⟩ = true ∧
    Value.WFc (cidOf [1, 1]) (fun _ => true) ⟨.set (.capsule 1), .sset [5, 5] [.caps, .caps]⟩ = false ∧
    Value.WFc (cidOf [1, 2]) (fun _ => true) ⟨.set (.capsule 1), .sset [5, 5] [.caps, .caps]⟩ = true ∧
    Value.WF (fun _ => true) ⟨.set (.tuple [.capsule 1]), .sset [5, 5] [.seq [.caps], .seq [.caps]]⟩ = true ∧
    Value.WFc (cidOf [7, 7]) (fun _ => true) ⟨.set (.tuple [.capsule 1]), .sset [5, 5] [.seq [.caps], .seq [.caps]]⟩ = false := by
  decide

end D06
end CtyModel
