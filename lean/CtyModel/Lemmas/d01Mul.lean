/-
C01, Multiply on weakened operands: soundness under the two side conditions that
remain once rounding and infinite bounds are dealt with (Lemmas/d01Range.lean) —
`CohMul` (a result range that cty collapses to a known number is a single value)
and `ZeroBoundsNumber` (OpsMul.lean).  The case analysis over the zero exits is
that of `mulU_sound_partial` (OpsMul.lean).
-/
import CtyModel.Lemmas.d01Range
namespace CtyModel
open Value Cov NumCmp

/-- the side condition of `sound_mul`: when both weakened operands are number-typed,
a result range whose two ends are equal FOR CTY (`rawNumberEqual`, which compares
shortest decimal texts of non-integers) — and which cty therefore collapses to a
known number — has two ends of equal value.  Always true when both ends are integers
or one is infinite. -/
def CohMul (w₁ w₂ : Value) : Bool :=
  match numBounds w₁, numBounds w₂ with
  | some (l1, h1), some (l2, h2) => cohOK (newMinOf Num.mulCty l1 h1 l2 h2) (newMaxOf Num.mulCty l1 h1 l2 h2)
  | _, _ => true

/-- no short circuit in the concrete call -/
theorem mulU0_sound_none_coh (o₁ o₂ w₁ w₂ r : Value) (hk₁ : o₁.whollyKnown = true) (hk₂ : o₂.whollyKnown = true)
    (hmw₁ : w₁.isMarked = false) (hmw₂ : w₂.isMarked = false)
    (hc₁ : CoversX w₁ o₁ = true) (hc₂ : CoversX w₂ o₂ = true) (hside : CohMul w₁ w₂ = true)
    (hto : typeCheck .number [o₁, o₂] = .ok .none)
    (ho : mulU0 o₁ o₂ = .ok r) : ∃ r', mulU0 w₁ w₂ = .ok r' ∧ Covers r' r = true := by
  have hg₁ : CoversG true w₁ o₁ = true := hc₁
  have hg₂ : CoversG true w₂ o₂ = true := hc₂
  unfold mulU0 at ho ⊢
  rw [hto, Res.bind_ok] at ho
  obtain ⟨tcw, htw⟩ := tc2_ok_of_covers (Or.inr rfl) hg₁ hg₂ hto
  obtain ⟨wt1, wt2, wd, wn⟩ := tc2_number_inv htw
  obtain ⟨ot1, ot2, od, on⟩ := tc2_number_inv hto
  rw [htw, Res.bind_ok]
  simp only at ho
  obtain ⟨x, hx, ho⟩ := Res.bind_eq_ok.mp ho
  obtain ⟨y, hy, ho⟩ := Res.bind_eq_ok.mp ho
  obtain ⟨z, hz, ho⟩ := Res.bind_eq_ok.mp ho
  simp only [pure, Res.ok.injEq] at ho
  subst ho
  have dynCase : (w₁.ty = .dyn ∨ w₂.ty = .dyn) →
      ∃ r', rangeArithC cornerMul w₁ w₂ = .ok r' ∧ Covers r' (numVal z) = true := by
    intro hd
    refine ⟨_, rangeArithMul_dyn hmw₁ hmw₂ wt1 wt2 hd, ?_⟩
    by_cases hzb : (zeroBounded w₁ || zeroBounded w₂) = true
    · simp only [hzb, if_true]
      rcases (Bool.or_eq_true _ _).mp hzb with h | h
      · exact covers_zeroVal_numVal (Num.mulCty_isZero_left (isZero_of_zeroBounded_covers hg₁ hx hmw₁ wt1 h) hz)
      · exact covers_zeroVal_numVal (Num.mulCty_isZero_right (isZero_of_zeroBounded_covers hg₂ hy hmw₂ wt2 h) hz)
    · simp only [hzb, Bool.false_eq_true, if_false]
      exact covers_unkNum_numVal z
  have short : ∃ r', rangeArithC cornerMul w₁ w₂ = .ok r' ∧ Covers r' (numVal z) = true := by
    rcases wt1 with t1 | t1
    · rcases wt2 with t2 | t2
      · obtain ⟨raw1, l1, h1, r1, lo1, hi1, b1, c1⟩ := range_bounds_of_covers hg₁ (asNum_inv hx) hmw₁ t1
        obtain ⟨raw2, l2, h2, r2, lo2, hi2, b2, c2⟩ := range_bounds_of_covers hg₂ (asNum_inv hy) hmw₂ t2
        have nb1 : numBounds w₁ = some (l1, h1) := by simp [numBounds, r1, lo1, hi1]
        have nb2 : numBounds w₂ = some (l2, h2) := by simp [numBounds, r2, lo2, hi2]
        refine ⟨_, rangeArithMul_bounds r1 r2 lo1 hi1 lo2 hi2, ?_⟩
        have hs := hside
        simp only [CohMul, nb1, nb2] at hs
        exact mul_range_cover_ext b1 c1 b2 c2 hz (cohOK_spec hs)
      · exact dynCase (Or.inr t2)
    · exact dynCase (Or.inl t1)
  rcases tc_cases tcw with rfl | rfl | rfl
  · obtain ⟨_, u1, u2⟩ := tc2_none_of_covers (Or.inr rfl) hk₁ hk₂ hg₁ hg₂ htw
    have e1 := eq_of_coversX_num hc₁ (asNum_inv hx) (on (by simp)).1 (wn (by simp)).1 hmw₁ u1
    have e2 := eq_of_coversX_num hc₂ (asNum_inv hy) (on (by simp)).2 (wn (by simp)).2 hmw₂ u2
    subst e1 e2
    simp only [hx, hy, hz, Res.bind_ok, pure]
    exact ⟨_, rfl, covers_numVal_self _⟩
  · exact short
  · exact short

/-- Multiply is sound under `CohMul` (a collapsed result range is one value) and
`ZeroBoundsNumber` (a `[0, 0]`-bounded weakening stands for a number) -/
theorem mulU_sound_coh (o₁ o₂ w₁ w₂ r : Value) (hk₁ : o₁.whollyKnown = true) (hk₂ : o₂.whollyKnown = true)
    (hmo₁ : o₁.isMarked = false) (hmo₂ : o₂.isMarked = false) (hmw₁ : w₁.isMarked = false) (hmw₂ : w₂.isMarked = false)
    (hc₁ : CoversX w₁ o₁ = true) (hc₂ : CoversX w₂ o₂ = true) (hside : CohMul w₁ w₂ = true)
    (hzb₁ : ZeroBoundsNumber w₁ o₁ = true) (hzb₂ : ZeroBoundsNumber w₂ o₂ = true)
    (ho : mulU o₁ o₂ = .ok r) : ∃ r', mulU w₁ w₂ = .ok r' ∧ Covers r' r = true := by
  have hg₁ : CoversG true w₁ o₁ = true := hc₁
  have hg₂ : CoversG true w₂ o₂ = true := hc₂
  obtain ⟨tco, hto⟩ : ∃ tc, typeCheck .number [o₁, o₂] = .ok tc := by
    unfold mulU at ho
    obtain ⟨tc, htc, _⟩ := Res.bind_eq_ok.mp ho
    exact ⟨tc, htc⟩
  obtain ⟨tcw, htw⟩ := tc2_ok_of_covers (Or.inr rfl) hg₁ hg₂ hto
  obtain ⟨wt1, wt2, wd, wn⟩ := tc2_number_inv htw
  obtain ⟨ot1, ot2, od, on⟩ := tc2_number_inv hto
  have hdyn : tco ≠ .none → tco = .dynamic := by
    intro hne
    rcases tc_cases tco with h | h | h
    · exact absurd h hne
    · exact h
    · exact absurd h (tc2_not_unknown hk₁ hk₂ hto)
  by_cases hzw : (rawEqualsZero w₁ || rawEqualsZero w₂) = true
  · -- a weakened operand is a known zero: it is the concrete operand itself
    have hzo : (rawEqualsZero o₁ || rawEqualsZero o₂) = true := by
      rcases (Bool.or_eq_true _ _).mp hzw with h | h
      · simp [rawEqualsZero_of_coversX hc₁ h hmo₁]
      · simp [rawEqualsZero_of_coversX hc₂ h hmo₂]
    by_cases hn : tcw = .none
    · subst hn
      obtain ⟨hton, _, _⟩ := tc2_none_of_covers (Or.inr rfl) hk₁ hk₂ hg₁ hg₂ htw
      rw [mulU_eq_mulU0 hton (Or.inl rfl)] at ho
      rw [mulU_eq_mulU0 htw (Or.inl rfl)]
      exact mulU0_sound_none_coh o₁ o₂ w₁ w₂ r hk₁ hk₂ hmw₁ hmw₂ hc₁ hc₂ hside hton ho
    · exact ⟨zeroVal, mulU_eq_zero htw hn hzw, mulU_zero_operand hzo ho⟩
  · have hzw' : (rawEqualsZero w₁ || rawEqualsZero w₂) = false := by simpa using hzw
    rw [mulU_eq_mulU0 htw (Or.inr hzw')]
    by_cases hn : tco = .none
    · subst hn
      rw [mulU_eq_mulU0 hto (Or.inl rfl)] at ho
      exact mulU0_sound_none_coh o₁ o₂ w₁ w₂ r hk₁ hk₂ hmw₁ hmw₂ hc₁ hc₂ hside hto ho
    · have hd := hdyn hn
      subst hd
      have hdw : w₁.ty = .dyn ∨ w₂.ty = .dyn := by
        rcases od rfl with h | h
        · exact Or.inl (covers_ty_dyn hg₁ h)
        · exact Or.inr (covers_ty_dyn hg₂ h)
      cases hzo : (rawEqualsZero o₁ || rawEqualsZero o₂)
      · rw [mulU_eq_mulU0 hto (Or.inr hzo)] at ho
        exact mulU0_sound_dyn o₁ o₂ w₁ w₂ r hk₁ hk₂ hmo₁ hmo₂ hmw₁ hmw₂ hc₁ hc₂ hzb₁ hzb₂ hto hzo ho
      · -- only the concrete call leaves through the zero exit; the weakened call answers a
        -- zero (both bounds of the zero's weakening are zeros) or an unknown number
        rw [mulU_eq_zero hto hn hzo] at ho
        simp only [Res.ok.injEq] at ho
        subst ho
        have hrw := rangeArithMul_dyn hmw₁ hmw₂ wt1 wt2 hdw
        have hcov : Covers (if zeroBounded w₁ || zeroBounded w₂ then zeroVal else unkNumNotNull) zeroVal = true := by
          split
          · exact covers_zeroVal_numVal rfl
          · exact covers_unkNum_zeroVal
        refine ⟨_, ?_, hcov⟩
        unfold mulU0
        rw [htw, Res.bind_ok]
        rcases tc_cases tcw with rfl | rfl | rfl
        · rcases hdw with h | h
          · rw [(wn (by simp)).1] at h; cases h
          · rw [(wn (by simp)).2] at h; cases h
        · exact hrw
        · exact hrw


/-! ### the old side conditions imply the new ones -/

theorem addSafe_of_fits {u1 u2 x y : Num} (h1 : Num.addFits u1 u2 = true) (h2 : Num.addFits x y = true) :
    Num.addSafe u1 u2 x y = true := by
  rw [Num.addFits_eq] at h1 h2
  simp [Num.addSafe, h1, h2]

/-- both sums rounded at the same precision: nothing else is asked -/
theorem addSafe_of_prec_eq {u1 u2 x y : Num} (h : max u1.prec u2.prec = max x.prec y.prec) :
    Num.addSafe u1 u2 x y = true := by
  simp [Num.addSafe, h]

theorem cornerSafeAdd_of_exact {w₁ w₂ o₁ o₂ : Value} (h : CornerExactAdd w₁ w₂ o₁ o₂ = true) :
    CornerSafeAdd w₁ w₂ o₁ o₂ = true := by
  unfold CornerExactAdd at h
  unfold CornerSafeAdd
  split <;> simp_all
  exact ⟨addSafe_of_fits h.1.1.1 h.1.2, addSafe_of_fits h.1.2 h.1.1.2⟩

theorem cornerSafeSub_of_exact {w₁ w₂ o₁ o₂ : Value} (h : CornerExactSub w₁ w₂ o₁ o₂ = true) :
    CornerSafeSub w₁ w₂ o₁ o₂ = true := by
  unfold CornerExactSub at h
  unfold CornerSafeSub
  split <;> simp_all
  exact ⟨addSafe_of_fits h.1.1.1 h.1.2, addSafe_of_fits h.1.2 h.1.1.2⟩

theorem cohMul_of_exact {w₁ w₂ o₁ o₂ : Value} {x y : Num} (hx : asNum o₁ = .ok x) (hy : asNum o₂ = .ok y)
    (h : CornerExactMul w₁ w₂ o₁ o₂ = true) : CohMul w₁ w₂ = true := by
  unfold CornerExactMul at h
  unfold CohMul
  rw [hx, hy] at h
  split <;> simp_all

/-! ### an operand without bounds: the result range never collapses -/

theorem cornerOf_mul_inf (b : Bool) (v : Num) :
    cornerOf Num.mulCty (.inf b) v = if v.isZero then none else some (.inf (b != v.signbit)) := by
  cases v with
  | inf n => rfl
  | fin n m e p =>
    cases m with
    | zero => rfl
    | succ k => simp [cornerOf, Num.mulCty, Num.isZero, Num.signbit]

/-- the weakened operand is unbounded on both sides (an unrefined unknown number):
the corner products are infinities of both signs, or one of them is undefined -/
theorem cohMul_of_unbounded {w₁ w₂ : Value} (h : numBounds w₁ = some (.inf true, .inf false)) : CohMul w₁ w₂ = true := by
  unfold CohMul
  rw [h]
  cases hb : numBounds w₂ with
  | none => rfl
  | some lh =>
    obtain ⟨l2, h2⟩ := lh
    simp only [newMinOf, newMaxOf, cornersOf, cornerOf_mul_inf]
    cases l2.isZero <;> cases h2.isZero <;> cases l2.signbit <;> cases h2.signbit <;> decide

/-! ### Negate and Absolute on an unknown operand: what the code returns -/

/-- `Negate` of ANY unknown number — refined or not — and of `DynamicVal` is the
unrefined not-null unknown number: the range of the operand is dropped, not mirrored
(a mirrored range would have to swap the two inclusiveness flags with the bounds) -/
theorem negU_unknown (t : Ty) (r : Rfn) (ht : t = .number ∨ t = .dyn) : negU ⟨t, .unk r⟩ = .ok unkNumNotNull := by
  rcases ht with rfl | rfl <;> rfl

/-- `Absolute` of any unknown number is "not null, at least zero", whatever its range was -/
theorem absU_unknown (t : Ty) (r : Rfn) (ht : t = .number ∨ t = .dyn) : absU ⟨t, .unk r⟩ = .ok absUnk := by
  rcases ht with rfl | rfl <;> rfl

end CtyModel
