/-
Two small program logics over the outcome type `Res`, used to walk the
`do`-blocks of the transliterated operation methods:

* `Res.All P m`   — if `m` succeeds, its value satisfies `P`   (unary: "results carry no mark");
* `Res.Rel R m m'` — `m` and `m'` end in the same outcome class (same error /
  panic text even) and their values are related by `R`        (binary: non-interference).
-/
import CtyModel.Lemmas.MarksSets
namespace CtyModel

/-- a property of the value of a successful outcome -/
def Res.All {α} (P : α → Prop) : Res α → Prop
  | .ok a => P a
  | _ => True

/-- two outcomes of the same class whose successful values are related -/
def Res.Rel {α β} (R : α → β → Prop) : Res α → Res β → Prop
  | .ok a, .ok b => R a b
  | .err c, .err d => c = d
  | .panic w, .panic w' => w = w'
  | .unmodelled, .unmodelled => True
  | _, _ => False

namespace Res
variable {α β α' β' : Type} {P : β → Prop}

theorem All.pure {a : β} (h : P a) : All P (Pure.pure a : Res β) := h
theorem All.ok {a : β} (h : P a) : All P (Res.ok a) := h
theorem All.panic {w : String} : All P (Res.panic w : Res β) := trivial
theorem All.unmodelled : All P (Res.unmodelled : Res β) := trivial
theorem All.bind {m : Res α} {f : α → Res β} (h : ∀ a, All P (f a)) : All P (m >>= f) := by
  cases m <;> simp [All]
  exact h _
theorem All.bind' {m : Res α} {f : α → Res β} (h : ∀ a, m = .ok a → All P (f a)) : All P (m >>= f) := by
  cases m <;> simp [All]
  exact h _ rfl
theorem All.map {γ} {m : Res α} {f : α → γ} {Q : γ → Prop} (h : ∀ a, Q (f a)) : All Q (m.map f) := by
  cases m <;> simp [All, Res.map]
  exact h _
theorem All.map' {γ} {m : Res α} {f : α → γ} {Q : γ → Prop} {P : α → Prop} (hm : All P m) (h : ∀ a, P a → Q (f a)) :
    All Q (m.map f) := by
  cases m <;> simp_all [All, Res.map]
theorem All.ite {c : Prop} [Decidable c] {x y : Res β} (hx : c → All P x) (hy : ¬c → All P y) :
    All P (if c then x else y) := by
  split
  · exact hx ‹_›
  · exact hy ‹_›
theorem All.of_eq {m : Res β} (h : All P m) {r : β} (e : m = .ok r) : P r := by
  subst e; exact h
theorem All.mono {Q : β → Prop} {m : Res β} (h : All P m) (hpq : ∀ a, P a → Q a) : All Q m := by
  cases m <;> simp_all [All]
theorem All.intro {m : Res β} (h : ∀ r, m = .ok r → P r) : All P m := by
  cases m <;> simp_all [All]

theorem Rel.of_eq {m m' : Res α} (h : m = m') : Rel Eq m m' := by subst h; cases m <;> simp [Rel]
theorem Rel.pure {R : α → β → Prop} {a : α} {b : β} (h : R a b) : Rel R (Pure.pure a) (Pure.pure b) := h
theorem Rel.ok {R : α → β → Prop} {a : α} {b : β} (h : R a b) : Rel R (Res.ok a) (Res.ok b) := h
theorem Rel.panic {R : α → β → Prop} (w : String) : Rel R (Res.panic w) (Res.panic w) := rfl
theorem Rel.unmodelled {R : α → β → Prop} : Rel R (Res.unmodelled) (Res.unmodelled) := trivial
theorem Rel.bind {S : α → β → Prop} {R : α' → β' → Prop} {m : Res α} {m' : Res β} {f : α → Res α'} {f' : β → Res β'}
    (hm : Rel S m m') (hf : ∀ a b, S a b → Rel R (f a) (f' b)) : Rel R (m >>= f) (m' >>= f') := by
  cases m <;> cases m' <;> simp_all [Rel]
/-- `bind` where the continuation may use that both first steps succeeded -/
theorem Rel.bind' {S : α → β → Prop} {R : α' → β' → Prop} {m : Res α} {m' : Res β} {f : α → Res α'} {f' : β → Res β'}
    (hm : Rel S m m') (hf : ∀ a b, S a b → m = .ok a → Rel R (f a) (f' b)) : Rel R (m >>= f) (m' >>= f') := by
  cases m <;> cases m' <;> simp_all [Rel]
theorem Rel.bind_eq {R : α' → β' → Prop} {m m' : Res α} {f : α → Res α'} {f' : α → Res β'}
    (hm : m = m') (hf : ∀ a, Rel R (f a) (f' a)) : Rel R (m >>= f) (m' >>= f') :=
  Rel.bind (Rel.of_eq hm) (fun a b h => by subst h; exact hf a)
theorem Rel.ite {R : α → β → Prop} {c c' : Prop} [Decidable c] [Decidable c'] {x y : Res α} {x' y' : Res β}
    (hc : c ↔ c') (hx : Rel R x x') (hy : Rel R y y') : Rel R (if c then x else y) (if c' then x' else y') := by
  by_cases h : c
  · simp [h, hc.mp h, hx]
  · have : ¬ c' := fun h' => h (hc.mpr h')
    simp [h, this, hy]
theorem Rel.map_eq {f : α → β} {m : Res α} {m' : Res β} (h : Rel (fun a b => f a = b) m m') : m.map f = m' := by
  cases m <;> cases m' <;> simp_all [Rel, Res.map]
/-- a run whose successful values are fixed by `f`, against itself -/
theorem Rel.of_all {f : α → α} {m : Res α} (h : All (fun a => f a = a) m) : Rel (fun a b => f a = b) m m := by
  cases m <;> simp_all [Rel, All]
theorem Rel.map_left {γ} {R : γ → β → Prop} {g : α → γ} {m : Res α} {m' : Res β}
    (h : Rel (fun a b => R (g a) b) m m') : Rel R (m.map g) m' := by
  cases m <;> cases m' <;> simp_all [Rel, Res.map]
end Res

namespace Value

/-- no mark anywhere in the value -/
def Clean (r : Value) : Prop := r.v.containsMarked = false

theorem Clean.unmarkDeep {r : Value} (h : r.Clean) : r.unmarkDeep = r := unmarkDeep_of_clean h
theorem Clean.marksDeep {r : Value} (h : r.Clean) : r.marksDeep = [] := Payload.marksDeep_of_not_containsMarked _ h
theorem clean_unmarkDeep (v : Value) : v.unmarkDeep.Clean := Payload.containsMarked_stripMarks _

theorem clean_numVal (n : Num) : Clean (numVal n) := rfl
theorem clean_boolVal (b : Bool) : Clean (boolVal b) := rfl
theorem clean_intVal (i : Int) : Clean (intVal i) := rfl
theorem clean_unkBool : Clean unkBool := rfl
theorem clean_unkNumNotNull : Clean unkNumNotNull := rfl
theorem clean_unknown (t : Ty) : Clean (unknown t) := rfl
theorem clean_dynVal : Clean dynVal := rfl
theorem clean_numRangeResult (lo hi : Option Num) : Clean (numRangeResult lo hi) := by
  unfold numRangeResult
  split
  · split <;> rfl
  · rfl

end Value
end CtyModel
