/-
C11 totality obligations discharged for `hasindex` (collection.go HasIndexFunc): the four
hypotheses of `Fn.call_total_of_obligations` hold of the MODELLED callbacks, so
`HasIndexFunc.Call` on well-formed arguments of ANY kind (null, unknown, marked, dynamically
typed, of any type) returns a value or an ordinary error.
-/
import CtyModel.Lemmas.StdOblTot1
import CtyModel.Lemmas.StdlibCall
import CtyModel.Lemmas.MarksOps
import CtyModel.Lemmas.OpsColl
namespace CtyModel
namespace Stdlib
open Fn Value
variable {nfc : String → Bool}

theorem type_total_hasIndex {as : List Value} (h : TypeArgsOK nfc hasIndexSpec as) (w : String) :
    hasIndexType as ≠ .panic w := by
  obtain ⟨a, b, rfl, _⟩ := args_inv2 h
  simp only [hasIndexType]
  split <;> simp

/-- `Value.HasIndex` on known, non-null, unmarked well-formed operands, the collection being a
list, map or tuple: no panic -/
theorem hasIndexU_total {c k : Value} (hc : c.WF nfc = true) (hk : k.WF nfc = true)
    (hcm : c.isMarked = false) (hkm : k.isMarked = false) (hck : c.isKnown = true) (hkk : k.isKnown = true)
    (hcn : c.isNull = false) (hkn : k.isNull = false)
    (ht : (isListTy c.ty || isMapTy c.ty || isTupleTy c.ty) = true) :
    ∃ r, hasIndexU c k = .ok r := by
  have hkd : k.ty.isDyn = false := by
    cases h : k.ty.isDyn
    · rfl
    · exact absurd (not_dyn_of_known_nonnull hk hkk hkn) (by simp [h])
  obtain ⟨ct, cp⟩ := c
  cases ct <;> simp [isListTy, isMapTy, isTupleTy] at ht
  · -- list
    by_cases hnum : k.ty.isNumber = true
    · obtain ⟨x, rfl⟩ := wf_number_shape hk hkm hkk hkn (by cases hh : k.ty <;> simp_all [Ty.isNumber])
      cases cp <;> simp_all [hasIndexU, keyIndex, Value.WF, Payload.wfP, Value.isMarked, Value.isKnown, Value.isNull,
        Payload.isMarked, Payload.isKnown, Payload.isNull, Payload.unmark1, Ty.isDyn, Ty.isNumber, numVal, bind, Res.bind]
      cases x.toInt? with
      | none => simp
      | some i => by_cases hi : i < 0 ∨ maxInt < i <;> simp [hi]
    · obtain ⟨kt, kp⟩ := k
      cases kt <;> simp_all [hasIndexU, Ty.isDyn, Ty.isNumber]
  · -- map
    by_cases hstr : k.ty.isString = true
    · obtain ⟨x, rfl⟩ := wf_string_shape hk hkm hkk hkn (by cases hh : k.ty <;> simp_all [Ty.isString])
      cases cp <;> simp_all [hasIndexU, Value.WF, Payload.wfP, Value.isMarked, Value.isKnown, Value.isNull,
        Payload.isMarked, Payload.isKnown, Payload.isNull, Payload.unmark1, Ty.isDyn, Ty.isString, strVal]
    · obtain ⟨kt, kp⟩ := k
      cases kt <;> simp_all [hasIndexU, Ty.isDyn, Ty.isString]
  · -- tuple
    by_cases hnum : k.ty.isNumber = true
    · obtain ⟨x, rfl⟩ := wf_number_shape hk hkm hkk hkn (by cases hh : k.ty <;> simp_all [Ty.isNumber])
      simp [hasIndexU, keyIndex, Ty.isDyn, Ty.isNumber, numVal, Value.isKnown, Payload.isKnown, Payload.unmark1, bind, Res.bind]
      cases x.toInt? with
      | none => simp
      | some i => by_cases hi : i < 0 ∨ maxInt < i <;> simp [hi]
    · obtain ⟨kt, kp⟩ := k
      cases kt <;> simp_all [hasIndexU, Ty.isDyn, Ty.isNumber]


/-- what the contract of `hasindex`'s parameters (no null, no unknown, no marks) gives for one argument -/
theorem hasIndex_arg {p : Param} {a : Value} (hp : p = { ty := .dyn, allowDynamic := true }) (h : ImplArgOK nfc p a) :
    a.WF nfc = true ∧ a.isMarked = false ∧ a.isKnown = true ∧ a.isNull = false := by
  subst hp
  refine ⟨h.wf, ?_, ?_, ?_⟩
  · exact isMarked_of_clean (h.mark rfl)
  · cases hk : a.isKnown
    · exact absurd (h.unk hk) (by simp)
    · rfl
  · cases hn : a.isNull
    · rfl
    · exact absurd (h.null hn) (by simp)

/-- `Impl` of `hasindex`, handed arguments satisfying the contract and the type `Type` answered:
it answers a boolean or the non-null unknown boolean -/
theorem implGood_hasIndex {as : List Value} {rt : Ty} (h : ImplArgsOK nfc hasIndexSpec as)
    (ht : hasIndexType as = .ok rt) :
    rt = .bool ∧ ∃ r, hasIndexImpl as rt = .ok r ∧ (r = unkBool ∨ ∃ b, r = boolVal b) := by
  obtain ⟨c, k, rfl, hc, hk⟩ := args_inv2 h
  obtain ⟨hcw, hcm, hck, hcn⟩ := hasIndex_arg rfl hc
  obtain ⟨hkw, hkm, hkk, hkn⟩ := hasIndex_arg rfl hk
  have hcd : c.ty.isDyn = false := by
    cases hd : c.ty.isDyn
    · rfl
    · exact absurd (not_dyn_of_known_nonnull hcw hck hcn) (by simp [hd])
  have hty : (isListTy c.ty || isMapTy c.ty || isTupleTy c.ty) = true ∧ rt = .bool := by
    simp only [hasIndexType] at ht
    cases hct : c.ty <;> simp_all [isListTy, isMapTy, isTupleTy, Ty.isDyn]
  obtain ⟨r, hr⟩ := hasIndexU_total hcw hkw hcm hkm hck hkk hcn hkn hty.1
  refine ⟨hty.2, r, ?_, hasIndexU_result hr⟩
  simp [hasIndexImpl, Value.hasIndex, binMarks, hcm, hkm, hr]

theorem refineNN_unkBool : refineNN unkBool ≠ none := by decide

/-- **`HasIndexFunc.Call` is total**: on well-formed arguments of any kind it returns a value or an
ordinary error — no Go panic, no `PanicError`. -/
theorem call_total_hasIndex (args : List Value) (hargs : ∀ a ∈ args, a.WF nfc = true) :
    (∀ w, (call hasIndexSpec hasIndexType hasIndexImpl args).1 ≠ .panic w) ∧
    (∀ w, (call hasIndexSpec hasIndexType hasIndexImpl args).1 ≠ .err (.panicError w)) := by
  refine call_total_of_obligations nfc hasIndexSpec hasIndexType hasIndexImpl
    (fun as w h => type_total_hasIndex h w) ?_ ?_ ?_ args hargs
  · intro as rt w h ht
    obtain ⟨_, r, hr, _⟩ := implGood_hasIndex h ht
    rw [hr]; simp
  · intro as rt v h ht hv
    obtain ⟨hrt, r, hr, hs⟩ := implGood_hasIndex h ht
    rw [hr] at hv; cases hv; subst hrt
    rcases hs with rfl | ⟨b, rfl⟩
    · rfl
    · cases b <;> rfl
  · intro rf hrf
    have : rf = refineNN := by simpa [hasIndexSpec] using hrf.symm
    subst this
    refine ⟨fun as rt v h ht hv => ?_, fun as rt _ _ _ => refineNN_unknown rt⟩
    obtain ⟨_, r, hr, hs⟩ := implGood_hasIndex h ht
    rw [hr] at hv; cases hv
    rcases hs with rfl | ⟨b, rfl⟩
    · exact refineNN_unkBool
    · cases b <;> decide

end Stdlib
end CtyModel
