/-
d03 — `Equals` on MARKED operands (audit item 2: "the marked case is prose only").
`Value.equals` strips every mark of both operands, compares, and re-applies the
union of all marks: stripping keeps well-formedness, and the union of two (sorted)
mark sets is commutative, so symmetry carries over.
-/
import CtyModel.Lemmas.ValEqSymm
import CtyModel.Lemmas.MarksSets
import CtyModel.Lemmas.FnCall
namespace CtyModel
open Value Payload

mutual
theorem marksDeep_sorted : ∀ p : Payload, MSorted p.marksDeep
  | .marked ms r => by simp only [Payload.marksDeep]; exact unionMarks_sorted ms (marksDeep_sorted r)
  | .seq vs => by simp only [Payload.marksDeep]; exact marksDeepL_sorted vs
  | .smap _ vs => by simp only [Payload.marksDeep]; exact marksDeepL_sorted vs
  | .sset _ vs => by simp only [Payload.marksDeep]; exact marksDeepL_sorted vs
  | .null => MSorted.nil
  | .unk _ => MSorted.nil
  | .b _ => MSorted.nil
  | .n _ => MSorted.nil
  | .s _ => MSorted.nil
  | .caps => MSorted.nil
  | .bad _ => MSorted.nil
theorem marksDeepL_sorted : ∀ vs : List Payload, MSorted (Payload.marksDeepL vs)
  | [] => MSorted.nil
  | v :: vs => by simp only [Payload.marksDeepL]; exact unionMarks_sorted _ (marksDeepL_sorted vs)
end

mutual
theorem shaped_stripMarks : ∀ (t : Ty) (p : Payload), p.shaped t = true → (Payload.stripMarks p).shaped t = true
  | t, .marked _ r, h => by
    simp only [Payload.shaped, Bool.and_eq_true] at h
    simp only [Payload.stripMarks]
    exact shaped_stripMarks t r h.2
  | t, .seq vs, h => by
    cases t <;> simp [Payload.shaped] at h
    case list e => simp only [Payload.stripMarks, Payload.shaped]; exact shapedAll_stripMarks e vs h
    case tuple ts => simp only [Payload.stripMarks, Payload.shaped]; exact shapedZip_stripMarks ts vs h
  | t, .smap ks vs, h => by
    cases t <;> simp [Payload.shaped] at h
    case map e =>
      simp only [Payload.stripMarks, Payload.shaped, Bool.and_eq_true, beq_iff_eq]
      exact ⟨⟨by rw [stripMarksL_length]; exact h.1.1, h.1.2⟩, shapedAll_stripMarks e vs h.2⟩
    case object ns ts os =>
      simp only [Payload.stripMarks, Payload.shaped, Bool.and_eq_true, decide_eq_true_eq]
      exact ⟨h.1, shapedZip_stripMarks ts vs h.2⟩
  | t, .sset ids vs, h => by
    cases t <;> simp [Payload.shaped] at h
    case set e =>
      simp only [Payload.stripMarks, Payload.shaped, Bool.and_eq_true, beq_iff_eq]
      exact ⟨by rw [stripMarksL_length]; exact h.1, shapedAll_stripMarks e vs h.2⟩
  | _, .null, h => h
  | _, .unk _, h => h
  | _, .b _, h => h
  | _, .n _, h => h
  | _, .s _, h => h
  | _, .caps, h => h
  | _, .bad _, h => h
theorem shapedAll_stripMarks : ∀ (e : Ty) (vs : List Payload), Payload.shapedAll e vs = true →
    Payload.shapedAll e (Payload.stripMarksL vs) = true
  | _, [], _ => rfl
  | e, v :: vs, h => by
    simp only [Payload.shapedAll, Bool.and_eq_true] at h
    simp only [Payload.stripMarksL, Payload.shapedAll, Bool.and_eq_true]
    exact ⟨shaped_stripMarks e v h.1, shapedAll_stripMarks e vs h.2⟩
theorem shapedZip_stripMarks : ∀ (ts : List Ty) (vs : List Payload), Payload.shapedZip ts vs = true →
    Payload.shapedZip ts (Payload.stripMarksL vs) = true
  | [], [], _ => rfl
  | [], _ :: _, h => by simp [Payload.shapedZip] at h
  | _ :: _, [], h => by simp [Payload.shapedZip] at h
  | t :: ts, v :: vs, h => by
    simp only [Payload.shapedZip, Bool.and_eq_true] at h
    simp only [Payload.stripMarksL, Payload.shapedZip, Bool.and_eq_true]
    exact ⟨shaped_stripMarks t v h.1, shapedZip_stripMarks ts vs h.2⟩
end

/-- `Equals` is symmetric on well-formed values of plain types, MARKED OR NOT, at
any depth: the same result value with the same marks in both directions. -/
theorem equals_symm_marked (a b : Value) (wa : a.shaped = true) (wb : b.shaped = true) (pa : a.ty.plain = true)
    (pb : b.ty.plain = true) : equals a b = equals b a := by
  by_cases hm : a.containsMarked = false ∧ b.containsMarked = false
  · exact equals_symm_of_wf a b wa wb pa pb hm.1 hm.2
  · have hor : (a.containsMarked || b.containsMarked) = true := by
      cases ha : a.containsMarked <;> cases hb : b.containsMarked <;> simp_all
    have hor' : (b.containsMarked || a.containsMarked) = true := by rw [Bool.or_comm]; exact hor
    simp only [Value.shaped, Bool.and_eq_true] at wa wb
    have key := equals_symm_of_wf ⟨a.ty, a.v.stripMarks⟩ ⟨b.ty, b.v.stripMarks⟩
      (by simp only [Value.shaped, Bool.and_eq_true]; exact ⟨wa.1, shaped_stripMarks _ _ wa.2⟩)
      (by simp only [Value.shaped, Bool.and_eq_true]; exact ⟨wb.1, shaped_stripMarks _ _ wb.2⟩)
      pa pb (containsMarked_stripMarks _) (containsMarked_stripMarks _)
    simp only [equals, Value.containsMarked, containsMarked_stripMarks, Bool.or_self, Bool.false_eq_true,
      if_false] at key
    simp only [equals, hor, hor', if_true, key, Value.marksDeep]
    rw [unionMarks_comm_sorted (marksDeep_sorted a.v) (marksDeep_sorted b.v)]

end CtyModel
