/-
`Equals` is symmetric — unknown results included — on well-formed mark-free
values of plain types: `equalsFuel fuel ta a tb b = equalsFuel fuel tb b ta a`.

The prologue (`equalsPre`) is symmetric for ALL operands.  The structural part
compares members pairwise in the same order in both directions, except for
maps, where each side looks the other's keys up: there symmetry needs that no
member comparison panics (`SymOk` carries totality along).
-/
import CtyModel.Lemmas.ValEqEquals
import CtyModel.Lemmas.TyConform
namespace CtyModel
open Value

/-- the prologue of `Equals` is symmetric, for all operands whatsoever -/
theorem equalsPre_symm (A B : Value) : equalsPre A B = equalsPre B A := by
  simp only [equalsPre]
  cases ha : A.isKnown <;> cases hb : B.isKnown <;> cases hna : A.isNull <;> cases hnb : B.isNull <;>
    cases hda : definitelyNotNull A <;> cases hdb : definitelyNotNull B <;> simp <;> rfl

theorem eqAccOf_accVal (acc : EqAcc) : eqAccOf (.ok (accVal acc)) = .ok acc := by cases acc <;> rfl

theorem boolVal_eq_accVal (r : Bool) : boolVal r = accVal (if r then .t else .f) := by cases r <;> rfl

/-- `ValueRange.Includes` does not panic on a known mark-free well-formed value of
the range's own type when the refinement kind fits the type -/
theorem includes_ok (t : Ty) (raw : Rfn) (hfit : raw.fits t = true) (x : Payload) (hx : x.shaped t = true)
    (kx : x.isKnown = true) (mx : x.containsMarked = false) : ∃ o, includes ⟨t, raw⟩ ⟨t, x⟩ = .ok o := by
  unfold includes
  split
  · exact ⟨_, rfl⟩
  split
  · exact ⟨_, rfl⟩
  split
  · exact ⟨_, rfl⟩
  split
  · exact ⟨_, rfl⟩
  split
  · exact ⟨_, rfl⟩
  rename_i hn1 hn2 hnull hconf hdyn
  simp only [Value.isNull] at hnull
  cases raw <;> cases t <;> simp [Rfn.fits] at hfit <;>
    cases x <;> simp [Payload.shaped, Ty.isBool, Ty.isNumber, Ty.isString, Payload.isKnown, Payload.unmark1,
      Payload.containsMarked, Payload.isNull] at hx kx mx hnull <;>
    simp <;> (try (repeat' split)) <;> (try exact ⟨_, rfl⟩)

/-- an operand of the symmetry theorem, with the fuel that suffices for it -/
structure GoodU (t : Ty) (p : Payload) (fuel : Nat) : Prop where
  wf : p.shaped t = true
  nomark : p.containsMarked = false
  depth : p.depth ≤ fuel

def GoodUAll (e : Ty) (fuel : Nat) : List Payload → Prop
  | [] => True
  | x :: xs => GoodU e x fuel ∧ GoodUAll e fuel xs

def GoodUZip (fuel : Nat) : List Ty → List Payload → Prop
  | [], [] => True
  | t :: ts, x :: xs => GoodU t x fuel ∧ GoodUZip fuel ts xs
  | _, _ => False

theorem goodUAll_of {e : Ty} {fuel : Nat} : ∀ {xs : List Payload}, Payload.shapedAll e xs = true →
    Payload.containsMarkedL xs = false → Payload.depthL xs ≤ fuel → GoodUAll e fuel xs
  | [], _, _, _ => trivial
  | x :: xs, hw, hm, hd => by
    simp only [Payload.shapedAll, Payload.containsMarkedL, Payload.depthL, Bool.and_eq_true,
      Bool.or_eq_false_iff] at hw hm hd
    exact ⟨⟨hw.1, hm.1, by omega⟩, goodUAll_of hw.2 hm.2 (by omega)⟩

theorem goodUZip_of {fuel : Nat} : ∀ {ts : List Ty} {xs : List Payload}, Payload.shapedZip ts xs = true →
    Payload.containsMarkedL xs = false → Payload.depthL xs ≤ fuel → GoodUZip fuel ts xs
  | [], [], _, _, _ => trivial
  | [], _ :: _, hw, _, _ => by simp [Payload.shapedZip] at hw
  | _ :: _, [], hw, _, _ => by simp [Payload.shapedZip] at hw
  | t :: ts, x :: xs, hw, hm, hd => by
    simp only [Payload.shapedZip, Payload.containsMarkedL, Payload.depthL, Bool.and_eq_true,
      Bool.or_eq_false_iff] at hw hm hd
    exact ⟨⟨hw.1, hm.1, by omega⟩, goodUZip_of hw.2 hm.2 (by omega)⟩

theorem goodU_of_lookupKey {e : Ty} {fuel : Nat} {k : String} : ∀ {ks : List String} {vs : List Payload}
    {y : Payload}, lookupKey k ks vs = some y → GoodUAll e fuel vs → GoodU e y fuel
  | [], _, _, h, _ => by simp [lookupKey] at h
  | _ :: _, [], _, h, _ => by simp [lookupKey] at h
  | n :: ns, v :: vs, y, h, hg => by
    simp only [lookupKey] at h
    split at h
    · cases h; exact hg.1
    · exact goodU_of_lookupKey h hg.2

/-- the recursive occurrence of `Equals` is total and symmetric on good members of one type -/
def SymOk (rec : EqRec) (fuel : Nat) : Prop :=
  ∀ (t : Ty) (x y : Payload), t.wf = true → t.plain = true → GoodU t x fuel → GoodU t y fuel →
    ∃ acc, rec t x t y = .ok (accVal acc) ∧ rec t y t x = .ok (accVal acc)

theorem equalsZip_symm {rec : EqRec} {fuel : Nat} (hr : SymOk rec fuel) : ∀ (ts : List Ty) (xs ys : List Payload),
    Ty.wfL ts = true → Ty.plainL ts = true → GoodUZip fuel ts xs → GoodUZip fuel ts ys →
    ∃ acc, equalsZip rec ts xs ys = .ok acc ∧ equalsZip rec ts ys xs = .ok acc
  | [], _, _, _, _, _, _ => ⟨.t, by simp [equalsZip], by simp [equalsZip]⟩
  | _ :: _, [], _, _, _, hx, _ => by simp [GoodUZip] at hx
  | _ :: _, _ :: _, [], _, _, _, hy => by simp [GoodUZip] at hy
  | t :: ts, x :: xs, y :: ys, hw, hp, hx, hy => by
    have hw' := Ty.wfL_cons hw
    simp only [Ty.plainL, Bool.and_eq_true] at hp
    obtain ⟨acc, h1, h2⟩ := hr t x y hw'.1 hp.1 hx.1 hy.1
    simp only [equalsZip, h1, h2, eqAccOf_accVal]
    cases acc with
    | t => exact equalsZip_symm hr ts xs ys hw'.2 hp.2 hx.2 hy.2
    | f => exact ⟨.f, rfl, rfl⟩
    | u => exact ⟨.u, rfl, rfl⟩

theorem equalsObj_symm {rec : EqRec} {fuel : Nat} (hr : SymOk rec fuel) : ∀ (ts : List Ty) (xs ys : List Payload)
    (s : Bool), Ty.wfL ts = true → Ty.plainL ts = true → GoodUZip fuel ts xs → GoodUZip fuel ts ys →
    ∃ acc, equalsObj rec ts xs ys s = .ok acc ∧ equalsObj rec ts ys xs s = .ok acc
  | [], _, _, s, _, _, _, _ => ⟨if s then .u else .t, by simp [equalsObj], by simp [equalsObj]⟩
  | _ :: _, [], _, _, _, _, hx, _ => by simp [GoodUZip] at hx
  | _ :: _, _ :: _, [], _, _, _, _, hy => by simp [GoodUZip] at hy
  | t :: ts, x :: xs, y :: ys, s, hw, hp, hx, hy => by
    have hw' := Ty.wfL_cons hw
    simp only [Ty.plainL, Bool.and_eq_true] at hp
    obtain ⟨acc, h1, h2⟩ := hr t x y hw'.1 hp.1 hx.1 hy.1
    simp only [equalsObj, h1, h2, eqAccOf_accVal]
    cases acc with
    | t => exact equalsObj_symm hr ts xs ys s hw'.2 hp.2 hx.2 hy.2
    | f => exact ⟨.f, rfl, rfl⟩
    | u => exact equalsObj_symm hr ts xs ys true hw'.2 hp.2 hx.2 hy.2

theorem equalsAll_symm {rec : EqRec} {fuel : Nat} (hr : SymOk rec fuel) (e : Ty) (hw : e.wf = true)
    (hp : e.plain = true) : ∀ (xs ys : List Payload), xs.length = ys.length → GoodUAll e fuel xs →
    GoodUAll e fuel ys → ∃ acc, equalsAll rec e xs ys = .ok acc ∧ equalsAll rec e ys xs = .ok acc
  | [], [], _, _, _ => ⟨.t, by simp [equalsAll], by simp [equalsAll]⟩
  | [], _ :: _, hl, _, _ => by simp at hl
  | _ :: _, [], hl, _, _ => by simp at hl
  | x :: xs, y :: ys, hl, hx, hy => by
    obtain ⟨acc, h1, h2⟩ := hr e x y hw hp hx.1 hy.1
    simp only [equalsAll, h1, h2, eqAccOf_accVal]
    cases acc with
    | t => exact equalsAll_symm hr e hw hp xs ys (by simpa using hl) hx.2 hy.2
    | f => exact ⟨.f, rfl, rfl⟩
    | u => exact ⟨.u, rfl, rfl⟩

/-! ### maps -/

/-- the map loop when both key lists are the same: position by position -/
def equalsAllU (rec : EqRec) (e : Ty) : List Payload → List Payload → Bool → Res EqAcc
  | x :: xs, y :: ys, s =>
    match eqAccOf (rec e x e y) with
    | .ok .t => equalsAllU rec e xs ys s
    | .ok .u => equalsAllU rec e xs ys true
    | r => r
  | _, _, s => .ok (if s then .u else .t)

theorem equalsMap_self (rec : EqRec) (e : Ty) : ∀ (ks : List String) (xs ys : List Payload) (pre : List String)
    (preY : List Payload) (s : Bool), pre.length = preY.length → ks.length = xs.length →
    ks.length = ys.length → (∀ k ∈ ks, k ∉ pre) → ks.Nodup →
    equalsMap rec e ks xs (pre ++ ks) (preY ++ ys) s = equalsAllU rec e xs ys s
  | [], xs, ys, _, _, s, _, hx, hy, _, _ => by
    cases xs <;> cases ys <;> simp at hx hy <;> simp [equalsMap, equalsAllU]
  | k :: ks, [], _, _, _, _, _, hx, _, _, _ => by simp at hx
  | k :: ks, _ :: _, [], _, _, _, _, _, hy, _, _ => by simp at hy
  | k :: ks, x :: xs, y :: ys, pre, preY, s, hl, hx, hy, hpre, hnd => by
    have hk : k ∉ pre := hpre k (by simp)
    have ih : ∀ s', equalsMap rec e ks xs (pre ++ k :: ks) (preY ++ y :: ys) s' = equalsAllU rec e xs ys s' := by
      intro s'
      have := equalsMap_self rec e ks xs ys (pre ++ [k]) (preY ++ [y]) s' (by simp [hl]) (by simpa using hx)
        (by simpa using hy)
        (by
          intro k' hk' hm
          rcases List.mem_append.mp hm with h | h
          · exact hpre k' (List.mem_cons_of_mem _ hk') h
          · simp at h; subst h; exact (List.nodup_cons.mp hnd).1 hk')
        (List.nodup_cons.mp hnd).2
      simpa only [List.append_assoc, List.singleton_append] using this
    simp only [equalsMap, equalsAllU, lookupKey_skip pre preY hl hk, ih]
    rcases eqAccOf (rec e x e y) with (_ | _ | _) | _ | _ | _ <;> rfl

theorem equalsAllU_symm {rec : EqRec} {fuel : Nat} (hr : SymOk rec fuel) (e : Ty) (hw : e.wf = true)
    (hp : e.plain = true) : ∀ (xs ys : List Payload) (s : Bool), xs.length = ys.length → GoodUAll e fuel xs →
    GoodUAll e fuel ys → ∃ acc, equalsAllU rec e xs ys s = .ok acc ∧ equalsAllU rec e ys xs s = .ok acc
  | [], [], s, _, _, _ => ⟨if s then .u else .t, by simp [equalsAllU], by simp [equalsAllU]⟩
  | [], _ :: _, _, hl, _, _ => by simp at hl
  | _ :: _, [], _, hl, _, _ => by simp at hl
  | x :: xs, y :: ys, s, hl, hx, hy => by
    obtain ⟨acc, h1, h2⟩ := hr e x y hw hp hx.1 hy.1
    simp only [equalsAllU, h1, h2, eqAccOf_accVal]
    cases acc with
    | t => exact equalsAllU_symm hr e hw hp xs ys s (by simpa using hl) hx.2 hy.2
    | f => exact ⟨.f, rfl, rfl⟩
    | u => exact equalsAllU_symm hr e hw hp xs ys true (by simpa using hl) hx.2 hy.2

/-- a key of the left map that the right map lacks makes the answer False (no
member comparison panics, so the loop reaches a deciding step) -/
theorem equalsMap_missing {rec : EqRec} {fuel : Nat} (hr : SymOk rec fuel) (e : Ty) (hw : e.wf = true)
    (hp : e.plain = true) (ky : List String) (ys : List Payload) (hy : GoodUAll e fuel ys) :
    ∀ (ks : List String) (xs : List Payload) (s : Bool), ks.length = xs.length → GoodUAll e fuel xs →
    (∃ k ∈ ks, k ∉ ky) → equalsMap rec e ks xs ky ys s = .ok .f
  | [], _, _, _, _, h => by simp at h
  | _ :: _, [], _, hl, _, _ => by simp at hl
  | k :: ks, x :: xs, s, hl, hx, ⟨k', hk', hm⟩ => by
    simp only [equalsMap]
    cases hlk : lookupKey k ky ys with
    | none => rfl
    | some y =>
      have hk'' : k' ∈ ks := by
        rcases List.mem_cons.mp hk' with rfl | h
        · exact absurd (lookupKey_mem hlk) hm
        · exact h
      obtain ⟨acc, h1, _⟩ := hr e x y hw hp hx.1 (goodU_of_lookupKey hlk hy)
      simp only [h1, eqAccOf_accVal]
      cases acc with
      | t => exact equalsMap_missing hr e hw hp ky ys hy ks xs s (by simpa using hl) hx.2 ⟨k', hk'', hm⟩
      | f => rfl
      | u => exact equalsMap_missing hr e hw hp ky ys hy ks xs true (by simpa using hl) hx.2 ⟨k', hk'', hm⟩

theorem equalsMap_symm {rec : EqRec} {fuel : Nat} (hr : SymOk rec fuel) (e : Ty) (hw : e.wf = true)
    (hp : e.plain = true) (kx : List String) (xs : List Payload) (ky : List String) (ys : List Payload)
    (hax : Ty.strictAsc kx = true) (hay : Ty.strictAsc ky = true) (hx : kx.length = xs.length)
    (hy : ky.length = ys.length) (hl : xs.length = ys.length) (gx : GoodUAll e fuel xs)
    (gy : GoodUAll e fuel ys) :
    ∃ acc, equalsMap rec e kx xs ky ys false = .ok acc ∧ equalsMap rec e ky ys kx xs false = .ok acc := by
  by_cases h : kx = ky
  · subst h
    have e1 := equalsMap_self rec e kx xs ys [] [] false rfl hx (by omega) (by simp) (Ty.strictAsc_nodup hax)
    have e2 := equalsMap_self rec e kx ys xs [] [] false rfl (by omega) hx (by simp) (Ty.strictAsc_nodup hax)
    simp only [List.nil_append] at e1 e2
    rw [e1, e2]
    exact equalsAllU_symm hr e hw hp xs ys false hl gx gy
  · have m1 : ∃ k ∈ kx, k ∉ ky := by
      apply Classical.byContradiction
      intro hne
      exact h (Ty.asc_subset_eq kx ky hax hay (by omega) fun x hxm =>
        Classical.byContradiction fun hnm => hne ⟨x, hxm, hnm⟩)
    have m2 : ∃ k ∈ ky, k ∉ kx := by
      apply Classical.byContradiction
      intro hne
      exact h (Ty.asc_subset_eq ky kx hay hax (by omega) fun x hxm =>
        Classical.byContradiction fun hnm => hne ⟨x, hxm, hnm⟩).symm
    exact ⟨.f, equalsMap_missing hr e hw hp ky ys gy kx xs false hx gx m1,
      equalsMap_missing hr e hw hp kx xs gx ky ys false hy gy m2⟩

end CtyModel

namespace CtyModel
open Value

/-! ### the prologue is total on well-formed operands of one type -/

/-- the refinement `Value.Range()` reports for an unknown value -/
def Rfn.forRange : Rfn → Rfn
  | .unref => .nullable .u
  | r => r

theorem fits_forRange (t : Ty) (r : Rfn) (h : r.fits t = true) : (Rfn.forRange r).fits t = true := by
  cases r <;> simp_all [Rfn.fits, Rfn.forRange]

theorem range_of_unk (t : Ty) (r : Rfn) : range ⟨t, .unk r⟩ = .ok ⟨t, Rfn.forRange r⟩ := by
  cases r <;> rfl

theorem unk_of_not_known {p : Payload} (hm : p.containsMarked = false) (hk : p.isKnown = false) :
    ∃ r, p = .unk r := by
  cases p <;> simp [Payload.isKnown, Payload.unmark1, Payload.containsMarked] at hm hk ⊢

theorem equalsPre_known_unk (t : Ty) (x : Payload) (r : Rfn) (wx : x.shaped t = true) (kx : x.isKnown = true)
    (mx : x.containsMarked = false) (hr : r.fits t = true) :
    ∃ acc, equalsPre ⟨t, x⟩ ⟨t, .unk r⟩ = .ok (some (accVal acc)) := by
  obtain ⟨o, ho⟩ := includes_ok t _ (fits_forRange t r hr) x wx kx mx
  have h1 : (Payload.unk r).isKnown = false := rfl
  have h2 : (Payload.unk r).isNull = false := rfl
  simp only [equalsPre, range_of_unk, Res.bind_ok, ho, Value.isKnown, Value.isNull, kx, h1, h2, definitelyNotNull]
  simp
  repeat' split
  all_goals first | exact ⟨.f, rfl⟩ | exact ⟨.u, rfl⟩ | exact ⟨.t, rfl⟩

theorem equalsPre_total (t : Ty) (x y : Payload) (wx : x.shaped t = true) (mx : x.containsMarked = false)
    (wy : y.shaped t = true) (my : y.containsMarked = false) :
    ∃ o, equalsPre ⟨t, x⟩ ⟨t, y⟩ = .ok o ∧ equalsPre ⟨t, y⟩ ⟨t, x⟩ = .ok o ∧
      (∀ r, o = some r → ∃ acc, r = accVal acc) ∧
      (o = none → x.isKnown = true ∧ y.isKnown = true ∧ x.isNull = false ∧ y.isNull = false) := by
  cases kx : x.isKnown <;> cases ky : y.isKnown
  · -- both unknown
    obtain ⟨r, rfl⟩ := unk_of_not_known mx kx
    obtain ⟨r', rfl⟩ := unk_of_not_known my ky
    refine ⟨some unkBool, ?_, ?_, fun _ h => ⟨.u, by cases h; rfl⟩, fun h => by cases h⟩ <;>
      simp [equalsPre, Value.isNull, Value.isKnown, Payload.isKnown, Payload.unmark1, Payload.isNull,
        definitelyNotNull]
  · -- x unknown, y known
    obtain ⟨r, rfl⟩ := unk_of_not_known mx kx
    obtain ⟨acc, h⟩ := equalsPre_known_unk t y r wy ky my (by simpa [Payload.shaped] using wx)
    exact ⟨some (accVal acc), by rw [equalsPre_symm]; exact h, h, fun _ h => ⟨acc, by cases h; rfl⟩,
      fun h => by cases h⟩
  · -- x known, y unknown
    obtain ⟨r, rfl⟩ := unk_of_not_known my ky
    obtain ⟨acc, h⟩ := equalsPre_known_unk t x r wx kx mx (by simpa [Payload.shaped] using wy)
    exact ⟨some (accVal acc), h, by rw [equalsPre_symm]; exact h, fun _ h => ⟨acc, by cases h; rfl⟩,
      fun h => by cases h⟩
  · -- both known
    refine ⟨_, equalsPre_of_known t t x y kx ky, ?_, ?_, ?_⟩
    · rw [equalsPre_of_known t t y x ky kx]
      cases x.isNull <;> cases y.isNull <;> rfl
    · intro r h
      cases hx : x.isNull <;> cases hy : y.isNull <;> simp [hx, hy] at h <;> subst h
      · exact ⟨.f, rfl⟩
      · exact ⟨.f, rfl⟩
      · exact ⟨.t, rfl⟩
    · intro h
      cases hx : x.isNull <;> cases hy : y.isNull <;> simp [hx, hy] at h
      exact ⟨rfl, rfl, rfl, rfl⟩

end CtyModel

namespace CtyModel
open Value

theorem ok_accVal_pair (r s : Bool) (h : r = s) :
    ∃ acc, (Res.ok (boolVal r) : Res Value) = .ok (accVal acc) ∧ (Res.ok (boolVal s) : Res Value) = .ok (accVal acc) := by
  subst h
  exact ⟨if r then .t else .f, by rw [boolVal_eq_accVal], by rw [boolVal_eq_accVal]⟩

theorem map_accVal_pair {a b : Res EqAcc} (h : ∃ acc, a = .ok acc ∧ b = .ok acc) :
    ∃ acc, a.map accVal = .ok (accVal acc) ∧ b.map accVal = .ok (accVal acc) := by
  obtain ⟨acc, h1, h2⟩ := h
  exact ⟨acc, by rw [h1]; rfl, by rw [h2]; rfl⟩

/-- **`Equals` is total and symmetric** on well-formed mark-free values of one
plain type, unknown results included. -/
theorem equalsFuel_symm : ∀ fuel : Nat, SymOk (equalsFuel fuel) fuel
  | 0 => by
    intro t x y _ _ hx _
    have := Payload.depth_pos x
    have := hx.depth
    omega
  | fuel + 1 => by
    have ih := equalsFuel_symm fuel
    intro t x y hw hp hx hy
    have hself := Ty.equals_self hw
    obtain ⟨wx, mx, dx⟩ := hx
    obtain ⟨wy, my, dy⟩ := hy
    obtain ⟨o, h1, h2, hsome, hnone⟩ := equalsPre_total t x y wx mx wy my
    simp only [equalsFuel, h1, h2]
    cases o with
    | some r =>
      obtain ⟨acc, rfl⟩ := hsome r rfl
      exact ⟨acc, rfl, rfl⟩
    | none =>
      obtain ⟨kx, ky, nx, ny⟩ := hnone rfl
      simp only [hself, Bool.not_true, Bool.false_eq_true, if_false]
      rw [Bool.or_comm (!hasWhollyKnownType t y)]
      by_cases hk : (!hasWhollyKnownType t x || !hasWhollyKnownType t y) = true
      · simp only [hk, if_true]
        split
        · exact ⟨.f, rfl, rfl⟩
        · exact ⟨.u, rfl, rfl⟩
      · simp only [hk]
        cases x with
        | unk _ => simp [Payload.isKnown, Payload.unmark1] at kx
        | null => simp [Payload.isNull, Payload.unmark1] at nx
        | marked _ _ => simp [Payload.containsMarked] at mx
        | bad _ => simp [Payload.shaped] at wx
        | caps => cases t <;> simp [Payload.shaped] at wx; simp [Ty.plain] at hp
        | sset _ _ => cases t <;> simp [Payload.shaped] at wx; simp [Ty.plain] at hp
        | b v =>
          simp only [Payload.shaped, Ty.isBool_iff] at wx
          subst wx
          cases y <;> simp [Payload.shaped, Ty.isBool, Ty.isNumber, Ty.isString, Payload.containsMarked,
            Payload.isKnown, Payload.isNull, Payload.unmark1] at wy ky my ny
          exact ok_accVal_pair _ _ (BEq.comm)
        | n v =>
          simp only [Payload.shaped, Ty.isNumber_iff] at wx
          subst wx
          cases y <;> simp [Payload.shaped, Ty.isBool, Ty.isNumber, Ty.isString, Payload.containsMarked,
            Payload.isKnown, Payload.isNull, Payload.unmark1] at wy ky my ny
          exact ok_accVal_pair _ _ (Num.rawEq_symm _ _)
        | s v =>
          simp only [Payload.shaped, Ty.isString_iff] at wx
          subst wx
          cases y <;> simp [Payload.shaped, Ty.isBool, Ty.isNumber, Ty.isString, Payload.containsMarked,
            Payload.isKnown, Payload.isNull, Payload.unmark1] at wy ky my ny
          exact ok_accVal_pair _ _ (BEq.comm)
        | seq xs =>
          simp only [Payload.containsMarked, Payload.depth] at mx dx
          cases t <;> simp [Payload.shaped] at wx
          case list e =>
            simp only [Ty.plain] at hp
            simp only [Ty.wf] at hw
            cases y <;> simp [Payload.shaped, Ty.isBool, Ty.isNumber, Ty.isString, Payload.containsMarked,
              Payload.isKnown, Payload.isNull, Payload.unmark1] at wy ky my ny
            rename_i ys
            simp only [Payload.depth] at dy
            have gx := goodUAll_of (fuel := fuel) wx mx (by omega)
            have gy := goodUAll_of (fuel := fuel) wy my (by omega)
            by_cases hl : xs.length = ys.length
            · simp only [hl, beq_self_eq_true, if_true]
              exact map_accVal_pair (equalsAll_symm ih e hw hp xs ys hl gx gy)
            · have hl' : ¬ ys.length = xs.length := fun h => hl h.symm
              simp only [beq_false_of_ne hl, beq_false_of_ne hl', Bool.false_eq_true, if_false]
              exact ⟨.f, rfl, rfl⟩
          case tuple ts =>
            simp only [Ty.plain] at hp
            simp only [Ty.wf] at hw
            cases y <;> simp [Payload.shaped, Ty.isBool, Ty.isNumber, Ty.isString, Payload.containsMarked,
              Payload.isKnown, Payload.isNull, Payload.unmark1] at wy ky my ny
            rename_i ys
            simp only [Payload.depth] at dy
            have gx := goodUZip_of (fuel := fuel) wx mx (by omega)
            have gy := goodUZip_of (fuel := fuel) wy my (by omega)
            exact map_accVal_pair (equalsZip_symm ih ts xs ys hw hp gx gy)
        | smap kxs xs =>
          simp only [Payload.containsMarked, Payload.depth] at mx dx
          cases t <;> simp [Payload.shaped] at wx
          case map e =>
            simp only [Ty.plain] at hp
            simp only [Ty.wf] at hw
            cases y <;> simp [Payload.shaped, Ty.isBool, Ty.isNumber, Ty.isString, Payload.containsMarked,
              Payload.isKnown, Payload.isNull, Payload.unmark1] at wy ky my ny
            rename_i kys ys
            simp only [Payload.depth] at dy
            have gx := goodUAll_of (fuel := fuel) wx.2 mx (by omega)
            have gy := goodUAll_of (fuel := fuel) wy.2 my (by omega)
            by_cases hl : xs.length = ys.length
            · simp only [hl, beq_self_eq_true, if_true]
              exact map_accVal_pair (equalsMap_symm ih e hw hp kxs xs kys ys wx.1.2 wy.1.2 wx.1.1 wy.1.1 hl gx gy)
            · have hl' : ¬ ys.length = xs.length := fun h => hl h.symm
              simp only [beq_false_of_ne hl, beq_false_of_ne hl', Bool.false_eq_true, if_false]
              exact ⟨.f, rfl, rfl⟩
          case object ns ts os =>
            simp only [Ty.plain] at hp
            simp only [Ty.wf, Bool.and_eq_true] at hw
            cases y <;> simp [Payload.shaped, Ty.isBool, Ty.isNumber, Ty.isString, Payload.containsMarked,
              Payload.isKnown, Payload.isNull, Payload.unmark1] at wy ky my ny
            rename_i kys ys
            simp only [Payload.depth] at dy
            have gx := goodUZip_of (fuel := fuel) wx.2 mx (by omega)
            have gy := goodUZip_of (fuel := fuel) wy.2 my (by omega)
            exact map_accVal_pair (equalsObj_symm ih ts xs ys false hw.2 hp gx gy)

end CtyModel

namespace CtyModel
open Value

theorem Ty.equals_false_of_ne {a b : Ty} (ha : Ty.wf a = true) (hb : Ty.wf b = true) (h : a ≠ b) :
    a.equals b = false := by
  cases he : a.equals b with
  | false => rfl
  | true => exact absurd ((Ty.equals_iff_eq a b ha hb).mp he) h

/-- `Equals` is symmetric on well-formed mark-free values of plain types — of the
same type or not, known or not: the two calls return the very same result. -/
theorem equals_symm_of_wf (a b : Value) (wa : a.shaped = true) (wb : b.shaped = true) (pa : a.ty.plain = true)
    (pb : b.ty.plain = true) (ma : a.containsMarked = false) (mb : b.containsMarked = false) :
    equals a b = equals b a := by
  obtain ⟨ta, va⟩ := a
  obtain ⟨tb, vb⟩ := b
  simp only [Value.shaped, Bool.and_eq_true] at wa wb
  simp only [Value.containsMarked] at ma mb
  simp only [equals, Value.containsMarked, ma, mb, Bool.or_self, Bool.false_eq_true, if_false, equalsP]
  rw [Nat.max_comm vb.depth va.depth]
  by_cases h : ta = tb
  · subst h
    obtain ⟨acc, h1, h2⟩ := equalsFuel_symm (max va.depth vb.depth + 1) ta va vb wa.1 pa
      ⟨wa.2, ma, by omega⟩ ⟨wb.2, mb, by omega⟩
    rw [h1, h2]
  · have h' : tb ≠ ta := fun e => h e.symm
    simp only [equalsFuel, equalsPre_symm ⟨tb, vb⟩ ⟨ta, va⟩, Ty.equals_false_of_ne wa.1 wb.1 h,
      Ty.equals_false_of_ne wb.1 wa.1 h']
    rw [Bool.or_comm (!hasWhollyKnownType tb vb), Bool.and_comm (Ty.conformErrs ta tb != 0)]
    rcases equalsPre ⟨ta, va⟩ ⟨tb, vb⟩ with (_ | r) | _ | _ | _ <;> simp

end CtyModel
