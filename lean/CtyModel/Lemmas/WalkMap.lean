/-
Rebuilding a container from *changed* members: if the recursive call returns
`g c` for each member `c` — of the member's own type, and the member itself
where the container is a set — the `switch` of `transform` returns the
container with those members (`withKids`), marks re-applied.
-/
import CtyModel.Lemmas.WalkTrans
namespace CtyModel
namespace Walk
open Value

/-- an unmarked payload with its members replaced (a set keeps its members) -/
def replaceRaw : Payload → List Payload → Payload
  | .seq _, ws => .seq ws
  | .smap ks _, ws => .smap ks ws
  | p, _ => p

/-- the value with its members replaced by `ws` (in `kids` order), marks kept -/
def withKids (v : Value) (ws : List Value) : Value :=
  (⟨v.ty, replaceRaw v.v.unmark1 (ws.map (·.v))⟩ : Value).withMarks v.marks

def mapEvKids (ev : PathStep × Value → List Ev) : List (PathStep × Value) → List Ev
  | [] => []
  | c :: rest => ev c ++ mapEvKids ev rest

theorem transformKids_map (rec' : TRec) (ev : PathStep × Value → List Ev)
    (g : PathStep × Value → Value) (path : Path) :
    ∀ (cs : List (PathStep × Value)) (log : List Ev),
      (∀ c ∈ cs, ∀ log, rec' log (path ++ [c.1]) c.2 = (log ++ ev c, .ok (g c))) →
      transformKids rec' log path cs = (log ++ mapEvKids ev cs, .ok (cs.map g))
  | [], log, _ => by simp [transformKids, mapEvKids]
  | (s, c) :: rest, log, h => by
    simp only [transformKids, mapEvKids]
    rw [h (s, c) (by simp) log]
    simp only
    rw [transformKids_map rec' ev g path rest _ (fun c hc => h c (List.mem_cons_of_mem _ hc))]
    simp [List.append_assoc]

theorem listVal_types (e : Ty) (he : Ty.equals e e = true) (ws : List Value) (hne : ws ≠ [])
    (hty : ∀ w ∈ ws, w.ty = e) : listVal ws = .ok ⟨.list e, .seq (ws.map (·.v))⟩ := by
  cases ws with
  | nil => exact absurd rfl hne
  | cons w ws =>
    simp only [listVal, List.isEmpty_cons, Bool.false_eq_true, if_false, unify_dyn e he w ws hty, Res.map]

theorem mapVal_types (e : Ty) (he : Ty.equals e e = true) (ks : List String) (ws : List Value)
    (hne : ws ≠ []) (hty : ∀ w ∈ ws, w.ty = e) :
    mapVal ks ws = .ok ⟨.map e, .smap ks (ws.map (·.v))⟩ := by
  cases ws with
  | nil => exact absurd rfl hne
  | cons w ws =>
    simp only [mapVal, List.isEmpty_cons, Bool.false_eq_true, if_false, unify_dyn e he w ws hty, Res.map]

theorem map_ty_eq {cs : List (PathStep × Value)} {g : PathStep × Value → Value}
    (h : ∀ c ∈ cs, (g c).ty = c.2.ty) : (cs.map g).map (·.ty) = (cs.map (·.2)).map (·.ty) := by
  induction cs with
  | nil => rfl
  | cons c cs ih =>
    simp only [List.map_cons, h c (by simp), ih (fun x hx => h x (List.mem_cons_of_mem _ hx))]

theorem replaceRaw_of_prim {t : Ty} {raw : Payload} {ws : List Payload} (hs : shaped t raw = true)
    (ht : match t with
      | .list _ | .map _ | .tuple _ | .object _ _ _ | .set _ => False
      | _ => True) : replaceRaw raw ws = raw := by
  cases t <;> cases raw <;> first
    | rfl
    | (exfalso; exact ht)
    | (exfalso; exact Bool.noConfusion (show false = true from hs))

/-- **rebuilding from changed members** -/
theorem rebuild_map {X : SetOracle} (hX : IterPerm X) {σ : Sched} (hσ : SchedOk σ) (rec' : TRec)
    (ev : PathStep × Value → List Ev) (g : PathStep × Value → Value) (v : Value) (hg : Good X v)
    (path : Path)
    (hty : ∀ c ∈ kids X v, (g c).ty = c.2.ty)
    (hset : ∀ e, v.ty = .set e → ∀ c ∈ kids X v, g c = c.2)
    (ih : ∀ c ∈ kids X v, ∀ log, rec' log (path ++ [c.1]) c.2 = (log ++ ev c, .ok (g c)))
    (log : List Ev) :
    rebuild X σ rec' log path v =
      (log ++ mapEvKids ev (ordKids X σ path v), .ok (withKids v ((kids X v).map g))) := by
  by_cases hn : (v.isNull || !v.isKnown) = true
  · have hk : kids X v = [] := by simp [kids, hn]
    have hw : withKids v [] = v := by
      have hsh := hg.shaped
      simp only [Bool.or_eq_true, Bool.not_eq_true'] at hn
      obtain ⟨t, p⟩ := v
      have := withMarks_restore hsh
      simp only [Value.isNull, Payload.isNull, Value.isKnown, Payload.isKnown] at hn
      simp only [withKids, List.map_nil, Value.marks]
      cases hp : p.unmark1 <;> rw [hp] at hn this <;> simp only [replaceRaw] <;>
        first
        | exact this
        | (exfalso; simp at hn; done)
    simp [rebuild, hn, ordKids_of_kids_nil hk, mapEvKids, hk, hw]
  · have hk : kids X v = children X v.unmark := by simp [kids, hn]
    rw [hk] at ih hty hset ⊢
    simp only [Bool.or_eq_true, Bool.not_eq_true', not_or, Bool.not_eq_true, Bool.not_eq_false] at hn
    obtain ⟨hnull, hknown⟩ := hn
    have hraw := raw_of_flags hnull hknown
    have hsu : shaped v.ty v.v.unmark1 = true := shaped_unmark1 hg.shaped
    have hmu := shaped_unmark1_notMarked hg.shaped
    have htyok := hg.ty
    obtain ⟨t, p⟩ := v
    simp only at hraw hsu hmu htyok
    cases t with
    | list e =>
      obtain ⟨vs, hv⟩ := shaped_known_cases hsu hmu hraw.1 hraw.2
      have hcs : children X (⟨.list e, p⟩ : Value).unmark = seqKids e 0 vs := by
        simp only [Value.unmark, hv, children]
      rw [ordKids_not_object (by intro _ _ _ h; cases h), hk, hcs]
      rw [hcs] at ih hty
      simp only [rebuild, hnull, hknown, Bool.not_true, Bool.or_self, Bool.false_eq_true, if_false, hcs,
        withKids, hv, replaceRaw, Value.marks]
      cases vs with
      | nil =>
        have := withMarks_restore hg.shaped
        simp only [hv] at this
        simp [seqKids, mapEvKids, this]
      | cons w ws =>
        have hne : (seqKids e 0 (w :: ws)).map g ≠ [] := by simp [seqKids]
        have hall : ∀ x ∈ (seqKids e 0 (w :: ws)).map g, x.ty = e := by
          intro x hx
          obtain ⟨c, hc, rfl⟩ := List.mem_map.mp hx
          rw [hty c hc]; exact (seqKids_info X _ _ c hc).1
        have hemp : (seqKids e 0 (w :: ws)).isEmpty = false := by simp [seqKids]
        simp only [hemp, Bool.false_eq_true, if_false]
        rw [transformKids_map rec' ev g path _ log ih]
        simp only
        rw [listVal_types e (equals_self (tyOk_list htyok)) _ hne hall]
        rfl
    | map e =>
      obtain ⟨ks, vs, hv⟩ := shaped_known_cases hsu hmu hraw.1 hraw.2
      have hcs : children X (⟨.map e, p⟩ : Value).unmark = mapKids e ks vs := by
        simp only [Value.unmark, hv, children]
      rw [ordKids_not_object (by intro _ _ _ h; cases h), hk, hcs]
      rw [hcs] at ih hty
      simp only [rebuild, hnull, hknown, Bool.not_true, Bool.or_self, Bool.false_eq_true, if_false, hcs,
        withKids, hv, replaceRaw, Value.marks]
      by_cases hemp : (mapKids e ks vs).isEmpty = true
      · have h0 : mapKids e ks vs = [] := List.isEmpty_iff.mp hemp
        have hsh := hsu
        rw [hv] at hsh
        simp only [shaped, Bool.and_eq_true, beq_iff_eq] at hsh
        have hvs : vs = [] := by
          cases ks <;> cases vs <;> simp_all [mapKids]
        subst hvs
        simp only [h0, List.isEmpty_nil, if_true, mapEvKids, List.append_nil, List.map_nil]
        have := withMarks_restore hg.shaped
        simp only [hv] at this
        rw [this]
      · simp only [hemp, Bool.false_eq_true, if_false]
        have hne : (mapKids e ks vs).map g ≠ [] := by
          intro h0; simp only [List.map_eq_nil_iff] at h0; rw [h0] at hemp; simp at hemp
        have hall : ∀ x ∈ (mapKids e ks vs).map g, x.ty = e := by
          intro x hx
          obtain ⟨c, hc, rfl⟩ := List.mem_map.mp hx
          rw [hty c hc]; exact (mapKids_info X _ _ c hc).1
        rw [transformKids_map rec' ev g path _ log ih]
        simp only [Value.unmark, hv]
        rw [mapVal_types e (equals_self (tyOk_map htyok)) ks _ hne hall]
        rfl
    | tuple ts =>
      obtain ⟨vs, hv, hlen⟩ := shaped_known_cases hsu hmu hraw.1 hraw.2
      have hcs : children X (⟨.tuple ts, p⟩ : Value).unmark = tupKids 0 ts vs := by
        simp only [Value.unmark, hv, children]
      rw [ordKids_not_object (by intro _ _ _ h; cases h), hk, hcs]
      rw [hcs] at ih hty
      simp only [rebuild, hnull, hknown, Bool.not_true, Bool.or_self, Bool.false_eq_true, if_false, hcs,
        withKids, hv, replaceRaw, Value.marks]
      by_cases hemp : (tupKids 0 ts vs).isEmpty = true
      · have h0 : tupKids 0 ts vs = [] := List.isEmpty_iff.mp hemp
        have hvs : vs = [] := by
          cases ts <;> cases vs <;> simp_all [tupKids]
        subst hvs
        simp only [h0, List.isEmpty_nil, if_true, mapEvKids, List.append_nil, List.map_nil]
        have := withMarks_restore hg.shaped
        simp only [hv] at this
        rw [this]
      · simp only [hemp, Bool.false_eq_true, if_false]
        rw [transformKids_map rec' ev g path _ log ih]
        simp only [tupleVal]
        rw [map_ty_eq hty, (tupKids_vals 0 ts vs hlen).1]
    | set e =>
      obtain ⟨ids, vs, hv⟩ := shaped_known_cases hsu hmu hraw.1 hraw.2
      have hsh := hsu
      rw [hv] at hsh
      simp only [shaped, Bool.and_eq_true, beq_iff_eq, Bool.not_eq_true'] at hsh
      have hst := SetsStable_unmark1 hg.sets
      simp only [hv, SetsStable] at hst
      have hcs : children X (⟨.set e, p⟩ : Value).unmark = setKids e (X.iter e ids vs) := by
        simp only [Value.unmark, hv, children]
      rw [ordKids_not_object (by intro _ _ _ h; cases h), hk, hcs]
      have hgid := hset e rfl
      rw [hcs] at ih hgid
      have hmapg : (setKids e (X.iter e ids vs)).map g = (setKids e (X.iter e ids vs)).map (·.2) :=
        List.map_congr_left hgid
      simp only [rebuild, hnull, hknown, Bool.not_true, Bool.or_self, Bool.false_eq_true, if_false, hcs,
        withKids, hv, replaceRaw, Value.marks]
      have hrest := withMarks_restore hg.shaped
      simp only [hv] at hrest
      by_cases hemp : (setKids e (X.iter e ids vs)).isEmpty = true
      · have h0 : setKids e (X.iter e ids vs) = [] := List.isEmpty_iff.mp hemp
        simp only [h0, List.isEmpty_nil, if_true, mapEvKids, List.append_nil]
        rw [hrest]
      · simp only [hemp, Bool.false_eq_true, if_false]
        rw [transformKids_map rec' ev g path _ log ih, hmapg]
        simp only
        have hne : X.iter e ids vs ≠ [] := by
          intro h0; rw [h0] at hemp; simp [setKids] at hemp
        rw [setKids_vals, setVal_id X e (equals_self (tyOk_set htyok)) ids vs (X.iter e ids vs) hne
          (fun m hm => containsMarkedL_mem hsh.1.2 m ((hX _ _ _).mem_iff.mp hm)) hst.1 hst.2.1]
        rfl
    | object ns ts os =>
      obtain ⟨vs, hv, h1, h2⟩ := shaped_known_cases hsu hmu hraw.1 hraw.2
      have hsh := hsu
      rw [hv] at hsh
      simp only [shaped, Bool.and_eq_true, beq_iff_eq, decide_eq_true_eq] at hsh
      obtain ⟨⟨⟨⟨⟨_, _⟩, _⟩, htv⟩, hnd⟩, _⟩ := hsh
      have hos := (tyOk_object htyok).2
      have hcs : children X (⟨.object ns ts os, p⟩ : Value).unmark = objKids ns ts vs := by
        simp only [Value.unmark, hv, children]
      have hord : ordKids X σ path ⟨.object ns ts os, p⟩ = schedKids (σ path ns) (objKids ns ts vs) := by
        simp only [ordKids, hk, hcs]
      rw [hord]
      rw [hcs] at ih hty
      simp only [rebuild, hnull, hknown, Bool.not_true, Bool.or_self, Bool.false_eq_true, if_false, hcs,
        withKids, hv, replaceRaw, Value.marks]
      by_cases hemp : Ty.equals (.object ns ts os) (.object [] [] []) = true
      · have hts : ts = [] := by
          simp only [Ty.equals, Bool.and_eq_true, beq_iff_eq] at hemp
          exact List.eq_nil_of_length_eq_zero hemp.1
        subst hts
        have h0 : objKids ns [] vs = [] := by cases ns <;> rfl
        have hvs : vs = [] := List.eq_nil_of_length_eq_zero htv.symm
        subst hvs
        simp only [hemp, if_true, h0, schedKids_nil, mapEvKids, List.append_nil, List.map_nil]
        have := withMarks_restore hg.shaped
        simp only [hv] at this
        rw [this]
      · simp only [hemp, Bool.false_eq_true, if_false]
        have hperm := schedKids_perm ts vs (hσ path ns) hnd h1 htv
        have ih' : ∀ c ∈ schedKids (σ path ns) (objKids ns ts vs), ∀ log,
            rec' log (path ++ [c.1]) c.2 = (log ++ ev c, .ok (g c)) :=
          fun c hc => ih c (hperm.mem_iff.mp hc)
        rw [transformKids_map rec' ev g path _ log ih']
        simp only
        rw [unsched_sched g ts vs (hσ path ns) hnd h1 htv]
        simp only [objectVal]
        rw [map_ty_eq hty, (objKids_vals ns ts vs h1 htv).1, ← hos]
    | bool =>
      have hr := replaceRaw_of_prim (ws := []) hsu trivial
      have hw := withMarks_restore hg.shaped
      simp [rebuild, hnull, hknown, ordKids, hk, Value.unmark, children, mapEvKids, withKids, hr, hw,
        Value.marks]
    | number =>
      have hr := replaceRaw_of_prim (ws := []) hsu trivial
      have hw := withMarks_restore hg.shaped
      simp [rebuild, hnull, hknown, ordKids, hk, Value.unmark, children, mapEvKids, withKids, hr, hw,
        Value.marks]
    | string =>
      have hr := replaceRaw_of_prim (ws := []) hsu trivial
      have hw := withMarks_restore hg.shaped
      simp [rebuild, hnull, hknown, ordKids, hk, Value.unmark, children, mapEvKids, withKids, hr, hw,
        Value.marks]
    | dyn =>
      have hr := replaceRaw_of_prim (ws := []) hsu trivial
      have hw := withMarks_restore hg.shaped
      simp [rebuild, hnull, hknown, ordKids, hk, Value.unmark, children, mapEvKids, withKids, hr, hw,
        Value.marks]
    | capsule i =>
      have hr := replaceRaw_of_prim (ws := []) hsu trivial
      have hw := withMarks_restore hg.shaped
      simp [rebuild, hnull, hknown, ordKids, hk, Value.unmark, children, mapEvKids, withKids, hr, hw,
        Value.marks]

end Walk
end CtyModel
