/-
C09 / d09b — the unified TYPE of placeholder-free, well-formed, annotation-free types (`plainTy`)
is placeholder-free, well-formed and annotation-free again: an invariant of one activation of
ConvertUnify's `unifyStep` for every `U` that has it, hence of `unifyTyF n` for every `n` and of
`unifyTy` (what `Env.std` answers `Env.unify` with).
-/
import CtyModel.Lemmas.d09Fuel
import CtyModel.UnifySpec
namespace CtyModel
namespace Unify
open Convert Ty

/-! ## `plainTy` and the constructors -/

theorem plainL_iff : ∀ (es : List Ty),
    (wfL es = true ∧ hasOptL es = false ∧ hasDynL es = false) ↔ ∀ e ∈ es, plainTy e = true
  | [] => by simp [wfL, hasOptL, hasDynL]
  | e :: es => by
    have ih := plainL_iff es
    simp only [wfL, hasOptL, hasDynL, Bool.and_eq_true, Bool.or_eq_false_iff, List.mem_cons, forall_eq_or_imp]
    rw [← ih]
    simp only [plainTy, Bool.and_eq_true, Bool.not_eq_true']
    constructor
    · rintro ⟨⟨a, b⟩, ⟨c, d⟩, ⟨e, f⟩⟩; exact ⟨⟨⟨a, c⟩, e⟩, b, d, f⟩
    · rintro ⟨⟨⟨a, c⟩, e⟩, b, d, f⟩; exact ⟨⟨a, b⟩, ⟨c, d⟩, ⟨e, f⟩⟩

theorem plain_list (e : Ty) : plainTy (.list e) = plainTy e := by simp [plainTy, wf, hasOpt, hasDyn]
theorem plain_set (e : Ty) : plainTy (.set e) = plainTy e := by simp [plainTy, wf, hasOpt, hasDyn]
theorem plain_map (e : Ty) : plainTy (.map e) = plainTy e := by simp [plainTy, wf, hasOpt, hasDyn]

theorem plain_tuple_iff (es : List Ty) : plainTy (.tuple es) = true ↔ ∀ e ∈ es, plainTy e = true := by
  rw [← plainL_iff]
  simp only [plainTy, wf, hasOpt, hasDyn, Bool.and_eq_true, Bool.not_eq_true']
  constructor
  · rintro ⟨⟨a, b⟩, c⟩; exact ⟨a, b, c⟩
  · rintro ⟨a, b, c⟩; exact ⟨⟨a, b⟩, c⟩

theorem plain_object_iff (ns : List String) (ts : List Ty) (os : List Bool) :
    plainTy (.object ns ts os) = true ↔
      (ns.length = ts.length ∧ os.length = ts.length ∧ strictAsc ns = true ∧ os.any id = false) ∧
        ∀ e ∈ ts, plainTy e = true := by
  rw [← plainL_iff]
  simp only [plainTy, wf, hasOpt, hasDyn, Bool.and_eq_true, Bool.not_eq_true', Bool.or_eq_false_iff, beq_iff_eq]
  constructor
  · rintro ⟨⟨⟨⟨⟨a, b⟩, c⟩, d⟩, e, f⟩, g⟩; exact ⟨⟨a, b, c, e⟩, d, f, g⟩
  · rintro ⟨⟨a, b, c, e⟩, d, f, g⟩; exact ⟨⟨⟨⟨⟨a, b⟩, c⟩, d⟩, e, f⟩, g⟩

theorem plain_not_dyn {x : Ty} (h : plainTy x = true) : x.isDyn = false := by
  cases x <;> simp_all [plainTy, hasDyn, Ty.isDyn]

theorem plain_elemTyD {x : Ty} (h : plainTy x = true) : plainTy (elemTyD x) = true := by
  cases x <;> simp_all [elemTyD, plain_list, plain_set, plain_map]

theorem plain_attrTysD {x y : Ty} (h : plainTy x = true) (hy : y ∈ attrTysD x) : plainTy y = true := by
  cases x <;> simp [attrTysD] at hy
  exact ((plain_object_iff _ _ _).mp h).2 y hy

theorem plain_tupleEtysD {x y : Ty} (h : plainTy x = true) (hy : y ∈ tupleEtysD x) : plainTy y = true := by
  cases x <;> simp [tupleEtysD] at hy
  exact (plain_tuple_iff _).mp h y hy

theorem dynCount_zero {types : List Ty} (h : ∀ x ∈ types, plainTy x = true) : count Ty.isDyn types = 0 := by
  simp only [count, List.length_eq_zero_iff, List.filter_eq_nil_iff]
  intro a ha; simp [plain_not_dyn (h a ha)]

/-! ## one activation of the type-level `unify` -/

/-- `U` answers plain types on lists of plain types -/
def PlainPres (U : UFn) : Prop := ∀ uns L t, (∀ x ∈ L, plainTy x = true) → U uns L = some t → plainTy t = true

section
variable {U : UFn} {uns : Bool}

theorem unifyG'_plain (hU : PlainPres U) {L : List Ty} {t : Ty} (hL : ∀ x ∈ L, plainTy x = true)
    (h : unifyG' U uns L = some t) : plainTy t = true := by
  simp only [unifyG'] at h
  split at h
  · simp at h
  · exact hU uns L t hL h

theorem collectionTy_plain (hU : PlainPres U) {mk : Ty → Ty} (hmk : ∀ e, plainTy (mk e) = plainTy e)
    {types : List Ty} (hp : ∀ x ∈ types, plainTy x = true) {t : Ty}
    (h : unifyCollectionTypes U uns mk types false = some t) : plainTy t = true := by
  simp only [unifyCollectionTypes, Bool.false_eq_true, if_false] at h
  cases hg : unifyG' U uns (types.map elemTyD) with
  | none => simp [hg] at h
  | some e =>
    simp only [hg] at h
    split at h
    · simp only [Option.some.injEq] at h; subst h
      rw [hmk]
      refine unifyG'_plain hU ?_ hg
      intro x hx
      obtain ⟨y, hy, rfl⟩ := List.mem_map.mp hx
      exact plain_elemTyD (hp y hy)
    · simp at h

theorem toMapTy_plain (hU : PlainPres U) {types : List Ty} (hp : ∀ x ∈ types, plainTy x = true) {t : Ty}
    (h : unifyObjectTypesToMap U uns types = some t) : plainTy t = true := by
  obtain ⟨e, rfl, hg⟩ := toMap_inv types t h
  rw [plain_map]
  refine unifyG'_plain hU ?_ hg
  intro x hx
  obtain ⟨y, hy, hxy⟩ := List.mem_flatMap.mp hx
  exact plain_attrTysD (hp y hy) hxy

theorem toListTy_plain (hU : PlainPres U) {types : List Ty} (hp : ∀ x ∈ types, plainTy x = true) {t : Ty}
    (h : unifyTupleTypesToList U uns types = some t) : plainTy t = true := by
  obtain ⟨e, rfl, hg⟩ := toList_inv types t h
  rw [plain_list]
  refine unifyG'_plain hU ?_ hg
  intro x hx
  obtain ⟨y, hy, hxy⟩ := List.mem_flatMap.mp hx
  exact plain_tupleEtysD (hp y hy) hxy

theorem columnsTy_plain (hU : PlainPres U) : ∀ (cols : List (List Ty)) (atys : List Ty),
    Convert.unifyColumns U uns cols = some atys → (∀ col ∈ cols, ∀ x ∈ col, plainTy x = true) →
    atys.length = cols.length ∧ ∀ a ∈ atys, plainTy a = true
  | [], atys, h, _ => by simp [Convert.unifyColumns] at h; subst h; simp
  | col :: cols, atys, h, hc => by
    simp only [Convert.unifyColumns] at h
    cases hg : unifyG' U uns col with
    | none => simp [hg] at h
    | some t =>
      simp only [hg] at h
      obtain ⟨rest, hr, rfl⟩ := Option.map_eq_some_iff.mp h
      have ih := columnsTy_plain hU cols rest hr (fun c hcm => hc c (List.mem_cons_of_mem _ hcm))
      refine ⟨by simp [ih.1], ?_⟩
      intro a ha
      rcases List.mem_cons.mp ha with rfl | ha
      · exact unifyG'_plain hU (hc col (by simp)) hg
      · exact ih.2 a ha

theorem plain_getD {L : List Ty} (hL : ∀ x ∈ L, plainTy x = true) (i : Nat) (hi : i < L.length) :
    plainTy (L.getD i .dyn) = true := by
  rw [List.getD_eq_getElem?_getD, List.getElem?_eq_getElem hi]
  exact hL _ (List.getElem_mem hi)

theorem headD_mem {types : List Ty} (hne : types ≠ []) : types.headD .dyn ∈ types := by
  cases types with
  | nil => exact absurd rfl hne
  | cons a as => simp

theorem plain_obj_parts {x : Ty} (hp : plainTy x = true) (ho : isObjectTy x = true) :
    strictAsc (attrNamesD x) = true ∧ (attrNamesD x).length = (attrTysD x).length ∧
      ∀ y ∈ attrTysD x, plainTy y = true := by
  cases x <;> simp [isObjectTy] at ho
  obtain ⟨⟨hl1, _, hasc, _⟩, hts⟩ := (plain_object_iff _ _ _).mp hp
  exact ⟨hasc, hl1, hts⟩

theorem objectTy_plain (hU : PlainPres U) {types : List Ty} (hne : types ≠ [])
    (hobj : ∀ x ∈ types, isObjectTy x = true) (hp : ∀ x ∈ types, plainTy x = true) {t : Ty}
    (h : unifyObjectTypes U uns types false = some t) : plainTy t = true := by
  have hfm := headD_mem hne
  obtain ⟨hasc, _, _⟩ := plain_obj_parts (hp _ hfm) (hobj _ hfm)
  simp only [unifyObjectTypes, Bool.false_eq_true, if_false] at h
  split at h
  · exact toMapTy_plain hU hp h
  · rename_i hsame
    split at h
    · simp at h
    · rename_i atys hc
      simp only [Bool.not_eq_true, Bool.not_eq_false', Bool.not_eq_eq_eq_not, Bool.not_true, Bool.not_eq_false] at hsame
      have hcols := columnsTy_plain hU _ atys hc (by
        intro col hcol x hx
        obtain ⟨i, hi, rfl⟩ := List.mem_map.mp hcol
        obtain ⟨ty, hty, rfl⟩ := List.mem_map.mp hx
        have hi' := List.mem_range.mp hi
        obtain ⟨_, hl, hts⟩ := plain_obj_parts (hp ty hty) (hobj ty hty)
        have := (List.all_eq_true.mp hsame) ty hty
        simp only [Bool.and_eq_true, beq_iff_eq] at this
        exact plain_getD hts i (by omega))
      have hret : plainTy (.object (attrNamesD (types.headD .dyn)) atys (atys.map fun _ => false)) = true := by
        refine (plain_object_iff _ _ _).mpr ⟨⟨?_, by simp, hasc, by simp⟩, hcols.2⟩
        rw [hcols.1]; simp
      split at h
      · simp only [Option.some.injEq] at h; subst h; exact hret
      · exact toMapTy_plain hU hp h

theorem tupleTy_plain (hU : PlainPres U) {types : List Ty}
    (hp : ∀ x ∈ types, plainTy x = true) {t : Ty}
    (h : unifyTupleTypes U uns types false = some t) : plainTy t = true := by
  simp only [unifyTupleTypes, Bool.false_eq_true, if_false] at h
  split at h
  · exact toListTy_plain hU hp h
  · rename_i hsame
    split at h
    · simp at h
    · rename_i etys hc
      simp only [Bool.not_eq_true, Bool.not_eq_false', Bool.not_eq_eq_eq_not, Bool.not_true, Bool.not_eq_false] at hsame
      have hcols := columnsTy_plain hU _ etys hc (by
        intro col hcol x hx
        obtain ⟨i, hi, rfl⟩ := List.mem_map.mp hcol
        obtain ⟨ty, hty, rfl⟩ := List.mem_map.mp hx
        have hi' := List.mem_range.mp hi
        have := (List.all_eq_true.mp hsame) _ hty
        simp only [beq_iff_eq] at this
        exact plain_getD (fun y hy => plain_tupleEtysD (hp ty hty) hy) i (by omega))
      split at h
      · simp only [Option.some.injEq] at h; subst h; exact (plain_tuple_iff _).mpr hcols.2
      · exact toListTy_plain hU hp h

theorem tuplesAsListTy_plain (hU : PlainPres U) {types : List Ty} (hp : ∀ x ∈ types, plainTy x = true) {t : Ty}
    (h : unifyTuplesAsList U uns types = some t) : plainTy t = true := by
  simp only [unifyTuplesAsList] at h
  split at h
  · rename_i e he
    have hmid := toListTy_plain hU (fun x hx => hp x (List.mem_filter.mp hx).1) he
    split at h
    · rename_i e' he'
      simp only [Option.some.injEq] at h; subst h
      refine unifyG'_plain hU ?_ he'
      intro x hx
      obtain ⟨y, hy, rfl⟩ := List.mem_map.mp hx
      split
      · exact hmid
      · exact hp y hy
    · simp at h
  · simp at h

theorem objectsAsMapsTy_plain (hU : PlainPres U) {types : List Ty} (hp : ∀ x ∈ types, plainTy x = true) {t : Ty}
    (h : unifyObjectsAsMaps U uns types = some t) : plainTy t = true := by
  simp only [unifyObjectsAsMaps] at h
  split at h
  · rename_i e he
    have hmid := toMapTy_plain hU (fun x hx => hp x (List.mem_filter.mp hx).1) he
    split at h
    · rename_i e' he'
      simp only [Option.some.injEq] at h; subst h
      refine unifyG'_plain hU ?_ he'
      intro x hx
      obtain ⟨y, hy, rfl⟩ := List.mem_map.mp hx
      split
      · exact hmid
      · exact hp y hy
    · simp at h
  · simp at h

/-- ONE ACTIVATION keeps plain types plain -/
theorem unifyStepTy_plain (hU : PlainPres U) {types : List Ty} (hp : ∀ x ∈ types, plainTy x = true) {t : Ty}
    (h : Convert.unifyStep U uns types = some t) : plainTy t = true := by
  have hgen : ∀ t, unifyGeneral U uns types = some t → plainTy t = true :=
    fun t ht => hp t (general_mem types t ht)
  have hd := dynCount_zero hp
  simp only [Convert.unifyStep, hd, Nat.add_zero, Nat.lt_irrefl, decide_false] at h
  split at h
  · simp at h
  have hne : types ≠ [] := by rename_i he; intro e; subst e; simp at he
  split at h
  · exact collectionTy_plain hU plain_map hp h
  split at h
  · split at h
    · rename_i t' ht'
      simp only [Option.some.injEq] at h; subst h
      exact objectsAsMapsTy_plain hU hp ht'
    · exact hgen t h
  split at h
  · exact collectionTy_plain hU plain_list hp h
  split at h
  · split at h
    · rename_i t' ht'
      simp only [Option.some.injEq] at h; subst h
      exact tuplesAsListTy_plain hU hp ht'
    · exact hgen t h
  split at h
  · exact collectionTy_plain hU plain_set hp h
  split at h
  · rename_i hc
    simp only [Bool.and_eq_true, decide_eq_true_eq, beq_iff_eq] at hc
    exact objectTy_plain hU hne (all_of_count hc.2) hp h
  split at h
  · rename_i hc
    simp only [Bool.and_eq_true, decide_eq_true_eq, beq_iff_eq] at hc
    exact tupleTy_plain hU hp h
  split at h
  · simp at h
  · exact hgen t h
end

theorem unifyTyF_plain : ∀ n, PlainPres (unifyTyF n)
  | 0 => by intro uns L t _ h; simp [unifyTyF] at h
  | n + 1 => by
    intro uns L t hL h
    simp only [unifyTyF] at h
    exact unifyStepTy_plain (unifyTyF_plain n) hL h

/-- the unified type of plain types is plain -/
theorem unifyTy_plain : PlainPres unifyTy := fun uns L t hL h => unifyTyF_plain (fuelFor L) uns L t hL h

end Unify
end CtyModel
