/-
`cty.SetVal` as the MessagePack driver models it (`setOfDedup`, d16Set.lean) satisfies the law
`SetsRebuild` assumed by the round-trip theorems of C16, for every value whose set members are
pairwise `apart` (`setsApart`, decidable):

* `toInt?_renorm_of_cmp`, `numApart_sound` — two whole numbers with different values have no
  acceptable decodings (`numBack`) that are `rawEqual` once normalised;
* `apart_sound` — acceptable decodings (`Approx`) of two members that are `apart` are not
  equivalent, at any fuel;
* `equivF_stable`, `equivP_eq` — the fuel of `equivP` is enough: it satisfies the equations of the
  recursive definition;
* `dedupP_id` — `dedupP` keeps a list none of whose members is equivalent to a later one;
* `setsRebuild_of_apart` — the main theorem.
-/
import CtyModel.d16Set
import CtyModel.Lemmas.MsgpackNum
namespace CtyModel
namespace Msgpack
open Num NumCmp

theorem pow_cancel (V X : Int) (a b p q : Nat) (h : V * 2 ^ a = X * 2 ^ b) (hpq : p + b = q + a) :
    V * 2 ^ p = X * 2 ^ q := by
  have hpos := two_pow_pos a
  apply Int.eq_of_mul_eq_mul_right (Int.ne_of_gt hpos)
  calc V * 2 ^ p * 2 ^ a = V * 2 ^ a * 2 ^ p := by rw [Int.mul_right_comm]
    _ = X * 2 ^ b * 2 ^ p := by rw [h]
    _ = X * 2 ^ (p + b) := by rw [Int.mul_assoc, ← Int.pow_add, Nat.add_comm]
    _ = X * 2 ^ (q + a) := by rw [hpq]
    _ = X * 2 ^ q * 2 ^ a := by rw [Int.pow_add, Int.mul_assoc]

theorem toInt?_renorm_of_cmp {y x : Num} {i : Int} (hc : Num.cmp y x = 0) (hx : x.toInt? = some i) :
    (renorm y).toInt? = some i := by
  cases x with
  | inf n => simp [Num.toInt?, Num.isInt] at hx
  | fin nx mx ex px =>
    cases y with
    | inf n => cases n <;> simp [Num.cmp] at hc
    | fin ny my ey py =>
      simp only [renorm]
      rw [Gocty.toInt?_iff _ (Gocty.normal_mk ny my ey py)]
      have hv := mk_isVal ny my ey py
      have hn := Gocty.normal_mk ny my ey py
      rw [toInt?_fin] at hx
      by_cases h1 : ex ≥ 0 <;> simp only [h1, if_true, if_false, reduceCtorEq] at hx
      have hxv : sgnm nx mx * 2 ^ ex.toNat = i := by
        cases nx <;> simp_all [sgnm, Int.neg_mul]
      rw [cmp_fin] at hc
      have hc' : scaleTo (sgnm ny my) ey (min ey ex) = scaleTo (sgnm nx mx) ex (min ey ex) := by
        unfold icmp at hc
        split at hc
        · omega
        · split at hc
          · assumption
          · omega
      unfold scaleTo at hc'
      generalize hy : Num.mk ny my ey py = y at *
      cases y with
      | inf _ => simp [IsVal] at hv
      | fin n' m' e' p' =>
        simp only [IsVal] at hv
        simp only [Gocty.IsTheInt]
        change sgnm n' m' * 2 ^ e'.toNat = i * 2 ^ (-e').toNat
        rw [← hxv]
        rcases hv with ⟨hm0, hv0⟩ | ⟨hle, hval⟩
        · subst hm0
          change sgnm ny my = 0 at hv0
          rw [hv0, Int.zero_mul] at hc'
          have : sgnm nx mx = 0 := by
            have hpos := two_pow_pos (ex - min ey ex).toNat
            rcases Int.mul_eq_zero.mp hc'.symm with h | h
            · exact h
            · omega
          rw [this]; cases n' <;> simp [sgnm]
        · change sgnm n' m' * 2 ^ (e' - ey).toNat = sgnm ny my at hval
          rw [← hval, Int.mul_assoc, ← Int.pow_add] at hc'
          rw [Int.mul_assoc, ← Int.pow_add]
          exact pow_cancel _ _ _ _ _ _ hc' (by omega)

theorem wholeOrF64_of_toInt? {x : Num} {i : Int} (hx : x.toInt? = some i) : wholeOrF64 x = true := by
  have := isInt_of_toInt? hx
  cases x <;> simp_all [wholeOrF64]

theorem truncInt_of_toInt? {x : Num} {i : Int} (hx : x.toInt? = some i) : x.truncInt = some i := by
  have := isInt_of_toInt? hx
  simpa [Num.toInt?, this] using hx

theorem rawEqual_of_toInt?_ne {a b : Num} {i j : Int} (ha : a.toInt? = some i) (hb : b.toInt? = some j)
    (hij : i ≠ j) : Num.rawEqual a b = false := by
  unfold Num.rawEqual
  simp only [isInt_of_toInt? ha, isInt_of_toInt? hb, truncInt_of_toInt? ha, truncInt_of_toInt? hb]
  simp [hij]

theorem numApart_sound {x1 x2 y1 y2 : Num} (h : numApart x1 x2 = true) (h1 : numBack y1 x1) (h2 : numBack y2 x2) :
    Num.rawEqual (renorm y1) (renorm y2) = false := by
  unfold numApart at h
  split at h
  · rename_i i j hi hj
    simp only [numBack, wholeOrF64_of_toInt? hi, wholeOrF64_of_toInt? hj, if_true] at h1 h2
    exact rawEqual_of_toInt?_ne (toInt?_renorm_of_cmp h1 hi) (toInt?_renorm_of_cmp h2 hj) (by simpa using h)
  · simp at h

/-! ## inversion of `Approx` by the constructor of the decoding -/

theorem approx_unk_inv {t : Ty} {r' : Rfn} {a : Payload} (h : Approx t (.unk r') a) : ∃ r, a = .unk r := by
  simp only [Approx] at h
  split at h
  · exact ⟨_, rfl⟩
  · exact h.elim

theorem approx_null_inv {t : Ty} {a : Payload} (h : Approx t .null a) : a = .null := by
  simp only [Approx] at h
  split at h
  · rfl
  · exact h.elim

theorem approx_b_inv {t : Ty} {x : Bool} {a : Payload} (h : Approx t (.b x) a) : a = .b x := by
  simp only [Approx] at h
  split at h
  · rw [h]
  · exact h.elim

theorem approx_s_inv {t : Ty} {x : String} {a : Payload} (h : Approx t (.s x) a) : a = .s x := by
  simp only [Approx] at h
  split at h
  · rw [h]
  · exact h.elim

theorem approx_n_inv {t : Ty} {y : Num} {a : Payload} (h : Approx t (.n y) a) : ∃ x, a = .n x ∧ numBack y x := by
  simp only [Approx] at h
  split at h
  · exact ⟨_, rfl, h⟩
  · exact h.elim

theorem approx_seq_inv {t : Ty} {xs' : List Payload} {a : Payload} (h : Approx t (.seq xs') a) :
    ∃ xs, a = .seq xs ∧ ((∃ e, t = .list e ∧ ApproxAll e xs' xs) ∨ (∃ es, t = .tuple es ∧ ApproxZip es xs' xs)) := by
  simp only [Approx] at h
  split at h
  · exact ⟨_, rfl, .inl ⟨_, rfl, h⟩⟩
  · exact ⟨_, rfl, .inr ⟨_, rfl, h⟩⟩
  · exact h.elim

theorem approx_sset_inv {t : Ty} {ids' : List Int} {xs' : List Payload} {a : Payload} (h : Approx t (.sset ids' xs') a) :
    ∃ ids xs e, a = .sset ids xs ∧ t = .set e ∧ ApproxAll e xs' xs := by
  simp only [Approx] at h
  split at h
  · exact ⟨_, _, _, rfl, rfl, h⟩
  · exact h.elim

theorem approx_smap_inv {t : Ty} {ks : List String} {xs' : List Payload} {a : Payload} (h : Approx t (.smap ks xs') a) :
    ∃ xs, a = .smap ks xs ∧
      ((∃ e, t = .map e ∧ ApproxAll e xs' xs) ∨ (∃ ns ts os, t = .object ns ts os ∧ ApproxZip ts xs' xs)) := by
  simp only [Approx] at h
  split at h
  · obtain ⟨rfl, h⟩ := h; exact ⟨_, rfl, .inl ⟨_, rfl, h⟩⟩
  · obtain ⟨rfl, h⟩ := h; exact ⟨_, rfl, .inr ⟨_, _, _, rfl, h⟩⟩
  · exact h.elim

theorem approxAll_length : ∀ (e : Ty) (xs' xs : List Payload), ApproxAll e xs' xs → xs'.length = xs.length
  | _, [], xs, h => by simp only [ApproxAll] at h; subst h; rfl
  | e, x' :: xs', xs, h => by
    cases xs with
    | nil => simp [ApproxAll] at h
    | cons x xs =>
      simp only [ApproxAll] at h
      simp [approxAll_length e xs' xs h.2]

theorem approxZip_length : ∀ (ts : List Ty) (xs' xs : List Payload), ApproxZip ts xs' xs → xs'.length = xs.length
  | _, [], xs, h => by simp only [ApproxZip] at h; rw [h.1]
  | ts, x' :: xs', xs, h => by
    cases ts with
    | nil => simp [ApproxZip] at h
    | cons t ts =>
      cases xs with
      | nil => simp [ApproxZip] at h
      | cons x xs =>
        simp only [ApproxZip] at h
        simp [approxZip_length ts xs' xs h.2]

/-- what `apart_sound` says at one fuel -/
def ApartSoundAt (f : Nat) : Prop :=
  ∀ (t : Ty) (a b a' b' : Payload), apart a b = true → Approx t a' a → Approx t b' b → equivF f a' b' = false

theorem apartAny_all_sound {f : Nat} (H : ApartSoundAt f) :
    ∀ (e : Ty) (xs' ys' xs ys : List Payload), apartAny xs ys = true → ApproxAll e xs' xs → ApproxAll e ys' ys →
      (xs'.zip ys').all (fun p => equivF f p.1 p.2) = false
  | _, [], _, xs, ys, hap, ha, _ => by
    simp only [ApproxAll] at ha; subst ha; simp [apartAny] at hap
  | e, x' :: xs', ys', xs, ys, hap, ha, hb => by
    cases xs with
    | nil => simp [ApproxAll] at ha
    | cons x xs =>
      cases ys with
      | nil => simp [apartAny] at hap
      | cons y ys =>
        cases ys' with
        | nil => simp [ApproxAll] at hb
        | cons y' ys' =>
          simp only [ApproxAll] at ha hb
          simp only [apartAny, Bool.or_eq_true] at hap
          simp only [List.zip_cons_cons, List.all_cons, Bool.and_eq_false_iff]
          rcases hap with h | h
          · exact .inl (H e x y x' y' h ha.1 hb.1)
          · exact .inr (apartAny_all_sound H e xs' ys' xs ys h ha.2 hb.2)

theorem apartAny_zip_sound {f : Nat} (H : ApartSoundAt f) :
    ∀ (ts : List Ty) (xs' ys' xs ys : List Payload), apartAny xs ys = true → ApproxZip ts xs' xs → ApproxZip ts ys' ys →
      (xs'.zip ys').all (fun p => equivF f p.1 p.2) = false
  | _, [], _, xs, ys, hap, ha, _ => by
    simp only [ApproxZip] at ha; rw [ha.1] at hap; simp [apartAny] at hap
  | ts, x' :: xs', ys', xs, ys, hap, ha, hb => by
    cases ts with
    | nil => simp [ApproxZip] at ha
    | cons t ts =>
    cases xs with
    | nil => simp [ApproxZip] at ha
    | cons x xs =>
      cases ys with
      | nil => simp [apartAny] at hap
      | cons y ys =>
        cases ys' with
        | nil => simp [ApproxZip] at hb
        | cons y' ys' =>
          simp only [ApproxZip] at ha hb
          simp only [apartAny, Bool.or_eq_true] at hap
          simp only [List.zip_cons_cons, List.all_cons, Bool.and_eq_false_iff]
          rcases hap with h | h
          · exact .inl (H t x y x' y' h ha.1 hb.1)
          · exact .inr (apartAny_zip_sound H ts xs' ys' xs ys h ha.2 hb.2)

theorem apart_sound : ∀ (f : Nat) (t : Ty) (a b a' b' : Payload),
    apart a b = true → Approx t a' a → Approx t b' b → equivF f a' b' = false
  | 0, _, _, _, _, _, _, _, _ => rfl
  | f + 1, t, a, b, a', b', hap, ha, hb => by
    have H : ApartSoundAt f := apart_sound f
    cases a' with
    | unk r' => cases b' <;> simp [equivF]
    | caps => simp [Approx] at ha
    | marked _ _ => simp [Approx] at ha
    | bad _ => simp [Approx] at ha
    | null =>
      cases b' <;> try (simp [equivF]; done)
      rw [approx_null_inv ha, approx_null_inv hb] at hap
      simp [apart] at hap
    | b x =>
      cases b' <;> try (simp [equivF]; done)
      rw [approx_b_inv ha, approx_b_inv hb] at hap
      simpa [apart, equivF] using hap
    | s x =>
      cases b' <;> try (simp [equivF]; done)
      rw [approx_s_inv ha, approx_s_inv hb] at hap
      simpa [apart, equivF] using hap
    | n y1 =>
      cases b' <;> try (simp [equivF]; done)
      obtain ⟨x1, rfl, h1⟩ := approx_n_inv ha
      obtain ⟨x2, rfl, h2⟩ := approx_n_inv hb
      simp only [apart] at hap
      simp only [equivF]
      exact numApart_sound hap h1 h2
    | seq xs' =>
      cases b' <;> try (simp [equivF]; done)
      rename_i ys'
      obtain ⟨xs, rfl, hA⟩ := approx_seq_inv ha
      obtain ⟨ys, rfl, hB⟩ := approx_seq_inv hb
      simp only [apart, Bool.or_eq_true, bne_iff_ne, ne_eq] at hap
      simp only [equivF, Bool.and_eq_false_iff, beq_eq_false_iff_ne, ne_eq]
      rcases hA with ⟨e, rfl, hA⟩ | ⟨es, rfl, hA⟩ <;> rcases hB with ⟨e2, he, hB⟩ | ⟨es2, he, hB⟩ <;> cases he
      · rcases hap with h | h
        · left; rw [approxAll_length _ _ _ hA, approxAll_length _ _ _ hB]; exact h
        · right; exact apartAny_all_sound H _ _ _ _ _ h hA hB
      · rcases hap with h | h
        · left; rw [approxZip_length _ _ _ hA, approxZip_length _ _ _ hB]; exact h
        · right; exact apartAny_zip_sound H _ _ _ _ _ h hA hB
    | sset ids' xs' =>
      cases b' <;> try (simp [equivF]; done)
      rename_i jds' ys'
      obtain ⟨ids, xs, e, rfl, rfl, hA⟩ := approx_sset_inv ha
      obtain ⟨jds, ys, e2, rfl, he, hB⟩ := approx_sset_inv hb
      cases he
      simp only [apart, bne_iff_ne, ne_eq] at hap
      simp only [equivF, Bool.and_eq_false_iff, beq_eq_false_iff_ne, ne_eq]
      left; rw [approxAll_length _ _ _ hA, approxAll_length _ _ _ hB]; exact hap
    | smap ks xs' =>
      cases b' <;> try (simp [equivF]; done)
      rename_i ls ys'
      obtain ⟨xs, rfl, hA⟩ := approx_smap_inv ha
      obtain ⟨ys, rfl, hB⟩ := approx_smap_inv hb
      simp only [apart, Bool.or_eq_true, bne_iff_ne, ne_eq] at hap
      simp only [equivF, Bool.and_eq_false_iff, beq_eq_false_iff_ne, ne_eq]
      rcases hA with ⟨e, rfl, hA⟩ | ⟨ns, ts, os, rfl, hA⟩ <;>
        rcases hB with ⟨e2, he, hB⟩ | ⟨ns2, ts2, os2, he, hB⟩ <;> cases he
      · rcases hap with (h | h) | h
        · left; left; exact h
        · left; right; rw [approxAll_length _ _ _ hA, approxAll_length _ _ _ hB]; exact h
        · right; exact apartAny_all_sound H _ _ _ _ _ h hA hB
      · rcases hap with (h | h) | h
        · left; left; exact h
        · left; right; rw [approxZip_length _ _ _ hA, approxZip_length _ _ _ hB]; exact h
        · right; exact apartAny_zip_sound H _ _ _ _ _ h hA hB

/-! ## the fuel of `equivP` is enough: `equivP` satisfies the equations of the recursive definition -/

theorem pdepth_pos (a : Payload) : 1 ≤ pdepth a := by
  cases a <;> simp only [pdepth] <;> omega

theorem pdepth_le_pdepthL : ∀ (xs : List Payload) (x : Payload), x ∈ xs → pdepth x ≤ pdepthL xs
  | [], _, h => by cases h
  | y :: ys, x, h => by
    simp only [pdepthL]
    rcases List.mem_cons.mp h with rfl | h
    · omega
    · have := pdepth_le_pdepthL ys x h; omega

theorem all_congr' {α} {p q : α → Bool} : ∀ (l : List α), (∀ x ∈ l, p x = q x) → l.all p = l.all q
  | [], _ => rfl
  | x :: l, h => by
    simp only [List.all_cons]
    rw [h x (List.mem_cons_self ..), all_congr' l fun y hy => h y (List.mem_cons_of_mem _ hy)]

theorem any_congr' {α} {p q : α → Bool} : ∀ (l : List α), (∀ x ∈ l, p x = q x) → l.any p = l.any q
  | [], _ => rfl
  | x :: l, h => by
    simp only [List.any_cons]
    rw [h x (List.mem_cons_self ..), any_congr' l fun y hy => h y (List.mem_cons_of_mem _ hy)]

/-- any fuel from the depth of the first argument on gives the same answer -/
theorem equivF_stable : ∀ (f g : Nat) (a b : Payload), pdepth a ≤ f → pdepth a ≤ g → equivF f a b = equivF g a b
  | 0, _, a, _, h, _ => by have := pdepth_pos a; omega
  | _ + 1, 0, a, _, _, h => by have := pdepth_pos a; omega
  | f + 1, g + 1, a, b, hf, hg => by
    cases a <;> cases b <;> simp only [equivF]
    case seq.seq xs ys =>
      simp only [pdepth] at hf hg
      congr 1
      apply all_congr'
      intro p hp
      have := pdepth_le_pdepthL xs p.1 (List.of_mem_zip hp).1
      exact equivF_stable f g p.1 p.2 (by omega) (by omega)
    case smap.smap ks xs ls ys =>
      simp only [pdepth] at hf hg
      congr 1
      apply all_congr'
      intro p hp
      have := pdepth_le_pdepthL xs p.1 (List.of_mem_zip hp).1
      exact equivF_stable f g p.1 p.2 (by omega) (by omega)
    case sset.sset _ xs _ ys =>
      simp only [pdepth] at hf hg
      congr 1
      apply all_congr'
      intro x hx
      apply any_congr'
      intro y _
      have := pdepth_le_pdepthL xs x hx
      exact equivF_stable f g x y (by omega) (by omega)

/-- `equivP` is a fixed point of the recursive definition the driver used to run (the non-total `equivP`
of Driver/HMsgpack.lean), with numbers compared in normal form -/
theorem equivP_eq (a b : Payload) :
    equivP a b =
      match a, b with
      | .null, .null => true
      | .b x, .b y => x == y
      | .s x, .s y => x == y
      | .n x, .n y => Num.rawEqual (renorm x) (renorm y)
      | .seq xs, .seq ys => xs.length == ys.length && (xs.zip ys).all fun p => equivP p.1 p.2
      | .smap ks xs, .smap ls ys => ks == ls && xs.length == ys.length && (xs.zip ys).all fun p => equivP p.1 p.2
      | .sset _ xs, .sset _ ys => xs.length == ys.length && xs.all fun x => ys.any fun y => equivP x y
      | _, _ => false := by
  unfold equivP
  cases a <;> cases b <;> simp only [pdepth, Nat.add_comm 1, equivF]
  case seq.seq xs ys =>
    congr 1
    apply all_congr'
    intro p hp
    have := pdepth_le_pdepthL xs p.1 (List.of_mem_zip hp).1
    exact equivF_stable _ _ p.1 p.2 this (Nat.le_refl _)
  case smap.smap ks xs ls ys =>
    congr 1
    apply all_congr'
    intro p hp
    have := pdepth_le_pdepthL xs p.1 (List.of_mem_zip hp).1
    exact equivF_stable _ _ p.1 p.2 this (Nat.le_refl _)
  case sset.sset _ xs _ ys =>
    congr 1
    apply all_congr'
    intro x hx
    apply any_congr'
    intro y _
    exact equivF_stable _ _ x y (pdepth_le_pdepthL xs x hx) (Nat.le_refl _)

/-! ## de-duplication -/

/-- no member is equivalent to a later one (the direction `set.Add` tests) -/
def PairwiseNE (ps : List Payload) : Prop := ps.Pairwise fun a b => equivP a b = false

theorem dedupP_acc : ∀ (ps acc : List Payload), PairwiseNE ps →
    (∀ a ∈ acc, ∀ x ∈ ps, equivP a x = false) → dedupP ps acc = acc.reverse ++ ps
  | [], acc, _, _ => by simp [dedupP]
  | x :: xs, acc, hp, hacc => by
    have hno : acc.any (equivP · x) = false := by
      rw [List.any_eq_false]
      intro a ha
      simp [hacc a ha x (List.mem_cons_self ..)]
    unfold PairwiseNE at hp
    rw [List.pairwise_cons] at hp
    simp only [dedupP, hno, Bool.false_eq_true, if_false]
    rw [dedupP_acc xs (x :: acc) hp.2]
    · simp
    · intro a ha y hy
      rcases List.mem_cons.mp ha with rfl | ha
      · exact hp.1 y hy
      · exact hacc a ha y (List.mem_cons_of_mem _ hy)

/-- `dedupP` keeps a list none of whose members is equivalent to a later one -/
theorem dedupP_id (ps : List Payload) (h : PairwiseNE ps) : dedupP ps [] = ps := by
  rw [dedupP_acc ps [] h (by intro a ha; cases ha)]; rfl

theorem setOfDedup_id (e : Ty) (ps : List Payload) (h : PairwiseNE ps) : setOfDedup e ps = .ok (.sset [] ps) := by
  simp [setOfDedup, dedupP_id ps h]

/-! ## the main theorem -/

theorem all_apart_sound {e : Ty} {x x' : Payload} (hx : Approx e x' x) :
    ∀ (ps' ms : List Payload), ms.all (apart x) = true → ApproxAll e ps' ms → ∀ p' ∈ ps', equivP x' p' = false
  | [], _, _, _, p', hp' => by cases hp'
  | q' :: ps', ms, hall, hA, p', hp' => by
    cases ms with
    | nil => simp [ApproxAll] at hA
    | cons q ms =>
      simp only [ApproxAll] at hA
      simp only [List.all_cons, Bool.and_eq_true] at hall
      rcases List.mem_cons.mp hp' with rfl | hp'
      · exact apart_sound _ e x q x' _ hall.1 hx hA.1
      · exact all_apart_sound hx ps' ms hall.2 hA.2 p' hp'

/-- acceptable decodings of pairwise apart members are pairwise non-equivalent -/
theorem pairwiseNE_of_apart (e : Ty) : ∀ (ps' ms : List Payload), pairwiseApart ms = true → ApproxAll e ps' ms →
    PairwiseNE ps'
  | [], _, _, _ => List.Pairwise.nil
  | x' :: ps', ms, hpa, hA => by
    cases ms with
    | nil => simp [ApproxAll] at hA
    | cons x ms =>
      simp only [ApproxAll] at hA
      simp only [pairwiseApart, Bool.and_eq_true] at hpa
      unfold PairwiseNE
      rw [List.pairwise_cons]
      exact ⟨all_apart_sound hA.1 ps' ms hpa.1 hA.2, pairwiseNE_of_apart e ps' ms hpa.2 hA.2⟩

theorem setLawAt_of_apart (E : Ext) (hE : E.setOf = setOfDedup) (n : Ty × List Payload) (h : pairwiseApart n.2 = true) :
    SetLawAt E n := by
  intro ps' hA
  refine ⟨[], ps', ?_, hA⟩
  rw [hE]
  exact setOfDedup_id n.1 ps' (pairwiseNE_of_apart n.1 ps' n.2 h hA)

theorem setsRebuild_of_apart (E : Ext) (hE : E.setOf = setOfDedup) (v : Value) (h : setsApart v.ty v.v = true) :
    SetsRebuild E v := by
  intro n hn
  unfold setsApart at h
  rw [List.all_eq_true] at h
  exact setLawAt_of_apart E hE n (h n hn)

/-! ## non-vacuity -/

example : setsApart (.set .number)
    (.sset [] [.n (.fin false 1 0 64), .n (.fin false 1 1 64), .n (.fin false 3 0 64), .unk (.num .f none none)]) = true := by
  decide

example : setsApart (.set (.object ["a", "b"] [.string, .number] [false, false]))
    (.sset [] [.smap ["a", "b"] [.s "x", .n (.fin false 1 0 64)], .smap ["a", "b"] [.s "y", .n (.fin false 1 0 64)]]) = true := by
  decide

example : setsApart (.set .number) (.sset [] [.n (.fin false 1 (-1) 64), .n (.fin false 3 (-1) 64)]) = false := by
  decide


end Msgpack
end CtyModel
