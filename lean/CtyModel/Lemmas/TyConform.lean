/- `TestConformance` reports no error exactly when the type matches the constraint. -/
import CtyModel.Lemmas.TyEq
import CtyModel.TySpec
namespace CtyModel
namespace Ty

mutual
theorem matches_refl : ∀ t : Ty, «matches» t t = true
  | .bool | .number | .string | .dyn => by simp [«matches»]
  | .capsule _ => by simp [«matches»]
  | .list e | .set e | .map e => by simp [«matches», matches_refl e]
  | .tuple es => by simp [«matches», matchesL_refl es]
  | .object ns ts os => by simp [«matches», matchesL_refl ts]
theorem matchesL_refl : ∀ ts : List Ty, matchesL ts ts = true
  | [] => by simp [matchesL]
  | t :: ts => by simp [matchesL, matches_refl t, matchesL_refl ts]
end

theorem matchesL_length : ∀ {cs ts : List Ty}, matchesL cs ts = true → cs.length = ts.length
  | [], [], _ => rfl
  | [], _ :: _, h => by simp [matchesL] at h
  | _ :: _, [], h => by simp [matchesL] at h
  | _ :: cs, _ :: ts, h => by
    simp only [matchesL, Bool.and_eq_true] at h
    simp [matchesL_length h.2]

theorem countMissing_zero {ks other : List String} :
    countMissing ks other = 0 ↔ ∀ x ∈ ks, x ∈ other := by
  simp [countMissing, List.filter_eq_nil_iff]

theorem asc_mutual_subset_eq {l₁ l₂ : List String} (h₁ : strictAsc l₁ = true)
    (h₂ : strictAsc l₂ = true) (s₁ : ∀ x ∈ l₁, x ∈ l₂) (s₂ : ∀ x ∈ l₂, x ∈ l₁) : l₁ = l₂ := by
  have a := List.Nodup.length_le_of_subset (strictAsc_nodup h₁) s₁
  have b := List.Nodup.length_le_of_subset (strictAsc_nodup h₂) s₂
  exact asc_subset_eq l₁ l₂ h₁ h₂ (by omega) s₁

theorem conformFields_skip {k : String} {u : Ty} {p : Bool} :
    ∀ {ks : List String} {ws : List Ty} {gn gt go}, (∀ x ∈ ks, x ≠ k) →
    conformFields ks ws (k :: gn) (u :: gt) (p :: go) = conformFields ks ws gn gt go
  | [], _, _, _, _, _ => by simp [conformFields]
  | _ :: _, [], _, _, _, _ => by simp [conformFields]
  | a :: ks, w :: ws, gn, gt, go, h => by
    have ha : k ≠ a := fun e => h a (by simp) e.symm
    simp only [conformFields, find, ha, if_false]
    rw [conformFields_skip (fun x hx => h x (List.mem_cons_of_mem _ hx))]

theorem conformFields_same {ns : List String} {ws gt : List Ty} {go : List Bool}
    (h : strictAsc ns = true) (l1 : ns.length = ws.length) (l2 : gt.length = ws.length)
    (l3 : go.length = ws.length) : conformFields ns ws ns gt go = conformZip ws gt := by
  induction ns generalizing ws gt go with
  | nil =>
    cases ws with
    | nil => simp [conformFields, conformZip]
    | cons _ _ => simp at l1
  | cons n ns ih =>
    cases ws with
    | nil => simp at l1
    | cons w ws =>
      cases gt with
      | nil => simp at l2
      | cons g gt =>
        cases go with
        | nil => simp at l3
        | cons p go =>
          have ⟨h', hlt⟩ := strictAsc_cons h
          simp only [conformFields, find, if_true, conformZip]
          rw [conformFields_skip (fun x hx e => String.lt_irrefl _ (e ▸ hlt x hx)),
            ih h' (by simpa using l1) (by simpa using l2) (by simpa using l3)]

mutual
theorem conform_iff : ∀ (c t : Ty), wf c = true → wf t = true →
    (conformErrs c t = 0 ↔ «matches» c t = true)
  | .dyn, t, _, _ => by simp [conformErrs, «matches»]
  | .bool, t, _, _ => by cases t <;> simp [conformErrs, «matches», equals]
  | .number, t, _, _ => by cases t <;> simp [conformErrs, «matches», equals]
  | .string, t, _, _ => by cases t <;> simp [conformErrs, «matches», equals]
  | .capsule i, t, _, _ => by
    cases t <;> simp [conformErrs, «matches», equals]
    exact eq_comm
  | .list w, t, hc, ht => by
    simp only [conformErrs]
    split
    · rename_i he
      rw [(equals_iff_eq t (.list w) ht hc).mp he]; simp [matches_refl]
    · cases t <;> simp [«matches»]
      simp only [wf] at hc ht; exact conform_iff w _ hc ht
  | .set w, t, hc, ht => by
    simp only [conformErrs]
    split
    · rename_i he
      rw [(equals_iff_eq t (.set w) ht hc).mp he]; simp [matches_refl]
    · cases t <;> simp [«matches»]
      simp only [wf] at hc ht; exact conform_iff w _ hc ht
  | .map w, t, hc, ht => by
    simp only [conformErrs]
    split
    · rename_i he
      rw [(equals_iff_eq t (.map w) ht hc).mp he]; simp [matches_refl]
    · cases t <;> simp [«matches»]
      simp only [wf] at hc ht; exact conform_iff w _ hc ht
  | .tuple ws, t, hc, ht => by
    simp only [conformErrs]
    split
    · rename_i he
      rw [(equals_iff_eq t (.tuple ws) ht hc).mp he]; simp [matches_refl]
    · cases t <;> simp [«matches»]
      rename_i gs _
      simp only [wf] at hc ht
      by_cases hl : gs.length = ws.length
      · simp only [hl, if_true]
        exact conformZip_iff ws gs hc ht hl.symm
      · simp only [hl, if_false]
        constructor
        · intro h; simp at h
        · intro h; exact absurd (matchesL_length h).symm hl
  | .object wn wt wo, t, hc, ht => by
    simp only [conformErrs]
    split
    · rename_i he
      rw [(equals_iff_eq t (.object wn wt wo) ht hc).mp he]; simp [matches_refl]
    · cases t <;> simp [«matches»]
      rename_i gn gt go _
      simp only [wf, Bool.and_eq_true, beq_iff_eq] at hc ht
      obtain ⟨⟨⟨l1, l1'⟩, a1⟩, w1⟩ := hc
      obtain ⟨⟨⟨l2, l2'⟩, a2⟩, w2⟩ := ht
      constructor
      · rintro ⟨⟨hm1, hm2⟩, hf⟩
        have hn : wn = gn := asc_mutual_subset_eq a1 a2 (countMissing_zero.mp hm2) (countMissing_zero.mp hm1)
        subst hn
        rw [conformFields_same a1 l1 (by omega) (by omega)] at hf
        exact ⟨rfl, (conformZip_iff wt gt w1 w2 (by omega)).mp hf⟩
      · rintro ⟨rfl, hm⟩
        have hl := matchesL_length hm
        refine ⟨⟨countMissing_zero.mpr fun _ h => h, countMissing_zero.mpr fun _ h => h⟩, ?_⟩
        rw [conformFields_same a1 l1 (by omega) (by omega)]
        exact (conformZip_iff wt gt w1 w2 hl).mpr hm
theorem conformZip_iff : ∀ (ws gs : List Ty), wfL ws = true → wfL gs = true → ws.length = gs.length →
    (conformZip ws gs = 0 ↔ matchesL ws gs = true)
  | [], [], _, _, _ => by simp [conformZip, matchesL]
  | [], _ :: _, _, _, h => by simp at h
  | _ :: _, [], _, _, h => by simp at h
  | w :: ws, g :: gs, hw, hg, hl => by
    simp only [wfL, Bool.and_eq_true] at hw hg
    simp only [conformZip, matchesL, Bool.and_eq_true, Nat.add_eq_zero_iff]
    rw [conform_iff w g hw.1 hg.1, conformZip_iff ws gs hw.2 hg.2 (by simpa using hl)]
end

end Ty
end CtyModel
