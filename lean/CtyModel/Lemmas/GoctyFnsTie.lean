/-
The REGENERATED-MODEL tie for C18: the definitions that `extract/translate_gocty.go`
regenerates from cty/gocty/out.go on every check (`Generated/GoctyFns.lean`) compute
what the hand-written model `CtyModel/Gocty.lean` computes:

* `fromCtyNumberInt_eq`    `fromCtyNumberInt`   = `fromNumInt`   (every signed width, every number)
* `fromCtyNumberUInt_eq`   `fromCtyNumberUInt`  = `fromNumUInt`  (every unsigned width)
* `fromCtyNumberFloat_eq`  `fromCtyNumberFloat` = `fromNumFloat` (float32 and float64)
* `fromCtyNumberBig_eq`    `fromCtyNumberBig`   = `fromNum` on the struct kinds (big.Float, big.Int, others refused)
* `likely_err`             `likelyRequiredTypesError` always returns an error
* `fromCtyNumber_eq`       `fromCtyNumber`      = `fromNum`      (EVERY target type)
* `fromCtyNumber_eq_fromCtyP`, `fromCtyBool_eq_fromCtyP`, `fromCtyString_eq_fromCtyP`:
  the three scalar decoders = the scalar cases of `fromCtyP` (the model of `fromCtyValue`), marks included,
  for every target that is not a pointer and not `cty.Value` (what `fromCtyValue` hands them)

Outcomes are compared up to the TEXT of an error or panic (`er`): the model abbreviates
Go's messages.  The target's previous content is immaterial (`tv`).  The given API
(`CtyModel/GoctyGo.lean`) is unfolded, so the statements are in the model's own terms;
in particular `SetInt`/`SetUint` store the value converted to the target's width, and the
tie shows that the range test of the source makes that conversion the identity.

A refactoring of the Go code inside the translated fragment that preserves the meaning
still goes through (the proofs are `simp`/case analysis over the generated text), while a
change of meaning makes this file fail to build.
-/
import CtyModel.Generated.GoctyFns
import CtyModel.Lemmas.GoctyNum
set_option linter.unusedSimpArgs false
set_option linter.unusedVariables false
namespace CtyModel
namespace GoctyFnsTie
open Gocty GoctyGo Generated.GoctyFns

/-- an outcome up to the text of a panic or error -/
def er {α} : Res α → Res α
  | .panic _ => .panic ""
  | .err _ => .err ""
  | r => r

@[simp] theorem er_ok {α} (a : α) : er (Res.ok a) = .ok a := rfl
@[simp] theorem er_err {α} (w : String) : er (Res.err w : Res α) = .err "" := rfl
@[simp] theorem er_panic {α} (w : String) : er (Res.panic w : Res α) = .panic "" := rfl
@[simp] theorem er_unmodelled {α} : er (Res.unmodelled : Res α) = .unmodelled := rfl
@[simp] theorem rbind_ok {α β} (a : α) (f : α → Res β) : Res.bind (.ok a) f = f a := rfl
@[simp] theorem rbind_panic {α β} (w : String) (f : α → Res β) : Res.bind (.panic w) f = .panic w := rfl
@[simp] theorem rbind_unmodelled {α β} (f : α → Res β) : Res.bind .unmodelled f = .unmodelled := rfl
@[simp] theorem rbind_err {α β} (w : String) (f : α → Res β) : Res.bind (.err w) f = .err w := rfl

theorem er_eq_ok {α} {r : Res α} {a : α} : er r = .ok a ↔ r = .ok a := by
  cases r <;> simp [er]

theorem er_eq_err {α} {r : Res α} : er r = .err "" ↔ ∃ c, r = .err c := by
  cases r <;> simp [er]

/-! ### conversions to the target's width are the identity inside the tested range -/

theorem wrap_signed (bits : Nat) (m : Int) (hm : (2 : Int) ^ bits = 2 * m) (i : Int) (h1 : -m ≤ i) (h2 : i < m) :
    wrapInt bits true i = i := by
  simp only [wrapInt, hm, Bool.true_and]
  have : (2 * m) / 2 = m := by omega
  rw [this]
  by_cases h : 0 ≤ i
  · have : i % (2 * m) = i := Int.emod_eq_of_lt h (by omega)
    rw [this]; simp; omega
  · have h3 : (i + 2 * m) % (2 * m) = i + 2 * m := Int.emod_eq_of_lt (by omega) (by omega)
    have : i % (2 * m) = i + 2 * m := by rw [← h3]; simp
    rw [this]
    have : decide (i + 2 * m ≥ m) = true := by simp; omega
    simp [this]

theorem wrap_unsigned (bits : Nat) (m : Int) (hm : (2 : Int) ^ bits = m) (i : Int) (h1 : 0 ≤ i) (h2 : i < m) :
    wrapInt bits false i = i := by
  simp only [wrapInt, hm, Bool.false_and]
  simp [Int.emod_eq_of_lt h1 h2]

/-- math/big's `Uint64` never yields a negative value -/
theorem uint64Exact_nonneg {x : Num} {k : Int} (h : uint64Exact x = some k) : 0 ≤ k := by
  unfold uint64Exact at h
  cases x with
  | inf n => cases h
  | fin n m0 e0 p =>
    simp only at h
    split at h
    · cases h; omega
    · split at h
      · cases h
      · split at h
        · cases h
        · split at h
          · split at h
            · simp only [Num.truncInt, Bool.false_eq_true, if_false] at h
              cases h
              split
              · exact Int.mul_nonneg (Int.natCast_nonneg _) (Int.le_of_lt (Int.pow_pos (by decide)))
              · exact Int.ediv_nonneg (Int.natCast_nonneg _) (Int.le_of_lt (Int.pow_pos (by decide)))
            · cases h
          · cases h

/-! ### the five number decoders -/

theorem likely_err (T : GoTy) (tv : GoVal) : ∃ c, likelyRequiredTypesError T tv = .err c := by
  cases T with
  | int w s => cases w <;> cases s <;> exact ⟨_, rfl⟩
  | float is32 => cases is32 <;> exact ⟨_, rfl⟩
  | _ => exact ⟨_, rfl⟩

theorem er_likely (T : GoTy) (tv : GoVal) : er (likelyRequiredTypesError T tv) = .err "" := by
  obtain ⟨c, h⟩ := likely_err T tv
  rw [h]; rfl

@[simp] theorem truncAcc_ne (x : Num) : (truncAcc x = Accuracy.exact) = False := by
  simp only [truncAcc]; split <;> simp

/-- closes `wrapInt bits signed k = k` from range hypotheses in the context -/
macro "wrap_id" : tactic => `(tactic| first
  | exact wrap_signed 8 128 (by decide) _ (by omega) (by omega)
  | exact wrap_signed 16 32768 (by decide) _ (by omega) (by omega)
  | exact wrap_signed 32 2147483648 (by decide) _ (by omega) (by omega)
  | exact wrap_signed 64 9223372036854775808 (by decide) _ (by omega) (by omega)
  | exact wrap_unsigned 8 256 (by decide) _ (by omega) (by omega)
  | exact wrap_unsigned 16 65536 (by decide) _ (by omega) (by omega)
  | exact wrap_unsigned 32 4294967296 (by decide) _ (by omega) (by omega)
  | exact wrap_unsigned 64 18446744073709551616 (by decide) _ (by omega) (by omega))

@[simp] theorem mapRes_ok {α β} (f : α → β) (a : α) : mapRes f (.ok a) = .ok (f a) := rfl
@[simp] theorem mapRes_err {α β} (f : α → β) (c : String) : mapRes f (.err c : Res α) = .err c := rfl
@[simp] theorem mapRes_panic {α β} (f : α → β) (c : String) : mapRes f (.panic c : Res α) = .panic c := rfl
@[simp] theorem mapRes_ite {α β} (f : α → β) (c : Prop) [Decidable c] (a b : Res α) :
    mapRes f (if c then a else b) = if c then mapRes f a else mapRes f b := by split <;> rfl

/-- both sides are `if`s over the same tests: split them, discharge the impossible combinations -/
macro "both_ifs" : tactic => `(tactic| (
  split <;> (try split) <;>
  (try simp only [not_or, not_lt, not_le, Bool.not_eq_false, Bool.not_eq_true, gt_iff_lt, ge_iff_le] at *) <;>
  first
   | rfl
   | contradiction
   | (simp only [er_ok, Res.ok.injEq, GoVal.int.injEq]; wrap_id)
   | (exfalso; omega)
   | (simp_all; done)))

theorem fromCtyNumberInt_eq (x : Num) (w : IntW) (tv : GoVal) :
    er (fromCtyNumberInt x (.int w true) tv) = er (mapRes GoVal.int (fromNumInt x w.bits)) := by
  cases h : int64Exact x with
  | none => cases w <;> simp [fromCtyNumberInt, typeBits, IntW.bits, fromNumInt, intMinMax, bfInt64, h, mapRes]
  | some k =>
    cases w <;>
      simp [fromCtyNumberInt, typeBits, IntW.bits, fromNumInt, intMinMax, bfInt64, h, setInt] <;>
      both_ifs

theorem fromCtyNumberUInt_eq (x : Num) (w : IntW) (tv : GoVal) :
    er (fromCtyNumberUInt x (.int w false) tv) = er (mapRes GoVal.int (fromNumUInt x w.bits)) := by
  cases h : uint64Exact x with
  | none => cases w <;> simp [fromCtyNumberUInt, typeBits, IntW.bits, fromNumUInt, uintMax, bfUint64, h, mapRes]
  | some k =>
    have hnn := uint64Exact_nonneg h
    cases w <;>
      simp [fromCtyNumberUInt, typeBits, IntW.bits, fromNumUInt, uintMax, bfUint64, bfIsInt, h, setUint] <;>
      both_ifs

@[simp] theorem roundAcc_exact (ex : Bool) (r x : Num) : (roundAcc ex r x = Accuracy.exact) = (ex = true) := by
  cases ex <;> simp [roundAcc] <;> split <;> simp

@[simp] theorem mathIsInf_zero (f : Num) : mathIsInf f 0 = f.isInf := by
  cases f <;> simp [mathIsInf, Num.isInf]

theorem fromCtyNumberFloat_eq (x : Num) (is32 : Bool) (tv : GoVal) :
    er (fromCtyNumberFloat x (.float is32) tv) = er (mapRes GoVal.flt (fromNumFloat x is32)) := by
  cases is32 <;>
    simp [fromCtyNumberFloat, kindOf, bfFloat64, fromNumFloat, toFloat64, toFloat32, setFloat, mapRes] <;>
    cases (Num.toF64 x).2 <;> cases h1 : (Num.toF64 x).1.isInf <;> simp [mapRes] <;>
    cases h2 : (Num.f64to32 (Num.toF64 x).1).isInf <;> simp [mapRes]

/-- `fromCtyNumberBig` on the struct kinds: big.Float stores the number as it is, big.Int its exact integer value
or refuses, every other struct type is refused -/
theorem fromCtyNumberBig_eq (x : Num) (T : GoTy) (tv : GoVal) (hk : kindOf T = .kStruct) :
    er (fromCtyNumberBig x T tv) = er (fromNum x T) := by
  cases T with
  | int w s => cases w <;> cases s <;> cases hk
  | float is32 => cases is32 <;> cases hk
  | bigFloat => rfl
  | bigInt =>
    cases h : x.toInt? with
    | some k => simp [fromCtyNumberBig, convertibleTo, isNamed, bfInt, fromNum, h, valueOfBigInt, rvElem, rvConvert, rvSet]
    | none => simp [fromCtyNumberBig, convertibleTo, isNamed, bfInt, fromNum, h]
  | struct tags tys => simp [fromCtyNumberBig, convertibleTo, isNamed, fromNum, er_likely]
  | cval => simp [fromCtyNumberBig, convertibleTo, isNamed, fromNum, er_likely]
  | _ => cases hk

/-- `fromCtyNumber` on a known, unmarked number = the model's `fromNum`, for EVERY target type -/
theorem fromCtyNumber_eq (x : Num) (T : GoTy) (tv : GoVal) :
    er (fromCtyNumber ⟨.number, .n x⟩ T tv) = er (fromNum x T) := by
  have hbf : asBigFloat ⟨.number, .n x⟩ = .ok x := rfl
  cases T with
  | int w s =>
    cases s
    · rw [fromNum_int_unsigned, ← fromCtyNumberUInt_eq x w tv]
      cases w <;> simp [fromCtyNumber, hbf, kindOf]
    · rw [fromNum_int_signed, ← fromCtyNumberInt_eq x w tv]
      cases w <;> simp [fromCtyNumber, hbf, kindOf]
  | float is32 =>
    rw [fromNum_float, ← fromCtyNumberFloat_eq x is32 tv]
    cases is32 <;> simp [fromCtyNumber, hbf, kindOf]
  | bigFloat => rw [← fromCtyNumberBig_eq x _ tv rfl]; simp [fromCtyNumber, hbf, kindOf]
  | bigInt => rw [← fromCtyNumberBig_eq x _ tv rfl]; simp [fromCtyNumber, hbf, kindOf]
  | struct tags tys => rw [← fromCtyNumberBig_eq x _ tv rfl]; simp [fromCtyNumber, hbf, kindOf]
  | cval => rw [← fromCtyNumberBig_eq x _ tv rfl]; simp [fromCtyNumber, hbf, kindOf]
  | _ => simp [fromCtyNumber, hbf, kindOf, fromNum, er_likely]

/-- a marked number makes `val.AsBigFloat()` panic before the target is looked at -/
theorem fromCtyNumber_marked (ms : List String) (p : Payload) (T : GoTy) (tv : GoVal) :
    er (fromCtyNumber ⟨.number, .marked ms p⟩ T tv) = .panic "" := by
  simp [fromCtyNumber, asBigFloat, Value.isMarked, Payload.isMarked]

/-! ### the scalar cases of `fromCtyValue` (the model's `fromCtyP`), marks included -/

theorem base_of_depth0 {T : GoTy} (h : T.depth = 0) : T.base = T := by
  cases T <;> simp_all [GoTy.base, GoTy.depth]

theorem pushMarks_scalar (ms : List String) (p : Payload) (hp : p.marks1 = []) (hu : p.unmark1 = p) :
    pushMarks ms p = if ms.isEmpty then p else .marked ms p := by
  simp only [pushMarks, Payload.withMarks, hp, hu, unionMarks, List.foldr_nil]
  split <;> simp_all

theorem mapRes_wrap0 (r : Res GoVal) : mapRes (wrapPtr 0) r = r := by cases r <;> rfl

/-- `fromCtyNumber(val, target, path)` as `fromCtyValue` calls it = the number case of `fromCtyP`:
`val` is the known number `x` carrying the marks `ms` pushed down from its containers, the target is any
type that is not a pointer and not `cty.Value` -/
theorem fromCtyNumber_eq_fromCtyP (S : Sched) (ms : List String) (x : Num) (T : GoTy) (tv : GoVal)
    (hd : T.depth = 0) (hc : T.isCval = false) :
    er (fromCtyNumber ⟨.number, pushMarks ms (.n x)⟩ T tv) = er (fromCtyP S ms .number (.n x) T) := by
  have hb := base_of_depth0 hd
  rw [pushMarks_scalar ms (.n x) rfl rfl]
  unfold fromCtyP
  simp only [hb, hc, hd, Bool.false_eq_true, if_false]
  by_cases hm : ms.isEmpty = true
  · simp only [hm, if_true, Bool.not_true, Bool.false_eq_true, if_false, mapRes_wrap0]
    exact fromCtyNumber_eq x T tv
  · simp only [hm, if_false, Bool.not_false, if_true, Bool.not_eq_true] at *
    simp [hm, fromCtyNumber_marked]

/-- `fromCtyBool` = the bool case of `fromCtyP` -/
theorem fromCtyBool_eq_fromCtyP (S : Sched) (ms : List String) (b : Bool) (T : GoTy) (tv : GoVal)
    (hd : T.depth = 0) (hc : T.isCval = false) :
    er (fromCtyBool ⟨.bool, pushMarks ms (.b b)⟩ T tv) = er (fromCtyP S ms .bool (.b b) T) := by
  have hb := base_of_depth0 hd
  rw [pushMarks_scalar ms (.b b) rfl rfl]
  unfold fromCtyP
  simp only [hb, hc, hd, Bool.false_eq_true, if_false]
  by_cases hm : ms.isEmpty = true <;>
    cases T <;> first
      | (rename_i w s; cases w <;> cases s <;>
          simp [hm, fromCtyBool, kindOf, er_likely, valTrue, Value.isMarked, Payload.isMarked, setBool, wrapPtr])
      | (rename_i is32; cases is32 <;>
          simp [hm, fromCtyBool, kindOf, er_likely, valTrue, Value.isMarked, Payload.isMarked, setBool, wrapPtr])
      | simp [hm, fromCtyBool, kindOf, er_likely, valTrue, Value.isMarked, Payload.isMarked, setBool, wrapPtr]

/-- `fromCtyString` = the string case of `fromCtyP` -/
theorem fromCtyString_eq_fromCtyP (S : Sched) (ms : List String) (v : String) (T : GoTy) (tv : GoVal)
    (hd : T.depth = 0) (hc : T.isCval = false) :
    er (fromCtyString ⟨.string, pushMarks ms (.s v)⟩ T tv) = er (fromCtyP S ms .string (.s v) T) := by
  have hb := base_of_depth0 hd
  rw [pushMarks_scalar ms (.s v) rfl rfl]
  unfold fromCtyP
  simp only [hb, hc, hd, Bool.false_eq_true, if_false]
  by_cases hm : ms.isEmpty = true <;>
    cases T <;> first
      | (rename_i w s; cases w <;> cases s <;>
          simp [hm, fromCtyString, kindOf, er_likely, asString, Value.isMarked, Payload.isMarked, setString, wrapPtr])
      | (rename_i is32; cases is32 <;>
          simp [hm, fromCtyString, kindOf, er_likely, asString, Value.isMarked, Payload.isMarked, setString, wrapPtr])
      | simp [hm, fromCtyString, kindOf, er_likely, asString, Value.isMarked, Payload.isMarked, setString, wrapPtr]

end GoctyFnsTie
end CtyModel
