/-
C09 / d09b — TOTALITY of the full model `unifyF`: the only source of `.unmodelled` is the fuel
running out, the model has no `.err` branch at all, and the re-entry (unifyTuplesAsList /
unifyObjectsAsMaps) happens on a list of list (map) types and placeholders only, on which one more
activation never re-enters.  Hence with two activations or more `unifyF` answers `.ok` or `.panic`
for EVERY environment, mode and list of types; with `unifyF_NP` (no panic for well-formed object
types) the answer is `.ok`.
-/
import CtyModel.Lemmas.d09Fuel2
import CtyModel.Lemmas.UnifyNoPanic
namespace CtyModel
namespace Unify
open Convert Ty

/-- the outcome is a Go outcome (a return or a panic), not an artefact of the model -/
def lv {α} : Res α → Bool
  | .ok _ => true
  | .panic _ => true
  | _ => false

theorem lv_bind {α β} {r : Res α} {f : α → Res β} (hr : lv r = true) (hf : ∀ a, lv (f a) = true) :
    lv (r.bind f) = true := by
  cases r <;> simp_all [Res.bind, lv]

theorem lv_bind' {α β} {r : Res α} {f : α → Res β} (hr : lv r = true) (hf : ∀ a, r = .ok a → lv (f a) = true) :
    lv (r.bind f) = true := by
  cases r <;> simp_all [Res.bind, lv]

theorem lv_mapRes {α β} {f : α → Res β} (hf : ∀ a, lv (f a) = true) : ∀ xs : List α, lv (mapRes f xs) = true
  | [] => rfl
  | a :: as => by
    simp only [mapRes]
    exact lv_bind (hf a) fun b => lv_bind (lv_mapRes hf as) fun _ => rfl

theorem lv_idxR {α} (xs : List α) (i : Nat) : lv (idxR xs i) = true := by
  simp only [idxR]; split <;> rfl

theorem lv_elementType (t : Ty) : lv (elementType t) = true := by cases t <;> rfl
theorem lv_attrTysR (t : Ty) : lv (attrTysR t) = true := by cases t <;> rfl
theorem lv_attrNamesR (t : Ty) : lv (attrNamesR t) = true := by cases t <;> rfl
theorem lv_tupleEtysR (t : Ty) : lv (tupleEtysR t) = true := by cases t <;> rfl

section
variable (E : Env) (uns : Bool)

theorem lv_collectionTypes (mk : Ty → Ty) (types : List Ty) (hd : Bool) :
    lv (collectionTypes E uns mk types hd) = true := by
  simp only [collectionTypes]
  split
  · rfl
  · refine lv_bind (lv_mapRes lv_elementType _) fun es => ?_
    split
    · rfl
    · split <;> rfl

theorem lv_objectTypesToMap (types : List Ty) : lv (objectTypesToMap E uns types) = true := by
  simp only [objectTypesToMap]
  refine lv_bind (lv_mapRes lv_attrTysR _) fun es => ?_
  split
  · rfl
  · split <;> rfl

theorem lv_tupleTypesToList (types : List Ty) : lv (tupleTypesToList E uns types) = true := by
  simp only [tupleTypesToList]
  refine lv_bind (lv_mapRes lv_tupleEtysR _) fun es => ?_
  split
  · rfl
  · split <;> rfl

theorem lv_attrColumn (name : String) (types : List Ty) : lv (attrColumn name types) = true := by
  simp only [attrColumn]
  refine lv_mapRes (fun ty => ?_) _
  split
  · split <;> rfl
  · rfl

theorem lv_tupleColumn (idx : Nat) (types : List Ty) : lv (tupleColumn idx types) = true := by
  simp only [tupleColumn]
  exact lv_mapRes (fun ty => lv_bind (lv_tupleEtysR ty) fun es => lv_idxR es idx) _

theorem lv_sameAttrNames (first : List String) : ∀ types : List Ty, lv (sameAttrNames first types) = true
  | [] => rfl
  | ty :: rest => by
    simp only [sameAttrNames]
    refine lv_bind (lv_attrNamesR ty) fun ns => ?_
    split
    · rfl
    · split
      · rfl
      · exact lv_sameAttrNames first rest

theorem lv_sameTupleLen (n : Nat) : ∀ types : List Ty, lv (sameTupleLen n types) = true
  | [] => rfl
  | ty :: rest => by
    simp only [sameTupleLen]
    refine lv_bind (lv_tupleEtysR ty) fun es => ?_
    split
    · rfl
    · exact lv_sameTupleLen n rest

theorem lv_objectTypes (types : List Ty) (hd : Bool) : lv (objectTypes E uns types hd) = true := by
  simp only [objectTypes]
  split
  · rfl
  · refine lv_bind (lv_idxR _ _) fun first => lv_bind (lv_attrNamesR _) fun names =>
      lv_bind (lv_sameAttrNames _ _) fun same => ?_
    split
    · exact lv_objectTypesToMap E uns types
    · refine lv_bind (lv_mapRes (fun name => lv_attrColumn name types) _) fun cols => ?_
      split
      · rfl
      · split
        · exact lv_objectTypesToMap E uns types
        · rfl

theorem lv_tupleTypes (types : List Ty) (hd : Bool) : lv (tupleTypes E uns types hd) = true := by
  simp only [tupleTypes]
  split
  · rfl
  · refine lv_bind (lv_idxR _ _) fun first => lv_bind (lv_tupleEtysR _) fun etys =>
      lv_bind (lv_sameTupleLen _ _) fun same => ?_
    split
    · exact lv_tupleTypesToList E uns types
    · refine lv_bind (lv_mapRes (fun idx => lv_tupleColumn idx types) _) fun cols => ?_
      split
      · rfl
      · split
        · exact lv_tupleTypesToList E uns types
        · rfl

theorem lv_wrapLoop (firstConvs : Convs) : ∀ (idxs : List Nat) (i : Nat) (convs : Convs),
    lv (wrapLoop firstConvs i idxs convs) = true
  | [], _, _ => rfl
  | idx :: rest, i, convs => by
    simp only [wrapLoop]
    refine lv_bind (lv_idxR _ _) fun second => lv_bind (lv_idxR _ _) fun first => ?_
    split
    · exact lv_wrapLoop firstConvs rest _ _
    · exact lv_wrapLoop firstConvs rest _ _

theorem lv_prefLoop (types : List Ty) : ∀ (order : List Nat) (buf : Convs), lv (prefLoop E uns types order buf) = true
  | [], _ => rfl
  | w :: rest, buf => by
    simp only [prefLoop]
    refine lv_bind (lv_idxR _ _) fun want => ?_
    split
    · rfl
    · exact lv_prefLoop types rest _

theorem lv_general (types : List Ty) : lv (general E uns types) = true := lv_prefLoop E uns types _ _

/-- the re-entering sub-unifiers answer a Go outcome as soon as the re-entry does, on the one list
it is made on -/
theorem lv_reunify (self : Self) (isStruct isColl : Ty → Bool) (toColl : List Ty → Res UOut) (types : List Ty)
    (hc : lv (toColl (types.filter isStruct)) = true)
    (hs : ∀ ty fc, toColl (types.filter isStruct) = .ok (some (ty, fc)) → isColl ty = true →
      lv (self uns (replaceAt (idxsOf isStruct types) ty types)) = true) :
    lv (reunify uns self isStruct isColl toColl types) = true := by
  simp only [reunify]
  refine lv_bind' hc fun r hr => ?_
  split
  · rfl
  · rename_i ty fc
    cases hk : isColl ty with
    | false => rfl
    | true =>
      simp only [Bool.not_true, Bool.false_eq_true, if_false]
      refine lv_bind (hs ty fc hr hk) fun r2 => ?_
      split
      · rfl
      · split
        · rfl
        · exact lv_bind (lv_wrapLoop _ _ _ _) fun _ => rfl

/-- one activation answers a Go outcome if the re-entry does on the lists with the list / map type
swapped in -/
theorem lv_unifyStep (self : Self) (types : List Ty)
    (hL : (∀ x ∈ types, (isListTy x || isTupleTy x || x.isDyn) = true) → ∀ ty fc,
      tupleTypesToList E uns (types.filter isTupleTy) = .ok (some (ty, fc)) → isListTy ty = true →
      lv (self uns (replaceAt (idxsOf isTupleTy types) ty types)) = true)
    (hM : (∀ x ∈ types, (isMapTy x || isObjectTy x || x.isDyn) = true) → ∀ ty fc,
      objectTypesToMap E uns (types.filter isObjectTy) = .ok (some (ty, fc)) → isMapTy ty = true →
      lv (self uns (replaceAt (idxsOf isObjectTy types) ty types)) = true) :
    lv (Unify.unifyStep E uns self types) = true := by
  simp only [Unify.unifyStep]
  split
  · rfl
  split
  · exact lv_collectionTypes E uns _ _ _
  split
  · rename_i hc
    simp only [Bool.and_eq_true, decide_eq_true_eq, beq_iff_eq] at hc
    refine lv_bind (lv_reunify uns self _ _ _ types (lv_objectTypesToMap E uns _)
      (hM (all_of_count3 disj_map_object disj_map_dyn disj_object_dyn hc.2))) fun r => ?_
    split
    · split
      · rfl
      · exact lv_general E uns types
    · exact lv_general E uns types
  split
  · exact lv_collectionTypes E uns _ _ _
  split
  · rename_i hc
    simp only [Bool.and_eq_true, decide_eq_true_eq, beq_iff_eq] at hc
    refine lv_bind (lv_reunify uns self _ _ _ types (lv_tupleTypesToList E uns _)
      (hL (all_of_count3 disj_list_tuple disj_list_dyn disj_tuple_dyn hc.2))) fun r => ?_
    split
    · split
      · rfl
      · exact lv_general E uns types
    · exact lv_general E uns types
  split
  · exact lv_collectionTypes E uns _ _ _
  split
  · exact lv_objectTypes E uns _ _
  split
  · exact lv_tupleTypes E uns _ _
  split
  · rfl
  · exact lv_general E uns types

/-- on a list of list (map) types and placeholders ONE activation answers a Go outcome -/
theorem lv_unifyF_collOnly (n : Nat) (L : List Ty) (h : collOnly L = true) : lv (unifyF E (n + 1) uns L) = true := by
  show lv (Unify.unifyStep E uns (unifyF E n) L) = true
  apply lv_unifyStep
  · intro _ ty fc he
    rw [collOnly_no_tuple h, tupleTypesToList_nil] at he
    simp at he
  · intro _ ty fc he
    rw [collOnly_no_object h, objectTypesToMap_nil] at he
    simp at he

/-- TOTALITY: with two activations or more the model answers a Go outcome — a return or a panic —
for every environment, mode and list of types: it never runs out of fuel and has no error outcome -/
theorem lv_unifyF (n : Nat) (types : List Ty) : lv (unifyF E (n + 2) uns types) = true := by
  show lv (Unify.unifyStep E uns (unifyF E (n + 1)) types) = true
  apply lv_unifyStep
  · intro hall ty _ _ hty
    exact lv_unifyF_collOnly E uns n _ (replaced_collOnly_list hty hall)
  · intro hall ty _ _ hty
    exact lv_unifyF_collOnly E uns n _ (replaced_collOnly_map hty hall)

/-- … and with well-formed object types it is a return -/
theorem unifyF_total (n : Nat) (types : List Ty) (hw : ∀ ty ∈ types, isObjectTy ty = true → ty.wf = true) :
    ∃ out, unifyF E (n + 2) uns types = .ok out := by
  have h1 := lv_unifyF E uns n types
  have h2 := unifyF_NP E (n + 2) uns types hw
  cases hr : unifyF E (n + 2) uns types with
  | ok o => exact ⟨o, rfl⟩
  | err c => rw [hr] at h1; simp [lv] at h1
  | panic w => exact absurd hr (h2 w)
  | unmodelled => rw [hr] at h1; simp [lv] at h1
end

end Unify
end CtyModel
