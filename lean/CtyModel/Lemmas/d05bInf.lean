/-
C05, slice d05b: infinite bounds.

`NumberRangeLowerBound` does not record its argument only when it IS the singleton `cty.NegativeInfinity`
(`min != NegativeInfinity`, a comparison of the Go values), `NumberRangeUpperBound` only for the singleton
`cty.PositiveInfinity`: the NEAR-side infinity is "no bound".  The FAR-side infinity — a lower bound of +∞, an upper
bound of −∞, singleton or computed — is a real constraint: it excludes every finite number, and must be recorded.

For every equality oracle (so: for the code's own number equality):

* `far_lower_excludes` / `far_upper_excludes` — after an accepted `NumberRangeLowerBound(+∞, _)` the builder admits
  no number below +∞ (in particular no finite number); mirror image for `NumberRangeUpperBound(−∞, _)`;
* `far_lower_recorded` / `far_upper_recorded` — and the record itself carries the infinity as its bound;
* `near_lower_not_recorded` / `near_upper_not_recorded` — the near-side singleton leaves the record as it was.
-/
import CtyModel.Lemmas.RefineBase
namespace CtyModel
namespace Refine
namespace D05b
open NumCmp

theorem le_posInf_eq {x : Num} (h : Le (.inf false) x) : x = .inf false := by
  unfold Le at h
  cases x with
  | inf n => cases n <;> simp_all [Num.cmp]
  | fin _ _ _ _ => simp [Num.cmp] at h

theorem le_negInf_eq {x : Num} (h : Le x (.inf true)) : x = .inf true := by
  unfold Le at h
  cases x with
  | inf n => cases n <;> simp_all [Num.cmp]
  | fin _ _ _ _ => simp [Num.cmp] at h

/-- nothing but +∞ satisfies a lower bound at +∞ (inclusive or not) -/
theorem aboveLower_posInf {i : Bool} {x : Num} (h : aboveLower (some ⟨.inf false, i⟩) x = true) : x = .inf false :=
  le_posInf_eq (aboveLower_some.mp h).le

theorem belowUpper_negInf {i : Bool} {x : Num} (h : belowUpper (some ⟨.inf true, i⟩) x = true) : x = .inf true :=
  le_negInf_eq (belowUpper_some.mp h).le

/-- the lower bound a numeric record carries -/
def lowerOf : Rfn → Option Bound
  | .num _ lo _ => lo
  | _ => none

def upperOf : Rfn → Option Bound
  | .num _ _ hi => hi
  | _ => none

section Any
variable [EqOracle]

/-- the bound is at least as tight as the recorded lower bound `w` only if … -/
theorem lowerTighter_posInf_false {incl : Bool} {lo : Option Bound}
    (h : lowerTighter? (.inf false) incl lo = some false) : ∃ i, lo = some ⟨.inf false, i⟩ := by
  cases lo with
  | none => simp [lowerTighter?] at h
  | some w =>
    obtain ⟨wv, wi⟩ := w
    have hw : wv = .inf false := by
      -- "x ≥ w" recorded and "+∞ bound not tighter": then w itself is +∞
      simp only [lowerTighter?] at h
      split at h
      · simp only [Option.some.injEq] at h
        exact le_posInf_eq (gt_false_iff.mp h)
      · unfold ge? at h
        split at h
        · simp at h
        · rename_i hg
          exact le_posInf_eq (gt_false_iff.mp (by simpa using hg))
    exact ⟨wi, by rw [hw]⟩

theorem upperTighter_negInf_false {incl : Bool} {hi : Option Bound}
    (h : upperTighter? (.inf true) incl hi = some false) : ∃ i, hi = some ⟨.inf true, i⟩ := by
  cases hi with
  | none => simp [upperTighter?] at h
  | some w =>
    obtain ⟨wv, wi⟩ := w
    have hw : wv = .inf true := by
      simp only [upperTighter?] at h
      split at h
      · simp only [Option.some.injEq] at h
        exact le_negInf_eq (lt_false_iff.mp h)
      · unfold le? at h
        split at h
        · simp at h
        · rename_i hg
          exact le_negInf_eq (lt_false_iff.mp (by simpa using hg))
    exact ⟨wi, by rw [hw]⟩

/-- `NumberRangeLowerBound(+∞, incl)` — the singleton `cty.PositiveInfinity` or a computed +∞ — returned: the record
of the result has +∞ as its lower bound. -/
theorem far_lower_recorded {b b' : Builder} {a : NumArg} {incl : Bool} (hd : b.isDyn = false)
    (ha : a.num? = some (.inf false)) (h : step b (.numLower a incl) = .ok b') :
    ∃ i, lowerOf b'.wip = some ⟨.inf false, i⟩ := by
  unfold step at h
  rw [hd] at h
  simp only [Bool.false_eq_true, if_false] at h
  split at h
  · simp at h
  · simp only [step1] at h
    obtain ⟨n, lo, hi, hw, hcase⟩ := stepNumLower_ok h
    rcases hcase with ⟨hu, _⟩ | ⟨m, hm, hcore⟩
    · rw [hu] at ha; simp [NumArg.num?] at ha
    · rw [ha] at hm
      simp only [Option.some.injEq] at hm
      subst hm
      have hst : (a != .negInf) = true := by
        cases a <;> simp [NumArg.num?] at ha <;> rfl
      rw [hst] at hcore
      obtain ⟨_, hc⟩ := lowerCore_ok hcore
      rcases hc with ⟨rfl, ht⟩ | ⟨_, rfl, _⟩
      · obtain ⟨i, hi'⟩ := lowerTighter_posInf_false ht
        exact ⟨i, by rw [hw, lowerOf, hi']⟩
      · exact ⟨incl, rfl⟩

theorem far_upper_recorded {b b' : Builder} {a : NumArg} {incl : Bool} (hd : b.isDyn = false)
    (ha : a.num? = some (.inf true)) (h : step b (.numUpper a incl) = .ok b') :
    ∃ i, upperOf b'.wip = some ⟨.inf true, i⟩ := by
  unfold step at h
  rw [hd] at h
  simp only [Bool.false_eq_true, if_false] at h
  split at h
  · simp at h
  · simp only [step1] at h
    obtain ⟨n, lo, hi, hw, hcase⟩ := stepNumUpper_ok h
    rcases hcase with ⟨hu, _⟩ | ⟨m, hm, hcore⟩
    · rw [hu] at ha; simp [NumArg.num?] at ha
    · rw [ha] at hm
      simp only [Option.some.injEq] at hm
      subst hm
      have hst : (a != .posInf) = true := by
        cases a <;> simp [NumArg.num?] at ha <;> rfl
      rw [hst] at hcore
      obtain ⟨_, hc⟩ := upperCore_ok hcore
      rcases hc with ⟨rfl, ht⟩ | ⟨_, rfl, _⟩
      · obtain ⟨i, hi'⟩ := upperTighter_negInf_false ht
        exact ⟨i, by rw [hw, upperOf, hi']⟩
      · exact ⟨incl, rfl⟩

omit [EqOracle] in
/-- a record whose lower bound is +∞ admits no number but +∞ -/
theorem γB_lower_posInf {b : Builder} {i : Bool} (h : lowerOf b.wip = some ⟨.inf false, i⟩) (x : Num)
    (hx : γB b (.num x) = true) : x = .inf false := by
  cases hw : b.wip <;> rw [hw] at h <;> simp [lowerOf] at h
  subst h
  simp only [γB, γ, hw, rangeOk, Bool.and_eq_true] at hx
  exact aboveLower_posInf hx.2.1

omit [EqOracle] in
theorem γB_upper_negInf {b : Builder} {i : Bool} (h : upperOf b.wip = some ⟨.inf true, i⟩) (x : Num)
    (hx : γB b (.num x) = true) : x = .inf true := by
  cases hw : b.wip <;> rw [hw] at h <;> simp [upperOf] at h
  subst h
  simp only [γB, γ, hw, rangeOk, Bool.and_eq_true] at hx
  exact belowUpper_negInf hx.2.2

/-- … hence it admits no number other than +∞ itself: every finite number and −∞ are excluded. -/
theorem far_lower_excludes {b b' : Builder} {a : NumArg} {incl : Bool} (hd : b.isDyn = false)
    (ha : a.num? = some (.inf false)) (h : step b (.numLower a incl) = .ok b') (x : Num) (hx : x ≠ .inf false) :
    γB b' (.num x) = false := by
  obtain ⟨i, hi⟩ := far_lower_recorded hd ha h
  cases hg : γB b' (.num x)
  · rfl
  · exact absurd (γB_lower_posInf hi x hg) hx

theorem far_upper_excludes {b b' : Builder} {a : NumArg} {incl : Bool} (hd : b.isDyn = false)
    (ha : a.num? = some (.inf true)) (h : step b (.numUpper a incl) = .ok b') (x : Num) (hx : x ≠ .inf true) :
    γB b' (.num x) = false := by
  obtain ⟨i, hi⟩ := far_upper_recorded hd ha h
  cases hg : γB b' (.num x)
  · rfl
  · exact absurd (γB_upper_negInf hi x hg) hx

/-- The near-side singleton is "no bound": `NumberRangeLowerBound(cty.NegativeInfinity, _)`, when it returns,
leaves the record exactly as it was. -/
theorem near_lower_not_recorded {b b' : Builder} {incl : Bool} (h : step b (.numLower .negInf incl) = .ok b') :
    b'.wip = b.wip := by
  unfold step at h
  split at h
  · simp at h; rw [← h]
  · split at h
    · simp at h
    · simp only [step1] at h
      obtain ⟨n, lo, hi, hw, hcase⟩ := stepNumLower_ok h
      rcases hcase with ⟨hu, _⟩ | ⟨m, _, hcore⟩
      · cases hu
      · obtain ⟨_, hc⟩ := lowerCore_ok hcore
        rcases hc with ⟨rfl, _⟩ | ⟨_, rfl, _⟩
        · rfl
        · rw [hw]; rfl

theorem near_upper_not_recorded {b b' : Builder} {incl : Bool} (h : step b (.numUpper .posInf incl) = .ok b') :
    b'.wip = b.wip := by
  unfold step at h
  split at h
  · simp at h; rw [← h]
  · split at h
    · simp at h
    · simp only [step1] at h
      obtain ⟨n, lo, hi, hw, hcase⟩ := stepNumUpper_ok h
      rcases hcase with ⟨hu, _⟩ | ⟨m, _, hcore⟩
      · cases hu
      · obtain ⟨_, hc⟩ := upperCore_ok hcore
        rcases hc with ⟨rfl, _⟩ | ⟨_, rfl, _⟩
        · rfl
        · rw [hw]; rfl

end Any

end D05b
end Refine
end CtyModel
