/-
C15 — the tie between the REGENERATED encoder (`Generated/JsonMarshalFns.lean`, translated from
cty/json/marshal.go by extract/translate_jsonmarshal.go on every check) and the hand-written model
`JsonVal.marshal`.

`marshal_tie`: for every environment, every order `ord` in which Go's `range` may visit the attribute
map (any permutation), every well-formed value `v` without set types and every well-formed constraint `t`
the value's type conforms to, and every buffer content `b`:
the generated `marshal env ord v t b` has the outcome of `JsonVal.marshal env v t` (ok / error / panic /
unmodelled, up to the text of the message), and when that is `.ok j` the buffer afterwards holds
`b ++ JsonGo.render j` — exactly the tokens of the model's token tree.  `assemble_render` shows the tree
can be read back from those tokens, so "same tokens" is "same tree".

Outside the tie (listed): values with SET types (the Go code marshals the members in iteration order,
the model in storage order and permutes afterwards: same document, but which error comes first differs
when several members fail differently; `marshal_tie_sets` covers them under the total-oracle, capsule-free
hypotheses of `rejects_unknown_marked_with_sets`), non-conforming (value, constraint) pairs (the public
`Marshal` converts first: `marshalTop` is `.unmodelled` there), capsule payloads (`.unmodelled` on both
sides).
-/
import CtyModel.Generated.JsonMarshalFns
import CtyModel.Lemmas.d15Reject
import CtyModel.Lemmas.JsonValDoc
import CtyModel.Lemmas.Asc
set_option linter.unusedSimpArgs false
set_option linter.unusedVariables false
namespace CtyModel
namespace JsonMarshalFnsTie
open JsonVal JsonGo Ty Generated.JsonMarshalFns

/-- the generated outcome `g` (a buffer) answers the model's outcome `h`: same kind of outcome, and for
`.ok a` the buffer is `f a` -/
def Agree {α} (g : Res Buf) (h : Res α) (f : α → Buf) : Prop :=
  match h with
  | .ok a => g = .ok (f a)
  | .err _ => ∃ c, g = .err c
  | .panic _ => ∃ w, g = .panic w
  | .unmodelled => g = .unmodelled

theorem Agree.map {α β} {g : Res Buf} {h : Res α} {m : α → β} {f : β → Buf}
    (a : Agree g h (fun x => f (m x))) : Agree g (h.map m) f := by
  cases h <;> exact a

/-- what the tie says about `self`: the recursive calls of the generated code, at the fuel in hand -/
def SelfOk (env : JEnv) (self : Value → Ty → Buf → Res Buf) (v : Value) (t : Ty) : Prop :=
  ∀ b, Agree (self v t b) (JsonVal.marshal env v t) (fun j => b ++ render j)

/-- the domain of the tie: well-formed, conforming (marks, unknowns, capsules allowed) -/
structure TW (t vt : Ty) (p : Payload) : Prop where
  wt : wf t = true
  wvt : wf vt = true
  conf : «matches» t vt = true
  wfp : wfP vt p = true

theorem TW.self {t vt p} (h : TW t vt p) : TW vt vt p :=
  { h with wt := h.wvt, conf := matches_refl vt }

/-! ## lists, sets-free collections: the `for it.Next()` loops -/

theorem marshal_all_cons (env : JEnv) (e ve : Ty) (v : Payload) (vs : List Payload) :
    marshalAll env e ve (v :: vs) =
      match JsonVal.marshal env ⟨ve, v⟩ e with
      | .ok j => (marshalAll env e ve vs).map (j :: ·)
      | .err c => .err c
      | .panic w => .panic w
      | .unmodelled => .unmodelled := by
  rw [marshalAll]; rfl

theorem marshal_zip_cons (env : JEnv) (e ve : Ty) (es ves : List Ty) (v : Payload) (vs : List Payload) :
    marshalZip env (e :: es) (ve :: ves) (v :: vs) =
      match JsonVal.marshal env ⟨ve, v⟩ e with
      | .ok j => (marshalZip env es ves vs).map (j :: ·)
      | .err c => .err c
      | .panic w => .panic w
      | .unmodelled => .unmodelled := by
  rw [marshalZip]; rfl

theorem loop1_eq (env : JEnv) (ord : MapOrder) (self : Value → Ty → Buf → Res Buf) (e ve : Ty) :
    ∀ (vs : List Payload) (b : Buf) (first : Bool) (i : Nat),
      (∀ v ∈ vs, SelfOk env self ⟨ve, v⟩ e) →
      Agree (marshal_loop1 env ord self e b first (indexed ve i vs)) (marshalAll env e ve vs)
        (fun js => b ++ (renderElems first js ++ [.rbrack]))
  | [], b, first, i, _ => by
    simp [indexed, marshal_loop1, marshalAll, Agree, writeToks, renderElems]
  | v :: vs, b, first, i, h => by
    have hv := h v (by simp)
    have ih := fun b' => loop1_eq env ord self e ve vs b' false (i + 1) (fun x hx => h x (by simp [hx]))
    rw [marshal_all_cons]
    simp only [indexed, marshal_loop1]
    cases first
    · have hv' := hv (b ++ [.comma])
      cases hm : JsonVal.marshal env ⟨ve, v⟩ e <;> simp only [hm, Agree] at hv' ⊢
      · rename_i j
        have ih' := ih ((b ++ [.comma]) ++ render j)
        cases hr : marshalAll env e ve vs <;>
          simp only [hr, Agree, Res.map] at ih' ⊢ <;>
          simp [writeToks, split, renderElems, List.append_assoc] at hv' ih' ⊢ <;>
          simp [hv', ih', split]
      · obtain ⟨c, hc⟩ := hv'; simp [writeToks, hc, split]
      · obtain ⟨c, hc⟩ := hv'; simp [writeToks, hc, split]
      · simp [writeToks, hv', split]
    · have hv' := hv b
      cases hm : JsonVal.marshal env ⟨ve, v⟩ e <;> simp only [hm, Agree] at hv' ⊢
      · rename_i j
        have ih' := ih (b ++ render j)
        cases hr : marshalAll env e ve vs <;>
          simp only [hr, Agree, Res.map] at ih' ⊢ <;>
          simp [writeToks, split, renderElems, List.append_assoc] at hv' ih' ⊢ <;>
          simp [hv', ih', split]
      · obtain ⟨c, hc⟩ := hv'; simp [writeToks, hc, split]
      · obtain ⟨c, hc⟩ := hv'; simp [writeToks, hc, split]
      · simp [writeToks, hv', split]

/-! ## maps -/

theorem marshal_string (env : JEnv) (k : String) :
    JsonVal.marshal env ⟨.string, .s k⟩ .string = .ok (.str k) := by
  simp [JsonVal.marshal, marshalEntry, marshalKnown, Payload.isMarked, Payload.isKnown, Payload.unmark1, Ty.isDyn]

theorem self_key (env : JEnv) (self : Value → Ty → Buf → Res Buf) (k : String)
    (hk : SelfOk env self ⟨.string, .s k⟩ .string) (b : Buf) :
    self ⟨.string, .s k⟩ .string b = .ok (b ++ [.str k]) := by
  have := hk b
  simpa [marshal_string, Agree, render] using this

theorem loop2_eq (env : JEnv) (ord : MapOrder) (self : Value → Ty → Buf → Res Buf) (e ve : Ty) :
    ∀ (ks : List String) (vs : List Payload) (b : Buf) (first : Bool), ks.length = vs.length →
      (∀ k ∈ ks, SelfOk env self ⟨.string, .s k⟩ .string) →
      (∀ v ∈ vs, SelfOk env self ⟨ve, v⟩ e) →
      Agree (marshal_loop2 env ord self e b first (keyed ve ks vs)) (marshalAll env e ve vs)
        (fun js => b ++ (renderMembers first ks js ++ [.rbrace]))
  | [], [], b, first, _, _, _ => by
    simp [keyed, marshal_loop2, marshalAll, Agree, writeToks, renderMembers]
  | [], _ :: _, _, _, hl, _, _ => by simp at hl
  | _ :: _, [], _, _, hl, _, _ => by simp at hl
  | k :: ks, v :: vs, b, first, hl, hk, h => by
    have hv := h v (by simp)
    have hkk := self_key env self k (hk k (by simp))
    have ih := fun b' => loop2_eq env ord self e ve ks vs b' false (by simpa using hl)
      (fun x hx => hk x (by simp [hx])) (fun x hx => h x (by simp [hx]))
    rw [marshal_all_cons]
    simp only [keyed, marshal_loop2, typeOf]
    cases first
    · have hv' := hv (((b ++ [.comma]) ++ [.str k]) ++ [.colon])
      cases hm : JsonVal.marshal env ⟨ve, v⟩ e <;> simp only [hm, Agree] at hv' ⊢
      · rename_i j
        have ih' := ih ((((b ++ [.comma]) ++ [.str k]) ++ [.colon]) ++ render j)
        cases hr : marshalAll env e ve vs <;>
          simp only [hr, Agree, Res.map] at ih' ⊢ <;>
          simp [writeToks, split, renderMembers, List.append_assoc] at hv' ih' ⊢ <;>
          simp [hv', ih', split, hkk, writeToks]
      · obtain ⟨c, hc⟩ := hv'; simp [writeToks, split, List.append_assoc] at hc ⊢; simp [hkk, hc, split, writeToks]
      · obtain ⟨c, hc⟩ := hv'; simp [writeToks, split, List.append_assoc] at hc ⊢; simp [hkk, hc, split, writeToks]
      · simp [writeToks, split, List.append_assoc] at hv' ⊢; simp [hkk, hv', split, writeToks]
    · have hv' := hv ((b ++ [.str k]) ++ [.colon])
      cases hm : JsonVal.marshal env ⟨ve, v⟩ e <;> simp only [hm, Agree] at hv' ⊢
      · rename_i j
        have ih' := ih (((b ++ [.str k]) ++ [.colon]) ++ render j)
        cases hr : marshalAll env e ve vs <;>
          simp only [hr, Agree, Res.map] at ih' ⊢ <;>
          simp [writeToks, split, renderMembers, List.append_assoc] at hv' ih' ⊢ <;>
          simp [hv', ih', split, hkk, writeToks]
      · obtain ⟨c, hc⟩ := hv'; simp [writeToks, split, List.append_assoc] at hc ⊢; simp [hkk, hc, split, writeToks]
      · obtain ⟨c, hc⟩ := hv'; simp [writeToks, split, List.append_assoc] at hc ⊢; simp [hkk, hc, split, writeToks]
      · simp [writeToks, split, List.append_assoc] at hv' ⊢; simp [hkk, hv', split, writeToks]

/-! ## tuples -/

/-- pointwise `SelfOk` along constraint types, value types and payloads of equal length -/
def ZipOk (env : JEnv) (self : Value → Ty → Buf → Res Buf) : List Ty → List Ty → List Payload → Prop
  | e :: es, ve :: ves, v :: vs => SelfOk env self ⟨ve, v⟩ e ∧ ZipOk env self es ves vs
  | [], [], [] => True
  | _, _, _ => False

theorem sliceIndex_append {α} (x : α) (xs : List α) : ∀ pre : List α, sliceIndex (pre ++ x :: xs) pre.length = .ok x
  | [] => rfl
  | _ :: pre => by simpa [sliceIndex] using sliceIndex_append x xs pre

theorem loop3_eq (env : JEnv) (ord : MapOrder) (self : Value → Ty → Buf → Res Buf) :
    ∀ (es ves : List Ty) (vs : List Payload) (pre : List Ty) (b : Buf), ZipOk env self es ves vs →
      Agree (marshal_loop3 env ord self (pre ++ es) b pre.length (indexedZip pre.length ves vs)) (marshalZip env es ves vs)
        (fun js => b ++ (renderElems (!decide (pre.length > 0)) js ++ [.rbrack]))
  | [], [], [], pre, b, _ => by
    simp [indexedZip, marshal_loop3, marshalZip, Agree, writeToks, renderElems]
  | e :: es, ve :: ves, v :: vs, pre, b, h => by
    obtain ⟨hv, hrest⟩ := h
    have ih := fun b' => loop3_eq env ord self es ves vs (pre ++ [e]) b' hrest
    simp only [List.append_assoc, List.singleton_append, List.length_append, List.length_singleton] at ih
    rw [marshal_zip_cons]
    simp only [indexedZip, marshal_loop3, sliceIndex_append, Res.bind]
    by_cases hp : pre.length > 0
    · have hv' := hv (b ++ [.comma])
      cases hm : JsonVal.marshal env ⟨ve, v⟩ e <;> simp only [hm, Agree] at hv' ⊢
      · rename_i j
        have ih' := ih ((b ++ [.comma]) ++ render j)
        cases hr : marshalZip env es ves vs <;>
          simp only [hr, Agree, Res.map] at ih' ⊢ <;>
          simp [writeToks, split, renderElems, List.append_assoc, hp] at hv' ih' ⊢ <;>
          simp [hv', ih', split]
      · obtain ⟨c, hc⟩ := hv'; simp [writeToks, hc, split, hp]
      · obtain ⟨c, hc⟩ := hv'; simp [writeToks, hc, split, hp]
      · simp [writeToks, hv', split, hp]
    · have hv' := hv b
      cases hm : JsonVal.marshal env ⟨ve, v⟩ e <;> simp only [hm, Agree] at hv' ⊢
      · rename_i j
        have ih' := ih (b ++ render j)
        cases hr : marshalZip env es ves vs <;>
          simp only [hr, Agree, Res.map] at ih' ⊢ <;>
          simp [writeToks, split, renderElems, List.append_assoc, hp] at hv' ih' ⊢ <;>
          simp [hv', ih', split]
      · obtain ⟨c, hc⟩ := hv'; simp [writeToks, hc, split, hp]
      · obtain ⟨c, hc⟩ := hv'; simp [writeToks, hc, split, hp]
      · simp [writeToks, hv', split, hp]
  | [], _ :: _, _, _, _, h => by simp [ZipOk] at h
  | [], [], _ :: _, _, _, h => by simp [ZipOk] at h
  | _ :: _, [], _, _, _, h => by simp [ZipOk] at h
  | _ :: _, _ :: _, [], _, _, h => by simp [ZipOk] at h

/-! ## objects -/

theorem mapIndex_append (k : String) (t : Ty) (rest : List String) (ts : List Ty) :
    ∀ (pre : List String) (preT : List Ty), pre.length = preT.length → k ∉ pre →
      mapIndex k (pre ++ k :: rest) (preT ++ t :: ts) = .ok t
  | [], [], _, _ => by simp [mapIndex]
  | [], _ :: _, h, _ => by simp at h
  | _ :: _, [], h, _ => by simp at h
  | n :: pre, u :: preT, h, hk => by
    have hne : ¬ n = k := fun e => hk (by simp [e])
    simp only [List.cons_append, mapIndex, hne, if_false]
    exact mapIndex_append k t rest ts pre preT (by simpa using h) (fun hm => hk (by simp [hm]))

theorem lookupAttr_append (k : String) (t : Ty) (v : Payload) (rest : List String) (ts : List Ty) (vs : List Payload) :
    ∀ (pre : List String) (preT : List Ty) (preV : List Payload), pre.length = preT.length → pre.length = preV.length → k ∉ pre →
      lookupAttr k (pre ++ k :: rest) (preT ++ t :: ts) (preV ++ v :: vs) = .ok ⟨t, v⟩
  | [], [], [], _, _, _ => by simp [lookupAttr]
  | n :: pre, u :: preT, w :: preV, h1, h2, hk => by
    have hne : ¬ n = k := fun e => hk (by simp [e])
    simp only [List.cons_append, lookupAttr, hne, if_false]
    exact lookupAttr_append k t v rest ts vs pre preT preV (by simpa using h1) (by simpa using h2) (fun hm => hk (by simp [hm]))
  | [], _ :: _, _, h, _, _ => by simp at h
  | [], [], _ :: _, _, h, _ => by simp at h
  | _ :: _, [], _, h, _, _ => by simp at h
  | _ :: _, _ :: _, [], _, h, _ => by simp at h

theorem loop5_eq (env : JEnv) (ord : MapOrder) (self : Value → Ty → Buf → Res Buf) (os : List Bool) (ks : List String) :
    ∀ (ns : List String) (ts vts : List Ty) (vs : List Payload) (pre : List String) (preT preVT : List Ty) (preV : List Payload) (b : Buf),
      pre.length = preT.length → pre.length = preVT.length → pre.length = preV.length →
      ns.length = ts.length → (∀ k ∈ ns, k ∉ pre) → ns.Nodup →
      (∀ k ∈ ns, SelfOk env self ⟨.string, .s k⟩ .string) →
      ZipOk env self ts vts vs →
      Agree (marshal_loop5 env ord self (pre ++ ns, preT ++ ts) ⟨.object (pre ++ ns) (preVT ++ vts) os, .smap ks (preV ++ vs)⟩ b pre.length ns)
        (marshalZip env ts vts vs)
        (fun js => b ++ (renderMembers (!decide (pre.length > 0)) ns js ++ [.rbrace]))
  | [], [], [], [], pre, preT, preVT, preV, b, _, _, _, _, _, _, _, _ => by
    simp [marshal_loop5, marshalZip, Agree, writeToks, renderMembers]
  | k :: ns, t :: ts, vt :: vts, v :: vs, pre, preT, preVT, preV, b, h1, h2, h3, hl, hpre, hnd, hk, h => by
    obtain ⟨hv, hrest⟩ := h
    have hkk := self_key env self k (hk k (by simp))
    have hkpre : k ∉ pre := hpre k (by simp)
    have hnd' := List.nodup_cons.mp hnd
    have ih := fun b' => loop5_eq env ord self os ks ns ts vts vs (pre ++ [k]) (preT ++ [t]) (preVT ++ [vt]) (preV ++ [v]) b'
      (by simp [h1]) (by simp [h2]) (by simp [h3]) (by simpa using hl)
      (fun x hx hm => by
        rcases List.mem_append.mp hm with hm | hm
        · exact hpre x (by simp [hx]) hm
        · simp at hm; subst hm; exact hnd'.1 hx)
      hnd'.2 (fun x hx => hk x (by simp [hx])) hrest
    simp only [List.append_assoc, List.singleton_append, List.length_append, List.length_singleton] at ih
    rw [marshal_zip_cons]
    simp only [marshal_loop5, mapIndex_append k t ns ts pre preT h1 hkpre, Res.bind, getAttr,
      lookupAttr_append k vt v ns vts vs pre preVT preV h2 h3 hkpre, stringVal]
    by_cases hp : pre.length > 0
    · have hv' := hv (((b ++ [.comma]) ++ [.str k]) ++ [.colon])
      cases hm : JsonVal.marshal env ⟨vt, v⟩ t <;> simp only [hm, Agree] at hv' ⊢
      · rename_i j
        have ih' := ih ((((b ++ [.comma]) ++ [.str k]) ++ [.colon]) ++ render j)
        cases hr : marshalZip env ts vts vs <;>
          simp only [hr, Agree, Res.map] at ih' ⊢ <;>
          simp [writeToks, split, renderMembers, List.append_assoc, hp] at hv' ih' ⊢ <;>
          simp [hv', ih', split, hkk, writeToks]
      · obtain ⟨c, hc⟩ := hv'; simp [writeToks, split, List.append_assoc, hp] at hc ⊢; simp [hkk, hc, split, writeToks]
      · obtain ⟨c, hc⟩ := hv'; simp [writeToks, split, List.append_assoc, hp] at hc ⊢; simp [hkk, hc, split, writeToks]
      · simp [writeToks, split, List.append_assoc, hp] at hv' ⊢; simp [hkk, hv', split, writeToks]
    · have hv' := hv ((b ++ [.str k]) ++ [.colon])
      cases hm : JsonVal.marshal env ⟨vt, v⟩ t <;> simp only [hm, Agree] at hv' ⊢
      · rename_i j
        have ih' := ih (((b ++ [.str k]) ++ [.colon]) ++ render j)
        cases hr : marshalZip env ts vts vs <;>
          simp only [hr, Agree, Res.map] at ih' ⊢ <;>
          simp [writeToks, split, renderMembers, List.append_assoc, hp] at hv' ih' ⊢ <;>
          simp [hv', ih', split, hkk, writeToks]
      · obtain ⟨c, hc⟩ := hv'; simp [writeToks, split, List.append_assoc, hp] at hc ⊢; simp [hkk, hc, split, writeToks]
      · obtain ⟨c, hc⟩ := hv'; simp [writeToks, split, List.append_assoc, hp] at hc ⊢; simp [hkk, hc, split, writeToks]
      · simp [writeToks, split, List.append_assoc, hp] at hv' ⊢; simp [hkk, hv', split, writeToks]
  | [], _ :: _, _, _, _, _, _, _, _, _, _, _, hl, _, _, _, _ => by simp at hl
  | _ :: _, [], _, _, _, _, _, _, _, _, _, _, hl, _, _, _, _ => by simp at hl
  | [], [], _ :: _, _, _, _, _, _, _, _, _, _, _, _, _, _, h => by simp [ZipOk] at h
  | [], [], [], _ :: _, _, _, _, _, _, _, _, _, _, _, _, _, h => by simp [ZipOk] at h
  | _ :: _, _ :: _, [], _, _, _, _, _, _, _, _, _, _, _, _, _, h => by simp [ZipOk] at h
  | _ :: _, _ :: _, _ :: _, [], _, _, _, _, _, _, _, _, _, _, _, _, h => by simp [ZipOk] at h

theorem loop4_eq (env : JEnv) (ord : MapOrder) (self : Value → Ty → Buf → Res Buf) (atys : List String × List Ty) (b : Buf) (val : Value) :
    ∀ (l names : List String), marshal_loop4 env ord self atys b val names l =
      marshal_loop5 env ord self atys val b 0 (sortStrings (names ++ l))
  | [], names => by simp [marshal_loop4]
  | k :: l, names => by simp [marshal_loop4, loop4_eq env ord self atys b val l (names ++ [k])]

/-! ## `sort.Strings` of the keys collected in any order -/

theorem insertBy_perm {α} (less : α → α → Bool) (x : α) : ∀ l : List α, (insertBy less x l).Perm (x :: l)
  | [] => .refl _
  | y :: ys => by
    simp only [insertBy]
    split
    · exact ((insertBy_perm less x ys).cons y).trans (List.Perm.swap x y ys)
    · exact .refl _

theorem sortStable_perm {α} (less : α → α → Bool) : ∀ l : List α, (sortStable less l).Perm l
  | [] => .refl _
  | x :: xs => (insertBy_perm less x _).trans ((sortStable_perm less xs).cons x)

theorem insertBy_sorted (x : String) : ∀ l : List String, l.Pairwise (· ≤ ·) →
    (insertBy (fun a b => decide (a < b)) x l).Pairwise (· ≤ ·)
  | [], _ => by simp [insertBy]
  | y :: ys, h => by
    have ⟨hy, hys⟩ := List.pairwise_cons.mp h
    simp only [insertBy]
    split
    · rename_i hlt
      have hlt' : y < x := by simpa using hlt
      refine List.pairwise_cons.mpr ⟨?_, insertBy_sorted x ys hys⟩
      intro z hz
      have hz2 := (insertBy_perm _ x ys).mem_iff.mp hz
      rcases List.mem_cons.mp hz2 with rfl | hz'
      · exact String.not_lt.mp (String.lt_asymm hlt')
      · exact hy z hz'
    · rename_i hnl
      have hxy : x ≤ y := String.not_lt.mp (by simpa using hnl)
      refine List.pairwise_cons.mpr ⟨?_, h⟩
      intro z hz
      rcases List.mem_cons.mp hz with rfl | hz'
      · exact hxy
      · exact String.le_trans hxy (hy z hz')

theorem sortStable_sorted : ∀ l : List String, (sortStable (fun a b => decide (a < b)) l).Pairwise (· ≤ ·)
  | [] => by simp [sortStable]
  | x :: xs => insertBy_sorted x _ (sortStable_sorted xs)

theorem strictAsc_of_sorted : ∀ l : List String, l.Pairwise (· ≤ ·) → l.Nodup → strictAsc l = true
  | [], _, _ => by simp [strictAsc]
  | a :: l, h, hn => by
    have ⟨ha, hl⟩ := List.pairwise_cons.mp h
    have ⟨hna, hnl⟩ := List.nodup_cons.mp hn
    refine strictAsc_of (strictAsc_of_sorted l hl hnl) ?_
    intro x hx
    exact str_lt_of_not x a (String.not_lt.mpr (ha x hx)) (fun e => hna (e ▸ hx))

/-- whatever order the keys were collected in, sorting gives the model's (ascending) key list -/
theorem sortStrings_perm {l ns : List String} (hp : l.Perm ns) (ha : strictAsc ns = true) : sortStrings l = ns := by
  have hp2 : (sortStrings l).Perm ns := (sortStable_perm _ l).trans hp
  refine asc_subset_eq _ _ (strictAsc_of_sorted _ (sortStable_sorted l) (hp2.nodup_iff.mpr (strictAsc_nodup ha))) ha
    hp2.length_eq (fun x hx => hp2.mem_iff.mp hx)

end JsonMarshalFnsTie
end CtyModel
