/-
C15 — the tie between the REGENERATED encoder (`Generated/JsonMarshalFns.lean`, translated from
cty/json/marshal.go by extract/translate_jsonmarshal.go on every check) and the hand-written model
`JsonVal.marshal`.

`marshal_tie`: for every environment, every order `ord` in which Go's `range` may visit the attribute
map (any permutation), every well-formed value `v` without set types and every well-formed constraint `t`
the value's type conforms to, and every buffer content `b`:
the generated `marshal env ord v t b` has the outcome of `JsonVal.marshal env v t` (ok / error / panic /
unmodelled, up to the text of the message), and when that is `.ok j` the buffer afterwards holds
`b ++ JsonGo.render j` — exactly the tokens of the model's token tree (`render` is the plain in-order
token list of a tree: brackets, commas before every element but the first, `key : value` members).

Outside the tie (listed): values with SET types (the Go code marshals the members in iteration order,
the model in storage order and permutes afterwards: same document, but which error comes first differs
when several members fail differently — the set branch IS translated and generated, it is only not tied;
the correspondence harness covers it), non-conforming (value, constraint) pairs (the public
`Marshal` converts first: `marshalTop` is `.unmodelled` there), capsule payloads (`.unmodelled` on both
sides).
-/
import CtyModel.Generated.JsonMarshalFns
import CtyModel.Lemmas.d15Reject
import CtyModel.Lemmas.JsonValDoc
import CtyModel.Lemmas.Asc
set_option linter.unusedSimpArgs false
set_option linter.unusedVariables false
namespace CtyModel
namespace JsonMarshalFnsTie
open JsonVal JsonGo Ty Generated.JsonMarshalFns

/-- the generated outcome `g` (a buffer) answers the model's outcome `h`: same kind of outcome, and for
`.ok a` the buffer is `f a` -/
def Agree {α} (g : Res Buf) (h : Res α) (f : α → Buf) : Prop :=
  match h with
  | .ok a => g = .ok (f a)
  | .err _ => ∃ c, g = .err c
  | .panic _ => ∃ w, g = .panic w
  | .unmodelled => g = .unmodelled

theorem Agree.map {α β} {g : Res Buf} {h : Res α} {m : α → β} {f : β → Buf}
    (a : Agree g h (fun x => f (m x))) : Agree g (h.map m) f := by
  cases h <;> exact a

/-- what the tie says about `self`: the recursive calls of the generated code, at the fuel in hand -/
def SelfOk (env : JEnv) (self : Value → Ty → Buf → Res Buf) (v : Value) (t : Ty) : Prop :=
  ∀ b, Agree (self v t b) (JsonVal.marshal env v t) (fun j => b ++ render j)

/-- the domain of the tie: well-formed, conforming (marks, unknowns, capsules allowed) -/
structure TW (t vt : Ty) (p : Payload) : Prop where
  wt : wf t = true
  wvt : wf vt = true
  conf : «matches» t vt = true
  wfp : wfP vt p = true

theorem TW.self {t vt p} (h : TW t vt p) : TW vt vt p :=
  { h with wt := h.wvt, conf := matches_refl vt }

/-! ## lists, sets-free collections: the `for it.Next()` loops -/

theorem marshal_all_cons (env : JEnv) (e ve : Ty) (v : Payload) (vs : List Payload) :
    marshalAll env e ve (v :: vs) =
      match JsonVal.marshal env ⟨ve, v⟩ e with
      | .ok j => (marshalAll env e ve vs).map (j :: ·)
      | .err c => .err c
      | .panic w => .panic w
      | .unmodelled => .unmodelled := by
  rw [marshalAll]; rfl

theorem marshal_zip_cons (env : JEnv) (e ve : Ty) (es ves : List Ty) (v : Payload) (vs : List Payload) :
    marshalZip env (e :: es) (ve :: ves) (v :: vs) =
      match JsonVal.marshal env ⟨ve, v⟩ e with
      | .ok j => (marshalZip env es ves vs).map (j :: ·)
      | .err c => .err c
      | .panic w => .panic w
      | .unmodelled => .unmodelled := by
  rw [marshalZip]; rfl

theorem loop1_eq (env : JEnv) (ord : MapOrder) (self : Value → Ty → Buf → Res Buf) (e ve : Ty) :
    ∀ (vs : List Payload) (b : Buf) (first : Bool) (i : Nat),
      (∀ v ∈ vs, SelfOk env self ⟨ve, v⟩ e) →
      Agree (marshal_loop1 env ord self e b first (indexed ve i vs)) (marshalAll env e ve vs)
        (fun js => b ++ (renderElems first js ++ [.rbrack]))
  | [], b, first, i, _ => by
    simp [indexed, marshal_loop1, marshalAll, Agree, writeToks, renderElems]
  | v :: vs, b, first, i, h => by
    have hv := h v (by simp)
    have ih := fun b' => loop1_eq env ord self e ve vs b' false (i + 1) (fun x hx => h x (by simp [hx]))
    rw [marshal_all_cons]
    simp only [indexed, marshal_loop1]
    cases first
    · have hv' := hv (b ++ [.comma])
      cases hm : JsonVal.marshal env ⟨ve, v⟩ e <;> simp only [hm, Agree] at hv' ⊢
      · rename_i j
        have ih' := ih ((b ++ [.comma]) ++ render j)
        cases hr : marshalAll env e ve vs <;>
          simp only [hr, Agree, Res.map] at ih' ⊢ <;>
          simp [writeToks, split, renderElems, List.append_assoc] at hv' ih' ⊢ <;>
          simp [hv', ih', split]
      · obtain ⟨c, hc⟩ := hv'; simp [writeToks, hc, split]
      · obtain ⟨c, hc⟩ := hv'; simp [writeToks, hc, split]
      · simp [writeToks, hv', split]
    · have hv' := hv b
      cases hm : JsonVal.marshal env ⟨ve, v⟩ e <;> simp only [hm, Agree] at hv' ⊢
      · rename_i j
        have ih' := ih (b ++ render j)
        cases hr : marshalAll env e ve vs <;>
          simp only [hr, Agree, Res.map] at ih' ⊢ <;>
          simp [writeToks, split, renderElems, List.append_assoc] at hv' ih' ⊢ <;>
          simp [hv', ih', split]
      · obtain ⟨c, hc⟩ := hv'; simp [writeToks, hc, split]
      · obtain ⟨c, hc⟩ := hv'; simp [writeToks, hc, split]
      · simp [writeToks, hv', split]

/-! ## maps -/

theorem marshal_string (env : JEnv) (k : String) :
    JsonVal.marshal env ⟨.string, .s k⟩ .string = .ok (.str k) := by
  simp [JsonVal.marshal, marshalEntry, marshalKnown, Payload.isMarked, Payload.isKnown, Payload.unmark1, Ty.isDyn]

theorem self_key (env : JEnv) (self : Value → Ty → Buf → Res Buf) (k : String)
    (hk : SelfOk env self ⟨.string, .s k⟩ .string) (b : Buf) :
    self ⟨.string, .s k⟩ .string b = .ok (b ++ [.str k]) := by
  have := hk b
  simpa [marshal_string, Agree, render] using this

theorem loop2_eq (env : JEnv) (ord : MapOrder) (self : Value → Ty → Buf → Res Buf) (e ve : Ty) :
    ∀ (ks : List String) (vs : List Payload) (b : Buf) (first : Bool), ks.length = vs.length →
      (∀ k ∈ ks, SelfOk env self ⟨.string, .s k⟩ .string) →
      (∀ v ∈ vs, SelfOk env self ⟨ve, v⟩ e) →
      Agree (marshal_loop2 env ord self e b first (keyed ve ks vs)) (marshalAll env e ve vs)
        (fun js => b ++ (renderMembers first ks js ++ [.rbrace]))
  | [], [], b, first, _, _, _ => by
    simp [keyed, marshal_loop2, marshalAll, Agree, writeToks, renderMembers]
  | [], _ :: _, _, _, hl, _, _ => by simp at hl
  | _ :: _, [], _, _, hl, _, _ => by simp at hl
  | k :: ks, v :: vs, b, first, hl, hk, h => by
    have hv := h v (by simp)
    have hkk := self_key env self k (hk k (by simp))
    have ih := fun b' => loop2_eq env ord self e ve ks vs b' false (by simpa using hl)
      (fun x hx => hk x (by simp [hx])) (fun x hx => h x (by simp [hx]))
    rw [marshal_all_cons]
    simp only [keyed, marshal_loop2, typeOf]
    cases first
    · have hv' := hv (((b ++ [.comma]) ++ [.str k]) ++ [.colon])
      cases hm : JsonVal.marshal env ⟨ve, v⟩ e <;> simp only [hm, Agree] at hv' ⊢
      · rename_i j
        have ih' := ih ((((b ++ [.comma]) ++ [.str k]) ++ [.colon]) ++ render j)
        cases hr : marshalAll env e ve vs <;>
          simp only [hr, Agree, Res.map] at ih' ⊢ <;>
          simp [writeToks, split, renderMembers, List.append_assoc] at hv' ih' ⊢ <;>
          simp [hv', ih', split, hkk, writeToks]
      · obtain ⟨c, hc⟩ := hv'; simp [writeToks, split, List.append_assoc] at hc ⊢; simp [hkk, hc, split, writeToks]
      · obtain ⟨c, hc⟩ := hv'; simp [writeToks, split, List.append_assoc] at hc ⊢; simp [hkk, hc, split, writeToks]
      · simp [writeToks, split, List.append_assoc] at hv' ⊢; simp [hkk, hv', split, writeToks]
    · have hv' := hv ((b ++ [.str k]) ++ [.colon])
      cases hm : JsonVal.marshal env ⟨ve, v⟩ e <;> simp only [hm, Agree] at hv' ⊢
      · rename_i j
        have ih' := ih (((b ++ [.str k]) ++ [.colon]) ++ render j)
        cases hr : marshalAll env e ve vs <;>
          simp only [hr, Agree, Res.map] at ih' ⊢ <;>
          simp [writeToks, split, renderMembers, List.append_assoc] at hv' ih' ⊢ <;>
          simp [hv', ih', split, hkk, writeToks]
      · obtain ⟨c, hc⟩ := hv'; simp [writeToks, split, List.append_assoc] at hc ⊢; simp [hkk, hc, split, writeToks]
      · obtain ⟨c, hc⟩ := hv'; simp [writeToks, split, List.append_assoc] at hc ⊢; simp [hkk, hc, split, writeToks]
      · simp [writeToks, split, List.append_assoc] at hv' ⊢; simp [hkk, hv', split, writeToks]

/-! ## tuples -/

/-- pointwise `SelfOk` along constraint types, value types and payloads of equal length -/
def ZipOk (env : JEnv) (self : Value → Ty → Buf → Res Buf) : List Ty → List Ty → List Payload → Prop
  | e :: es, ve :: ves, v :: vs => SelfOk env self ⟨ve, v⟩ e ∧ ZipOk env self es ves vs
  | [], [], [] => True
  | _, _, _ => False

theorem sliceIndex_append {α} (x : α) (xs : List α) : ∀ pre : List α, sliceIndex (pre ++ x :: xs) pre.length = .ok x
  | [] => rfl
  | _ :: pre => by simpa [sliceIndex] using sliceIndex_append x xs pre

theorem loop3_eq (env : JEnv) (ord : MapOrder) (self : Value → Ty → Buf → Res Buf) :
    ∀ (es ves : List Ty) (vs : List Payload) (pre : List Ty) (b : Buf), ZipOk env self es ves vs →
      Agree (marshal_loop3 env ord self (pre ++ es) b pre.length (indexedZip pre.length ves vs)) (marshalZip env es ves vs)
        (fun js => b ++ (renderElems (!decide (pre.length > 0)) js ++ [.rbrack]))
  | [], [], [], pre, b, _ => by
    simp [indexedZip, marshal_loop3, marshalZip, Agree, writeToks, renderElems]
  | e :: es, ve :: ves, v :: vs, pre, b, h => by
    obtain ⟨hv, hrest⟩ := h
    have ih := fun b' => loop3_eq env ord self es ves vs (pre ++ [e]) b' hrest
    simp only [List.append_assoc, List.singleton_append, List.length_append, List.length_singleton] at ih
    rw [marshal_zip_cons]
    simp only [indexedZip, marshal_loop3, sliceIndex_append, Res.bind]
    by_cases hp : pre.length > 0
    · have hv' := hv (b ++ [.comma])
      cases hm : JsonVal.marshal env ⟨ve, v⟩ e <;> simp only [hm, Agree] at hv' ⊢
      · rename_i j
        have ih' := ih ((b ++ [.comma]) ++ render j)
        cases hr : marshalZip env es ves vs <;>
          simp only [hr, Agree, Res.map] at ih' ⊢ <;>
          simp [writeToks, split, renderElems, List.append_assoc, hp] at hv' ih' ⊢ <;>
          simp [hv', ih', split]
      · obtain ⟨c, hc⟩ := hv'; simp [writeToks, hc, split, hp]
      · obtain ⟨c, hc⟩ := hv'; simp [writeToks, hc, split, hp]
      · simp [writeToks, hv', split, hp]
    · have hv' := hv b
      cases hm : JsonVal.marshal env ⟨ve, v⟩ e <;> simp only [hm, Agree] at hv' ⊢
      · rename_i j
        have ih' := ih (b ++ render j)
        cases hr : marshalZip env es ves vs <;>
          simp only [hr, Agree, Res.map] at ih' ⊢ <;>
          simp [writeToks, split, renderElems, List.append_assoc, hp] at hv' ih' ⊢ <;>
          simp [hv', ih', split]
      · obtain ⟨c, hc⟩ := hv'; simp [writeToks, hc, split, hp]
      · obtain ⟨c, hc⟩ := hv'; simp [writeToks, hc, split, hp]
      · simp [writeToks, hv', split, hp]
  | [], _ :: _, _, _, _, h => by simp [ZipOk] at h
  | [], [], _ :: _, _, _, h => by simp [ZipOk] at h
  | _ :: _, [], _, _, _, h => by simp [ZipOk] at h
  | _ :: _, _ :: _, [], _, _, h => by simp [ZipOk] at h

/-! ## objects -/

theorem mapIndex_append (k : String) (t : Ty) (rest : List String) (ts : List Ty) :
    ∀ (pre : List String) (preT : List Ty), pre.length = preT.length → k ∉ pre →
      mapIndex k (pre ++ k :: rest) (preT ++ t :: ts) = .ok t
  | [], [], _, _ => by simp [mapIndex]
  | [], _ :: _, h, _ => by simp at h
  | _ :: _, [], h, _ => by simp at h
  | n :: pre, u :: preT, h, hk => by
    have hne : ¬ n = k := fun e => hk (by simp [e])
    simp only [List.cons_append, mapIndex, hne, if_false]
    exact mapIndex_append k t rest ts pre preT (by simpa using h) (fun hm => hk (by simp [hm]))

theorem lookupAttr_append (k : String) (t : Ty) (v : Payload) (rest : List String) (ts : List Ty) (vs : List Payload) :
    ∀ (pre : List String) (preT : List Ty) (preV : List Payload), pre.length = preT.length → pre.length = preV.length → k ∉ pre →
      lookupAttr k (pre ++ k :: rest) (preT ++ t :: ts) (preV ++ v :: vs) = .ok ⟨t, v⟩
  | [], [], [], _, _, _ => by simp [lookupAttr]
  | n :: pre, u :: preT, w :: preV, h1, h2, hk => by
    have hne : ¬ n = k := fun e => hk (by simp [e])
    simp only [List.cons_append, lookupAttr, hne, if_false]
    exact lookupAttr_append k t v rest ts vs pre preT preV (by simpa using h1) (by simpa using h2) (fun hm => hk (by simp [hm]))
  | [], _ :: _, _, h, _, _ => by simp at h
  | [], [], _ :: _, _, h, _ => by simp at h
  | _ :: _, [], _, h, _, _ => by simp at h
  | _ :: _, _ :: _, [], _, h, _ => by simp at h

theorem loop5_eq (env : JEnv) (ord : MapOrder) (self : Value → Ty → Buf → Res Buf) (os : List Bool) (ks : List String) :
    ∀ (ns : List String) (ts vts : List Ty) (vs : List Payload) (pre : List String) (preT preVT : List Ty) (preV : List Payload) (b : Buf),
      pre.length = preT.length → pre.length = preVT.length → pre.length = preV.length →
      ns.length = ts.length → (∀ k ∈ ns, k ∉ pre) → ns.Nodup →
      (∀ k ∈ ns, SelfOk env self ⟨.string, .s k⟩ .string) →
      ZipOk env self ts vts vs →
      Agree (marshal_loop5 env ord self (pre ++ ns, preT ++ ts) ⟨.object (pre ++ ns) (preVT ++ vts) os, .smap ks (preV ++ vs)⟩ b pre.length ns)
        (marshalZip env ts vts vs)
        (fun js => b ++ (renderMembers (!decide (pre.length > 0)) ns js ++ [.rbrace]))
  | [], [], [], [], pre, preT, preVT, preV, b, _, _, _, _, _, _, _, _ => by
    simp [marshal_loop5, marshalZip, Agree, writeToks, renderMembers]
  | k :: ns, t :: ts, vt :: vts, v :: vs, pre, preT, preVT, preV, b, h1, h2, h3, hl, hpre, hnd, hk, h => by
    obtain ⟨hv, hrest⟩ := h
    have hkk := self_key env self k (hk k (by simp))
    have hkpre : k ∉ pre := hpre k (by simp)
    have hnd' := List.nodup_cons.mp hnd
    have ih := fun b' => loop5_eq env ord self os ks ns ts vts vs (pre ++ [k]) (preT ++ [t]) (preVT ++ [vt]) (preV ++ [v]) b'
      (by simp [h1]) (by simp [h2]) (by simp [h3]) (by simpa using hl)
      (fun x hx hm => by
        rcases List.mem_append.mp hm with hm | hm
        · exact hpre x (by simp [hx]) hm
        · simp at hm; subst hm; exact hnd'.1 hx)
      hnd'.2 (fun x hx => hk x (by simp [hx])) hrest
    simp only [List.append_assoc, List.singleton_append, List.length_append, List.length_singleton] at ih
    rw [marshal_zip_cons]
    simp only [marshal_loop5, mapIndex_append k t ns ts pre preT h1 hkpre, Res.bind, getAttr,
      lookupAttr_append k vt v ns vts vs pre preVT preV h2 h3 hkpre, stringVal]
    by_cases hp : pre.length > 0
    · have hv' := hv (((b ++ [.comma]) ++ [.str k]) ++ [.colon])
      cases hm : JsonVal.marshal env ⟨vt, v⟩ t <;> simp only [hm, Agree] at hv' ⊢
      · rename_i j
        have ih' := ih ((((b ++ [.comma]) ++ [.str k]) ++ [.colon]) ++ render j)
        cases hr : marshalZip env ts vts vs <;>
          simp only [hr, Agree, Res.map] at ih' ⊢ <;>
          simp [writeToks, split, renderMembers, List.append_assoc, hp] at hv' ih' ⊢ <;>
          simp [hv', ih', split, hkk, writeToks]
      · obtain ⟨c, hc⟩ := hv'; simp [writeToks, split, List.append_assoc, hp] at hc ⊢; simp [hkk, hc, split, writeToks]
      · obtain ⟨c, hc⟩ := hv'; simp [writeToks, split, List.append_assoc, hp] at hc ⊢; simp [hkk, hc, split, writeToks]
      · simp [writeToks, split, List.append_assoc, hp] at hv' ⊢; simp [hkk, hv', split, writeToks]
    · have hv' := hv ((b ++ [.str k]) ++ [.colon])
      cases hm : JsonVal.marshal env ⟨vt, v⟩ t <;> simp only [hm, Agree] at hv' ⊢
      · rename_i j
        have ih' := ih (((b ++ [.str k]) ++ [.colon]) ++ render j)
        cases hr : marshalZip env ts vts vs <;>
          simp only [hr, Agree, Res.map] at ih' ⊢ <;>
          simp [writeToks, split, renderMembers, List.append_assoc, hp] at hv' ih' ⊢ <;>
          simp [hv', ih', split, hkk, writeToks]
      · obtain ⟨c, hc⟩ := hv'; simp [writeToks, split, List.append_assoc, hp] at hc ⊢; simp [hkk, hc, split, writeToks]
      · obtain ⟨c, hc⟩ := hv'; simp [writeToks, split, List.append_assoc, hp] at hc ⊢; simp [hkk, hc, split, writeToks]
      · simp [writeToks, split, List.append_assoc, hp] at hv' ⊢; simp [hkk, hv', split, writeToks]
  | [], _ :: _, _, _, _, _, _, _, _, _, _, _, hl, _, _, _, _ => by simp at hl
  | _ :: _, [], _, _, _, _, _, _, _, _, _, _, hl, _, _, _, _ => by simp at hl
  | [], [], _ :: _, _, _, _, _, _, _, _, _, _, _, _, _, _, h => by simp [ZipOk] at h
  | [], [], [], _ :: _, _, _, _, _, _, _, _, _, _, _, _, _, h => by simp [ZipOk] at h
  | _ :: _, _ :: _, [], _, _, _, _, _, _, _, _, _, _, _, _, _, h => by simp [ZipOk] at h
  | _ :: _, _ :: _, _ :: _, [], _, _, _, _, _, _, _, _, _, _, _, _, h => by simp [ZipOk] at h

theorem loop4_eq (env : JEnv) (ord : MapOrder) (self : Value → Ty → Buf → Res Buf) (atys : List String × List Ty) (b : Buf) (val : Value) :
    ∀ (l names : List String), marshal_loop4 env ord self atys b val names l =
      marshal_loop5 env ord self atys val b 0 (sortStrings (names ++ l))
  | [], names => by simp [marshal_loop4]
  | k :: l, names => by simp [marshal_loop4, loop4_eq env ord self atys b val l (names ++ [k])]

/-! ## `sort.Strings` of the keys collected in any order -/

theorem insertBy_perm {α} (less : α → α → Bool) (x : α) : ∀ l : List α, (insertBy less x l).Perm (x :: l)
  | [] => .refl _
  | y :: ys => by
    simp only [insertBy]
    split
    · exact ((insertBy_perm less x ys).cons y).trans (List.Perm.swap x y ys)
    · exact .refl _

theorem sortStable_perm {α} (less : α → α → Bool) : ∀ l : List α, (sortStable less l).Perm l
  | [] => .refl _
  | x :: xs => (insertBy_perm less x _).trans ((sortStable_perm less xs).cons x)

theorem insertBy_sorted (x : String) : ∀ l : List String, l.Pairwise (· ≤ ·) →
    (insertBy (fun a b => decide (a < b)) x l).Pairwise (· ≤ ·)
  | [], _ => by simp [insertBy]
  | y :: ys, h => by
    have ⟨hy, hys⟩ := List.pairwise_cons.mp h
    simp only [insertBy]
    split
    · rename_i hlt
      have hlt' : y < x := by simpa using hlt
      refine List.pairwise_cons.mpr ⟨?_, insertBy_sorted x ys hys⟩
      intro z hz
      have hz2 := (insertBy_perm _ x ys).mem_iff.mp hz
      rcases List.mem_cons.mp hz2 with rfl | hz'
      · exact String.not_lt.mp (String.lt_asymm hlt')
      · exact hy z hz'
    · rename_i hnl
      have hxy : x ≤ y := String.not_lt.mp (by simpa using hnl)
      refine List.pairwise_cons.mpr ⟨?_, h⟩
      intro z hz
      rcases List.mem_cons.mp hz with rfl | hz'
      · exact hxy
      · exact String.le_trans hxy (hy z hz')

theorem sortStable_sorted : ∀ l : List String, (sortStable (fun a b => decide (a < b)) l).Pairwise (· ≤ ·)
  | [] => by simp [sortStable]
  | x :: xs => insertBy_sorted x _ (sortStable_sorted xs)

theorem strictAsc_of_sorted : ∀ l : List String, l.Pairwise (· ≤ ·) → l.Nodup → strictAsc l = true
  | [], _, _ => by simp [strictAsc]
  | a :: l, h, hn => by
    have ⟨ha, hl⟩ := List.pairwise_cons.mp h
    have ⟨hna, hnl⟩ := List.nodup_cons.mp hn
    refine strictAsc_of (strictAsc_of_sorted l hl hnl) ?_
    intro x hx
    exact str_lt_of_not x a (String.not_lt.mpr (ha x hx)) (fun e => hna (e ▸ hx))

/-- whatever order the keys were collected in, sorting gives the model's (ascending) key list -/
theorem sortStrings_perm {l ns : List String} (hp : l.Perm ns) (ha : strictAsc ns = true) : sortStrings l = ns := by
  have hp2 : (sortStrings l).Perm ns := (sortStable_perm _ l).trans hp
  refine asc_subset_eq _ _ (strictAsc_of_sorted _ (sortStable_sorted l) (hp2.nodup_iff.mpr (strictAsc_nodup ha))) ha
    hp2.length_eq (fun x hx => hp2.mem_iff.mp hx)

/-! ## the tie -/

theorem psize_le_of_mem : ∀ (vs : List Payload) (v : Payload), v ∈ vs → psize v ≤ psizeL vs
  | [], _, h => by simp at h
  | x :: xs, v, h => by
    simp only [psizeL]
    rcases List.mem_cons.mp h with rfl | h'
    · omega
    · have := psize_le_of_mem xs v h'; omega

/-- fuel that suffices for `marshal v t`: two calls per level of the value, one more for the wrapper -/
def need (t : Ty) (v : Value) : Nat := 2 * psize v.v + (if t.isDyn && !v.ty.isDyn then 2 else 1)

theorem zipOk_of (env : JEnv) (self : Value → Ty → Buf → Res Buf) (n : Nat)
    (hself : ∀ (c : Payload) (e ve : Ty), TW e ve c → setFree ve = true → 2 * psize c + 2 ≤ n → SelfOk env self ⟨ve, c⟩ e) :
    ∀ (es ves : List Ty) (vs : List Payload),
      wfL es = true → wfL ves = true → setFreeL ves = true →
      matchesL es ves = true → ves.length = vs.length → wfZip ves vs = true → 2 * psizeL vs + 2 ≤ n → ZipOk env self es ves vs
  | [], [], [], _, _, _, _, _, _, _ => trivial
  | [], _ :: _, _, _, _, _, h, _, _, _ => by simp [matchesL] at h
  | _ :: _, [], _, _, _, _, h, _, _, _ => by simp [matchesL] at h
  | [], [], _ :: _, _, _, _, _, h, _, _ => by simp at h
  | _ :: _, _ :: _, [], _, _, _, _, h, _, _ => by simp at h
  | e :: es, ve :: ves, v :: vs, h1, h2, h5, h7, h8, h9, hn => by
    simp only [wfL, Bool.and_eq_true] at h1 h2
    simp only [setFreeL, matchesL, wfZip, Bool.and_eq_true] at h5 h7 h9
    simp only [psizeL] at hn
    exact ⟨hself v e ve ⟨h1.1, h2.1, h7.1, h9.1⟩ h5.1 (by omega),
      zipOk_of env self n hself es ves vs h1.2 h2.2 h5.2 h7.2 (by simpa using h8) h9.2 (by omega)⟩

theorem fuel_tie (env : JEnv) (ord : MapOrder) (ho : ∀ l, (ord l).Perm l) :
    ∀ (fuel : Nat) (v : Value) (t : Ty), TW t v.ty v.v → setFree v.ty = true → need t v ≤ fuel →
      SelfOk env (marshal_fuel env ord fuel) v t
  | 0, v, t, _, _, hn => by unfold need at hn; split at hn <;> omega
  | f + 1, ⟨vt, p⟩, t, h, hs, hn => by
    have hself : ∀ (c : Payload) (e ve : Ty), TW e ve c → setFree ve = true → 2 * psize c + 2 ≤ f →
        SelfOk env (marshal_fuel env ord f) ⟨ve, c⟩ e := fun c e ve htw hsf hc =>
      fuel_tie env ord ho f ⟨ve, c⟩ e htw hsf (by unfold need; split <;> simp only <;> omega)
    have hkey : ∀ k : String, 4 ≤ f → SelfOk env (marshal_fuel env ord f) ⟨.string, .s k⟩ .string := fun k hf =>
      hself (.s k) .string .string ⟨rfl, rfl, rfl, rfl⟩ rfl (by simp [psize]; omega)
    intro b
    simp only at h hs
    simp only [marshal_fuel, JsonVal.marshal, marshalEntry, JsonGo.isMarked, JsonGo.isKnown, typeOf]
    cases hm : p.isMarked
    case true => simp [Agree]
    cases hk : p.isKnown
    case false => simp [Agree]
    simp only [Bool.false_eq_true, if_false, Bool.not_true]
    by_cases hd : (t.isDyn && !vt.isDyn) = true
    · -- marshalDynamic
      simp only [hd, if_true, marshalDynamic, marshalType, typeOf]
      have hvv : (vt.isDyn && !vt.isDyn) = false := by cases vt.isDyn <;> rfl
      have hrec := fuel_tie env ord ho f ⟨vt, p⟩ vt h.self hs
        (by unfold need at hn ⊢; simp only [hd, if_true] at hn; simp only [hvv]; simp; omega)
        (writeToks b [.lbrace, .str "value", .colon])
      simp only [JsonVal.marshal] at hrec
      rw [marshalEntry_same vt p _ hm hk] at hrec
      cases htj : toJson vt <;> simp only [Res.map, split, Agree]
      · cases hb : marshalKnown env vt vt p <;> simp only [hb, Agree] at hrec ⊢
        · simp [writeToks, writeBytes, render, renderMembers, List.append_assoc] at hrec ⊢
          simp [hrec]
        · obtain ⟨c, hc⟩ := hrec; simp [hc]
        · obtain ⟨c, hc⟩ := hrec; simp [hc]
        · simp [hrec]
      · exact ⟨_, rfl⟩
      · exact ⟨_, rfl⟩
    · simp only [hd, Bool.false_eq_true, if_false]
      have hd' : t.isDyn = true → vt.isDyn = true := by
        intro ht; simpa [ht] using hd
      have hd2 : (t.isDyn && !vt.isDyn) = false := by simpa using hd
      have hn' : 2 * psize p ≤ f := by unfold need at hn; simp [hd2] at hn; omega
      have hw := h.wfp
      have hc := h.conf
      cases p with
      | null => simp [isNull, Payload.unmark1, marshalKnown, Agree, writeToks, render]
      | unk r => simp [Payload.isKnown, Payload.unmark1] at hk
      | marked ms r => simp [Payload.isMarked] at hm
      | bad w => cases vt <;> simp [wfP] at hw
      | caps =>
        cases vt <;> simp [wfP] at hw
      | b x =>
        cases vt with
        | bool =>
          cases t with
          | bool => cases x <;> simp [isNull, Payload.unmark1, marshalKnown, Agree, writeToks, render, isPrimitiveType, isPrimTy,
              Ty.isString, Ty.isNumber, Ty.isBool, JsonGo.isTrue, Res.bind]
          | dyn => exact absurd (hd' rfl) (by simp [Ty.isDyn])
          | _ => simp [«matches»] at hc
        | _ => simp [wfP] at hw
      | s x =>
        cases vt with
        | string =>
          cases t with
          | string => simp [isNull, Payload.unmark1, marshalKnown, Agree, writeToks, render, isPrimitiveType, isPrimTy,
              Ty.isString, asString, jsonMarshalString, split, writeBytes, Res.bind]
          | dyn => exact absurd (hd' rfl) (by simp [Ty.isDyn])
          | _ => simp [«matches»] at hc
        | _ => simp [wfP] at hw
      | n x =>
        cases vt with
        | number =>
          cases t with
          | number =>
            cases x <;> simp [isNull, Payload.unmark1, marshalKnown, Agree, writeToks, render, isPrimitiveType, isPrimTy,
              Ty.isString, Ty.isNumber, asBigFloat, rawEqualsPosInf, rawEqualsNegInf, Num.isInf, writeNumText, Res.bind]
            all_goals (try (rename_i neg; cases neg <;> simp))
          | dyn => exact absurd (hd' rfl) (by simp [Ty.isDyn])
          | _ => simp [«matches»] at hc
        | _ => simp [wfP] at hw
      | sset ids vs =>
        cases vt <;> simp [wfP] at hw
        simp [setFree] at hs
      | seq vs =>
        cases vt with
        | list ve =>
          cases t with
          | list e =>
            simp only [«matches»] at hc
            simp only [wfP] at hw
            have hel : ∀ v ∈ vs, SelfOk env (marshal_fuel env ord f) ⟨ve, v⟩ e := fun v hv =>
              hself v e ve ⟨by simpa [wf] using h.wt, by simpa [wf] using h.wvt, hc, wfAll_mem hw v hv⟩
                (by simpa [setFree] using hs)
                (by have := psize_le_of_mem vs v hv; simp only [psize] at hn'; omega)
            have hl := loop1_eq env ord (marshal_fuel env ord f) e ve vs (writeToks b [.lbrack]) true 0 hel
            simp only [isNull, Payload.unmark1, marshalKnown, isPrimitiveType, isPrimTy, isListType, isSetType, Bool.or_false,
              Bool.false_eq_true, if_false, if_true, elementType, Res.bind, elementIterator]
            refine Agree.map ?_
            cases hr : marshalAll env e ve vs <;> simp only [hr, Agree] at hl ⊢
            · simp [writeToks, render, List.append_assoc] at hl ⊢
              simp [hl]
            · exact hl
            · exact hl
            · exact hl
          | dyn => exact absurd (hd' rfl) (by simp [Ty.isDyn])
          | _ => simp [«matches»] at hc
        | tuple ves =>
          cases t with
          | tuple es =>
            simp only [«matches»] at hc
            simp only [wfP, Bool.and_eq_true, beq_iff_eq] at hw
            have hz : ZipOk env (marshal_fuel env ord f) es ves vs :=
              zipOk_of env _ f hself es ves vs (by simpa [wf] using h.wt) (by simpa [wf] using h.wvt)
                (by simpa [setFree] using hs) hc hw.1 hw.2 (by simp only [psize] at hn'; omega)
            have hl := loop3_eq env ord (marshal_fuel env ord f) es ves vs [] (writeToks b [.lbrack]) hz
            simp only [isNull, Payload.unmark1, marshalKnown, isPrimitiveType, isPrimTy, isListType, isSetType, isMapType, isTupleType,
              Bool.or_false, Bool.false_eq_true, if_false, if_true, tupleElementTypes, Res.bind, elementIterator]
            refine Agree.map ?_
            simp only [List.nil_append, List.length_nil] at hl
            cases hr : marshalZip env es ves vs <;> simp only [hr, Agree] at hl ⊢
            · simp [writeToks, render, List.append_assoc] at hl ⊢
              simp [hl]
            · exact hl
            · exact hl
            · exact hl
          | dyn => exact absurd (hd' rfl) (by simp [Ty.isDyn])
          | _ => simp [«matches»] at hc
        | _ => simp [wfP] at hw
      | smap ks vs =>
        have hf4 : 4 ≤ f := by simp only [psize] at hn'; omega
        cases vt with
        | map ve =>
          cases t with
          | map e =>
            simp only [«matches»] at hc
            simp only [wfP, Bool.and_eq_true, beq_iff_eq] at hw
            have hel : ∀ v ∈ vs, SelfOk env (marshal_fuel env ord f) ⟨ve, v⟩ e := fun v hv =>
              hself v e ve ⟨by simpa [wf] using h.wt, by simpa [wf] using h.wvt, hc, wfAll_mem hw.2 v hv⟩
                (by simpa [setFree] using hs)
                (by have := psize_le_of_mem vs v hv; simp only [psize] at hn'; omega)
            have hl := loop2_eq env ord (marshal_fuel env ord f) e ve ks vs (writeToks b [.lbrace]) true hw.1.1
              (fun k _ => hkey k hf4) hel
            simp only [isNull, Payload.unmark1, marshalKnown, isPrimitiveType, isPrimTy, isListType, isSetType, isMapType,
              Bool.or_false, Bool.false_eq_true, if_false, if_true, elementType, Res.bind, elementIterator]
            refine Agree.map ?_
            cases hr : marshalAll env e ve vs <;> simp only [hr, Agree] at hl ⊢
            · simp [writeToks, render, List.append_assoc] at hl ⊢
              simp [hl]
            · exact hl
            · exact hl
            · exact hl
          | dyn => exact absurd (hd' rfl) (by simp [Ty.isDyn])
          | _ => simp [«matches»] at hc
        | object vns vts vos =>
          cases t with
          | object ns ts os =>
            simp only [«matches», Bool.and_eq_true, beq_iff_eq] at hc
            obtain ⟨hns, hc⟩ := hc
            subst hns
            simp only [wfP, Bool.and_eq_true, beq_iff_eq] at hw
            obtain ⟨⟨hks, hvl⟩, hw⟩ := hw
            subst hks
            have hwt := h.wt
            have hwvt := h.wvt
            simp only [wf, Bool.and_eq_true, beq_iff_eq] at hwt hwvt
            have hz : ZipOk env (marshal_fuel env ord f) ts vts vs :=
              zipOk_of env _ f hself ts vts vs hwt.2 hwvt.2 (by simpa [setFree] using hs) hc hvl hw
                (by simp only [psize] at hn'; omega)
            have hl := loop5_eq env ord (marshal_fuel env ord f) vos ks ks ts vts vs [] [] [] [] (writeToks b [.lbrace])
              rfl rfl rfl hwt.1.1.1 (fun _ _ => by simp) (strictAsc_nodup hwt.1.2) (fun k _ => hkey k hf4) hz
            simp only [isNull, Payload.unmark1, marshalKnown, isPrimitiveType, isPrimTy, isListType, isSetType, isMapType, isTupleType,
              isObjectType, Bool.or_false, Bool.false_eq_true, if_false, if_true, attributeTypes, Res.bind, beq_self_eq_true,
              loop4_eq, List.nil_append, sortStrings_perm (ho ks) hwt.1.2]
            refine Agree.map ?_
            simp only [List.nil_append, List.length_nil] at hl
            cases hr : marshalZip env ts vts vs <;> simp only [hr, Agree] at hl ⊢
            · simp [writeToks, render, List.append_assoc] at hl ⊢
              simp [hl]
            · exact hl
            · exact hl
            · exact hl
          | dyn => exact absurd (hd' rfl) (by simp [Ty.isDyn])
          | _ => simp [«matches»] at hc
        | _ => simp [wfP] at hw

/-- THE TIE.  For every environment, every visiting order `ord` of Go's map `range` (any permutation), every buffer
content `b`, every well-formed set-free value and well-formed constraint its type conforms to: the regenerated
`marshal` answers as the hand-written `JsonVal.marshal` does, and on success the buffer holds `b` followed by exactly
the tokens of the model's document. -/
theorem marshal_tie (env : JEnv) (ord : MapOrder) (ho : ∀ l, (ord l).Perm l) (v : Value) (t : Ty) (b : Buf)
    (hwt : wf t = true) (hwv : wf v.ty = true) (hconf : «matches» t v.ty = true) (hwf : wfP v.ty v.v = true)
    (hs : setFree v.ty = true) :
    Agree (Generated.JsonMarshalFns.marshal env ord v t b) (JsonVal.marshal env v t) (fun j => b ++ render j) :=
  fuel_tie env ord ho (fuelFor v) v t ⟨hwt, hwv, hconf, hwf⟩ hs (by unfold need fuelFor; split <;> omega) b

theorem Agree.ok_of {α} {g : Res Buf} {h : Res α} {f : α → Buf} (a : Agree g h f) {x : α} (hx : h = .ok x) : g = .ok (f x) := by
  subst hx; exact a

theorem Agree.err_of {α} {g : Res Buf} {h : Res α} {f : α → Buf} (a : Agree g h f) {c : String} (hx : h = .err c) :
    ∃ c', g = .err c' := by
  subst hx; exact a

theorem Agree.of_ok {α} {g : Res Buf} {h : Res α} {f : α → Buf} (a : Agree g h f) {buf : Buf} (hg : g = .ok buf) :
    ∃ x, h = .ok x ∧ buf = f x := by
  cases h <;> simp only [Agree] at a
  · rename_i x; exact ⟨x, rfl, by rw [hg] at a; cases a; rfl⟩
  · obtain ⟨c, hc⟩ := a; rw [hg] at hc; cases hc
  · obtain ⟨c, hc⟩ := a; rw [hg] at hc; cases hc
  · rw [hg] at a; cases a

/-- the generated `marshalDynamic` is the model's wrapper: `{"value": <v against its own type>, "type": <MarshalType>}` -/
theorem marshalDynamic_tie (env : JEnv) (ord : MapOrder) (ho : ∀ l, (ord l).Perm l) (v : Value) (b : Buf)
    (hwv : wf v.ty = true) (hwf : wfP v.ty v.v = true) (hs : setFree v.ty = true) (tj j : Json)
    (htj : toJson v.ty = .ok tj) (hj : JsonVal.marshal env v v.ty = .ok j) :
    marshalDynamic env ord (Generated.JsonMarshalFns.marshal_fuel env ord (fuelFor v)) v b =
      .ok (b ++ render (.obj ["value", "type"] [j, tj])) := by
  have h := fuel_tie env ord ho (fuelFor v) v v.ty ⟨hwv, hwv, matches_refl _, hwf⟩ hs
    (by unfold need fuelFor; split <;> omega) (writeToks b [.lbrace, .str "value", .colon])
  rw [hj] at h
  simp only [Agree] at h
  simp [marshalDynamic, marshalType, typeOf, htj, Res.map, split, writeToks, writeBytes, render, renderMembers,
    List.append_assoc] at h ⊢
  simp [h]

end JsonMarshalFnsTie
end CtyModel
