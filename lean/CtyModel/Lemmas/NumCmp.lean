/-
`Num.cmp` (the model of `big.Float.Cmp`) is a total preorder whose equivalence
is "same exact value", and it is dense.  Proved by scaling the numbers involved
to a common binary exponent, where `cmp` becomes comparison of integers.
Used by C05 (numeric bounds of refinements).
-/
import CtyModel.Num
namespace CtyModel
namespace NumCmp
open Num

def icmp (x y : Int) : Int := if x < y then -1 else if x = y then 0 else 1

def sgnm (neg : Bool) (m : Nat) : Int := if neg then -(m : Int) else (m : Int)

/-- position of a number in the order, once every finite number involved is
scaled to the common exponent `e`: (−1,0) for −∞, (1,0) for +∞, (0, scaled
signed mantissa) for a finite number -/
def key (e : Int) : Num → Int × Int
  | .inf true => (-1, 0)
  | .inf false => (1, 0)
  | .fin n m ea _ => (0, scaleTo (sgnm n m) ea e)

def kcmp (p q : Int × Int) : Int :=
  if p.1 < q.1 then -1 else if q.1 < p.1 then 1 else icmp p.2 q.2

/-- `e` is at most the exponent of the number (no condition for infinities) -/
def below (e : Int) : Num → Prop
  | .fin _ _ ea _ => e ≤ ea
  | .inf _ => True

def expOf : Num → Int
  | .fin _ _ e _ => e
  | .inf _ => 0

theorem below_of_le {e : Int} {a : Num} (h : e ≤ expOf a) : below e a := by
  cases a <;> simp_all [below, expOf]

theorem two_pow_pos (k : Nat) : (0 : Int) < 2 ^ k := Int.pow_pos (by decide)

theorem scaleTo_shift (m e1 e0 e : Int) (h0 : e0 ≤ e1) (h : e ≤ e0) :
    scaleTo m e1 e = scaleTo m e1 e0 * 2 ^ (e0 - e).toNat := by
  unfold scaleTo
  have : (e1 - e).toNat = (e1 - e0).toNat + (e0 - e).toNat := by omega
  rw [this, Int.pow_add, Int.mul_assoc]

theorem icmp_mul (x y k : Int) (hk : 0 < k) : icmp (x * k) (y * k) = icmp x y := by
  unfold icmp
  have h1 : x * k < y * k ↔ x < y :=
    ⟨fun h => Int.lt_of_mul_lt_mul_right h (Int.le_of_lt hk), fun h => Int.mul_lt_mul_of_pos_right h hk⟩
  have h2 : x * k = y * k ↔ x = y :=
    ⟨fun h => Int.eq_of_mul_eq_mul_right (Int.ne_of_gt hk) h, fun h => by rw [h]⟩
  simp only [h1, h2]

theorem cmp_fin (na : Bool) (ma : Nat) (ea : Int) (pa : Nat) (nb : Bool) (mb : Nat) (eb : Int) (pb : Nat) :
    cmp (.fin na ma ea pa) (.fin nb mb eb pb) =
      icmp (scaleTo (sgnm na ma) ea (min ea eb)) (scaleTo (sgnm nb mb) eb (min ea eb)) := by
  rfl

theorem cmp_eq_kcmp (e : Int) (a b : Num) (ha : below e a) (hb : below e b) :
    cmp a b = kcmp (key e a) (key e b) := by
  cases a with
  | inf na =>
    cases b with
    | inf nb => cases na <;> cases nb <;> simp [cmp, key, kcmp, icmp]
    | fin nb mb eb pb => cases na <;> simp [cmp, key, kcmp]
  | fin na ma ea pa =>
    cases b with
    | inf nb => cases nb <;> simp [cmp, key, kcmp]
    | fin nb mb eb pb =>
      simp only [below] at ha hb
      rw [cmp_fin]
      simp only [key, kcmp, Int.lt_irrefl, if_false]
      have hle : e ≤ min ea eb := by omega
      rw [scaleTo_shift (sgnm na ma) ea (min ea eb) e (by omega) hle,
          scaleTo_shift (sgnm nb mb) eb (min ea eb) e (by omega) hle,
          icmp_mul _ _ _ (two_pow_pos _)]

/-- a common exponent for three numbers -/
theorem common3 (a b c : Num) : ∃ e, below e a ∧ below e b ∧ below e c :=
  ⟨min (expOf a) (min (expOf b) (expOf c)),
   below_of_le (by omega), below_of_le (by omega), below_of_le (by omega)⟩

theorem common2 (a b : Num) : ∃ e, below e a ∧ below e b :=
  let ⟨e, h1, h2, _⟩ := common3 a b b
  ⟨e, h1, h2⟩

/-! ### the lexicographic comparison of keys, in a form `omega` digests -/
theorem kcmp_lt (p q : Int × Int) : kcmp p q < 0 ↔ (p.1 < q.1 ∨ (p.1 = q.1 ∧ p.2 < q.2)) := by
  unfold kcmp icmp; repeat' split <;> omega
theorem kcmp_gt (p q : Int × Int) : kcmp p q > 0 ↔ (q.1 < p.1 ∨ (p.1 = q.1 ∧ q.2 < p.2)) := by
  unfold kcmp icmp; repeat' split <;> omega
theorem kcmp_eq (p q : Int × Int) : kcmp p q = 0 ↔ (p.1 = q.1 ∧ p.2 = q.2) := by
  unfold kcmp icmp; repeat' split <;> omega
theorem kcmp_le (p q : Int × Int) : kcmp p q ≤ 0 ↔ (p.1 < q.1 ∨ (p.1 = q.1 ∧ p.2 ≤ q.2)) := by
  unfold kcmp icmp; repeat' split <;> omega
theorem kcmp_ge (p q : Int × Int) : kcmp p q ≥ 0 ↔ (q.1 < p.1 ∨ (p.1 = q.1 ∧ q.2 ≤ p.2)) := by
  unfold kcmp icmp; repeat' split <;> omega
theorem kcmp_range (p q : Int × Int) : kcmp p q = -1 ∨ kcmp p q = 0 ∨ kcmp p q = 1 := by
  unfold kcmp icmp; repeat' split <;> omega
theorem kcmp_swap (p q : Int × Int) : kcmp q p = - kcmp p q := by
  unfold kcmp icmp; repeat' split <;> omega

/-! ### order facts about `cmp` -/
theorem cmp_range (a b : Num) : cmp a b = -1 ∨ cmp a b = 0 ∨ cmp a b = 1 := by
  obtain ⟨e, ha, hb⟩ := common2 a b
  rw [cmp_eq_kcmp e a b ha hb]; exact kcmp_range _ _

theorem cmp_swap (a b : Num) : cmp b a = - cmp a b := by
  obtain ⟨e, ha, hb⟩ := common2 a b
  rw [cmp_eq_kcmp e a b ha hb, cmp_eq_kcmp e b a hb ha]; exact kcmp_swap _ _

theorem cmp_self (a : Num) : cmp a a = 0 := by
  have := cmp_swap a a; omega

theorem cmp_le_trans {a b c : Num} (h1 : cmp a b ≤ 0) (h2 : cmp b c ≤ 0) : cmp a c ≤ 0 := by
  obtain ⟨e, ha, hb, hc⟩ := common3 a b c
  rw [cmp_eq_kcmp e _ _ ha hb, kcmp_le] at h1
  rw [cmp_eq_kcmp e _ _ hb hc, kcmp_le] at h2
  rw [cmp_eq_kcmp e _ _ ha hc, kcmp_le]
  omega

theorem cmp_lt_le_trans {a b c : Num} (h1 : cmp a b < 0) (h2 : cmp b c ≤ 0) : cmp a c < 0 := by
  obtain ⟨e, ha, hb, hc⟩ := common3 a b c
  rw [cmp_eq_kcmp e _ _ ha hb, kcmp_lt] at h1
  rw [cmp_eq_kcmp e _ _ hb hc, kcmp_le] at h2
  rw [cmp_eq_kcmp e _ _ ha hc, kcmp_lt]
  omega

theorem cmp_le_lt_trans {a b c : Num} (h1 : cmp a b ≤ 0) (h2 : cmp b c < 0) : cmp a c < 0 := by
  obtain ⟨e, ha, hb, hc⟩ := common3 a b c
  rw [cmp_eq_kcmp e _ _ ha hb, kcmp_le] at h1
  rw [cmp_eq_kcmp e _ _ hb hc, kcmp_lt] at h2
  rw [cmp_eq_kcmp e _ _ ha hc, kcmp_lt]
  omega

/-- numbers that compare equal are interchangeable on the right … -/
theorem cmp_congr_right {a b : Num} (h : cmp a b = 0) (c : Num) : cmp c a = cmp c b := by
  obtain ⟨e, ha, hb, hc⟩ := common3 a b c
  rw [cmp_eq_kcmp e _ _ ha hb, kcmp_eq] at h
  rw [cmp_eq_kcmp e _ _ hc ha, cmp_eq_kcmp e _ _ hc hb]
  have : key e a = key e b := Prod.ext h.1 h.2
  rw [this]

/-- … and on the left -/
theorem cmp_congr_left {a b : Num} (h : cmp a b = 0) (c : Num) : cmp a c = cmp b c := by
  have := cmp_congr_right h c
  rw [cmp_swap c a, cmp_swap c b, this]

/-! ### infinities are the extremes -/
theorem cmp_posInf (a : Num) : cmp a (.inf false) ≤ 0 := by
  cases a with
  | inf n => cases n <;> simp [cmp]
  | fin _ _ _ _ => simp [cmp]
theorem cmp_negInf (a : Num) : cmp a (.inf true) ≥ 0 := by
  cases a with
  | inf n => cases n <;> simp [cmp]
  | fin _ _ _ _ => simp [cmp]
theorem cmp_posInf_eq (a : Num) : cmp a (.inf false) = 0 ↔ a = .inf false := by
  cases a with
  | inf n => cases n <;> simp [cmp]
  | fin _ _ _ _ => simp [cmp]
theorem cmp_negInf_eq (a : Num) : cmp a (.inf true) = 0 ↔ a = .inf true := by
  cases a with
  | inf n => cases n <;> simp [cmp]
  | fin _ _ _ _ => simp [cmp]

/-! ### density -/
/-- a number strictly between `a` and `b` (when `a < b`) -/
def between (a b : Num) : Num :=
  match a, b with
  | .fin na ma ea pa, .fin nb mb eb _ =>
    let e := min ea eb
    let s := scaleTo (sgnm na ma) ea e + scaleTo (sgnm nb mb) eb e
    .fin (decide (s < 0)) s.natAbs (e - 1) pa
  | .fin na ma ea pa, .inf _ =>
    let s := sgnm na ma + 1
    .fin (decide (s < 0)) s.natAbs ea pa
  | .inf _, .fin nb mb eb pb =>
    let s := sgnm nb mb - 1
    .fin (decide (s < 0)) s.natAbs eb pb
  | .inf _, .inf _ => .fin false 0 0 64

theorem sgnm_natAbs (s : Int) : sgnm (decide (s < 0)) s.natAbs = s := by
  unfold sgnm; split <;> simp_all <;> omega

theorem scaleTo_self (m e : Int) : scaleTo m e e = m := by simp [scaleTo]

theorem between_spec {a b : Num} (h : cmp a b < 0) :
    cmp a (between a b) < 0 ∧ cmp (between a b) b < 0 := by
  cases a with
  | inf na =>
    cases b with
    | inf nb => cases na <;> cases nb <;> simp_all [cmp, between]
    | fin nb mb eb pb =>
      cases na
      · simp [cmp] at h
      · refine ⟨by simp [cmp, between], ?_⟩
        simp only [between]
        rw [cmp_fin, sgnm_natAbs]
        simp only [Int.min_self, scaleTo_self, icmp]
        split <;> omega
  | fin na ma ea pa =>
    cases b with
    | inf nb =>
      cases nb
      · refine ⟨?_, by simp [cmp, between]⟩
        simp only [between]
        rw [cmp_fin, sgnm_natAbs]
        simp only [Int.min_self, scaleTo_self, icmp]
        split <;> omega
      · simp [cmp] at h
    | fin nb mb eb pb =>
      rw [cmp_fin] at h
      simp only [between]
      have e1 : min ea eb - 1 ≤ min ea eb := by omega
      rw [cmp_eq_kcmp (min ea eb - 1) _ _ (by simp [below]; omega) (by simp [below]),
          cmp_eq_kcmp (min ea eb - 1) _ _ (by simp [below]) (by simp [below]; omega)]
      simp only [key, sgnm_natAbs, scaleTo_self, kcmp_lt]
      rw [scaleTo_shift (sgnm na ma) ea (min ea eb) (min ea eb - 1) (by omega) e1,
          scaleTo_shift (sgnm nb mb) eb (min ea eb) (min ea eb - 1) (by omega) e1]
      have hk : (min ea eb - (min ea eb - 1)).toNat = 1 := by omega
      rw [hk]
      generalize scaleTo (sgnm na ma) ea (min ea eb) = A at *
      generalize scaleTo (sgnm nb mb) eb (min ea eb) = B at *
      have hAB : A < B := by
        unfold icmp at h
        split at h
        · assumption
        · split at h <;> omega
      simp
      omega

end NumCmp
end CtyModel
