/-
C01 for Add and Subtract on refined unknown numbers (`numericRangeArithmetic`):
the result range is computed from the four corners of the operand ranges.  Exact
addition is monotone, so when none of the additions involved rounds
(`Num.addFits`) the corner of the lower bounds is below the concrete result and
the corner of the upper bounds above it.  (`big.Float` rounding at the corners is
exactly what breaks the bound in the mixed-precision counterexample.)
-/
import CtyModel.Lemmas.OpsArith
import CtyModel.Lemmas.NumRound
namespace CtyModel
open Value Cov NumCmp
namespace Num

/-- the exact sum of two finite numbers fits the result precision, so that
`big.Float.Add` does not round (always true when an operand is infinite) -/
def addFits (a b : Num) : Bool :=
  match a, b with
  | .fin na ma ea pa, .fin nb mb eb pb =>
    decide (bitlen (scaleTo (sgnm na ma) ea (min ea eb) + scaleTo (sgnm nb mb) eb (min ea eb)).natAbs ≤ max pa pb)
  | _, _ => true

theorem sgnm_zero (n : Bool) : sgnm n 0 = 0 := by cases n <;> simp [sgnm]

theorem scaleTo_zero (e1 e : Int) : scaleTo 0 e1 e = 0 := by simp [scaleTo]

theorem scaleTo_add (a b e1 e : Int) : scaleTo (a + b) e1 e = scaleTo a e1 e + scaleTo b e1 e := by
  simp [scaleTo, Int.add_mul]

/-- exact addition of finite numbers: at every exponent below the three, the scaled
value of the sum is the sum of the scaled values -/
theorem add_exact {na nb : Bool} {ma mb : Nat} {ea eb : Int} {pa pb : Nat} {c : Num}
    (hfit : addFits (.fin na ma ea pa) (.fin nb mb eb pb) = true)
    (h : Num.add (.fin na ma ea pa) (.fin nb mb eb pb) = .ok c) :
    ∃ nc mc ec pc, c = .fin nc mc ec pc ∧ ∀ E, E ≤ ea → E ≤ eb → E ≤ ec →
      scaleTo (sgnm nc mc) ec E = scaleTo (sgnm na ma) ea E + scaleTo (sgnm nb mb) eb E := by
  simp only [addFits, decide_eq_true_eq] at hfit
  have hadd : Num.add (.fin na ma ea pa) (.fin nb mb eb pb) =
      (if ma = 0 ∧ mb = 0 then .ok (.fin (na && nb) 0 0 (max pa pb))
       else if scaleTo (sgnm na ma) ea (min ea eb) + scaleTo (sgnm nb mb) eb (min ea eb) = 0 then .ok (.fin false 0 0 (max pa pb))
       else .ok (round (decide (scaleTo (sgnm na ma) ea (min ea eb) + scaleTo (sgnm nb mb) eb (min ea eb) < 0))
          (scaleTo (sgnm na ma) ea (min ea eb) + scaleTo (sgnm nb mb) eb (min ea eb)).natAbs (min ea eb) (max pa pb))) := rfl
  rw [hadd] at h
  generalize hs : scaleTo (sgnm na ma) ea (min ea eb) + scaleTo (sgnm nb mb) eb (min ea eb) = s at h hfit
  -- the sum at any lower exponent
  have hsum : ∀ E, E ≤ ea → E ≤ eb →
      scaleTo (sgnm na ma) ea E + scaleTo (sgnm nb mb) eb E = s * 2 ^ (min ea eb - E).toNat := by
    intro E h1 h2
    rw [scaleTo_shift (sgnm na ma) ea (min ea eb) E (by omega) (by omega),
        scaleTo_shift (sgnm nb mb) eb (min ea eb) E (by omega) (by omega), ← Int.add_mul, hs]
  by_cases hz : ma = 0 ∧ mb = 0
  · simp only [hz, and_self, if_true, Res.ok.injEq] at h
    subst h
    refine ⟨_, _, _, _, rfl, fun E _ _ _ => ?_⟩
    obtain ⟨rfl, rfl⟩ := hz
    simp [sgnm_zero, scaleTo_zero]
  · simp only [hz, if_false] at h
    by_cases hs0 : s = 0
    · simp only [hs0, if_true, Res.ok.injEq] at h
      subst h
      refine ⟨_, _, _, _, rfl, fun E h1 h2 _ => ?_⟩
      rw [hsum E h1 h2, hs0]; simp [sgnm_zero, scaleTo_zero]
    · simp only [hs0, if_false, Res.ok.injEq] at h
      subst h
      have hp : max pa pb ≠ 0 := by
        intro hp0
        rw [hp0] at hfit
        have : bitlen s.natAbs = 0 := by omega
        simp only [bitlen] at this
        split at this
        · omega
        · omega
      have hr : roundME s.natAbs (min ea eb) (max pa pb) = (s.natAbs, min ea eb) := by
        simp only [roundME, hp, if_false, hfit, if_true]
      have hm : s.natAbs ≠ 0 := by omega
      obtain ⟨hv1, hv2⟩ := norm_val s.natAbs (min ea eb) hm
      refine ⟨decide (s < 0), (norm s.natAbs (min ea eb)).1, (norm s.natAbs (min ea eb)).2, max pa pb,
        by simp only [round, hr, mk], fun E h1 h2 h3 => ?_⟩
      rw [hsum E h1 h2]
      simp only [scaleTo]
      have h4 : ((norm s.natAbs (min ea eb)).1 : Int) * 2 ^ ((norm s.natAbs (min ea eb)).2 - min ea eb).toNat = (s.natAbs : Int) := by
        exact_mod_cast hv2
      have hsplit : ((norm s.natAbs (min ea eb)).2 - E).toNat =
          ((norm s.natAbs (min ea eb)).2 - min ea eb).toNat + (min ea eb - E).toNat := by omega
      rw [hsplit, Int.pow_add, ← Int.mul_assoc]
      congr 1
      unfold sgnm
      by_cases hneg : s < 0
      · simp only [hneg, decide_true, if_true, Int.neg_mul, h4]; omega
      · simp only [hneg, decide_false, Bool.false_eq_true, if_false, h4]; omega


theorem icmp_le_iff (a b : Int) : icmp a b ≤ 0 ↔ a ≤ b := by
  unfold icmp
  split
  · constructor <;> intro <;> omega
  · split <;> constructor <;> intro <;> omega

/-- comparison of two finite numbers at any exponent below both -/
theorem cmp_fin_le {na nb : Bool} {ma mb : Nat} {ea eb : Int} {pa pb : Nat} (E : Int) (h1 : E ≤ ea) (h2 : E ≤ eb) :
    cmp (.fin na ma ea pa) (.fin nb mb eb pb) ≤ 0 ↔ scaleTo (sgnm na ma) ea E ≤ scaleTo (sgnm nb mb) eb E := by
  rw [cmp_eq_kcmp E _ _ (by simpa [below] using h1) (by simpa [below] using h2)]
  simp only [key, kcmp, Int.lt_irrefl, if_false]
  exact icmp_le_iff _ _

theorem cmp_posInf_inv {x : Num} (h : cmp (.inf false) x ≤ 0) : x = .inf false := by
  cases x with
  | inf n => cases n <;> simp_all [cmp]
  | fin _ _ _ _ => simp [cmp] at h

theorem cmp_negInf_inv {x : Num} (h : cmp x (.inf true) ≤ 0) : x = .inf true := by
  cases x with
  | inf n => cases n <;> simp_all [cmp]
  | fin _ _ _ _ => simp [cmp] at h

/-- exact addition is monotone -/
theorem add_mono {l1 l2 x y c z : Num} (h1 : cmp l1 x ≤ 0) (h2 : cmp l2 y ≤ 0)
    (hc : Num.add l1 l2 = .ok c) (hz : Num.add x y = .ok z)
    (f1 : addFits l1 l2 = true) (f2 : addFits x y = true) : cmp c z ≤ 0 := by
  cases l1 with
  | inf n1 =>
    cases n1
    · -- l1 = +inf, so x = +inf and z = +inf
      have := cmp_posInf_inv h1; subst this
      cases y with
      | inf ny => cases ny <;> simp [Num.add] at hz <;> subst hz <;> exact cmp_posInf c
      | fin _ _ _ _ => simp [Num.add] at hz; subst hz; exact cmp_posInf c
    · -- l1 = -inf, so c = -inf
      cases l2 with
      | inf n2 => cases n2 <;> simp [Num.add] at hc <;> subst hc <;> exact cmp_negInf_le z
      | fin _ _ _ _ => simp [Num.add] at hc; subst hc; exact cmp_negInf_le z
  | fin n1 m1 e1 p1 =>
    cases l2 with
    | inf n2 =>
      cases n2
      · have := cmp_posInf_inv h2; subst this
        cases x with
        | inf nx => cases nx <;> simp [Num.add] at hz <;> (try subst hz) <;> first | exact cmp_posInf c | (simp [cmp] at h1)
        | fin _ _ _ _ => simp [Num.add] at hz; subst hz; exact cmp_posInf c
      · simp [Num.add] at hc; subst hc; exact cmp_negInf_le z
    | fin n2 m2 e2 p2 =>
      cases x with
      | inf nx =>
        cases nx
        · cases y with
          | inf ny => cases ny <;> simp [Num.add] at hz <;> (try subst hz) <;> first | exact cmp_posInf c | (simp [cmp] at h2)
          | fin _ _ _ _ => simp [Num.add] at hz; subst hz; exact cmp_posInf c
        · simp [cmp] at h1
      | fin nx mx ex px =>
        cases y with
        | inf ny =>
          cases ny
          · simp [Num.add] at hz; subst hz; exact cmp_posInf c
          · simp [cmp] at h2
        | fin ny my ey py =>
          obtain ⟨nc, mc, ec, pc, rfl, hcv⟩ := add_exact f1 hc
          obtain ⟨nz, mz, ez, pz, rfl, hzv⟩ := add_exact f2 hz
          let E := min (min (min e1 e2) (min ex ey)) (min ec ez)
          have a1 := (cmp_fin_le (pa := p1) (pb := px) E (by omega) (by omega)).mp h1
          have a2 := (cmp_fin_le (pa := p2) (pb := py) E (by omega) (by omega)).mp h2
          rw [cmp_fin_le E (by omega) (by omega), hcv E (by omega) (by omega) (by omega),
            hzv E (by omega) (by omega) (by omega)]
          omega

theorem icmp_neg (A B : Int) : icmp (-A) (-B) = icmp B A := by
  unfold icmp
  split <;> split <;> (try split) <;> (try split) <;> omega

theorem scaleTo_sgnm_not (n : Bool) (m : Nat) (e1 e : Int) : scaleTo (sgnm (!n) m) e1 e = - scaleTo (sgnm n m) e1 e := by
  cases n <;> simp [sgnm, scaleTo, Int.neg_mul]

/-- negation reverses the order -/
theorem cmp_neg (a b : Num) : cmp (neg a) (neg b) = cmp b a := by
  cases a with
  | inf na => cases b with
    | inf nb => cases na <;> cases nb <;> simp [neg, cmp]
    | fin _ _ _ _ => cases na <;> simp [neg, cmp]
  | fin na ma ea pa => cases b with
    | inf nb => cases nb <;> simp [neg, cmp]
    | fin nb mb eb pb =>
      simp only [neg]
      rw [cmp_eq_kcmp (min ea eb) _ _ (by simp only [below]; omega) (by simp only [below]; omega),
          cmp_eq_kcmp (min ea eb) (.fin nb mb eb pb) (.fin na ma ea pa) (by simp only [below]; omega) (by simp only [below]; omega)]
      simp only [key, kcmp, Int.lt_irrefl, if_false, scaleTo_sgnm_not, icmp_neg]

end Num


/-! ### `mostNumberValue` over the corner results -/
def stepOf (better : Num → Num → Bool) (acc x : Option Num) : Option Num :=
  match acc, x with
  | some r, some v => some (if better v r then v else r)
  | _, _ => none

theorem mostOf_eq (better : Num → Num → Bool) (v : Num) (rest : List (Option Num)) :
    mostOf better (some v :: rest) = rest.foldl (stepOf better) (some v) := rfl

theorem foldl_step_none (better : Num → Num → Bool) : ∀ rest : List (Option Num), rest.foldl (stepOf better) none = none
  | [] => rfl
  | x :: xs => by simp [List.foldl, stepOf, foldl_step_none better xs]

/-- the minimum: below the start value and below every corner -/
theorem foldl_min : ∀ (rest : List (Option Num)) (r0 m : Num),
    rest.foldl (stepOf (fun v r => decide (Num.cmp v r < 0))) (some r0) = some m →
    Num.cmp m r0 ≤ 0 ∧ ∀ v, some v ∈ rest → Num.cmp m v ≤ 0
  | [], r0, m, h => by
    simp only [List.foldl, Option.some.injEq] at h; subst h
    exact ⟨by rw [cmp_self]; omega, fun v hv => by simp at hv⟩
  | none :: xs, r0, m, h => by simp [List.foldl, stepOf, foldl_step_none] at h
  | some v :: xs, r0, m, h => by
    simp only [List.foldl, stepOf] at h
    by_cases hb : Num.cmp v r0 < 0
    · simp only [hb, decide_true, if_true] at h
      obtain ⟨h1, h2⟩ := foldl_min xs v m h
      refine ⟨cmp_le_trans h1 (by omega), fun u hu => ?_⟩
      simp only [List.mem_cons, Option.some.injEq] at hu
      rcases hu with rfl | hu
      · exact h1
      · exact h2 u hu
    · simp only [hb, decide_false, Bool.false_eq_true, if_false] at h
      obtain ⟨h1, h2⟩ := foldl_min xs r0 m h
      refine ⟨h1, fun u hu => ?_⟩
      simp only [List.mem_cons, Option.some.injEq] at hu
      rcases hu with rfl | hu
      · have : Num.cmp r0 u ≤ 0 := by rw [cmp_swap u r0]; omega
        exact cmp_le_trans h1 this
      · exact h2 u hu

theorem foldl_max : ∀ (rest : List (Option Num)) (r0 m : Num),
    rest.foldl (stepOf (fun v r => decide (Num.cmp v r > 0))) (some r0) = some m →
    Num.cmp r0 m ≤ 0 ∧ ∀ v, some v ∈ rest → Num.cmp v m ≤ 0
  | [], r0, m, h => by
    simp only [List.foldl, Option.some.injEq] at h; subst h
    exact ⟨by rw [cmp_self]; omega, fun v hv => by simp at hv⟩
  | none :: xs, r0, m, h => by simp [List.foldl, stepOf, foldl_step_none] at h
  | some v :: xs, r0, m, h => by
    simp only [List.foldl, stepOf] at h
    by_cases hb : Num.cmp v r0 > 0
    · simp only [hb, decide_true, if_true] at h
      obtain ⟨h1, h2⟩ := foldl_max xs v m h
      have : Num.cmp r0 v ≤ 0 := by rw [cmp_swap v r0]; omega
      refine ⟨cmp_le_trans this h1, fun u hu => ?_⟩
      simp only [List.mem_cons, Option.some.injEq] at hu
      rcases hu with rfl | hu
      · exact h1
      · exact h2 u hu
    · simp only [hb, decide_false, Bool.false_eq_true, if_false] at h
      obtain ⟨h1, h2⟩ := foldl_max xs r0 m h
      refine ⟨h1, fun u hu => ?_⟩
      simp only [List.mem_cons, Option.some.injEq] at hu
      rcases hu with rfl | hu
      · exact cmp_le_trans (by omega) h1
      · exact h2 u hu

theorem mostOf_min {cs : List (Option Num)} {m : Num}
    (h : mostOf (fun v r => decide (Num.cmp v r < 0)) cs = some m) : ∀ v, some v ∈ cs → Num.cmp m v ≤ 0 := by
  cases cs with
  | nil => simp [mostOf] at h
  | cons c rest =>
    cases c with
    | none => simp [mostOf] at h
    | some v0 =>
      rw [mostOf_eq] at h
      have hh : (fun acc x => match acc, x with
          | some r, some v => some (if (fun v r => decide (Num.cmp v r < 0)) v r = true then v else r)
          | _, _ => none) = stepOf (fun v r => decide (Num.cmp v r < 0)) := rfl
      obtain ⟨h1, h2⟩ := foldl_min rest v0 m h
      intro v hv
      simp only [List.mem_cons, Option.some.injEq] at hv
      rcases hv with rfl | hv
      · exact h1
      · exact h2 v hv

theorem mostOf_max {cs : List (Option Num)} {m : Num}
    (h : mostOf (fun v r => decide (Num.cmp v r > 0)) cs = some m) : ∀ v, some v ∈ cs → Num.cmp v m ≤ 0 := by
  cases cs with
  | nil => simp [mostOf] at h
  | cons c rest =>
    cases c with
    | none => simp [mostOf] at h
    | some v0 =>
      rw [mostOf_eq] at h
      obtain ⟨h1, h2⟩ := foldl_max rest v0 m h
      intro v hv
      simp only [List.mem_cons, Option.some.injEq] at hv
      rcases hv with rfl | hv
      · exact h1
      · exact h2 v hv

theorem foldl_some_all (better : Num → Num → Bool) : ∀ (rest : List (Option Num)) (acc : Option Num) (m : Num),
    rest.foldl (stepOf better) acc = some m → acc ≠ none ∧ ∀ c ∈ rest, c ≠ none
  | [], acc, m, h => by simp only [List.foldl] at h; subst h; simp
  | x :: xs, acc, m, h => by
    simp only [List.foldl] at h
    obtain ⟨h1, h2⟩ := foldl_some_all better xs _ m h
    cases acc with
    | none => simp [stepOf] at h1
    | some r =>
      cases x with
      | none => simp [stepOf] at h1
      | some v =>
        refine ⟨by simp, fun c hc => ?_⟩
        simp only [List.mem_cons] at hc
        rcases hc with rfl | hc
        · simp
        · exact h2 c hc

theorem mostOf_some_all {better : Num → Num → Bool} {cs : List (Option Num)} {m : Num}
    (h : mostOf better cs = some m) : ∀ c ∈ cs, c ≠ none := by
  cases cs with
  | nil => simp [mostOf] at h
  | cons c rest =>
    cases c with
    | none => simp [mostOf] at h
    | some v0 =>
      rw [mostOf_eq] at h
      obtain ⟨_, h2⟩ := foldl_some_all better rest _ m h
      intro c hc
      simp only [List.mem_cons] at hc
      rcases hc with rfl | hc
      · simp
      · exact h2 c hc

/-! ### `numericRangeArithmetic` on two number-typed operands -/
def cornerOf (op : Num → Num → Res Num) (x y : Num) : Option Num :=
  match op x y with | .ok r => some r | _ => none

def cornersOf (op : Num → Num → Res Num) (l1 h1 l2 h2 : Num) : List (Option Num) :=
  [cornerOf op l1 l2, cornerOf op l1 h2, cornerOf op h1 l2, cornerOf op h1 h2]

def loOf (newMin : Option Num) : Option Num :=
  match newMin with
  | some m => if Num.rawEqual m (.inf true) then none else some m
  | none => none
def hiOf (newMax : Option Num) : Option Num :=
  match newMax with
  | some m => if Num.rawEqual m (.inf false) then none else some m
  | none => none

def newMinOf (op : Num → Num → Res Num) (l1 h1 l2 h2 : Num) : Option Num :=
  mostOf (fun v r => decide (Num.cmp v r < 0)) (cornersOf op l1 h1 l2 h2)
def newMaxOf (op : Num → Num → Res Num) (l1 h1 l2 h2 : Num) : Option Num :=
  mostOf (fun v r => decide (Num.cmp v r > 0)) (cornersOf op l1 h1 l2 h2)

theorem rangeArith_bounds {op : Num → Num → Res Num} {a b : Value} {ra rb : VRange} {l1 h1 l2 h2 : Num}
    (hra : a.range = .ok ra) (hrb : b.range = .ok rb)
    (h1l : ra.numLower = .ok (some l1)) (h1u : ra.numUpper = .ok (some h1))
    (h2l : rb.numLower = .ok (some l2)) (h2u : rb.numUpper = .ok (some h2)) :
    rangeArith op a b = .ok (numRangeResult (loOf (newMinOf op l1 h1 l2 h2)) (hiOf (newMaxOf op l1 h1 l2 h2))) := by
  unfold rangeArith rangeArithC
  simp only [hra, hrb, h1l, h1u, h2l, h2u, Res.bind_ok]
  rfl

/-- the result of the range arithmetic admits `z` as soon as its bounds hold `z` -/
theorem covers_rangeResult {newMin newMax : Option Num} {z : Num}
    (hlo : ∀ m, newMin = some m → Num.cmp m z ≤ 0) (hhi : ∀ M, newMax = some M → Num.cmp z M ≤ 0)
    (hcoh : ∀ m M, newMin = some m → newMax = some M → Num.rawEqual m M = true → Num.cmp m M = 0) :
    Covers (numRangeResult (loOf newMin) (hiOf newMax)) (numVal z) = true := by
  have hlo' : ∀ m, loOf newMin = some m → newMin = some m := by
    intro m h
    cases newMin with
    | none => simp [loOf] at h
    | some m' => simp only [loOf] at h; split at h <;> simp_all
  have hhi' : ∀ m, hiOf newMax = some m → newMax = some m := by
    intro m h
    cases newMax with
    | none => simp [hiOf] at h
    | some m' => simp only [hiOf] at h; split at h <;> simp_all
  have cov : ∀ lo hi : Option Num, (∀ m, lo = some m → Num.cmp m z ≤ 0) → (∀ M, hi = some M → Num.cmp z M ≤ 0) →
      Covers ⟨.number, .unk (.num .f (lo.map (⟨·, true⟩)) (hi.map (⟨·, true⟩)))⟩ (numVal z) = true := by
    intro lo hi h1 h2
    have a : loInside (lo.map (⟨·, true⟩)) (pt z) = true := by
      cases lo with
      | none => simp [loInside, pt, negInfB, cmp_negInf_le]
      | some m => simp [loInside, pt, h1 m rfl]
    have b : hiInside (hi.map (⟨·, true⟩)) (pt z) = true := by
      cases hi with
      | none => simp [hiInside, pt, posInfB, cmp_posInf]
      | some m => simp [hiInside, pt, h2 m rfl]
    simp [Covers, CoversG, numVal, Ty.matches, Payload.stripMarks, coversP, admits, rfnAdmitsKnown, Rfn.nullness, a, b]
    decide
  unfold numRangeResult
  cases hl : loOf newMin with
  | none => exact cov none _ (fun m h => by simp at h) (fun M h => hhi M (hhi' M h))
  | some l =>
    cases hh : hiOf newMax with
    | none => exact cov (some l) none (fun m h => by cases h; exact hlo _ (hlo' _ hl)) (fun M h => by simp at h)
    | some h =>
      have e1 := hlo l (hlo' l hl)
      have e2 := hhi h (hhi' h hh)
      simp only
      split
      · rename_i hraw
        have e3 := hcoh l h (hlo' l hl) (hhi' h hh) hraw
        have : Num.cmp l z = 0 := by
          have : Num.cmp z l ≤ 0 := by
            have := cmp_congr_right e3 z
            omega
          rw [cmp_swap l z] at this
          omega
        simp [Covers, CoversG, numVal, Ty.matches, Payload.stripMarks, coversP, numEq, this]
      · exact cov (some l) (some h) (fun m hm => by cases hm; exact e1) (fun M hM => by cases hM; exact e2)

theorem cornerOf_some {op : Num → Num → Res Num} {x y c : Num} (h : cornerOf op x y = some c) : op x y = .ok c := by
  unfold cornerOf at h
  cases hop : op x y <;> simp_all

/-- Add: the corner of the lower bounds is below the concrete sum, the corner of the
upper bounds above it, when none of the three additions rounds -/
theorem add_range_cover {l1 h1 l2 h2 x y z : Num} (b1 : Num.cmp l1 x ≤ 0) (c1 : Num.cmp x h1 ≤ 0)
    (b2 : Num.cmp l2 y ≤ 0) (c2 : Num.cmp y h2 ≤ 0) (hz : Num.add x y = .ok z)
    (fl : Num.addFits l1 l2 = true) (fh : Num.addFits h1 h2 = true) (fz : Num.addFits x y = true)
    (hcoh : ∀ m M, newMinOf Num.add l1 h1 l2 h2 = some m → newMaxOf Num.add l1 h1 l2 h2 = some M →
      Num.rawEqual m M = true → Num.cmp m M = 0) :
    Covers (numRangeResult (loOf (newMinOf Num.add l1 h1 l2 h2)) (hiOf (newMaxOf Num.add l1 h1 l2 h2))) (numVal z) = true := by
  refine covers_rangeResult ?_ ?_ hcoh
  · intro m hm
    have hall := mostOf_some_all hm (cornerOf Num.add l1 l2) (by simp [cornersOf])
    cases hc : cornerOf Num.add l1 l2 with
    | none => exact absurd hc hall
    | some c =>
      have h1 := mostOf_min hm c (by simp [cornersOf, hc])
      exact cmp_le_trans h1 (Num.add_mono b1 b2 (cornerOf_some hc) hz fl fz)
  · intro M hM
    have hall := mostOf_some_all hM (cornerOf Num.add h1 h2) (by simp [cornersOf])
    cases hc : cornerOf Num.add h1 h2 with
    | none => exact absurd hc hall
    | some c =>
      have h1 := mostOf_max hM c (by simp [cornersOf, hc])
      exact cmp_le_trans (Num.add_mono c1 c2 hz (cornerOf_some hc) fz fh) h1

/-- Subtract: lower corner `l1 − h2`, upper corner `h1 − l2` -/
theorem sub_range_cover {l1 h1 l2 h2 x y z : Num} (b1 : Num.cmp l1 x ≤ 0) (c1 : Num.cmp x h1 ≤ 0)
    (b2 : Num.cmp l2 y ≤ 0) (c2 : Num.cmp y h2 ≤ 0) (hz : Num.sub x y = .ok z)
    (fl : Num.addFits l1 (Num.neg h2) = true) (fh : Num.addFits h1 (Num.neg l2) = true)
    (fz : Num.addFits x (Num.neg y) = true)
    (hcoh : ∀ m M, newMinOf Num.sub l1 h1 l2 h2 = some m → newMaxOf Num.sub l1 h1 l2 h2 = some M →
      Num.rawEqual m M = true → Num.cmp m M = 0) :
    Covers (numRangeResult (loOf (newMinOf Num.sub l1 h1 l2 h2)) (hiOf (newMaxOf Num.sub l1 h1 l2 h2))) (numVal z) = true := by
  have n1 : Num.cmp (Num.neg h2) (Num.neg y) ≤ 0 := by rw [Num.cmp_neg]; exact c2
  have n2 : Num.cmp (Num.neg y) (Num.neg l2) ≤ 0 := by rw [Num.cmp_neg]; exact b2
  refine covers_rangeResult ?_ ?_ hcoh
  · intro m hm
    have hall := mostOf_some_all hm (cornerOf Num.sub l1 h2) (by simp [cornersOf])
    cases hc : cornerOf Num.sub l1 h2 with
    | none => exact absurd hc hall
    | some c =>
      have h1 := mostOf_min hm c (by simp [cornersOf, hc])
      exact cmp_le_trans h1 (Num.add_mono b1 n1 (cornerOf_some hc) hz fl fz)
  · intro M hM
    have hall := mostOf_some_all hM (cornerOf Num.sub h1 l2) (by simp [cornersOf])
    cases hc : cornerOf Num.sub h1 l2 with
    | none => exact absurd hc hall
    | some c =>
      have h1 := mostOf_max hM c (by simp [cornersOf, hc])
      exact cmp_le_trans (Num.add_mono c1 n2 hz (cornerOf_some hc) fz fh) h1

/-- an operand of the placeholder type: no bounds at all -/
theorem rangeArith_dyn {op : Num → Num → Res Num} {a b : Value} (ha : a.isMarked = false) (hb : b.isMarked = false)
    (hta : a.ty = .number ∨ a.ty = .dyn) (htb : b.ty = .number ∨ b.ty = .dyn) (hd : a.ty = .dyn ∨ b.ty = .dyn) :
    rangeArith op a b = .ok unkNumNotNull := by
  obtain ⟨ra, hra⟩ := range_ok_numdyn ha hta
  obtain ⟨rb, hrb⟩ := range_ok_numdyn hb htb
  have lowA : ∃ o, VRange.numLower ⟨a.ty, ra⟩ = .ok o ∧ (a.ty = .dyn → o = none) := by
    rcases hta with h | h <;> simp [VRange.numLower, h, Ty.isDyn, Ty.isNumber] <;> (try split) <;> simp
  have upA : ∃ o, VRange.numUpper ⟨a.ty, ra⟩ = .ok o ∧ (a.ty = .dyn → o = none) := by
    rcases hta with h | h <;> simp [VRange.numUpper, h, Ty.isDyn, Ty.isNumber] <;> (try split) <;> simp
  have lowB : ∃ o, VRange.numLower ⟨b.ty, rb⟩ = .ok o ∧ (b.ty = .dyn → o = none) := by
    rcases htb with h | h <;> simp [VRange.numLower, h, Ty.isDyn, Ty.isNumber] <;> (try split) <;> simp
  have upB : ∃ o, VRange.numUpper ⟨b.ty, rb⟩ = .ok o ∧ (b.ty = .dyn → o = none) := by
    rcases htb with h | h <;> simp [VRange.numUpper, h, Ty.isDyn, Ty.isNumber] <;> (try split) <;> simp
  obtain ⟨a1, ha1, da1⟩ := lowA
  obtain ⟨a2, ha2, da2⟩ := upA
  obtain ⟨b1, hb1, db1⟩ := lowB
  obtain ⟨b2, hb2, db2⟩ := upB
  unfold rangeArith rangeArithC
  simp only [hra, hrb, ha1, ha2, hb1, hb2, Res.bind_ok]
  rcases hd with h | h
  · rw [da1 h, da2 h]; rfl
  · rw [db1 h, db2 h]
    cases a1 <;> cases a2 <;> rfl

/-! ### Add / Subtract: soundness when no corner rounds -/
def numBounds (v : Value) : Option (Num × Num) :=
  match v.range with
  | .ok r =>
    (match r.numLower, r.numUpper with
     | .ok (some l), .ok (some h) => some (l, h)
     | _, _ => none)
  | _ => none

/-- a collapsed result range (`min` equal to `max` for cty) is a single value -/
def cohOK (m M : Option Num) : Bool :=
  match m, M with
  | some a, some b => !Num.rawEqual a b || Num.cmp a b == 0
  | _, _ => true

/-- the side condition of `sound_add_partial`: with `[l₁,h₁]`, `[l₂,h₂]` the numeric
ranges of the weakened operands and `x`, `y` the concrete numbers, none of
`l₁+l₂`, `h₁+h₂`, `x+y` is rounded by `big.Float.Add` (the exact sum fits the
larger operand precision), and a result range that cty collapses to a known number
is a single value -/
def CornerExactAdd (w₁ w₂ o₁ o₂ : Value) : Bool :=
  match asNum o₁, asNum o₂, numBounds w₁, numBounds w₂ with
  | .ok x, .ok y, some (l1, h1), some (l2, h2) =>
    Num.addFits l1 l2 && Num.addFits h1 h2 && Num.addFits x y &&
      cohOK (newMinOf Num.add l1 h1 l2 h2) (newMaxOf Num.add l1 h1 l2 h2)
  | _, _, _, _ => true

def CornerExactSub (w₁ w₂ o₁ o₂ : Value) : Bool :=
  match asNum o₁, asNum o₂, numBounds w₁, numBounds w₂ with
  | .ok x, .ok y, some (l1, h1), some (l2, h2) =>
    Num.addFits l1 (Num.neg h2) && Num.addFits h1 (Num.neg l2) && Num.addFits x (Num.neg y) &&
      cohOK (newMinOf Num.sub l1 h1 l2 h2) (newMaxOf Num.sub l1 h1 l2 h2)
  | _, _, _, _ => true

theorem cohOK_spec {m M : Option Num} (h : cohOK m M = true) :
    ∀ a b, m = some a → M = some b → Num.rawEqual a b = true → Num.cmp a b = 0 := by
  intro a b ha hb hr
  subst ha hb
  simpa [cohOK, hr] using h

/-- common skeleton of Add and Subtract -/
theorem arithU_sound_partial (op : Num → Num → Res Num) (opU : Value → Value → Res Value)
    (side : Value → Value → Value → Value → Bool)
    (hop : ∀ a b, opU a b = (do match ← typeCheck .number [a, b] with
                               | .none => pure (numVal (← op (← asNum a) (← asNum b)))
                               | _ => rangeArith op a b))
    (hcover : ∀ (w₁ w₂ o₁ o₂ : Value) (x y z l1 h1 l2 h2 : Num), side w₁ w₂ o₁ o₂ = true →
      asNum o₁ = .ok x → asNum o₂ = .ok y → numBounds w₁ = some (l1, h1) → numBounds w₂ = some (l2, h2) →
      Num.cmp l1 x ≤ 0 → Num.cmp x h1 ≤ 0 → Num.cmp l2 y ≤ 0 → Num.cmp y h2 ≤ 0 → op x y = .ok z →
      Covers (numRangeResult (loOf (newMinOf op l1 h1 l2 h2)) (hiOf (newMaxOf op l1 h1 l2 h2))) (numVal z) = true)
    (o₁ o₂ w₁ w₂ r : Value) (hk₁ : o₁.whollyKnown = true) (hk₂ : o₂.whollyKnown = true)
    (hmo₁ : o₁.isMarked = false) (hmo₂ : o₂.isMarked = false) (hmw₁ : w₁.isMarked = false) (hmw₂ : w₂.isMarked = false)
    (hc₁ : CoversX w₁ o₁ = true) (hc₂ : CoversX w₂ o₂ = true) (hside : side w₁ w₂ o₁ o₂ = true)
    (ho : opU o₁ o₂ = .ok r) : ∃ r', opU w₁ w₂ = .ok r' ∧ Covers r' r = true := by
  rw [hop] at ho ⊢
  obtain ⟨tco, hto, ho⟩ := Res.bind_eq_ok.mp ho
  have hg₁ : CoversG true w₁ o₁ = true := hc₁
  have hg₂ : CoversG true w₂ o₂ = true := hc₂
  obtain ⟨tcw, htw⟩ := tc2_ok_of_covers (Or.inr rfl) hg₁ hg₂ hto
  obtain ⟨wt1, wt2, wd, wn⟩ := tc2_number_inv htw
  obtain ⟨ot1, ot2, od, on⟩ := tc2_number_inv hto
  rw [htw, Res.bind_ok]
  rcases tc_cases tco with rfl | rfl | rfl
  · simp only at ho
    obtain ⟨x, hx, ho⟩ := Res.bind_eq_ok.mp ho
    obtain ⟨y, hy, ho⟩ := Res.bind_eq_ok.mp ho
    obtain ⟨z, hz, ho⟩ := Res.bind_eq_ok.mp ho
    simp only [pure, Res.ok.injEq] at ho
    subst ho
    have short : ∃ r', rangeArith op w₁ w₂ = .ok r' ∧ Covers r' (numVal z) = true := by
      rcases wt1 with t1 | t1
      · rcases wt2 with t2 | t2
        · obtain ⟨raw1, l1, h1, r1, lo1, hi1, b1, c1⟩ := range_bounds_of_covers hg₁ (asNum_inv hx) hmw₁ t1
          obtain ⟨raw2, l2, h2, r2, lo2, hi2, b2, c2⟩ := range_bounds_of_covers hg₂ (asNum_inv hy) hmw₂ t2
          have nb1 : numBounds w₁ = some (l1, h1) := by simp [numBounds, r1, lo1, hi1]
          have nb2 : numBounds w₂ = some (l2, h2) := by simp [numBounds, r2, lo2, hi2]
          exact ⟨_, rangeArith_bounds r1 r2 lo1 hi1 lo2 hi2,
            hcover w₁ w₂ o₁ o₂ x y z l1 h1 l2 h2 hside hx hy nb1 nb2 b1 c1 b2 c2 hz⟩
        · exact ⟨_, rangeArith_dyn hmw₁ hmw₂ (Or.inl t1) (Or.inr t2) (Or.inr t2), covers_unkNum_numVal z⟩
      · exact ⟨_, rangeArith_dyn hmw₁ hmw₂ (Or.inr t1) wt2 (Or.inl t1), covers_unkNum_numVal z⟩
    rcases tc_cases tcw with rfl | rfl | rfl
    · obtain ⟨_, u1, u2⟩ := tc2_none_of_covers (Or.inr rfl) hk₁ hk₂ hg₁ hg₂ htw
      have e1 := eq_of_coversX_num hc₁ (asNum_inv hx) (on (by simp)).1 (wn (by simp)).1 hmw₁ u1
      have e2 := eq_of_coversX_num hc₂ (asNum_inv hy) (on (by simp)).2 (wn (by simp)).2 hmw₂ u2
      subst e1 e2
      simp only [hx, hy, hz, Res.bind_ok, pure]
      exact ⟨_, rfl, covers_numVal_self _⟩
    · exact short
    · exact short
  · simp only at ho
    rw [rangeArith_dyn hmo₁ hmo₂ ot1 ot2 (od rfl)] at ho
    simp only [Res.ok.injEq] at ho
    subst ho
    have hd : w₁.ty = .dyn ∨ w₂.ty = .dyn := by
      rcases od rfl with h | h
      · exact Or.inl (covers_ty_dyn hg₁ h)
      · exact Or.inr (covers_ty_dyn hg₂ h)
    have hrw := rangeArith_dyn (op := op) hmw₁ hmw₂ wt1 wt2 hd
    rcases tc_cases tcw with rfl | rfl | rfl
    · rcases hd with h | h
      · rw [(wn (by simp)).1] at h; cases h
      · rw [(wn (by simp)).2] at h; cases h
    · exact ⟨_, hrw, covers_unkNum_self⟩
    · exact ⟨_, hrw, covers_unkNum_self⟩
  · exact absurd rfl (tc2_not_unknown hk₁ hk₂ hto)

theorem addU_sound_partial (o₁ o₂ w₁ w₂ r : Value) (hk₁ : o₁.whollyKnown = true) (hk₂ : o₂.whollyKnown = true)
    (hmo₁ : o₁.isMarked = false) (hmo₂ : o₂.isMarked = false) (hmw₁ : w₁.isMarked = false) (hmw₂ : w₂.isMarked = false)
    (hc₁ : CoversX w₁ o₁ = true) (hc₂ : CoversX w₂ o₂ = true) (hside : CornerExactAdd w₁ w₂ o₁ o₂ = true)
    (ho : addU o₁ o₂ = .ok r) : ∃ r', addU w₁ w₂ = .ok r' ∧ Covers r' r = true :=
  arithU_sound_partial Num.add addU CornerExactAdd (fun _ _ => rfl)
    (by
      intro w₁ w₂ o₁ o₂ x y z l1 h1 l2 h2 hs hx hy nb1 nb2 b1 c1 b2 c2 hz
      simp only [CornerExactAdd, hx, hy, nb1, nb2, Bool.and_eq_true] at hs
      exact add_range_cover b1 c1 b2 c2 hz hs.1.1.1 hs.1.1.2 hs.1.2 (cohOK_spec hs.2))
    o₁ o₂ w₁ w₂ r hk₁ hk₂ hmo₁ hmo₂ hmw₁ hmw₂ hc₁ hc₂ hside ho

theorem subU_sound_partial (o₁ o₂ w₁ w₂ r : Value) (hk₁ : o₁.whollyKnown = true) (hk₂ : o₂.whollyKnown = true)
    (hmo₁ : o₁.isMarked = false) (hmo₂ : o₂.isMarked = false) (hmw₁ : w₁.isMarked = false) (hmw₂ : w₂.isMarked = false)
    (hc₁ : CoversX w₁ o₁ = true) (hc₂ : CoversX w₂ o₂ = true) (hside : CornerExactSub w₁ w₂ o₁ o₂ = true)
    (ho : subU o₁ o₂ = .ok r) : ∃ r', subU w₁ w₂ = .ok r' ∧ Covers r' r = true :=
  arithU_sound_partial Num.sub subU CornerExactSub (fun _ _ => rfl)
    (by
      intro w₁ w₂ o₁ o₂ x y z l1 h1 l2 h2 hs hx hy nb1 nb2 b1 c1 b2 c2 hz
      simp only [CornerExactSub, hx, hy, nb1, nb2, Bool.and_eq_true] at hs
      exact sub_range_cover b1 c1 b2 c2 hz hs.1.1.1 hs.1.1.2 hs.1.2 (cohOK_spec hs.2))
    o₁ o₂ w₁ w₂ r hk₁ hk₂ hmo₁ hmo₂ hmw₁ hmw₂ hc₁ hc₂ hside ho
end CtyModel
