/-
C11 totality obligations (slice d11b) for `assertnotnull` (conversion.go `AssertNotNullFunc`), whose `Type`
callback is dynamic (the argument's type): totality and monotonicity of the type-only prediction.
-/
import CtyModel.Lemmas.d11bColl
import CtyModel.Lemmas.d11bNum
namespace CtyModel
namespace D11b
open Fn Value Stdlib
variable {nfc : String → Bool}

theorem good_assertNotNull {as : List Value} {rt : Ty} (h : ImplArgsOK nfc assertNotNullF.spec as)
    (ht : assertNotNullType as = .ok rt) : ImplGood rt (assertNotNullImpl as rt) := by
  obtain ⟨a, rfl, ha⟩ := args_inv1 h
  simp only [assertNotNullType] at ht
  cases ht
  obtain ⟨hk, hn⟩ := arg_known_nonnull ha rfl rfl
  exact implGood_known (conform_refl _ (wf_ty_wf ha.wf)) (isMarked_of_clean (ha.mark rfl)) hk hn (wf_not_bad ha.wf)
    (not_dyn_of_known_nonnull ha.wf hk hn)

theorem callTotal_assertNotNull : CallTotal nfc assertNotNullF := fun _ args hargs =>
  call_total_of_good assertNotNullF.spec assertNotNullType assertNotNullImpl rfl
    (fun as w h => by obtain ⟨a, rfl, _⟩ := args_inv1 h; simp [assertNotNullType])
    (fun _ _ h ht => good_assertNotNull h ht) args hargs

/-- the `Type` callback of `assertnotnull` looks at the argument's TYPE only: the type-only prediction is the
value-based one -/
theorem typeMono_assertNotNull : TypeMono assertNotNullType :=
  typeMono_of_eq fun as t h => by
    cases as with
    | nil => simp [assertNotNullType] at h
    | cons a rest => simpa [assertNotNullType, unkOf, Value.unknown] using h

end D11b
end CtyModel
