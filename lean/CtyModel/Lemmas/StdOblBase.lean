/-
Shared vocabulary for the per-function obligations of C11 / C12 (stdlib functions as
protocol instances): placeholders (`unkOf`), "admits" on types, and the ARGUMENT CONTRACT
the call protocol guarantees to the callbacks (what `C10.impl_args_satisfy_contract` /
`C10.type_args_satisfy_contract` establish), as predicates on the argument list a callback
is handed, plus the bridge from a protocol call to that contract.
-/
import CtyModel.Lemmas.StdProto
import CtyModel.Stdlib.Funcs
import CtyModel.WF
import CtyModel.Lemmas.WFBasic
import CtyModel.Lemmas.WFOps
namespace CtyModel
namespace Fn

/-! ### placeholders -/
@[simp] theorem unknown_ty (t : Ty) : (Value.unknown t).ty = t := rfl
@[simp] theorem unkOf_isKnown (v : Value) : (unkOf v).isKnown = false := rfl
@[simp] theorem unkOf_whollyKnown (v : Value) : (unkOf v).whollyKnown = false := rfl
@[simp] theorem unkOf_unmark (v : Value) : (unkOf v).unmark = unkOf v := rfl
@[simp] theorem unkOf_marks (v : Value) : (unkOf v).marks = [] := rfl
@[simp] theorem unkOf_unmarkDeep (v : Value) : (unkOf v).unmarkDeep = unkOf v := rfl
@[simp] theorem unkOf_isMarked (v : Value) : (unkOf v).isMarked = false := rfl
@[simp] theorem unkOf_v (v : Value) : (unkOf v).v = .unk .unref := rfl

theorem map_unkOf_ty (as : List Value) : (as.map unkOf).map (·.ty) = as.map (·.ty) := by
  simp [List.map_map, Function.comp_def]

/-! ### "admits" on type constraints, monotone `Type` callbacks (the definitions of Props/C11.lean) -/

/-- `t'` is at least as permissive a type constraint as `t` -/
def Admits (t' t : Ty) : Prop := ∀ c, Ty.conformErrs t c = 0 → Ty.conformErrs t' c = 0

def TypeMono (tf : TypeFn) : Prop :=
  ∀ as t, tf as = .ok t → ∃ t', tf (as.map unkOf) = .ok t' ∧ Admits t' t

theorem admits_refl (t : Ty) : Admits t t := fun _ h => h
theorem admits_dyn (t : Ty) : Admits .dyn t := fun c _ => by simp [Ty.conformErrs]

theorem typeMono_of_eq {tf : TypeFn} (h : ∀ as t, tf as = .ok t → tf (as.map unkOf) = .ok t) : TypeMono tf :=
  fun as t ht => ⟨t, h as t ht, admits_refl t⟩

/-- a callback that answers the placeholder type on placeholders is monotone as soon as it
does not fail on them -/
theorem typeMono_of_dyn {tf : TypeFn} (h : ∀ as t, tf as = .ok t → tf (as.map unkOf) = .ok .dyn) : TypeMono tf :=
  fun as t ht => ⟨.dyn, h as t ht, admits_dyn t⟩

end Fn

/-! ### a well-formed value has constructor-built marker layers -/
namespace Payload
variable {nfc : String → Bool}
mutual
theorem markerWF_of_wfP : ∀ (t : Ty) (p : Payload), wfP nfc t p = true → p.markerWF = true
  | t, .marked ms r, h => by
    simp only [wfP_marked, Bool.and_eq_true] at h
    simp only [markerWF, Bool.and_eq_true]
    exact ⟨⟨h.1.1, h.1.2⟩, markerWF_of_wfP t r h.2⟩
  | t, .seq vs, h => by
    cases t <;> simp [wfP] at h
    · simp only [markerWF]; exact markerWFL_of_wfAll _ vs h
    · simp only [markerWF]; exact markerWFL_of_wfZip _ vs h.1 h.2
  | t, .smap ks vs, h => by
    cases t <;> simp [wfP] at h
    · simp only [markerWF]; exact markerWFL_of_wfAll _ vs h.2
    · simp only [markerWF]; exact markerWFL_of_wfZip _ vs h.1.2 h.2
  | t, .sset ids vs, h => by
    cases t <;> simp [wfP] at h
    simp only [markerWF]; exact markerWFL_of_wfAll _ vs h.2
  | _, .null, _ | _, .unk _, _ | _, .b _, _ | _, .n _, _ | _, .s _, _ | _, .caps, _ | _, .bad _, _ => rfl
theorem markerWFL_of_wfAll : ∀ (e : Ty) (vs : List Payload), wfAll nfc e vs = true → markerWFL vs = true
  | _, [], _ => rfl
  | e, v :: vs, h => by
    simp only [wfAll, Bool.and_eq_true] at h
    simp [markerWFL, markerWF_of_wfP e v h.1, markerWFL_of_wfAll e vs h.2]
theorem markerWFL_of_wfZip : ∀ (ts : List Ty) (vs : List Payload), ts.length = vs.length →
    wfZip nfc ts vs = true → markerWFL vs = true
  | _, [], _, _ => rfl
  | [], v :: vs, hl, _ => by simp at hl
  | t :: ts, v :: vs, hl, h => by
    simp only [wfZip, Bool.and_eq_true] at h
    simp only [List.length_cons, Nat.add_right_cancel_iff] at hl
    simp [markerWFL, markerWF_of_wfP t v h.1, markerWFL_of_wfZip ts vs hl h.2]
end
end Payload

namespace Fn
variable {nfc : String → Bool}

/-! ### the argument contract, as the callbacks see it

`C10.type_args_satisfy_contract` / `C10.impl_args_satisfy_contract` say what the protocol
guarantees of the argument lists it hands to `Type` and to `Impl`; here the same, as
predicates on those lists, together with well-formedness (C06) of every argument — the
representation invariants of `cty.Value` the callbacks' own code relies on (the payload
is what the type dictates, one marker layer, no marks inside sets, …). -/

/-- pairwise, same length -/
inductive All₂ {α β : Type} (P : α → β → Prop) : List α → List β → Prop
  | nil : All₂ P [] []
  | cons {a b as bs} : P a b → All₂ P as bs → All₂ P (a :: as) (b :: bs)

theorem All₂.imp {α β : Type} {P Q : α → β → Prop} (h : ∀ a b, P a b → Q a b) :
    ∀ {as : List α} {bs : List β}, All₂ P as bs → All₂ Q as bs
  | _, _, .nil => .nil
  | _, _, .cons hp ht => .cons (h _ _ hp) (ht.imp h)

/-- argument `a` is acceptable to the `Type` callback under parameter `p` -/
structure ArgOK (nfc : String → Bool) (p : Param) (a : Value) : Prop where
  wf : a.WF nfc = true
  conf : a.ty.isDyn = false → Ty.conformErrs p.ty a.ty = 0
  null : a.isNull = true → p.allowNull = true
  dyn : a.ty.isDyn = true → p.allowDynamic = true
  mark : p.allowMarked = false → a.containsMarked = false

/-- … and to `Impl`: moreover unknown only with `AllowUnknown` -/
structure ImplArgOK (nfc : String → Bool) (p : Param) (a : Value) : Prop extends ArgOK nfc p a where
  unk : a.isKnown = false → p.allowUnknown = true

/-- the argument list `as` is one the protocol may hand to the `Type` callback of `spec` -/
def TypeArgsOK (nfc : String → Bool) (spec : Spec) (as : List Value) : Prop :=
  spec.countOK as.length = true ∧ All₂ (ArgOK nfc) (spec.expand as.length) as

/-- the argument list `as` is one the protocol may hand to the `Impl` callback of `spec` -/
def ImplArgsOK (nfc : String → Bool) (spec : Spec) (as : List Value) : Prop :=
  spec.countOK as.length = true ∧ All₂ (ImplArgOK nfc) (spec.expand as.length) as

theorem ImplArgsOK.toType {spec : Spec} {as : List Value} (h : ImplArgsOK nfc spec as) : TypeArgsOK nfc spec as :=
  ⟨h.1, h.2.imp fun _ _ hh => hh.toArgOK⟩

theorem forall₂_zipWith {P : Param → Value → Prop} {f : Param → Value → Value} :
    ∀ (ps : List Param) (vs : List Value), ps.length = vs.length →
      (∀ (i : Nat) p v, ps[i]? = some p → vs[i]? = some v → P p (f p v)) → All₂ P ps (List.zipWith f ps vs)
  | [], [], _, _ => .nil
  | [], _ :: _, h, _ => by simp at h
  | _ :: _, [], h, _ => by simp at h
  | p :: ps, v :: vs, h, hp => by
    simp only [List.zipWith_cons_cons]
    refine .cons (hp 0 p v rfl rfl) (forall₂_zipWith ps vs (by simpa using h) fun i p' v' h1 h2 => ?_)
    exact hp (i + 1) p' v' (by simpa using h1) (by simpa using h2)

theorem wf_typeArg {p : Param} {v : Value} (h : v.WF nfc = true) : (p.typeArg v).WF nfc = true := by
  unfold Param.typeArg; split
  · exact Value.wf_unmarkDeep h
  · exact h

theorem wf_callArg {p : Param} {v : Value} (h : v.WF nfc = true) : (p.callArg v).1.WF nfc = true := by
  unfold Param.callArg; split
  · split
    · exact Value.wf_unmarkDeep h
    · exact h
  · exact h

theorem markerWF_of_WF {v : Value} (h : v.WF nfc = true) : v.v.markerWF = true := by
  simp only [Value.WF, Bool.and_eq_true] at h
  exact Payload.markerWF_of_wfP _ _ h.2

/-- what the protocol hands to `Type` satisfies the contract -/
theorem typeArgsOK_of_call {spec : Spec} {args : List Value} (hwf : ∀ a ∈ args, a.WF nfc = true)
    (hc : spec.countOK args.length = true) (hap : AllPass spec args) :
    TypeArgsOK nfc spec (typeArgs spec args) := by
  have hl := typeArgs_length hc
  refine ⟨by rw [hl]; exact hc, ?_⟩
  rw [hl]
  unfold typeArgs
  refine forall₂_zipWith _ _ (Spec.expand_length hc) fun i p v hp hv => ?_
  have hvm : v ∈ args := List.mem_of_getElem? hv
  have hpf : spec.paramFor i = some p := by rw [← Spec.expand_get hc (getElem?_lt hv)]; exact hp
  obtain ⟨h1, h2, h3, h4⟩ := typeArg_contract (markerWF_of_WF (hwf v hvm)) (hap i p v hpf hv)
  exact ⟨wf_typeArg (hwf v hvm), h1, h2, h3, fun hm => (h4 hm).1⟩

/-- what the protocol hands to `Impl` satisfies the contract -/
theorem implArgsOK_of_call {spec : Spec} {args : List Value} (hwf : ∀ a ∈ args, a.WF nfc = true)
    (hc : spec.countOK args.length = true) (hap : AllPass spec args) (hnb : ¬ SomeUnknownBlocked spec args) :
    ImplArgsOK nfc spec (implArgs spec args) := by
  have hl := implArgs_length hc
  refine ⟨by rw [hl]; exact hc, ?_⟩
  rw [hl]
  unfold implArgs
  refine forall₂_zipWith _ _ (Spec.expand_length hc) fun i p v hp hv => ?_
  have hvm : v ∈ args := List.mem_of_getElem? hv
  have hpf : spec.paramFor i = some p := by rw [← Spec.expand_get hc (getElem?_lt hv)]; exact hp
  obtain ⟨h1, h2, h3, h4, h5⟩ := callArg_contract (markerWF_of_WF (hwf v hvm)) (hap i p v hpf hv)
    (blocksUnknown_of_not_some hnb hpf hv)
  exact ⟨⟨wf_callArg (hwf v hvm), h1, h2, h4, fun hm => (h5 hm).1⟩, h3⟩

/-- `C10.go_panic_iff` (restated here: lemma files cannot import `Props/`) -/
theorem go_panic_iff' (spec : Spec) (tf : TypeFn) (impl : ImplFn) (args : List Value) :
    (∃ why, (call spec tf impl args).1 = .panic why) ↔
      ∃ rf pre, spec.refine = some rf ∧ (callUnrefined spec tf impl args).1 = .ok pre ∧ typed pre = true ∧
        rf pre.unmark = none := by
  rw [call_eq_finish]
  obtain ⟨k, hk⟩ := callUnrefined_case spec tf impl args
  have hnp := hk.no_panic
  generalize callUnrefined spec tf impl args = o at hnp
  obtain ⟨r, tr⟩ := o
  cases r with
  | err e => simp [finish_err]
  | unmodelled => simp [finish_unmodelled]
  | panic w => exact absurd rfl (hnp w)
  | ok u =>
    rw [finish_ok]
    cases hr : spec.refine with
    | none => simp
    | some rf =>
      by_cases ht : typed u = true
      · rcases refineWith_cases rf u with ⟨hn, e⟩ | ⟨p, hp, e⟩
        · simp [ht, e, hn]
        · simp [ht, e, hp]
      · simp [ht]

/-- **Totality from obligations** (stated in Props/C11.lean as `C11.call_total_of_obligations`). -/
theorem call_total_of_obligations (nfc : String → Bool) (spec : Spec) (tf : TypeFn) (impl : ImplFn)
    (htf : ∀ as w, TypeArgsOK nfc spec as → tf as ≠ .panic w)
    (himpl : ∀ as rt w, ImplArgsOK nfc spec as → tf as = .ok rt → impl as rt ≠ .panic w)
    (hconf : ∀ as rt v, ImplArgsOK nfc spec as → tf as = .ok rt → impl as rt = .ok v →
      Ty.conformErrs rt v.ty = 0)
    (href : ∀ rf, spec.refine = some rf →
      (∀ as rt v, ImplArgsOK nfc spec as → tf as = .ok rt → impl as rt = .ok v → rf v.unmark ≠ none) ∧
      (∀ as rt, TypeArgsOK nfc spec as → tf as = .ok rt → rt.isDyn = false → rf (Value.unknown rt) ≠ none))
    (args : List Value) (hargs : ∀ a ∈ args, a.WF nfc = true) :
    (∀ w, (call spec tf impl args).1 ≠ .panic w) ∧
    (∀ w, (call spec tf impl args).1 ≠ .err (.panicError w)) := by
  have hmw : ∀ v ∈ args, v.v.markerWF = true := fun v hv => markerWF_of_WF (hargs v hv)
  have hti := typeArgs_eq_implArgs spec args hmw
  obtain ⟨k, o, ho, hk⟩ := callUnrefined_case' spec tf impl args
  constructor
  · intro w hw
    obtain ⟨rf, pre, hr, hpre, hty, hn⟩ := (go_panic_iff' spec tf impl args).mp ⟨w, hw⟩
    obtain ⟨h1, h2⟩ := href rf hr
    rw [ho] at hpre
    cases hk with
    | dynShort k' u hc hat hwu =>
      simp only [Out.ok.injEq] at hpre; subst hpre
      rw [not_typed_of_unknown_dyn hwu] at hty; cases hty
    | unkShort rt u hc hap ht hb hwu =>
      simp only [Out.ok.injEq] at hpre; subst hpre
      obtain ⟨a, b, c, _⟩ := withUnhandled_unknown hwu
      rw [b] at hn
      refine h2 _ rt (typeArgsOK_of_call hargs hc hap) ht ?_ hn
      unfold typed at hty
      rw [c, a] at hty
      simpa using hty
    | value rt v u hc hap ht hnb hi hcf hwu =>
      simp only [Out.ok.injEq] at hpre; subst hpre
      rw [hwu.2.1] at hn
      exact h1 _ rt v (implArgsOK_of_call hargs hc hap hnb) (hti ▸ ht) hi hn
    | _ => simp at hpre
  · intro w
    rw [call_eq_finish, Ne, finish_err_iff, ho]
    cases hk with
    | typePanic w' hc hap h => exact absurd h (htf _ w' (typeArgsOK_of_call hargs hc hap))
    | implPanic rt w' hc hap ht hnb h =>
      exact absurd h (himpl _ rt w' (implArgsOK_of_call hargs hc hap hnb) (hti ▸ ht))
    | nonconforming rt v w' hc hap ht hnb hi hn =>
      exact absurd (hconf _ rt v (implArgsOK_of_call hargs hc hap hnb) (hti ▸ ht) hi) hn
    | _ => simp

end Fn

end CtyModel
