/-
Shared vocabulary for the per-function obligations of C11 / C12 (stdlib functions as
protocol instances): placeholders (`unkOf`), "admits" on types, and the ARGUMENT CONTRACT
the call protocol guarantees to the callbacks (what `C10.impl_args_satisfy_contract` /
`C10.type_args_satisfy_contract` establish), as predicates on the argument list a callback
is handed, plus the bridge from a protocol call to that contract.
-/
import CtyModel.Lemmas.StdProto
import CtyModel.Stdlib.Funcs
import CtyModel.WF
namespace CtyModel
namespace Fn

/-! ### placeholders -/
@[simp] theorem unknown_ty (t : Ty) : (Value.unknown t).ty = t := rfl
@[simp] theorem unkOf_isKnown (v : Value) : (unkOf v).isKnown = false := rfl
@[simp] theorem unkOf_whollyKnown (v : Value) : (unkOf v).whollyKnown = false := rfl
@[simp] theorem unkOf_unmark (v : Value) : (unkOf v).unmark = unkOf v := rfl
@[simp] theorem unkOf_marks (v : Value) : (unkOf v).marks = [] := rfl
@[simp] theorem unkOf_unmarkDeep (v : Value) : (unkOf v).unmarkDeep = unkOf v := rfl
@[simp] theorem unkOf_isMarked (v : Value) : (unkOf v).isMarked = false := rfl
@[simp] theorem unkOf_v (v : Value) : (unkOf v).v = .unk .unref := rfl

theorem map_unkOf_ty (as : List Value) : (as.map unkOf).map (·.ty) = as.map (·.ty) := by
  simp [List.map_map, Function.comp_def]

/-! ### "admits" on type constraints, monotone `Type` callbacks (the definitions of Props/C11.lean) -/

/-- `t'` is at least as permissive a type constraint as `t` -/
def Admits (t' t : Ty) : Prop := ∀ c, Ty.conformErrs t c = 0 → Ty.conformErrs t' c = 0

def TypeMono (tf : TypeFn) : Prop :=
  ∀ as t, tf as = .ok t → ∃ t', tf (as.map unkOf) = .ok t' ∧ Admits t' t

theorem admits_refl (t : Ty) : Admits t t := fun _ h => h
theorem admits_dyn (t : Ty) : Admits .dyn t := fun c _ => by simp [Ty.conformErrs]

theorem typeMono_of_eq {tf : TypeFn} (h : ∀ as t, tf as = .ok t → tf (as.map unkOf) = .ok t) : TypeMono tf :=
  fun as t ht => ⟨t, h as t ht, admits_refl t⟩

/-- a callback that answers the placeholder type on placeholders is monotone as soon as it
does not fail on them -/
theorem typeMono_of_dyn {tf : TypeFn} (h : ∀ as t, tf as = .ok t → tf (as.map unkOf) = .ok .dyn) : TypeMono tf :=
  fun as t ht => ⟨.dyn, h as t ht, admits_dyn t⟩

end Fn
end CtyModel
