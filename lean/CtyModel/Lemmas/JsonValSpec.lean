/-
C15 — the hypothesis list of the round-trip property as one decidable predicate (the
other specification predicates live in `CtyModel/JsonValSpec.lean`, which the driver links).
-/
import CtyModel.JsonValSpec
import CtyModel.Lemmas.TyJsonRT
namespace CtyModel
namespace JsonVal

/-- the hypotheses of the property, as one decidable predicate: well-formed, wholly
known, unmarked, capsule-free, conforming, `NumOK` -/
def rtHyps (env : JEnv) (v : Value) (t : Ty) : Bool :=
  Ty.wf t && Ty.wf v.ty && !Ty.hasOpt v.ty && wfP v.ty v.v &&
  strsFixed env.norm v.v && Ty.namesFixed env.norm v.ty &&
  v.v.whollyKnown && !v.v.containsMarked && !Ty.hasCapsule v.ty &&
  Ty.matches t v.ty && numsOK v.v


end JsonVal
end CtyModel
