/-
C15 — specification vocabulary for the JSON round trip, written independently of the
Go control flow: which payload a type dictates, "same value" (`RawEquals` on set-free
known values), which numbers survive their own decimal text, where a constraint lets a
null or an empty collection keep its type, and the round-trip check itself.
All predicates are `Bool` functions, so concrete instances are decided by `decide`.
-/
import CtyModel.JsonVal
import CtyModel.Lemmas.TyJsonRT
namespace CtyModel
namespace JsonVal

/-! ### well-formedness: the payload constructor is the one the type dictates
(an unknown may stand anywhere, a marker wraps a payload of the same type) -/
mutual
def wfP : Ty → Payload → Bool
  | _, .null => true
  | _, .unk _ => true
  | t, .marked _ r => wfP t r
  | .bool, .b _ => true
  | .number, .n _ => true
  | .string, .s _ => true
  | .list e, .seq vs => wfAll e vs
  | .set e, .sset ids vs => ids.length == vs.length && wfAll e vs
  | .map e, .smap ks vs => ks.length == vs.length && Ty.strictAsc ks && wfAll e vs
  | .tuple es, .seq vs => es.length == vs.length && wfZip es vs
  | .object ns ts _, .smap ks vs => ks == ns && ts.length == vs.length && wfZip ts vs
  | _, _ => false
def wfAll : Ty → List Payload → Bool
  | _, [] => true
  | e, v :: vs => wfP e v && wfAll e vs
def wfZip : List Ty → List Payload → Bool
  | t :: ts, v :: vs => wfP t v && wfZip ts vs
  | _, _ => true
end

/-! no set type anywhere -/
mutual
def setFree : Ty → Bool
  | .set _ => false
  | .list e | .map e => setFree e
  | .tuple es => setFreeL es
  | .object _ ts _ => setFreeL ts
  | _ => true
def setFreeL : List Ty → Bool
  | [] => true
  | t :: ts => setFree t && setFreeL ts
end

/-- `NumOK` for one number: finite, and `Text('f', -1)` re-parsed at 512 bits is a number
`rawNumberEqual` to it.  (The text is the shortest that identifies the number at its OWN
precision, the parse is at 512 bits: a float64 such as 1e23 fails.) -/
def numOK (n : Num) : Bool :=
  !n.isInf &&
    match Num.parse512 (Num.textF n) with
    | .ok n' => Num.rawEqual n' n
    | _ => false

mutual
def numsOK : Payload → Bool
  | .n x => numOK x
  | .marked _ r => numsOK r
  | .seq vs | .smap _ vs | .sset _ vs => numsOKL vs
  | _ => true
def numsOKL : List Payload → Bool
  | [] => true
  | v :: vs => numsOK v && numsOKL vs
end

/-! an infinite number occurs somewhere -/
mutual
def hasInf : Payload → Bool
  | .n x => x.isInf
  | .marked _ r => hasInf r
  | .seq vs | .smap _ vs | .sset _ vs => hasInfL vs
  | _ => false
def hasInfL : List Payload → Bool
  | [] => false
  | v :: vs => hasInf v || hasInfL vs
end

/-! every string value and map key is a fixed point of `norm` (what `cty.StringVal` /
`cty.MapVal` establish; part of well-formedness, an oracle column in the harness) -/
mutual
def strsFixed (norm : String → String) : Payload → Bool
  | .s x => norm x == x
  | .marked _ r => strsFixed norm r
  | .seq vs | .sset _ vs => strsFixedL norm vs
  | .smap ks vs => ks.all (fun k => norm k == k) && strsFixedL norm vs
  | _ => true
def strsFixedL (norm : String → String) : List Payload → Bool
  | [] => true
  | v :: vs => strsFixed norm v && strsFixedL norm vs
end

/-! ### where the constraint keeps the type of a null / an empty collection

`null` and `[]`/`{}` carry no type information in JSON.  Against the placeholder itself
the encoder writes the type next to the value; against a constraint that only CONTAINS
the placeholder it does not.  `exactK t vt p`: every null and every empty list/set/map
inside `p` sits at a constraint position that is the placeholder or equals its type. -/
mutual
def exactK (t vt : Ty) : Payload → Bool
  | .null => Ty.equals t vt
  | .seq vs =>
    match t, vt with
    | .list e, .list ve => if vs.isEmpty then Ty.equals e ve else exactAll e ve vs
    | .tuple es, .tuple ves => exactZip es ves vs
    | _, _ => false
  | .smap _ vs =>
    match t, vt with
    | .map e, .map ve => if vs.isEmpty then Ty.equals e ve else exactAll e ve vs
    | .object _ ts _, .object _ vts _ => exactZip ts vts vs
    | _, _ => false
  | .sset _ vs =>
    match t, vt with
    | .set e, .set ve => if vs.isEmpty then Ty.equals e ve else exactAll e ve vs
    | _, _ => false
  | _ => true
def exactAll (e ve : Ty) : List Payload → Bool
  | [] => true
  | v :: vs => (if e.isDyn then exactK ve ve v else exactK e ve v) && exactAll e ve vs
def exactZip : List Ty → List Ty → List Payload → Bool
  | e :: es, ve :: ves, v :: vs => (if e.isDyn then exactK ve ve v else exactK e ve v) && exactZip es ves vs
  | _, _, _ => true
end

def exact (t vt : Ty) (p : Payload) : Bool := if t.isDyn then exactK vt vt p else exactK t vt p

/-! ### "equal value": structural, numbers by `rawNumberEqual` (`RawEquals` away from sets) -/
mutual
def sameP : Payload → Payload → Bool
  | .null, .null => true
  | .b x, .b y => x == y
  | .s x, .s y => x == y
  | .n x, .n y => Num.rawEqual x y
  | .seq xs, .seq ys => sameL xs ys
  | .smap k1 xs, .smap k2 ys => k1 == k2 && sameL xs ys
  | .sset i1 xs, .sset i2 ys => i1 == i2 && sameL xs ys
  | _, _ => false
def sameL : List Payload → List Payload → Bool
  | [], [] => true
  | x :: xs, y :: ys => sameP x y && sameL xs ys
  | _, _ => false
end

/-- the round-trip check: Marshal succeeds, Unmarshal of its output with the same
constraint succeeds, the result has an `Equals` type and the same payload -/
def rtCheck (env : JEnv) (top : Bool) (v : Value) (t : Ty) : Bool :=
  match marshal env v t with
  | .ok j =>
    match unmarshal env top j t with
    | .ok v' => Ty.equals v'.ty v.ty && sameP v'.v v.v
    | _ => false
  | _ => false

/-- the hypotheses of the property, as one decidable predicate: well-formed, wholly
known, unmarked, capsule-free, conforming, `NumOK` -/
def rtHyps (env : JEnv) (v : Value) (t : Ty) : Bool :=
  Ty.wf t && Ty.wf v.ty && !Ty.hasOpt v.ty && wfP v.ty v.v &&
  strsFixed env.norm v.v && Ty.namesFixed env.norm v.ty &&
  v.v.whollyKnown && !v.v.containsMarked && !Ty.hasCapsule v.ty &&
  Ty.matches t v.ty && numsOK v.v

end JsonVal
end CtyModel
