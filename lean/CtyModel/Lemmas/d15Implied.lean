/-
C15 (d15) — `impliedTypeD` (type_implied.go with its depth counter, /repo 0c63e6a) against
`impliedType` (the same recursion without the counter): they agree exactly on documents whose
arrays and objects are nested at most `lim` deep (counted from the current depth), and a
deeper document is never answered with a type.
-/
import CtyModel.JsonD15
import CtyModel.Lemmas.JsonValDoc
namespace CtyModel
namespace JsonVal
open Ty

theorem errOf_ne_ok_d15 {α β} {r : Res α} (h : ∀ a, r ≠ .ok a) : ∀ b, (errOf r : Res β) ≠ .ok b := by
  intro b
  cases r <;> simp [errOf]

mutual
theorem impliedTypeD_eq (env : JEnv) (lim : Nat) : ∀ (j : Json) (d : Nat), nest j + d ≤ lim →
    impliedTypeD env lim j d = impliedType env j
  | .null, _, _ => by simp [impliedTypeD, impliedType]
  | .bool _, _, _ => by simp [impliedTypeD, impliedType]
  | .num _, _, _ => by simp [impliedTypeD, impliedType]
  | .str _, _, _ => by simp [impliedTypeD, impliedType]
  | .arr xs, d, h => by
    simp only [nest] at h
    have hd : ¬ d ≥ lim := by omega
    simp only [impliedTypeD, impliedType, hd, if_false]
    rw [impliedAllD_eq env lim xs (d + 1) (by omega)]
  | .obj ks vs, d, h => by
    simp only [nest] at h
    have hd : ¬ d ≥ lim := by omega
    simp only [impliedTypeD, impliedType, hd, if_false]
    rw [impliedMembersD_eq env lim ks vs [] [] (d + 1) (by omega)]
    cases impliedMembers env ks vs [] [] with
    | ok p => obtain ⟨aK, aT⟩ := p; rfl
    | _ => rfl
theorem impliedAllD_eq (env : JEnv) (lim : Nat) : ∀ (xs : List Json) (d : Nat), nestL xs + d ≤ lim →
    impliedAllD env lim xs d = impliedAll env xs
  | [], _, _ => by simp [impliedAllD, impliedAll]
  | x :: xs, d, h => by
    simp only [nestL] at h
    simp only [impliedAllD, impliedAll, impliedTypeD_eq env lim x d (by omega),
      impliedAllD_eq env lim xs d (by omega)]
    cases impliedType env x <;> first | rfl | (cases impliedAll env xs <;> rfl)
theorem impliedMembersD_eq (env : JEnv) (lim : Nat) : ∀ (ks : List String) (vs : List Json) (aK : List String)
    (aT : List Ty) (d : Nat), nestM ks vs + d ≤ lim →
    impliedMembersD env lim ks vs aK aT d = impliedMembers env ks vs aK aT
  | [], _, _, _, _, _ => by simp [impliedMembersD, impliedMembers]
  | _ :: _, [], _, _, _, _ => by simp [impliedMembersD, impliedMembers]
  | k :: ks, v :: vs, aK, aT, d, h => by
    simp only [nestM] at h
    simp only [impliedMembersD, impliedMembers, impliedTypeD_eq env lim v d (by omega)]
    cases impliedType env v with
    | ok aty =>
      simp only []
      cases lookupTy k aK aT with
      | some ex =>
        simp only []
        split
        · rfl
        · exact impliedMembersD_eq env lim ks vs _ _ d (by omega)
      | none => exact impliedMembersD_eq env lim ks vs _ _ d (by omega)
    | _ => rfl
end

mutual
theorem impliedTypeD_deep (env : JEnv) (lim : Nat) : ∀ (j : Json) (d : Nat), d ≤ lim → nest j + d > lim →
    ∀ t, impliedTypeD env lim j d ≠ .ok t
  | .null, _, hl, h => by simp [nest] at h; omega
  | .bool _, _, hl, h => by simp [nest] at h; omega
  | .num _, _, hl, h => by simp [nest] at h; omega
  | .str _, _, hl, h => by simp [nest] at h; omega
  | .arr xs, d, hl, h => by
    intro t
    simp only [nest] at h
    simp only [impliedTypeD]
    split
    · simp
    · rename_i hd
      have := impliedAllD_deep env lim xs (d + 1) (by omega) (by omega)
      cases hr : impliedAllD env lim xs (d + 1) with
      | ok ts => exact absurd hr (this ts)
      | _ => simp [Res.map]
  | .obj ks vs, d, hl, h => by
    intro t
    simp only [nest] at h
    simp only [impliedTypeD]
    split
    · simp
    · rename_i hd
      have := impliedMembersD_deep env lim ks vs [] [] (d + 1) (by omega) (by omega)
      split
      · rename_i aK aT hr
        exact absurd hr (this (aK, aT))
      · exact errOf_ne_ok_d15 this t
theorem impliedAllD_deep (env : JEnv) (lim : Nat) : ∀ (xs : List Json) (d : Nat), d ≤ lim → nestL xs + d > lim →
    ∀ ts, impliedAllD env lim xs d ≠ .ok ts
  | [], _, hl, h => by simp [nestL] at h; omega
  | x :: xs, d, hl, h => by
    intro ts
    simp only [nestL] at h
    simp only [impliedAllD]
    split
    · rename_i t ht
      have hx : ¬ nest x + d > lim := fun hgt => impliedTypeD_deep env lim x d hl hgt t ht
      have := impliedAllD_deep env lim xs d hl (by omega)
      split
      · rename_i ts' hts'
        exact absurd hts' (this ts')
      · rename_i r hr
        intro e
        exact this ts e
    · rename_i r hr
      exact errOf_ne_ok_d15 (fun a e => hr a e) ts
theorem impliedMembersD_deep (env : JEnv) (lim : Nat) : ∀ (ks : List String) (vs : List Json) (aK : List String)
    (aT : List Ty) (d : Nat), d ≤ lim → nestM ks vs + d > lim → ∀ r, impliedMembersD env lim ks vs aK aT d ≠ .ok r
  | [], _, _, _, _, hl, h => by simp [nestM] at h; omega
  | _ :: _, [], _, _, _, hl, h => by simp [nestM] at h; omega
  | k :: ks, v :: vs, aK, aT, d, hl, h => by
    intro r
    simp only [nestM] at h
    simp only [impliedMembersD]
    split
    · rename_i t ht
      have hx : ¬ nest v + d > lim := fun hgt => impliedTypeD_deep env lim v d hl hgt t ht
      split
      · split
        · simp
        · exact impliedMembersD_deep env lim ks vs _ _ d hl (by omega) r
      · exact impliedMembersD_deep env lim ks vs _ _ d hl (by omega) r
    · rename_i r' hr
      exact errOf_ne_ok_d15 (fun a e => hr a e) r
end

/-- `n` arrays inside each other around `null` -/
def nestArr : Nat → Json
  | 0 => .null
  | n + 1 => .arr [nestArr n]

theorem nest_nestArr : ∀ n, nest (nestArr n) = n
  | 0 => by simp [nestArr, nest]
  | n + 1 => by simp [nestArr, nest, nestL, nest_nestArr n]

theorem docOK_nestArr (env : JEnv) : ∀ n, docOK env (nestArr n) = true
  | 0 => by simp [nestArr, docOK]
  | n + 1 => by simp [nestArr, docOK, docOKL, docOK_nestArr env n]

theorem docValid_nestArr (env : JEnv) : ∀ n, docValid env (nestArr n) = true
  | 0 => by simp [nestArr, docValid]
  | n + 1 => by simp [nestArr, docValid, docValidL, docValid_nestArr env n]

end JsonVal
end CtyModel
