/-
Path application along the members of a value: one step applied to a (possibly
additionally marked) container yields the member with the container's marks
added; hence the path of a position leads back to the member at that position
(`apply_pathAt`).
-/
import CtyModel.Lemmas.WalkShape
import CtyModel.Lemmas.NumRound
namespace CtyModel
namespace Walk
open Value

/-! ### mark sets -/

theorem mem_insertMark (x m : String) : ∀ (l : List String), x ∈ insertMark m l ↔ x = m ∨ x ∈ l
  | [] => by simp [insertMark]
  | y :: ys => by
    simp only [insertMark]
    split
    · simp
    · split
      · rename_i h; subst h; simp
      · simp only [List.mem_cons, mem_insertMark x m ys]
        constructor
        · rintro (h | h | h)
          · exact Or.inr (Or.inl h)
          · exact Or.inl h
          · exact Or.inr (Or.inr h)
        · rintro (h | h | h)
          · exact Or.inr (Or.inl h)
          · exact Or.inl h
          · exact Or.inr (Or.inr h)

theorem mem_unionMarks (x : String) (a b : List String) : x ∈ unionMarks a b ↔ x ∈ a ∨ x ∈ b := by
  induction a with
  | nil => simp [unionMarks]
  | cons y ys ih =>
    simp only [unionMarks, List.foldr_cons] at ih ⊢
    rw [mem_insertMark, ih]
    simp only [List.mem_cons]
    constructor
    · rintro (h | h | h)
      · exact Or.inl (Or.inl h)
      · exact Or.inl (Or.inr h)
      · exact Or.inr h
    · rintro ((h | h) | h)
      · exact Or.inl h
      · exact Or.inr (Or.inl h)
      · exact Or.inr (Or.inr h)

/-- `a` is the value `c` carrying, besides its own, the marks `M` (as a set) -/
structure Extra (c a : Value) (M : List String) : Prop where
  ty : a.ty = c.ty
  raw : a.v.unmark1 = c.v.unmark1
  marks : ∀ m, m ∈ a.marks ↔ m ∈ c.marks ∨ m ∈ M

theorem Extra.rfl' (c : Value) : Extra c c [] := ⟨rfl, rfl, by simp⟩

theorem marks1_withMarks (p : Payload) (ms : List String) (m : String) :
    m ∈ (p.withMarks ms).marks1 ↔ m ∈ p.marks1 ∨ m ∈ ms := by
  simp only [Payload.withMarks]
  split
  · rename_i h
    have hnil : unionMarks p.marks1 ms = [] := by simpa using h
    have : ∀ x, ¬ (x ∈ p.marks1 ∨ x ∈ ms) := by
      intro x hx
      have := (mem_unionMarks x p.marks1 ms).mpr hx
      rw [hnil] at this; cases this
    constructor
    · intro h1; exact Or.inl h1
    · intro h1; exact absurd h1 (this m)
  · simp [Payload.marks1, mem_unionMarks]

theorem unmark1_withMarks (p : Payload) (ms : List String) :
    (p.withMarks ms).unmark1 = p.unmark1 := by
  simp only [Payload.withMarks]
  split <;> rfl

theorem extra_withMarks (c : Value) (L : List String) : Extra c (c.withMarks L) L :=
  ⟨rfl, unmark1_withMarks _ _, fun m => marks1_withMarks _ _ m⟩

theorem Extra.step {w a c r' : Value} {M : List String} (h : Extra w a M) (h' : Extra c r' a.marks) :
    Extra c r' (w.marks ++ M) :=
  ⟨h'.ty, h'.raw, fun m => by rw [h'.marks, h.marks, List.mem_append]⟩

theorem Extra.unmark_eq {c a : Value} {M : List String} (h : Extra c a M) : a.unmark = c.unmark := by
  simp only [Value.unmark, h.ty, h.raw]

theorem Extra.isNull_eq {c a : Value} {M : List String} (h : Extra c a M) : a.isNull = c.isNull := by
  simp only [Value.isNull, Payload.isNull, h.raw]

theorem Extra.isKnown_eq {c a : Value} {M : List String} (h : Extra c a M) : a.isKnown = c.isKnown := by
  simp only [Value.isKnown, Payload.isKnown, h.raw]

theorem unmark_of_not_marked (a : Value) (h : a.isMarked = false) : a.unmark = a := by
  obtain ⟨t, p⟩ := a
  cases p <;> simp_all [Value.unmark, Payload.unmark1, Value.isMarked, Payload.isMarked]

theorem marks_of_not_marked (a : Value) (h : a.isMarked = false) : a.marks = [] := by
  obtain ⟨t, p⟩ := a
  cases p <;> simp_all [Value.marks, Payload.marks1, Value.isMarked, Payload.isMarked]

/-- an operation wrapped in the mark prologue, applied with an unmarked key -/
theorem binMarks_extra (f : Value → Value → Res Value) (a k r : Value) (hk : k.isMarked = false)
    (h : f a.unmark k = .ok r) : ∃ r', binMarks f a k = .ok r' ∧ Extra r r' a.marks := by
  simp only [binMarks]
  by_cases ha : a.isMarked = true
  · simp only [ha, Bool.true_or, if_true, unmark_of_not_marked k hk, h, Res.map]
    refine ⟨_, rfl, ?_⟩
    have := extra_withMarks r (unionMarks a.marks k.marks)
    refine ⟨this.ty, this.raw, fun m => ?_⟩
    rw [this.marks, mem_unionMarks, marks_of_not_marked k hk]
    simp
  · have ha' : a.isMarked = false := by simpa using ha
    rw [unmark_of_not_marked a ha'] at h
    simp only [ha', hk, Bool.or_self, Bool.false_eq_true, if_false, h]
    refine ⟨r, rfl, rfl, rfl, fun m => ?_⟩
    simp [marks_of_not_marked a ha']

theorem getAttr_extra (a r : Value) (name : String) (h : getAttrU a.unmark name = .ok r) :
    ∃ r', Value.getAttr a name = .ok r' ∧ Extra r r' a.marks := by
  simp only [Value.getAttr]
  by_cases ha : a.isMarked = true
  · simp only [ha, if_true, h, Res.map]
    exact ⟨_, rfl, extra_withMarks r a.marks⟩
  · have ha' : a.isMarked = false := by simpa using ha
    rw [unmark_of_not_marked a ha'] at h
    simp only [ha', Bool.false_eq_true, if_false, h]
    refine ⟨r, rfl, rfl, rfl, fun m => ?_⟩
    simp [marks_of_not_marked a ha']

/-! ### the members by index -/

theorem seqKids_get (e : Ty) : ∀ (vs : List Payload) (i j : Nat) (sc : PathStep × Value),
    (seqKids e i vs)[j]? = some sc →
      ∃ p, vs[j]? = some p ∧ sc = (.index (intVal ((i + j : Nat) : Int)), ⟨e, p⟩)
  | [], _, _, _, h => by simp [seqKids] at h
  | v :: vs, i, 0, sc, h => by
    simp only [seqKids, List.getElem?_cons_zero, Option.some.injEq] at h
    exact ⟨v, rfl, by simp [← h]⟩
  | v :: vs, i, j + 1, sc, h => by
    simp only [seqKids, List.getElem?_cons_succ] at h
    obtain ⟨p, hp, hsc⟩ := seqKids_get e vs (i + 1) j sc h
    refine ⟨p, by simpa using hp, ?_⟩
    rw [hsc, show i + 1 + j = i + (j + 1) by omega]

theorem tupKids_get : ∀ (ts : List Ty) (vs : List Payload) (i j : Nat) (sc : PathStep × Value),
    (tupKids i ts vs)[j]? = some sc →
      ∃ t p, ts[j]? = some t ∧ vs[j]? = some p ∧ sc = (.index (intVal ((i + j : Nat) : Int)), ⟨t, p⟩)
  | [], _, _, _, _, h => by simp [tupKids] at h
  | _ :: _, [], _, _, _, h => by simp [tupKids] at h
  | t :: ts, v :: vs, i, 0, sc, h => by
    simp only [tupKids, List.getElem?_cons_zero, Option.some.injEq] at h
    exact ⟨t, v, rfl, rfl, by simp [← h]⟩
  | t :: ts, v :: vs, i, j + 1, sc, h => by
    simp only [tupKids, List.getElem?_cons_succ] at h
    obtain ⟨t', p, ht, hp, hsc⟩ := tupKids_get ts vs (i + 1) j sc h
    refine ⟨t', p, by simpa using ht, by simpa using hp, ?_⟩
    rw [hsc, show i + 1 + j = i + (j + 1) by omega]

theorem mapKids_get (e : Ty) : ∀ (ks : List String) (vs : List Payload) (j : Nat) (sc : PathStep × Value),
    (mapKids e ks vs)[j]? = some sc →
      ∃ k p, ks[j]? = some k ∧ vs[j]? = some p ∧ sc = (.index (strVal k), ⟨e, p⟩)
  | [], _, _, _, h => by simp [mapKids] at h
  | _ :: _, [], _, _, h => by simp [mapKids] at h
  | k :: ks, v :: vs, 0, sc, h => by
    simp only [mapKids, List.getElem?_cons_zero, Option.some.injEq] at h
    exact ⟨k, v, rfl, rfl, h.symm⟩
  | k :: ks, v :: vs, j + 1, sc, h => by
    simp only [mapKids, List.getElem?_cons_succ] at h
    obtain ⟨k', p, hk, hp, hsc⟩ := mapKids_get e ks vs j sc h
    exact ⟨k', p, by simpa using hk, by simpa using hp, hsc⟩

theorem objKids_get : ∀ (ns : List String) (ts : List Ty) (vs : List Payload) (j : Nat)
    (sc : PathStep × Value), (objKids ns ts vs)[j]? = some sc →
      ∃ n t p, ns[j]? = some n ∧ ts[j]? = some t ∧ vs[j]? = some p ∧ sc = (.getAttr n, ⟨t, p⟩)
  | [], _, _, _, _, h => by simp [objKids] at h
  | _ :: _, [], _, _, _, h => by simp [objKids] at h
  | _ :: _, _ :: _, [], _, _, h => by simp [objKids] at h
  | n :: ns, t :: ts, v :: vs, 0, sc, h => by
    simp only [objKids, List.getElem?_cons_zero, Option.some.injEq] at h
    exact ⟨n, t, v, rfl, rfl, rfl, h.symm⟩
  | n :: ns, t :: ts, v :: vs, j + 1, sc, h => by
    simp only [objKids, List.getElem?_cons_succ] at h
    obtain ⟨n', t', p, hn, ht, hp, hsc⟩ := objKids_get ns ts vs j sc h
    exact ⟨n', t', p, by simpa using hn, by simpa using ht, by simpa using hp, hsc⟩

/-! ### lookups in parallel lists with distinct keys -/

theorem lookupKey_get : ∀ (ks : List String) (vs : List Payload) (j : Nat) (k : String) (p : Payload),
    ks.Nodup → ks[j]? = some k → vs[j]? = some p → lookupKey k ks vs = some p
  | [], _, _, _, _, _, h, _ => by simp at h
  | _ :: _, [], _, _, _, _, _, h => by simp at h
  | k' :: ks, v :: vs, 0, k, p, _, hk, hp => by
    simp only [List.getElem?_cons_zero, Option.some.injEq] at hk hp
    simp [lookupKey, hk, hp]
  | k' :: ks, v :: vs, j + 1, k, p, hnd, hk, hp => by
    simp only [List.getElem?_cons_succ] at hk hp
    have ⟨hnot, hnd'⟩ := List.nodup_cons.mp hnd
    have hne : k' ≠ k := by
      intro h; subst h; exact hnot (List.mem_of_getElem? hk)
    simp only [lookupKey, hne, if_false]
    exact lookupKey_get ks vs j k p hnd' hk hp

theorem find_get : ∀ (ns : List String) (ts : List Ty) (os : List Bool) (j : Nat) (n : String) (t : Ty),
    ns.Nodup → os.length = ts.length → ns[j]? = some n → ts[j]? = some t →
      ∃ o, Ty.find n ns ts os = some (t, o)
  | [], _, _, _, _, _, _, _, h, _ => by simp at h
  | _ :: _, [], _, _, _, _, _, _, _, h => by simp at h
  | _ :: _, _ :: _, [], _, _, _, _, h, _, _ => by simp at h
  | n' :: ns, t' :: ts, o' :: os, 0, n, t, _, _, hn, ht => by
    simp only [List.getElem?_cons_zero, Option.some.injEq] at hn ht
    exact ⟨o', by simp [Ty.find, hn, ht]⟩
  | n' :: ns, t' :: ts, o' :: os, j + 1, n, t, hnd, hlen, hn, ht => by
    simp only [List.getElem?_cons_succ] at hn ht
    have ⟨hnot, hnd'⟩ := List.nodup_cons.mp hnd
    have hne : n' ≠ n := by
      intro h; subst h; exact hnot (List.mem_of_getElem? hn)
    simp only [Ty.find, hne, if_false]
    exact find_get ns ts os j n t hnd' (by simpa using hlen) hn ht

/-! ### the operation methods on an unmarked container, at a member's key -/

theorem keyIndex_intVal (i : Nat) (hi : (i : Int) ≤ maxInt) : keyIndex (intVal i) = .ok (some i) := by
  simp only [keyIndex, intVal, numVal, Num.toInt?, Num.ofInt, Num.mk]
  have hneg : decide ((i : Int) < 0) = false := by simp
  rw [hneg]
  by_cases h0 : i = 0
  · subst h0; simp [Num.norm, Num.normFuel, Num.isInt, Num.truncInt, maxInt]
  · have hv := Num.norm_val (Int.natAbs i) 0 (by omega)
    have hexp : 0 ≤ (Num.norm (Int.natAbs i) 0).2 := hv.1
    simp only [Num.isInt, Num.truncInt, ge_iff_le, hexp, decide_true, if_true]
    have h2 : ((Num.norm (Int.natAbs (i:Int)) 0).1 : Int) * 2 ^ ((Num.norm (Int.natAbs (i:Int)) 0).2).toNat = i := by
      have := hv.2
      simp only [Int.sub_zero] at this
      have h3 : Int.natAbs (i : Int) = i := by simp
      rw [h3] at this ⊢
      exact_mod_cast this
    simp only [Bool.false_eq_true, if_false, h2]
    have : ¬ ((i : Int) < 0 ∨ (i : Int) > maxInt) := by omega
    simp [this]

theorem intVal_props (i : Int) : (intVal i).ty = .number ∧ (intVal i).isMarked = false ∧
    (intVal i).isKnown = true := by
  simp [intVal, numVal, Value.isMarked, Payload.isMarked, Value.isKnown, Payload.isKnown, Payload.unmark1]

theorem hasIndexU_list (e : Ty) (vs : List Payload) (j : Nat) (hj : j < vs.length)
    (hlen : (vs.length : Int) ≤ maxInt) :
    hasIndexU ⟨.list e, .seq vs⟩ (intVal j) = .ok (boolVal true) := by
  have hk := keyIndex_intVal j (by omega)
  simp only [intVal, numVal] at hk
  simp [hasIndexU, intVal, numVal, Value.isKnown, Payload.isKnown, Payload.unmark1, Ty.isDyn,
    Ty.isNumber, hk, hj]

theorem indexU_list (e : Ty) (vs : List Payload) (j : Nat) (p : Payload) (hj : vs[j]? = some p)
    (hlen : (vs.length : Int) ≤ maxInt) :
    indexU ⟨.list e, .seq vs⟩ (intVal j) = .ok ⟨e, p⟩ := by
  have hlt : j < vs.length := by
    rcases List.getElem?_eq_some_iff.mp hj with ⟨h, _⟩; exact h
  have hk := keyIndex_intVal j (by omega)
  simp only [intVal, numVal] at hk
  simp [indexU, intVal, numVal, Value.isKnown, Payload.isKnown, Payload.unmark1, Ty.isDyn,
    Ty.isNumber, hk, hj]

theorem hasIndexU_tuple (ts : List Ty) (vs : List Payload) (j : Nat) (hj : j < ts.length)
    (hlen : (ts.length : Int) ≤ maxInt) :
    hasIndexU ⟨.tuple ts, .seq vs⟩ (intVal j) = .ok (boolVal true) := by
  have hk := keyIndex_intVal j (by omega)
  simp only [intVal, numVal] at hk
  simp [hasIndexU, intVal, numVal, Value.isKnown, Payload.isKnown, Payload.unmark1, Ty.isDyn,
    Ty.isNumber, hk, hj]

theorem indexU_tuple (ts : List Ty) (vs : List Payload) (j : Nat) (t : Ty) (p : Payload)
    (ht : ts[j]? = some t) (hj : vs[j]? = some p) (hlen : (ts.length : Int) ≤ maxInt) :
    indexU ⟨.tuple ts, .seq vs⟩ (intVal j) = .ok ⟨t, p⟩ := by
  have hlt : j < ts.length := by
    rcases List.getElem?_eq_some_iff.mp ht with ⟨h, _⟩; exact h
  have hk := keyIndex_intVal j (by omega)
  simp only [intVal, numVal] at hk
  simp [indexU, intVal, numVal, Value.isKnown, Payload.isKnown, Payload.unmark1, Ty.isDyn,
    Ty.isNumber, hk, hj, ht]

theorem hasIndexU_map (e : Ty) (ks : List String) (vs : List Payload) (k : String) (hk : k ∈ ks) :
    hasIndexU ⟨.map e, .smap ks vs⟩ (strVal k) = .ok (boolVal true) := by
  simp [hasIndexU, strVal, Value.isKnown, Payload.isKnown, Payload.unmark1, Ty.isDyn, Ty.isString, hk]

theorem indexU_map (e : Ty) (ks : List String) (vs : List Payload) (k : String) (p : Payload)
    (h : lookupKey k ks vs = some p) :
    indexU ⟨.map e, .smap ks vs⟩ (strVal k) = .ok ⟨e, p⟩ := by
  simp [indexU, strVal, Value.isKnown, Payload.isKnown, Payload.unmark1, Ty.isDyn, Ty.isString, h]

theorem getAttrU_object (ns : List String) (ts : List Ty) (os : List Bool) (vs : List Payload)
    (name : String) (t : Ty) (o : Bool) (p : Payload)
    (ht : Ty.find name ns ts os = some (t, o)) (hv : lookupKey name ns vs = some p) :
    getAttrU ⟨.object ns ts os, .smap ns vs⟩ name = .ok ⟨t, p⟩ := by
  simp [getAttrU, ht, Value.isKnown, Payload.isKnown, Payload.unmark1, hv, Ty.isDyn]

theorem intVal_notNull (i : Int) : (intVal i).isNull = false := by
  simp [intVal, numVal, Value.isNull, Payload.isNull, Payload.unmark1]

/-- an index step whose key names a member of the (unmarked) container -/
theorem index_apply (a key r : Value) (hnull : a.isNull = false) (hk : key.isMarked = false)
    (hkn : key.isNull = false)
    (hty : (key.ty = .number ∧ PathStep.isListOrTuple a.ty = true) ∨
      (key.ty = .string ∧ PathStep.isMap a.ty = true))
    (hhas : hasIndexU a.unmark key = .ok (boolVal true)) (hidx : indexU a.unmark key = .ok r) :
    ∃ a', (PathStep.index key).apply a = .ok a' ∧ Extra r a' a.marks := by
  obtain ⟨has', hh, hE⟩ := binMarks_extra hasIndexU a key _ hk hhas
  obtain ⟨a', hi, hE'⟩ := binMarks_extra indexU a key _ hk hidx
  refine ⟨a', ?_, hE'⟩
  have hu : has'.unmark = boolVal true := by
    rw [hE.unmark_eq]; rfl
  simp only [PathStep.apply, hnull, Bool.false_eq_true, if_false]
  rcases hty with ⟨h1, h2⟩ | ⟨h1, h2⟩
  · simp only [h1, h2, if_true, Value.hasIndex, hh, hu, hkn, Bool.false_eq_true, if_false]
    simpa [boolVal, Value.isKnown, Payload.isKnown, Payload.unmark1, Value.isTrue, Value.index] using hi
  · simp only [h1, h2, if_true, Value.hasIndex, hh, hu, hkn, Bool.false_eq_true, if_false]
    simpa [boolVal, Value.isKnown, Payload.isKnown, Payload.unmark1, Value.isTrue, Value.index] using hi

/-! ### one step, then a whole path -/

def notSet : Ty → Bool
  | .set _ => false
  | _ => true

/-- no step towards the position leaves a set (whose members paths cannot address) -/
def noSetAt (X : SetOracle) : Value → Pos → Bool
  | _, [] => true
  | v, j :: r =>
    notSet v.ty && (match (kids X v)[j]? with
      | some c => noSetAt X c.2 r
      | none => true)

theorem kids_eq_children {X : SetOracle} {w : Value} {j : Nat} {sc : PathStep × Value}
    (hj : (kids X w)[j]? = some sc) :
    w.isNull = false ∧ w.isKnown = true ∧ kids X w = children X w.unmark := by
  by_cases h : (w.isNull || !w.isKnown) = true
  · simp [kids, h] at hj
  · simp only [Bool.or_eq_true, Bool.not_eq_true', not_or, Bool.not_eq_true, Bool.not_eq_false] at h
    exact ⟨h.1, h.2, by simp [kids, h.1, h.2]⟩

/-- **one step**: applied to the container `w` — possibly carrying extra marks, as
it does when it was itself reached through marked ancestors — the step of the
`j`-th member yields that member with all of the container's marks added -/
theorem step_apply {X : SetOracle} (w a : Value) (M : List String) (hE : Extra w a M)
    (hs : shapedV w = true) (hset : notSet w.ty = true) (j : Nat) (sc : PathStep × Value)
    (hj : (kids X w)[j]? = some sc) :
    ∃ a', sc.1.apply a = .ok a' ∧ Extra sc.2 a' a.marks := by
  obtain ⟨hnull, hknown, hk⟩ := kids_eq_children hj
  rw [hk] at hj
  have hanull : a.isNull = false := by rw [hE.isNull_eq]; exact hnull
  have hau : a.unmark = w.unmark := hE.unmark_eq
  have hsu : shaped w.ty w.v.unmark1 = true := shaped_unmark1 hs
  obtain ⟨t, p⟩ := w
  have haty : a.ty = t := hE.ty
  have hau' : a.unmark = ⟨t, p.unmark1⟩ := hau
  clear hau
  simp only [Value.unmark] at hj hsu
  cases t <;> (try (simp [notSet] at hset; done)) <;> cases hp : p.unmark1 <;>
    simp only [hp, children, List.getElem?_nil] at hj <;> (try (cases hj; done)) <;>
    rw [hp] at hau' hsu
  · -- list
    rename_i e vs
    simp only [shaped, Bool.and_eq_true, decide_eq_true_eq] at hsu
    obtain ⟨q, hq, rfl⟩ := seqKids_get e vs 0 j sc hj
    simp only [Nat.zero_add]
    have hlt : j < vs.length := (List.getElem?_eq_some_iff.mp hq).1
    exact index_apply a _ ⟨e, q⟩ hanull (intVal_props _).2.1 (intVal_notNull _)
      (Or.inl ⟨(intVal_props _).1, by simp [haty, PathStep.isListOrTuple]⟩)
      (by rw [hau']; exact hasIndexU_list e vs j hlt hsu.1)
      (by rw [hau']; exact indexU_list e vs j q hq hsu.1)
  · -- map
    rename_i e ks vs
    simp only [shaped, Bool.and_eq_true, decide_eq_true_eq, beq_iff_eq] at hsu
    obtain ⟨k, q, hkj, hq, rfl⟩ := mapKids_get e ks vs j sc hj
    exact index_apply a _ ⟨e, q⟩ hanull rfl rfl
      (Or.inr ⟨rfl, by simp [haty, PathStep.isMap]⟩)
      (by rw [hau']; exact hasIndexU_map e ks vs k (List.mem_of_getElem? hkj))
      (by rw [hau']; exact indexU_map e ks vs k q (lookupKey_get ks vs j k q hsu.1.2 hkj hq))
  · -- tuple
    rename_i ts vs
    simp only [shaped, Bool.and_eq_true, decide_eq_true_eq, beq_iff_eq] at hsu
    obtain ⟨t', q, ht, hq, rfl⟩ := tupKids_get ts vs 0 j sc hj
    simp only [Nat.zero_add]
    have hlt : j < ts.length := (List.getElem?_eq_some_iff.mp ht).1
    have hlen : (ts.length : Int) ≤ maxInt := by rw [hsu.1.1]; exact hsu.1.2
    exact index_apply a _ ⟨t', q⟩ hanull (intVal_props _).2.1 (intVal_notNull _)
      (Or.inl ⟨(intVal_props _).1, by simp [haty, PathStep.isListOrTuple]⟩)
      (by rw [hau']; exact hasIndexU_tuple ts vs j hlt hlen)
      (by rw [hau']; exact indexU_tuple ts vs j t' q ht hq hlen)
  · -- object
    rename_i ns ts os ks vs
    simp only [shaped, Bool.and_eq_true, decide_eq_true_eq, beq_iff_eq] at hsu
    obtain ⟨⟨⟨⟨⟨rfl, hnt⟩, hot⟩, htv⟩, hnd⟩, _⟩ := hsu
    obtain ⟨n, t', q, hn, ht, hq, rfl⟩ := objKids_get ks ts vs j sc hj
    obtain ⟨o, hfind⟩ := find_get ks ts os j n t' hnd hot hn ht
    have hget := getAttrU_object ks ts os vs n t' o q hfind (lookupKey_get ks vs j n q hnd hn hq)
    rw [← hau'] at hget
    obtain ⟨a', ha', hE'⟩ := getAttr_extra a _ n hget
    refine ⟨a', ?_, hE'⟩
    simp only [PathStep.apply, hanull, Bool.false_eq_true, if_false, haty]
    have : n ∈ ks := List.mem_of_getElem? hn
    simp [this, ha']

/-- marks met on the way down to a position (the position's own member excluded) -/
def ancMarks (X : SetOracle) : Value → Pos → List String
  | _, [] => []
  | v, j :: r =>
    match (kids X v)[j]? with
    | some c => v.marks ++ ancMarks X c.2 r
    | none => []

/-- **the path of a position leads back to its member**, carrying the marks of
the containers it went through; stated for a root that may already carry extra
marks `M` so that it composes step by step -/
theorem apply_pathAt_extra {X : SetOracle} (hX : IterPerm X) : ∀ (r : Pos) (w a n : Value)
    (M : List String) (p : Path), Extra w a M → shapedV w = true → nodeAt X w r = some n →
    pathAt X w r = some p → noSetAt X w r = true →
    ∃ a', Path.apply p a = .ok a' ∧ Extra n a' (ancMarks X w r ++ M)
  | [], w, a, n, M, p, hE, _, hn, hp, _ => by
    simp only [nodeAt, pathAt, Option.some.injEq] at hn hp
    subst hn hp
    exact ⟨a, rfl, by simpa [ancMarks] using hE⟩
  | j :: r, w, a, n, M, p, hE, hs, hn, hp, hns => by
    simp only [nodeAt, pathAt, noSetAt, Bool.and_eq_true] at hn hp hns
    cases hj : (kids X w)[j]? with
    | none => simp [hj] at hn
    | some sc =>
      simp only [hj] at hn hp hns
      cases hp' : pathAt X sc.2 r with
      | none => simp [hp'] at hp
      | some p' =>
        simp only [hp', Option.map_some, Option.some.injEq] at hp
        subst hp
        obtain ⟨a1, h1, hE1⟩ := step_apply w a M hE hs hns.1 j sc hj
        have hE1' := hE.step hE1
        obtain ⟨a', h2, hE2⟩ := apply_pathAt_extra hX r sc.2 a1 n _ p' hE1'
          (kids_shaped hX w hs sc (List.mem_of_getElem? hj)) hn hp' hns.2
        refine ⟨a', by simp [Path.apply, h1, h2], hE2.ty, hE2.raw, fun m => ?_⟩
        rw [hE2.marks]
        simp only [ancMarks, hj, List.mem_append]
        constructor
        · rintro (h | h | h | h)
          · exact Or.inl h
          · exact Or.inr (Or.inl (Or.inr h))
          · exact Or.inr (Or.inl (Or.inl h))
          · exact Or.inr (Or.inr h)
        · rintro (h | (h | h) | h)
          · exact Or.inl h
          · exact Or.inr (Or.inr (Or.inl h))
          · exact Or.inr (Or.inl h)
          · exact Or.inr (Or.inr (Or.inr h))

/-- the marks collected on the way are exactly the marks of the proper ancestors -/
theorem mem_ancMarks {X : SetOracle} (m : String) : ∀ (r : Pos) (v n : Value),
    nodeAt X v r = some n →
    (m ∈ ancMarks X v r ↔ ∃ q s anc, r = q ++ s ∧ s ≠ [] ∧ nodeAt X v q = some anc ∧ m ∈ anc.marks)
  | [], v, n, _ => by
    simp only [ancMarks, List.not_mem_nil, false_iff]
    rintro ⟨q, s, anc, h, hs, _⟩
    have := congrArg List.length h
    simp only [List.length_nil, List.length_append] at this
    exact hs (List.eq_nil_of_length_eq_zero (by omega))
  | j :: r, v, n, hn => by
    simp only [nodeAt] at hn
    cases hj : (kids X v)[j]? with
    | none => simp [hj] at hn
    | some c =>
      simp only [hj] at hn
      simp only [ancMarks, hj, List.mem_append, mem_ancMarks m r c.2 n hn]
      constructor
      · rintro (h | ⟨q, s, anc, rfl, hs, ha, hm⟩)
        · exact ⟨[], j :: r, v, rfl, by simp, rfl, h⟩
        · exact ⟨j :: q, s, anc, rfl, hs, by simp [nodeAt, hj, ha], hm⟩
      · rintro ⟨q, s, anc, h, hs, ha, hm⟩
        cases q with
        | nil =>
          simp only [nodeAt, Option.some.injEq] at ha
          subst ha
          exact Or.inl hm
        | cons i q =>
          simp only [List.cons_append, List.cons.injEq] at h
          obtain ⟨rfl, rfl⟩ := h
          simp only [nodeAt, hj] at ha
          exact Or.inr ⟨q, s, anc, rfl, hs, ha, hm⟩

end Walk
end CtyModel
