/-
C06 lemmas, part 2: every operation method returns a well-formed value.

`Res.AllW P x` — "P holds of the result whenever the call returns one" — and the
tactic `res_all`, which peels a transliterated Go function branch by branch
(`if`, bind, `match`), carry all the proofs: the result of each branch is either
a primitive (`isPrim`), a member of a well-formed operand, or an unknown / null of
a type taken from the operand's type.
-/
import CtyModel.Lemmas.WFBasic
set_option linter.unusedSimpArgs false
set_option linter.unusedVariables false
namespace CtyModel

/-- `P` holds of the result whenever the call returns one -/
def Res.AllW {α} (P : α → Prop) : Res α → Prop
  | .ok a => P a
  | _ => True

namespace Res
variable {α β : Type} {P : β → Prop}
@[simp] theorem all_ok {P : α → Prop} (a : α) : AllW P (.ok a) ↔ P a := Iff.rfl
@[simp] theorem all_pure {P : α → Prop} (a : α) : AllW P (pure a) ↔ P a := Iff.rfl
@[simp] theorem all_panic {P : α → Prop} (w : String) : AllW P (.panic w) := trivial
@[simp] theorem all_err {P : α → Prop} (w : String) : AllW P (.err w) := trivial
@[simp] theorem all_unmodelled {P : α → Prop} : AllW P (.unmodelled : Res α) := trivial
theorem all_bind (x : Res α) (f : α → Res β) : AllW P (x >>= f) ↔ AllW (fun a => AllW P (f a)) x := by
  cases x <;> simp [AllW] <;> rfl
theorem all_map (x : Res α) (f : α → β) : AllW P (x.map f) ↔ AllW (fun a => P (f a)) x := by
  cases x <;> simp [AllW, Res.map]
theorem all_of_forall {P : α → Prop} (x : Res α) (h : ∀ a, P a) : AllW P x := by
  cases x <;> simp [AllW, h]
theorem all_mono {P Q : α → Prop} {x : Res α} (h : AllW P x) (hpq : ∀ a, P a → Q a) : AllW Q x := by
  cases x <;> simp_all [AllW]
theorem all_ite {P : α → Prop} (c : Prop) [Decidable c] (x y : Res α) :
    AllW P (if c then x else y) ↔ (c → AllW P x) ∧ (¬c → AllW P y) := by
  by_cases h : c <;> simp [h]
theorem all_iff {P : α → Prop} {x : Res α} : AllW P x ↔ ∀ a, x = .ok a → P a := by
  cases x <;> simp [AllW]
end Res

/-- peel one layer of a `Res` computation: a closed goal, an `if`, a bind, or a `match` -/
macro "res_all" : tactic => `(tactic| repeat' (first
  | (simp; done)
  | (rw [Res.all_ite]; refine ⟨fun _ => ?_, fun _ => ?_⟩)
  | (rw [Res.all_bind]; apply Res.all_of_forall; intro _)
  | split))

namespace Value
variable {nfc : String → Bool}

theorem wf_withMarks {v : Value} (ms : List String) (h : v.WF nfc = true) : (v.withMarks ms).WF nfc = true := by
  simp only [WF, withMarks, Bool.and_eq_true] at h ⊢
  exact ⟨h.1, Payload.wfP_withMarks ms h.2⟩

theorem wf_unmark {v : Value} (h : v.WF nfc = true) : v.unmark.WF nfc = true := by
  simp only [WF, unmark, Bool.and_eq_true] at h ⊢
  exact ⟨h.1, (Payload.wfP_unmark1 h.2).1⟩

theorem wf_unmarkDeep {v : Value} (h : v.WF nfc = true) : v.unmarkDeep.WF nfc = true := by
  simp only [WF, unmarkDeep, Bool.and_eq_true] at h ⊢
  exact ⟨h.1, Payload.wfP_stripMarks _ _ h.2⟩

/-- results of the primitive-valued operations: a bool / number, known or unknown with the
refinement `Refine` would choose -/
def isPrim (v : Value) : Bool :=
  match v.ty, v.v with
  | .bool, .b _ => true
  | .bool, .unk r => Refine.kindOk .bool r
  | .number, .n _ => true
  | .number, .unk r => Refine.kindOk .number r
  | _, _ => false

theorem wf_of_isPrim {v : Value} (h : v.isPrim = true) : v.WF nfc = true := by
  obtain ⟨t, p⟩ := v
  cases t <;> cases p <;> simp_all [isPrim, WF, Payload.wfP]

@[simp] theorem isPrim_boolVal (b : Bool) : (boolVal b).isPrim = true := rfl
@[simp] theorem isPrim_unkBool : unkBool.isPrim = true := rfl
@[simp] theorem isPrim_numVal (n : Num) : (numVal n).isPrim = true := rfl
@[simp] theorem isPrim_intVal (i : Int) : (intVal i).isPrim = true := rfl
@[simp] theorem isPrim_unkNumNotNull : unkNumNotNull.isPrim = true := rfl
@[simp] theorem wf_boolVal (b : Bool) : (boolVal b).WF nfc = true := wf_of_isPrim rfl
@[simp] theorem wf_unkBool : unkBool.WF nfc = true := wf_of_isPrim rfl
@[simp] theorem wf_numVal (n : Num) : (numVal n).WF nfc = true := wf_of_isPrim rfl
@[simp] theorem wf_intVal (i : Int) : (intVal i).WF nfc = true := wf_of_isPrim rfl
@[simp] theorem wf_unkNumNotNull : unkNumNotNull.WF nfc = true := wf_of_isPrim rfl
theorem isPrim_numRangeResult (lo hi : Option Num) : (numRangeResult lo hi).isPrim = true := by
  unfold numRangeResult
  split
  · split <;> rfl
  · rfl

/-- the shared prologues: result of the unmarked call, marks re-applied -/
theorem all_binMarks {P : Value → Prop} (f : Value → Value → Res Value) (a b : Value)
    (hP : ∀ v ms, P v → P (v.withMarks ms))
    (h1 : Res.AllW P (f a.unmark b.unmark)) (h2 : Res.AllW P (f a b)) : Res.AllW P (binMarks f a b) := by
  unfold binMarks
  split
  · rw [Res.all_map]; exact Res.all_mono h1 (fun v hv => hP v _ hv)
  · exact h2

theorem all_unMarks {P : Value → Prop} (f : Value → Res Value) (a : Value)
    (hP : ∀ v ms, P v → P (v.withMarks ms))
    (h1 : Res.AllW P (f a.unmark)) (h2 : Res.AllW P (f a)) : Res.AllW P (unMarks f a) := by
  unfold unMarks
  split
  · rw [Res.all_map]; exact Res.all_mono h1 (fun v hv => hP v _ hv)
  · exact h2

theorem all_prim_lessThanU (a b : Value) : Res.AllW (fun r => r.isPrim = true) (lessThanU a b) := by
  unfold lessThanU
  simp only [Res.all_bind]
  apply Res.all_of_forall
  intro tc
  cases tc <;> simp only [Res.all_bind]
  · apply Res.all_of_forall; intro x; apply Res.all_of_forall; intro y; simp
  all_goals
    apply Res.all_of_forall; intro o; cases o <;> simp

theorem all_prim_greaterThanU (a b : Value) : Res.AllW (fun r => r.isPrim = true) (greaterThanU a b) := by
  unfold greaterThanU
  simp only [Res.all_bind]
  apply Res.all_of_forall
  intro tc
  cases tc <;> simp only [Res.all_bind]
  · apply Res.all_of_forall; intro x; apply Res.all_of_forall; intro y; simp
  all_goals
    apply Res.all_of_forall; intro ra; apply Res.all_of_forall; intro rb
    split
    · simp only [Res.all_bind]
      apply Res.all_of_forall; intro x1; apply Res.all_of_forall; intro x2
      apply Res.all_of_forall; intro x3; apply Res.all_of_forall; intro x4
      split
      · split
        · simp
        · split <;> simp
      · simp
    · simp

theorem all_prim_notU (a : Value) : Res.AllW (fun r => r.isPrim = true) (notU a) := by
  unfold notU
  simp only [Res.all_bind]
  apply Res.all_of_forall
  intro tc
  cases tc <;> simp only [Res.all_bind]
  · apply Res.all_of_forall; intro x; simp
  all_goals simp

theorem all_prim_andU (a b : Value) : Res.AllW (fun r => r.isPrim = true) (andU a b) := by
  unfold andU
  simp only [Res.all_bind]
  apply Res.all_of_forall
  intro tc
  cases tc <;> simp only [Res.all_bind]
  · apply Res.all_of_forall; intro x
    split
    · simp
    · simp only [Res.all_bind]; apply Res.all_of_forall; intro y; simp
  all_goals split <;> simp

theorem all_prim_orU (a b : Value) : Res.AllW (fun r => r.isPrim = true) (orU a b) := by
  unfold orU
  simp only [Res.all_bind]
  apply Res.all_of_forall
  intro tc
  cases tc <;> simp only [Res.all_bind]
  · apply Res.all_of_forall; intro x
    split
    · simp
    · simp only [Res.all_bind]; apply Res.all_of_forall; intro y; simp
  all_goals split <;> simp

theorem all_prim_rangeArithC (corner : Option Num → Option Num → Option Num) (a b : Value) :
    Res.AllW (fun r => r.isPrim = true) (rangeArithC corner a b) := by
  unfold rangeArithC
  simp only [Res.all_bind]
  apply Res.all_of_forall; intro ra; apply Res.all_of_forall; intro rb
  apply Res.all_of_forall; intro x1; apply Res.all_of_forall; intro x2
  apply Res.all_of_forall; intro x3; apply Res.all_of_forall; intro x4
  simp [isPrim_numRangeResult]

theorem all_prim_rangeArith (op : Num → Num → Res Num) (a b : Value) :
    Res.AllW (fun r => r.isPrim = true) (rangeArith op a b) := all_prim_rangeArithC _ a b

theorem all_prim_arithU (opN : Num → Num → Res Num) (a b : Value) :
    Res.AllW (fun r => r.isPrim = true)
      (do match ← typeCheck .number [a, b] with
          | .none => pure (numVal (← opN (← asNum a) (← asNum b)))
          | _ => rangeArith opN a b) := by
  simp only [Res.all_bind]
  apply Res.all_of_forall
  intro tc
  cases tc <;> simp only [Res.all_bind]
  · apply Res.all_of_forall; intro x; apply Res.all_of_forall; intro y; apply Res.all_of_forall; intro z; simp
  all_goals exact all_prim_rangeArith _ _ _

theorem all_prim_addU (a b : Value) : Res.AllW (fun r => r.isPrim = true) (addU a b) := all_prim_arithU Num.add a b
theorem all_prim_subU (a b : Value) : Res.AllW (fun r => r.isPrim = true) (subU a b) := all_prim_arithU Num.sub a b
theorem all_prim_mulU (a b : Value) : Res.AllW (fun r => r.isPrim = true) (mulU a b) := by
  unfold mulU
  simp only [Res.all_bind]
  apply Res.all_of_forall
  intro tc
  cases tc <;> simp only [Res.all_bind]
  · apply Res.all_of_forall; intro x; apply Res.all_of_forall; intro y; apply Res.all_of_forall; intro z; simp
  all_goals
    split
    · simp [pure, Res.AllW, zeroVal, isPrim]
    · exact all_prim_rangeArithC _ _ _

theorem all_prim_divU (a b : Value) : Res.AllW (fun r => r.isPrim = true) (divU a b) := by
  unfold divU
  simp only [Res.all_bind]
  apply Res.all_of_forall
  intro tc
  cases tc <;> simp only [Res.all_bind]
  · apply Res.all_of_forall; intro x; apply Res.all_of_forall; intro y; apply Res.all_of_forall; intro z; simp
  all_goals simp

theorem all_prim_negU (a : Value) : Res.AllW (fun r => r.isPrim = true) (negU a) := by
  unfold negU
  simp only [Res.all_bind]
  apply Res.all_of_forall
  intro tc
  cases tc <;> simp only [Res.all_bind]
  · apply Res.all_of_forall; intro x; simp
  all_goals simp

theorem all_prim_absU (a : Value) : Res.AllW (fun r => r.isPrim = true) (absU a) := by
  unfold absU
  simp only [Res.all_bind]
  apply Res.all_of_forall
  intro tc
  cases tc <;> simp only [Res.all_bind]
  · apply Res.all_of_forall; intro x; simp
  all_goals simp [isPrim, Refine.kindOk]

theorem all_wf_modU (a b : Value) (ha : a.WF nfc = true) : Res.AllW (fun r => r.WF nfc = true) (modU a b) := by
  unfold modU
  simp only [Res.all_bind]
  apply Res.all_of_forall
  intro tc
  cases tc <;> simp only [Res.all_bind]
  · rw [Res.all_ite]
    refine ⟨fun _ => ?_, fun _ => ?_⟩
    · simp only [Res.all_bind]
      apply Res.all_of_forall; intro x; apply Res.all_of_forall; intro y; apply Res.all_of_forall; intro z
      simp
    · rw [Res.all_ite]
      refine ⟨fun _ => ?_, fun _ => ?_⟩
      · simpa using ha
      · simp only [Res.all_bind]
        apply Res.all_of_forall; intro x; apply Res.all_of_forall; intro y; apply Res.all_of_forall; intro z
        split
        · simp
        · simp only [Res.all_bind]
          apply Res.all_of_forall; intro x; apply Res.all_of_forall; intro y
          simp
  all_goals simp

theorem all_prim_hasIndexU (a b : Value) : Res.AllW (fun r => r.isPrim = true) (hasIndexU a b) := by
  unfold hasIndexU
  res_all

theorem all_prim_lengthU (a : Value) : Res.AllW (fun r => r.isPrim = true) (lengthU a) := by
  unfold lengthU
  res_all
  all_goals simp [isPrim_numRangeResult]

theorem all_prim_hasElementU (a b : Value) (h : Option Int) : Res.AllW (fun r => r.isPrim = true) (hasElementU a b h) := by
  unfold hasElementU
  res_all
  all_goals
    rw [Res.all_map]; apply Res.all_of_forall; intro f; split <;> simp

theorem all_prim_equalsPre (a b : Value) :
    Res.AllW (fun o => ∀ r, o = some r → r.isPrim = true) (equalsPre a b) := by
  unfold equalsPre
  res_all

theorem isPrim_accVal (x : EqAcc) : (accVal x).isPrim = true := by cases x <;> rfl

theorem all_prim_equalsFuel : ∀ (n : Nat) (ta : Ty) (a : Payload) (tb : Ty) (b : Payload),
    Res.AllW (fun r => r.isPrim = true) (equalsFuel n ta a tb b)
  | 0, _, _, _, _ => by simp [equalsFuel]
  | n + 1, ta, a, tb, b => by
    unfold equalsFuel
    have hpre := all_prim_equalsPre ⟨ta, a⟩ ⟨tb, b⟩
    split
    · rename_i r heq
      rw [heq] at hpre
      simpa using hpre r rfl
    · simp
    · simp
    · simp
    · res_all
      all_goals first
        | (rw [Res.all_map]; apply Res.all_of_forall; intro acc; exact isPrim_accVal acc)
        | (simp only []; repeat' split) <;> first
            | (simp; done)
            | (simp [Value.isPrim, unkBool, boolVal, Refine.kindOk]; done)
            | (rename_i x _; cases x <;> simp [Value.isPrim, unkBool, boolVal, Refine.kindOk])
        | skip

theorem all_prim_equalsP (ta : Ty) (a : Payload) (tb : Ty) (b : Payload) :
    Res.AllW (fun r => r.isPrim = true) (equalsP ta a tb b) := all_prim_equalsFuel _ _ _ _ _


theorem wf_unknown {t : Ty} (h : t.ok nfc = true) : (unknown t).WF nfc = true := by
  simp [WF, unknown, h, Payload.kindOk_unref]
theorem wf_nullOf {t : Ty} (h : t.ok nfc = true) : (Value.null t).WF nfc = true := by
  simp [WF, Value.null, h]
@[simp] theorem wf_dynVal : dynVal.WF nfc = true := by simp [WF, dynVal, Payload.kindOk_unref]

theorem attr_ok {v : Value} {ns ts os name aty o} (hv : v.WF nfc = true) (hty : v.ty = .object ns ts os)
    (hf : Ty.find name ns ts os = some (aty, o)) : aty.ok nfc = true := by
  simp only [WF, Bool.and_eq_true, hty] at hv
  exact Ty.okL_find (Ty.ok_object hv.1).1 hf

theorem attr_wf {v : Value} {ns ts os name aty o ks vs p} (hv : v.WF nfc = true) (hty : v.ty = .object ns ts os)
    (hf : Ty.find name ns ts os = some (aty, o)) (hp : v.v = .smap ks vs)
    (hl : lookupKey name ks vs = some p) : Payload.wfP nfc aty p = true := by
  simp only [WF, Bool.and_eq_true, hty, hp, Payload.wfP, beq_iff_eq] at hv
  obtain ⟨_, ⟨hk, _⟩, hz⟩ := hv
  subst hk
  exact Payload.wfZip_find hz hf hl

theorem all_wf_getAttrU (v : Value) (name : String) (hv : v.WF nfc = true) :
    Res.AllW (fun r => r.WF nfc = true) (getAttrU v name) := by
  unfold getAttrU
  res_all
  · rename_i _ _ ns ts os hty _ aty o hfind _
    simpa using wf_unknown (attr_ok hv hty hfind)
  · rename_i _ _ ns ts os hty _ aty o hfind _ _ ks vs hp _ p hl
    simp [WF, attr_ok hv hty hfind, attr_wf hv hty hfind hp hl]
  · rename_i _ _ ns ts os hty _ aty o hfind _ _ ks vs hp _ hl
    simpa [Value.null] using wf_nullOf (attr_ok hv hty hfind)

theorem elem_ok {v : Value} {e : Ty} (hv : v.WF nfc = true) (hty : v.ty = .list e ∨ v.ty = .map e ∨ v.ty = .set e) :
    e.ok nfc = true := by
  simp only [WF, Bool.and_eq_true] at hv
  rcases hty with h | h | h <;> rw [h] at hv
  · simpa [Ty.ok_list] using hv.1
  · simpa [Ty.ok_map] using hv.1
  · simpa [Ty.ok_set] using hv.1

theorem tuple_elem_ok {v : Value} {es : List Ty} {i : Nat} {t : Ty} (hv : v.WF nfc = true)
    (hty : v.ty = .tuple es) (hi : es[i]? = some t) : t.ok nfc = true := by
  simp only [WF, Bool.and_eq_true, hty, Ty.ok_tuple] at hv
  exact Ty.okL_getElem hv.1 hi

theorem list_member_wf {v : Value} {e : Ty} {vs : List Payload} {i : Nat} {p : Payload} (hv : v.WF nfc = true)
    (hty : v.ty = .list e) (hp : v.v = .seq vs) (hi : vs[i]? = some p) : (⟨e, p⟩ : Value).WF nfc = true := by
  have he := elem_ok hv (Or.inl hty)
  simp only [WF, Bool.and_eq_true, hty, hp, Payload.wfP] at hv
  simp [WF, he, Payload.wfAll_getElem hv.2 hi]

theorem map_member_wf {v : Value} {e : Ty} {ks : List String} {vs : List Payload} (key : String) (hv : v.WF nfc = true)
    (hty : v.ty = .map e) (hp : v.v = .smap ks vs) :
    (⟨e, (lookupKey key ks vs).getD .null⟩ : Value).WF nfc = true := by
  have he := elem_ok hv (Or.inr (Or.inl hty))
  simp only [WF, Bool.and_eq_true, hty, hp, Payload.wfP] at hv
  cases hl : lookupKey key ks vs with
  | none => simp [WF, he]
  | some p => simp [WF, he, Payload.wfAll_lookupKey hv.2.2 hl]

theorem tuple_member_wf {v : Value} {es : List Ty} {vs : List Payload} {i : Nat} {t : Ty} {p : Payload}
    (hv : v.WF nfc = true) (hty : v.ty = .tuple es) (ht : es[i]? = some t) (hp : v.v = .seq vs)
    (hi : vs[i]? = some p) : (⟨t, p⟩ : Value).WF nfc = true := by
  have he := tuple_elem_ok hv hty ht
  simp only [WF, Bool.and_eq_true, hty, hp, Payload.wfP] at hv
  simp [WF, he, Payload.wfZip_getElem hv.2.2 ht hi]

theorem all_wf_indexU (v k : Value) (hv : v.WF nfc = true) :
    Res.AllW (fun r => r.WF nfc = true) (indexU v k) := by
  unfold indexU
  res_all
  all_goals first
    | exact (Res.all_ok _).mpr (wf_unknown (elem_ok hv (Or.inl (by assumption))))
    | exact (Res.all_ok _).mpr (wf_unknown (elem_ok hv (Or.inr (Or.inl (by assumption)))))
    | exact (Res.all_ok _).mpr (wf_unknown (tuple_elem_ok hv (by assumption) (by assumption)))
    | exact (Res.all_ok _).mpr (list_member_wf hv (by assumption) (by assumption) (by assumption))
    | exact (Res.all_ok _).mpr (map_member_wf _ hv (by assumption) (by assumption))
    | exact (Res.all_ok _).mpr (tuple_member_wf hv (by assumption) (by assumption) (by assumption) (by assumption))

/-! ### the operation methods themselves (mark prologue included) -/

theorem all_wf_of_prim {x : Res Value} (h : Res.AllW (fun r => r.isPrim = true) x) :
    Res.AllW (fun r => r.WF nfc = true) x := Res.all_mono h fun _ => wf_of_isPrim

theorem all_wf_binPrim (f : Value → Value → Res Value) (hf : ∀ a b, Res.AllW (fun r => r.isPrim = true) (f a b))
    (a b : Value) : Res.AllW (fun r => r.WF nfc = true) (binMarks f a b) :=
  all_binMarks f a b (fun _ ms h => wf_withMarks ms h) (all_wf_of_prim (hf _ _)) (all_wf_of_prim (hf _ _))

theorem all_wf_unPrim (f : Value → Res Value) (hf : ∀ a, Res.AllW (fun r => r.isPrim = true) (f a))
    (a : Value) : Res.AllW (fun r => r.WF nfc = true) (unMarks f a) :=
  all_unMarks f a (fun _ ms h => wf_withMarks ms h) (all_wf_of_prim (hf _)) (all_wf_of_prim (hf _))

theorem all_wf_equals (a b : Value) : Res.AllW (fun r => r.WF nfc = true) (equals a b) := by
  unfold equals
  split
  · rw [Res.all_map]
    exact Res.all_mono (all_prim_equalsP _ _ _ _) fun _ h => wf_withMarks _ (wf_of_isPrim h)
  · exact all_wf_of_prim (all_prim_equalsP _ _ _ _)

theorem all_wf_mod (a b : Value) (ha : a.WF nfc = true) : Res.AllW (fun r => r.WF nfc = true) (mod a b) :=
  all_binMarks modU a b (fun _ ms h => wf_withMarks ms h) (all_wf_modU _ _ (wf_unmark ha)) (all_wf_modU _ _ ha)

theorem all_wf_getAttr (v : Value) (name : String) (hv : v.WF nfc = true) :
    Res.AllW (fun r => r.WF nfc = true) (getAttr v name) := by
  unfold getAttr
  split
  · rw [Res.all_map]
    exact Res.all_mono (all_wf_getAttrU _ name (wf_unmark hv)) fun _ h => wf_withMarks _ h
  · exact all_wf_getAttrU _ name hv

theorem all_wf_index (v k : Value) (hv : v.WF nfc = true) : Res.AllW (fun r => r.WF nfc = true) (index v k) :=
  all_binMarks indexU v k (fun _ ms h => wf_withMarks ms h) (all_wf_indexU _ _ (wf_unmark hv)) (all_wf_indexU _ _ hv)

theorem all_wf_hasElement (v e : Value) (h : Option Int) : Res.AllW (fun r => r.WF nfc = true) (hasElement v e h) := by
  unfold hasElement
  split
  · rw [Res.all_map]
    exact Res.all_mono (all_prim_hasElementU _ _ h) fun _ hp => wf_withMarks _ (wf_of_isPrim hp)
  · exact all_wf_of_prim (all_prim_hasElementU _ _ h)

end Value
end CtyModel
