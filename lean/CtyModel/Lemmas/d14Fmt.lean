/-
d14 — `format`: what the numbers of a verb denote (saturating decimal), the argument-index
bookkeeping, the width / precision limit, totality (no panic, fuel never runs out).
-/
import CtyModel.Lemmas.d14Scan
import CtyModel.Lemmas.StdNumFmt
namespace CtyModel
namespace StdNum

/-! ### `satNum` in closed form -/

/-- the decimal value of a digit string, continuing from `acc` -/
def decFrom (acc : Nat) (ds : List Char) : Nat := ds.foldl (fun n c => 10 * n + (c.toNat - 48)) acc

/-- the number a digit string denotes (most significant digit first) -/
def decVal (ds : List Char) : Nat := decFrom 0 ds

/-- the first number that does not survive `formatArgNumAppendDigit`: 10 · ((maxInt − 9) / 10 + 1) -/
def satBound : Nat := 9223372036854775800

theorem decFrom_ge (acc : Nat) (ds : List Char) : acc ≤ decFrom acc ds := by
  induction ds generalizing acc with
  | nil => exact Nat.le_refl _
  | cons c t ih =>
    have := ih (10 * acc + (c.toNat - 48))
    simp only [decFrom, List.foldl_cons] at this ⊢
    omega

theorem foldl_appendDigit_max (ds : List Char) : ds.foldl appendDigit goMaxInt = goMaxInt := by
  induction ds with
  | nil => rfl
  | cons c t ih =>
    have : appendDigit goMaxInt c = goMaxInt := by simp [appendDigit, goMaxInt]
    simp only [List.foldl_cons, this, ih]

theorem foldl_appendDigit_eq (ds : List Char) (acc : Nat) (hd : ∀ c ∈ ds, isDigit c = true) (ha : acc < satBound) :
    ds.foldl appendDigit acc = if decFrom acc ds < satBound then decFrom acc ds else goMaxInt := by
  induction ds generalizing acc with
  | nil => simp [decFrom, ha]
  | cons c t ih =>
    have hc := (isDigit_iff c).mp (hd c List.mem_cons_self)
    have ht : ∀ d ∈ t, isDigit d = true := fun d h => hd d (List.mem_cons_of_mem _ h)
    simp only [List.foldl_cons]
    by_cases hk : acc > (goMaxInt - 9) / 10
    · have h1 : appendDigit acc c = goMaxInt := by simp [appendDigit, hk]
      rw [h1, foldl_appendDigit_max]
      have h2 := decFrom_ge (10 * acc + (c.toNat - 48)) t
      have h3 : decFrom acc (c :: t) = decFrom (10 * acc + (c.toNat - 48)) t := rfl
      have h4 : ¬ decFrom acc (c :: t) < satBound := by
        rw [h3]; simp only [goMaxInt, satBound] at *; omega
      simp [h4]
    · have h1 : appendDigit acc c = 10 * acc + (c.toNat - 48) := by simp [appendDigit, hk]
      rw [h1, ih _ ht (by simp only [goMaxInt, satBound] at *; omega)]
      rfl

/-- **Saturating decimal.** A digit string denotes its decimal value when that is below
9223372036854775800, and the largest `int` otherwise — never a wrapped-around number. -/
theorem satNum_eq (ds : List Char) (hd : ∀ c ∈ ds, isDigit c = true) :
    satNum ds = if decVal ds < satBound then decVal ds else goMaxInt :=
  foldl_appendDigit_eq ds 0 hd (by decide)

theorem satNum_ge (ds : List Char) (hd : ∀ c ∈ ds, isDigit c = true) (n : Nat) (hn : n ≤ decVal ds)
    (hm : n ≤ goMaxInt) : n ≤ satNum ds := by
  rw [satNum_eq ds hd]
  split <;> omega

theorem satNum_le (ds : List Char) (hd : ∀ c ∈ ds, isDigit c = true) : satNum ds ≤ goMaxInt := by
  rw [satNum_eq ds hd]
  split
  · simp only [goMaxInt, satBound] at *; omega
  · exact Nat.le_refl _

theorem decVal_num_pos (ds : List Char) (h : isNum ds = true) : 1 ≤ decVal ds := by
  cases ds with
  | nil => simp [isNum] at h
  | cons c t =>
    have h1 := (isNumStart_iff c).mp (isNum_cons h).1
    have := decFrom_ge (10 * 0 + (c.toNat - 48)) t
    simp only [decVal, decFrom, List.foldl_cons] at this ⊢
    omega

theorem satNum_num_pos (ds : List Char) (h : isNum ds = true) : 1 ≤ satNum ds :=
  satNum_ge ds (isNum_digits h) 1 (decVal_num_pos ds h) (by decide)

/-! ### fields of the denoted verb -/

theorem setFlag_fields (v : Verb) (c : Char) :
    (setFlag v c).argNum = v.argNum ∧ (setFlag v c).hasWidth = v.hasWidth ∧ (setFlag v c).width = v.width ∧
    (setFlag v c).hasPrec = v.hasPrec ∧ (setFlag v c).prec = v.prec ∧ (setFlag v c).mode = v.mode ∧
    (setFlag v c).offset = v.offset ∧ (setFlag v c).raw = v.raw ++ [c] := by
  unfold setFlag
  split
  · simp
  · split
    · simp
    · split
      · simp
      · split <;> simp

theorem foldl_setFlag_fields (fs : List Char) (v : Verb) :
    (fs.foldl setFlag v).argNum = v.argNum ∧ (fs.foldl setFlag v).hasWidth = v.hasWidth ∧
    (fs.foldl setFlag v).width = v.width ∧ (fs.foldl setFlag v).hasPrec = v.hasPrec ∧
    (fs.foldl setFlag v).prec = v.prec ∧ (fs.foldl setFlag v).mode = v.mode ∧
    (fs.foldl setFlag v).offset = v.offset ∧ (fs.foldl setFlag v).raw = v.raw ++ fs := by
  induction fs generalizing v with
  | nil => simp
  | cons c t ih =>
    obtain ⟨h1, h2, h3, h4, h5, h6, h7, h8⟩ := ih (setFlag v c)
    obtain ⟨g1, g2, g3, g4, g5, g6, g7, g8⟩ := setFlag_fields v c
    simp only [List.foldl_cons]
    refine ⟨by rw [h1, g1], by rw [h2, g2], by rw [h3, g3], by rw [h4, g4], by rw [h5, g5], by rw [h6, g6],
      by rw [h7, g7], by rw [h8, g8]; simp⟩

/-- flags: each flag field is set iff its character occurs among the flags -/
theorem foldl_setFlag_flags (fs : List Char) (v : Verb) (hf : ∀ c ∈ fs, isFlag c = true) :
    (fs.foldl setFlag v).zero = (v.zero || fs.contains '0') ∧ (fs.foldl setFlag v).sharp = (v.sharp || fs.contains '#') ∧
    (fs.foldl setFlag v).minus = (v.minus || fs.contains '-') ∧ (fs.foldl setFlag v).plus = (v.plus || fs.contains '+') ∧
    (fs.foldl setFlag v).space = (v.space || fs.contains ' ') := by
  induction fs generalizing v with
  | nil => simp
  | cons c t ih =>
    have hc : isFlag c = true := hf c List.mem_cons_self
    obtain ⟨h1, h2, h3, h4, h5⟩ := ih (setFlag v c) fun d h => hf d (List.mem_cons_of_mem _ h)
    simp only [List.foldl_cons, h1, h2, h3, h4, h5, List.contains_cons]
    simp only [isFlag, Bool.or_eq_true, beq_iff_eq] at hc
    rcases hc with (((rfl | rfl) | rfl) | rfl) | rfl <;> simp [setFlag, Bool.or_comm] <;> decide

/-- **The parsed fields are the denoted numbers.** Width, precision and the explicit
argument number of the scanned verb are the (saturating) decimal values of their digit
strings; without `[n]` the argument number is the next one; the raw text is the sentence. -/
theorem verb_fields (g : VerbSyn) (offset nextArg : Nat) :
    (g.verb offset nextArg).hasWidth = g.width.isSome ∧
    (g.verb offset nextArg).width = (g.width.map satNum).getD 0 ∧
    (g.verb offset nextArg).hasPrec = g.prec.isSome ∧
    (g.verb offset nextArg).prec = (g.prec.map satNum).getD 0 ∧
    (g.verb offset nextArg).argNum = (g.idx.map satNum).getD nextArg ∧
    (g.verb offset nextArg).mode = g.mode ∧
    (g.verb offset nextArg).offset = offset ∧
    (g.verb offset nextArg).raw = '%' :: g.text := by
  obtain ⟨fl, wd, pr, ix, md⟩ := g
  obtain ⟨h1, h2, h3, h4, h5, h6, h7, h8⟩ :=
    foldl_setFlag_fields fl { raw := ['%'], offset := offset, argNum := nextArg }
  cases wd <;> cases pr <;> cases ix <;>
    simp [VerbSyn.verb, VerbSyn.text, withMode, withIdx, withPrec, withWidth, precTextOf, idxTextOf,
      h1, h2, h3, h4, h5, h6, h7, h8]

theorem verb_flags (g : VerbSyn) (hg : g.wf = true) (offset nextArg : Nat) :
    (g.verb offset nextArg).zero = g.flags.contains '0' ∧ (g.verb offset nextArg).sharp = g.flags.contains '#' ∧
    (g.verb offset nextArg).minus = g.flags.contains '-' ∧ (g.verb offset nextArg).plus = g.flags.contains '+' ∧
    (g.verb offset nextArg).space = g.flags.contains ' ' := by
  obtain ⟨fl, wd, pr, ix, md⟩ := g
  simp only [VerbSyn.wf, Bool.and_eq_true, List.all_eq_true] at hg
  obtain ⟨h1, h2, h3, h4, h5⟩ :=
    foldl_setFlag_flags fl { raw := ['%'], offset := offset, argNum := nextArg } hg.1.1.1.1
  cases wd <;> cases pr <;> cases ix <;>
    simp [VerbSyn.verb, withMode, withIdx, withPrec, withWidth, h1, h2, h3, h4, h5]

/-- the argument number of a scanned verb is never 0 (argument numbers are 1-based) -/
theorem verb_argNum_pos (g : VerbSyn) (hg : g.wf = true) (offset nextArg : Nat) (hn : 1 ≤ nextArg) :
    1 ≤ (g.verb offset nextArg).argNum := by
  rw [(verb_fields g offset nextArg).2.2.2.2.1]
  simp only [VerbSyn.wf, Bool.and_eq_true] at hg
  cases hi : g.idx with
  | none => simpa using hn
  | some i =>
    have : wfNumOpt g.idx = true := hg.1.2
    rw [hi] at this
    simpa using satNum_num_pos i this

theorem scanVerb_argNum_pos (cs : List Char) (offset nextArg : Nat) (v : Verb) (rest : List Char)
    (h : scanVerb cs offset nextArg = some (v, rest)) (hn : 1 ≤ nextArg) : 1 ≤ v.argNum := by
  obtain ⟨g, hg, _, rfl⟩ := scanVerb_sound cs offset nextArg v rest h
  exact verb_argNum_pos g hg offset nextArg hn

theorem text_length_pos (g : VerbSyn) : 1 ≤ g.text.length := by
  simp [VerbSyn.text]; omega

theorem scanVerb_shorter (cs : List Char) (offset nextArg : Nat) (v : Verb) (rest : List Char)
    (h : scanVerb cs offset nextArg = some (v, rest)) : rest.length < cs.length := by
  obtain ⟨g, _, rfl, _⟩ := scanVerb_sound cs offset nextArg v rest h
  have := text_length_pos g
  simp; omega

/-! ### `formatAppend` -/

/-- an explicit argument number beyond the arguments given is an error — whatever its size -/
theorem formatAppend_index_beyond (L : Lib) (g : VerbSyn) (hg : g.wf = true) (offset nextArg : Nat)
    (i : List Char) (hi : g.idx = some i) (args : List Value) (hlen : args.length < goMaxInt)
    (hb : args.length < decVal i) :
    formatAppend L (g.verb offset nextArg) args = .err "not enough arguments" := by
  apply formatAppend_missing
  rw [(verb_fields g offset nextArg).2.2.2.2.1, hi]
  simp only [VerbSyn.wf, Bool.and_eq_true] at hg
  have hw : wfNumOpt g.idx = true := hg.1.2
  rw [hi] at hw
  have := satNum_ge i (isNum_digits hw) (args.length + 1) hb (by omega)
  simp only [Option.map_some, Option.getD_some]
  omega

/-- a width beyond `formatMaxWidthPrec` is an error, whatever its size (when the argument exists) -/
theorem formatAppend_width_limit (L : Lib) (v : Verb) (args : List Value) (a : Value) (h0 : v.argNum ≠ 0)
    (ha : args[v.argNum - 1]? = some a) (hw : v.hasWidth = true) (hl : formatMaxWidthPrec < v.width) :
    formatAppend L v args = .err "unsupported width" := by
  simp [formatAppend, h0, ha, hw, hl]

theorem formatAppend_prec_limit (L : Lib) (v : Verb) (args : List Value) (a : Value) (h0 : v.argNum ≠ 0)
    (ha : args[v.argNum - 1]? = some a) (hw : v.hasWidth = false ∨ v.width ≤ formatMaxWidthPrec)
    (hp : v.hasPrec = true) (hl : formatMaxWidthPrec < v.prec) :
    formatAppend L v args = .err "unsupported precision" := by
  have hw' : ¬ (v.hasWidth = true ∧ formatMaxWidthPrec < v.width) := by
    rintro ⟨h1, h2⟩
    rcases hw with h | h
    · rw [h] at h1; cases h1
    · omega
  simp [formatAppend, h0, ha, hw', hp, hl]

theorem formatAppend_no_panic (L : Lib) (v : Verb) (args : List Value) (h0 : 1 ≤ v.argNum) :
    (formatAppend L v args).isPanic = false := by
  have h0' : (v.argNum == 0) = false := by simp; omega
  unfold formatAppend
  simp only [h0', Bool.false_eq_true, if_false]
  repeat' split
  all_goals rfl

/-! ### the loop: fuel never runs out, no panic -/

theorem fsmLoop_fuel (L : Lib) (args : List Value) (fuel fuel' : Nat) (cs : List Char) (offset nextArg highest : Nat)
    (buf : String) (h : cs.length < fuel) (h' : cs.length < fuel') :
    fsmLoop L args fuel cs offset nextArg highest buf = fsmLoop L args fuel' cs offset nextArg highest buf := by
  induction fuel generalizing fuel' cs offset nextArg highest buf with
  | zero => omega
  | succ n ih =>
    cases fuel' with
    | zero => omega
    | succ m =>
      cases cs with
      | nil => simp [fsmLoop]
      | cons c rest =>
        simp only [List.length_cons] at h h'
        simp only [fsmLoop]
        split
        · exact ih _ _ _ _ _ _ (by omega) (by omega)
        · split
          · rfl
          · rename_i rest' _
            simp only [List.length_cons] at h h'
            exact ih _ _ _ _ _ _ (by omega) (by omega)
          · split
            · rfl
            · rename_i v rest' hs
              have := scanVerb_shorter _ _ _ _ _ hs
              split
              · exact ih _ _ _ _ _ _ (by omega) (by omega)
              · rfl
              · rfl
              · rfl

theorem fsmLoop_no_panic (L : Lib) (args : List Value) (fuel : Nat) (cs : List Char) (offset nextArg highest : Nat)
    (buf : String) (hn : 1 ≤ nextArg) :
    (fsmLoop L args fuel cs offset nextArg highest buf).isPanic = false := by
  induction fuel generalizing cs offset nextArg highest buf with
  | zero => simp [fsmLoop, Res.isPanic]
  | succ n ih =>
    cases cs with
    | nil => simp only [fsmLoop]; split <;> rfl
    | cons c rest =>
      simp only [fsmLoop]
      split
      · exact ih _ _ _ _ _ hn
      · split
        · rfl
        · exact ih _ _ _ _ _ hn
        · split
          · rfl
          · rename_i v rest' hs
            have hv := scanVerb_argNum_pos _ _ _ _ _ hs hn
            have hp := formatAppend_no_panic L v args hv
            split
            · exact ih _ _ _ _ _ (by omega)
            · rfl
            · rename_i w hw; rw [hw] at hp; simp [Res.isPanic] at hp
            · rfl

/-! ### the loop, one step at a time, in terms of the grammar -/

theorem text_head_not_percent (g : VerbSyn) (hg : g.wf = true) (rest : List Char) :
    ∃ c t, g.text ++ rest = c :: t ∧ c ≠ '%' := by
  obtain ⟨fl, wd, pr, ix, md⟩ := g
  simp only [VerbSyn.wf, Bool.and_eq_true, List.all_eq_true] at hg
  obtain ⟨⟨⟨⟨hfl, hwd⟩, hpr⟩, hix⟩, hmd⟩ := hg
  have hml : md ≠ '%' := by rintro rfl; revert hmd; decide
  cases fl with
  | cons c t =>
    refine ⟨c, _, rfl, ?_⟩
    rintro rfl
    have := hfl '%' List.mem_cons_self
    revert this; decide
  | nil =>
    cases wd with
    | some w =>
      cases w with
      | nil => simp [wfNumOpt, isNum] at hwd
      | cons c t =>
        refine ⟨c, _, rfl, ?_⟩
        rintro rfl
        have := (isNum_cons (show isNum ('%' :: t) = true from hwd)).1
        revert this; decide
    | none =>
      cases pr with
      | some p => exact ⟨'.', _, rfl, by decide⟩
      | none =>
        cases ix with
        | some i => exact ⟨'[', _, rfl, by decide⟩
        | none => exact ⟨md, _, rfl, hml⟩

/-- **One verb.** At a `%` followed by a sentence `g` of the verb grammar the loop renders
the denoted verb at once: an error (of this verb) ends the call; otherwise the text is
appended, the next implicit argument number is the verb's own number + 1 (`[n]`
overrides the running number: "subsequent calls without an explicit index proceed with
n+1"), and the highest number used so far is kept. -/
theorem fsmLoop_verb (L : Lib) (args : List Value) (fuel : Nat) (g : VerbSyn) (hg : g.wf = true) (rest : List Char)
    (offset nextArg highest : Nat) (buf : String) :
    fsmLoop L args (fuel + 1) ('%' :: (g.text ++ rest)) offset nextArg highest buf =
      (match formatAppend L (g.verb offset nextArg) args with
       | .ok s => fsmLoop L args fuel rest (offset + (g.text.length + 1)) ((g.verb offset nextArg).argNum + 1)
           (max highest (g.verb offset nextArg).argNum) (buf ++ s)
       | .err e => .err e
       | .panic w => .panic w
       | .unmodelled => .unmodelled) := by
  obtain ⟨c, t, hct, hc⟩ := text_head_not_percent g hg rest
  have hs := scanVerb_complete g hg rest offset nextArg
  have hraw : (g.verb offset nextArg).raw.length = g.text.length + 1 := by
    rw [(verb_fields g offset nextArg).2.2.2.2.2.2.2]; simp
  rw [hct] at hs ⊢
  simp only [fsmLoop, bne_self_eq_false, Bool.false_eq_true, if_false]
  split
  · rename_i heq; cases heq
  · rename_i heq; cases heq; exact absurd rfl hc
  · rw [hs]
    simp only [hraw]
    cases formatAppend L (g.verb offset nextArg) args <;> rfl

/-- a character other than `%` is copied -/
theorem fsmLoop_literal (L : Lib) (args : List Value) (fuel : Nat) (c : Char) (hc : c ≠ '%') (rest : List Char)
    (offset nextArg highest : Nat) (buf : String) :
    fsmLoop L args (fuel + 1) (c :: rest) offset nextArg highest buf =
      fsmLoop L args fuel rest (offset + c.utf8Size) nextArg highest (buf.push c) := by
  simp [fsmLoop, hc]

/-- `%%` is a literal percent sign and consumes no argument -/
theorem fsmLoop_percent (L : Lib) (args : List Value) (fuel : Nat) (rest : List Char)
    (offset nextArg highest : Nat) (buf : String) :
    fsmLoop L args (fuel + 1) ('%' :: '%' :: rest) offset nextArg highest buf =
      fsmLoop L args fuel rest (offset + 2) nextArg highest (buf.push '%') := by
  simp [fsmLoop]

/-- at the end: arguments beyond the highest number used are an error -/
theorem fsmLoop_end (L : Lib) (args : List Value) (fuel : Nat) (offset nextArg highest : Nat) (buf : String) :
    fsmLoop L args (fuel + 1) [] offset nextArg highest buf =
      if highest < args.length then .err "too many arguments" else .ok buf := by
  simp [fsmLoop]

end StdNum
end CtyModel
