/-
Lemmas: the odometer of `setproduct` enumerates the row-major Cartesian product.

`odoInc` is the Go loop that steps the index vector `n`; `trace` lists the
successive index vectors.  The main fact (`trace_zeros`) is that, started from
all zeros, the odometer visits exactly `Spec.cartesian` of the index ranges, in
that order, carrying out of the leftmost digit exactly at the last one.  The
value-level statement (`productLoop_eq`) follows by reading the index vectors
off against the argument slices.
-/
import CtyModel.Lemmas.StdlibMap
namespace CtyModel
namespace Stdlib
open Value

/-! ### the odometer on index vectors -/

def odoNext (lens n : List Nat) : List Nat := (odoInc lens n).2
def odoCarry (lens n : List Nat) : Bool := (odoInc lens n).1

/-- `k` successive index vectors, starting with `n` -/
def trace (lens : List Nat) : Nat → List Nat → List (List Nat)
  | 0, _ => []
  | k + 1, n => n :: trace lens k (odoNext lens n)

/-- the index vector after `k` steps -/
def iter (lens : List Nat) : Nat → List Nat → List Nat
  | 0, n => n
  | k + 1, n => iter lens k (odoNext lens n)

def zeros (lens : List Nat) : List Nat := lens.map fun _ => 0

theorem trace_length (lens : List Nat) (k : Nat) (n : List Nat) : (trace lens k n).length = k := by
  induction k generalizing n with
  | zero => rfl
  | succ k ih => simp [trace, ih]

theorem trace_add (lens : List Nat) (a b : Nat) (n : List Nat) :
    trace lens (a + b) n = trace lens a n ++ trace lens b (iter lens a n) := by
  induction a generalizing n with
  | zero => simp [trace, iter]
  | succ a ih =>
    have : a + 1 + b = (a + b) + 1 := by omega
    rw [this]
    simp [trace, iter, ih]

theorem iter_add (lens : List Nat) (a b : Nat) (n : List Nat) :
    iter lens (a + b) n = iter lens b (iter lens a n) := by
  induction a generalizing n with
  | zero => simp [iter]
  | succ a ih =>
    have : a + 1 + b = (a + b) + 1 := by omega
    rw [this]
    simp [iter, ih]

theorem trace_succ (lens : List Nat) (k : Nat) (n : List Nat) :
    trace lens (k + 1) n = trace lens k n ++ [iter lens k n] := by
  have := trace_add lens k 1 n
  simpa [trace] using this

/-- a carry out of the leftmost digit leaves all digits at zero -/
theorem odoInc_carry_zeros (lens n : List Nat) (h : odoCarry lens n = true) (hl : lens.length = n.length) :
    odoNext lens n = zeros lens := by
  induction lens generalizing n with
  | nil => cases n <;> simp_all [odoNext, odoInc, zeros]
  | cons l ls ih =>
    cases n with
    | nil => simp at hl
    | cons x xs =>
      simp only [odoCarry, odoInc] at h
      simp only [odoNext, odoInc, zeros, List.map_cons]
      by_cases hc : (odoInc ls xs).1 = true
      · simp only [hc, if_true] at h ⊢
        by_cases hx : x + 1 < l
        · simp [hx] at h
        · simp only [hx, if_false]
          have := ih xs hc (by simpa using hl)
          simp only [odoNext, zeros] at this
          simp [this]
      · simp [hc] at h

/-- the tail does not carry: the head digit stays -/
theorem odoInc_cons_nocarry (l : Nat) (ls : List Nat) (x : Nat) (xs : List Nat)
    (h : odoCarry ls xs = false) :
    odoInc (l :: ls) (x :: xs) = (false, x :: odoNext ls xs) := by
  simp only [odoCarry] at h
  simp [odoInc, h, odoNext]

/-- the tail carries: the head digit steps, or wraps with a carry -/
theorem odoInc_cons_carry (l : Nat) (ls : List Nat) (x : Nat) (xs : List Nat)
    (h : odoCarry ls xs = true) :
    odoInc (l :: ls) (x :: xs) =
      if x + 1 < l then (false, (x + 1) :: odoNext ls xs) else (true, 0 :: odoNext ls xs) := by
  simp only [odoCarry] at h
  simp [odoInc, h, odoNext]

/-- while the tail does not carry, the big odometer is the tail odometer with the head digit fixed -/
theorem trace_lift (l : Nat) (ls : List Nat) (x : Nat) (k : Nat) (ns : List Nat)
    (h : ∀ s ∈ trace ls k ns, odoCarry ls s = false) :
    trace (l :: ls) k (x :: ns) = (trace ls k ns).map (x :: ·) ∧
    iter (l :: ls) k (x :: ns) = x :: iter ls k ns ∧
    ∀ s ∈ trace (l :: ls) k (x :: ns), odoCarry (l :: ls) s = false := by
  induction k generalizing ns with
  | zero => simp [trace, iter]
  | succ k ih =>
    have h0 : odoCarry ls ns = false := h ns (by simp [trace])
    have hstep := odoInc_cons_nocarry l ls x ns h0
    have hn : odoNext (l :: ls) (x :: ns) = x :: odoNext ls ns := by simp [odoNext, hstep]
    have hc : odoCarry (l :: ls) (x :: ns) = false := by simp [odoCarry, hstep]
    obtain ⟨h1, h2, h3⟩ := ih (odoNext ls ns) (fun s hs => h s (by simp [trace, hs]))
    refine ⟨by simp [trace, hn, h1], by simp [iter, hn, h2], ?_⟩
    intro s hs
    simp only [trace, hn, List.mem_cons] at hs
    rcases hs with rfl | hs
    · exact hc
    · exact h3 s hs

/-- what is known of a complete run of an odometer from all zeros -/
structure FullRun (lens : List Nat) (C : List (List Nat)) : Prop where
  ne : C ≠ []
  run : trace lens C.length (zeros lens) = C
  quiet : ∀ s ∈ C.dropLast, odoCarry lens s = false
  last : ∀ s, C.getLast? = some s → odoCarry lens s = true
  len : ∀ s ∈ C, s.length = lens.length

theorem getLast?_map {α β} (f : α → β) (l : List α) : (l.map f).getLast? = l.getLast?.map f := by
  induction l with
  | nil => rfl
  | cons a l ih =>
    cases l with
    | nil => rfl
    | cons b l => simpa [List.getLast?_cons_cons] using ih

theorem dropLast_append_getLast? {α} (l : List α) (a : α) (h : l.getLast? = some a) :
    l = l.dropLast ++ [a] := by
  induction l with
  | nil => simp at h
  | cons b l ih =>
    cases l with
    | nil => simp at h; simp [h]
    | cons c l =>
      rw [List.getLast?_cons_cons] at h
      have := ih h
      simp only [List.dropLast_cons₂, List.cons_append]
      rw [← this]

/-- one block: the tail runs through completely while the head digit is `x` -/
theorem trace_block (l : Nat) (ls : List Nat) (C : List (List Nat)) (hC : FullRun ls C) (x : Nat) :
    trace (l :: ls) C.length (x :: zeros ls) = C.map (x :: ·) ∧
    iter (l :: ls) C.length (x :: zeros ls) = (if x + 1 < l then x + 1 else 0) :: zeros ls ∧
    (∀ s ∈ (C.map (x :: ·)).dropLast, odoCarry (l :: ls) s = false) ∧
    (∀ s, (C.map (x :: ·)).getLast? = some s → odoCarry (l :: ls) s = decide (¬ x + 1 < l)) := by
  obtain ⟨k, hk⟩ : ∃ k, C.length = k + 1 := by
    cases C with
    | nil => exact absurd rfl hC.ne
    | cons c C => exact ⟨C.length, rfl⟩
  obtain ⟨lastC, hlast⟩ : ∃ s, C.getLast? = some s := by
    cases hg : C.getLast? with
    | none => simp [List.getLast?_eq_none_iff] at hg; exact absurd hg hC.ne
    | some s => exact ⟨s, rfl⟩
  have hsplit := dropLast_append_getLast? C lastC hlast
  -- the tail run splits into its quiet part and its last state
  have hrun := hC.run
  rw [hk, trace_succ] at hrun
  have hdl : (C.dropLast).length = k := by simp [hk]
  have hquietTrace : trace ls k (zeros ls) = C.dropLast ∧ iter ls k (zeros ls) = lastC := by
    have : trace ls k (zeros ls) ++ [iter ls k (zeros ls)] = C.dropLast ++ [lastC] := by rw [hrun, ← hsplit]
    have hlen : (trace ls k (zeros ls)).length = (C.dropLast).length := by rw [trace_length, hdl]
    have := List.append_inj this hlen
    exact ⟨this.1, by simpa using this.2⟩
  obtain ⟨h1, h2, h3⟩ := trace_lift l ls x k (zeros ls) (by
    intro s hs; rw [hquietTrace.1] at hs; exact hC.quiet s hs)
  have hcl : odoCarry ls lastC = true := hC.last lastC hlast
  have hll : ls.length = lastC.length := by
    have := hC.len lastC (by rw [hsplit]; simp)
    exact this.symm
  have hnextLast : odoNext ls lastC = zeros ls := odoInc_carry_zeros ls lastC hcl hll
  have hbig := odoInc_cons_carry l ls x lastC hcl
  rw [hnextLast] at hbig
  have hmapsplit : C.map (x :: ·) = (C.dropLast).map (x :: ·) ++ [x :: lastC] := by
    conv => lhs; rw [hsplit]
    simp
  have hdlm : (C.map (x :: ·)).dropLast = (C.dropLast).map (x :: ·) := by
    rw [hmapsplit]; simp
  refine ⟨?_, ?_, ?_, ?_⟩
  · rw [hk, trace_succ, h1, h2, hquietTrace.1, hquietTrace.2, hmapsplit]
  · rw [hk]
    show iter (l :: ls) (k + 1) (x :: zeros ls) = _
    have : iter (l :: ls) (k + 1) (x :: zeros ls) = odoNext (l :: ls) (iter (l :: ls) k (x :: zeros ls)) := by
      have := iter_add (l :: ls) k 1 (x :: zeros ls)
      simpa [iter] using this
    rw [this, h2, hquietTrace.2]
    simp only [odoNext, hbig]
    split <;> rfl
  · intro s hs
    rw [hdlm, ← hquietTrace.1, ← h1] at hs
    exact h3 s hs
  · intro s hs
    rw [getLast?_map, hlast] at hs
    simp only [Option.map_some, Option.some.injEq] at hs
    subst hs
    simp only [odoCarry, hbig]
    by_cases hx : x + 1 < l
    · simp [hx]
    · simp [hx]

theorem flatMap_range_succ {α} (f : Nat → List α) (m : Nat) :
    (List.range (m + 1)).flatMap f = (List.range m).flatMap f ++ f m := by
  simp [List.range_succ, List.flatMap_append]

/-- the first `m < l` blocks: no carry anywhere, the head digit arrives at `m` -/
theorem trace_blocks (l : Nat) (ls : List Nat) (C : List (List Nat)) (hC : FullRun ls C) :
    ∀ m, m < l →
      let L := (List.range m).flatMap fun x => C.map (x :: ·)
      trace (l :: ls) L.length (0 :: zeros ls) = L ∧
      iter (l :: ls) L.length (0 :: zeros ls) = m :: zeros ls ∧
      ∀ s ∈ L, odoCarry (l :: ls) s = false := by
  intro m
  induction m with
  | zero => intro _; simp [trace, iter]
  | succ m ih =>
    intro hm
    obtain ⟨h1, h2, h3⟩ := ih (by omega)
    obtain ⟨b1, b2, b3, b4⟩ := trace_block l ls C hC m
    simp only
    rw [flatMap_range_succ, List.length_append, trace_add, iter_add, h1, h2, List.length_map, b1, b2]
    have hlt : m + 1 < l := hm
    simp only [hlt, if_true, true_and]
    intro s hs
    rcases List.mem_append.mp hs with hs | hs
    · exact h3 s hs
    · -- inside block m: the last state does not carry out either, because m + 1 < l
      obtain ⟨lastC, hlast⟩ : ∃ s, (C.map (m :: ·)).getLast? = some s := by
        cases hg : (C.map (m :: ·)).getLast? with
        | none =>
          simp [List.getLast?_eq_none_iff] at hg
          exact absurd hg hC.ne
        | some s => exact ⟨s, rfl⟩
      have hsplit := dropLast_append_getLast? _ lastC hlast
      rw [hsplit] at hs
      rcases List.mem_append.mp hs with hs | hs
      · exact b3 s hs
      · simp only [List.mem_singleton] at hs
        subst hs
        have := b4 s hlast
        simpa [hlt] using this

theorem cartesian_ne_nil_of_pos (lens : List Nat) (h : ∀ l ∈ lens, 0 < l) :
    Spec.cartesian (lens.map List.range) ≠ [] := by
  induction lens with
  | nil => simp [Spec.cartesian]
  | cons l ls ih =>
    have hl : 0 < l := h l (by simp)
    have := ih (fun x hx => h x (by simp [hx]))
    obtain ⟨l', rfl⟩ : ∃ l', l = l' + 1 := ⟨l - 1, by omega⟩
    simp only [List.map_cons, Spec.cartesian, List.range_succ_eq_map, List.flatMap_cons]
    cases hc : Spec.cartesian (ls.map List.range) with
    | nil => exact absurd hc this
    | cons c cs => simp

/-- **The odometer enumerates the product.**  Started from all zeros, with every
digit range non-empty, it visits the row-major Cartesian product of the index
ranges, and carries out exactly after the last one. -/
theorem trace_zeros (lens : List Nat) (h : ∀ l ∈ lens, 0 < l) :
    FullRun lens (Spec.cartesian (lens.map List.range)) := by
  induction lens with
  | nil =>
    exact ⟨by simp [Spec.cartesian], by simp [Spec.cartesian, trace, zeros],
      by simp [Spec.cartesian], by simp [Spec.cartesian, odoCarry, odoInc], by simp [Spec.cartesian]⟩
  | cons l ls ih =>
    have hl : 0 < l := h l (by simp)
    have hC := ih (fun x hx => h x (by simp [hx]))
    obtain ⟨m, rfl⟩ : ∃ m, l = m + 1 := ⟨l - 1, by omega⟩
    obtain ⟨h1, h2, h3⟩ := trace_blocks (m + 1) ls _ hC m (by omega)
    obtain ⟨b1, b2, b3, b4⟩ := trace_block (m + 1) ls _ hC m
    have hcart : Spec.cartesian (((m + 1) :: ls).map List.range) =
        ((List.range m).flatMap fun x => (Spec.cartesian (ls.map List.range)).map (x :: ·)) ++
          (Spec.cartesian (ls.map List.range)).map (m :: ·) := by
      simp only [List.map_cons, Spec.cartesian]
      exact flatMap_range_succ _ m
    have hz : zeros ((m + 1) :: ls) = 0 :: zeros ls := rfl
    have hbne : (Spec.cartesian (ls.map List.range)).map (m :: ·) ≠ [] := by
      simpa using hC.ne
    obtain ⟨lastB, hlastB⟩ : ∃ s, ((Spec.cartesian (ls.map List.range)).map (m :: ·)).getLast? = some s := by
      cases hg : ((Spec.cartesian (ls.map List.range)).map (m :: ·)).getLast? with
      | none => simp [List.getLast?_eq_none_iff] at hg; exact absurd hg hC.ne
      | some s => exact ⟨s, rfl⟩
    refine ⟨by rw [hcart]; simp [hbne], ?_, ?_, ?_, ?_⟩
    · rw [hcart, hz, List.length_append, trace_add, h1, h2, List.length_map, b1]
    · rw [hcart, List.dropLast_append_of_ne_nil hbne]
      intro s hs
      rcases List.mem_append.mp hs with hs | hs
      · exact h3 s hs
      · exact b3 s hs
    · intro s hs
      rw [hcart, List.getLast?_append, hlastB] at hs
      simp only [Option.some_or, Option.some.injEq] at hs
      subst hs
      have := b4 lastB hlastB
      simpa using this
    · intro s hs
      rw [hcart] at hs
      simp only [List.mem_append, List.mem_flatMap, List.mem_range, List.mem_map] at hs
      rcases hs with ⟨x, _, c, hc, rfl⟩ | ⟨c, hc, rfl⟩ <;> simp [hC.len c hc]

/-! ### from index vectors to rows of values -/

/-- the rows `productLoop` builds for a list of index vectors -/
def rowsOf (E : Env) (argVals : List (List Value)) (tys : List Ty) : List (List Nat) → Res (List (List Value))
  | [] => .ok []
  | n :: ns =>
    match productRow E argVals n tys with
    | .ok row =>
      (match rowsOf E argVals tys ns with
       | .ok rows => .ok (row :: rows)
       | r => r)
    | r => Res.cast r

theorem productLoop_eq_rowsOf (E : Env) (argVals : List (List Value)) (tys : List Ty) (k : Nat) (n : List Nat) :
    productLoop E argVals tys k n = rowsOf E argVals tys (trace (argVals.map (·.length)) k n) := by
  induction k generalizing n with
  | zero => rfl
  | succ k ih =>
    simp only [productLoop, trace, rowsOf, ih, odoNext]
    cases productRow E argVals n tys with
    | ok row =>
      simp only
      cases rowsOf E argVals tys (trace (argVals.map (·.length)) k (odoInc (argVals.map (·.length)) n).2) <;> rfl
    | err c => rfl
    | panic c => rfl
    | unmodelled => rfl

theorem rowsOf_append (E : Env) (argVals : List (List Value)) (tys : List Ty) (A B : List (List Nat))
    (a b : List (List Value)) (hA : rowsOf E argVals tys A = .ok a) (hB : rowsOf E argVals tys B = .ok b) :
    rowsOf E argVals tys (A ++ B) = .ok (a ++ b) := by
  induction A generalizing a with
  | nil => simp [rowsOf] at hA; subst hA; simpa using hB
  | cons n ns ih =>
    simp only [rowsOf] at hA
    cases hr : productRow E argVals n tys with
    | ok row =>
      simp only [hr] at hA
      cases hrs : rowsOf E argVals tys ns with
      | ok rows =>
        simp only [hrs, Res.ok.injEq] at hA
        subst hA
        simp [rowsOf, hr, ih rows hrs]
      | err c => simp [hrs] at hA
      | panic c => simp [hrs] at hA
      | unmodelled => simp [hrs] at hA
    | err c => simp [hr] at hA
    | panic c => simp [hr] at hA
    | unmodelled => simp [hr] at hA

/-- every value of argument `j` already has the `j`-th element type of the result
(no conversion is needed) -/
def TypesMatch : List (List Value) → List Ty → Prop
  | [], [] => True
  | vals :: rest, ty :: tys => (∀ v ∈ vals, v.ty.equals ty = true) ∧ TypesMatch rest tys
  | _, _ => False

theorem rowsOf_block (E : Env) (vals : List Value) (rest : List (List Value)) (ty : Ty) (tys : List Ty)
    (C : List (List Nat)) (R : List (List Value)) (hR : rowsOf E rest tys C = .ok R)
    (x : Nat) (v : Value) (hv : vals[x]? = some v) (hty : v.ty.equals ty = true) :
    rowsOf E (vals :: rest) (ty :: tys) (C.map (x :: ·)) = .ok (R.map (v :: ·)) := by
  induction C generalizing R with
  | nil => simp [rowsOf] at hR; subst hR; rfl
  | cons n ns ih =>
    simp only [rowsOf] at hR
    cases hr : productRow E rest n tys with
    | ok row =>
      simp only [hr] at hR
      cases hrs : rowsOf E rest tys ns with
      | ok rows =>
        simp only [hrs, Res.ok.injEq] at hR
        subst hR
        simp [rowsOf, productRow, hv, hty, hr, ih rows hrs]
      | err c => simp [hrs] at hR
      | panic c => simp [hrs] at hR
      | unmodelled => simp [hrs] at hR
    | err c => simp [hr] at hR
    | panic c => simp [hr] at hR
    | unmodelled => simp [hr] at hR

theorem rowsOf_blocks (E : Env) (vals : List Value) (rest : List (List Value)) (ty : Ty) (tys : List Ty)
    (C : List (List Nat)) (R : List (List Value)) (hR : rowsOf E rest tys C = .ok R)
    (hty : ∀ v ∈ vals, v.ty.equals ty = true) :
    ∀ m, m ≤ vals.length →
      rowsOf E (vals :: rest) (ty :: tys) ((List.range m).flatMap fun x => C.map (x :: ·)) =
        .ok ((vals.take m).flatMap fun v => R.map (v :: ·)) := by
  intro m
  induction m with
  | zero => intro _; simp [rowsOf]
  | succ m ih =>
    intro hm
    have hlt : m < vals.length := by omega
    rw [flatMap_range_succ]
    have hb := rowsOf_block E vals rest ty tys C R hR m vals[m] (List.getElem?_eq_getElem hlt)
      (hty _ (List.getElem_mem hlt))
    rw [rowsOf_append E _ _ _ _ _ _ (ih (by omega)) hb]
    rw [List.take_succ_eq_append_getElem hlt, List.flatMap_append]
    simp

/-- reading the index product off against the argument slices gives the product of the slices -/
theorem rowsOf_cartesian (E : Env) (argVals : List (List Value)) (tys : List Ty) (h : TypesMatch argVals tys) :
    rowsOf E argVals tys (Spec.cartesian ((argVals.map (·.length)).map List.range)) =
      .ok (Spec.cartesian argVals) := by
  induction argVals generalizing tys with
  | nil =>
    cases tys with
    | nil => simp [Spec.cartesian, rowsOf, productRow]
    | cons t ts => simp [TypesMatch] at h
  | cons vals rest ih =>
    cases tys with
    | nil => simp [TypesMatch] at h
    | cons ty tys =>
      obtain ⟨hty, hrest⟩ := h
      have := rowsOf_blocks E vals rest ty tys _ _ (ih tys hrest) hty vals.length (Nat.le_refl _)
      simpa [Spec.cartesian] using this

theorem length_cartesian_ranges (lens : List Nat) :
    (Spec.cartesian (lens.map List.range)).length = lens.foldr (· * ·) 1 := by
  induction lens with
  | nil => simp [Spec.cartesian]
  | cons l ls ih =>
    simp only [List.map_cons, Spec.cartesian, List.foldr_cons]
    rw [← ih]
    generalize Spec.cartesian (ls.map List.range) = C
    induction l with
    | zero => simp
    | succ l ihl =>
      rw [flatMap_range_succ, List.length_append, ihl, List.length_map]
      rw [Nat.succ_mul]

/-- **`setproduct`'s loop computes the row-major Cartesian product** of the
argument slices, when all of them are non-empty and no element needs conversion -/
theorem productLoop_eq (E : Env) (argVals : List (List Value)) (tys : List Ty)
    (hne : ∀ vals ∈ argVals, vals ≠ []) (h : TypesMatch argVals tys) :
    productLoop E argVals tys ((argVals.map (·.length)).foldr (· * ·) 1) (argVals.map fun _ => 0) =
      .ok (Spec.cartesian argVals) := by
  have hpos : ∀ l ∈ argVals.map (·.length), 0 < l := by
    intro l hl
    obtain ⟨vals, hv, rfl⟩ := List.mem_map.mp hl
    exact List.length_pos_iff.mpr (hne vals hv)
  have hrun := (trace_zeros _ hpos).run
  rw [length_cartesian_ranges] at hrun
  have hz : (argVals.map fun _ => 0) = zeros (argVals.map (·.length)) := by simp [zeros]
  rw [productLoop_eq_rowsOf, hz, hrun, rowsOf_cartesian E argVals tys h]

/-! ### `setproduct` of known lists -/

/-- the argument slices of known lists `(element type, members)` -/
def listSlices (lists : List (Ty × List Payload)) : List (List Value) :=
  lists.map fun l => l.2.map (⟨l.1, ·⟩)
/-- the known list values themselves -/
def listArgs (lists : List (Ty × List Payload)) : List Value :=
  lists.map fun l => ⟨.list l.1, .seq l.2⟩

theorem setProductScan_lists (lists : List (Ty × List Payload)) (t : Nat) :
    setProductScan (listArgs lists) [] t false =
      .ok ([], t * ((listSlices lists).map (·.length)).foldr (· * ·) 1, false) := by
  induction lists generalizing t with
  | nil => simp [listArgs, listSlices, setProductScan]
  | cons l ls ih =>
    have hk : (⟨.list l.1, .seq l.2⟩ : Value).unmark = ⟨.list l.1, .seq l.2⟩ := rfl
    have hm : (⟨.list l.1, .seq l.2⟩ : Value).marks = [] := rfl
    have hkn : (⟨.list l.1, .seq l.2⟩ : Value).isKnown = true := rfl
    simp only [listArgs, List.map_cons, setProductScan, hk, hm, hkn, unionMarks, List.foldr_nil,
      Bool.not_true, Bool.false_eq_true, if_false, length_list_known, Res.map, intVal_isKnown,
      lengthInt_list]
    have := ih (t * l.2.length)
    simp only [listArgs] at this
    rw [this]
    simp [listSlices, Nat.mul_assoc]

theorem argSlices_lists (E : Env) (lists : List (Ty × List Payload)) :
    argSlices E (listArgs lists) = .ok (listSlices lists) := by
  induction lists with
  | nil => rfl
  | cons l ls ih =>
    have hk : (⟨.list l.1, .seq l.2⟩ : Value).unmark = ⟨.list l.1, .seq l.2⟩ := rfl
    simp only [listArgs, List.map_cons, argSlices, hk, asValueSlice_list]
    simp only [listArgs] at ih
    rw [ih]
    rfl

theorem typesMatch_lists (lists : List (Ty × List Payload)) (he : ∀ l ∈ lists, l.1.equals l.1 = true) :
    TypesMatch (listSlices lists) (lists.map (·.1)) := by
  induction lists with
  | nil => trivial
  | cons l ls ih =>
    refine ⟨?_, ih (fun x hx => he x (by simp [hx]))⟩
    intro v hv
    obtain ⟨p, _, rfl⟩ := List.mem_map.mp hv
    exact he l (by simp)

theorem tysOf_cartesian (lists : List (Ty × List Payload)) :
    ∀ row ∈ Spec.cartesian (listSlices lists), Gocty.tysOf row = lists.map (·.1) := by
  induction lists with
  | nil => simp [listSlices, Spec.cartesian, Gocty.tysOf]
  | cons l ls ih =>
    intro row hrow
    simp only [listSlices, List.map_cons, Spec.cartesian, List.mem_flatMap, List.mem_map] at hrow
    obtain ⟨v, ⟨p, _, rfl⟩, r, hr, rfl⟩ := hrow
    simp [Gocty.tysOf, ih r (by simpa [listSlices] using hr)]

theorem payloads_cartesian (lists : List (Ty × List Payload)) :
    (Spec.cartesian (listSlices lists)).map Gocty.payloads = Spec.cartesian (lists.map (·.2)) := by
  induction lists with
  | nil => simp [listSlices, Spec.cartesian, Gocty.payloads]
  | cons l ls ih =>
    simp only [listSlices, List.map_cons, Spec.cartesian, List.map_flatMap, List.flatMap_map, List.map_map]
    simp only [listSlices] at ih
    rw [← ih]
    simp [Function.comp_def, Gocty.payloads, List.map_map]

theorem cartesian_ne_nil {α} (ls : List (List α)) (h : ∀ l ∈ ls, l ≠ []) : Spec.cartesian ls ≠ [] := by
  induction ls with
  | nil => simp [Spec.cartesian]
  | cons l ls ih =>
    have hl := h l (by simp)
    have := ih (fun x hx => h x (by simp [hx]))
    cases l with
    | nil => exact absurd rfl hl
    | cons a l =>
      cases hc : Spec.cartesian ls with
      | nil => exact absurd hc this
      | cons c cs => simp [Spec.cartesian, hc]

theorem prod_pos (lens : List Nat) (h : ∀ l ∈ lens, 0 < l) : 0 < lens.foldr (· * ·) 1 := by
  induction lens with
  | nil => simp
  | cons l ls ih =>
    simp only [List.foldr_cons]
    exact Nat.mul_pos (h l (by simp)) (ih (fun x hx => h x (by simp [hx])))

theorem equals_tuple_refl (tys : List Ty) (h : ∀ t ∈ tys, t.equals t = true) :
    (Ty.tuple tys).equals (.tuple tys) = true := by
  have : Ty.equalsZip tys tys = true := by
    induction tys with
    | nil => simp [Ty.equalsZip]
    | cons t ts ih => simp [Ty.equalsZip, h t (by simp), ih (fun x hx => h x (by simp [hx]))]
  simp [Ty.equals, this]

/-- **`setproduct` of known non-empty lists** (element types as they are, so no
conversion): the list of all tuples, in row-major order -/
theorem setProductImpl_lists (E : Env) (lists : List (Ty × List Payload))
    (hne : ∀ l ∈ lists, l.2 ≠ []) (he : ∀ l ∈ lists, l.1.equals l.1 = true) :
    setProductImpl E (listArgs lists) (.list (.tuple (lists.map (·.1)))) =
      .ok ⟨.list (.tuple (lists.map (·.1))), .seq ((Spec.cartesian (lists.map (·.2))).map Payload.seq)⟩ := by
  have hneS : ∀ vals ∈ listSlices lists, vals ≠ [] := by
    intro vals hv
    obtain ⟨l, hl, rfl⟩ := List.mem_map.mp hv
    simpa using hne l hl
  have hpos := prod_pos ((listSlices lists).map (·.length)) (by
    intro n hn
    obtain ⟨vals, hv, rfl⟩ := List.mem_map.mp hn
    exact List.length_pos_iff.mpr (hneS vals hv))
  have hloop := productLoop_eq E (listSlices lists) (lists.map (·.1)) hneS (typesMatch_lists lists he)
  have hz : ((listArgs lists).map fun _ => 0) = ((listSlices lists).map fun _ => 0) := by
    simp [listArgs, listSlices]
  simp only [setProductImpl, elementTypeOf, setProductScan_lists lists 1, Nat.one_mul, Bool.false_eq_true,
    if_false, argSlices_lists, hz, hloop]
  have h0 : ¬ (((listSlices lists).map (·.length)).foldr (· * ·) 1 = 0) := by omega
  simp only [beq_iff_eq, h0, if_false, isListTy, if_true]
  -- the rows as tuple values
  have hrows : (Spec.cartesian (listSlices lists)).map Gocty.tupleVal =
      ((Spec.cartesian (lists.map (·.2))).map Payload.seq).map (⟨.tuple (lists.map (·.1)), ·⟩) := by
    rw [← payloads_cartesian, List.map_map, List.map_map]
    apply List.map_congr_left
    intro row hrow
    simp [Gocty.tupleVal, tysOf_cartesian lists row hrow]
  have hcne : (Spec.cartesian (lists.map (·.2))).map Payload.seq ≠ [] := by
    have := cartesian_ne_nil (lists.map (·.2)) (by
      intro l hl
      obtain ⟨x, hx, rfl⟩ := List.mem_map.mp hl
      exact hne x hx)
    simpa using this
  rw [hrows, listVal_map _ (equals_tuple_refl _ (by
    intro t ht
    obtain ⟨l, hl, rfl⟩ := List.mem_map.mp ht
    exact he l hl)) _ hcne]
  simp [Res.map, withMarkSets, Fn.withMarkSets, Fn.unionAll, unionMarks, Value.withMarks,
    Payload.withMarks, Payload.marks1]

theorem setProductTypeLoop_lists (E : Env) (lists : List (Ty × List Payload)) :
    setProductTypeLoop E (listArgs lists) = .ok (lists.map (·.1), lists.length) := by
  induction lists with
  | nil => rfl
  | cons l ls ih =>
    simp only [listArgs, List.map_cons, setProductTypeLoop]
    simp only [listArgs] at ih
    rw [ih]
    simp [Nat.add_comm]

/-- result type: a list of tuples of the element types, for two or more lists -/
theorem setProductType_lists (E : Env) (lists : List (Ty × List Payload)) (h2 : 2 ≤ lists.length) :
    setProductType E (listArgs lists) = .ok (.list (.tuple (lists.map (·.1)))) := by
  have hl : (listArgs lists).length = lists.length := by simp [listArgs]
  have : ¬ (listArgs lists).length < 2 := by omega
  simp [setProductType, this, setProductTypeLoop_lists, hl]
  omega

/-- fewer than two arguments are rejected -/
theorem setProductType_few (E : Env) (args : List Value) (h : args.length < 2) :
    Fails (setProductType E args) :=
  ⟨"at least two arguments are required", by simp [setProductType, h]⟩

/-- an empty argument makes the product empty -/
theorem setProductImpl_lists_empty (E : Env) (lists : List (Ty × List Payload))
    (hex : ∃ l ∈ lists, l.2 = []) :
    setProductImpl E (listArgs lists) (.list (.tuple (lists.map (·.1)))) =
      .ok ⟨.list (.tuple (lists.map (·.1))), .seq []⟩ := by
  have hz : ((listSlices lists).map (·.length)).foldr (· * ·) 1 = 0 := by
    obtain ⟨l, hl, hnil⟩ := hex
    induction lists with
    | nil => simp at hl
    | cons x xs ih =>
      simp only [listSlices, List.map_cons, List.foldr_cons, List.length_map]
      rcases List.mem_cons.mp hl with rfl | hl
      · simp [hnil]
      · have := ih hl
        simp only [listSlices, List.map_map] at this
        simp only [List.map_map]
        rw [this, Nat.mul_zero]
  simp [setProductImpl, elementTypeOf, setProductScan_lists lists 1, hz, isListTy, listEmpty,
    withMarkSets, Fn.withMarkSets, Fn.unionAll, unionMarks, Value.withMarks, Payload.withMarks, Payload.marks1]

end Stdlib
end CtyModel
