/-
C17 (MessagePack half) — a value `D17.unmarshal` returns is WELL-FORMED in the sense of C06
(`Value.WF`, "NFC" read as "fixed point of `norm`"), relative to the laws of the external functions
(`WLaws E`: `norm` idempotent; `cty.SetVal` returns a well-formed unmarked set when given well-formed
unmarked members of one element type).
-/
import CtyModel.Lemmas.d17MsgpackImplied
import CtyModel.WF
namespace CtyModel
namespace D17
open Msgpack Refine Ty

abbrev nfcM (E : Ext) : String → Bool := C17Json.nfcOf E.norm

/-- the laws of the external functions that the well-formedness clause needs -/
structure WLaws (E : Ext) : Prop where
  norm_idem : ∀ s, E.norm (E.norm s) = E.norm s
  set_wf : ∀ (e : Ty) (ps : List Payload) (p : Payload), Payload.wfAll (nfcM E) e ps = true →
    Payload.containsMarkedL ps = false → E.setOf e ps = .ok p →
    Payload.wfP (nfcM E) (.set e) p = true ∧ p.containsMarked = false

/-- what is shown of the payload of a decoded value -/
structure Fine (E : Ext) (v : Value) : Prop where
  names : Ty.namesAll (nfcM E) v.ty = true
  wfp : Payload.wfP (nfcM E) v.ty v.v = true
  clean : v.v.containsMarked = false
  dynp : v.ty = .dyn → v.v = .null ∨ v.v = .unk .unref

/-! ### the refinement builder's `NewValue` on an unknown receiver -/

theorem withMarks_nil {v : Value} (h : v.v.isMarked = false) : v.withMarks [] = v := by
  obtain ⟨t, p⟩ := v
  cases p <;> simp_all [Value.withMarks, Payload.withMarks, Payload.marks1, unionMarks, Payload.isMarked]

theorem replicate_fine (nfc : String → Bool) (e : Ty) : ∀ n : Nat,
    Payload.wfAll nfc e (List.replicate n (.unk .unref)) = true ∧
      Payload.containsMarkedL (List.replicate n (.unk .unref)) = false
  | 0 => by simp [Payload.wfAll, Payload.containsMarkedL]
  | n + 1 => by
    have := replicate_fine nfc e n
    simp [List.replicate, Payload.wfAll, Payload.wfP, kindOk, Payload.containsMarkedL, Payload.containsMarked, this]

theorem collapse_fine [EqOracle] (nfc : String → Bool) {ty : Ty} {r : Rfn} {v : Value} (hk : kindOk ty r = true)
    (h : collapse ty r = .ok (some v)) :
    v.ty = ty ∧ Payload.wfP nfc ty v.v = true ∧ v.v.containsMarked = false ∧ v.v.isMarked = false ∧ ty ≠ .dyn := by
  cases r with
  | unref => simp [collapse] at h
  | nullable n => simp [collapse] at h
  | str n p => simp [collapse] at h
  | num n lo hi =>
    have hty : ty = .number := by cases ty <;> simp [kindOk] at hk; rfl
    subst hty
    cases lo with
    | none => simp [collapse] at h
    | some lo =>
      cases hi with
      | none => simp [collapse] at h
      | some hi =>
        simp only [collapse] at h
        split at h
        · split at h
          · simp at h
          · simp at h; subst h; simp [Payload.wfP, Payload.containsMarked, Payload.isMarked]
          · simp at h
        · simp at h
  | coll n lo hi =>
    simp only [collapse] at h
    split at h
    · split at h
      · cases ty <;> simp [kindOk] at hk <;> simp at h <;> subst h <;>
          simp [Payload.wfP, Payload.wfAll, Payload.containsMarked, Payload.containsMarkedL, Payload.isMarked, idsAsc, noDup, Ty.strictAsc]
      · cases ty <;> simp [kindOk] at hk <;> simp at h
        · split at h
          · simp at h
          · simp at h; subst h
            have := replicate_fine nfc ‹Ty› lo.toNat
            simp [Payload.wfP, Payload.containsMarked, Payload.isMarked, this]
        · split at h
          · simp at h; subst h
            simp [Payload.wfP, Payload.wfAll, Payload.containsMarked, Payload.containsMarkedL, Payload.isMarked, idsAsc, noDup,
              kindOk]
          · simp at h
    · simp at h

section
variable [O : EqOracle] (E : Ext)

theorem rfnLoop_base (ty : Ty) : ∀ (n : Nat) (stream : List Item) (b : Builder) (st : LenSt) (b' : Builder) (st' : LenSt),
    rfnLoop E ty n stream b st = .ok (b', st') → Base b b'
  | 0, stream, b, st, b', st', h => by
    cases stream <;> (simp only [D17.rfnLoop] at h; cases h; exact Base.refl _)
  | _ + 1, [], _, _, _, _, h => by simp [D17.rfnLoop] at h
  | n + 1, k :: rest, b, st, b', st', h => by
    rw [D17.rfnLoop.eq_def] at h
    simp only at h
    repeat' split at h
    all_goals first
      | (cases h; done)
      | (exact rfnLoop_base ty n _ _ _ _ _ h)
      | (exact (step_base (by assumption)).trans (rfnLoop_base ty n _ _ _ _ _ h))

/-- `NewValue` of a builder that started from the unrefined unknown value of type `ty` -/
theorem newValue_fine {ty : Ty} {b : Builder} {w : Value} (hw : b.wf = true) (hm : b.marks = [])
    (ho : b.orig = Value.unknown ty) (h : newValue b = .ok w) :
    w.ty = ty ∧ Payload.wfP (nfcM E) ty w.v = true ∧ w.v.containsMarked = false ∧
      (ty = .dyn → w.v = .null ∨ w.v = .unk .unref) := by
  have hk : b.orig.isKnown = false := by rw [ho]; rfl
  have hkind : kindOk ty b.wip = true := by
    simp only [Builder.wf, ho, Bool.and_eq_true, Bool.or_eq_true] at hw
    rcases hw.2 with h0 | h0
    · rw [ho] at hk; rw [hk] at h0; cases h0
    · exact h0
  unfold newValue at h
  rw [hm, ho] at h
  split at h
  · simp at h; subst h
    rw [withMarks_nil (by rfl)]
    exact ⟨rfl, by simp [Value.unknown, Payload.wfP, kindOk], rfl, fun _ => Or.inr rfl⟩
  · rename_i hnd
    have hnd' : ty ≠ .dyn := by
      intro e; subst e
      apply hnd
      simp [Builder.isDyn, ho, isDynVal, Value.unknown]
    simp only at h
    split at h
    · simp at h
    · split at h
      · simp at h; subst h
        rw [withMarks_nil (by rfl)]
        exact ⟨rfl, by simp [Value.null, Payload.wfP], rfl, fun e => absurd e hnd'⟩
      · simp at h; subst h
        rw [withMarks_nil (by rfl)]
        exact ⟨rfl, by simpa [Value.unknown, Payload.wfP] using hkind, rfl, fun e => absurd e hnd'⟩
      · split at h
        · rename_i v hc
          simp at h; subst h
          obtain ⟨c1, c2, c3, c4, _⟩ := collapse_fine (nfcM E) (by simpa [Value.unknown] using hkind) hc
          rw [withMarks_nil c4]
          exact ⟨by simpa [Value.unknown] using c1, by simpa [Value.unknown] using c2, c3, fun e => absurd e hnd'⟩
        · simp at h; subst h
          rw [withMarks_nil (by rfl)]
          exact ⟨rfl, by simpa [Value.unknown, Payload.wfP] using hkind, rfl, fun e => absurd e hnd'⟩
        all_goals simp at h

end

/-! ### helpers on member lists -/

theorem retype_wfp {E : Ext} {v : Value} {e : Ty} (hf : Fine E v) (ht : v.ty = .dyn ∨ v.ty = e) :
    Payload.wfP (nfcM E) e v.v = true := by
  rcases ht with ht | ht
  · rcases hf.dynp ht with h | h <;> rw [h] <;> simp [Payload.wfP, kindOk]
  · rw [← ht]; exact hf.wfp

theorem members_fine {E : Ext} {e : Ty} : ∀ (vs : List Value), (∀ v ∈ vs, Fine E v) → (∀ v ∈ vs, v.ty = .dyn ∨ v.ty = e) →
    Payload.wfAll (nfcM E) e (payloads vs) = true ∧ Payload.containsMarkedL (payloads vs) = false
  | [], _, _ => by simp [payloads, Payload.wfAll, Payload.containsMarkedL]
  | v :: vs, hf, ht => by
    obtain ⟨i1, i2⟩ := members_fine vs (fun x hx => hf x (List.mem_cons_of_mem _ hx)) (fun x hx => ht x (List.mem_cons_of_mem _ hx))
    simp [payloads, Payload.wfAll, Payload.containsMarkedL, retype_wfp (hf v (by simp)) (ht v (by simp)),
      (hf v (by simp)).clean, i1, i2]

theorem zip_fine {E : Ext} : ∀ (vs : List Value), (∀ v ∈ vs, Fine E v) →
    (types vs).length = (payloads vs).length ∧ Payload.wfZip (nfcM E) (types vs) (payloads vs) = true ∧
    Payload.containsMarkedL (payloads vs) = false ∧ Ty.namesAllL (nfcM E) (types vs) = true
  | [], _ => by simp [types, payloads, Payload.wfZip, Payload.containsMarkedL, Ty.namesAllL]
  | v :: vs, hf => by
    obtain ⟨i1, i2, i3, i4⟩ := zip_fine vs (fun x hx => hf x (List.mem_cons_of_mem _ hx))
    have h := hf v (by simp)
    simp [types, payloads, Payload.wfZip, Payload.containsMarkedL, Ty.namesAllL, h.wfp, h.clean, h.names, i1, i2, i3, i4]

theorem payloads_length : ∀ vs : List Value, (payloads vs).length = vs.length
  | [] => rfl
  | _ :: vs => by simp [payloads, payloads_length vs]

/-- requested type: well-formed, no optional annotation, normalised attribute names -/
def TF (E : Ext) (t : Ty) : Prop := TOk t ∧ Ty.namesAll (nfcM E) t = true
def TFL (E : Ext) (ts : List Ty) : Prop := TOkL ts ∧ Ty.namesAllL (nfcM E) ts = true

theorem TFL.mem {E : Ext} : ∀ {ts : List Ty}, TFL E ts → ∀ t ∈ ts, TF E t
  | [], _, _, h => by simp at h
  | t0 :: ts, h, t, hm => by
    have hn : Ty.namesAll (nfcM E) t0 = true ∧ Ty.namesAllL (nfcM E) ts = true := by
      simpa [Ty.namesAllL] using h.2
    rcases List.mem_cons.mp hm with rfl | hm
    · exact ⟨h.1.cons.1, hn.1⟩
    · exact TFL.mem ⟨h.1.cons.2, hn.2⟩ t hm

section
variable [O : EqOracle] (E : Ext) (hl : WLaws E)

/-- an unknown-value extension item -/
theorem ext_fine {code : Int} {len : Nat} {hdr : ExtHdr} {stream : List Item} {ty : Ty} {v : Value}
    (h : unmarshal E (.ext code len hdr stream) ty = .ok v) :
    v.ty = ty ∧ Payload.wfP (nfcM E) ty v.v = true ∧ v.v.containsMarked = false ∧
      (ty = .dyn → v.v = .null ∨ v.v = .unk .unref) := by
  have hunk : (Value.unknown ty).ty = ty ∧ Payload.wfP (nfcM E) ty (Value.unknown ty).v = true ∧
      (Value.unknown ty).v.containsMarked = false ∧ (ty = .dyn → (Value.unknown ty).v = .null ∨ (Value.unknown ty).v = .unk .unref) :=
    ⟨rfl, by simp [Value.unknown, Payload.wfP, kindOk], rfl, fun _ => Or.inr rfl⟩
  simp only [D17.unmarshal] at h
  have h := recoverErr_ok h
  repeat' split at h
  all_goals first
    | (cases h; done)
    | (cases h; exact hunk)
    | (obtain ⟨b, hi, hn⟩ := bind_ok h
       obtain ⟨i1, i2, i3, _, _⟩ := init_ok hi
       exact newValue_fine E i3 i2 i1 hn)
    | (obtain ⟨b, hi, h2⟩ := bind_ok h
       obtain ⟨r, hlp, h3⟩ := bind_ok h2
       obtain ⟨i1, i2, i3, _, _⟩ := init_ok hi
       obtain ⟨⟨b1, b2⟩, b3, _⟩ := rfnLoop_base E ty _ _ _ _ r.1 r.2 hlp
       split at h3
       · cases h3
       · exact newValue_fine E (b3 i3) (b2.trans i2) (b1.trans i1) h3)

include hl

mutual
theorem unmarshal_fine : ∀ (it : Item) (ty : Ty) (v : Value), itemOk it = true → TF E ty →
    unmarshal E it ty = .ok v → Fine E v
  | .ext _ _ _ _, ty, v, _, ht, h => by
    obtain ⟨e1, e2, e3, e4⟩ := ext_fine E h
    exact ⟨by rw [e1]; exact ht.2, by rw [e1]; exact e2, e3, fun hd => e4 (e1 ▸ hd)⟩
  | .nil, ty, _, _, ht, h => by
    simp only [D17.unmarshal] at h; cases h
    exact ⟨ht.2, by simp [Value.null, Payload.wfP], rfl, fun _ => Or.inl rfl⟩
  | .bool _, ty, _, _, ht, h => by
    cases ty <;> simp only [D17.unmarshal] at h <;> first
      | (cases h; done)
      | (cases h; exact ⟨rfl, by simp [Payload.wfP], rfl, fun hd => by cases hd⟩)
  | .int _, ty, _, _, ht, h | .uint _, ty, _, _, ht, h | .f32 _, ty, _, _, ht, h | .f64 _, ty, _, _, ht, h
  | .fnan, ty, _, _, ht, h => by
    cases ty <;> simp only [D17.unmarshal] at h <;> first
      | (cases h; done)
      | (obtain ⟨x, _, rfl⟩ := map_ok h; exact ⟨rfl, by simp [Payload.wfP], rfl, fun hd => by cases hd⟩)
  | .str _, ty, _, _, ht, h | .bin _, ty, _, _, ht, h | .binj _, ty, _, _, ht, h => by
    cases ty <;> simp only [D17.unmarshal] at h <;> first
      | (cases h; done)
      | (obtain ⟨x, _, rfl⟩ := map_ok h; exact ⟨rfl, by simp [Payload.wfP], rfl, fun hd => by cases hd⟩)
      | (split at h <;> first
          | (cases h; done)
          | (cases h; exact ⟨rfl, by simp [Payload.wfP, C17Json.nfcOf, hl.norm_idem], rfl, fun hd => by cases hd⟩))
  | .arr xs, ty, v, hi, ht, h => by
    have hi' : itemOkL xs = true := by simpa [itemOk] using hi
    cases ty with
    | dyn => exact unmarshalArrDyn_fine xs v hi' h
    | list e =>
      have hte : TF E e := ⟨ht.1.list, by simpa [Ty.namesAll] using ht.2⟩
      simp only [D17.unmarshal] at h
      split at h
      · cases h
        exact ⟨ht.2, by simp [Payload.wfP, Payload.wfAll], by simp [Payload.containsMarked, Payload.containsMarkedL], fun hd => by cases hd⟩
      · rename_i hne
        obtain ⟨vs, hvs, hlv⟩ := bind_ok h
        have hf := unmarshalAll_fine xs e vs hi' hte hvs
        obtain ⟨hg, hlen⟩ := unmarshalAll_good E xs e vs hi' hte.1 hvs
        obtain ⟨e', he', rfl⟩ := map_ok hlv
        have hne' : vs ≠ [] := by
          intro e0; subst e0
          cases xs <;> simp_all
        obtain ⟨_, h2, h3⟩ := elemTy_ok vs .dyn e' he' rfl (fun v hv' => (hg v hv').1)
        obtain ⟨v0, hv0, hv0e⟩ := C17Json.unify_some hne' h2 h3
        obtain ⟨m1, m2⟩ := members_fine vs hf h2
        refine ⟨?_, by simpa [Payload.wfP] using m1, by simpa [Payload.containsMarked] using m2, fun hd => by cases hd⟩
        have := (hf v0 hv0).names
        rw [hv0e] at this
        simpa [Ty.namesAll] using this
    | set e =>
      have hte : TF E e := ⟨ht.1.set, by simpa [Ty.namesAll] using ht.2⟩
      simp only [D17.unmarshal] at h
      split at h
      · cases h
        exact ⟨ht.2, by simp [Payload.wfP, Payload.wfAll, idsAsc, noDup, Payload.containsMarkedL],
          by simp [Payload.containsMarked, Payload.containsMarkedL], fun hd => by cases hd⟩
      · rename_i hne
        obtain ⟨vs, hvs, hlv⟩ := bind_ok h
        have hf := unmarshalAll_fine xs e vs hi' hte hvs
        obtain ⟨hg, hlen⟩ := unmarshalAll_good E xs e vs hi' hte.1 hvs
        obtain ⟨e', he', h2'⟩ := bind_ok hlv
        obtain ⟨p, hp, rfl⟩ := map_ok h2'
        have hne' : vs ≠ [] := by
          intro e0; subst e0
          cases xs <;> simp_all
        obtain ⟨_, h2, h3⟩ := elemTy_ok vs .dyn e' he' rfl (fun v hv' => (hg v hv').1)
        obtain ⟨v0, hv0, hv0e⟩ := C17Json.unify_some hne' h2 h3
        obtain ⟨m1, m2⟩ := members_fine vs hf h2
        obtain ⟨s1, s2⟩ := hl.set_wf e' (payloads vs) p m1 m2 hp
        refine ⟨?_, s1, s2, fun hd => by cases hd⟩
        have := (hf v0 hv0).names
        rw [hv0e] at this
        simpa [Ty.namesAll] using this
    | tuple es =>
      have htl : TFL E es := ⟨by simpa [TOk, TOkL, Ty.wf, Ty.hasOpt] using ht.1, by simpa [Ty.namesAll] using ht.2⟩
      simp only [D17.unmarshal] at h
      split at h
      · cases h
      · rename_i hlen
        have hlen' : xs.length = es.length := by simpa using hlen
        split at h
        · cases h
          exact ⟨by simp [Ty.namesAll, Ty.namesAllL], by simp [Payload.wfP, Payload.wfZip],
            by simp [Payload.containsMarked, Payload.containsMarkedL], fun hd => by cases hd⟩
        · obtain ⟨vs, hvs, rfl⟩ := map_ok h
          obtain ⟨z1, z2, z3, z4⟩ := zip_fine vs (unmarshalZip_fine xs es vs hi' htl hlen' hvs)
          exact ⟨by simpa [tupleVal, Ty.namesAll] using z4, by simp [tupleVal, Payload.wfP, z1, z2],
            by simpa [tupleVal, Payload.containsMarked] using z3, fun hd => by cases hd⟩
    | bool | number | string | capsule _ | map _ | object _ _ _ => simp [D17.unmarshal] at h
  | .map ks vs, ty, v, hi, ht, h => by
    have hi' : ks.length = vs.length ∧ itemOkL vs = true := by simpa [itemOk] using hi
    cases ty with
    | map e =>
      have hte : TF E e := ⟨ht.1.map, by simpa [Ty.namesAll] using ht.2⟩
      simp only [D17.unmarshal] at h
      split at h
      · cases h
        exact ⟨ht.2, by simp [Payload.wfP, Payload.wfAll, Ty.strictAsc],
          by simp [Payload.containsMarked, Payload.containsMarkedL], fun hd => by cases hd⟩
      · rename_i hne
        obtain ⟨r, hr, hm⟩ := bind_ok h
        obtain ⟨f1, f2, f3⟩ := unmarshalEntries_fine ks vs e [] [] r hi'.2 hte (by intro v hv; simp at hv) rfl
          (by simp [Ty.strictAsc]) hr
        obtain ⟨hg, _, hnn⟩ := unmarshalEntries_good E ks vs e [] [] r hi'.2 hte.1 (by intro v hv; simp at hv) hr
        have hne' : r.2 ≠ [] := hnn (by cases ks <;> simp_all) (by cases ks <;> cases vs <;> simp_all)
        unfold mapVal at hm
        split at hm
        · cases hm
        · rename_i hc
          obtain ⟨e', he', rfl⟩ := map_ok hm
          have hfix : (r.1.map E.norm != r.1) = false := by
            simp only [Bool.or_eq_true, not_or, Bool.not_eq_true] at hc; exact hc.2
          obtain ⟨_, h2, h3⟩ := elemTy_ok r.2 .dyn e' he' rfl (fun v hv' => (hg v hv').1)
          obtain ⟨v0, hv0, hv0e⟩ := C17Json.unify_some hne' h2 h3
          obtain ⟨m1, m2⟩ := members_fine r.2 f1 h2
          refine ⟨?_, ?_, by simpa [Payload.containsMarked] using m2, fun hd => by cases hd⟩
          · have := (f1 v0 hv0).names
            rw [hv0e] at this
            simpa [Ty.namesAll] using this
          · simp [Payload.wfP, payloads_length, f2, f3, m1, map_fix_all E.norm r.1 hfix]
    | object ns ts os =>
      have htl : TFL E ts := by
        have h1 := ht.1
        have h2 := ht.2
        simp only [TOk, Ty.wf, Ty.hasOpt, Bool.and_eq_true, Bool.or_eq_false_iff] at h1
        simp only [Ty.namesAll, Bool.and_eq_true] at h2
        exact ⟨⟨h1.1.2, h1.2.2⟩, h2.2⟩
      simp only [D17.unmarshal] at h
      split at h
      · cases h
      · split at h
        · cases h
          exact ⟨by simp [Ty.namesAll, Ty.namesAllL], by simp [Payload.wfP, Payload.wfZip],
            by simp [Payload.containsMarked, Payload.containsMarkedL], fun hd => by cases hd⟩
        · obtain ⟨r, hr, hm⟩ := bind_ok h
          have hf := unmarshalAttrs_fine ks vs ns ts os [] [] r hi'.2 htl (by intro v hv; simp at hv) hr
          unfold objectVal at hm
          split at hm
          · cases hm
          · rename_i hc
            cases hm
            have hfix : (r.1.map E.norm != r.1) = false := by
              simp only [Bool.or_eq_true, not_or, Bool.not_eq_true] at hc; exact hc.2
            obtain ⟨z1, z2, z3, z4⟩ := zip_fine r.2 hf
            exact ⟨by simp [Ty.namesAll, z4, map_fix_all E.norm r.1 hfix], by simp [Payload.wfP, z1, z2],
              by simpa [Payload.containsMarked] using z3, fun hd => by cases hd⟩
    | bool | number | string | capsule _ | dyn | list _ | set _ | tuple _ => simp [D17.unmarshal] at h
theorem unmarshalArrDyn_fine : ∀ (xs : List Item) (v : Value), itemOkL xs = true →
    unmarshal E (.arr xs) .dyn = .ok v → Fine E v
  | [], _, _, h => by simp [D17.unmarshal] at h
  | [_], _, _, h => by simp [D17.unmarshal] at h
  | _ :: _ :: _ :: _, _, _, h => by simp [D17.unmarshal] at h
  | [tj, body], v, hi, h => by
    have hib : itemOk body = true := by simp [itemOkL] at hi; exact hi.2
    have hb := fun t ht => unmarshal_fine body t v hib ht
    cases tj with
    | binj j =>
      simp only [D17.unmarshal] at h
      have hj := C17Json.ofJson_sat E.norm j
      cases hr : typeOfJson E j with
      | ok t =>
        rw [hr] at h; simp only [] at h
        have hgt : C17Json.TyGood E.norm t := by
          unfold typeOfJson at hr
          split at hr
          · cases hr
          · rw [hr] at hj; exact hj
        exact hb t.stripOpt ⟨⟨JsonVal.wf_strip t hgt.1, Ty.stripOpt_noOpt t⟩,
          C17Json.namesAll_strip _ _ (hgt.2 hl.norm_idem)⟩ h
      | err c => rw [hr] at h; cases h
      | panic w => rw [hr] at h; cases h
      | unmodelled => rw [hr] at h; cases h
    | _ => simp [D17.unmarshal] at h
theorem unmarshalAll_fine : ∀ (xs : List Item) (e : Ty) (vs : List Value), itemOkL xs = true → TF E e →
    unmarshalAll E xs e = .ok vs → ∀ v ∈ vs, Fine E v
  | [], _, vs, _, _, h => by simp [D17.unmarshalAll] at h; subst h; intro v hv; simp at hv
  | x :: xs, e, vs, hi, ht, h => by
    have hi' : itemOk x = true ∧ itemOkL xs = true := by simpa [itemOkL] using hi
    simp only [D17.unmarshalAll] at h
    split at h
    · rename_i v hv
      obtain ⟨vs', hvs', rfl⟩ := map_ok h
      intro y hy
      rcases List.mem_cons.mp hy with rfl | hy
      · exact unmarshal_fine x e _ hi'.1 ht hv
      · exact unmarshalAll_fine xs e vs' hi'.2 ht hvs' y hy
    all_goals cases h
theorem unmarshalZip_fine : ∀ (xs : List Item) (es : List Ty) (vs : List Value), itemOkL xs = true → TFL E es →
    xs.length = es.length → unmarshalZip E xs es = .ok vs → ∀ v ∈ vs, Fine E v
  | [], [], vs, _, _, _, h => by simp [D17.unmarshalZip] at h; subst h; intro v hv; simp at hv
  | [], _ :: _, _, _, _, hl', _ => by simp at hl'
  | _ :: _, [], _, _, _, hl', _ => by simp at hl'
  | x :: xs, e :: es, vs, hi, ht, hl', h => by
    have hi' : itemOk x = true ∧ itemOkL xs = true := by simpa [itemOkL] using hi
    have hte : TF E e := ht.mem e (by simp)
    have hts : TFL E es := ⟨ht.1.cons.2, by have := ht.2; simp only [Ty.namesAllL, Bool.and_eq_true] at this; exact this.2⟩
    simp only [D17.unmarshalZip] at h
    split at h
    · rename_i v hv
      obtain ⟨vs', hvs', rfl⟩ := map_ok h
      intro y hy
      rcases List.mem_cons.mp hy with rfl | hy
      · exact unmarshal_fine x e _ hi'.1 hte hv
      · exact unmarshalZip_fine xs es vs' hi'.2 hts (by simpa using hl') hvs' y hy
    all_goals cases h
theorem unmarshalEntries_fine : ∀ (ks vs : List Item) (e : Ty) (accK : List String) (accV : List Value)
    (r : List String × List Value), itemOkL vs = true → TF E e → (∀ v ∈ accV, Fine E v) →
    accK.length = accV.length → Ty.strictAsc accK = true →
    unmarshalEntries E ks vs e accK accV = .ok r →
    (∀ v ∈ r.2, Fine E v) ∧ r.1.length = r.2.length ∧ Ty.strictAsc r.1 = true
  | [], _, _, _, _, r, _, _, ha, hlen, hasc, h => by
    simp [D17.unmarshalEntries] at h; subst h; exact ⟨ha, hlen, hasc⟩
  | _ :: _, [], _, _, _, r, _, _, ha, hlen, hasc, h => by
    simp [D17.unmarshalEntries] at h; subst h; exact ⟨ha, hlen, hasc⟩
  | k :: ks, v :: vs, e, accK, accV, r, hi, ht, ha, hlen, hasc, h => by
    have hi' : itemOk v = true ∧ itemOkL vs = true := by simpa [itemOkL] using hi
    simp only [D17.unmarshalEntries] at h
    split at h
    · rename_i key _
      split at h
      · rename_i val hv
        have g := unmarshal_fine v e val hi'.1 ht hv
        have hins := insertKV_vals key val accK accV
        obtain ⟨j1, j2, _⟩ := insertKV_asc key val accK accV hlen hasc
        exact unmarshalEntries_fine ks vs e _ _ r hi'.2 ht (by
          intro x hx
          rcases hins.2 x hx with rfl | hx
          · exact g
          · exact ha x hx) j2 j1 h
      all_goals cases h
    all_goals cases h
theorem unmarshalAttrs_fine : ∀ (ks vs : List Item) (ns : List String) (ts : List Ty) (os : List Bool)
    (accK : List String) (accV : List Value) (r : List String × List Value), itemOkL vs = true → TFL E ts →
    (∀ v ∈ accV, Fine E v) → unmarshalAttrs E ks vs ns ts os accK accV = .ok r → ∀ v ∈ r.2, Fine E v
  | [], _, _, _, _, _, _, r, _, _, ha, h => by simp [D17.unmarshalAttrs] at h; subst h; exact ha
  | _ :: _, [], _, _, _, _, _, r, _, _, ha, h => by simp [D17.unmarshalAttrs] at h; subst h; exact ha
  | k :: ks, v :: vs, ns, ts, os, accK, accV, r, hi, ht, ha, h => by
    have hi' : itemOk v = true ∧ itemOkL vs = true := by simpa [itemOkL] using hi
    simp only [D17.unmarshalAttrs] at h
    split at h
    · rename_i key _
      split at h
      · cases h
      · rename_i aty o hf
        split at h
        · cases h
        · split at h
          · rename_i val hv
            have g := unmarshal_fine v aty val hi'.1 (ht.mem aty (JsonVal.find_mem hf)) hv
            have hins := insertKV_vals key val accK accV
            exact unmarshalAttrs_fine ks vs ns ts os _ _ r hi'.2 ht (by
              intro x hx
              rcases hins.2 x hx with rfl | hx
              · exact g
              · exact ha x hx) h
          all_goals cases h
    all_goals cases h
end

/-- the exported `Unmarshal`: C06's `Value.WF` -/
theorem Unmarshal_wf (it : Item) (ty : Ty) (v : Value) (hi : itemOk it = true) (hw : Ty.wf ty = true)
    (hn : Ty.namesAll (nfcM E) ty = true) (h : Unmarshal E it ty = .ok v) : v.WF (nfcM E) = true := by
  have ht : TF E ty.stripOpt := ⟨⟨JsonVal.wf_strip ty hw, Ty.stripOpt_noOpt ty⟩, C17Json.namesAll_strip _ _ hn⟩
  have g := unmarshal_good E it ty.stripOpt v hi ht.1 h
  have f := unmarshal_fine E hl it ty.stripOpt v hi ht h
  simp [Value.WF, Ty.ok, g.1, g.2.2, f.names, f.wfp]

end

end D17
end CtyModel
