/-
Helper lemmas for the stdlib function models: what the `cty.Value` vocabulary of
`Stdlib/Base.lean` computes on known, unmarked collections.
-/
import CtyModel.Stdlib.Funcs
import CtyModel.Stdlib.CollectionSpec
import CtyModel.Props.C02
namespace CtyModel
namespace Stdlib
open Value

@[simp] theorem cast_err {α β} (c : String) : (Res.cast (.err c : Res α) : Res β) = .err c := rfl
@[simp] theorem cast_panic {α β} (c : String) : (Res.cast (.panic c : Res α) : Res β) = .panic c := rfl
@[simp] theorem cast_unmodelled {α β} : (Res.cast (.unmodelled : Res α) : Res β) = .unmodelled := rfl

/-! ### numbers as Go ints -/

theorem fromCtyInt_num (x : Num) : fromCtyInt (numVal x) = Gocty.fromNumInt x 64 := by
  simp [fromCtyInt, Gocty.fromCty, Gocty.fromCtyP, numVal, GoTy.base, GoTy.isCval, Gocty.fromNum,
    IntW.bits, Gocty.mapRes, GoTy.depth, Gocty.wrapPtr]
  cases Gocty.fromNumInt x 64 <;> simp

theorem int64Exact_bounds {x : Num} {i : Int} (h : Gocty.int64Exact x = some i) :
    -9223372036854775808 ≤ i ∧ i ≤ 9223372036854775807 := by
  simp only [Gocty.int64Exact] at h
  split at h
  · split at h
    · rename_i hb
      simp only [Option.some.injEq] at h
      subst h
      exact hb
    · simp at h
  · simp at h

/-- `FromCtyValue(n, &int)` succeeds exactly on whole numbers that fit an `int64` -/
theorem fromNumInt_64 (x : Num) :
    Gocty.fromNumInt x 64 =
      match Gocty.int64Exact x with
      | none => .err "whole number"
      | some i => .ok i := by
  simp only [Gocty.fromNumInt, Gocty.intMinMax]
  cases h : Gocty.int64Exact x with
  | none => rfl
  | some i =>
    have hb := int64Exact_bounds h
    have : ¬ (i < -9223372036854775808 ∨ i > 9223372036854775807) := by omega
    simp [this]

/-- Go's `%` followed by the `if index < 0 { index += l }` fix-up is the
Euclidean remainder -/
theorem wrapIndex_eq (i : Int) (l : Nat) (hl : 0 < l) : wrapIndex i l = i % (l : Int) := by
  have hl' : (0 : Int) < l := by omega
  have ht : Int.tmod i l = i % (l : Int) - ((if 0 ≤ i ∨ (l : Int) ∣ i then 0 else (l : Int).natAbs : Nat) : Int) :=
    Int.tmod_eq_emod
  have hnn := Int.emod_nonneg i (b := (l : Int)) (by omega)
  have hlt := Int.emod_lt_of_pos i hl'
  simp only [wrapIndex, goMod, ht]
  by_cases h0 : 0 ≤ i
  · simp [h0]; omega
  · by_cases hd : (l : Int) ∣ i
    · simp [hd]; omega
    · have hne : i % (l : Int) ≠ 0 := fun h => hd (Int.dvd_of_emod_eq_zero h)
      simp only [h0, hd, or_self, if_false, Int.natAbs_natCast]
      have : i % (l : Int) - (l : Int) < 0 := by omega
      simp [this]

/-! ### marks -/

theorem withMarkSets_nil_of_unmarked (v : Value) (h : v.v.isMarked = false) :
    withMarkSets v [[]] = v := by
  cases v with
  | mk t p =>
    cases p <;> simp_all [withMarkSets, Fn.withMarkSets, Fn.unionAll, Value.withMarks, Payload.withMarks,
      Payload.marks1, unionMarks, Payload.isMarked]

theorem withMarkSets_empty (v : Value) : withMarkSets v [] = v := by
  simp [withMarkSets, Fn.withMarkSets]

/-! ### constructors -/

theorem payloads_map (e : Ty) (vs : List Payload) : Gocty.payloads (vs.map (⟨e, ·⟩)) = vs := by
  induction vs with
  | nil => rfl
  | cons v vs ih => simp [Gocty.payloads, ih]

theorem tysOf_map (e : Ty) (vs : List Payload) :
    Gocty.tysOf (vs.map (⟨e, ·⟩)) = vs.map fun _ => e := by
  induction vs with
  | nil => rfl
  | cons v vs ih => simp [Gocty.tysOf, ih]

theorem payloads_zipTV (ts : List Ty) (vs : List Payload) (h : ts.length = vs.length) :
    Gocty.payloads (zipTV ts vs) = vs := by
  induction ts generalizing vs with
  | nil => cases vs <;> simp_all [zipTV, Gocty.payloads]
  | cons t ts ih =>
    cases vs with
    | nil => simp at h
    | cons v vs => simp [zipTV, Gocty.payloads, ih vs (by simpa using h)]

theorem tysOf_zipTV (ts : List Ty) (vs : List Payload) (h : ts.length = vs.length) :
    Gocty.tysOf (zipTV ts vs) = ts := by
  induction ts generalizing vs with
  | nil => cases vs <;> simp_all [zipTV, Gocty.tysOf]
  | cons t ts ih =>
    cases vs with
    | nil => simp at h
    | cons v vs => simp [zipTV, Gocty.tysOf, ih vs (by simpa using h)]

theorem elemTypeOf_same (e : Ty) (he : e.equals e = true) (vs : List Payload) :
    Gocty.elemTypeOf e (vs.map (⟨e, ·⟩)) = .ok e := by
  induction vs with
  | nil => rfl
  | cons v vs ih =>
    simp only [List.map_cons, Gocty.elemTypeOf]
    by_cases hd : Gocty.isDynTy e = true
    · simp [hd, ih]
    · simp [hd, he, ih]

/-- `cty.ListVal` of non-empty same-typed members -/
theorem listVal_map (e : Ty) (he : e.equals e = true) (vs : List Payload) (hne : vs ≠ []) :
    Gocty.listVal (vs.map (⟨e, ·⟩)) = .ok ⟨.list e, .seq vs⟩ := by
  cases vs with
  | nil => exact absurd rfl hne
  | cons v vs =>
    have h := elemTypeOf_same e he (v :: vs)
    simp only [List.map_cons] at h
    simp only [Gocty.listVal, List.map_cons, List.isEmpty_cons, Bool.false_eq_true, if_false,
      Gocty.elemTypeOf]
    have hd : Gocty.isDynTy Ty.dyn = true := rfl
    simp only [hd, if_true]
    simp only [Gocty.elemTypeOf] at h
    by_cases hd2 : Gocty.isDynTy e = true
    · simp only [hd2, if_true] at h
      rw [h]
      simp [Gocty.payloads, payloads_map]
    · simp only [hd2, he] at h
      simp only [Bool.false_eq_true, Bool.not_true, Bool.and_false, if_false] at h
      rw [h]
      simp [Gocty.payloads, payloads_map]

/-- the list value holding exactly these members: `ListValEmpty(e)` or `ListVal` -/
def mkList (e : Ty) (vs : List Payload) : Value := ⟨.list e, .seq vs⟩

/-! ### observers on known, unmarked collections -/

@[simp] theorem elems_list (E : Env) (e : Ty) (vs : List Payload) :
    elems E ⟨.list e, .seq vs⟩ = .ok (vs.map (⟨e, ·⟩)) := rfl
@[simp] theorem elems_tuple (E : Env) (ts : List Ty) (vs : List Payload) :
    elems E ⟨.tuple ts, .seq vs⟩ = .ok (zipTV ts vs) := rfl
@[simp] theorem elems_map (E : Env) (e : Ty) (ks : List String) (vs : List Payload) :
    elems E ⟨.map e, .smap ks vs⟩ = .ok (vs.map (⟨e, ·⟩)) := rfl
@[simp] theorem elems_object (E : Env) (ns : List String) (ts : List Ty) (os : List Bool)
    (ks : List String) (vs : List Payload) :
    elems E ⟨.object ns ts os, .smap ks vs⟩ = .ok (zipTV ts vs) := rfl
@[simp] theorem elems_set (E : Env) (e : Ty) (ids : List Int) (vs : List Payload) :
    elems E ⟨.set e, .sset ids vs⟩ = .ok ((setIter E e vs).map (⟨e, ·⟩)) := rfl
@[simp] theorem lengthInt_list (e : Ty) (vs : List Payload) :
    lengthInt ⟨.list e, .seq vs⟩ = .ok vs.length := rfl
@[simp] theorem lengthInt_tuple (ts : List Ty) (vs : List Payload) :
    lengthInt ⟨.tuple ts, .seq vs⟩ = .ok ts.length := rfl
@[simp] theorem lengthInt_map (e : Ty) (ks : List String) (vs : List Payload) :
    lengthInt ⟨.map e, .smap ks vs⟩ = .ok vs.length := rfl
@[simp] theorem lengthInt_set (e : Ty) (ids : List Int) (vs : List Payload) :
    lengthInt ⟨.set e, .sset ids vs⟩ = .ok vs.length := rfl

theorem zipTV_length (ts : List Ty) (vs : List Payload) :
    (zipTV ts vs).length = min ts.length vs.length := by
  induction ts generalizing vs with
  | nil => simp [zipTV]
  | cons t ts ih => cases vs <;> simp [zipTV, ih] <;> omega

theorem zipTV_getElem? (ts : List Ty) (vs : List Payload) (i : Nat) :
    (zipTV ts vs)[i]? = match ts[i]?, vs[i]? with
      | some t, some p => some ⟨t, p⟩
      | _, _ => none := by
  induction ts generalizing vs i with
  | nil => simp [zipTV]
  | cons t ts ih =>
    cases vs with
    | nil => simp [zipTV]
    | cons v vs =>
      cases i with
      | zero => simp [zipTV]
      | succ i => simp [zipTV, ih]

/-- list indexing by a natural number that fits a Go int (C02) -/
theorem index_list_nat (e : Ty) (vs : List Payload) (i : Nat) (hi : (i : Int) ≤ maxInt) :
    Value.index ⟨.list e, .seq vs⟩ (intVal i) =
      match vs[i]? with
      | some p => .ok ⟨e, p⟩
      | none => .panic "index out of range" := (C02.index_list e vs i hi).1

end Stdlib
end CtyModel
