/-
C01, Length on sets.  A wholly known set of `n` members is covered by a set whose
members stand for them (several may stand for the same one: `Cov.coversS`).  The
length of such a set is its number of members if there is one member or all of them
are wholly known, and the range `[1, members]` otherwise — which holds `n`.
-/
import CtyModel.Lemmas.OpsColl
import CtyModel.Lemmas.MarksSets
namespace CtyModel
open Value Cov

theorem anySplit_true {p : Payload → List Payload → Bool} : ∀ {cs l : List Payload}, anySplit p l cs = true →
    ∃ c rest, p c rest = true ∧ rest.length + 1 = l.length + cs.length
  | [], l, h => by simp [anySplit] at h
  | c :: r, l, h => by
    simp only [anySplit, Bool.or_eq_true] at h
    rcases h with h | h
    · exact ⟨c, _, h, by simp; omega⟩
    · obtain ⟨c', rest, hp, hl⟩ := anySplit_true h
      exact ⟨c', rest, hp, by simp at hl ⊢; omega⟩

/-- a set payload covering another: at least as many members, and empty iff empty -/
theorem coversS_length {ex : Bool} : ∀ {as cs : List Payload}, coversS ex as cs = true →
    cs.length ≤ as.length ∧ (0 < as.length → 0 < cs.length)
  | [], cs, h => by
    simp only [coversS, List.isEmpty_iff] at h
    subst h; simp
  | a :: as, cs, h => by
    simp only [coversS] at h
    obtain ⟨c, rest, hp, hl⟩ := anySplit_true h
    simp only [Bool.and_eq_true, Bool.or_eq_true] at hp
    simp only [List.length_nil, Nat.zero_add] at hl
    rcases hp.2 with h1 | h1
    · have := (coversS_length h1).1
      exact ⟨by simp; omega, fun _ => by omega⟩
    · have := (coversS_length h1).1
      exact ⟨by simp; omega, fun _ => by omega⟩

theorem covers_sset_inv {ex : Bool} {w o : Value} {ids : List Int} {vs : List Payload} (hc : CoversG ex w o = true)
    (ho : o.v = .sset ids vs) (hw : w.isMarked = false) (hu : w.isUnk = false) :
    ∃ ids' ws, w.v = .sset ids' ws ∧ coversS ex (Payload.stripMarksL ws) (Payload.stripMarksL vs) = true := by
  obtain ⟨tw, pw⟩ := w
  obtain ⟨to, po⟩ := o
  simp only at ho; subst ho
  simp only [CoversG, Bool.and_eq_true] at hc
  obtain ⟨_, hcp⟩ := hc
  cases pw <;> simp_all [Payload.stripMarks, coversP, Value.isMarked, Payload.isMarked, Value.isUnk]
  exact ⟨_, _, ⟨rfl, rfl⟩, hcp⟩

/-- the one thing `CoversX` does not say about sets: a weakened set ALL of whose
members are wholly known (and which has more than one) has as many members as the set
it stands for.  True of every set cty builds: a set holds no two equivalent members
(property C06), and wholly known members covering the same member are equal. -/
def SetCountOK (w o : Value) : Bool :=
  match w.v, o.v with
  | .sset _ ws, .sset _ vs => !(Payload.whollyKnownL ws) || ws.length == 1 || ws.length == vs.length
  | _, _ => true

theorem lengthU_known_set {t : Ty} {ids : List Int} {vs : List Payload} (ht : ∃ e, t = .set e) :
    lengthU ⟨t, .sset ids vs⟩ = .ok (if vs.length == 1 || Payload.whollyKnownL vs then intVal vs.length
      else numRangeResult (some (Num.ofInt 1 64)) (some (Num.ofInt vs.length 64))) := by
  obtain ⟨e, rfl⟩ := ht
  simp only [lengthU, Value.isKnown, Payload.isKnown, Payload.unmark1]
  by_cases h : (vs.length == 1 || Payload.whollyKnownL vs) = true <;> simp [h]

theorem lengthU_sound_set (o w r : Value) {e : Ty} (hto : o.ty = .set e) (hk : o.whollyKnown = true)
    (hmo : o.isMarked = false) (hmw : w.isMarked = false) (hfo : o.wfc = true) (hc : CoversX w o = true)
    (hwdyn : w.ty = .dyn → w.isKnown = false) (hcount : SetCountOK w o = true)
    (ho : lengthU o = .ok r) : ∃ r', lengthU w = .ok r' ∧ Covers r' r = true := by
  have hg : CoversG true w o = true := hc
  have hm := ty_of_coversG hg
  have hlf := wfc_lenFits hfo
  obtain ⟨to, po⟩ := o
  simp only at hto; subst hto
  cases po <;> simp [lengthU, Value.isKnown, Payload.isKnown, Payload.unmark1, Value.whollyKnown, Payload.whollyKnown,
    Value.isMarked, Payload.isMarked] at ho hk hmo
  rename_i ids vs
  rw [if_pos (Or.inr hk)] at ho
  simp only [Res.ok.injEq] at ho
  subst ho
  have hfit : (vs.length : Int) ≤ maxInt := by
    simp [Value.lenFits, Payload.unmark1, possibleLen, hk] at hlf
    exact hlf
  -- an unknown weakening: the bounds of its length refinement hold the number of members
  have hunk : (w.ty = .dyn ∨ (∃ e, w.ty = .list e) ∨ (∃ e, w.ty = .map e) ∨ ∃ e, w.ty = .set e) → w.isKnown = false →
      ∃ r', lengthU w = .ok r' ∧ Covers r' (intVal vs.length) = true := by
    intro hty hwk
    obtain ⟨tw, pw⟩ := w
    have : ∃ rf, pw = .unk rf := by
      cases pw <;> simp_all [Value.isKnown, Payload.isKnown, Payload.unmark1, Value.isMarked, Payload.isMarked]
    obtain ⟨rf, rfl⟩ := this
    refine ⟨_, lengthU_unknown rf hty, ?_⟩
    by_cases hd : tw.isDyn = true
    · simp only [lenBounds, hd, if_true]
      exact covers_lenRange (by omega) hfit
    · have hd' : tw.isDyn = false := by simpa using hd
      simp only [CoversG, Bool.and_eq_true] at hg
      obtain ⟨_, hcp⟩ := hg
      simp only [Payload.stripMarks, coversP] at hcp
      have hb := lenBounds_of_admits (t := tw) (rf := rf) (p := .sset ids (Payload.stripMarksL vs)) (n := vs.length) hd'
        (by simp [possibleLen, stripMarksL_length, Payload.whollyKnownL_stripMarksL, hk]) (by simp) (by simp) (by simp) hfit hcp
      exact covers_lenRange hb.1 hb.2
  rcases matches_set_right hm with hwd | ⟨e', hwt, _⟩
  · exact hunk (Or.inl hwd) (hwdyn hwd)
  · by_cases hwk : w.isKnown = true
    · have hu : w.isUnk = false := by rw [isUnk_iff_not_isKnown hmw, hwk]; rfl
      obtain ⟨ids', ws, hwv, hcs⟩ := covers_sset_inv hg rfl hmw hu
      obtain ⟨hle, hpos⟩ := coversS_length hcs
      rw [stripMarksL_length, stripMarksL_length] at hle hpos
      obtain ⟨tw, pw⟩ := w
      simp only at hwt hwv; subst hwt hwv
      simp only [SetCountOK, Bool.or_eq_true, Bool.not_eq_true', beq_iff_eq] at hcount
      refine ⟨_, lengthU_known_set ⟨e', rfl⟩, ?_⟩
      by_cases h1 : (ws.length == 1 || Payload.whollyKnownL ws) = true
      · simp only [h1, if_true]
        have : ws.length = vs.length := by
          simp only [Bool.or_eq_true, beq_iff_eq] at h1
          rcases h1 with h1 | h1
          · have := hpos (by omega); omega
          · rcases hcount with (hc1 | hc1) | hc1
            · rw [h1] at hc1; cases hc1
            · have := hpos (by omega); omega
            · exact hc1
        rw [this]; exact covers_numVal_self _
      · simp only [h1, Bool.false_eq_true, if_false]
        have hws : 0 < ws.length := by
          cases ws with
          | nil => simp [Payload.whollyKnownL] at h1
          | cons _ _ => simp
        have := hpos hws
        have e1 : ((1 : Nat) : Int) = 1 := rfl
        exact covers_lenRange (lo := 1) (hi := ws.length) (n := vs.length) (by omega) (by omega)
    · exact hunk (Or.inr (Or.inr (Or.inr ⟨e', hwt⟩))) (by simpa using hwk)

end CtyModel
