/-
Specification vocabulary for Walk / Transform and the basic facts about the
members of a value.

* `IterPerm X`  — the contract of the set-iteration oracle: it lists exactly the
                  members of the set.
* `kids X v`    — the members `walk` descends into (none for null / unknown).
* `Pos`, `nodeAt`, `pathAt` — a *position* is the list of child indices leading
  from the root to a nested member; `nodeAt` / `pathAt` give the member and the
  cty path at a position.  Positions are how "every member, exactly once" is
  said: two members holding the same value are still two positions.
* `posLt`       — document order on positions (a container before its members,
                  members in iteration order).
-/
import CtyModel.Walk
namespace CtyModel
namespace Walk

/-- contract of `SetOracle.iter`: the iteration lists exactly the members -/
def IterPerm (X : SetOracle) : Prop := ∀ e ids ms, (X.iter e ids ms).Perm ms

theorem iterPerm_storage (h : Ty → Payload → Int) : IterPerm (SetOracle.storage h) :=
  fun _ _ _ => List.Perm.refl _

/-- the members `walk` descends into -/
def kids (X : SetOracle) (v : Value) : List (PathStep × Value) :=
  if v.isNull || !v.isKnown then [] else children X v.unmark

abbrev Pos := List Nat

/-- the member at a position -/
def nodeAt (X : SetOracle) : Value → Pos → Option Value
  | v, [] => some v
  | v, i :: rest =>
    match (kids X v)[i]? with
    | some c => nodeAt X c.2 rest
    | none => none

/-- the cty path of a position -/
def pathAt (X : SetOracle) : Value → Pos → Option Path
  | _, [] => some []
  | v, i :: rest =>
    match (kids X v)[i]? with
    | some c => (pathAt X c.2 rest).map (c.1 :: ·)
    | none => none

/-- document order: a position before its extensions, siblings by index -/
def posLt : Pos → Pos → Bool
  | [], [] => false
  | [], _ :: _ => true
  | _ :: _, [] => false
  | a :: as, b :: bs => decide (a < b) || (a == b && posLt as bs)

theorem posLt_append (p : Pos) : ∀ (x y : Pos), posLt (p ++ x) (p ++ y) = posLt x y := by
  induction p with
  | nil => intro x y; rfl
  | cons a p ih => intro x y; simp [posLt, ih]

theorem posLt_irrefl : ∀ (p : Pos), posLt p p = false
  | [] => rfl
  | a :: p => by simp [posLt, posLt_irrefl p]

theorem posLt_ext_false : ∀ (r x : Pos), posLt (r ++ x) r = false
  | [], [] => rfl
  | [], _ :: _ => rfl
  | a :: r, x => by simp [posLt, posLt_ext_false r x]

theorem posLt_trans : ∀ (a b c : Pos), posLt a b = true → posLt b c = true → posLt a c = true
  | [], [], _, h, _ => by simp [posLt] at h
  | [], _ :: _, [], _, h => by simp [posLt] at h
  | [], _ :: _, _ :: _, _, _ => rfl
  | _ :: _, [], _, h, _ => by simp [posLt] at h
  | _ :: _, _ :: _, [], _, h => by simp [posLt] at h
  | x :: a, y :: b, z :: c, h, h' => by
    simp only [posLt, Bool.or_eq_true, decide_eq_true_eq, Bool.and_eq_true, beq_iff_eq] at h h' ⊢
    rcases h with h | ⟨rfl, h⟩
    · rcases h' with h' | ⟨rfl, _⟩
      · exact Or.inl (by omega)
      · exact Or.inl h
    · rcases h' with h' | ⟨rfl, h'⟩
      · exact Or.inl h'
      · exact Or.inr ⟨rfl, posLt_trans a b c h h'⟩

/-! ### members are smaller than their container -/

theorem depth_le_depthL {m : Payload} : ∀ {vs : List Payload}, m ∈ vs → m.depth ≤ Payload.depthL vs
  | v :: vs, h => by
    simp only [Payload.depthL]
    rcases List.mem_cons.mp h with rfl | h
    · omega
    · have := depth_le_depthL h; omega

/-- the stored members of a payload -/
def members : Payload → List Payload
  | .seq vs | .smap _ vs | .sset _ vs => vs
  | _ => []

theorem depth_lt_of_mem_members {m p : Payload} (h : m ∈ members p) : m.depth < p.depth := by
  cases p <;> simp only [members, List.not_mem_nil] at h <;>
    simp only [Payload.depth] <;> have := depth_le_depthL h <;> omega

theorem seqKids_mem (e : Ty) : ∀ (i : Nat) (vs : List Payload) (c : PathStep × Value),
    c ∈ seqKids e i vs → c.2.v ∈ vs
  | _, [], _, h => by simp [seqKids] at h
  | i, v :: vs, c, h => by
    simp only [seqKids, List.mem_cons] at h
    rcases h with rfl | h
    · simp
    · exact List.mem_cons_of_mem _ (seqKids_mem e (i + 1) vs c h)

theorem tupKids_mem : ∀ (i : Nat) (ts : List Ty) (vs : List Payload) (c : PathStep × Value),
    c ∈ tupKids i ts vs → c.2.v ∈ vs
  | _, [], _, _, h => by simp [tupKids] at h
  | _, _ :: _, [], _, h => by simp [tupKids] at h
  | i, t :: ts, v :: vs, c, h => by
    simp only [tupKids, List.mem_cons] at h
    rcases h with rfl | h
    · simp
    · exact List.mem_cons_of_mem _ (tupKids_mem (i + 1) ts vs c h)

theorem mapKids_mem (e : Ty) : ∀ (ks : List String) (vs : List Payload) (c : PathStep × Value),
    c ∈ mapKids e ks vs → c.2.v ∈ vs
  | [], _, _, h => by simp [mapKids] at h
  | _ :: _, [], _, h => by simp [mapKids] at h
  | k :: ks, v :: vs, c, h => by
    simp only [mapKids, List.mem_cons] at h
    rcases h with rfl | h
    · simp
    · exact List.mem_cons_of_mem _ (mapKids_mem e ks vs c h)

theorem objKids_mem : ∀ (ns : List String) (ts : List Ty) (vs : List Payload) (c : PathStep × Value),
    c ∈ objKids ns ts vs → c.2.v ∈ vs
  | [], _, _, _, h => by simp [objKids] at h
  | _ :: _, [], _, _, h => by simp [objKids] at h
  | _ :: _, _ :: _, [], _, h => by simp [objKids] at h
  | n :: ns, t :: ts, v :: vs, c, h => by
    simp only [objKids, List.mem_cons] at h
    rcases h with rfl | h
    · simp
    · exact List.mem_cons_of_mem _ (objKids_mem ns ts vs c h)

theorem setKids_mem (e : Ty) : ∀ (ms : List Payload) (c : PathStep × Value),
    c ∈ setKids e ms → c.2.v ∈ ms
  | [], _, h => by simp [setKids] at h
  | m :: ms, c, h => by
    simp only [setKids, List.mem_cons] at h
    rcases h with rfl | h
    · simp
    · exact List.mem_cons_of_mem _ (setKids_mem e ms c h)

theorem children_mem {X : SetOracle} (hX : IterPerm X) (v : Value) (c : PathStep × Value)
    (h : c ∈ children X v) : c.2.v ∈ members v.v := by
  obtain ⟨ty, p⟩ := v
  cases ty <;> cases p <;> simp only [children, List.not_mem_nil] at h
  · exact seqKids_mem _ _ _ _ h
  · exact (hX _ _ _).mem_iff.mp (setKids_mem _ _ _ h)
  · exact mapKids_mem _ _ _ _ h
  · exact tupKids_mem _ _ _ _ h
  · exact objKids_mem _ _ _ _ h

theorem depth_unmark1_le (p : Payload) : p.unmark1.depth ≤ p.depth := by
  cases p <;> simp [Payload.unmark1, Payload.depth]

/-- a member is nested less deeply than its container -/
theorem kids_depth_lt {X : SetOracle} (hX : IterPerm X) (v : Value) (c : PathStep × Value)
    (h : c ∈ kids X v) : c.2.v.depth < v.v.depth := by
  simp only [kids] at h
  split at h
  · cases h
  · have := depth_lt_of_mem_members (children_mem hX _ _ h)
    have := depth_unmark1_le v.v
    simp only [Value.unmark] at *
    omega

end Walk
end CtyModel
