/-
Every conversion offered in safe mode is offered in unsafe mode too, and gives the
same result (placeholder-free targets).  The unsafe plan for the same pair of types
is the safe plan with its "unsafe" flags set (`up`).
-/
import CtyModel.Lemmas.ConvertProps
namespace CtyModel
namespace Convert
open Ty

mutual
/-- the same plan with the flag of `conversionTupleToList / ObjectToMap` set -/
def up : Plan → Plan
  | .wrap out c => .wrap out (up c)
  | .objToObj ks cs on ot oo => .objToObj ks (upL cs) on ot oo
  | .tupToTup cs => .tupToTup (upL cs)
  | .collToList t c => .collToList t (up c)
  | .collToSet t c => .collToSet t (up c)
  | .collToMap t c => .collToMap t (up c)
  | .tupToSet cs => .tupToSet (upL cs)
  | .tupToList cs _ => .tupToList (upL cs) true
  | .objToMap ks cs t _ => .objToMap ks (upL cs) t true
  | .mapToObj ns ts os cs => .mapToObj ns ts os (upL cs)
  | p => p
def upL : List Plan → List Plan
  | [] => []
  | p :: ps => up p :: upL ps
end

/-! ### the unsafe plan is the flagged safe plan -/
mutual
theorem gck_up (E : Env) : ∀ (inT out : Ty) (c : Plan), hasDyn out = false →
    gck E inT out false = some c → gck E inT out true = some (up c)
  | .dyn, out, c, hd, h => by
    have : out.isDyn = false := not_isDyn_of_noDyn hd
    cases out <;> simp [gck, Ty.isDyn, isPrim] at h this
  | .bool, out, c, hd, h => by
    cases out <;> simp [gck, Ty.isDyn, isPrim, primSafe, primUnsafe, hasDyn] at h hd ⊢
    subst h; simp [up]
  | .number, out, c, hd, h => by
    cases out <;> simp [gck, Ty.isDyn, isPrim, primSafe, primUnsafe, hasDyn] at h hd ⊢
    subst h; simp [up]
  | .string, out, c, hd, h => by
    cases out <;> simp [gck, Ty.isDyn, isPrim, primSafe, primUnsafe, hasDyn] at h hd ⊢
  | .capsule _, out, c, hd, h => by
    cases out <;> simp [gck, Ty.isDyn, isPrim, hasDyn] at h hd ⊢
  | .list ie, out, c, hd, h => by
    cases out <;> simp [gck, Ty.isDyn, isPrim, hasDyn] at h hd ⊢
    case list oe =>
      split at h
      · rename_i he; simp at h; subst h; simp [he, up]
      · rename_i he
        obtain ⟨c', hc', rfl⟩ := Option.map_eq_some_iff.mp h
        simp [he, gck_up E ie oe c' hd hc', up]
  | .set ie, out, c, hd, h => by
    cases out <;> simp [gck, Ty.isDyn, isPrim, hasDyn] at h hd ⊢
    case list oe =>
      split at h
      · rename_i he; simp at h; subst h; simp [he, up]
      · rename_i he
        obtain ⟨c', hc', rfl⟩ := Option.map_eq_some_iff.mp h
        simp [he, gck_up E ie oe c' hd hc', up]
    case set oe =>
      split at h
      · rename_i he; simp at h; subst h; simp [he, up]
      · rename_i he
        obtain ⟨c', hc', rfl⟩ := Option.map_eq_some_iff.mp h
        simp [he, gck_up E ie oe c' hd hc', up]
  | .map ie, out, c, hd, h => by
    cases out <;> simp [gck, Ty.isDyn, isPrim, hasDyn] at h hd ⊢
    case map oe =>
      obtain ⟨c', hc', rfl⟩ := h
      exact ⟨up c', gck_up E ie oe c' hd hc', by simp [up]⟩
  | .tuple its, out, c, hd, h => by
    cases out <;> simp [gck, Ty.isDyn, isPrim, hasDyn] at h hd ⊢
    case list oe =>
      have hnd : oe.isDyn = false := not_isDyn_of_noDyn hd
      split at h
      · simp at h; subst h; simp_all [up]
      · rename_i hne
        simp only [seqTargetEty, hnd] at h ⊢
        obtain ⟨cs, hcs, rfl⟩ := Option.map_eq_some_iff.mp h
        simp [hne, gcAll_up E its oe cs hd hcs, up]
    case set oe =>
      have hnd : oe.isDyn = false := not_isDyn_of_noDyn hd
      split at h
      · simp at h; subst h; simp_all [up]
      · rename_i hne
        simp only [seqTargetEty, hnd] at h ⊢
        obtain ⟨cs, hcs, rfl⟩ := Option.map_eq_some_iff.mp h
        simp [hne, gcAll_up E its oe cs hd hcs, up]
    case tuple ots =>
      obtain ⟨hl, cs, hcs, rfl⟩ := h
      exact ⟨hl, upL cs, gcZip_up E its ots cs hd hcs, by simp [up]⟩
  | .object inn its ios, out, c, hd, h => by
    cases out <;> simp [gck, Ty.isDyn, isPrim, hasDyn] at h hd ⊢
    case map oe =>
      have hnd : oe.isDyn = false := not_isDyn_of_noDyn hd
      split at h
      · simp at h; subst h; simp_all [up]
      · rename_i hne
        simp only [mapTargetEty, hnd] at h ⊢
        obtain ⟨cs, hcs, rfl⟩ := Option.map_eq_some_iff.mp h
        simp [hne, gcAll_up E its oe cs hd hcs, up]
    case object on ot oo =>
      obtain ⟨hreq, cs, hcs, rfl⟩ := h
      exact ⟨hreq, upL cs, gcObj_up E inn its on ot oo cs hd hcs, by simp [up]⟩
termination_by structural inT => inT
theorem gcAll_up (E : Env) : ∀ (its : List Ty) (t : Ty) (cs : List Plan), hasDyn t = false →
    gcAll E its t false = some cs → gcAll E its t true = some (upL cs)
  | [], t, cs, _, h => by simp [gcAll] at h ⊢; subst h; rfl
  | it :: its, t, cs, hd, h => by
    rw [gcAll] at h ⊢
    split at h
    · rename_i he
      obtain ⟨cs', hcs, rfl⟩ := Option.map_eq_some_iff.mp h
      simp [he, gcAll_up E its t cs' hd hcs, upL, up]
    · rename_i he
      split at h
      · simp at h
      · rename_i c hc
        obtain ⟨cs', hcs, rfl⟩ := Option.map_eq_some_iff.mp h
        simp [he, gck_up E it t c hd hc, gcAll_up E its t cs' hd hcs, upL, up]
termination_by structural its => its
theorem gcZip_up (E : Env) : ∀ (its ots : List Ty) (cs : List Plan), hasDynL ots = false →
    gcZip E its ots false = some cs → gcZip E its ots true = some (upL cs)
  | [], ots, cs, _, h => by
    cases ots <;> simp [gcZip] at h ⊢ <;> subst h <;> rfl
  | _ :: _, [], cs, _, h => by simp [gcZip] at h ⊢; subst h; rfl
  | it :: its, ot :: ots, cs, hd, h => by
    simp only [hasDynL, Bool.or_eq_false_iff] at hd
    rw [gcZip] at h ⊢
    split at h
    · rename_i he
      obtain ⟨cs', hcs, rfl⟩ := Option.map_eq_some_iff.mp h
      simp [he, gcZip_up E its ots cs' hd.2 hcs, upL, up]
    · rename_i he
      split at h
      · simp at h
      · rename_i c hc
        obtain ⟨cs', hcs, rfl⟩ := Option.map_eq_some_iff.mp h
        simp [he, gck_up E it ot c hd.1 hc, gcZip_up E its ots cs' hd.2 hcs, upL, up]
termination_by structural its => its
theorem gcObj_up (E : Env) : ∀ (inn : List String) (its : List Ty) (on : List String) (ot : List Ty)
    (oo : List Bool) (cs : List Plan), hasDynL ot = false →
    gcObj E inn its on ot oo false = some cs → gcObj E inn its on ot oo true = some (upL cs)
  | [], its, on, ot, oo, cs, _, h => by simp [gcObj] at h ⊢; subst h; rfl
  | _ :: _, [], on, ot, oo, cs, _, h => by simp [gcObj] at h ⊢; subst h; rfl
  | n :: inn, it :: its, on, ot, oo, cs, hd, h => by
    rw [gcObj] at h ⊢
    split at h
    · rename_i hf
      obtain ⟨cs', hcs, rfl⟩ := Option.map_eq_some_iff.mp h
      simp [hf, gcObj_up E inn its on ot oo cs' hd hcs, upL, up]
    · rename_i oty o hf
      have hdo : hasDyn oty = false := hasDynL_mem hd oty (find_mem_ty hf)
      split at h
      · rename_i he
        obtain ⟨cs', hcs, rfl⟩ := Option.map_eq_some_iff.mp h
        simp [hf, he, gcObj_up E inn its on ot oo cs' hd hcs, upL, up]
      · rename_i he
        split at h
        · simp at h
        · rename_i c hc
          obtain ⟨cs', hcs, rfl⟩ := Option.map_eq_some_iff.mp h
          simp [hf, he, gck_up E it oty c hdo hc, gcObj_up E inn its on ot oo cs' hd hcs, upL, up]
termination_by structural _ its => its
end

/-! ### the flagged plan computes the same -/

/-- the recursive calls agree on a safe plan and its flagged copy -/
def RecEq (E : Env) (rec : Rec) : Prop :=
  ∀ (inT out : Ty) (c : Plan) (v : Value), gck E inT out false = some c → Conds inT out v →
    rec (.wrap out (up c)) v = rec (.wrap out c) v

theorem mapRes_congr {α β} {f g : α → Res β} : ∀ (xs : List α), (∀ x ∈ xs, f x = g x) →
    mapRes f xs = mapRes g xs
  | [], _ => rfl
  | x :: xs, h => by
    simp only [mapRes, h x (by simp), mapRes_congr xs fun y hy => h y (by simp [hy])]

section Eq
variable {E : Env} (hU : UnifyLaws E) {rec : Rec} (hrec : RecOK E rec) (heq : RecEq E rec)
include heq

theorem planFor_eq {it ot : Ty} {p : Plan} {e : Value} (hp : PlanFor E false it ot p) (hc : Conds it ot e) :
    applyOpt rec (up p) e = applyOpt rec p e := by
  rcases hp with ⟨rfl, _⟩ | ⟨c, rfl, hg⟩
  · rfl
  · simp only [up, applyOpt]
    exact heq it ot c e hg hc

theorem members_eq {ie oe conv} {post : Value → Value} (hpf : PlanFor E false ie oe conv)
    (hwi : wf ie = true) (hoi : hasOpt ie = false) (hwo : wf oe = true) (hdo : hasDyn oe = false)
    {es : List Value} (hes : ∀ e ∈ es, e.ty = ie ∧ wtP ie e.v = true) :
    mapRes (fun e => (applyOpt rec (up conv) e).map post) es =
      mapRes (fun e => (applyOpt rec conv e).map post) es := by
  apply mapRes_congr
  intro e he
  rw [planFor_eq heq hpf ⟨(hes e he).1, hwi, hwo, hoi, hdo, (hes e he).2⟩]

theorem applyZip_all_eq {t : Ty} (post : Value → Value) (hwt : wf t = true) (hdt : hasDyn t = false) :
    ∀ (its : List Ty) (cs : List Plan) (ps : List Payload),
    All2 (fun it p => PlanFor E false it t p) its cs → wtZip its ps = true →
    (∀ it ∈ its, wf it = true ∧ hasOpt it = false) →
    applyZip rec post (upL cs) (zipTys its ps) = applyZip rec post cs (zipTys its ps)
  | [], _, [], .nil, _, _ => rfl
  | [], _, _ :: _, _, hw, _ => by simp [wtZip] at hw
  | _ :: _, _, [], _, hw, _ => by simp [wtZip] at hw
  | it :: its, _, p :: ps, .cons hp hps, hw, hall => by
    simp only [wtZip, Bool.and_eq_true] at hw
    obtain ⟨hwi, hoi⟩ := hall it (by simp)
    have hc : Conds it t ⟨it, p⟩ := ⟨rfl, hwi, hwt, hoi, hdt, hw.1⟩
    simp only [upL, zipTys, applyZip, planFor_eq heq hp hc,
      applyZip_all_eq post hwt hdt its _ ps hps hw.2 fun x hx => hall x (by simp [hx])]

theorem applyZip_zip_eq :
    ∀ (its ots : List Ty) (cs : List Plan) (ps : List Payload),
    All3 (fun it ot p => PlanFor E false it ot p) its ots cs → wtZip its ps = true →
    wfL its = true → hasOptL its = false → wfL ots = true → hasDynL ots = false →
    applyZip rec id (upL cs) (zipTys its ps) = applyZip rec id cs (zipTys its ps)
  | [], _, _, [], .nil, _, _, _, _, _ => rfl
  | [], _, _, _ :: _, _, hw, _, _, _, _ => by simp [wtZip] at hw
  | _ :: _, _, _, [], _, hw, _, _, _, _ => by simp [wtZip] at hw
  | it :: its, ot :: ots, c :: cs, p :: ps, .cons hp hps, hw, hwi, hoi, hwo, hdo => by
    simp only [wtZip, Bool.and_eq_true] at hw
    simp only [wfL, Bool.and_eq_true] at hwi hwo
    simp only [hasOptL, Bool.or_eq_false_iff] at hoi
    simp only [hasDynL, Bool.or_eq_false_iff] at hdo
    have hc : Conds it ot ⟨it, p⟩ := ⟨rfl, hwi.1, hwo.1, hoi.1, hdo.1, hw.1⟩
    simp only [upL, zipTys, applyZip, planFor_eq heq hp hc,
      applyZip_zip_eq its ots cs ps hps hw.2 hwi.2 hoi.2 hwo.2 hdo.2]

omit heq in
theorem lookupPlan_upL (k : String) : ∀ (ks : List String) (cs : List Plan),
    lookupPlan k ks (upL cs) = (lookupPlan k ks cs).map up
  | [], _ => by simp [lookupPlan]
  | _ :: _, [] => by simp [lookupPlan, upL]
  | n :: ks, c :: cs => by
    simp only [upL, lookupPlan]
    split
    · rfl
    · exact lookupPlan_upL k ks cs

theorem objAttrLoop_eq {on : List String} {ot : List Ty} {oo : List Bool} {keys : List String}
    {convs : List Plan} :
    ∀ (ns : List String) (its : List Ty) (cs : List Plan) (ps : List Payload),
    All3 (AttrOK E false on ot oo keys convs) ns its cs → wtZip its ps = true →
    objAttrLoop rec keys (upL convs) ns (zipTys its ps) = objAttrLoop rec keys convs ns (zipTys its ps)
  | [], [], [], [], .nil, _ => rfl
  | _ :: _, _ :: _, _ :: _, [], _, hw => by simp [wtZip] at hw
  | n :: ns, it :: its, c :: cs, p :: ps, .cons hok hoks, hw => by
    simp only [wtZip, Bool.and_eq_true] at hw
    obtain ⟨hlk, hap, hwi, hoi, hout⟩ := hok
    have ih := objAttrLoop_eq ns its cs ps hoks hw.2
    simp only [zipTys, objAttrLoop, lookupPlan_upL, hlk, Option.map_some]
    rcases hap with ⟨rfl, _⟩ | ⟨oty, o, hf, hpf⟩
    · simp only [up]; exact ih
    · have hc : Conds it oty ⟨it, p⟩ :=
        ⟨rfl, hwi, (hout oty o hf).1, hoi, (hout oty o hf).2, hw.1⟩
      have hstep := planFor_eq heq hpf hc
      rcases hpf with ⟨rfl, _⟩ | ⟨c', rfl, _⟩
      · simp only [up, ih]
      · simp only [up] at hstep ⊢
        simp only [applyOpt] at hstep
        simp only [applyOpt, hstep, ih]

end Eq

theorem upL_length : ∀ (cs : List Plan), (upL cs).length = cs.length
  | [] => rfl
  | _ :: cs => by simp [upL, upL_length cs]

/-! ### every closure body -/

theorem inner_eq {E : Env} (hU : UnifyLaws E) {rec : Rec} (hrec : RecOK E rec) (heq : RecEq E rec)
    (inT out : Ty) (c : Plan) (v : Value) (hg : gck E inT out false = some c)
    (hc : Conds inT out v) (hp : plain v.v) : applyStep E rec (up c) v = applyStep E rec c v := by
  obtain ⟨hty, hwI, hwO, hoI, hdO, hwt⟩ := hc
  obtain ⟨vt, vp⟩ := v
  simp only at hty hwt hp
  subst hty
  have hid : vt.isDyn = false := by
    cases vt <;> simp [Ty.isDyn]
    exact (shape_prim_dyn hp hwt).elim
  cases out with
  | dyn => simp [hasDyn] at hdO
  | bool => cases vt <;> simp [gck, Ty.isDyn, isPrim, primSafe, primUnsafe] at hg hid
  | number => cases vt <;> simp [gck, Ty.isDyn, isPrim, primSafe, primUnsafe] at hg hid
  | string =>
    cases vt <;> simp [gck, Ty.isDyn, isPrim, primSafe, primUnsafe] at hg hid <;> subst hg <;> rfl
  | capsule i => cases vt <;> simp [gck, Ty.isDyn, isPrim, primSafe, primUnsafe] at hg hid
  | list oe =>
    have hwo : wf oe = true := by simpa [wf] using hwO
    have hdo : hasDyn oe = false := by simpa [hasDyn] using hdO
    cases vt <;> simp [gck, Ty.isDyn, isPrim] at hg hid
    case list ie =>
      have hwi : wf ie = true := by simpa [wf] using hwI
      have hoi : hasOpt ie = false := by simpa [hasOpt] using hoI
      obtain ⟨ps, rfl, hps⟩ := shape_list hp hwt
      have hpf : ∃ conv, c = .collToList oe conv ∧ PlanFor E false ie oe conv := by
        split at hg
        · rename_i he; simp at hg; exact ⟨.nil, hg.symm, .inl ⟨rfl, he⟩⟩
        · obtain ⟨c', hc', rfl⟩ := Option.map_eq_some_iff.mp hg
          exact ⟨_, rfl, .inr ⟨c', rfl, hc'⟩⟩
      obtain ⟨conv, rfl, hpf⟩ := hpf
      simp only [up, applyStep, elemsOf, Res.bind]
      rw [members_eq heq hpf hwi hoi hwo hdo (by
        intro e he
        obtain ⟨p, hpm, rfl⟩ := List.mem_map.mp he
        exact ⟨rfl, wtAll_mem hps p hpm⟩)]
    case set ie =>
      have hwi : wf ie = true := by simpa [wf] using hwI
      have hoi : hasOpt ie = false := by simpa [hasOpt] using hoI
      obtain ⟨ids, ps, rfl, hps⟩ := shape_set hp hwt
      have hpf : ∃ conv, c = .collToList oe conv ∧ PlanFor E false ie oe conv := by
        split at hg
        · rename_i he; simp at hg; exact ⟨.nil, hg.symm, .inl ⟨rfl, he⟩⟩
        · obtain ⟨c', hc', rfl⟩ := Option.map_eq_some_iff.mp hg
          exact ⟨_, rfl, .inr ⟨c', rfl, hc'⟩⟩
      obtain ⟨conv, rfl, hpf⟩ := hpf
      simp only [up, applyStep, elemsOf, Res.bind]
      rw [members_eq heq hpf hwi hoi hwo hdo (by
        intro e he
        obtain ⟨p, hpm, rfl⟩ := List.mem_map.mp he
        exact ⟨rfl, wtAll_mem hps p (setValues_mem hpm)⟩)]
    case tuple its =>
      have hwi : wfL its = true := by simpa [wf] using hwI
      have hoi : hasOptL its = false := by simpa [hasOpt] using hoI
      obtain ⟨ps, rfl, hps⟩ := shape_tuple hp hwt
      split at hg
      · simp at hg; subst hg; rfl
      · rename_i hne
        have hnd : oe.isDyn = false := not_isDyn_of_noDyn hdo
        simp only [seqTargetEty, hnd] at hg
        obtain ⟨cs, hcs, rfl⟩ := Option.map_eq_some_iff.mp hg
        have hpl := gcAll_inv E false oe hcs
        have hall : ∀ it ∈ its, wf it = true ∧ hasOpt it = false :=
          fun it hit => ⟨wfL_mem hwi it hit, hasOptL_mem hoi it hit⟩
        simp only [up, applyStep, elemsOf, Res.bind, applyZip_all_eq heq id hwo hdo its cs ps hpl hps hall]
        cases hz : applyZip rec id cs (zipTys its ps) with
        | ok es' =>
          have hm := applyZip_all hrec id (fun _ hv => hv) hwo hdo its cs ps es' hpl hps hall hz
          have hne' : es' ≠ [] := by
            intro he; rw [he] at hm
            have h0 := hm.1
            simp at h0
            exact hne (List.length_eq_zero_iff.mp h0.symm)
          have hT := wf_stripOpt oe hwo
          simp only [unifyElems_same hU hT (stripOpt_noOpt oe) hne' hm.2]
        | err e => rfl
        | panic w => rfl
        | unmodelled => rfl
  | set oe =>
    have hwo : wf oe = true := by simpa [wf] using hwO
    have hdo : hasDyn oe = false := by simpa [hasDyn] using hdO
    cases vt <;> simp [gck, Ty.isDyn, isPrim] at hg hid
    case set ie =>
      have hwi : wf ie = true := by simpa [wf] using hwI
      have hoi : hasOpt ie = false := by simpa [hasOpt] using hoI
      obtain ⟨ids, ps, rfl, hps⟩ := shape_set hp hwt
      have hpf : ∃ conv, c = .collToSet oe conv ∧ PlanFor E false ie oe conv := by
        split at hg
        · rename_i he; simp at hg; exact ⟨.nil, hg.symm, .inl ⟨rfl, he⟩⟩
        · obtain ⟨c', hc', rfl⟩ := Option.map_eq_some_iff.mp hg
          exact ⟨_, rfl, .inr ⟨c', rfl, hc'⟩⟩
      obtain ⟨conv, rfl, hpf⟩ := hpf
      simp only [up, applyStep, elemsOf, Res.bind]
      rw [members_eq heq hpf hwi hoi hwo hdo (by
        intro e he
        obtain ⟨p, hpm, rfl⟩ := List.mem_map.mp he
        exact ⟨rfl, wtAll_mem hps p (setValues_mem hpm)⟩)]
    case tuple its =>
      have hwi : wfL its = true := by simpa [wf] using hwI
      have hoi : hasOptL its = false := by simpa [hasOpt] using hoI
      obtain ⟨ps, rfl, hps⟩ := shape_tuple hp hwt
      split at hg
      · simp at hg; subst hg; rfl
      · rename_i hne
        have hnd : oe.isDyn = false := not_isDyn_of_noDyn hdo
        simp only [seqTargetEty, hnd] at hg
        obtain ⟨cs, hcs, rfl⟩ := Option.map_eq_some_iff.mp hg
        have hpl := gcAll_inv E false oe hcs
        have hall : ∀ it ∈ its, wf it = true ∧ hasOpt it = false :=
          fun it hit => ⟨wfL_mem hwi it hit, hasOptL_mem hoi it hit⟩
        simp only [up, applyStep, elemsOf, Res.bind, applyZip_all_eq heq stripNull hwo hdo its cs ps hpl hps hall]
  | map oe =>
    have hwo : wf oe = true := by simpa [wf] using hwO
    have hdo : hasDyn oe = false := by simpa [hasDyn] using hdO
    cases vt <;> simp [gck, Ty.isDyn, isPrim] at hg hid
    case map ie =>
      have hwi : wf ie = true := by simpa [wf] using hwI
      have hoi : hasOpt ie = false := by simpa [hasOpt] using hoI
      obtain ⟨ks, ps, rfl, _, hps⟩ := shape_map hp hwt
      obtain ⟨c', hc', rfl⟩ := hg
      have hpf : PlanFor E false ie oe (.wrap oe c') := .inr ⟨c', rfl, hc'⟩
      simp only [up, applyStep, elemsOf, Res.bind]
      have hcongr : mapRes (fun e => applyOpt rec (.wrap oe (up c')) e) (ps.map fun p => (⟨ie, p⟩ : Value)) =
          mapRes (fun e => applyOpt rec (.wrap oe c') e) (ps.map fun p => (⟨ie, p⟩ : Value)) := by
        apply mapRes_congr
        intro e he
        obtain ⟨p, hpm, rfl⟩ := List.mem_map.mp he
        have := planFor_eq heq hpf (e := ⟨ie, p⟩) ⟨rfl, hwi, hwo, hoi, hdo, wtAll_mem hps p hpm⟩
        simpa [up] using this
      rw [hcongr]
    case object inn its ios =>
      have hwi : wfL its = true := by
        simp only [wf, Bool.and_eq_true] at hwI; exact hwI.2
      have hoi : hasOptL its = false := by
        simp only [hasOpt, Bool.or_eq_false_iff] at hoI; exact hoI.2
      obtain ⟨ps, rfl, hps⟩ := shape_object hp hwt
      split at hg
      · simp at hg; subst hg; rfl
      · rename_i hne
        have hnd : oe.isDyn = false := not_isDyn_of_noDyn hdo
        simp only [mapTargetEty, hnd] at hg
        obtain ⟨cs, hcs, rfl⟩ := Option.map_eq_some_iff.mp hg
        have hpl := gcAll_inv E false oe hcs
        have hall : ∀ it ∈ its, wf it = true ∧ hasOpt it = false :=
          fun it hit => ⟨wfL_mem hwi it hit, hasOptL_mem hoi it hit⟩
        simp only [wf, Bool.and_eq_true, beq_iff_eq] at hwI
        have hndI := strictAsc_nodup hwI.1.2
        have hlc : inn.length = cs.length := by rw [hwI.1.1.1]; exact hpl.length
        have hself := lookup_map_self [] [] inn cs rfl hlc (by simp) hndI
        have hself' := lookup_map_self [] [] inn (upL cs) rfl (by rw [upL_length]; exact hlc) (by simp) hndI
        simp only [List.nil_append] at hself hself'
        simp only [up, applyStep, elemsOf, keysOf, Res.bind, hself, hself',
          applyZip_all_eq heq id hwo hdo its cs ps hpl hps hall]
        cases hz : applyZip rec id cs (zipTys its ps) with
        | ok es' =>
          have hm := applyZip_all hrec id (fun _ hv => hv) hwo hdo its cs ps es' hpl hps hall hz
          have hne' : es' ≠ [] := by
            intro he; rw [he] at hm
            have h0 := hm.1
            simp at h0
            exact hne (List.length_eq_zero_iff.mp h0.symm)
          have hT := wf_stripOpt oe hwo
          have hun : ∀ u, (if isCollOrObj oe = true then unifyElems E rec u es' else Res.ok es') = .ok es' := by
            intro u
            split
            · exact unifyElems_same hU hT (stripOpt_noOpt oe) hne' hm.2
            · rfl
          simp only [hun]
        | err e => rfl
        | panic w => rfl
        | unmodelled => rfl
  | tuple ots =>
    cases vt <;> simp [gck, Ty.isDyn, isPrim] at hg hid
    case tuple its =>
      obtain ⟨hlen, cs, hcs, rfl⟩ := hg
      obtain ⟨ps, rfl, hps⟩ := shape_tuple hp hwt
      have hpl := gcZip_inv E false hlen hcs
      simp only [up, applyStep, elemsOf, Res.bind,
        applyZip_zip_eq heq its ots cs ps hpl hps (by simpa [wf] using hwI) (by simpa [hasOpt] using hoI)
          (by simpa [wf] using hwO) (by simpa [hasDyn] using hdO)]
  | object on ot oo =>
    cases vt <;> simp [gck, Ty.isDyn, isPrim] at hg hid
    case object inn its ios =>
      obtain ⟨hreq, cs, hcs, rfl⟩ := hg
      obtain ⟨ps, rfl, hps⟩ := shape_object hp hwt
      have hwI' := hwI
      have hwO' := hwO
      have hoI' := hoI
      have hdO' := hdO
      simp only [wf, Bool.and_eq_true, beq_iff_eq] at hwI' hwO'
      simp only [hasOpt, Bool.or_eq_false_iff] at hoI'
      simp only [hasDyn] at hdO'
      have hpl := gcObj_inv E false on ot oo hwI'.1.1.1 hcs
      have hok := attrOK_build (E := E) (uns := false) (on := on) (ot := ot) (oo := oo) [] [] [] [] inn its ios cs
        rfl rfl rfl hwI'.1.1.2 (by simp) (strictAsc_nodup hwI'.1.2) hpl (by
          intro n it b hf
          simp only [List.nil_append] at hf
          refine ⟨wfL_mem hwI'.2 it (find_mem_ty hf), hasOptL_mem hoI'.2 it (find_mem_ty hf), ?_⟩
          intro oty o hfo
          exact ⟨wfL_mem hwO'.2 oty (find_mem_ty hfo), hasDynL_mem hdO' oty (find_mem_ty hfo)⟩)
      simp only [List.nil_append] at hok
      simp only [up, applyStep, elemsOf, keysOf, Res.bind, objAttrLoop_eq heq inn its cs ps hok hps]

/-! ### the wrapper, and every fuel -/

theorem recEq_apply {E : Env} (hU : UnifyLaws E) : ∀ n, RecEq E (apply E n) := by
  intro n
  induction n using Nat.strongRecOn with
  | _ n ih =>
    intro inT out c v hg hc
    cases n with
    | zero => rfl
    | succ n =>
      simp only [apply, applyStep]
      have hrec := ih n (Nat.lt_succ_self n)
      split
      · -- marked
        rename_i hm
        have hc' : Conds inT out v.unmark :=
          ⟨hc.ty, hc.wfI, hc.wfO, hc.optI, hc.dynO, unmark_wt hm hc.wt⟩
        have := hrec inT out c v.unmark hg hc'
        rw [this]
      · rename_i hm
        split
        · rfl
        · split
          · rfl
          · rename_i hkn
            have hk : v.isKnown = true ∧ v.isNull = false := by
              simp only [Bool.or_eq_true, Bool.not_eq_true', not_or, Bool.not_eq_false,
                Bool.not_eq_true] at hkn
              exact hkn
            cases n with
            | zero => rfl
            | succ m =>
              simp only [apply]
              have hm' : v.v.isMarked = false := by
                have : v.isMarked = false := by simpa using hm
                exact this
              exact inner_eq hU (recOK_apply hU m) (ih m (by omega)) inT out c v hg hc ⟨hm', hk.1, hk.2⟩

end Convert
end CtyModel
