/-
C07, type serialization beyond the round trip of well-formed capsule-free types:

* `toJson` fails exactly on the types that hold a capsule type at ANY depth, always with the
  ordinary error, never a panic;
* `ofJson` never returns a type that holds a capsule type;
* decoder strictness, as far as the decoder really is strict: whatever token tree the decoder
  accepts, the type it returns re-encodes, and the re-encoding decodes to the same type — the
  accepted-but-not-emitted spellings (`null` for an empty attribute/element list, duplicate keys,
  keys not in normal form, keys out of order, a `null` in the optional list) are all absorbed by the
  first decoding, none survives in the type.
-/
import CtyModel.Lemmas.TyJsonRT
import CtyModel.Lemmas.C17JsonTy
namespace CtyModel
namespace D07
open Ty C17Json

/-! ### capsule-freeness of lists -/

theorem hasCapsuleL_false_iff : ∀ ts : List Ty, hasCapsuleL ts = false ↔ ∀ u ∈ ts, hasCapsule u = false
  | [] => by simp [hasCapsuleL]
  | t :: ts => by
    simp only [hasCapsuleL, Bool.or_eq_false_iff, List.mem_cons, forall_eq_or_imp]
    rw [hasCapsuleL_false_iff ts]

/-! ### the encoder fails exactly on capsules, at any depth -/

mutual
theorem toJson_ok_of_noCapsule : ∀ t : Ty, hasCapsule t = false → ∃ j, toJson t = .ok j
  | .bool, _ => ⟨_, rfl⟩
  | .number, _ => ⟨_, rfl⟩
  | .string, _ => ⟨_, rfl⟩
  | .dyn, _ => ⟨_, rfl⟩
  | .capsule _, h => by simp [hasCapsule] at h
  | .list e, h => by
    obtain ⟨j, hj⟩ := toJson_ok_of_noCapsule e (by simpa [hasCapsule] using h)
    simp [toJson, hj, Res.map]
  | .set e, h => by
    obtain ⟨j, hj⟩ := toJson_ok_of_noCapsule e (by simpa [hasCapsule] using h)
    simp [toJson, hj, Res.map]
  | .map e, h => by
    obtain ⟨j, hj⟩ := toJson_ok_of_noCapsule e (by simpa [hasCapsule] using h)
    simp [toJson, hj, Res.map]
  | .tuple es, h => by
    obtain ⟨js, hj⟩ := toJsonL_ok_of_noCapsule es (by simpa [hasCapsule] using h)
    simp [toJson, hj, Res.map]
  | .object ns ts os, h => by
    obtain ⟨js, hj⟩ := toJsonL_ok_of_noCapsule ts (by simpa [hasCapsule] using h)
    simp [toJson, hj, Res.map]
theorem toJsonL_ok_of_noCapsule : ∀ ts : List Ty, hasCapsuleL ts = false → ∃ js, toJsonL ts = .ok js
  | [], _ => ⟨_, rfl⟩
  | t :: ts, h => by
    simp only [hasCapsuleL, Bool.or_eq_false_iff] at h
    obtain ⟨j, hj⟩ := toJson_ok_of_noCapsule t h.1
    obtain ⟨js, hjs⟩ := toJsonL_ok_of_noCapsule ts h.2
    simp [toJsonL, hj, hjs, Res.map]
end

mutual
theorem toJson_err_of_capsule : ∀ t : Ty, hasCapsule t = true → toJson t = .err "capsule"
  | .bool, h | .number, h | .string, h | .dyn, h => by simp [hasCapsule] at h
  | .capsule _, _ => rfl
  | .list e, h => by
    have := toJson_err_of_capsule e (by simpa [hasCapsule] using h)
    simp [toJson, this, Res.map]
  | .set e, h => by
    have := toJson_err_of_capsule e (by simpa [hasCapsule] using h)
    simp [toJson, this, Res.map]
  | .map e, h => by
    have := toJson_err_of_capsule e (by simpa [hasCapsule] using h)
    simp [toJson, this, Res.map]
  | .tuple es, h => by
    have := toJsonL_err_of_capsule es (by simpa [hasCapsule] using h)
    simp [toJson, this, Res.map]
  | .object ns ts os, h => by
    have := toJsonL_err_of_capsule ts (by simpa [hasCapsule] using h)
    simp [toJson, this, Res.map]
theorem toJsonL_err_of_capsule : ∀ ts : List Ty, hasCapsuleL ts = true → toJsonL ts = .err "capsule"
  | [], h => by simp [hasCapsuleL] at h
  | t :: ts, h => by
    simp only [hasCapsuleL, Bool.or_eq_true] at h
    by_cases ht : hasCapsule t = true
    · simp [toJsonL, toJson_err_of_capsule t ht]
    · have ht' : hasCapsule t = false := by simpa using ht
      obtain ⟨j, hj⟩ := toJson_ok_of_noCapsule t ht'
      have hts : hasCapsuleL ts = true := by
        rcases h with h | h
        · exact absurd h ht
        · exact h
      simp [toJsonL, hj, toJsonL_err_of_capsule ts hts, Res.map]
end

/-- `Type.MarshalJSON` fails — with the ordinary error, never a panic — exactly when the type holds a
capsule type at any depth -/
theorem toJson_err_iff (t : Ty) : toJson t = .err "capsule" ↔ hasCapsule t = true := by
  constructor
  · intro h
    cases hc : hasCapsule t with
    | true => rfl
    | false =>
      obtain ⟨j, hj⟩ := toJson_ok_of_noCapsule t hc
      rw [hj] at h; cases h
  · exact toJson_err_of_capsule t

theorem toJson_ok_iff (t : Ty) : (∃ j, toJson t = .ok j) ↔ hasCapsule t = false := by
  constructor
  · rintro ⟨j, hj⟩
    cases hc : hasCapsule t with
    | false => rfl
    | true => rw [toJson_err_of_capsule t hc] at hj; cases hj
  · exact toJson_ok_of_noCapsule t

theorem toJson_never_panics (t : Ty) (w : String) : toJson t ≠ .panic w := by
  cases hc : hasCapsule t with
  | true => rw [toJson_err_of_capsule t hc]; intro h; cases h
  | false => obtain ⟨j, hj⟩ := toJson_ok_of_noCapsule t hc; rw [hj]; intro h; cases h

/-! ### the decoder never returns a capsule type -/

theorem buildFields_noCapsule (norm : String → String) (ks : List String) (ts : List Ty)
    (h : hasCapsuleL ts = false) : hasCapsuleL (buildFields norm ks ts).2 = false := by
  obtain ⟨_, _, _, ht⟩ := buildFields_inv norm ks ts
  rw [hasCapsuleL_false_iff] at h ⊢
  exact fun u hu => h u (ht u hu)

theorem ofJson_noCapsule_aux (norm : String → String) : ∀ n : Nat,
    (∀ j : Json, sizeOf j < n → Sat (fun t => hasCapsule t = false) (ofJson norm j)) ∧
    (∀ js : List Json, sizeOf js < n → Sat (fun ts => hasCapsuleL ts = false) (ofJsonL norm js))
  | 0 => ⟨fun _ h => absurd h (Nat.not_lt_zero _), fun _ h => absurd h (Nat.not_lt_zero _)⟩
  | n + 1 => by
    obtain ⟨ih, ihL⟩ := ofJson_noCapsule_aux norm n
    constructor
    · intro j hj
      cases j with
      | null => simp [ofJson, Sat]
      | bool _ => simp [ofJson, Sat]
      | num _ => simp [ofJson, Sat]
      | obj _ _ => simp [ofJson, Sat]
      | str s =>
        simp only [ofJson]
        repeat' split
        all_goals first
          | exact Sat.err
          | exact Sat.ok (by simp [hasCapsule])
      | arr xs =>
        cases xs with
        | nil => simp [ofJson, Sat]
        | cons x rest =>
          have hx : sizeOf rest < n := by
            simp only [Json.arr.sizeOf_spec, List.cons.sizeOf_spec] at hj; omega
          cases x with
          | null => simp [ofJson, Sat]
          | bool _ => simp [ofJson, Sat]
          | num _ => simp [ofJson, Sat]
          | obj _ _ => simp [ofJson, Sat]
          | arr _ => simp [ofJson, Sat]
          | str kind =>
            rw [ofJson.eq_def]
            simp only []
            split
            · cases rest with
              | nil => exact Sat.err
              | cons e more =>
                have he : sizeOf e < n := by have := (sizeOf_lt_cons e more).1; omega
                cases more with
                | nil => exact (ih e he).map (fun e he => by simpa [hasCapsule] using he)
                | cons _ _ => exact (ih e he).bind (fun _ _ => Sat.err)
            split
            · cases rest with
              | nil => exact Sat.err
              | cons e more =>
                have he : sizeOf e < n := by have := (sizeOf_lt_cons e more).1; omega
                cases more with
                | nil => exact (ih e he).map (fun e he => by simpa [hasCapsule] using he)
                | cons _ _ => exact (ih e he).bind (fun _ _ => Sat.err)
            split
            · cases rest with
              | nil => exact Sat.err
              | cons e more =>
                have he : sizeOf e < n := by have := (sizeOf_lt_cons e more).1; omega
                cases more with
                | nil => exact (ih e he).map (fun e he => by simpa [hasCapsule] using he)
                | cons _ _ => exact (ih e he).bind (fun _ _ => Sat.err)
            split
            · -- tuple
              cases rest with
              | nil => exact Sat.err
              | cons e more =>
                have he : sizeOf e < n := by have := (sizeOf_lt_cons e more).1; omega
                cases e with
                | null => simp only []; split <;> first | exact Sat.err | exact Sat.ok (by simp [hasCapsule, hasCapsuleL])
                | arr es =>
                  have hes : sizeOf es < n := by simp only [Json.arr.sizeOf_spec] at he; omega
                  simp only []
                  refine (ihL es hes).bind (fun ts hts => ?_)
                  split
                  · exact Sat.ok (by simpa [hasCapsule] using hts)
                  · exact Sat.err
                | _ => exact Sat.err
            split
            · -- object
              cases rest with
              | nil => exact Sat.err
              | cons attrs more =>
                have hattrs : sizeOf attrs < n := by have := (sizeOf_lt_cons attrs more).1; omega
                simp only []
                refine Sat.bind (P := fun p : List String × List Ty => hasCapsuleL p.2 = false) ?_ ?_
                · cases attrs with
                  | null => exact Sat.ok (by simp [hasCapsuleL])
                  | obj ks vs =>
                    have hvs : sizeOf vs < n := by simp only [Json.obj.sizeOf_spec] at hattrs; omega
                    exact (ihL vs hvs).map (fun ts hts => buildFields_noCapsule norm ks ts hts)
                  | _ => exact Sat.err
                · intro p hp
                  obtain ⟨ns, ts⟩ := p
                  simp only at hp
                  cases more with
                  | nil => exact Sat.ok (by simpa [hasCapsule] using hp)
                  | cons optj more' =>
                    simp only []
                    refine Sat.bind (P := fun _ => True) ?_ (fun optl _ => ?_)
                    · cases optj with
                      | null => exact Sat.ok trivial
                      | arr xs => simp only []; split <;> first | exact Sat.err | exact Sat.ok trivial
                      | _ => exact Sat.err
                    · show Sat _ _
                      split
                      · split
                        · exact Sat.ok (by simpa [hasCapsule] using hp)
                        · exact Sat.err
                      · exact Sat.err
            · exact Sat.err
    · intro js hjs
      cases js with
      | nil => exact Sat.ok (by simp [hasCapsuleL])
      | cons x xs =>
        have ⟨h1, h2⟩ := sizeOf_lt_cons x xs
        have hx := ih x (by omega)
        have hxs := ihL xs (by omega)
        simp only [ofJsonL]
        cases hr : ofJson norm x with
        | ok t =>
          rw [hr] at hx
          simp only
          refine hxs.map (fun ts hts => ?_)
          have ht : hasCapsule t = false := hx
          simp [hasCapsuleL, ht, hts]
        | err c => exact Sat.err
        | panic w => rw [hr] at hx; exact absurd hx id
        | unmodelled => exact Sat.unm

/-- `Type.UnmarshalJSON` never returns a type that holds a capsule type, whatever the token tree -/
theorem ofJson_noCapsule (norm : String → String) (j : Json) (t : Ty) (h : ofJson norm j = .ok t) :
    hasCapsule t = false :=
  ((ofJson_noCapsule_aux norm (sizeOf j + 1)).1 j (Nat.lt_succ_self _)).of_ok h

/-! ### `namesFixed` is `namesAll` of "is a fixed point" -/

mutual
theorem namesFixed_eq_namesAll (norm : String → String) : ∀ t : Ty, namesFixed norm t = namesAll (nfcOf norm) t
  | .bool | .number | .string | .dyn | .capsule _ => rfl
  | .list e | .set e | .map e => by simp [namesFixed, namesAll, namesFixed_eq_namesAll norm e]
  | .tuple es => by simp [namesFixed, namesAll, namesFixedL_eq_namesAllL norm es]
  | .object ns ts _ => by
    simp only [namesFixed, namesAll, namesFixedL_eq_namesAllL norm ts]
    rfl
theorem namesFixedL_eq_namesAllL (norm : String → String) : ∀ ts : List Ty, namesFixedL norm ts = namesAllL (nfcOf norm) ts
  | [] => rfl
  | t :: ts => by simp [namesFixedL, namesAllL, namesFixed_eq_namesAll norm t, namesFixedL_eq_namesAllL norm ts]
end

/-- **decoder strictness**: every type the decoder returns — from ANY token tree it accepts — can be
encoded, and its encoding decodes to the same type.  So the decoder's leniencies (`null` for an empty
list of attributes / elements / optional names, duplicate keys, keys out of order or not normalised)
never produce a type outside the image of the well-formed, capsule-free, name-normalised types on
which `toJson`/`ofJson` are mutually inverse. -/
theorem ofJson_reencodes (norm : String → String) (hn : ∀ s, norm (norm s) = norm s) (j : Json) (t : Ty)
    (h : ofJson norm j = .ok t) : ∃ j', toJson t = .ok j' ∧ ofJson norm j' = .ok t := by
  have hg : TyGood norm t := (ofJson_sat norm j).of_ok h
  have hc := ofJson_noCapsule norm j t h
  have hf : namesFixed norm t = true := by rw [namesFixed_eq_namesAll]; exact hg.2 hn
  exact json_roundtrip norm t hg.1 hc hf

end D07
end CtyModel
