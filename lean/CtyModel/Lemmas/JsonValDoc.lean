/-
C15 — documents: for a document with distinct ascending normalised keys and
representable numbers, `impliedType` is the structural type, `unmarshal` with it succeeds
and returns a value of exactly that type, and `marshal` of that value gives the document
back up to number spelling.  Mutual structural induction on the document.
-/
import CtyModel.Lemmas.JsonValRT
namespace CtyModel
namespace JsonVal
open Ty

theorem lookupTy_none {k : String} : ∀ (aK : List String) (aT : List Ty), k ∉ aK → lookupTy k aK aT = none
  | [], _, _ => by simp [lookupTy]
  | _ :: _, [], _ => by simp [lookupTy]
  | n :: ns, t :: ts, h => by
    have hn : n ≠ k := fun e => h (by simp [e])
    simp [lookupTy, hn, lookupTy_none ns ts (fun hm => h (List.mem_cons_of_mem _ hm))]

theorem structTyL_length (norm : String → String) : ∀ xs : List Json, (structTyL norm xs).length = xs.length
  | [] => rfl
  | _ :: xs => by simp [structTyL, structTyL_length norm xs]

theorem nodup_of_map (f : String → String) : ∀ ks : List String, (ks.map f).Nodup → ks.Nodup
  | [], _ => List.nodup_nil
  | k :: ks, h => by
    simp only [List.map_cons] at h
    have ⟨hk, hn⟩ := List.nodup_cons.mp h
    exact List.nodup_cons.mpr ⟨fun hm => hk (List.mem_map_of_mem hm), nodup_of_map f ks hn⟩

/-- `cty.Object` on keys whose normal forms are already ascending: just the normal forms -/
theorem buildFields_norm_asc {norm : String → String} : ∀ {ks : List String} {ts : List Ty},
    strictAsc (ks.map norm) = true → ks.length = ts.length →
    buildFields norm ks ts = (ks.map norm, ts)
  | [], [], _, _ => by simp [buildFields]
  | [], _ :: _, _, h => by simp at h
  | _ :: _, [], _, h => by simp at h
  | k :: ks, t :: ts, ha, hl => by
    simp only [List.map_cons] at ha
    have ⟨ha', hlt⟩ := strictAsc_cons ha
    simp only [buildFields]
    rw [buildFields_norm_asc ha' (by simpa using hl)]
    exact insertField_lt (by simpa using hl) hlt

theorem conflictWith_none {norm : String → String} {k : String} {t : Ty} : ∀ (ks : List String) (ts : List Ty),
    norm k ∉ ks.map norm → conflictWith norm k t ks ts = false
  | [], _, _ => by simp [conflictWith]
  | _ :: _, [], _ => by simp [conflictWith]
  | k' :: ks, t' :: ts, h => by
    simp only [List.map_cons, List.mem_cons, not_or] at h
    have : (norm k' == norm k) = false := by simpa using fun e => h.1 e.symm
    simp [conflictWith, this, conflictWith_none ks ts h.2]

theorem normConflict_nodup {norm : String → String} : ∀ (ks : List String) (ts : List Ty),
    (ks.map norm).Nodup → normConflict norm ks ts = false
  | [], _, _ => by simp [normConflict]
  | _ :: _, [], _ => by simp [normConflict]
  | k :: ks, t :: ts, h => by
    simp only [List.map_cons] at h
    have ⟨hk, hn⟩ := List.nodup_cons.mp h
    simp [normConflict, conflictWith_none ks ts hk, normConflict_nodup ks ts hn]

/-- the prologue of `marshal` does nothing when constraint and type coincide -/
theorem marshalEntry_same (t : Ty) (p : Payload) (body : Ty → Res Json)
    (hm : p.isMarked = false) (hk : p.isKnown = true) : marshalEntry t t p body = body t := by
  unfold marshalEntry
  simp [hm, hk]

/-- conclusion for one document -/
def DocGood (env : JEnv) (d : Json) : Prop :=
  ∃ p d', impliedType env d = .ok (structTy env.norm d) ∧
    unmarshal env d (structTy env.norm d) = .ok ⟨structTy env.norm d, p⟩ ∧
    p.isMarked = false ∧ p.isKnown = true ∧
    marshalKnown env (structTy env.norm d) (structTy env.norm d) p = .ok d' ∧ jsonNormEq env.norm d' d = true

mutual
theorem doc_rt (env : JEnv) : ∀ d : Json, docOK env d = true → DocGood env d
  | .null, _ => ⟨.null, .null, by simp [impliedType, structTy], by simp [unmarshal, structTy],
      rfl, rfl, by simp [marshalKnown], by simp [jsonNormEq]⟩
  | .bool b, _ => ⟨.b b, .bool b, by simp [impliedType, structTy],
      by simp [unmarshal, unmarshalPrim, structTy], rfl, rfl,
      by simp [marshalKnown, structTy], by simp [jsonNormEq]⟩
  | .str s, _ => ⟨.s (env.norm s), .str (env.norm s), by simp [impliedType, structTy],
      by simp [unmarshal, unmarshalPrim, structTy], rfl, rfl,
      by simp [marshalKnown, structTy], by simp [jsonNormEq]⟩
  | .num l, h => by
    simp only [docOK] at h
    split at h
    · rename_i n hn
      obtain ⟨hinf, n', hp, hr⟩ := numOK_spec h
      exact ⟨.n n, .num (Num.textF n), by simp [impliedType, structTy],
        by simp [unmarshal, unmarshalPrim, structTy, hn, Res.map], rfl, rfl,
        by simp [marshalKnown, structTy, hinf], by simp [jsonNormEq, hp, hn, hr]⟩
    · simp at h
  | .arr xs, h => by
    obtain ⟨vals, ds, hi, _, hu, _, hty, hm, he, hlen⟩ := doc_rtL env xs (by simpa [docOK] using h)
    have hl : vals.length = (structTyL env.norm xs).length := by
      have := congrArg List.length hty; simpa using this
    refine ⟨.seq (vals.map (·.v)), .arr ds, by simp [impliedType, structTy, hi, Res.map], ?_, rfl, rfl,
      by simp [marshalKnown, structTy, hm, Res.map], by simpa [jsonNormEq] using he⟩
    simp [unmarshal, structTy, hu, hl, tupleVal, hty]
  | .obj ks vs, h => by
    simp only [docOK, Bool.and_eq_true, beq_iff_eq] at h
    obtain ⟨⟨hasc, hkl⟩, hok⟩ := h
    obtain ⟨vals, ds, _, him, _, hua, hty, hm, he, hlen⟩ := doc_rtL env vs hok
    have hndn := strictAsc_nodup hasc
    have hnd : ks.Nodup := nodup_of_map env.norm ks hndn
    have him' := him [] [] ks hkl (by simp) hnd
    have hlen' : ks.length = (structTyL env.norm vs).length := by rw [structTyL_length]; exact hkl
    have hb := buildFields_norm_asc (norm := env.norm) (ts := structTyL env.norm vs) hasc hlen'
    have hvl : vals.length = vs.length := by
      have := congrArg List.length hty
      simp only [List.length_map, structTyL_length] at this
      exact this
    have hfa := hua ks (ks.map fun _ => false) (ks.map env.norm) (structTyL env.norm vs) (ks.map fun _ => false) hkl
      (by simp [hkl]) (FieldsIn_self hasc)
    have hov : objectVal (ks.map env.norm) (structTyL env.norm vs) (ks.map env.norm) vals = vals := by
      have := objectVal_self (ks.map env.norm) (structTyL env.norm vs) vals [] [] rfl (by simpa using hndn)
        (by simp; omega) (by simpa using hlen')
      simpa using this
    refine ⟨.smap (ks.map env.norm) (vals.map (·.v)), .obj (ks.map env.norm) ds, ?_, ?_, rfl, rfl,
      by simp [marshalKnown, structTy, hm, Res.map], by simpa [jsonNormEq] using he⟩
    · simp only [List.nil_append] at him'
      simp [impliedType, structTy, him', normConflict_nodup ks _ hndn, hb]
    · simp [unmarshal, structTy, hfa, hov, hty]
theorem doc_rtL (env : JEnv) : ∀ xs : List Json, docOKL env xs = true →
    ∃ (vals : List Value) (ds : List Json),
      impliedAll env xs = .ok (structTyL env.norm xs) ∧
      (∀ (aK : List String) (aT : List Ty) (ks : List String), ks.length = xs.length →
        (∀ k ∈ ks, k ∉ aK) → ks.Nodup →
        impliedMembers env ks xs aK aT = .ok (aK ++ ks, aT ++ structTyL env.norm xs)) ∧
      unmarshalZip env xs (structTyL env.norm xs) = .ok vals ∧
      (∀ (ks : List String) (osK : List Bool) (ns : List String) (ts : List Ty) (os : List Bool),
        ks.length = xs.length → osK.length = xs.length →
        FieldsIn (ks.map env.norm) (structTyL env.norm xs) osK ns ts os →
        unmarshalAttrs env ks xs ns ts os = .ok vals) ∧
      vals.map (·.ty) = structTyL env.norm xs ∧
      marshalZip env (structTyL env.norm xs) (structTyL env.norm xs) (vals.map (·.v)) = .ok ds ∧
      jsonNormEqL env.norm ds xs = true ∧ (structTyL env.norm xs).length = xs.length
  | [], _ => ⟨[], [], rfl,
      fun aK aT ks hk _ _ => by
        have : ks = [] := List.eq_nil_of_length_eq_zero (by simpa using hk)
        subst this; simp [impliedMembers, structTyL],
      by simp [unmarshalZip],
      fun ks _ _ _ _ hk _ _ => by
        have : ks = [] := List.eq_nil_of_length_eq_zero (by simpa using hk)
        subst this; simp [unmarshalAttrs],
      rfl, by simp [marshalZip, structTyL], rfl, rfl⟩
  | x :: xs, h => by
    simp only [docOKL, Bool.and_eq_true] at h
    obtain ⟨p, d', hi, hu, hmk, hkn, hm, he⟩ := doc_rt env x h.1
    obtain ⟨vals, ds, his, hims, hus, huas, htys, hms, hes, hlen⟩ := doc_rtL env xs h.2
    refine ⟨⟨structTy env.norm x, p⟩ :: vals, d' :: ds, by simp [impliedAll, structTyL, hi, his], ?_,
      by simp [unmarshalZip, structTyL, hu, hus], ?_, by simp [structTyL, htys], ?_,
      by simp [jsonNormEqL, he, hes], by simp [structTyL, hlen]⟩
    · intro aK aT ks hk hdis hnd
      cases ks with
      | nil => simp at hk
      | cons k ks =>
        have ⟨hkn', hnd'⟩ := List.nodup_cons.mp hnd
        have hnot : k ∉ aK := hdis k (by simp)
        have hrest := hims (aK ++ [k]) (aT ++ [structTy env.norm x]) ks (by simpa using hk)
          (by
            intro k' hk' hmem
            rcases List.mem_append.mp hmem with hm' | hm'
            · exact hdis k' (List.mem_cons_of_mem _ hk') hm'
            · simp at hm'; subst hm'; exact hkn' hk')
          hnd'
        simp [impliedMembers, hi, lookupTy_none aK aT hnot, hrest, structTyL]
    · intro ks osK ns ts os hk ho hf
      cases ks with
      | nil => simp at hk
      | cons k ks =>
        cases osK with
        | nil => simp at ho
        | cons o osK =>
          simp only [structTyL, List.map_cons, FieldsIn] at hf
          simp [unmarshalAttrs, hf.1, hu,
            huas ks osK ns ts os (by simpa using hk) (by simpa using ho) hf.2]
    · simp only [structTyL, List.map_cons, marshalZip]
      rw [marshalEntry_same (structTy env.norm x) p _ hmk hkn]
      simp [hm, hms, Res.map]
end

/-! ### `impliedType` in general: never a panic, and the kind of the result -/

theorem errOf_not_panic {α β} {r : Res α} (h : ∀ w, r ≠ .panic w) : ∀ w, (errOf r : Res β) ≠ .panic w := by
  intro w
  cases r with
  | panic w' => exact absurd rfl (h w')
  | _ => simp [errOf]

mutual
theorem implied_no_panic (env : JEnv) : ∀ (j : Json) (w : String), impliedType env j ≠ .panic w
  | .null, _ => by simp [impliedType]
  | .bool _, _ => by simp [impliedType]
  | .num _, _ => by simp [impliedType]
  | .str _, _ => by simp [impliedType]
  | .arr xs, w => by
    simp only [impliedType]
    have := impliedAll_no_panic env xs
    cases h : impliedAll env xs with
    | panic w' => exact absurd h (this w')
    | _ => simp [Res.map]
  | .obj ks vs, w => by
    simp only [impliedType]
    have := impliedMembers_no_panic env ks vs [] []
    split
    · split <;> simp
    · rename_i r _
      exact errOf_not_panic this w
theorem impliedAll_no_panic (env : JEnv) : ∀ (xs : List Json) (w : String), impliedAll env xs ≠ .panic w
  | [], _ => by simp [impliedAll]
  | x :: xs, w => by
    simp only [impliedAll]
    split
    · split
      · simp
      · rename_i r _
        intro e
        exact impliedAll_no_panic env xs w e
    · rename_i r _
      exact errOf_not_panic (implied_no_panic env x) w
theorem impliedMembers_no_panic (env : JEnv) : ∀ (ks : List String) (vs : List Json) (aK : List String)
    (aT : List Ty) (w : String), impliedMembers env ks vs aK aT ≠ .panic w
  | [], _, _, _, _ => by simp [impliedMembers]
  | _ :: _, [], _, _, _ => by simp [impliedMembers]
  | k :: ks, v :: vs, aK, aT, w => by
    simp only [impliedMembers]
    split
    · split
      · split
        · simp
        · exact impliedMembers_no_panic env ks vs _ _ w
      · exact impliedMembers_no_panic env ks vs _ _ w
    · rename_i r _
      exact errOf_not_panic (implied_no_panic env v) w
end

theorem impliedAll_length (env : JEnv) : ∀ (xs : List Json) (ts : List Ty), impliedAll env xs = .ok ts →
    ts.length = xs.length ∧ ∀ i (h : i < xs.length) (h' : i < ts.length), impliedType env xs[i] = .ok ts[i]
  | [], ts, h => by simp [impliedAll] at h; subst h; simp
  | x :: xs, ts, h => by
    simp only [impliedAll] at h
    split at h
    · rename_i t ht
      split at h
      · rename_i ts' hts'
        simp at h; subst h
        have ⟨hl, hi⟩ := impliedAll_length env xs ts' hts'
        refine ⟨by simp [hl], ?_⟩
        intro i h1 h2
        cases i with
        | zero => simpa using ht
        | succ i => simpa using hi i (by simpa using h1) (by simpa using h2)
      · rename_i r hr _
        cases hrr : impliedAll env xs <;> simp_all
    · rename_i r hr
      cases hrr : impliedType env x <;> simp_all [errOf]

/-! ### attribute names of an implied object type: the normalised keys, sorted -/

theorem str_lt_of_not (a b : String) (h1 : ¬ a < b) (h2 : a ≠ b) : b < a := by
  apply Classical.byContradiction
  intro h3
  exact h2 (String.le_antisymm (String.not_lt.mp h3) (String.not_lt.mp h1))

theorem insertField_spec (k : String) (t : Ty) : ∀ (ns : List String) (ts : List Ty),
    ns.length = ts.length → strictAsc ns = true →
    strictAsc (insertField k t ns ts).1 = true ∧
    (insertField k t ns ts).1.length = (insertField k t ns ts).2.length ∧
    (∀ x, x ∈ (insertField k t ns ts).1 ↔ x = k ∨ x ∈ ns) ∧
    (∀ x ∈ (insertField k t ns ts).1, (∀ y ∈ ns, k < y) → k ≤ x)
  | [], [], _, _ => by simp [insertField, strictAsc]
  | [], _ :: _, h, _ => by simp at h
  | _ :: _, [], h, _ => by simp at h
  | n :: ns, u :: us, hl, ha => by
    have ⟨ha', hlt⟩ := strictAsc_cons ha
    simp only [insertField]
    by_cases h1 : k < n
    · simp only [h1, if_true]
      refine ⟨strictAsc_of ha (fun x hx => ?_), by simpa using hl, by simp, ?_⟩
      · rcases List.mem_cons.mp hx with rfl | hx
        · exact h1
        · exact String.lt_trans h1 (hlt x hx)
      · intro x hx _
        rcases List.mem_cons.mp hx with rfl | hx
        · exact String.le_refl _
        · rcases List.mem_cons.mp hx with rfl | hx
          · exact String.not_lt.mp (String.lt_asymm h1)
          · exact String.not_lt.mp (String.lt_asymm (String.lt_trans h1 (hlt x hx)))
    · simp only [h1, if_false]
      by_cases h2 : k = n
      · subst h2
        simp only [if_true]
        refine ⟨ha, by simpa using hl, by simp, ?_⟩
        intro x hx hall
        exact absurd (hall k (by simp)) (String.lt_irrefl _)
      · simp only [h2, if_false]
        have hnk : n < k := str_lt_of_not k n h1 h2
        obtain ⟨i1, i2, i3, _⟩ := insertField_spec k t ns us (by simpa using hl) ha'
        refine ⟨strictAsc_of i1 (fun x hx => ?_), by simp [i2], ?_, ?_⟩
        · rcases (i3 x).mp hx with rfl | hx
          · exact hnk
          · exact hlt x hx
        · intro x
          simp only [List.mem_cons, i3]
          constructor
          · rintro (h | h | h)
            · exact .inr (.inl h)
            · exact .inl h
            · exact .inr (.inr h)
          · rintro (h | h | h)
            · exact .inr (.inl h)
            · exact .inl h
            · exact .inr (.inr h)
        · intro x _ hall
          exact absurd (hall n (by simp)) (String.lt_asymm hnk)

theorem buildFields_spec (norm : String → String) : ∀ (ks : List String) (ts : List Ty),
    ks.length = ts.length →
    strictAsc (buildFields norm ks ts).1 = true ∧
    (buildFields norm ks ts).1.length = (buildFields norm ks ts).2.length ∧
    (∀ x, x ∈ (buildFields norm ks ts).1 ↔ x ∈ ks.map norm)
  | [], [], _ => by simp [buildFields, strictAsc]
  | [], _ :: _, h => by simp at h
  | _ :: _, [], h => by simp at h
  | k :: ks, t :: ts, hl => by
    obtain ⟨i1, i2, i3⟩ := buildFields_spec norm ks ts (by simpa using hl)
    obtain ⟨j1, j2, j3, _⟩ := insertField_spec (norm k) t _ _ i2 i1
    simp only [buildFields]
    refine ⟨j1, j2, ?_⟩
    intro x
    simp [j3, i3]

theorem setTy_length (k : String) (t : Ty) : ∀ (aK : List String) (aT : List Ty), aK.length = aT.length →
    (setTy k t aK aT).length = aT.length
  | [], [], _ => rfl
  | [], _ :: _, h => by simp at h
  | _ :: _, [], h => by simp at h
  | n :: ns, u :: us, h => by
    simp only [setTy]
    split
    · simp
    · simp [setTy_length k t ns us (by simpa using h)]

theorem lookupTy_some_mem {k : String} {t : Ty} : ∀ (aK : List String) (aT : List Ty),
    lookupTy k aK aT = some t → k ∈ aK
  | [], _, h => by simp [lookupTy] at h
  | _ :: _, [], h => by simp [lookupTy] at h
  | n :: ns, u :: us, h => by
    simp only [lookupTy] at h
    split at h
    · simp [*]
    · exact List.mem_cons_of_mem _ (lookupTy_some_mem ns us h)

/-- the keys collected by `impliedObjectType`: exactly the keys seen, lists stay parallel -/
theorem impliedMembers_keys (env : JEnv) : ∀ (ks : List String) (vs : List Json) (aK : List String)
    (aT : List Ty) (rK : List String) (rT : List Ty), ks.length = vs.length → aK.length = aT.length →
    impliedMembers env ks vs aK aT = .ok (rK, rT) →
    rK.length = rT.length ∧ ∀ x, x ∈ rK ↔ x ∈ aK ∨ x ∈ ks
  | [], [], aK, aT, rK, rT, _, hl, h => by
    simp [impliedMembers] at h
    obtain ⟨rfl, rfl⟩ := h
    exact ⟨hl, by simp⟩
  | [], _ :: _, _, _, _, _, h, _, _ => by simp at h
  | _ :: _, [], _, _, _, _, h, _, _ => by simp at h
  | k :: ks, v :: vs, aK, aT, rK, rT, hkl, hl, h => by
    simp only [impliedMembers] at h
    split at h
    · rename_i aty _
      split at h
      · rename_i ex hex
        split at h
        · simp at h
        · obtain ⟨i1, i2⟩ := impliedMembers_keys env ks vs aK _ rK rT (by simpa using hkl)
            (by rw [setTy_length k aty aK aT hl]; exact hl) h
          refine ⟨i1, fun x => ?_⟩
          rw [i2 x]
          have hk := lookupTy_some_mem aK aT hex
          constructor
          · rintro (h | h)
            · exact .inl h
            · exact .inr (List.mem_cons_of_mem _ h)
          · rintro (h | h)
            · exact .inl h
            · rcases List.mem_cons.mp h with rfl | h
              · exact .inl hk
              · exact .inr h
      · obtain ⟨i1, i2⟩ := impliedMembers_keys env ks vs (aK ++ [k]) (aT ++ [aty]) rK rT
          (by simpa using hkl) (by simp [hl]) h
        refine ⟨i1, fun x => ?_⟩
        rw [i2 x]
        simp only [List.mem_append, List.mem_cons, List.not_mem_nil, or_false, or_assoc]
    · rename_i r hr
      cases hrr : impliedType env v <;> simp_all [errOf]

/-- an implied object type: names strictly ascending, parallel to the types, none optional,
and exactly the normal forms of the document's keys -/
theorem implied_object_names (env : JEnv) (ks : List String) (vs : List Json) (t : Ty)
    (hl : ks.length = vs.length) (h : impliedType env (.obj ks vs) = .ok t) :
    ∃ ns ts, t = .object ns ts (ns.map fun _ => false) ∧ strictAsc ns = true ∧
      ns.length = ts.length ∧ ∀ x, x ∈ ns ↔ x ∈ ks.map env.norm := by
  simp only [impliedType] at h
  split at h
  · rename_i aK aT hm
    split at h
    · simp at h
    · simp at h
      obtain ⟨i1, i2⟩ := impliedMembers_keys env ks vs [] [] aK aT hl rfl hm
      obtain ⟨j1, j2, j3⟩ := buildFields_spec env.norm aK aT i1
      refine ⟨_, _, h.symm, j1, j2, fun x => ?_⟩
      rw [j3 x]
      simp only [List.mem_map]
      constructor
      · rintro ⟨a, ha, rfl⟩
        exact ⟨a, by simpa using (i2 a).mp ha, rfl⟩
      · rintro ⟨a, ha, rfl⟩
        exact ⟨a, (i2 a).mpr (by simpa using ha), rfl⟩
  · rename_i r hr
    cases hrr : impliedMembers env ks vs [] [] <;> simp_all [errOf]

end JsonVal
end CtyModel
