/-
C15 — documents: for a document with distinct ascending normalised keys and
representable numbers, `impliedType` is the structural type, `unmarshal` with it succeeds
and returns a value of exactly that type, and `marshal` of that value gives the document
back up to number spelling.  Mutual structural induction on the document.
-/
import CtyModel.Lemmas.JsonValRT
namespace CtyModel
namespace JsonVal
open Ty

theorem lookupTy_none {k : String} : ∀ (aK : List String) (aT : List Ty), k ∉ aK → lookupTy k aK aT = none
  | [], _, _ => by simp [lookupTy]
  | _ :: _, [], _ => by simp [lookupTy]
  | n :: ns, t :: ts, h => by
    have hn : n ≠ k := fun e => h (by simp [e])
    simp [lookupTy, hn, lookupTy_none ns ts (fun hm => h (List.mem_cons_of_mem _ hm))]

theorem structTyL_length : ∀ xs : List Json, (structTyL xs).length = xs.length
  | [] => rfl
  | _ :: xs => by simp [structTyL, structTyL_length xs]

/-- the prologue of `marshal` does nothing when constraint and type coincide -/
theorem marshalEntry_same (t : Ty) (p : Payload) (body : Ty → Res Json)
    (hm : p.isMarked = false) (hk : p.isKnown = true) : marshalEntry t t p body = body t := by
  unfold marshalEntry
  simp [hm, hk]

/-- conclusion for one document -/
def DocGood (env : JEnv) (d : Json) : Prop :=
  ∃ p d', impliedType env d = .ok (structTy d) ∧
    (∀ top, unmarshal env top d (structTy d) = .ok ⟨structTy d, p⟩) ∧
    p.isMarked = false ∧ p.isKnown = true ∧
    marshalKnown env (structTy d) (structTy d) p = .ok d' ∧ jsonEquiv d' d = true

mutual
theorem doc_rt (env : JEnv) : ∀ d : Json, docOK env d = true → DocGood env d
  | .null, _ => ⟨.null, .null, by simp [impliedType, structTy], fun top => by simp [unmarshal, structTy],
      rfl, rfl, by simp [marshalKnown], by simp [jsonEquiv]⟩
  | .bool b, _ => ⟨.b b, .bool b, by simp [impliedType, structTy],
      fun top => by simp [unmarshal, unmarshalPrim, structTy], rfl, rfl,
      by simp [marshalKnown, structTy], by simp [jsonEquiv]⟩
  | .str s, h => by
    have hf : env.norm s = s := by simpa [docOK] using h
    exact ⟨.s s, .str s, by simp [impliedType, structTy],
      fun top => by simp [unmarshal, unmarshalPrim, structTy, hf], rfl, rfl,
      by simp [marshalKnown, structTy], by simp [jsonEquiv]⟩
  | .num l, h => by
    simp only [docOK] at h
    split at h
    · rename_i n hn
      obtain ⟨hinf, n', hp, hr⟩ := numOK_spec h
      exact ⟨.n n, .num (Num.textF n), by simp [impliedType, structTy],
        fun top => by simp [unmarshal, unmarshalPrim, structTy, hn, Res.map], rfl, rfl,
        by simp [marshalKnown, structTy, hinf], by simp [jsonEquiv, hp, hn, hr]⟩
    · simp at h
  | .arr xs, h => by
    obtain ⟨vals, ds, hi, _, hu, _, hty, hm, he, hlen⟩ := doc_rtL env xs (by simpa [docOK] using h)
    have hl : vals.length = (structTyL xs).length := by
      have := congrArg List.length hty; simpa using this
    refine ⟨.seq (vals.map (·.v)), .arr ds, by simp [impliedType, structTy, hi, Res.map], ?_, rfl, rfl,
      by simp [marshalKnown, structTy, hm, Res.map], by simpa [jsonEquiv] using he⟩
    intro top
    simp [unmarshal, structTy, hu, hl, tupleVal, hty]
  | .obj ks vs, h => by
    simp only [docOK, Bool.and_eq_true, beq_iff_eq] at h
    obtain ⟨⟨⟨hasc, hfix⟩, hkl⟩, hok⟩ := h
    obtain ⟨vals, ds, _, him, _, hua, hty, hm, he, hlen⟩ := doc_rtL env vs hok
    have hnd := strictAsc_nodup hasc
    have him' := him [] [] ks hkl (by simp) hnd
    have hlen' : ks.length = (structTyL vs).length := by rw [structTyL_length]; exact hkl
    have hb := Ty.buildFields_asc (norm := env.norm) (ts := structTyL vs) hasc hlen' hfix
    have hvl : vals.length = vs.length := by
      have := congrArg List.length hty
      simp only [List.length_map, structTyL_length] at this
      exact this
    have hfa := hua ks (ks.map fun _ => false) ks (structTyL vs) (ks.map fun _ => false) hkl
      (by simp [hkl]) (FieldsIn_self hasc)
    have hov : objectVal ks (structTyL vs) ks vals = vals := by
      have := objectVal_self ks (structTyL vs) vals [] [] rfl (by simpa using hnd) (by omega) hlen'
      simpa using this
    refine ⟨.smap ks (vals.map (·.v)), .obj ks ds, ?_, ?_, rfl, rfl,
      by simp [marshalKnown, structTy, hm, Res.map], by simpa [jsonEquiv] using he⟩
    · simp only [List.nil_append] at him'
      simp [impliedType, structTy, him', map_fixed ks hfix, hasDup_nodup ks hnd, hb]
    · intro top
      simp [unmarshal, structTy, hfa, hov, hty]
theorem doc_rtL (env : JEnv) : ∀ xs : List Json, docOKL env xs = true →
    ∃ (vals : List Value) (ds : List Json),
      impliedAll env xs = .ok (structTyL xs) ∧
      (∀ (aK : List String) (aT : List Ty) (ks : List String), ks.length = xs.length →
        (∀ k ∈ ks, k ∉ aK) → ks.Nodup →
        impliedMembers env ks xs aK aT = .ok (aK ++ ks, aT ++ structTyL xs)) ∧
      unmarshalZip env xs (structTyL xs) = .ok vals ∧
      (∀ (ks : List String) (osK : List Bool) (ns : List String) (ts : List Ty) (os : List Bool),
        ks.length = xs.length → osK.length = xs.length → FieldsIn ks (structTyL xs) osK ns ts os →
        unmarshalAttrs env ks xs ns ts os = .ok vals) ∧
      vals.map (·.ty) = structTyL xs ∧
      marshalZip env (structTyL xs) (structTyL xs) (vals.map (·.v)) = .ok ds ∧
      jsonEquivL ds xs = true ∧ (structTyL xs).length = xs.length
  | [], _ => ⟨[], [], rfl,
      fun aK aT ks hk _ _ => by
        have : ks = [] := List.eq_nil_of_length_eq_zero (by simpa using hk)
        subst this; simp [impliedMembers, structTyL],
      by simp [unmarshalZip],
      fun ks _ _ _ _ hk _ _ => by
        have : ks = [] := List.eq_nil_of_length_eq_zero (by simpa using hk)
        subst this; simp [unmarshalAttrs],
      rfl, by simp [marshalZip, structTyL], rfl, rfl⟩
  | x :: xs, h => by
    simp only [docOKL, Bool.and_eq_true] at h
    obtain ⟨p, d', hi, hu, hmk, hkn, hm, he⟩ := doc_rt env x h.1
    obtain ⟨vals, ds, his, hims, hus, huas, htys, hms, hes, hlen⟩ := doc_rtL env xs h.2
    refine ⟨⟨structTy x, p⟩ :: vals, d' :: ds, by simp [impliedAll, structTyL, hi, his], ?_,
      by simp [unmarshalZip, structTyL, hu false, hus], ?_, by simp [structTyL, htys], ?_,
      by simp [jsonEquivL, he, hes], by simp [structTyL, hlen]⟩
    · intro aK aT ks hk hdis hnd
      cases ks with
      | nil => simp at hk
      | cons k ks =>
        have ⟨hkn', hnd'⟩ := List.nodup_cons.mp hnd
        have hnot : k ∉ aK := hdis k (by simp)
        have hrest := hims (aK ++ [k]) (aT ++ [structTy x]) ks (by simpa using hk)
          (by
            intro k' hk' hmem
            rcases List.mem_append.mp hmem with hm' | hm'
            · exact hdis k' (List.mem_cons_of_mem _ hk') hm'
            · simp at hm'; subst hm'; exact hkn' hk')
          hnd'
        simp [impliedMembers, hi, lookupTy_none aK aT hnot, hrest, structTyL]
    · intro ks osK ns ts os hk ho hf
      cases ks with
      | nil => simp at hk
      | cons k ks =>
        cases osK with
        | nil => simp at ho
        | cons o osK =>
          simp only [structTyL, FieldsIn] at hf
          simp [unmarshalAttrs, hf.1, hu false,
            huas ks osK ns ts os (by simpa using hk) (by simpa using ho) hf.2]
    · simp only [structTyL, List.map_cons, marshalZip]
      rw [marshalEntry_same (structTy x) p _ hmk hkn]
      simp [hm, hms, Res.map]
end

/-! ### `impliedType` in general: never a panic, and the kind of the result -/

theorem errOf_not_panic {α β} {r : Res α} (h : ∀ w, r ≠ .panic w) : ∀ w, (errOf r : Res β) ≠ .panic w := by
  intro w
  cases r with
  | panic w' => exact absurd rfl (h w')
  | _ => simp [errOf]

mutual
theorem implied_no_panic (env : JEnv) : ∀ (j : Json) (w : String), impliedType env j ≠ .panic w
  | .null, _ => by simp [impliedType]
  | .bool _, _ => by simp [impliedType]
  | .num _, _ => by simp [impliedType]
  | .str _, _ => by simp [impliedType]
  | .arr xs, w => by
    simp only [impliedType]
    have := impliedAll_no_panic env xs
    cases h : impliedAll env xs with
    | panic w' => exact absurd h (this w')
    | _ => simp [Res.map]
  | .obj ks vs, w => by
    simp only [impliedType]
    have := impliedMembers_no_panic env ks vs [] []
    split
    · split <;> simp
    · rename_i r _
      exact errOf_not_panic this w
theorem impliedAll_no_panic (env : JEnv) : ∀ (xs : List Json) (w : String), impliedAll env xs ≠ .panic w
  | [], _ => by simp [impliedAll]
  | x :: xs, w => by
    simp only [impliedAll]
    split
    · split
      · simp
      · rename_i r _
        intro e
        exact impliedAll_no_panic env xs w e
    · rename_i r _
      exact errOf_not_panic (implied_no_panic env x) w
theorem impliedMembers_no_panic (env : JEnv) : ∀ (ks : List String) (vs : List Json) (aK : List String)
    (aT : List Ty) (w : String), impliedMembers env ks vs aK aT ≠ .panic w
  | [], _, _, _, _ => by simp [impliedMembers]
  | _ :: _, [], _, _, _ => by simp [impliedMembers]
  | k :: ks, v :: vs, aK, aT, w => by
    simp only [impliedMembers]
    split
    · split
      · split
        · simp
        · exact impliedMembers_no_panic env ks vs _ _ w
      · exact impliedMembers_no_panic env ks vs _ _ w
    · rename_i r _
      exact errOf_not_panic (implied_no_panic env v) w
end

theorem impliedAll_length (env : JEnv) : ∀ (xs : List Json) (ts : List Ty), impliedAll env xs = .ok ts →
    ts.length = xs.length ∧ ∀ i (h : i < xs.length) (h' : i < ts.length), impliedType env xs[i] = .ok ts[i]
  | [], ts, h => by simp [impliedAll] at h; subst h; simp
  | x :: xs, ts, h => by
    simp only [impliedAll] at h
    split at h
    · rename_i t ht
      split at h
      · rename_i ts' hts'
        simp at h; subst h
        have ⟨hl, hi⟩ := impliedAll_length env xs ts' hts'
        refine ⟨by simp [hl], ?_⟩
        intro i h1 h2
        cases i with
        | zero => simpa using ht
        | succ i => simpa using hi i (by simpa using h1) (by simpa using h2)
      · rename_i r hr _
        cases hrr : impliedAll env xs <;> simp_all
    · rename_i r hr
      cases hrr : impliedType env x <;> simp_all [errOf]

end JsonVal
end CtyModel
