/-
Slice d18b — lemmas behind three predicates of the harness that had no statement:

* the ARRAY LENGTH RULE for every length: a list or a set is decoded into a Go array (behind any
  pointers) only if it has exactly the array's length; otherwise the result is an error
  (in particular an empty list or set is decoded only by an array of length 0);
* a NULL ELEMENT OF A MAP decoded into `map[string]*E` is a member of the Go map under its key,
  holding a nil pointer: never a missing key;
* `ToCtyValue` of a `big.Int` is EXACT FOR EVERY MAGNITUDE: the number it makes is the integer, and
  its precision is at least the integer's bit length (so `SetInt` did not round).

All about the hand-written model `Gocty.fromCtyP` / `Gocty.toCtyG` (diffed against /repo).
-/
import CtyModel.Lemmas.d18Compose
import CtyModel.Lemmas.d18Num
import CtyModel.Lemmas.GoctyRT
namespace CtyModel
namespace Gocty

/-! ### the array length rule -/

/-- a list into an array whose length differs: refused with an error, whatever the elements are -/
theorem fromCtyP_list_array_len_err (S : Sched) (ety : Ty) (cs : List Payload) (T : GoTy) (n : Nat) (E : GoTy)
    (hT : T.base = .array n E) (hl : cs.length ≠ n) :
    ∃ c, fromCtyP S [] (.list ety) (.seq cs) T = .err c := by
  unfold fromCtyP
  simp only [hT, GoTy.isCval, Bool.false_eq_true, if_false, List.isEmpty_nil, Bool.not_true]
  simp [hl]

/-- a set into an array whose length differs: refused with an error -/
theorem fromCtyP_set_array_len_err (S : Sched) (ety : Ty) (ids : List Int) (cs : List Payload) (T : GoTy) (n : Nat)
    (E : GoTy) (hT : T.base = .array n E) (hl : cs.length ≠ n) :
    ∃ c, fromCtyP S [] (.set ety) (.sset ids cs) T = .err c := by
  unfold fromCtyP
  simp only [hT, GoTy.isCval, Bool.false_eq_true, if_false, List.isEmpty_nil, Bool.not_true]
  simp [hl]

/-- a set decoded into an array has the array's length -/
theorem fromCtyP_set_array_ok_len (S : Sched) (ety : Ty) (ids : List Int) (cs : List Payload) (T : GoTy) (n : Nat)
    (E : GoTy) (hT : T.base = .array n E) (g : GoVal)
    (h : fromCtyP S [] (.set ety) (.sset ids cs) T = .ok g) : cs.length = n := by
  by_cases hl : cs.length = n
  · exact hl
  · obtain ⟨c, hc⟩ := fromCtyP_set_array_len_err S ety ids cs T n E hT hl
    rw [hc] at h; cases h

/-- the empty list into an array: accepted exactly by length 0 (then the empty array is stored) -/
theorem fromCtyP_empty_list_array (S : Sched) (ety : Ty) (T : GoTy) (n : Nat) (E : GoTy) (hT : T.base = .array n E) :
    (n = 0 → fromCtyP S [] (.list ety) (.seq []) T = .ok (wrapPtr T.depth (.arr []))) ∧
    (n ≠ 0 → ∃ c, fromCtyP S [] (.list ety) (.seq []) T = .err c) := by
  refine ⟨fun h0 => ?_, fun h0 => fromCtyP_list_array_len_err S ety [] T n E hT (by simpa using Ne.symm h0)⟩
  subst h0
  unfold fromCtyP
  simp [hT, GoTy.isCval, fromCtyL, seqAll, mapRes]

/-- the empty set into an array: accepted exactly by length 0 -/
theorem fromCtyP_empty_set_array (S : Sched) (ety : Ty) (T : GoTy) (n : Nat) (E : GoTy) (hT : T.base = .array n E) :
    (n = 0 → fromCtyP S [] (.set ety) (.sset [] []) T = .ok (wrapPtr T.depth (.arr []))) ∧
    (n ≠ 0 → ∃ c, fromCtyP S [] (.set ety) (.sset [] []) T = .err c) := by
  refine ⟨fun h0 => ?_, fun h0 => fromCtyP_set_array_len_err S ety [] [] T n E hT (by simpa using Ne.symm h0)⟩
  subst h0
  unfold fromCtyP
  simp [hT, GoTy.isCval, fromCtyL, seqAll, mapRes, setOrder, zipPR]

/-! ### a null element of a map -/

/-- null (of a type whose null goes through the pointer: anything but a list, map or capsule) into a pointer
to `E`: the innermost pointer is nil -/
theorem fromCtyP_null_ptr (S : Sched) (ety : Ty) (E : GoTy) (hc : E.base.isCval = false) (hn : nullViaPtr ety = true) :
    fromCtyP S [] ety .null (.ptr E) = .ok (wrapPtr E.depth .nilPtr) := by
  unfold fromCtyP
  simp [GoTy.base, GoTy.depth, hc, hn]

/-- the elements decoded into `*E`: as many results as elements, and at the position of every null element
a nil pointer (behind the pointers `E` itself has) -/
theorem fromCtyL_null_at (S : Sched) (ety : Ty) (E : GoTy) (hc : E.base.isCval = false) (hn : nullViaPtr ety = true) :
    ∀ (cs : List Payload) (gs : List GoVal), fromCtyL S ety cs (.ptr E) = gs.map Res.ok →
      gs.length = cs.length ∧ ∀ i : Nat, cs[i]? = some Payload.null → gs[i]? = some (wrapPtr E.depth .nilPtr)
  | [], gs, h => by
    cases gs with
    | nil => simp
    | cons g gs => simp [fromCtyL] at h
  | c :: cs, gs, h => by
    cases gs with
    | nil => simp [fromCtyL] at h
    | cons g gs =>
      simp only [fromCtyL, List.map_cons, List.cons.injEq] at h
      obtain ⟨ih1, ih2⟩ := fromCtyL_null_at S ety E hc hn cs gs h.2
      refine ⟨by simp [ih1], fun i hi => ?_⟩
      cases i with
      | zero =>
        simp only [List.getElem?_cons_zero, Option.some.injEq] at hi ⊢
        subst hi
        have := h.1
        rw [fromCtyP_null_ptr S ety E hc hn] at this
        cases this; rfl
      | succ j =>
        simp only [List.getElem?_cons_succ] at hi ⊢
        exact ih2 j hi

/-- a map decoded into `map[string]*E` (behind any pointers): the Go map has exactly the keys of the cty map,
and under the key of every null element a nil pointer -/
theorem fromCtyP_map_null_member (S : Sched) (ety : Ty) (ks : List String) (cs : List Payload) (T : GoTy) (E : GoTy)
    (hT : T.base = .map (.ptr E)) (hc : E.base.isCval = false) (hn : nullViaPtr ety = true) (g : GoVal)
    (h : fromCtyP S [] (.map ety) (.smap ks cs) T = .ok g) :
    ∃ gs, g = wrapPtr T.depth (.map ks gs) ∧ gs.length = cs.length ∧
      ∀ i : Nat, cs[i]? = some Payload.null → gs[i]? = some (wrapPtr E.depth .nilPtr) := by
  obtain ⟨gs, h1, h2⟩ := (fromCtyP_map_ok_iff S ety ks cs T (.ptr E) hT g).mp h
  obtain ⟨a, b⟩ := fromCtyL_null_at S ety E hc hn cs gs h1
  exact ⟨gs, h2, a, b⟩

/-! ### `ToCtyValue` of a `big.Int` -/

/-- `(&big.Float{}).SetInt(i)`: the precision the model gives the number holds every bit of `i` -/
theorem bigInt_prec_suffices (v : Int) : Num.bitlen v.natAbs ≤ max 64 (Num.bitlen v.natAbs) := by omega

/-- `ToCtyValue(big.Int v, cty.Number)` is the number `v`, for every `v` -/
theorem toCtyG_bigInt_exact (norm : String → String) (pass : Bool) (v : Int) :
    toCtyG norm pass (.bigInt v) .number = .ok ⟨.number, .n (Num.ofInt v (max 64 (Num.bitlen v.natAbs)))⟩ ∧
    IsTheInt (Num.ofInt v (max 64 (Num.bitlen v.natAbs))) v ∧
    normalNum (Num.ofInt v (max 64 (Num.bitlen v.natAbs))) = true := by
  refine ⟨by simp [toCtyG], IsTheInt_ofInt v _, normal_ofInt v _⟩

end Gocty
end CtyModel
