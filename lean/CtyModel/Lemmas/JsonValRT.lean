/-
C15 — the round trip `unmarshal (marshal v t) t` for set-free values, by mutual
structural induction on the payload (dynamic wrapper included).
-/
import CtyModel.Lemmas.JsonValSpec
import CtyModel.Lemmas.TyEq
import CtyModel.Lemmas.TyConform
namespace CtyModel
namespace JsonVal
open Ty

/-- position-exactness against the constraint the decoder works with (annotations already
dropped by `Unmarshal`): `exact t vt p = exact0 t.stripOpt vt p` (`exact_eq_exact0`) -/
def exact0 (t vt : Ty) (p : Payload) : Bool := if t.isDyn then exactK vt vt p else exactK t vt p

theorem isDyn_stripOpt (t : Ty) : t.stripOpt.isDyn = t.isDyn := by
  cases t <;> simp [stripOpt, Ty.isDyn]

theorem exact_eq_exact0 (t vt : Ty) (p : Payload) : exact t vt p = exact0 t.stripOpt vt p := by
  simp [exact, exact0, isDyn_stripOpt]

/-! ### small facts about the observers -/

theorem isMarked_of_containsMarked {p : Payload} (h : p.containsMarked = false) : p.isMarked = false := by
  cases p <;> simp_all [Payload.containsMarked, Payload.isMarked]

theorem isKnown_of_whollyKnown {p : Payload} (h : p.whollyKnown = true) (hm : p.isMarked = false) :
    p.isKnown = true := by
  cases p <;> simp_all [Payload.whollyKnown, Payload.isMarked, Payload.isKnown, Payload.unmark1]

theorem isDyn_iff {t : Ty} : t.isDyn = true ↔ t = .dyn := by
  cases t <;> simp [Ty.isDyn]

/-! ### the element-type loop of ListVal / MapVal on members of one type -/

theorem unify_same {ve : Ty} (hw : wf ve = true) : ∀ vals : List Value, (∀ v ∈ vals, v.ty = ve) →
    unifyElemTy vals ve = .ok ve
  | [], _ => rfl
  | v :: vals, h => by
    have hv : v.ty = ve := h v (by simp)
    have ih := unify_same hw vals (fun x hx => h x (List.mem_cons_of_mem _ hx))
    simp only [unifyElemTy]
    by_cases hd : ve.isDyn = true
    · simp [hd, hv, ih]
    · simp [hd, hv, ih, (Ty.equals_iff_eq ve ve hw hw).mpr rfl]

theorem unify_dyn {ve : Ty} (hw : wf ve = true) (vals : List Value) (hne : vals ≠ [])
    (h : ∀ v ∈ vals, v.ty = ve) : unifyElemTy vals .dyn = .ok ve := by
  cases vals with
  | nil => exact absurd rfl hne
  | cons v vals =>
    have hv : v.ty = ve := h v (by simp)
    simp only [unifyElemTy, Ty.isDyn, if_true, hv]
    exact unify_same hw vals (fun x hx => h x (List.mem_cons_of_mem _ hx))

theorem can_same {ve : Ty} (hw : wf ve = true) : ∀ vals : List Value, (∀ v ∈ vals, v.ty = ve) →
    canElemTy vals ve = true
  | [], _ => rfl
  | v :: vals, h => by
    have hv : v.ty = ve := h v (by simp)
    have ih := can_same hw vals (fun x hx => h x (List.mem_cons_of_mem _ hx))
    simp only [canElemTy]
    by_cases hd : ve.isDyn = true
    · simp [hd, hv, ih]
    · simp [hd, hv, ih, (Ty.equals_iff_eq ve ve hw hw).mpr rfl]

theorem can_dyn {ve : Ty} (hw : wf ve = true) (vals : List Value)
    (h : ∀ v ∈ vals, v.ty = ve) : canElemTy vals .dyn = true := by
  cases vals with
  | nil => rfl
  | cons v vals =>
    have hv : v.ty = ve := h v (by simp)
    simp only [canElemTy, Ty.isDyn, if_true, hv]
    exact can_same hw vals (fun x hx => h x (List.mem_cons_of_mem _ hx))

/-! ### Go-map helpers on key lists without duplicates -/

theorem lastWins_nodup : ∀ (ks : List String) (vs : List Value), ks.Nodup → ks.length = vs.length →
    lastWins ks vs = (ks, vs)
  | [], [], _, _ => rfl
  | [], _ :: _, _, h => by simp at h
  | _ :: _, [], _, h => by simp at h
  | k :: ks, v :: vs, hn, hl => by
    have ⟨hk, hn'⟩ := List.nodup_cons.mp hn
    simp only [lastWins, lastWins_nodup ks vs hn' (by simpa using hl)]
    simp [hk]

theorem insertKV_lt {k : String} {v : Payload} : ∀ {ks : List String} {vs : List Payload},
    ks.length = vs.length → (∀ x ∈ ks, k < x) → insertKV k v ks vs = (k :: ks, v :: vs)
  | [], [], _, _ => rfl
  | [], _ :: _, h, _ => by simp at h
  | _ :: _, [], h, _ => by simp at h
  | n :: ns, u :: us, _, h => by simp [insertKV, h n (by simp)]

theorem sortKV_asc : ∀ (ks : List String) (vs : List Payload), strictAsc ks = true →
    ks.length = vs.length → sortKV ks vs = (ks, vs)
  | [], [], _, _ => rfl
  | [], _ :: _, _, h => by simp at h
  | _ :: _, [], _, h => by simp at h
  | k :: ks, v :: vs, ha, hl => by
    have ⟨ha', hlt⟩ := strictAsc_cons ha
    simp only [sortKV, sortKV_asc ks vs ha' (by simpa using hl)]
    exact insertKV_lt (by simpa using hl) hlt

theorem hasDup_nodup : ∀ (ks : List String), ks.Nodup → hasDup ks = false
  | [], _ => rfl
  | k :: ks, h => by
    have ⟨hk, hn⟩ := List.nodup_cons.mp h
    simp [hasDup, hk, hasDup_nodup ks hn]

theorem map_fixed {norm : String → String} : ∀ (ks : List String),
    (ks.all fun k => norm k == k) = true → ks.map norm = ks
  | [], _ => rfl
  | k :: ks, h => by
    simp only [List.all_cons, Bool.and_eq_true, beq_iff_eq] at h
    simp [h.1, map_fixed ks h.2]

theorem lookupLast_none {k : String} : ∀ (ks : List String) (vs : List Value), k ∉ ks →
    lookupLast k ks vs = none
  | [], _, _ => by simp [lookupLast]
  | _ :: _, [], _ => by simp [lookupLast]
  | n :: ns, v :: vs, h => by
    have hn : n ≠ k := fun e => h (by simp [e])
    simp [lookupLast, lookupLast_none ns vs (fun hm => h (List.mem_cons_of_mem _ hm)), hn]

theorem lookupLast_mid {k : String} {v : Value} : ∀ (pre : List String) (preV : List Value)
    (rest : List String) (restV : List Value), pre.length = preV.length → k ∉ rest →
    lookupLast k (pre ++ k :: rest) (preV ++ v :: restV) = some v
  | [], [], rest, restV, _, h => by simp [lookupLast, lookupLast_none rest restV h]
  | [], _ :: _, _, _, hl, _ => by simp at hl
  | _ :: _, [], _, _, hl, _ => by simp at hl
  | a :: pre, b :: preV, rest, restV, hl, h => by
    simp [lookupLast, lookupLast_mid pre preV rest restV (by simpa using hl) h]

theorem objectVal_self : ∀ (ns : List String) (ts : List Ty) (vals : List Value)
    (pre : List String) (preV : List Value), pre.length = preV.length → (pre ++ ns).Nodup →
    ns.length = vals.length → ns.length = ts.length →
    objectVal ns ts (pre ++ ns) (preV ++ vals) = vals
  | [], _, [], _, _, _, _, _, _ => by cases ‹List Ty› <;> simp [objectVal]
  | [], _, _ :: _, _, _, _, _, h, _ => by simp at h
  | _ :: _, _, [], _, _, _, _, h, _ => by simp at h
  | _ :: _, [], _ :: _, _, _, _, _, _, h => by simp at h
  | n :: ns, t :: ts, v :: vals, pre, preV, hl, hn, h1, h2 => by
    have hnot : n ∉ ns := by
      have := List.nodup_append.mp hn
      exact (List.nodup_cons.mp this.2.1).1
    simp only [objectVal, lookupLast_mid pre preV ns vals hl hnot]
    have := objectVal_self ns ts vals (pre ++ [n]) (preV ++ [v]) (by simp [hl])
      (by simpa [List.append_assoc] using hn) (by simpa using h1) (by simpa using h2)
    simp only [List.append_assoc, List.singleton_append] at this
    rw [this]

/-! ### the hypotheses carried through the induction -/

/-- everything the round trip needs about a (constraint, type, payload) triple except
the position-exactness of nulls and empties -/
structure RT (norm : String → String) (t vt : Ty) (p : Payload) : Prop where
  wt : wf t = true
  wvt : wf vt = true
  noOpt : hasOpt vt = false
  noCaps : hasCapsule vt = false
  noSet : setFree vt = true
  names : namesFixed norm vt = true
  conf : «matches» t vt = true
  wfp : wfP vt p = true
  known : p.whollyKnown = true
  unmarked : p.containsMarked = false
  nums : numsOK p = true
  strs : strsFixed norm p = true

theorem RT.self {norm t vt p} (h : RT norm t vt p) : RT norm vt vt p :=
  { h with wt := h.wvt, conf := matches_refl vt }

/-! ### membership forms of the list predicates -/

theorem wfAll_mem {e : Ty} : ∀ {vs : List Payload}, wfAll e vs = true → ∀ v ∈ vs, wfP e v = true
  | [], _, _, hv => by simp at hv
  | x :: xs, h, v, hv => by
    simp only [wfAll, Bool.and_eq_true] at h
    rcases List.mem_cons.mp hv with rfl | hv
    · exact h.1
    · exact wfAll_mem h.2 v hv

theorem whollyKnownL_mem : ∀ {vs : List Payload}, Payload.whollyKnownL vs = true →
    ∀ v ∈ vs, v.whollyKnown = true
  | [], _, _, hv => by simp at hv
  | x :: xs, h, v, hv => by
    simp only [Payload.whollyKnownL, Bool.and_eq_true] at h
    rcases List.mem_cons.mp hv with rfl | hv
    · exact h.1
    · exact whollyKnownL_mem h.2 v hv

theorem containsMarkedL_mem : ∀ {vs : List Payload}, Payload.containsMarkedL vs = false →
    ∀ v ∈ vs, v.containsMarked = false
  | [], _, _, hv => by simp at hv
  | x :: xs, h, v, hv => by
    simp only [Payload.containsMarkedL, Bool.or_eq_false_iff] at h
    rcases List.mem_cons.mp hv with rfl | hv
    · exact h.1
    · exact containsMarkedL_mem h.2 v hv

theorem numsOKL_mem : ∀ {vs : List Payload}, numsOKL vs = true → ∀ v ∈ vs, numsOK v = true
  | [], _, _, hv => by simp at hv
  | x :: xs, h, v, hv => by
    simp only [numsOKL, Bool.and_eq_true] at h
    rcases List.mem_cons.mp hv with rfl | hv
    · exact h.1
    · exact numsOKL_mem h.2 v hv

theorem strsFixedL_mem {norm : String → String} : ∀ {vs : List Payload}, strsFixedL norm vs = true →
    ∀ v ∈ vs, strsFixed norm v = true
  | [], _, _, hv => by simp at hv
  | x :: xs, h, v, hv => by
    simp only [strsFixedL, Bool.and_eq_true] at h
    rcases List.mem_cons.mp hv with rfl | hv
    · exact h.1
    · exact strsFixedL_mem h.2 v hv

theorem exactAll_mem {e ve : Ty} : ∀ {vs : List Payload}, exactAll e ve vs = true →
    ∀ v ∈ vs, exact0 e ve v = true
  | [], _, _, hv => by simp at hv
  | x :: xs, h, v, hv => by
    simp only [exactAll, Bool.and_eq_true] at h
    rcases List.mem_cons.mp hv with rfl | hv
    · exact h.1
    · exact exactAll_mem h.2 v hv

theorem sameL_length : ∀ {xs ys : List Payload}, sameL xs ys = true → xs.length = ys.length
  | [], [], _ => rfl
  | [], _ :: _, h => by simp [sameL] at h
  | _ :: _, [], h => by simp [sameL] at h
  | _ :: xs, _ :: ys, h => by
    simp only [sameL, Bool.and_eq_true] at h
    simp [sameL_length h.2]

theorem numOK_spec {x : Num} (h : numOK x = true) :
    x.isInf = false ∧ ∃ n', Num.parse512 (Num.textF x) = .ok n' ∧ Num.rawEqual n' x = true := by
  unfold numOK at h
  simp only [Bool.and_eq_true, Bool.not_eq_true'] at h
  refine ⟨h.1, ?_⟩
  have h2 := h.2
  split at h2
  · rename_i n' heq; exact ⟨n', heq, h2⟩
  · simp at h2

/-- per-position hypotheses of a tuple / an object -/
def ZipH (norm : String → String) : List Ty → List Ty → List Payload → Prop
  | e :: es, ve :: ves, v :: vs => (RT norm e ve v ∧ exact0 e ve v = true) ∧ ZipH norm es ves vs
  | [], [], [] => True
  | _, _, _ => False

theorem zipH_of {norm : String → String} : ∀ (es ves : List Ty) (vs : List Payload),
    wfL es = true → wfL ves = true → hasOptL ves = false → hasCapsuleL ves = false →
    setFreeL ves = true → namesFixedL norm ves = true → matchesL es ves = true →
    ves.length = vs.length → wfZip ves vs = true → Payload.whollyKnownL vs = true →
    Payload.containsMarkedL vs = false → numsOKL vs = true → strsFixedL norm vs = true →
    exactZip es ves vs = true → ZipH norm es ves vs
  | [], [], [], _, _, _, _, _, _, _, _, _, _, _, _, _, _ => trivial
  | [], _ :: _, _, _, _, _, _, _, _, h, _, _, _, _, _, _, _ => by simp [matchesL] at h
  | _ :: _, [], _, _, _, _, _, _, _, h, _, _, _, _, _, _, _ => by simp [matchesL] at h
  | [], [], _ :: _, _, _, _, _, _, _, _, h, _, _, _, _, _, _ => by simp at h
  | _ :: _, _ :: _, [], _, _, _, _, _, _, _, h, _, _, _, _, _, _ => by simp at h
  | e :: es, ve :: ves, v :: vs, h1, h2, h3, h4, h5, h6, h7, h8, h9, h10, h11, h12, h13, h14 => by
    simp only [wfL, Bool.and_eq_true] at h1 h2
    simp only [hasOptL, hasCapsuleL, Bool.or_eq_false_iff] at h3 h4
    simp only [setFreeL, namesFixedL, matchesL, wfZip, Payload.whollyKnownL, numsOKL, strsFixedL,
      exactZip, Bool.and_eq_true] at h5 h6 h7 h9 h10 h12 h13 h14
    simp only [Payload.containsMarkedL, Bool.or_eq_false_iff] at h11
    exact ⟨⟨⟨h1.1, h2.1, h3.1, h4.1, h5.1, h6.1, h7.1, h9.1, h10.1, h11.1, h12.1, h13.1⟩, h14.1⟩,
      zipH_of es ves vs h1.2 h2.2 h3.2 h4.2 h5.2 h6.2 h7.2 (by simpa using h8) h9.2 h10.2 h11.2
        h12.2 h13.2 h14.2⟩

/-- the conclusion for one value: the encoder succeeds with `j`, and decoding `j` against
the same constraint (at top level or nested) returns the type and an equal payload -/
def Good (env : JEnv) (t vt : Ty) (p : Payload) (mj : Res Json) : Prop :=
  ∃ j p', mj = .ok j ∧ unmarshal env j t = .ok ⟨vt, p'⟩ ∧ sameP p' p = true

/-- the prologue of `marshal` (marks, unknown, dynamic wrapper) on top of the body -/
theorem rt_entry (env : JEnv) (p : Payload) (t vt : Ty) (h : RT env.norm t vt p)
    (hx : exact0 t vt p = true)
    (hb : ∀ t', RT env.norm t' vt p → exactK t' vt p = true → (t'.isDyn = true → vt.isDyn = true) →
      Good env t' vt p (marshalKnown env t' vt p)) :
    Good env t vt p (marshalEntry t vt p (fun t' => marshalKnown env t' vt p)) := by
  have hm := isMarked_of_containsMarked h.unmarked
  have hk := isKnown_of_whollyKnown h.known hm
  unfold marshalEntry
  simp only [hm, hk, Bool.false_eq_true, if_false, Bool.not_true]
  by_cases hd : (t.isDyn && !vt.isDyn) = true
  · simp only [hd, if_true]
    simp only [Bool.and_eq_true, Bool.not_eq_true'] at hd
    have ht : t = .dyn := isDyn_iff.mp hd.1
    subst ht
    obtain ⟨tj, htj, hof⟩ := Ty.json_roundtrip env.norm vt h.wvt h.noCaps h.names
    have hx' : exactK vt vt p = true := by simpa [exact0, Ty.isDyn] using hx
    obtain ⟨j, p', hj, hu, hs⟩ := hb vt h.self hx' (fun a => a)
    refine ⟨.obj ["value", "type"] [j, tj], p', by simp [htj, hj], ?_, hs⟩
    have hne : ("value" = "type") = False := by decide
    simp [unmarshal, dynScan, dynValue, hof, hu, stripOpt_id_of_noOpt vt h.noOpt]
  · simp only [hd, Bool.false_eq_true, if_false]
    have hdv : t.isDyn = true → vt.isDyn = true := by
      intro ht
      simp only [ht, Bool.true_and, Bool.not_eq_true', Bool.not_eq_false] at hd
      exact hd
    have hx' : exactK t vt p = true := by
      unfold exact0 at hx
      by_cases ht : t.isDyn = true
      · have hv := isDyn_iff.mp (hdv ht)
        have ht' := isDyn_iff.mp ht
        subst hv; subst ht'
        simpa [Ty.isDyn] using hx
      · simpa [ht] using hx
    exact hb t h hx' hdv

theorem vals_nil_of_same {vals : List Value} (h : sameL (vals.map (·.v)) [] = true) : vals = [] := by
  cases vals with
  | nil => rfl
  | cons _ _ => simp [sameL] at h

theorem map_ty_replicate {ve : Ty} : ∀ {vals : List Value}, (∀ x ∈ vals, x.ty = ve) →
    ∀ x ∈ vals, x.ty = ve := fun h => h

mutual
/-- the body of `marshal` followed by `unmarshal` -/
theorem rt_body (env : JEnv) : ∀ (p : Payload) (t vt : Ty), RT env.norm t vt p →
    exactK t vt p = true → (t.isDyn = true → vt.isDyn = true) →
    Good env t vt p (marshalKnown env t vt p)
  | .null, t, vt, h, hx, _ => by
    have : t = vt := (Ty.equals_iff_eq t vt h.wt h.wvt).mp (by simpa [exactK] using hx)
    subst this
    exact ⟨.null, .null, by simp [marshalKnown], by simp [unmarshal], by simp [sameP]⟩
  | .unk _, _, _, h, _, _ => by have := h.known; simp [Payload.whollyKnown] at this
  | .marked _ _, _, _, h, _, _ => by have := h.unmarked; simp [Payload.containsMarked] at this
  | .caps, _, vt, h, _, _ => by have := h.wfp; cases vt <;> simp [wfP] at this
  | .bad _, _, vt, h, _, _ => by have := h.wfp; cases vt <;> simp [wfP] at this
  | .sset _ _, _, vt, h, _, _ => by
    have hw := h.wfp
    have hs := h.noSet
    cases vt <;> simp [wfP] at hw
    simp [setFree] at hs
  | .b x, t, vt, h, _, hd => by
    have hw := h.wfp
    cases vt with
    | bool =>
      have hc := h.conf
      cases t with
      | bool =>
        exact ⟨.bool x, .b x, by simp [marshalKnown], by simp [unmarshal, unmarshalPrim],
          by simp [sameP]⟩
      | dyn => exact absurd (hd rfl) (by simp [Ty.isDyn])
      | _ => simp [«matches»] at hc
    | _ => simp [wfP] at hw
  | .s x, t, vt, h, _, hd => by
    have hw := h.wfp
    cases vt with
    | string =>
      have hc := h.conf
      cases t with
      | string =>
        have hf : env.norm x = x := by simpa [strsFixed] using h.strs
        exact ⟨.str x, .s x, by simp [marshalKnown],
          by simp [unmarshal, unmarshalPrim, hf], by simp [sameP]⟩
      | dyn => exact absurd (hd rfl) (by simp [Ty.isDyn])
      | _ => simp [«matches»] at hc
    | _ => simp [wfP] at hw
  | .n x, t, vt, h, _, hd => by
    have hw := h.wfp
    cases vt with
    | number =>
      have hc := h.conf
      cases t with
      | number =>
        obtain ⟨hinf, n', hp, hr⟩ := numOK_spec (by simpa [numsOK] using h.nums)
        exact ⟨.num (Num.textF x), .n n', by simp [marshalKnown, hinf],
          by simp [unmarshal, unmarshalPrim, hp, Res.map], by simpa [sameP] using hr⟩
      | dyn => exact absurd (hd rfl) (by simp [Ty.isDyn])
      | _ => simp [«matches»] at hc
    | _ => simp [wfP] at hw
  | .seq vs, t, vt, h, hx, hd => by
    have hw := h.wfp
    cases vt with
    | list ve =>
      have hc := h.conf
      cases t with
      | list e =>
        simp only [«matches»] at hc
        simp only [wfP] at hw
        have hk : Payload.whollyKnownL vs = true := by simpa [Payload.whollyKnown] using h.known
        have hm : Payload.containsMarkedL vs = false := by simpa [Payload.containsMarked] using h.unmarked
        have hn : numsOKL vs = true := by simpa [numsOK] using h.nums
        have hs : strsFixedL env.norm vs = true := by simpa [strsFixed] using h.strs
        have hwe : wf e = true := by simpa [wf] using h.wt
        have hwve : wf ve = true := by simpa [wf] using h.wvt
        have hel : ∀ v ∈ vs, RT env.norm e ve v := fun v hv =>
          { wt := hwe, wvt := hwve
            noOpt := by simpa [hasOpt] using h.noOpt
            noCaps := by simpa [hasCapsule] using h.noCaps
            noSet := by simpa [setFree] using h.noSet
            names := by simpa [namesFixed] using h.names
            conf := hc, wfp := wfAll_mem hw v hv, known := whollyKnownL_mem hk v hv
            unmarked := containsMarkedL_mem hm v hv, nums := numsOKL_mem hn v hv
            strs := strsFixedL_mem hs v hv }
        by_cases hemp : vs = []
        · subst hemp
          have hee : e = ve := (Ty.equals_iff_eq e ve hwe hwve).mp (by simpa [exactK] using hx)
          subst hee
          exact ⟨.arr [], .seq [], by simp [marshalKnown, marshalAll, Res.map],
            by simp [unmarshal, unmarshalAll, listVal], by simp [sameP, sameL]⟩
        · have hxa : exactAll e ve vs = true := by
            have : vs.isEmpty = false := by cases vs <;> simp_all
            simpa [exactK, this] using hx
          obtain ⟨js, vals, hj, hu, hty, hsame⟩ := rt_all env vs e ve hel (exactAll_mem hxa)
          have hlen := sameL_length hsame
          have hvne : vals ≠ [] := by
            intro e0; subst e0; simp at hlen; exact hemp (List.eq_nil_of_length_eq_zero hlen.symm)
          have hvemp : vals.isEmpty = false := by cases vals <;> simp_all
          refine ⟨.arr js, .seq (vals.map (·.v)), by simp [marshalKnown, hj, Res.map], ?_,
            by simpa [sameP] using hsame⟩
          simp [unmarshal, hu, listVal, hvemp, can_dyn hwve vals hty, unify_dyn hwve vals hvne hty, Res.map]
      | dyn => exact absurd (hd rfl) (by simp [Ty.isDyn])
      | _ => simp [«matches»] at hc
    | tuple ves =>
      have hc := h.conf
      cases t with
      | tuple es =>
        simp only [«matches»] at hc
        simp only [wfP, Bool.and_eq_true, beq_iff_eq] at hw
        have hz : ZipH env.norm es ves vs :=
          zipH_of es ves vs (by simpa [wf] using h.wt) (by simpa [wf] using h.wvt)
            (by simpa [hasOpt] using h.noOpt) (by simpa [hasCapsule] using h.noCaps)
            (by simpa [setFree] using h.noSet) (by simpa [namesFixed] using h.names) hc hw.1 hw.2
            (by simpa [Payload.whollyKnown] using h.known)
            (by simpa [Payload.containsMarked] using h.unmarked) (by simpa [numsOK] using h.nums)
            (by simpa [strsFixed] using h.strs) (by simpa [exactK] using hx)
        obtain ⟨js, vals, hj, hu, _, hty, hsame⟩ := rt_zip env vs es ves hz
        have hl : vals.length = es.length := by
          have := congrArg List.length hty
          simp at this
          rw [this, matchesL_length hc]
        refine ⟨.arr js, .seq (vals.map (·.v)), by simp [marshalKnown, hj, Res.map], ?_,
          by simpa [sameP] using hsame⟩
        simp [unmarshal, hu, hl, tupleVal, hty]
      | dyn => exact absurd (hd rfl) (by simp [Ty.isDyn])
      | _ => simp [«matches»] at hc
    | _ => simp [wfP] at hw
  | .smap ks vs, t, vt, h, hx, hd => by
    have hw := h.wfp
    cases vt with
    | map ve =>
      have hc := h.conf
      cases t with
      | map e =>
        simp only [«matches»] at hc
        simp only [wfP, Bool.and_eq_true, beq_iff_eq] at hw
        obtain ⟨⟨hkl, hasc⟩, hw⟩ := hw
        have hk : Payload.whollyKnownL vs = true := by simpa [Payload.whollyKnown] using h.known
        have hm : Payload.containsMarkedL vs = false := by simpa [Payload.containsMarked] using h.unmarked
        have hn : numsOKL vs = true := by simpa [numsOK] using h.nums
        have hs0 := h.strs
        simp only [strsFixed, Bool.and_eq_true] at hs0
        have hs : strsFixedL env.norm vs = true := hs0.2
        have hwe : wf e = true := by simpa [wf] using h.wt
        have hwve : wf ve = true := by simpa [wf] using h.wvt
        have hel : ∀ v ∈ vs, RT env.norm e ve v := fun v hv =>
          { wt := hwe, wvt := hwve
            noOpt := by simpa [hasOpt] using h.noOpt
            noCaps := by simpa [hasCapsule] using h.noCaps
            noSet := by simpa [setFree] using h.noSet
            names := by simpa [namesFixed] using h.names
            conf := hc, wfp := wfAll_mem hw v hv, known := whollyKnownL_mem hk v hv
            unmarked := containsMarkedL_mem hm v hv, nums := numsOKL_mem hn v hv
            strs := strsFixedL_mem hs v hv }
        by_cases hemp : vs = []
        · subst hemp
          have hk0 : ks = [] := List.eq_nil_of_length_eq_zero (by simpa using hkl)
          subst hk0
          have hee : e = ve := (Ty.equals_iff_eq e ve hwe hwve).mp (by simpa [exactK] using hx)
          subst hee
          exact ⟨.obj [] [], .smap [] [], by simp [marshalKnown, marshalAll, Res.map],
            by simp [unmarshal, unmarshalAll, mapVal, lastWins], by simp [sameP, sameL]⟩
        · have hxa : exactAll e ve vs = true := by
            have : vs.isEmpty = false := by cases vs <;> simp_all
            simpa [exactK, this] using hx
          obtain ⟨js, vals, hj, hu, hty, hsame⟩ := rt_all env vs e ve hel (exactAll_mem hxa)
          have hlen := sameL_length hsame
          simp only [List.length_map] at hlen
          have hvne : vals ≠ [] := by
            intro e0; subst e0; simp at hlen; exact hemp (List.eq_nil_of_length_eq_zero hlen.symm)
          have hkne : ks.isEmpty = false := by
            cases ks with
            | nil => simp at hkl; exact absurd (List.eq_nil_of_length_eq_zero hkl.symm) hemp
            | cons _ _ => rfl
          have hnd := strictAsc_nodup hasc
          refine ⟨.obj ks js, .smap ks (vals.map (·.v)), by simp [marshalKnown, hj, Res.map], ?_,
            by simpa [sameP] using hsame⟩
          simp [unmarshal, hu, mapVal, lastWins_nodup ks vals hnd (by omega), hkne,
            can_dyn hwve vals hty, unify_dyn hwve vals hvne hty, map_fixed ks hs0.1, hasDup_nodup ks hnd,
            sortKV_asc ks (vals.map (·.v)) hasc (by simp; omega)]
      | dyn => exact absurd (hd rfl) (by simp [Ty.isDyn])
      | _ => simp [«matches»] at hc
    | object vns vts vos =>
      have hc := h.conf
      cases t with
      | object ns ts os =>
        simp only [«matches», Bool.and_eq_true, beq_iff_eq] at hc
        obtain ⟨hns, hc⟩ := hc
        subst hns
        simp only [wfP, Bool.and_eq_true, beq_iff_eq] at hw
        obtain ⟨⟨hks, hvl⟩, hw⟩ := hw
        subst hks
        have hwt := h.wt
        have hwvt := h.wvt
        simp only [wf, Bool.and_eq_true, beq_iff_eq] at hwt hwvt
        obtain ⟨⟨⟨l1, l2⟩, hasc⟩, hwts⟩ := hwt
        obtain ⟨⟨⟨m1, m2⟩, _⟩, hwvts⟩ := hwvt
        have hno := h.noOpt
        simp only [hasOpt, Bool.or_eq_false_iff] at hno
        have hs0 := h.strs
        simp only [strsFixed, Bool.and_eq_true] at hs0
        have hz : ZipH env.norm ts vts vs :=
          zipH_of ts vts vs hwts hwvts hno.2 (by simpa [hasCapsule] using h.noCaps)
            (by simpa [setFree] using h.noSet) (by have := h.names; simp only [namesFixed, Bool.and_eq_true] at this; exact this.2)
            hc hvl hw
            (by simpa [Payload.whollyKnown] using h.known)
            (by simpa [Payload.containsMarked] using h.unmarked) (by simpa [numsOK] using h.nums)
            hs0.2 (by simpa [exactK] using hx)
        obtain ⟨js, vals, hj, _, hua, hty, hsame⟩ := rt_zip env vs ts vts hz
        have hlen := sameL_length hsame
        simp only [List.length_map] at hlen
        have hkf : ks.map env.norm = ks := map_fixed ks hs0.1
        have hfa := hua ks os ks ts os (by omega) (by omega) (by rw [hkf]; exact FieldsIn_self hasc)
        have hov : objectVal ks ts (ks.map env.norm) vals = vals := by
          rw [hkf]
          have := objectVal_self ks ts vals [] [] rfl (by simpa using strictAsc_nodup hasc)
            (by omega) (by omega)
          simpa using this
        have hvos : ks.map (fun _ => false) = vos := map_const_false ks vos (by omega) hno.1
        refine ⟨.obj ks js, .smap ks (vals.map (·.v)), by simp [marshalKnown, hj, Res.map], ?_,
          by simpa [sameP] using hsame⟩
        simp [unmarshal, hfa, hov, hty, hvos]
      | dyn => exact absurd (hd rfl) (by simp [Ty.isDyn])
      | _ => simp [«matches»] at hc
    | _ => simp [wfP] at hw
/-- list elements / map members -/
theorem rt_all (env : JEnv) : ∀ (vs : List Payload) (e ve : Ty),
    (∀ v ∈ vs, RT env.norm e ve v) → (∀ v ∈ vs, exact0 e ve v = true) →
    ∃ js vals, marshalAll env e ve vs = .ok js ∧ unmarshalAll env js e = .ok vals ∧
      (∀ x ∈ vals, x.ty = ve) ∧ sameL (vals.map (·.v)) vs = true
  | [], _, _, _, _ => ⟨[], [], rfl, rfl, by simp, rfl⟩
  | v :: vs, e, ve, h, hx => by
    obtain ⟨j, p', hj, hu, hs⟩ := rt_entry env v e ve (h v (by simp)) (hx v (by simp))
      (fun t' a b c => rt_body env v t' ve a b c)
    obtain ⟨js, vals, hjs, hus, hty, hss⟩ := rt_all env vs e ve
      (fun x hx' => h x (List.mem_cons_of_mem _ hx')) (fun x hx' => hx x (List.mem_cons_of_mem _ hx'))
    refine ⟨j :: js, ⟨ve, p'⟩ :: vals, by simp [marshalAll, hj, hjs, Res.map],
      by simp [unmarshalAll, hu, hus], ?_, by simp [sameL, hs, hss]⟩
    intro x hx'
    rcases List.mem_cons.mp hx' with rfl | hx'
    · rfl
    · exact hty x hx'
/-- tuple elements / object attributes (decoded either way) -/
theorem rt_zip (env : JEnv) : ∀ (vs : List Payload) (es ves : List Ty), ZipH env.norm es ves vs →
    ∃ js vals, marshalZip env es ves vs = .ok js ∧ unmarshalZip env js es = .ok vals ∧
      (∀ (ks : List String) (osK : List Bool) (ns : List String) (ts : List Ty) (os : List Bool),
        ks.length = vs.length → osK.length = vs.length → FieldsIn (ks.map env.norm) es osK ns ts os →
        unmarshalAttrs env ks js ns ts os = .ok vals) ∧
      vals.map (·.ty) = ves ∧ sameL (vals.map (·.v)) vs = true
  | [], [], [], _ => ⟨[], [], by simp [marshalZip], by simp [unmarshalZip],
      fun ks _ _ _ _ hk _ _ => by
        have : ks = [] := List.eq_nil_of_length_eq_zero (by simpa using hk)
        subst this; simp [unmarshalAttrs], rfl, rfl⟩
  | [], [], _ :: _, h => by simp [ZipH] at h
  | [], _ :: _, _, h => by simp [ZipH] at h
  | _ :: _, [], _, h => by cases ‹List Ty› <;> simp [ZipH] at h
  | v :: vs, e :: es, ve :: ves, h => by
    simp only [ZipH] at h
    obtain ⟨⟨hr, hx⟩, hrest⟩ := h
    obtain ⟨j, p', hj, hu, hs⟩ := rt_entry env v e ve hr hx
      (fun t' a b c => rt_body env v t' ve a b c)
    obtain ⟨js, vals, hjs, hus, hua, hty, hss⟩ := rt_zip env vs es ves hrest
    refine ⟨j :: js, ⟨ve, p'⟩ :: vals, by simp [marshalZip, hj, hjs, Res.map],
      by simp [unmarshalZip, hu, hus], ?_, by simp [hty], by simp [sameL, hs, hss]⟩
    intro ks osK ns ts os hk ho hf
    cases ks with
    | nil => simp at hk
    | cons k ks =>
      cases osK with
      | nil => simp at ho
      | cons o osK =>
        simp only [List.map_cons, FieldsIn] at hf
        simp [unmarshalAttrs, hf.1, hu,
          hua ks osK ns ts os (by simpa using hk) (by simpa using ho) hf.2]
end

/-! ### a value against its own type: no inexact position -/
mutual
theorem exactK_self : ∀ (p : Payload) (vt : Ty), wf vt = true → wfP vt p = true →
    exactK vt vt p = true
  | .null, vt, hw, _ => by simp [exactK, (Ty.equals_iff_eq vt vt hw hw).mpr rfl]
  | .unk _, _, _, _ => by simp [exactK]
  | .b _, _, _, _ => by simp [exactK]
  | .n _, _, _, _ => by simp [exactK]
  | .s _, _, _, _ => by simp [exactK]
  | .caps, _, _, _ => by simp [exactK]
  | .bad _, _, _, _ => by simp [exactK]
  | .marked _ _, _, _, _ => by simp [exactK]
  | .seq vs, vt, hw, hp => by
    cases vt with
    | list ve =>
      simp only [wf] at hw
      simp only [wfP] at hp
      simp only [exactK]
      split
      · exact (Ty.equals_iff_eq ve ve hw hw).mpr rfl
      · exact exactAll_self vs ve hw hp
    | tuple ves =>
      simp only [wf] at hw
      simp only [wfP, Bool.and_eq_true] at hp
      simp only [exactK]
      exact exactZip_self vs ves hw hp.2
    | _ => simp [wfP] at hp
  | .smap ks vs, vt, hw, hp => by
    cases vt with
    | map ve =>
      simp only [wf] at hw
      simp only [wfP, Bool.and_eq_true] at hp
      simp only [exactK]
      split
      · exact (Ty.equals_iff_eq ve ve hw hw).mpr rfl
      · exact exactAll_self vs ve hw hp.2
    | object ns ts os =>
      simp only [wf, Bool.and_eq_true] at hw
      simp only [wfP, Bool.and_eq_true] at hp
      simp only [exactK]
      exact exactZip_self vs ts hw.2 hp.2
    | _ => simp [wfP] at hp
  | .sset ids vs, vt, hw, hp => by
    cases vt with
    | set ve =>
      simp only [wf] at hw
      simp only [wfP, Bool.and_eq_true] at hp
      simp only [exactK]
      split
      · exact (Ty.equals_iff_eq ve ve hw hw).mpr rfl
      · exact exactAll_self vs ve hw hp.2
    | _ => simp [wfP] at hp
theorem exactAll_self : ∀ (vs : List Payload) (ve : Ty), wf ve = true → wfAll ve vs = true →
    exactAll ve ve vs = true
  | [], _, _, _ => rfl
  | v :: vs, ve, hw, hp => by
    simp only [wfAll, Bool.and_eq_true] at hp
    simp [exactAll, exactK_self v ve hw hp.1, exactAll_self vs ve hw hp.2]
theorem exactZip_self : ∀ (vs : List Payload) (ves : List Ty), wfL ves = true → wfZip ves vs = true →
    exactZip ves ves vs = true
  | [], _, _, _ => by cases ‹List Ty› <;> simp [exactZip]
  | _ :: _, [], _, _ => by simp [exactZip]
  | v :: vs, ve :: ves, hw, hp => by
    simp only [wfL, Bool.and_eq_true] at hw
    simp only [wfZip, Bool.and_eq_true] at hp
    simp [exactZip, exactK_self v ve hw.1 hp.1, exactZip_self vs ves hw.2 hp.2]
end

end JsonVal
end CtyModel
