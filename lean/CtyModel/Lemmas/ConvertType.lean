/-
The type of a successful conversion to a placeholder-free target is the target
type without its optional-attribute annotations (for regular type pairs).
-/
import CtyModel.Lemmas.ConvertPlan
import CtyModel.Lemmas.ConvertRepl
import CtyModel.Lemmas.ConvertRefine
namespace CtyModel
namespace Convert
open Ty

/-- what is assumed of a (source type, target type, value) triple; inherited by members -/
structure Conds (inT out : Ty) (v : Value) : Prop where
  ty : v.ty = inT
  wfI : inT.wf = true
  wfO : out.wf = true
  optI : inT.hasOpt = false
  dynO : out.hasDyn = false
  reg : regular inT out = true
  wt : wtP inT v.v = true

/-- the recursive calls behave: a wrapped conversion yields the erased target type -/
def RecOK (E : Env) (rec : Rec) : Prop :=
  ∀ (inT out : Ty) (uns : Bool) (c : Plan) (v r : Value), gck E inT out uns = some c →
    Conds inT out v → rec (.wrap out c) v = .ok r → r.ty = out.stripOpt

/-- a plain (unmarked, known, non-null) payload -/
def plain (p : Payload) : Prop := p.isMarked = false ∧ p.isKnown = true ∧ p.isNull = false

theorem plain_of {v : Value} (hm : v.isMarked = false) (hk : v.isKnown = true) (hn : v.isNull = false) :
    plain v.v := ⟨hm, hk, hn⟩

theorem shape_list {e : Ty} {p : Payload} (hp : plain p) (h : wtP (.list e) p = true) :
    ∃ ps, p = .seq ps ∧ wtAll e ps = true := by
  obtain ⟨hm, hk, hn⟩ := hp
  cases p <;> simp [wtP, Payload.isMarked, Payload.isKnown, Payload.isNull, Payload.unmark1] at h hm hk hn
  exact ⟨_, rfl, h⟩

theorem shape_set {e : Ty} {p : Payload} (hp : plain p) (h : wtP (.set e) p = true) :
    ∃ ids ps, p = .sset ids ps ∧ wtAll e ps = true := by
  obtain ⟨hm, hk, hn⟩ := hp
  cases p <;> simp [wtP, Payload.isMarked, Payload.isKnown, Payload.isNull, Payload.unmark1] at h hm hk hn
  exact ⟨_, _, rfl, h.2⟩

theorem shape_map {e : Ty} {p : Payload} (hp : plain p) (h : wtP (.map e) p = true) :
    ∃ ks ps, p = .smap ks ps ∧ ks.length = ps.length ∧ wtAll e ps = true := by
  obtain ⟨hm, hk, hn⟩ := hp
  cases p <;> simp [wtP, Payload.isMarked, Payload.isKnown, Payload.isNull, Payload.unmark1] at h hm hk hn
  exact ⟨_, _, rfl, h.1, h.2⟩

theorem shape_tuple {ts : List Ty} {p : Payload} (hp : plain p) (h : wtP (.tuple ts) p = true) :
    ∃ ps, p = .seq ps ∧ wtZip ts ps = true := by
  obtain ⟨hm, hk, hn⟩ := hp
  cases p <;> simp [wtP, Payload.isMarked, Payload.isKnown, Payload.isNull, Payload.unmark1] at h hm hk hn
  exact ⟨_, rfl, h⟩

theorem shape_object {ns : List String} {ts : List Ty} {os : List Bool} {p : Payload} (hp : plain p)
    (h : wtP (.object ns ts os) p = true) : ∃ ps, p = .smap ns ps ∧ wtZip ts ps = true := by
  obtain ⟨hm, hk, hn⟩ := hp
  cases p <;> simp [wtP, Payload.isMarked, Payload.isKnown, Payload.isNull, Payload.unmark1] at h hm hk hn
  obtain ⟨rfl, h2⟩ := h
  exact ⟨_, rfl, h2⟩

theorem shape_prim_dyn {p : Payload} (hp : plain p) (h : wtP .dyn p = true) : False := by
  obtain ⟨hm, hk, hn⟩ := hp
  cases p <;> simp [wtP, Payload.isMarked, Payload.isKnown, Payload.isNull, Payload.unmark1] at h hm hk hn

theorem wtAll_mem {e : Ty} : ∀ {ps : List Payload}, wtAll e ps = true → ∀ p ∈ ps, wtP e p = true
  | [], _, _, hp => by simp at hp
  | q :: qs, h, p, hp => by
    simp only [wtAll, Bool.and_eq_true] at h
    rcases List.mem_cons.mp hp with rfl | hp
    · exact h.1
    · exact wtAll_mem h.2 p hp

theorem wtZip_length : ∀ {ts : List Ty} {ps : List Payload}, wtZip ts ps = true → ts.length = ps.length
  | [], [], _ => rfl
  | [], _ :: _, h => by simp [wtZip] at h
  | _ :: _, [], h => by simp [wtZip] at h
  | _ :: ts, _ :: ps, h => by
    simp only [wtZip, Bool.and_eq_true] at h
    simp [wtZip_length h.2]

/-! ### members inherit the conditions -/

theorem hasOptL_mem {ts : List Ty} (h : hasOptL ts = false) : ∀ t ∈ ts, hasOpt t = false := by
  induction ts with
  | nil => simp
  | cons a as ih =>
    simp only [hasOptL, Bool.or_eq_false_iff] at h
    intro t ht
    rcases List.mem_cons.mp ht with rfl | ht
    · exact h.1
    · exact ih h.2 t ht

theorem wfL_mem {ts : List Ty} (h : wfL ts = true) : ∀ t ∈ ts, wf t = true := by
  induction ts with
  | nil => simp
  | cons a as ih =>
    simp only [wfL, Bool.and_eq_true] at h
    intro t ht
    rcases List.mem_cons.mp ht with rfl | ht
    · exact h.1
    · exact ih h.2 t ht

theorem hasDynL_mem {ts : List Ty} (h : hasDynL ts = false) : ∀ t ∈ ts, hasDyn t = false := by
  induction ts with
  | nil => simp
  | cons a as ih =>
    simp only [hasDynL, Bool.or_eq_false_iff] at h
    intro t ht
    rcases List.mem_cons.mp ht with rfl | ht
    · exact h.1
    · exact ih h.2 t ht

/-! ### one element -/

theorem planFor_ty {E : Env} {rec : Rec} (hrec : RecOK E rec) {uns : Bool} {it ot : Ty} {p : Plan}
    {e e' : Value} (hp : PlanFor E uns it ot p) (hc : Conds it ot e)
    (h : applyOpt rec p e = .ok e') : e'.ty = ot.stripOpt := by
  rcases hp with ⟨rfl, he⟩ | ⟨c, rfl, hg⟩
  · simp [applyOpt] at h; subst h
    have : it = ot := eq_of_equals hc.wfI hc.wfO he
    subst this
    rw [hc.ty, stripOpt_id_of_noOpt _ hc.optI]
  · simp [applyOpt] at h
    exact hrec it ot uns c e e' hg hc h

theorem stripNull_ty' {v : Value} {t : Ty} (h : v.ty = stripOpt t) : (stripNull v).ty = stripOpt t := by
  rw [stripNull_ty v (by rw [h]; exact stripOpt_noOpt t), h]

theorem mapRes_forall {α β} {f : α → Res β} {P : α → Prop} {Q : β → Prop}
    (hf : ∀ a b, P a → f a = .ok b → Q b) : ∀ (xs : List α) (ys : List β),
    (∀ x ∈ xs, P x) → mapRes f xs = .ok ys → ys.length = xs.length ∧ ∀ y ∈ ys, Q y
  | [], ys, _, h => by simp [mapRes] at h; subst h; simp
  | x :: xs, ys, hP, h => by
    simp only [mapRes] at h
    obtain ⟨b, hb, h⟩ := Res.bind_eq_ok h
    obtain ⟨bs, hbs, h⟩ := Res.bind_eq_ok h
    simp at h; subst h
    have ih := mapRes_forall hf xs bs (fun y hy => hP y (by simp [hy])) hbs
    refine ⟨by simp [ih.1], ?_⟩
    intro y hy
    rcases List.mem_cons.mp hy with rfl | hy
    · exact hf x _ (hP x (by simp)) hb
    · exact ih.2 y hy

/-! ### element conversions towards one target (tuple → list / set, object → map) -/

theorem applyZip_all {E : Env} {rec : Rec} (hrec : RecOK E rec) {uns : Bool} {t : Ty}
    (post : Value → Value) (hpost : ∀ v : Value, v.ty = stripOpt t → (post v).ty = stripOpt t)
    (hwt : wf t = true) (hdt : hasDyn t = false) :
    ∀ (its : List Ty) (cs : List Plan) (ps : List Payload) (es' : List Value),
    All2 (fun it p => PlanFor E uns it t p) its cs → wtZip its ps = true →
    (∀ it ∈ its, wf it = true ∧ hasOpt it = false ∧ regular it t = true) →
    applyZip rec post cs (zipTys its ps) = .ok es' →
    es'.length = its.length ∧ ∀ e' ∈ es', e'.ty = stripOpt t
  | [], _, [], es', .nil, _, _, h => by simp [zipTys, applyZip] at h; subst h; simp
  | [], _, _ :: _, _, _, hw, _, _ => by simp [wtZip] at hw
  | _ :: _, _, [], _, _, hw, _, _ => by simp [wtZip] at hw
  | it :: its, _, p :: ps, es', .cons hp hps, hw, hall, h => by
    simp only [wtZip, Bool.and_eq_true] at hw
    simp only [zipTys, applyZip] at h
    obtain ⟨v', hv', h⟩ := Res.bind_eq_ok h
    obtain ⟨vs', hvs', h⟩ := Res.bind_eq_ok h
    simp at h; subst h
    obtain ⟨hwi, hoi, hri⟩ := hall it (by simp)
    have hc : Conds it t ⟨it, p⟩ := ⟨rfl, hwi, hwt, hoi, hdt, hri, hw.1⟩
    have h1 := planFor_ty hrec hp hc hv'
    have ih := applyZip_all hrec post hpost hwt hdt its _ ps vs' hps hw.2
      (fun x hx => hall x (by simp [hx])) hvs'
    refine ⟨by simp [ih.1], ?_⟩
    intro e' he'
    rcases List.mem_cons.mp he' with rfl | he'
    · exact hpost _ h1
    · exact ih.2 e' he'

/-! ### position-wise element conversions (tuple → tuple) -/

theorem applyZip_zip {E : Env} {rec : Rec} (hrec : RecOK E rec) {uns : Bool} :
    ∀ (its ots : List Ty) (cs : List Plan) (ps : List Payload) (es' : List Value),
    All3 (fun it ot p => PlanFor E uns it ot p) its ots cs → wtZip its ps = true →
    wfL its = true → hasOptL its = false → wfL ots = true → hasDynL ots = false →
    regularZip its ots = true →
    applyZip rec id cs (zipTys its ps) = .ok es' → es'.map (·.ty) = stripOptL ots
  | [], _, _, [], es', .nil, _, _, _, _, _, _, h => by
    simp [zipTys, applyZip] at h; subst h; simp [stripOptL]
  | [], _, _, _ :: _, _, _, hw, _, _, _, _, _, _ => by simp [wtZip] at hw
  | _ :: _, _, _, [], _, _, hw, _, _, _, _, _, _ => by simp [wtZip] at hw
  | it :: its, ot :: ots, c :: cs, p :: ps, es', .cons hp hps, hw, hwi, hoi, hwo, hdo, hr, h => by
    simp only [wtZip, Bool.and_eq_true] at hw
    simp only [wfL, Bool.and_eq_true] at hwi hwo
    simp only [hasOptL, Bool.or_eq_false_iff] at hoi
    simp only [hasDynL, Bool.or_eq_false_iff] at hdo
    simp only [regularZip, Bool.and_eq_true] at hr
    simp only [zipTys, applyZip] at h
    obtain ⟨v', hv', h⟩ := Res.bind_eq_ok h
    obtain ⟨vs', hvs', h⟩ := Res.bind_eq_ok h
    simp at h; subst h
    have hc : Conds it ot ⟨it, p⟩ := ⟨rfl, hwi.1, hwo.1, hoi.1, hdo.1, hr.1, hw.1⟩
    have h1 := planFor_ty hrec hp hc hv'
    have ih := applyZip_zip hrec its ots cs ps vs' hps hw.2 hwi.2 hoi.2 hwo.2 hdo.2 hr.2 hvs'
    simp [stripOptL, h1, ih]

/-! ### late unification is the identity when all element types already agree -/

theorem unifyElems_same {E : Env} (hU : UnifyLaws E) {rec : Rec} {uns : Bool} {T : Ty}
    (hw : wf T = true) (ho : hasOpt T = false) {vs : List Value} (hne : vs ≠ [])
    (h : ∀ v ∈ vs, v.ty = T) : unifyElems E rec uns vs = .ok vs := by
  unfold unifyElems Env.unifyG
  have hne' : (vs.map (·.ty)).isEmpty = false := by
    cases vs with
    | nil => exact absurd rfl hne
    | cons => rfl
  have hsame := hU.same uns T (vs.map (·.ty)) (by
      cases vs with
      | nil => exact absurd rfl hne
      | cons => simp) (by
      intro x hx
      obtain ⟨w, hw', rfl⟩ := List.mem_map.mp hx
      exact h w hw') hw ho
  simp only [hne', hsame]
  apply mapRes_id
  intro x hx
  simp [h x hx, equals_self hw]

/-! ### members of a set in iteration order are its members -/

theorem insertSorted_mem {lt : Payload → Payload → Bool} {x y : Payload} :
    ∀ {l : List Payload}, y ∈ insertSorted lt x l → y = x ∨ y ∈ l
  | [], h => by simp [insertSorted] at h; exact .inl h
  | z :: zs, h => by
    simp only [insertSorted] at h
    split at h
    · rcases List.mem_cons.mp h with rfl | h
      · exact .inl rfl
      · exact .inr h
    · rcases List.mem_cons.mp h with rfl | h
      · exact .inr (by simp)
      · rcases insertSorted_mem h with rfl | h
        · exact .inl rfl
        · exact .inr (by simp [h])

theorem foldl_insert_mem {lt : Payload → Payload → Bool} : ∀ (ps acc : List Payload) (y : Payload),
    y ∈ ps.foldl (fun acc x => insertSorted lt x acc) acc → y ∈ ps ∨ y ∈ acc
  | [], acc, y, h => .inr h
  | p :: ps, acc, y, h => by
    simp only [List.foldl] at h
    rcases foldl_insert_mem ps _ y h with h | h
    · exact .inl (by simp [h])
    · rcases insertSorted_mem h with rfl | h
      · exact .inl (by simp)
      · exact .inr h

theorem setValues_mem {E : Env} {e : Ty} {ps : List Payload} {y : Payload}
    (h : y ∈ setValues E e ps) : y ∈ ps := by
  rcases foldl_insert_mem ps [] y h with h | h
  · exact h
  · simp at h

/-! ### lookups in parallel lists with distinct keys -/

theorem lookupPlan_prefix : ∀ (pre : List String) (preC : List Plan) (k : String) (post : List String)
    (p : Plan) (postC : List Plan), pre.length = preC.length → k ∉ pre →
    lookupPlan k (pre ++ k :: post) (preC ++ p :: postC) = some p
  | [], [], k, post, p, postC, _, _ => by simp [lookupPlan]
  | [], _ :: _, _, _, _, _, h, _ => by simp at h
  | _ :: _, [], _, _, _, _, h, _ => by simp at h
  | a :: pre, b :: preC, k, post, p, postC, hl, hk => by
    have hak : a ≠ k := fun e => hk (by simp [e])
    simp only [List.cons_append, lookupPlan, hak, if_false]
    exact lookupPlan_prefix pre preC k post p postC (by simpa using hl) (fun h => hk (by simp [h]))

theorem all3_with_lookup {R : String → Ty → Plan → Prop} : ∀ (pre : List String) (preC : List Plan)
    (ns : List String) (its : List Ty) (cs : List Plan), pre.length = preC.length →
    (∀ x ∈ ns, x ∉ pre) → ns.Nodup → All3 R ns its cs →
    All3 (fun n it p => lookupPlan n (pre ++ ns) (preC ++ cs) = some p ∧ R n it p) ns its cs
  | _, _, [], _, _, _, _, _, .nil => .nil
  | pre, preC, n :: ns, it :: its, c :: cs, hl, hpre, hnd, .cons hr hrs => by
    have hnd' := List.nodup_cons.mp hnd
    refine .cons ⟨lookupPlan_prefix pre preC n ns c cs hl (hpre n (by simp)), hr⟩ ?_
    have := all3_with_lookup (R := R) (pre ++ [n]) (preC ++ [c]) ns its cs (by simp [hl])
      (by
        intro x hx hm
        rcases List.mem_append.mp hm with hm | hm
        · exact hpre x (by simp [hx]) hm
        · simp at hm; subst hm; exact hnd'.1 hx) hnd'.2 hrs
    simpa [List.append_assoc] using this

/-! ### conversionObjectToObject -/

theorem lookupVal_cons (n k : String) (v : Value) (ns : List String) (vs : List Value) :
    lookupVal k (n :: ns) (v :: vs) = if n = k then some v else lookupVal k ns vs := rfl

/-- what the attribute loop is given for the attribute `n : it` of the value -/
def AttrOK (E : Env) (uns : Bool) (on : List String) (ot : List Ty) (oo : List Bool)
    (keys : List String) (convs : List Plan) (n : String) (it : Ty) (p : Plan) : Prop :=
  lookupPlan n keys convs = some p ∧ AttrPlan E uns on ot oo n it p ∧ wf it = true ∧ hasOpt it = false ∧
  ∀ oty o, Ty.find n on ot oo = some (oty, o) → wf oty = true ∧ hasDyn oty = false ∧ regular it oty = true

theorem objAttrLoop_spec {E : Env} {rec : Rec} (hrec : RecOK E rec) {uns : Bool} {on : List String}
    {ot : List Ty} {oo : List Bool} {keys : List String} {convs : List Plan} :
    ∀ (ns : List String) (its : List Ty) (cs : List Plan) (ps : List Payload) (r : List String × List Value),
    All3 (AttrOK E uns on ot oo keys convs) ns its cs → wtZip its ps = true →
    objAttrLoop rec keys convs ns (zipTys its ps) = .ok r →
    (∀ n v, lookupVal n r.1 r.2 = some v → ∀ oty o, Ty.find n on ot oo = some (oty, o) → v.ty = stripOpt oty) ∧
    (∀ n ∈ ns, (Ty.find n on ot oo).isSome = true → (lookupVal n r.1 r.2).isSome = true)
  | [], [], [], [], r, .nil, _, h => by
    simp [zipTys, objAttrLoop] at h; subst h; simp [lookupVal]
  | _ :: _, _ :: _, _ :: _, [], _, _, hw, _ => by simp [wtZip] at hw
  | n :: ns, it :: its, c :: cs, p :: ps, r, .cons hok hoks, hw, h => by
    simp only [wtZip, Bool.and_eq_true] at hw
    obtain ⟨hlk, hap, hwi, hoi, hout⟩ := hok
    simp only [zipTys, objAttrLoop, hlk] at h
    rcases hap with ⟨rfl, hfn⟩ | ⟨oty, o, hf, hpf⟩
    · -- no entry in attrConvs: the attribute is dropped
      simp only at h
      have ih := objAttrLoop_spec hrec ns its cs ps r hoks hw.2 h
      refine ⟨ih.1, ?_⟩
      intro n' hn' hs
      rcases List.mem_cons.mp hn' with rfl | hn'
      · simp [hfn] at hs
      · exact ih.2 n' hn' hs
    · have hc : Conds it oty ⟨it, p⟩ :=
        ⟨rfl, hwi, (hout oty o hf).1, hoi, (hout oty o hf).2.1, (hout oty o hf).2.2, hw.1⟩
      have hstep : ∀ v', applyOpt rec c ⟨it, p⟩ = .ok v' → (stripNull v').ty = stripOpt oty :=
        fun v' hv' => stripNull_ty' (planFor_ty hrec hpf hc hv')
      have hnotabs : c ≠ .absent := by
        rcases hpf with ⟨rfl, _⟩ | ⟨c', rfl, _⟩ <;> simp
      have h' : ((applyOpt rec c ⟨it, p⟩).bind fun v' =>
          (objAttrLoop rec keys convs ns (zipTys its ps)).bind fun r' =>
            Res.ok (n :: r'.1, stripNull v' :: r'.2)) = .ok r := by
        rcases hpf with ⟨rfl, _⟩ | ⟨c', rfl, _⟩ <;> exact h
      obtain ⟨v', hv', h'⟩ := Res.bind_eq_ok h'
      obtain ⟨r', hr', h'⟩ := Res.bind_eq_ok h'
      simp at h'; subst h'
      have ih := objAttrLoop_spec hrec ns its cs ps r' hoks hw.2 hr'
      refine ⟨?_, ?_⟩
      · intro n' v hl oty' o' hf'
        simp only [lookupVal_cons] at hl
        split at hl
        · rename_i hnn
          subst hnn
          simp at hl; subst hl
          rw [hf] at hf'; simp at hf'; rw [← hf'.1]
          exact hstep v' hv'
        · exact ih.1 n' v hl oty' o' hf'
      · intro n' hn' hs
        simp only [lookupVal_cons]
        split
        · rfl
        · rename_i hnn
          rcases List.mem_cons.mp hn' with rfl | hn'
          · exact absurd rfl hnn
          · exact ih.2 n' hn' hs

/-- what the second loop needs of each attribute of the target object -/
def FillOK (names : List String) (vals : List Value) (on : List String) (ot : List Ty) (oo : List Bool) :
    List String → List Ty → List Bool → Prop
  | n :: ns, t :: ts, o :: os =>
    Ty.find n on ot oo = some (t, o) ∧ (o = true ∨ (lookupVal n names vals).isSome = true) ∧
    FillOK names vals on ot oo ns ts os
  | _, _, _ => True

theorem objFill_spec {names : List String} {vals : List Value} {on : List String} {ot : List Ty} {oo : List Bool}
    (ha : ∀ n v, lookupVal n names vals = some v → ∀ oty o, Ty.find n on ot oo = some (oty, o) →
      v.ty = stripOpt oty) :
    ∀ (ns : List String) (ts : List Ty) (os : List Bool), ns.length = ts.length → os.length = ts.length →
    FillOK names vals on ot oo ns ts os →
    (objFill names vals ns ts os).1 = ns ∧ (objFill names vals ns ts os).2.map (·.ty) = stripOptL ts
  | [], [], [], _, _, _ => by simp [objFill, stripOptL]
  | [], _ :: _, _, h, _, _ => by simp at h
  | _ :: _, [], _, h, _, _ => by simp at h
  | _, _ :: _, [], _, h, _ => by simp at h
  | _, [], _ :: _, _, h, _ => by simp at h
  | n :: ns, t :: ts, o :: os, h1, h2, hf => by
    obtain ⟨hfind, hreq, hrest⟩ := hf
    have ih := objFill_spec ha ns ts os (by simpa using h1) (by simpa using h2) hrest
    simp only [objFill]
    cases hl : lookupVal n names vals with
    | some v =>
      simp [ih.1, ih.2, stripOptL, ha n v hl t o hfind]
    | none =>
      rcases hreq with rfl | hs
      · simp [ih.1, ih.2, stripOptL, Value.null]
      · simp [hl] at hs

/-! ### conversionMapToObject -/

theorem find_lookupPlan {R : Ty → Plan → Prop} {k : String} {t : Ty} {o : Bool} :
    ∀ (names : List String) (ots : List Ty) (oos : List Bool) (cs : List Plan),
    All2 R ots cs → Ty.find k names ots oos = some (t, o) →
    ∃ p, lookupPlan k names cs = some p ∧ R t p
  | [], _, _, _, _, h => by simp [Ty.find] at h
  | _ :: _, [], _, _, _, h => by simp [Ty.find] at h
  | _ :: _, _ :: _, [], _, _, h => by simp [Ty.find] at h
  | n :: names, ot :: ots, oo :: oos, _, .cons hr hrs, h => by
    simp only [Ty.find] at h
    split at h
    · rename_i hnk
      simp at h
      refine ⟨_, by simp [lookupPlan, hnk], h.1 ▸ hr⟩
    · rename_i hnk
      obtain ⟨p, hp, hR⟩ := find_lookupPlan names ots oos _ hrs h
      exact ⟨p, by simp [lookupPlan, hnk, hp], hR⟩

theorem find_of_contains {k : String} : ∀ (names : List String) (ts : List Ty) (os : List Bool),
    names.length = ts.length → os.length = ts.length → names.contains k = true →
    (Ty.find k names ts os).isSome = true
  | [], _, _, _, _, h => by simp at h
  | _ :: _, [], _, h, _, _ => by simp at h
  | _ :: _, _ :: _, [], _, h, _ => by simp at h
  | n :: names, t :: ts, o :: os, h1, h2, h => by
    simp only [Ty.find]
    split
    · rfl
    · rename_i hnk
      have : names.contains k = true := by
        simp only [List.contains_cons, Bool.or_eq_true, beq_iff_eq] at h
        rcases h with h | h
        · exact absurd h.symm hnk
        · exact h
      exact find_of_contains names ts os (by simpa using h1) (by simpa using h2) this

theorem mapObjLoop_spec {E : Env} {rec : Rec} (hrec : RecOK E rec) {uns : Bool} {ie : Ty}
    {names : List String} {tys : List Ty} {opts : List Bool} {convs : List Plan}
    (hpl : All2 (fun ot p => MapObjPlan E uns ie ot p) tys convs)
    (hl1 : names.length = tys.length) (hl2 : opts.length = tys.length)
    (hwi : wf ie = true) (hoi : hasOpt ie = false)
    (hty : ∀ n t o, Ty.find n names tys opts = some (t, o) →
      wf t = true ∧ hasDyn t = false ∧ regular ie t = true) :
    ∀ (ks : List String) (ps : List Payload) (r : List String × List Value), wtAll ie ps = true →
    mapObjLoop rec names tys opts convs ks (ps.map fun p => ⟨ie, p⟩) = .ok r →
    ∀ n v, lookupVal n r.1 r.2 = some v → ∀ t o, Ty.find n names tys opts = some (t, o) → v.ty = stripOpt t
  | [], _, r, _, h => by
    simp [mapObjLoop] at h; subst h; simp [lookupVal]
  | _ :: _, [], r, _, h => by
    simp [mapObjLoop] at h; subst h; simp [lookupVal]
  | k :: ks, p :: ps, r, hw, h => by
    simp only [wtAll, Bool.and_eq_true] at hw
    simp only [List.map_cons, mapObjLoop] at h
    split at h
    · exact mapObjLoop_spec hrec hpl hl1 hl2 hwi hoi hty ks ps r hw.2 h
    · rename_i hc
      have hc' : names.contains k = true := by simpa using hc
      have hsome := find_of_contains names tys opts hl1 hl2 hc'
      obtain ⟨⟨t, o⟩, hf⟩ := Option.isSome_iff_exists.mp hsome
      obtain ⟨pl, hlk, hmp⟩ := find_lookupPlan names tys opts convs hpl hf
      obtain ⟨hwt, hdt, hrt⟩ := hty k t o hf
      simp only [hlk] at h
      obtain ⟨v', hv', h⟩ := Res.bind_eq_ok h
      obtain ⟨r', hr', h⟩ := Res.bind_eq_ok h
      simp at h; subst h
      have ih := mapObjLoop_spec hrec hpl hl1 hl2 hwi hoi hty ks ps r' hw.2 hr'
      have hv'ty : v'.ty = stripOpt t := by
        rcases hmp with rfl | ⟨rfl, he⟩ | ⟨c, rfl, hg⟩
        · simp at hv'
        · simp at hv'; subst hv'
          have : t = ie := eq_of_equals hwt hwi he
          subst this
          simp [stripOpt_id_of_noOpt _ hoi]
        · simp at hv'
          exact hrec ie t uns c ⟨ie, p⟩ v' hg ⟨rfl, hwi, hwt, hoi, hdt, hrt, hw.1⟩ hv'
      intro n v hl t' o' hf'
      simp only [lookupVal_cons] at hl
      split at hl
      · rename_i hkn
        subst hkn
        simp at hl; subst hl
        rw [hf] at hf'; simp at hf'; rw [← hf'.1]
        exact stripNull_ty' hv'ty
      · exact ih n v hl t' o' hf'

theorem mapObjFill_spec {keys : List String} {vals : List Value} {names : List String} {tys : List Ty}
    {opts : List Bool}
    (ha : ∀ n v, lookupVal n keys vals = some v → ∀ t o, Ty.find n names tys opts = some (t, o) →
      v.ty = stripOpt t) :
    ∀ (ns : List String) (ts : List Ty) (os : List Bool) (out : List Value), ns.length = ts.length →
    os.length = ts.length → FieldsIn ns ts os names tys opts → optFlat ts os = true →
    mapObjFill keys vals ns ts os = .ok out → out.map (·.ty) = stripOptL ts
  | [], [], [], out, _, _, _, _, h => by simp [mapObjFill] at h; subst h; simp [stripOptL]
  | [], _ :: _, _, _, h, _, _, _, _ => by simp at h
  | _ :: _, [], _, _, h, _, _, _, _ => by simp at h
  | _, _ :: _, [], _, _, h, _, _, _ => by simp at h
  | _, [], _ :: _, _, _, h, _, _, _ => by simp at h
  | n :: ns, t :: ts, o :: os, out, h1, h2, hf, hflat, h => by
    simp only [FieldsIn] at hf
    simp only [optFlat, Bool.and_eq_true, Bool.or_eq_true, Bool.not_eq_true'] at hflat
    simp only [mapObjFill] at h
    cases hl : lookupVal n keys vals with
    | some v =>
      simp only [hl] at h
      obtain ⟨rest, hrest, h⟩ := Res.map_eq_ok h
      subst h
      have ih := mapObjFill_spec ha ns ts os rest (by simpa using h1) (by simpa using h2) hf.2 hflat.2 hrest
      simp [stripOptL, ih, ha n v hl t o hf.1]
    | none =>
      simp only [hl] at h
      split at h
      · rename_i ho
        obtain ⟨rest, hrest, h⟩ := Res.map_eq_ok h
        subst h
        have ih := mapObjFill_spec ha ns ts os rest (by simpa using h1) (by simpa using h2) hf.2 hflat.2 hrest
        have hnoopt : hasOpt t = false := by
          rcases hflat.1 with h | h
          · simp [ho] at h
          · exact h
        simp [stripOptL, ih, Value.null, stripOpt_id_of_noOpt _ hnoopt]
      · simp at h

theorem mapRes_length {α β} {f : α → Res β} : ∀ {xs : List α} {ys : List β},
    mapRes f xs = .ok ys → ys.length = xs.length := fun h => (mapRes_ok h).length.symm

theorem mapObjFill_length {keys : List String} {vals : List Value} :
    ∀ (ns : List String) (ts : List Ty) (os : List Bool) (out : List Value), ns.length = ts.length →
    os.length = ts.length → mapObjFill keys vals ns ts os = .ok out → out.length = ts.length
  | [], [], [], out, _, _, h => by simp [mapObjFill] at h; subst h; rfl
  | [], _ :: _, _, _, h, _, _ => by simp at h
  | _ :: _, [], _, _, h, _, _ => by simp at h
  | _, _ :: _, [], _, _, h, _ => by simp at h
  | _, [], _ :: _, _, _, h, _ => by simp at h
  | n :: ns, t :: ts, o :: os, out, h1, h2, h => by
    simp only [mapObjFill] at h
    split at h
    · obtain ⟨rest, hrest, h⟩ := Res.map_eq_ok h
      subst h
      simp [mapObjFill_length ns ts os rest (by simpa using h1) (by simpa using h2) hrest]
    · split at h
      · obtain ⟨rest, hrest, h⟩ := Res.map_eq_ok h
        subst h
        simp [mapObjFill_length ns ts os rest (by simpa using h1) (by simpa using h2) hrest]
      · simp at h

end Convert
end CtyModel
