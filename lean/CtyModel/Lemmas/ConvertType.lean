/-
The type of a successful conversion to a placeholder-free target is the target
type without its optional-attribute annotations.
-/
import CtyModel.Lemmas.ConvertPlan
import CtyModel.Lemmas.ConvertRepl
import CtyModel.Lemmas.ConvertRefine
namespace CtyModel
namespace Convert
open Ty

/-- what is assumed of a (source type, target type, value) triple; inherited by members -/
structure Conds (inT out : Ty) (v : Value) : Prop where
  ty : v.ty = inT
  wfI : inT.wf = true
  wfO : out.wf = true
  optI : inT.hasOpt = false
  dynO : out.hasDyn = false
  wt : wtP inT v.v = true

/-- the recursive calls behave: a wrapped conversion yields the erased target type -/
def RecOK (E : Env) (rec : Rec) : Prop :=
  ∀ (inT out : Ty) (uns : Bool) (c : Plan) (v r : Value), gck E inT out uns = some c →
    Conds inT out v → rec (.wrap out c) v = .ok r → r.ty = out.stripOpt

/-- a plain (unmarked, known, non-null) payload -/
def plain (p : Payload) : Prop := p.isMarked = false ∧ p.isKnown = true ∧ p.isNull = false

theorem plain_of {v : Value} (hm : v.isMarked = false) (hk : v.isKnown = true) (hn : v.isNull = false) :
    plain v.v := ⟨hm, hk, hn⟩

theorem shape_list {e : Ty} {p : Payload} (hp : plain p) (h : wtP (.list e) p = true) :
    ∃ ps, p = .seq ps ∧ wtAll e ps = true := by
  obtain ⟨hm, hk, hn⟩ := hp
  cases p <;> simp [wtP, Payload.isMarked, Payload.isKnown, Payload.isNull, Payload.unmark1] at h hm hk hn
  exact ⟨_, rfl, h⟩

theorem shape_set {e : Ty} {p : Payload} (hp : plain p) (h : wtP (.set e) p = true) :
    ∃ ids ps, p = .sset ids ps ∧ wtAll e ps = true := by
  obtain ⟨hm, hk, hn⟩ := hp
  cases p <;> simp [wtP, Payload.isMarked, Payload.isKnown, Payload.isNull, Payload.unmark1] at h hm hk hn
  exact ⟨_, _, rfl, h.2⟩

theorem shape_map {e : Ty} {p : Payload} (hp : plain p) (h : wtP (.map e) p = true) :
    ∃ ks ps, p = .smap ks ps ∧ ks.length = ps.length ∧ wtAll e ps = true := by
  obtain ⟨hm, hk, hn⟩ := hp
  cases p <;> simp [wtP, Payload.isMarked, Payload.isKnown, Payload.isNull, Payload.unmark1] at h hm hk hn
  exact ⟨_, _, rfl, h.1, h.2⟩

theorem shape_tuple {ts : List Ty} {p : Payload} (hp : plain p) (h : wtP (.tuple ts) p = true) :
    ∃ ps, p = .seq ps ∧ wtZip ts ps = true := by
  obtain ⟨hm, hk, hn⟩ := hp
  cases p <;> simp [wtP, Payload.isMarked, Payload.isKnown, Payload.isNull, Payload.unmark1] at h hm hk hn
  exact ⟨_, rfl, h⟩

theorem shape_object {ns : List String} {ts : List Ty} {os : List Bool} {p : Payload} (hp : plain p)
    (h : wtP (.object ns ts os) p = true) : ∃ ps, p = .smap ns ps ∧ wtZip ts ps = true := by
  obtain ⟨hm, hk, hn⟩ := hp
  cases p <;> simp [wtP, Payload.isMarked, Payload.isKnown, Payload.isNull, Payload.unmark1] at h hm hk hn
  obtain ⟨rfl, h2⟩ := h
  exact ⟨_, rfl, h2⟩

theorem shape_prim_dyn {p : Payload} (hp : plain p) (h : wtP .dyn p = true) : False := by
  obtain ⟨hm, hk, hn⟩ := hp
  cases p <;> simp [wtP, Payload.isMarked, Payload.isKnown, Payload.isNull, Payload.unmark1] at h hm hk hn

theorem wtAll_mem {e : Ty} : ∀ {ps : List Payload}, wtAll e ps = true → ∀ p ∈ ps, wtP e p = true
  | [], _, _, hp => by simp at hp
  | q :: qs, h, p, hp => by
    simp only [wtAll, Bool.and_eq_true] at h
    rcases List.mem_cons.mp hp with rfl | hp
    · exact h.1
    · exact wtAll_mem h.2 p hp

theorem wtZip_length : ∀ {ts : List Ty} {ps : List Payload}, wtZip ts ps = true → ts.length = ps.length
  | [], [], _ => rfl
  | [], _ :: _, h => by simp [wtZip] at h
  | _ :: _, [], h => by simp [wtZip] at h
  | _ :: ts, _ :: ps, h => by
    simp only [wtZip, Bool.and_eq_true] at h
    simp [wtZip_length h.2]

/-! ### members inherit the conditions -/

theorem hasOptL_mem {ts : List Ty} (h : hasOptL ts = false) : ∀ t ∈ ts, hasOpt t = false := by
  induction ts with
  | nil => simp
  | cons a as ih =>
    simp only [hasOptL, Bool.or_eq_false_iff] at h
    intro t ht
    rcases List.mem_cons.mp ht with rfl | ht
    · exact h.1
    · exact ih h.2 t ht

theorem wfL_mem {ts : List Ty} (h : wfL ts = true) : ∀ t ∈ ts, wf t = true := by
  induction ts with
  | nil => simp
  | cons a as ih =>
    simp only [wfL, Bool.and_eq_true] at h
    intro t ht
    rcases List.mem_cons.mp ht with rfl | ht
    · exact h.1
    · exact ih h.2 t ht

theorem hasDynL_mem {ts : List Ty} (h : hasDynL ts = false) : ∀ t ∈ ts, hasDyn t = false := by
  induction ts with
  | nil => simp
  | cons a as ih =>
    simp only [hasDynL, Bool.or_eq_false_iff] at h
    intro t ht
    rcases List.mem_cons.mp ht with rfl | ht
    · exact h.1
    · exact ih h.2 t ht

/-! ### one element -/

theorem planFor_ty {E : Env} {rec : Rec} (hrec : RecOK E rec) {uns : Bool} {it ot : Ty} {p : Plan}
    {e e' : Value} (hp : PlanFor E uns it ot p) (hc : Conds it ot e)
    (h : applyOpt rec p e = .ok e') : e'.ty = ot.stripOpt := by
  rcases hp with ⟨rfl, he⟩ | ⟨c, rfl, hg⟩
  · simp [applyOpt] at h; subst h
    have : it = ot := eq_of_equals hc.wfI hc.wfO he
    subst this
    rw [hc.ty, stripOpt_id_of_noOpt _ hc.optI]
  · simp [applyOpt] at h
    exact hrec it ot uns c e e' hg hc h

theorem stripNull_ty' {v : Value} {t : Ty} (h : v.ty = stripOpt t) : (stripNull v).ty = stripOpt t := by
  rw [stripNull_ty v (by rw [h]; exact stripOpt_noOpt t), h]

theorem mapRes_forall {α β} {f : α → Res β} {P : α → Prop} {Q : β → Prop}
    (hf : ∀ a b, P a → f a = .ok b → Q b) : ∀ (xs : List α) (ys : List β),
    (∀ x ∈ xs, P x) → mapRes f xs = .ok ys → ys.length = xs.length ∧ ∀ y ∈ ys, Q y
  | [], ys, _, h => by simp [mapRes] at h; subst h; simp
  | x :: xs, ys, hP, h => by
    simp only [mapRes] at h
    obtain ⟨b, hb, h⟩ := Res.bind_eq_ok h
    obtain ⟨bs, hbs, h⟩ := Res.bind_eq_ok h
    simp at h; subst h
    have ih := mapRes_forall hf xs bs (fun y hy => hP y (by simp [hy])) hbs
    refine ⟨by simp [ih.1], ?_⟩
    intro y hy
    rcases List.mem_cons.mp hy with rfl | hy
    · exact hf x _ (hP x (by simp)) hb
    · exact ih.2 y hy

/-! ### element conversions towards one target (tuple → list / set, object → map) -/

theorem applyZip_all {E : Env} {rec : Rec} (hrec : RecOK E rec) {uns : Bool} {t : Ty}
    (post : Value → Value) (hpost : ∀ v : Value, v.ty = stripOpt t → (post v).ty = stripOpt t)
    (hwt : wf t = true) (hdt : hasDyn t = false) :
    ∀ (its : List Ty) (cs : List Plan) (ps : List Payload) (es' : List Value),
    All2 (fun it p => PlanFor E uns it t p) its cs → wtZip its ps = true →
    (∀ it ∈ its, wf it = true ∧ hasOpt it = false ) →
    applyZip rec post cs (zipTys its ps) = .ok es' →
    es'.length = its.length ∧ ∀ e' ∈ es', e'.ty = stripOpt t
  | [], _, [], es', .nil, _, _, h => by simp [zipTys, applyZip] at h; subst h; simp
  | [], _, _ :: _, _, _, hw, _, _ => by simp [wtZip] at hw
  | _ :: _, _, [], _, _, hw, _, _ => by simp [wtZip] at hw
  | it :: its, _, p :: ps, es', .cons hp hps, hw, hall, h => by
    simp only [wtZip, Bool.and_eq_true] at hw
    simp only [zipTys, applyZip] at h
    obtain ⟨v', hv', h⟩ := Res.bind_eq_ok h
    obtain ⟨vs', hvs', h⟩ := Res.bind_eq_ok h
    simp at h; subst h
    obtain ⟨hwi, hoi⟩ := hall it (by simp)
    have hc : Conds it t ⟨it, p⟩ := ⟨rfl, hwi, hwt, hoi, hdt, hw.1⟩
    have h1 := planFor_ty hrec hp hc hv'
    have ih := applyZip_all hrec post hpost hwt hdt its _ ps vs' hps hw.2
      (fun x hx => hall x (by simp [hx])) hvs'
    refine ⟨by simp [ih.1], ?_⟩
    intro e' he'
    rcases List.mem_cons.mp he' with rfl | he'
    · exact hpost _ h1
    · exact ih.2 e' he'

/-! ### position-wise element conversions (tuple → tuple) -/

theorem applyZip_zip {E : Env} {rec : Rec} (hrec : RecOK E rec) {uns : Bool} :
    ∀ (its ots : List Ty) (cs : List Plan) (ps : List Payload) (es' : List Value),
    All3 (fun it ot p => PlanFor E uns it ot p) its ots cs → wtZip its ps = true →
    wfL its = true → hasOptL its = false → wfL ots = true → hasDynL ots = false →
    applyZip rec id cs (zipTys its ps) = .ok es' → es'.map (·.ty) = stripOptL ots
  | [], _, _, [], es', .nil, _, _, _, _, _, h => by
    simp [zipTys, applyZip] at h; subst h; simp [stripOptL]
  | [], _, _, _ :: _, _, _, hw, _, _, _, _, _ => by simp [wtZip] at hw
  | _ :: _, _, _, [], _, _, hw, _, _, _, _, _ => by simp [wtZip] at hw
  | it :: its, ot :: ots, c :: cs, p :: ps, es', .cons hp hps, hw, hwi, hoi, hwo, hdo, h => by
    simp only [wtZip, Bool.and_eq_true] at hw
    simp only [wfL, Bool.and_eq_true] at hwi hwo
    simp only [hasOptL, Bool.or_eq_false_iff] at hoi
    simp only [hasDynL, Bool.or_eq_false_iff] at hdo
    simp only [zipTys, applyZip] at h
    obtain ⟨v', hv', h⟩ := Res.bind_eq_ok h
    obtain ⟨vs', hvs', h⟩ := Res.bind_eq_ok h
    simp at h; subst h
    have hc : Conds it ot ⟨it, p⟩ := ⟨rfl, hwi.1, hwo.1, hoi.1, hdo.1, hw.1⟩
    have h1 := planFor_ty hrec hp hc hv'
    have ih := applyZip_zip hrec its ots cs ps vs' hps hw.2 hwi.2 hoi.2 hwo.2 hdo.2 hvs'
    simp [stripOptL, h1, ih]

/-! ### late unification is the identity when all element types already agree -/

theorem unifyElems_same {E : Env} (hU : UnifyLaws E) {rec : Rec} {uns : Bool} {T : Ty}
    (hw : wf T = true) (ho : hasOpt T = false) {vs : List Value} (hne : vs ≠ [])
    (h : ∀ v ∈ vs, v.ty = T) : unifyElems E rec uns vs = .ok vs := by
  unfold unifyElems Env.unifyG
  have hne' : (vs.map (·.ty)).isEmpty = false := by
    cases vs with
    | nil => exact absurd rfl hne
    | cons => rfl
  have hsame := hU.same uns T (vs.map (·.ty)) (by
      cases vs with
      | nil => exact absurd rfl hne
      | cons => simp) (by
      intro x hx
      obtain ⟨w, hw', rfl⟩ := List.mem_map.mp hx
      exact h w hw') hw ho
  simp only [hne', hsame]
  apply mapRes_id
  intro x hx
  simp [h x hx, equals_self hw]

/-! ### members of a set in iteration order are its members -/

theorem insertSorted_mem {lt : Payload → Payload → Bool} {x y : Payload} :
    ∀ {l : List Payload}, y ∈ insertSorted lt x l → y = x ∨ y ∈ l
  | [], h => by simp [insertSorted] at h; exact .inl h
  | z :: zs, h => by
    simp only [insertSorted] at h
    split at h
    · rcases List.mem_cons.mp h with rfl | h
      · exact .inl rfl
      · exact .inr h
    · rcases List.mem_cons.mp h with rfl | h
      · exact .inr (by simp)
      · rcases insertSorted_mem h with rfl | h
        · exact .inl rfl
        · exact .inr (by simp [h])

theorem foldl_insert_mem {lt : Payload → Payload → Bool} : ∀ (ps acc : List Payload) (y : Payload),
    y ∈ ps.foldl (fun acc x => insertSorted lt x acc) acc → y ∈ ps ∨ y ∈ acc
  | [], acc, y, h => .inr h
  | p :: ps, acc, y, h => by
    simp only [List.foldl] at h
    rcases foldl_insert_mem ps _ y h with h | h
    · exact .inl (by simp [h])
    · rcases insertSorted_mem h with rfl | h
      · exact .inl (by simp)
      · exact .inr h

theorem setValues_mem {E : Env} {e : Ty} {ps : List Payload} {y : Payload}
    (h : y ∈ setValues E e ps) : y ∈ ps := by
  rcases foldl_insert_mem ps [] y h with h | h
  · exact h
  · simp at h

/-! ### lookups in parallel lists with distinct keys -/

theorem lookupPlan_prefix : ∀ (pre : List String) (preC : List Plan) (k : String) (post : List String)
    (p : Plan) (postC : List Plan), pre.length = preC.length → k ∉ pre →
    lookupPlan k (pre ++ k :: post) (preC ++ p :: postC) = some p
  | [], [], k, post, p, postC, _, _ => by simp [lookupPlan]
  | [], _ :: _, _, _, _, _, h, _ => by simp at h
  | _ :: _, [], _, _, _, _, h, _ => by simp at h
  | a :: pre, b :: preC, k, post, p, postC, hl, hk => by
    have hak : a ≠ k := fun e => hk (by simp [e])
    simp only [List.cons_append, lookupPlan, hak, if_false]
    exact lookupPlan_prefix pre preC k post p postC (by simpa using hl) (fun h => hk (by simp [h]))

theorem all3_with_lookup {R : String → Ty → Plan → Prop} : ∀ (pre : List String) (preC : List Plan)
    (ns : List String) (its : List Ty) (cs : List Plan), pre.length = preC.length →
    (∀ x ∈ ns, x ∉ pre) → ns.Nodup → All3 R ns its cs →
    All3 (fun n it p => lookupPlan n (pre ++ ns) (preC ++ cs) = some p ∧ R n it p) ns its cs
  | _, _, [], _, _, _, _, _, .nil => .nil
  | pre, preC, n :: ns, it :: its, c :: cs, hl, hpre, hnd, .cons hr hrs => by
    have hnd' := List.nodup_cons.mp hnd
    refine .cons ⟨lookupPlan_prefix pre preC n ns c cs hl (hpre n (by simp)), hr⟩ ?_
    have := all3_with_lookup (R := R) (pre ++ [n]) (preC ++ [c]) ns its cs (by simp [hl])
      (by
        intro x hx hm
        rcases List.mem_append.mp hm with hm | hm
        · exact hpre x (by simp [hx]) hm
        · simp at hm; subst hm; exact hnd'.1 hx) hnd'.2 hrs
    simpa [List.append_assoc] using this

/-! ### conversionObjectToObject -/

theorem lookupVal_cons (n k : String) (v : Value) (ns : List String) (vs : List Value) :
    lookupVal k (n :: ns) (v :: vs) = if n = k then some v else lookupVal k ns vs := rfl

/-- what the attribute loop is given for the attribute `n : it` of the value -/
def AttrOK (E : Env) (uns : Bool) (on : List String) (ot : List Ty) (oo : List Bool)
    (keys : List String) (convs : List Plan) (n : String) (it : Ty) (p : Plan) : Prop :=
  lookupPlan n keys convs = some p ∧ AttrPlan E uns on ot oo n it p ∧ wf it = true ∧ hasOpt it = false ∧
  ∀ oty o, Ty.find n on ot oo = some (oty, o) → wf oty = true ∧ hasDyn oty = false

theorem objAttrLoop_spec {E : Env} {rec : Rec} (hrec : RecOK E rec) {uns : Bool} {on : List String}
    {ot : List Ty} {oo : List Bool} {keys : List String} {convs : List Plan} :
    ∀ (ns : List String) (its : List Ty) (cs : List Plan) (ps : List Payload) (r : List String × List Value),
    All3 (AttrOK E uns on ot oo keys convs) ns its cs → wtZip its ps = true →
    objAttrLoop rec keys convs ns (zipTys its ps) = .ok r →
    (∀ n v, lookupVal n r.1 r.2 = some v → ∀ oty o, Ty.find n on ot oo = some (oty, o) → v.ty = stripOpt oty) ∧
    (∀ n ∈ ns, (Ty.find n on ot oo).isSome = true → (lookupVal n r.1 r.2).isSome = true)
  | [], [], [], [], r, .nil, _, h => by
    simp [zipTys, objAttrLoop] at h; subst h; simp [lookupVal]
  | _ :: _, _ :: _, _ :: _, [], _, _, hw, _ => by simp [wtZip] at hw
  | n :: ns, it :: its, c :: cs, p :: ps, r, .cons hok hoks, hw, h => by
    simp only [wtZip, Bool.and_eq_true] at hw
    obtain ⟨hlk, hap, hwi, hoi, hout⟩ := hok
    simp only [zipTys, objAttrLoop, hlk] at h
    rcases hap with ⟨rfl, hfn⟩ | ⟨oty, o, hf, hpf⟩
    · -- no entry in attrConvs: the attribute is dropped
      simp only at h
      have ih := objAttrLoop_spec hrec ns its cs ps r hoks hw.2 h
      refine ⟨ih.1, ?_⟩
      intro n' hn' hs
      rcases List.mem_cons.mp hn' with rfl | hn'
      · simp [hfn] at hs
      · exact ih.2 n' hn' hs
    · have hc : Conds it oty ⟨it, p⟩ :=
        ⟨rfl, hwi, (hout oty o hf).1, hoi, (hout oty o hf).2, hw.1⟩
      have hstep : ∀ v', applyOpt rec c ⟨it, p⟩ = .ok v' → (stripNull v').ty = stripOpt oty :=
        fun v' hv' => stripNull_ty' (planFor_ty hrec hpf hc hv')
      have hnotabs : c ≠ .absent := by
        rcases hpf with ⟨rfl, _⟩ | ⟨c', rfl, _⟩ <;> simp
      have h' : ((applyOpt rec c ⟨it, p⟩).bind fun v' =>
          (objAttrLoop rec keys convs ns (zipTys its ps)).bind fun r' =>
            Res.ok (n :: r'.1, stripNull v' :: r'.2)) = .ok r := by
        rcases hpf with ⟨rfl, _⟩ | ⟨c', rfl, _⟩ <;> exact h
      obtain ⟨v', hv', h'⟩ := Res.bind_eq_ok h'
      obtain ⟨r', hr', h'⟩ := Res.bind_eq_ok h'
      simp at h'; subst h'
      have ih := objAttrLoop_spec hrec ns its cs ps r' hoks hw.2 hr'
      refine ⟨?_, ?_⟩
      · intro n' v hl oty' o' hf'
        simp only [lookupVal_cons] at hl
        split at hl
        · rename_i hnn
          subst hnn
          simp at hl; subst hl
          rw [hf] at hf'; simp at hf'; rw [← hf'.1]
          exact hstep v' hv'
        · exact ih.1 n' v hl oty' o' hf'
      · intro n' hn' hs
        simp only [lookupVal_cons]
        split
        · rfl
        · rename_i hnn
          rcases List.mem_cons.mp hn' with rfl | hn'
          · exact absurd rfl hnn
          · exact ih.2 n' hn' hs

/-- what the second loop needs of each attribute of the target object -/
def FillOK (names : List String) (vals : List Value) (on : List String) (ot : List Ty) (oo : List Bool) :
    List String → List Ty → List Bool → Prop
  | n :: ns, t :: ts, o :: os =>
    Ty.find n on ot oo = some (t, o) ∧ (o = true ∨ (lookupVal n names vals).isSome = true) ∧
    FillOK names vals on ot oo ns ts os
  | _, _, _ => True

theorem objFill_spec {names : List String} {vals : List Value} {on : List String} {ot : List Ty} {oo : List Bool}
    (ha : ∀ n v, lookupVal n names vals = some v → ∀ oty o, Ty.find n on ot oo = some (oty, o) →
      v.ty = stripOpt oty) :
    ∀ (ns : List String) (ts : List Ty) (os : List Bool), ns.length = ts.length → os.length = ts.length →
    FillOK names vals on ot oo ns ts os →
    (objFill names vals ns ts os).1 = ns ∧ (objFill names vals ns ts os).2.map (·.ty) = stripOptL ts
  | [], [], [], _, _, _ => by simp [objFill, stripOptL]
  | [], _ :: _, _, h, _, _ => by simp at h
  | _ :: _, [], _, h, _, _ => by simp at h
  | _, _ :: _, [], _, h, _ => by simp at h
  | _, [], _ :: _, _, h, _ => by simp at h
  | n :: ns, t :: ts, o :: os, h1, h2, hf => by
    obtain ⟨hfind, hreq, hrest⟩ := hf
    have ih := objFill_spec ha ns ts os (by simpa using h1) (by simpa using h2) hrest
    simp only [objFill]
    cases hl : lookupVal n names vals with
    | some v =>
      simp [ih.1, ih.2, stripOptL, ha n v hl t o hfind]
    | none =>
      rcases hreq with rfl | hs
      · simp [ih.1, ih.2, stripOptL, Value.null]
      · simp [hl] at hs

/-! ### conversionMapToObject -/

theorem find_lookupPlan {R : Ty → Plan → Prop} {k : String} {t : Ty} {o : Bool} :
    ∀ (names : List String) (ots : List Ty) (oos : List Bool) (cs : List Plan),
    All2 R ots cs → Ty.find k names ots oos = some (t, o) →
    ∃ p, lookupPlan k names cs = some p ∧ R t p
  | [], _, _, _, _, h => by simp [Ty.find] at h
  | _ :: _, [], _, _, _, h => by simp [Ty.find] at h
  | _ :: _, _ :: _, [], _, _, h => by simp [Ty.find] at h
  | n :: names, ot :: ots, oo :: oos, _, .cons hr hrs, h => by
    simp only [Ty.find] at h
    split at h
    · rename_i hnk
      simp at h
      refine ⟨_, by simp [lookupPlan, hnk], h.1 ▸ hr⟩
    · rename_i hnk
      obtain ⟨p, hp, hR⟩ := find_lookupPlan names ots oos _ hrs h
      exact ⟨p, by simp [lookupPlan, hnk, hp], hR⟩

theorem find_of_contains {k : String} : ∀ (names : List String) (ts : List Ty) (os : List Bool),
    names.length = ts.length → os.length = ts.length → names.contains k = true →
    (Ty.find k names ts os).isSome = true
  | [], _, _, _, _, h => by simp at h
  | _ :: _, [], _, h, _, _ => by simp at h
  | _ :: _, _ :: _, [], _, h, _ => by simp at h
  | n :: names, t :: ts, o :: os, h1, h2, h => by
    simp only [Ty.find]
    split
    · rfl
    · rename_i hnk
      have : names.contains k = true := by
        simp only [List.contains_cons, Bool.or_eq_true, beq_iff_eq] at h
        rcases h with h | h
        · exact absurd h.symm hnk
        · exact h
      exact find_of_contains names ts os (by simpa using h1) (by simpa using h2) this

theorem mapObjLoop_spec {E : Env} {rec : Rec} (hrec : RecOK E rec) {uns : Bool} {ie : Ty}
    {names : List String} {tys : List Ty} {opts : List Bool} {convs : List Plan}
    (hpl : All2 (fun ot p => MapObjPlan E uns ie ot p) tys convs)
    (hl1 : names.length = tys.length) (hl2 : opts.length = tys.length)
    (hwi : wf ie = true) (hoi : hasOpt ie = false)
    (hty : ∀ n t o, Ty.find n names tys opts = some (t, o) →
      wf t = true ∧ hasDyn t = false) :
    ∀ (ks : List String) (ps : List Payload) (r : List String × List Value), wtAll ie ps = true →
    mapObjLoop rec names tys opts convs ks (ps.map fun p => ⟨ie, p⟩) = .ok r →
    ∀ n v, lookupVal n r.1 r.2 = some v → ∀ t o, Ty.find n names tys opts = some (t, o) → v.ty = stripOpt t
  | [], _, r, _, h => by
    simp [mapObjLoop] at h; subst h; simp [lookupVal]
  | _ :: _, [], r, _, h => by
    simp [mapObjLoop] at h; subst h; simp [lookupVal]
  | k :: ks, p :: ps, r, hw, h => by
    simp only [wtAll, Bool.and_eq_true] at hw
    simp only [List.map_cons, mapObjLoop] at h
    split at h
    · exact mapObjLoop_spec hrec hpl hl1 hl2 hwi hoi hty ks ps r hw.2 h
    · rename_i hc
      have hc' : names.contains k = true := by simpa using hc
      have hsome := find_of_contains names tys opts hl1 hl2 hc'
      obtain ⟨⟨t, o⟩, hf⟩ := Option.isSome_iff_exists.mp hsome
      obtain ⟨pl, hlk, hmp⟩ := find_lookupPlan names tys opts convs hpl hf
      obtain ⟨hwt, hdt⟩ := hty k t o hf
      simp only [hlk] at h
      obtain ⟨v', hv', h⟩ := Res.bind_eq_ok h
      obtain ⟨r', hr', h⟩ := Res.bind_eq_ok h
      simp at h; subst h
      have ih := mapObjLoop_spec hrec hpl hl1 hl2 hwi hoi hty ks ps r' hw.2 hr'
      have hv'ty : v'.ty = stripOpt t := by
        rcases hmp with rfl | ⟨rfl, he⟩ | ⟨c, rfl, hg⟩
        · simp at hv'
        · simp at hv'; subst hv'
          have : t = ie := eq_of_equals hwt hwi he
          subst this
          simp [stripOpt_id_of_noOpt _ hoi]
        · simp at hv'
          exact hrec ie t uns c ⟨ie, p⟩ v' hg ⟨rfl, hwi, hwt, hoi, hdt, hw.1⟩ hv'
      intro n v hl t' o' hf'
      simp only [lookupVal_cons] at hl
      split at hl
      · rename_i hkn
        subst hkn
        simp at hl; subst hl
        rw [hf] at hf'; simp at hf'; rw [← hf'.1]
        exact stripNull_ty' hv'ty
      · exact ih n v hl t' o' hf'

theorem mapObjFill_spec {keys : List String} {vals : List Value} {names : List String} {tys : List Ty}
    {opts : List Bool}
    (ha : ∀ n v, lookupVal n keys vals = some v → ∀ t o, Ty.find n names tys opts = some (t, o) →
      v.ty = stripOpt t) :
    ∀ (ns : List String) (ts : List Ty) (os : List Bool) (out : List Value), ns.length = ts.length →
    os.length = ts.length → FieldsIn ns ts os names tys opts →
    mapObjFill keys vals ns ts os = .ok out → out.map (·.ty) = stripOptL ts
  | [], [], [], out, _, _, _, h => by simp [mapObjFill] at h; subst h; simp [stripOptL]
  | [], _ :: _, _, _, h, _, _, _ => by simp at h
  | _ :: _, [], _, _, h, _, _, _ => by simp at h
  | _, _ :: _, [], _, _, h, _, _ => by simp at h
  | _, [], _ :: _, _, _, h, _, _ => by simp at h
  | n :: ns, t :: ts, o :: os, out, h1, h2, hf, h => by
    simp only [FieldsIn] at hf
    simp only [mapObjFill] at h
    cases hl : lookupVal n keys vals with
    | some v =>
      simp only [hl] at h
      obtain ⟨rest, hrest, h⟩ := Res.map_eq_ok h
      subst h
      have ih := mapObjFill_spec ha ns ts os rest (by simpa using h1) (by simpa using h2) hf.2 hrest
      simp [stripOptL, ih, ha n v hl t o hf.1]
    | none =>
      simp only [hl] at h
      split at h
      · rename_i ho
        obtain ⟨rest, hrest, h⟩ := Res.map_eq_ok h
        subst h
        have ih := mapObjFill_spec ha ns ts os rest (by simpa using h1) (by simpa using h2) hf.2 hrest
        simp [stripOptL, ih, Value.null]
      · simp at h

theorem mapRes_length {α β} {f : α → Res β} : ∀ {xs : List α} {ys : List β},
    mapRes f xs = .ok ys → ys.length = xs.length := fun h => (mapRes_ok h).length.symm

theorem mapObjFill_length {keys : List String} {vals : List Value} :
    ∀ (ns : List String) (ts : List Ty) (os : List Bool) (out : List Value), ns.length = ts.length →
    os.length = ts.length → mapObjFill keys vals ns ts os = .ok out → out.length = ts.length
  | [], [], [], out, _, _, h => by simp [mapObjFill] at h; subst h; rfl
  | [], _ :: _, _, _, h, _, _ => by simp at h
  | _ :: _, [], _, _, h, _, _ => by simp at h
  | _, _ :: _, [], _, _, h, _ => by simp at h
  | _, [], _ :: _, _, _, h, _ => by simp at h
  | n :: ns, t :: ts, o :: os, out, h1, h2, h => by
    simp only [mapObjFill] at h
    split at h
    · obtain ⟨rest, hrest, h⟩ := Res.map_eq_ok h
      subst h
      simp [mapObjFill_length ns ts os rest (by simpa using h1) (by simpa using h2) hrest]
    · split at h
      · obtain ⟨rest, hrest, h⟩ := Res.map_eq_ok h
        subst h
        simp [mapObjFill_length ns ts os rest (by simpa using h1) (by simpa using h2) hrest]
      · simp at h

/-! ### alignment facts for object types -/

theorem find_mem_ty {k : String} : ∀ {ns : List String} {ts : List Ty} {os : List Bool} {t o},
    Ty.find k ns ts os = some (t, o) → t ∈ ts
  | [], _, _, _, _, h => by simp [Ty.find] at h
  | _ :: _, [], _, _, _, h => by simp [Ty.find] at h
  | _ :: _, _ :: _, [], _, _, h => by simp [Ty.find] at h
  | n :: ns, t :: ts, o :: os, t', o', h => by
    simp only [Ty.find] at h
    split at h
    · simp at h; simp [h.1]
    · exact List.mem_cons_of_mem _ (find_mem_ty h)

theorem find_prefix : ∀ (pre : List String) (preT : List Ty) (preB : List Bool) (k : String) (post : List String)
    (t : Ty) (postT : List Ty) (b : Bool) (postB : List Bool), pre.length = preT.length →
    preB.length = preT.length → k ∉ pre →
    Ty.find k (pre ++ k :: post) (preT ++ t :: postT) (preB ++ b :: postB) = some (t, b)
  | [], [], [], k, post, t, postT, b, postB, _, _, _ => by simp [Ty.find]
  | [], _ :: _, _, _, _, _, _, _, _, h, _, _ => by simp at h
  | _ :: _, [], _, _, _, _, _, _, _, h, _, _ => by simp at h
  | _, _ :: _, [], _, _, _, _, _, _, _, h, _ => by simp at h
  | _, [], _ :: _, _, _, _, _, _, _, _, h, _ => by simp at h
  | a :: pre, x :: preT, y :: preB, k, post, t, postT, b, postB, h1, h2, hk => by
    have hak : a ≠ k := fun e => hk (by simp [e])
    simp only [List.cons_append, Ty.find, hak, if_false]
    exact find_prefix pre preT preB k post t postT b postB (by simpa using h1) (by simpa using h2)
      (fun h => hk (by simp [h]))

theorem map_false_of_length {α β} {l : List α} {m : List β} (h : l.length = m.length) :
    l.map (fun _ => false) = m.map (fun _ => false) := by
  induction l generalizing m with
  | nil => cases m <;> simp at h ⊢
  | cons a l ih =>
    cases m with
    | nil => simp at h
    | cons b m => simp [ih (by simpa using h)]

/-! ### the closure bodies, one kind at a time -/

section Bodies
variable {E : Env} (hU : UnifyLaws E) {rec : Rec} (hrec : RecOK E rec)
include hU hrec

/-- the members a collection value yields all carry the collection's element type -/
def ElemsOK (E : Env) (v : Value) (ie : Ty) : Prop :=
  ∀ es, elemsOf E v = .ok es → ∀ e ∈ es, e.ty = ie ∧ wtP ie e.v = true

theorem converted_members {uns : Bool} {ie oe conv} {post : Value → Value}
    (hpost : ∀ v : Value, v.ty = stripOpt oe → (post v).ty = stripOpt oe)
    (hpf : PlanFor E uns ie oe conv) (hwi : wf ie = true) (hoi : hasOpt ie = false)
    (hwo : wf oe = true) (hdo : hasDyn oe = false)
    {es es' : List Value} (hes : ∀ e ∈ es, e.ty = ie ∧ wtP ie e.v = true)
    (h : mapRes (fun e => (applyOpt rec conv e).map post) es = .ok es') :
    es'.length = es.length ∧ ∀ e' ∈ es', e'.ty = stripOpt oe := by
  refine mapRes_forall (P := fun e => e.ty = ie ∧ wtP ie e.v = true) (Q := fun e' => e'.ty = stripOpt oe)
    ?_ es es' hes h
  intro a b ⟨hat, haw⟩ hb
  obtain ⟨b', hb', rfl⟩ := Res.map_eq_ok hb
  exact hpost _ (planFor_ty hrec hpf ⟨hat, hwi, hwo, hoi, hdo, haw⟩ hb')

theorem collToList_ty {uns : Bool} {ie oe conv} {v r : Value}
    (hpf : PlanFor E uns ie oe conv) (hwi : wf ie = true) (hoi : hasOpt ie = false)
    (hwo : wf oe = true) (hdo : hasDyn oe = false)
    (hel : ElemsOK E v ie) (h : applyStep E rec (.collToList oe conv) v = .ok r) :
    r.ty = .list oe.stripOpt := by
  have hnd : oe.isDyn = false := not_isDyn_of_noDyn hdo
  simp only [applyStep, hnd, hdo] at h
  split at h
  · simp at h; subst h; rfl
  · obtain ⟨es, hes, h⟩ := Res.bind_eq_ok h
    obtain ⟨es', hes', h⟩ := Res.bind_eq_ok h
    have hm := converted_members hU hrec (post := stripNull) (fun _ hv => stripNull_ty' hv)
      hpf hwi hoi hwo hdo (hel es hes) hes'
    split at h
    · simp at h; subst h; rfl
    · rename_i hne
      have hne' : es' ≠ [] := by simpa using hne
      have hT := wf_stripOpt oe hwo
      have hTd : (stripOpt oe).isDyn = false := not_isDyn_of_noDyn (by rw [stripOpt_hasDyn]; exact hdo)
      simp only [canCollVal_same hT hTd hne' hm.2] at h
      exact listVal_ty hT hTd hm.2 h

theorem collToSet_ty {uns : Bool} {ie oe conv} {v r : Value}
    (hpf : PlanFor E uns ie oe conv) (hwi : wf ie = true) (hoi : hasOpt ie = false)
    (hwo : wf oe = true) (hdo : hasDyn oe = false)
    (hel : ElemsOK E v ie) (h : applyStep E rec (.collToSet oe conv) v = .ok r) :
    r.ty = .set oe.stripOpt := by
  have hnd : oe.isDyn = false := not_isDyn_of_noDyn hdo
  simp only [applyStep, hnd, hdo] at h
  obtain ⟨es, hes, h⟩ := Res.bind_eq_ok h
  obtain ⟨es', hes', h⟩ := Res.bind_eq_ok h
  have hm := converted_members hU hrec (post := stripNull) (fun _ hv => stripNull_ty' hv)
    hpf hwi hoi hwo hdo (hel es hes) hes'
  split at h
  · simp at h; subst h; rfl
  · rename_i hne
    have hne' : es' ≠ [] := by simpa using hne
    have hT := wf_stripOpt oe hwo
    have hTd : (stripOpt oe).isDyn = false := not_isDyn_of_noDyn (by rw [stripOpt_hasDyn]; exact hdo)
    simp only [canCollVal_same hT hTd hne' hm.2] at h
    exact setVal_ty hT hTd hm.2 h

theorem collToMap_ty {uns : Bool} {ie oe conv} {v r : Value}
    (hpf : PlanFor E uns ie oe conv) (hwi : wf ie = true) (hoi : hasOpt ie = false)
    (hwo : wf oe = true) (hdo : hasDyn oe = false)
    (hel : ElemsOK E v ie) (h : applyStep E rec (.collToMap oe conv) v = .ok r) :
    r.ty = .map oe.stripOpt := by
  have hnd : oe.isDyn = false := not_isDyn_of_noDyn hdo
  simp only [applyStep, hnd, hdo] at h
  obtain ⟨es, hes, h⟩ := Res.bind_eq_ok h
  obtain ⟨es', hes', h⟩ := Res.bind_eq_ok h
  have hes'' : mapRes (fun e => (applyOpt rec conv e).map id) es = .ok es' := by
    have : (fun e => (applyOpt rec conv e).map id) = fun e => applyOpt rec conv e := by
      funext e; cases applyOpt rec conv e <;> rfl
    rw [this]; exact hes'
  have hm := converted_members hU hrec (post := id) (fun _ hv => hv)
    hpf hwi hoi hwo hdo (hel es hes) hes''
  split at h
  · simp at h; subst h; rfl
  · rename_i hne
    have hne' : es' ≠ [] := by simpa using hne
    have hT := wf_stripOpt oe hwo
    have hTo := stripOpt_noOpt oe
    have hTd : (stripOpt oe).isDyn = false := not_isDyn_of_noDyn (by rw [stripOpt_hasDyn]; exact hdo)
    have hun : (if isCollOrObj oe = true then unifyElems E rec false es' else Res.ok es') = .ok es' := by
      split
      · exact unifyElems_same hU hT hTo hne' hm.2
      · rfl
    rw [hun] at h
    simp only [Res.bind, canCollVal_same hT hTd hne' hm.2] at h
    exact mapVal_ty hT hTd hm.2 h

theorem tupToList_ty {uns : Bool} {its : List Ty} {oe : Ty} {cs : List Plan} {ps : List Payload} {r : Value}
    (hpl : All2 (fun it p => PlanFor E uns it oe p) its cs) (hne : its ≠ []) (hw : wtZip its ps = true)
    (hall : ∀ it ∈ its, wf it = true ∧ hasOpt it = false)
    (hwo : wf oe = true) (hdo : hasDyn oe = false)
    (h : applyStep E rec (.tupToList cs uns) ⟨.tuple its, .seq ps⟩ = .ok r) : r.ty = .list oe.stripOpt := by
  simp only [applyStep, elemsOf] at h
  obtain ⟨es, hes, h⟩ := Res.bind_eq_ok h
  simp at hes; subst hes
  obtain ⟨es', hes', h⟩ := Res.bind_eq_ok h
  have hm := applyZip_all hrec id (fun _ hv => hv) hwo hdo its cs ps es' hpl hw hall hes'
  have hne' : es' ≠ [] := by
    intro he; rw [he] at hm
    have h0 := hm.1
    simp at h0
    exact hne (List.length_eq_zero_iff.mp h0.symm)
  have hT := wf_stripOpt oe hwo
  have hTd : (stripOpt oe).isDyn = false := not_isDyn_of_noDyn (by rw [stripOpt_hasDyn]; exact hdo)
  rw [unifyElems_same hU hT (stripOpt_noOpt oe) hne' hm.2] at h
  simp only [Res.bind, canCollVal_same hT hTd hne' hm.2] at h
  exact listVal_ty hT hTd hm.2 h

theorem tupToSet_ty {uns : Bool} {its : List Ty} {oe : Ty} {cs : List Plan} {ps : List Payload} {r : Value}
    (hpl : All2 (fun it p => PlanFor E uns it oe p) its cs) (hne : its ≠ []) (hw : wtZip its ps = true)
    (hall : ∀ it ∈ its, wf it = true ∧ hasOpt it = false)
    (hwo : wf oe = true) (hdo : hasDyn oe = false)
    (h : applyStep E rec (.tupToSet cs) ⟨.tuple its, .seq ps⟩ = .ok r) : r.ty = .set oe.stripOpt := by
  simp only [applyStep, elemsOf] at h
  obtain ⟨es, hes, h⟩ := Res.bind_eq_ok h
  simp at hes; subst hes
  obtain ⟨es', hes', h⟩ := Res.bind_eq_ok h
  have hm := applyZip_all hrec stripNull (fun _ hv => stripNull_ty' hv) hwo hdo its cs ps es' hpl hw hall hes'
  have hne' : es' ≠ [] := by
    intro he; rw [he] at hm
    have h0 := hm.1
    simp at h0
    exact hne (List.length_eq_zero_iff.mp h0.symm)
  have hT := wf_stripOpt oe hwo
  have hTd : (stripOpt oe).isDyn = false := not_isDyn_of_noDyn (by rw [stripOpt_hasDyn]; exact hdo)
  simp only [canCollVal_same hT hTd hne' hm.2] at h
  exact setVal_ty hT hTd hm.2 h

omit hU hrec in
theorem lookup_map_self : ∀ (pre : List String) (preC : List Plan) (ns : List String) (cs : List Plan),
    pre.length = preC.length → ns.length = cs.length → (∀ x ∈ ns, x ∉ pre) → ns.Nodup →
    ns.map (fun k => (lookupPlan k (pre ++ ns) (preC ++ cs)).getD .nil) = cs
  | _, _, [], [], _, _, _, _ => rfl
  | _, _, [], _ :: _, _, h, _, _ => by simp at h
  | _, _, _ :: _, [], _, h, _, _ => by simp at h
  | pre, preC, n :: ns, c :: cs, hl, hl2, hpre, hnd => by
    have hnd' := List.nodup_cons.mp hnd
    simp only [List.map_cons, lookupPlan_prefix pre preC n ns c cs hl (hpre n (by simp)), Option.getD_some]
    congr 1
    have := lookup_map_self (pre ++ [n]) (preC ++ [c]) ns cs (by simp [hl]) (by simpa using hl2)
      (by
        intro x hx hm
        rcases List.mem_append.mp hm with hm | hm
        · exact hpre x (by simp [hx]) hm
        · simp at hm; subst hm; exact hnd'.1 hx) hnd'.2
    simpa [List.append_assoc] using this

theorem objToMap_ty {uns : Bool} {inn : List String} {its : List Ty} {ios : List Bool} {oe : Ty}
    {cs : List Plan} {ps : List Payload} {r : Value}
    (hpl : All2 (fun it p => PlanFor E uns it oe p) its cs) (hne : its ≠ []) (hw : wtZip its ps = true)
    (hnd : inn.Nodup) (hln : inn.length = its.length)
    (hall : ∀ it ∈ its, wf it = true ∧ hasOpt it = false)
    (hwo : wf oe = true) (hdo : hasDyn oe = false)
    (h : applyStep E rec (.objToMap inn cs oe uns) ⟨.object inn its ios, .smap inn ps⟩ = .ok r) :
    r.ty = .map oe.stripOpt := by
  simp only [applyStep, elemsOf, keysOf] at h
  obtain ⟨es, hes, h⟩ := Res.bind_eq_ok h
  simp at hes; subst hes
  have hlc : inn.length = cs.length := by rw [hln]; exact hpl.length
  have hself := lookup_map_self [] [] inn cs rfl hlc (by simp) hnd
  simp only [List.nil_append] at hself
  rw [hself] at h
  obtain ⟨es', hes', h⟩ := Res.bind_eq_ok h
  have hm := applyZip_all hrec id (fun _ hv => hv) hwo hdo its cs ps es' hpl hw hall hes'
  have hne' : es' ≠ [] := by
    intro he; rw [he] at hm
    have h0 := hm.1
    simp at h0
    exact hne (List.length_eq_zero_iff.mp h0.symm)
  have hT := wf_stripOpt oe hwo
  have hTd : (stripOpt oe).isDyn = false := not_isDyn_of_noDyn (by rw [stripOpt_hasDyn]; exact hdo)
  have hun : (if isCollOrObj oe = true then unifyElems E rec uns es' else Res.ok es') = .ok es' := by
    split
    · exact unifyElems_same hU hT (stripOpt_noOpt oe) hne' hm.2
    · rfl
  rw [hun] at h
  simp only [Res.bind, canCollVal_same hT hTd hne' hm.2] at h
  exact mapVal_ty hT hTd hm.2 h

omit hU in
theorem tupToTup_ty {uns : Bool} {its ots : List Ty} {cs : List Plan} {ps : List Payload} {r : Value}
    (hpl : All3 (fun it ot p => PlanFor E uns it ot p) its ots cs) (hw : wtZip its ps = true)
    (hwi : wfL its = true) (hoi : hasOptL its = false) (hwo : wfL ots = true) (hdo : hasDynL ots = false)
    (h : applyStep E rec (.tupToTup cs) ⟨.tuple its, .seq ps⟩ = .ok r) : r.ty = .tuple (stripOptL ots) := by
  simp only [applyStep, elemsOf] at h
  obtain ⟨es, hes, h⟩ := Res.bind_eq_ok h
  simp at hes; subst hes
  obtain ⟨es', hes', h⟩ := Res.bind_eq_ok h
  simp at h; subst h
  simp [tupleVal, applyZip_zip hrec its ots cs ps es' hpl hw hwi hoi hwo hdo hes']

omit hU hrec in
theorem attrOK_build {uns : Bool} {on : List String} {ot : List Ty} {oo : List Bool} :
    ∀ (pre : List String) (preC : List Plan) (preT : List Ty) (preB : List Bool)
      (ns : List String) (its : List Ty) (ios : List Bool) (cs : List Plan),
    pre.length = preC.length → pre.length = preT.length → preB.length = preT.length →
    ios.length = its.length → (∀ x ∈ ns, x ∉ pre) → ns.Nodup →
    All3 (AttrPlan E uns on ot oo) ns its cs →
    (∀ n it b, Ty.find n (pre ++ ns) (preT ++ its) (preB ++ ios) = some (it, b) →
      wf it = true ∧ hasOpt it = false ∧ ∀ oty o, Ty.find n on ot oo = some (oty, o) →
        wf oty = true ∧ hasDyn oty = false) →
    All3 (AttrOK E uns on ot oo (pre ++ ns) (preC ++ cs)) ns its cs
  | _, _, _, _, [], _, _, _, _, _, _, _, _, _, .nil, _ => .nil
  | _, _, _, _, _ :: _, _ :: _, [], _, _, _, _, h, _, _, _, _ => by simp at h
  | pre, preC, preT, preB, n :: ns, it :: its, io :: ios, c :: cs, h1, h2, h3, h4, hpre, hnd, .cons hr hrs, hf => by
    have hnd' := List.nodup_cons.mp hnd
    have hfind := find_prefix pre preT preB n ns it its io ios h2 h3 (hpre n (by simp))
    obtain ⟨hw, ho, hrest⟩ := hf n it io hfind
    refine .cons ⟨lookupPlan_prefix pre preC n ns c cs h1 (hpre n (by simp)), hr, hw, ho, hrest⟩ ?_
    have := attrOK_build (pre ++ [n]) (preC ++ [c]) (preT ++ [it]) (preB ++ [io]) ns its ios cs
      (by simp [h1]) (by simp [h2]) (by simp [h3]) (by simpa using h4)
      (by
        intro x hx hm
        rcases List.mem_append.mp hm with hm | hm
        · exact hpre x (by simp [hx]) hm
        · simp at hm; subst hm; exact hnd'.1 hx) hnd'.2 hrs
      (by simpa [List.append_assoc] using hf)
    simpa [List.append_assoc] using this

omit hU hrec in
theorem fillOK_build {names : List String} {vals : List Value} {on : List String} {ot : List Ty} {oo : List Bool}
    {inn : List String}
    (hb : ∀ n ∈ inn, (Ty.find n on ot oo).isSome = true → (lookupVal n names vals).isSome = true) :
    ∀ (ns : List String) (ts : List Ty) (os : List Bool), FieldsIn ns ts os on ot oo →
    requiredPresent ns os inn = true → FillOK names vals on ot oo ns ts os
  | [], _, _, _, _ => by simp [FillOK]
  | _ :: _, [], _, _, _ => by simp [FillOK]
  | _ :: _, _ :: _, [], _, _ => by simp [FillOK]
  | n :: ns, t :: ts, o :: os, hf, hreq => by
    simp only [FieldsIn] at hf
    simp only [requiredPresent, Bool.and_eq_true, Bool.or_eq_true] at hreq
    refine ⟨hf.1, ?_, fillOK_build hb ns ts os hf.2 hreq.2⟩
    rcases hreq.1 with h | h
    · exact .inl h
    · exact .inr (hb n (by simpa using h) (by simp [hf.1]))

theorem objToObj_ty {uns : Bool} {inn : List String} {its : List Ty} {ios : List Bool} {on : List String}
    {ot : List Ty} {oo : List Bool} {cs : List Plan} {ps : List Payload} {r : Value}
    (hpl : All3 (AttrPlan E uns on ot oo) inn its cs) (hw : wtZip its ps = true)
    (hwfI : wf (.object inn its ios) = true) (hoI : hasOpt (.object inn its ios) = false)
    (hwfO : wf (.object on ot oo) = true) (hdO : hasDyn (.object on ot oo) = false)
    (hreq : requiredPresent on oo inn = true)
    (h : applyStep E rec (.objToObj inn cs on ot oo) ⟨.object inn its ios, .smap inn ps⟩ = .ok r) :
    r.ty = .object on (stripOptL ot) (oo.map fun _ => false) := by
  simp only [wf, Bool.and_eq_true, beq_iff_eq] at hwfI hwfO
  simp only [hasOpt, Bool.or_eq_false_iff] at hoI
  simp only [hasDyn] at hdO
  simp only [applyStep, elemsOf, keysOf] at h
  obtain ⟨es, hes, h⟩ := Res.bind_eq_ok h
  simp at hes; subst hes
  obtain ⟨rr, hrr, h⟩ := Res.bind_eq_ok h
  simp at h; subst h
  have hndI := strictAsc_nodup hwfI.1.2
  have hok := attrOK_build (E := E) (uns := uns) (on := on) (ot := ot) (oo := oo) [] [] [] [] inn its ios cs
    rfl rfl rfl hwfI.1.1.2 (by simp) hndI hpl (by
      intro n it b hf
      simp only [List.nil_append] at hf
      refine ⟨wfL_mem hwfI.2 it (find_mem_ty hf), hasOptL_mem hoI.2 it (find_mem_ty hf), ?_⟩
      intro oty o hfo
      exact ⟨wfL_mem hwfO.2 oty (find_mem_ty hfo), hasDynL_mem hdO oty (find_mem_ty hfo)⟩)
  simp only [List.nil_append] at hok
  have hspec := objAttrLoop_spec hrec inn its cs ps rr hok hw hrr
  have hfill := fillOK_build (names := rr.1) (vals := rr.2) hspec.2 on ot oo (FieldsIn_self hwfO.1.2) hreq
  have hres := objFill_spec hspec.1 on ot oo hwfO.1.1.1 hwfO.1.1.2 hfill
  have hlen : (objFill rr.1 rr.2 on ot oo).2.length = oo.length := by
    have := congrArg List.length hres.2
    simp [stripOptL_length] at this
    rw [this, hwfO.1.1.2]
  simp only [objectVal, hres.1, hres.2, map_false_of_length hlen]

theorem mapToObj_ty {uns : Bool} {ie : Ty} {on : List String} {ot : List Ty} {oo : List Bool}
    {cs : List Plan} {ks : List String} {ps : List Payload} {r : Value}
    (hpl : All2 (fun t p => MapObjPlan E uns ie t p) ot cs) (hw : wtAll ie ps = true)
    (hwi : wf ie = true) (hoi : hasOpt ie = false)
    (hwfO : wf (.object on ot oo) = true) (hdO : hasDyn (.object on ot oo) = false)
    (h : applyStep E rec (.mapToObj on ot oo cs) ⟨.map ie, .smap ks ps⟩ = .ok r) :
    r.ty = .object on (stripOptL ot) (oo.map fun _ => false) := by
  simp only [wf, Bool.and_eq_true, beq_iff_eq] at hwfO
  simp only [hasDyn] at hdO
  simp only [applyStep, elemsOf, keysOf] at h
  obtain ⟨es, hes, h⟩ := Res.bind_eq_ok h
  simp at hes; subst hes
  obtain ⟨rr, hrr, h⟩ := Res.bind_eq_ok h
  obtain ⟨vals, hvals, h⟩ := Res.bind_eq_ok h
  simp at h; subst h
  have hspec := mapObjLoop_spec hrec hpl hwfO.1.1.1 hwfO.1.1.2 hwi hoi (by
      intro n t o hf
      exact ⟨wfL_mem hwfO.2 t (find_mem_ty hf), hasDynL_mem hdO t (find_mem_ty hf)⟩)
    ks ps rr hw hrr
  have htys := mapObjFill_spec hspec on ot oo vals hwfO.1.1.1 hwfO.1.1.2 (FieldsIn_self hwfO.1.2) hvals
  have hlen : vals.length = oo.length := by
    rw [mapObjFill_length on ot oo vals hwfO.1.1.1 hwfO.1.1.2 hvals, hwfO.1.1.2]
  simp only [objectVal, htys, map_false_of_length hlen]

end Bodies

/-! ### primitive conversions -/

theorem numToStr_ty {E : Env} {rec : Rec} {v r : Value} (h : applyStep E rec .numToStr v = .ok r) :
    r.ty = .string := by
  simp only [applyStep] at h
  split at h <;> simp at h
  subst h; rfl

theorem boolToStr_ty {E : Env} {rec : Rec} {v r : Value} (h : applyStep E rec .boolToStr v = .ok r) :
    r.ty = .string := by
  simp only [applyStep] at h
  split at h <;> simp at h
  subst h; rfl

theorem strToNum_ty {E : Env} {rec : Rec} {v r : Value} (h : applyStep E rec .strToNum v = .ok r) :
    r.ty = .number := by
  simp only [applyStep] at h
  split at h
  · obtain ⟨x, _, hx⟩ := Res.map_eq_ok h
    subst hx; rfl
  · simp at h

theorem strToBool_ty {E : Env} {rec : Rec} {v r : Value} (h : applyStep E rec .strToBool v = .ok r) :
    r.ty = .bool := by
  simp only [applyStep] at h
  split at h
  · split at h
    · simp at h; subst h; rfl
    · split at h
      · simp at h; subst h; rfl
      · simp at h
  · simp at h

/-! ### every closure body -/

theorem inner_ty {E : Env} (hU : UnifyLaws E) {rec : Rec} (hrec : RecOK E rec)
    (inT out : Ty) (uns : Bool) (c : Plan) (v r : Value) (hg : gck E inT out uns = some c)
    (hc : Conds inT out v) (hp : plain v.v) (h : applyStep E rec c v = .ok r) :
    r.ty = out.stripOpt := by
  obtain ⟨hty, hwI, hwO, hoI, hdO, hwt⟩ := hc
  obtain ⟨vt, vp⟩ := v
  simp only at hty hwt hp
  subst hty
  have hid : vt.isDyn = false := by
    cases vt <;> simp [Ty.isDyn]
    exact (shape_prim_dyn hp hwt).elim
  cases out with
  | dyn => simp [hasDyn] at hdO
  | bool =>
    cases vt <;> simp [gck, Ty.isDyn, isPrim, primSafe, primUnsafe] at hg hid
    all_goals (obtain ⟨_, rfl⟩ := hg; simp [stripOpt, strToBool_ty h])
  | number =>
    cases vt <;> simp [gck, Ty.isDyn, isPrim, primSafe, primUnsafe] at hg hid
    all_goals (obtain ⟨_, rfl⟩ := hg; simp [stripOpt, strToNum_ty h])
  | string =>
    cases vt <;> simp [gck, Ty.isDyn, isPrim, primSafe, primUnsafe] at hg hid
    · subst hg; simp [stripOpt, boolToStr_ty h]
    · subst hg; simp [stripOpt, numToStr_ty h]
  | capsule i =>
    cases vt <;> simp [gck, Ty.isDyn, isPrim, primSafe, primUnsafe] at hg hid
  | list oe =>
    have hwo : wf oe = true := by simpa [wf] using hwO
    have hdo : hasDyn oe = false := by simpa [hasDyn] using hdO
    cases vt <;> simp [gck, Ty.isDyn, isPrim] at hg hid
    case list ie =>
      have hwi : wf ie = true := by simpa [wf] using hwI
      have hoi : hasOpt ie = false := by simpa [hasOpt] using hoI
      obtain ⟨ps, rfl, hps⟩ := shape_list hp hwt
      have hel : ElemsOK E ⟨.list ie, .seq ps⟩ ie := by
        intro es hes e he
        simp [elemsOf] at hes; subst hes
        obtain ⟨p, hpm, rfl⟩ := List.mem_map.mp he
        exact ⟨rfl, wtAll_mem hps p hpm⟩
      have hpf : ∃ conv, c = .collToList oe conv ∧ PlanFor E uns ie oe conv := by
        split at hg
        · rename_i he; simp at hg; exact ⟨.nil, hg.symm, .inl ⟨rfl, he⟩⟩
        · obtain ⟨c', hc', rfl⟩ := Option.map_eq_some_iff.mp hg
          exact ⟨_, rfl, .inr ⟨c', rfl, hc'⟩⟩
      obtain ⟨conv, rfl, hpf⟩ := hpf
      simp [stripOpt, collToList_ty hU hrec hpf hwi hoi hwo hdo hel h]
    case set ie =>
      have hwi : wf ie = true := by simpa [wf] using hwI
      have hoi : hasOpt ie = false := by simpa [hasOpt] using hoI
      obtain ⟨ids, ps, rfl, hps⟩ := shape_set hp hwt
      have hel : ElemsOK E ⟨.set ie, .sset ids ps⟩ ie := by
        intro es hes e he
        simp [elemsOf] at hes; subst hes
        obtain ⟨p, hpm, rfl⟩ := List.mem_map.mp he
        exact ⟨rfl, wtAll_mem hps p (setValues_mem hpm)⟩
      have hpf : ∃ conv, c = .collToList oe conv ∧ PlanFor E uns ie oe conv := by
        split at hg
        · rename_i he; simp at hg; exact ⟨.nil, hg.symm, .inl ⟨rfl, he⟩⟩
        · obtain ⟨c', hc', rfl⟩ := Option.map_eq_some_iff.mp hg
          exact ⟨_, rfl, .inr ⟨c', rfl, hc'⟩⟩
      obtain ⟨conv, rfl, hpf⟩ := hpf
      simp [stripOpt, collToList_ty hU hrec hpf hwi hoi hwo hdo hel h]
    case tuple its =>
      have hwi : wfL its = true := by simpa [wf] using hwI
      have hoi : hasOptL its = false := by simpa [hasOpt] using hoI
      obtain ⟨ps, rfl, hps⟩ := shape_tuple hp hwt
      split at hg
      · simp at hg; subst hg
        simp only [applyStep] at h
        simp at h; subst h; simp [stripOpt]
      · rename_i hne
        have hnd : oe.isDyn = false := not_isDyn_of_noDyn hdo
        simp only [seqTargetEty, hnd] at hg
        obtain ⟨cs, hcs, rfl⟩ := Option.map_eq_some_iff.mp hg
        have hpl := gcAll_inv E uns oe hcs
        simp [stripOpt, tupToList_ty hU hrec hpl hne hps
          (fun it hit => ⟨wfL_mem hwi it hit, hasOptL_mem hoi it hit⟩) hwo hdo h]
  | set oe =>
    have hwo : wf oe = true := by simpa [wf] using hwO
    have hdo : hasDyn oe = false := by simpa [hasDyn] using hdO
    cases vt <;> simp [gck, Ty.isDyn, isPrim] at hg hid
    case list ie =>
      have hwi : wf ie = true := by simpa [wf] using hwI
      have hoi : hasOpt ie = false := by simpa [hasOpt] using hoI
      obtain ⟨ps, rfl, hps⟩ := shape_list hp hwt
      have hel : ElemsOK E ⟨.list ie, .seq ps⟩ ie := by
        intro es hes e he
        simp [elemsOf] at hes; subst hes
        obtain ⟨p, hpm, rfl⟩ := List.mem_map.mp he
        exact ⟨rfl, wtAll_mem hps p hpm⟩
      have hpf : ∃ conv, c = .collToSet oe conv ∧ PlanFor E uns ie oe conv := by
        obtain ⟨_, hg⟩ := hg
        split at hg
        · rename_i he; simp at hg; exact ⟨.nil, hg.symm, .inl ⟨rfl, he⟩⟩
        · obtain ⟨c', hc', rfl⟩ := Option.map_eq_some_iff.mp hg
          exact ⟨_, rfl, .inr ⟨c', rfl, hc'⟩⟩
      obtain ⟨conv, rfl, hpf⟩ := hpf
      simp [stripOpt, collToSet_ty hU hrec hpf hwi hoi hwo hdo hel h]
    case set ie =>
      have hwi : wf ie = true := by simpa [wf] using hwI
      have hoi : hasOpt ie = false := by simpa [hasOpt] using hoI
      obtain ⟨ids, ps, rfl, hps⟩ := shape_set hp hwt
      have hel : ElemsOK E ⟨.set ie, .sset ids ps⟩ ie := by
        intro es hes e he
        simp [elemsOf] at hes; subst hes
        obtain ⟨p, hpm, rfl⟩ := List.mem_map.mp he
        exact ⟨rfl, wtAll_mem hps p (setValues_mem hpm)⟩
      have hpf : ∃ conv, c = .collToSet oe conv ∧ PlanFor E uns ie oe conv := by
        split at hg
        · rename_i he; simp at hg; exact ⟨.nil, hg.symm, .inl ⟨rfl, he⟩⟩
        · obtain ⟨c', hc', rfl⟩ := Option.map_eq_some_iff.mp hg
          exact ⟨_, rfl, .inr ⟨c', rfl, hc'⟩⟩
      obtain ⟨conv, rfl, hpf⟩ := hpf
      simp [stripOpt, collToSet_ty hU hrec hpf hwi hoi hwo hdo hel h]
    case tuple its =>
      have hwi : wfL its = true := by simpa [wf] using hwI
      have hoi : hasOptL its = false := by simpa [hasOpt] using hoI
      obtain ⟨ps, rfl, hps⟩ := shape_tuple hp hwt
      split at hg
      · simp at hg; subst hg
        simp only [applyStep] at h
        simp at h; subst h; simp [stripOpt]
      · rename_i hne
        have hnd : oe.isDyn = false := not_isDyn_of_noDyn hdo
        simp only [seqTargetEty, hnd] at hg
        obtain ⟨cs, hcs, rfl⟩ := Option.map_eq_some_iff.mp hg
        have hpl := gcAll_inv E uns oe hcs
        simp [stripOpt, tupToSet_ty hU hrec hpl hne hps
          (fun it hit => ⟨wfL_mem hwi it hit, hasOptL_mem hoi it hit⟩) hwo hdo h]
  | map oe =>
    have hwo : wf oe = true := by simpa [wf] using hwO
    have hdo : hasDyn oe = false := by simpa [hasDyn] using hdO
    cases vt <;> simp [gck, Ty.isDyn, isPrim] at hg hid
    case map ie =>
      have hwi : wf ie = true := by simpa [wf] using hwI
      have hoi : hasOpt ie = false := by simpa [hasOpt] using hoI
      obtain ⟨ks, ps, rfl, _, hps⟩ := shape_map hp hwt
      have hel : ElemsOK E ⟨.map ie, .smap ks ps⟩ ie := by
        intro es hes e he
        simp [elemsOf] at hes; subst hes
        obtain ⟨p, hpm, rfl⟩ := List.mem_map.mp he
        exact ⟨rfl, wtAll_mem hps p hpm⟩
      obtain ⟨c', hc', rfl⟩ := hg
      simp [stripOpt, collToMap_ty hU hrec (.inr ⟨c', rfl, hc'⟩) hwi hoi hwo hdo hel h]
    case object inn its ios =>
      have hwi : wfL its = true := by
        simp only [wf, Bool.and_eq_true] at hwI; exact hwI.2
      have hoi : hasOptL its = false := by
        simp only [hasOpt, Bool.or_eq_false_iff] at hoI; exact hoI.2
      obtain ⟨ps, rfl, hps⟩ := shape_object hp hwt
      split at hg
      · simp at hg; subst hg
        simp only [applyStep] at h
        simp at h; subst h; simp [stripOpt]
      · rename_i hne
        have hnd : oe.isDyn = false := not_isDyn_of_noDyn hdo
        simp only [mapTargetEty, hnd] at hg
        obtain ⟨cs, hcs, rfl⟩ := Option.map_eq_some_iff.mp hg
        have hpl := gcAll_inv E uns oe hcs
        simp only [wf, Bool.and_eq_true, beq_iff_eq] at hwI
        simp [stripOpt, objToMap_ty hU hrec hpl hne hps (strictAsc_nodup hwI.1.2) hwI.1.1.1
          (fun it hit => ⟨wfL_mem hwi it hit, hasOptL_mem hoi it hit⟩) hwo hdo h]
  | tuple ots =>
    cases vt <;> simp [gck, Ty.isDyn, isPrim] at hg hid
    case tuple its =>
      obtain ⟨hlen, cs, hcs, rfl⟩ := hg
      obtain ⟨ps, rfl, hps⟩ := shape_tuple hp hwt
      have hpl := gcZip_inv E uns hlen hcs
      simp [stripOpt, tupToTup_ty hrec hpl hps (by simpa [wf] using hwI) (by simpa [hasOpt] using hoI)
        (by simpa [wf] using hwO) (by simpa [hasDyn] using hdO) h]
  | object on ot oo =>
    cases vt <;> simp [gck, Ty.isDyn, isPrim] at hg hid
    case map ie =>
      obtain ⟨_, cs, hcs, rfl⟩ := hg
      obtain ⟨ks, ps, rfl, _, hps⟩ := shape_map hp hwt
      have hwO' := hwO
      simp only [wf, Bool.and_eq_true, beq_iff_eq] at hwO'
      have hpl := mapToObjConvs_inv E uns ie (hwO'.1.1.2.symm) hcs
      simp [stripOpt, mapToObj_ty hU hrec hpl hps (by simpa [wf] using hwI) (by simpa [hasOpt] using hoI)
        hwO hdO h]
    case object inn its ios =>
      obtain ⟨hreq, cs, hcs, rfl⟩ := hg
      obtain ⟨ps, rfl, hps⟩ := shape_object hp hwt
      have hwI' := hwI
      simp only [wf, Bool.and_eq_true, beq_iff_eq] at hwI'
      have hpl := gcObj_inv E uns on ot oo hwI'.1.1.1 hcs
      simp [stripOpt, objToObj_ty hU hrec hpl hps hwI hoI hwO hdO hreq h]

/-! ### the wrapper, and every fuel -/

theorem unmark_wt {t : Ty} {p : Payload} (hm : p.isMarked = true) (h : wtP t p = true) :
    wtP t p.unmark1 = true := by
  cases p <;> simp [Payload.isMarked] at hm
  simp [wtP] at h
  simpa [Payload.unmark1] using h.2

theorem recOK_apply {E : Env} (hU : UnifyLaws E) : ∀ n, RecOK E (apply E n) := by
  intro n
  induction n using Nat.strongRecOn with
  | _ n ih =>
    intro inT out uns c v r hg hc h
    cases n with
    | zero => simp [apply] at h
    | succ n =>
      have hnd : out.isDyn = false := not_isDyn_of_noDyn hc.dynO
      simp only [apply, applyStep] at h
      split at h
      · -- marked: convert the unmarked value, re-apply the marks
        rename_i hm
        split at h
        · rename_i r0 hr0
          simp at h; subst h
          have hc' : Conds inT out v.unmark :=
            ⟨hc.ty, hc.wfI, hc.wfO, hc.optI, hc.dynO, unmark_wt hm hc.wt⟩
          exact ih n (Nat.lt_succ_self n) inT out uns c v.unmark r0 hg hc' hr0
        · rename_i hno
          exact absurd h (by
            intro hh
            exact hno r hh)
      · rename_i hm
        simp only [hnd, Bool.false_eq_true, if_false] at h
        split at h
        · -- unknown or null: the type comes from dynamicReplace
          have hrepl := dynRepl_id E inT out hc.dynO hc.wfO
          rw [hc.ty, hrepl] at h
          simp only at h
          split at h
          · obtain ⟨rng, _, h⟩ := Res.bind_eq_ok h
            exact prepareUnknownResult_ty h
          · simp at h; subst h; rfl
        · rename_i hkn
          have hk : v.isKnown = true ∧ v.isNull = false := by
            simp only [Bool.or_eq_true, Bool.not_eq_true', not_or, Bool.not_eq_false,
              Bool.not_eq_true] at hkn
            exact hkn
          cases n with
          | zero => simp [apply] at h
          | succ m =>
            simp only [apply] at h
            have hm' : v.v.isMarked = false := by
              have : v.isMarked = false := by simpa using hm
              exact this
            exact inner_ty hU (ih m (by omega)) inT out uns c v r hg hc ⟨hm', hk.1, hk.2⟩ h

end Convert
end CtyModel
