/-
C06 lemmas, part 5b: `SetVal` returns a well-formed set — no marker inside a
member, members in bucket order, and (when the set rules are lawful on the
members) no two equivalent members.
-/
import CtyModel.Lemmas.WFAccess
import CtyModel.Lemmas.WFSetInv
set_option linter.unusedSimpArgs false
set_option linter.unusedVariables false
namespace CtyModel

theorem idsAsc_iff : ∀ (l : List Int), idsAsc l = true ↔ l.Pairwise (· ≤ ·)
  | [] => by simp [idsAsc]
  | [a] => by simp [idsAsc]
  | a :: b :: rest => by
    simp only [idsAsc, Bool.and_eq_true, decide_eq_true_eq, idsAsc_iff (b :: rest), List.pairwise_cons]
    constructor
    · rintro ⟨hab, hb, hr⟩
      refine ⟨?_, hb, hr⟩
      intro x hx
      rcases List.mem_cons.mp hx with rfl | hx
      · exact hab
      · exact Int.le_trans hab (hb x hx)
    · rintro ⟨ha, hb, hr⟩
      exact ⟨ha b (by simp), hb, hr⟩

theorem noDup_iff (e : Ty) : ∀ (ps : List Payload), noDup e ps = true ↔ ps.Pairwise (fun a b => equivP e a b = false)
  | [] => by simp [noDup]
  | x :: xs => by
    simp only [noDup, Bool.and_eq_true, List.all_eq_true, Bool.not_eq_true', List.pairwise_cons, noDup_iff e xs]

namespace Payload
variable {nfc : String → Bool}

theorem unionMarks_eq_nil {a b : List String} (h : unionMarks a b = []) : a = [] ∧ b = [] := by
  have := unionMarks_isEmpty a b
  rw [h] at this
  simp only [List.isEmpty_nil, Bool.true_eq, Bool.and_eq_true, List.isEmpty_iff] at this
  exact this

mutual
theorem clean_of_noMarks : ∀ (t : Ty) (p : Payload), wfP nfc t p = true → marksDeep p = [] → containsMarked p = false
  | t, .marked ms r, h, hm => by
    simp only [wfP_marked, Bool.and_eq_true, Bool.not_eq_true', List.isEmpty_eq_false_iff] at h
    simp only [marksDeep] at hm
    exact absurd (unionMarks_eq_nil hm).1 h.1.1
  | t, .seq vs, h, hm => by
    simp only [marksDeep] at hm
    cases t <;> simp [wfP] at h
    · simp only [containsMarked]; exact cleanAll_of_noMarks _ vs h hm
    · simp only [containsMarked]; exact cleanZip_of_noMarks _ vs h.1 h.2 hm
  | t, .smap ks vs, h, hm => by
    simp only [marksDeep] at hm
    cases t <;> simp [wfP] at h
    · simp only [containsMarked]; exact cleanAll_of_noMarks _ vs h.2 hm
    · simp only [containsMarked]; exact cleanZip_of_noMarks _ vs h.1.2 h.2 hm
  | t, .sset ids vs, h, hm => by
    cases t <;> simp [wfP] at h
    simp only [containsMarked]; exact h.1.1.2
  | _, .null, _, _ | _, .unk _, _, _ | _, .b _, _, _ | _, .n _, _, _ | _, .s _, _, _ | _, .caps, _, _
  | _, .bad _, _, _ => by simp [containsMarked]
theorem cleanAll_of_noMarks : ∀ (e : Ty) (vs : List Payload), wfAll nfc e vs = true → marksDeepL vs = [] →
    containsMarkedL vs = false
  | _, [], _, _ => rfl
  | e, v :: vs, h, hm => by
    simp only [wfAll, Bool.and_eq_true] at h
    simp only [marksDeepL] at hm
    have := unionMarks_eq_nil hm
    simp [containsMarkedL, clean_of_noMarks e v h.1 this.1, cleanAll_of_noMarks e vs h.2 this.2]
theorem cleanZip_of_noMarks : ∀ (ts : List Ty) (vs : List Payload), ts.length = vs.length → wfZip nfc ts vs = true →
    marksDeepL vs = [] → containsMarkedL vs = false
  | _, [], _, _, _ => rfl
  | [], _ :: _, hl, _, _ => by simp at hl
  | t :: ts, v :: vs, hl, h, hm => by
    simp only [wfZip, Bool.and_eq_true] at h
    simp only [marksDeepL] at hm
    have := unionMarks_eq_nil hm
    simp [containsMarkedL, clean_of_noMarks t v h.1 this.1,
      cleanZip_of_noMarks ts vs (by simpa using hl) h.2 this.2]
end
end Payload

namespace Value
variable {nfc : String → Bool}

theorem flatIds_length : ∀ (bs : List (Int × List (Payload × Int))),
    (flatIds bs).length = ((SetImpl.values ⟨bs⟩).map (·.1)).length
  | [] => rfl
  | kv :: bs => by
    have := flatIds_length bs
    simp only [flatIds, SetImpl.values, List.flatMap_cons, List.length_append, List.length_map] at this ⊢
    omega

theorem idsAsc_flatIds {bs : List (Int × List (Payload × Int))} (h : SetImpl.Asc bs) : idsAsc (flatIds bs) = true := by
  rw [idsAsc_iff]
  simp only [flatIds, List.pairwise_flatMap]
  refine ⟨?_, ?_⟩
  · intro kv _
    simp [List.pairwise_map]
    exact List.Pairwise.imp (fun _ => trivial) (List.pairwise_of_forall (R := fun _ _ => True) (fun _ _ => trivial))
  · refine List.Pairwise.imp ?_ h
    intro p q hlt x hx y hy
    simp only [List.mem_map] at hx hy
    obtain ⟨_, _, rfl⟩ := hx
    obtain ⟨_, _, rfl⟩ := hy
    exact Int.le_of_lt hlt

/-- the decidable side condition of `wf_setVal_partial`: on the members, `Equivalent` is symmetric and
equivalent members were hashed alike (what `cty/set/rules.go` asks of a `Rules` implementation) -/
def setRulesOk (et : Ty) (l : List (Payload × Int)) : Bool :=
  l.all fun a => l.all fun b => (equivP et a.1 b.1 == equivP et b.1 a.1) && (!equivP et a.1 b.1 || a.2 == b.2)

theorem setRulesOk_spec {et : Ty} {l : List (Payload × Int)} (h : setRulesOk et l = true) :
    (∀ a ∈ l, ∀ b ∈ l, (setRules et).equiv a b = false → (setRules et).equiv b a = false) ∧
    (∀ a ∈ l, ∀ b ∈ l, (setRules et).equiv a b = true → (setRules et).hash a = (setRules et).hash b) := by
  simp only [setRulesOk, List.all_eq_true, Bool.and_eq_true, beq_iff_eq, Bool.or_eq_true, Bool.not_eq_true'] at h
  constructor
  · intro a ha b hb hab
    simp only [setRules] at hab ⊢
    rw [← (h a ha b hb).1]; exact hab
  · intro a ha b hb hab
    simp only [setRules] at hab ⊢
    rcases (h a ha b hb).2 with h' | h'
    · rw [hab] at h'; cases h'
    · exact h'

theorem mem_payloads {ws : List Value} {p : Payload} (h : p ∈ Gocty.payloads ws) : ∃ w ∈ ws, w.v = p := by
  induction ws with
  | nil => simp [Gocty.payloads] at h
  | cons w ws ih =>
    simp only [Gocty.payloads, List.mem_cons] at h
    rcases h with rfl | h
    · exact ⟨w, by simp, rfl⟩
    · obtain ⟨x, hx, hp⟩ := ih h
      exact ⟨x, by simp [hx], hp⟩

theorem wf_setMember {w : Value} (h : w.WF nfc = true) :
    (setMember w).WF nfc = true ∧ (setMember w).v.containsMarked = false := by
  unfold setMember
  split
  · exact ⟨wf_unmarkDeep h, Payload.stripMarks_clean _⟩
  · rename_i hm
    refine ⟨h, ?_⟩
    simp only [WF, Bool.and_eq_true] at h
    refine Payload.clean_of_noMarks _ _ h.2 ?_
    simp only [marksDeep] at hm
    cases hd : w.v.marksDeep with
    | nil => rfl
    | cons _ _ => rw [hd] at hm; simp at hm

theorem wf_withMarkSets {v : Value} (mss : List (List String)) (h : v.WF nfc = true) :
    (Fn.withMarkSets v mss).WF nfc = true := by
  unfold Fn.withMarkSets
  split
  · exact h
  · exact wf_withMarks _ h

/-- `SetVal`, whenever it returns, given well-formed members on which the set rules are lawful. -/
theorem wf_setVal_partial {ws : List Value} {hs : List Int} {r : Value} (h : setValH ws hs = .ok r)
    (hws : ∀ w ∈ ws, w.WF nfc = true)
    (hok : ∀ et, Gocty.elemTypeOf .dyn (ws.map setMember) = .ok et →
      setRulesOk et ((Gocty.payloads (ws.map setMember)).zip hs) = true) : r.WF nfc = true := by
  unfold setValH at h
  split at h
  · cases h
  · simp only at h
    split at h <;> try cases h
    rename_i et he
    split at h
    · cases h
    · simp only [Res.ok.injEq] at h
      subst h
      apply wf_withMarkSets
      have hus : ∀ u ∈ ws.map setMember, u.WF nfc = true := by
        intro u hu
        obtain ⟨w, hw, rfl⟩ := List.mem_map.mp hu
        exact (wf_setMember (hws w hw)).1
      obtain ⟨hetok, _, hmem⟩ := elemTypeOf_spec (ws.map setMember) .dyn et he rfl hus
      have ⟨hsym, hcoh⟩ := setRulesOk_spec (hok et he)
      have hJ := SetImpl.J_fromList (R := setRules et) hsym
      have hin := SetImpl.J_inequiv hcoh hJ
      -- every stored member is the payload of an unmarked, well-formed member
      have hval : ∀ m ∈ SetImpl.values (SetImpl.fromList (setRules et) ((Gocty.payloads (ws.map setMember)).zip hs)),
          Payload.wfP nfc et m.1 = true ∧ m.1.containsMarked = false := by
        intro m hm
        have hml := SetImpl.J_mem_values hJ hm
        have hp : m.1 ∈ Gocty.payloads (ws.map setMember) := (List.of_mem_zip hml).1
        obtain ⟨u, hu, hup⟩ := mem_payloads hp
        obtain ⟨w, hw, rfl⟩ := List.mem_map.mp hu
        exact ⟨hup ▸ hmem _ hu, hup ▸ (wf_setMember (hws w hw)).2⟩
      generalize SetImpl.fromList (setRules et) ((Gocty.payloads (ws.map setMember)).zip hs) = s at hJ hin hval
      simp only [WF, Ty.ok_set, hetok, Payload.wfP, Bool.and_eq_true, Bool.true_and, beq_iff_eq, Bool.not_eq_true']
      refine ⟨⟨⟨⟨flatIds_length s.buckets, idsAsc_flatIds hJ.asc⟩, ?_⟩, ?_⟩, ?_⟩
      · -- no marker at any depth
        have : ∀ (l : List (Payload × Int)), (∀ m ∈ l, m.1.containsMarked = false) →
            Payload.containsMarkedL (l.map (·.1)) = false := by
          intro l hl
          induction l with
          | nil => rfl
          | cons x xs ih =>
            simp [Payload.containsMarkedL, hl x (by simp), ih fun m hm => hl m (by simp [hm])]
        exact this _ fun m hm => (hval m hm).2
      · -- no two equivalent members
        rw [noDup_iff, List.pairwise_map]
        exact hin
      · have : ∀ (l : List (Payload × Int)), (∀ m ∈ l, Payload.wfP nfc et m.1 = true) →
            Payload.wfAll nfc et (l.map (·.1)) = true := by
          intro l hl
          induction l with
          | nil => rfl
          | cons x xs ih =>
            simp [Payload.wfAll, hl x (by simp), ih fun m hm => hl m (by simp [hm])]
        exact this _ fun m hm => (hval m hm).1
end Value
end CtyModel
