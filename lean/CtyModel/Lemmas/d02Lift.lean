/-
C02: the `Value` methods on wholly known numbers are the `Num` operations
(lifting lemmas), the six comparison methods against `Num.cmp`, and the uniform
"wrong operand type ⇒ rejected" lemmas for the type-checked operations.
-/
import CtyModel.Lemmas.OpsEquals
import CtyModel.Lemmas.ValEqNum
namespace CtyModel
namespace D02
open Num Value NumCmp

/-! ### known numbers: the method is the number-level operation -/

theorem res_bind_pure {α β} (r : Res α) (f : α → β) : (r >>= fun x => pure (f x)) = r.map f := by
  cases r <;> rfl

theorem add_num (x y : Num) : Value.add (numVal x) (numVal y) = (Num.add x y).map numVal := by
  simp only [Value.add, binMarks, Value.isMarked, Payload.isMarked, numVal, addU, typeCheck, typeCheckAux,
    Ty.equals, Ty.isDyn, Value.isUnk, asNum, Bool.or_self, Bool.false_eq_true, if_false, Bool.not_true,
    Res.bind_ok]
  exact res_bind_pure _ _

theorem sub_num (x y : Num) : Value.sub (numVal x) (numVal y) = (Num.sub x y).map numVal := by
  simp only [Value.sub, binMarks, Value.isMarked, Payload.isMarked, numVal, subU, typeCheck, typeCheckAux,
    Ty.equals, Ty.isDyn, Value.isUnk, asNum, Bool.or_self, Bool.false_eq_true, if_false, Bool.not_true,
    Res.bind_ok]
  exact res_bind_pure _ _

theorem mul_num (x y : Num) : Value.mul (numVal x) (numVal y) = (Num.mulCty x y).map numVal := by
  simp only [Value.mul, binMarks, Value.isMarked, Payload.isMarked, numVal, mulU, typeCheck, typeCheckAux,
    Ty.equals, Ty.isDyn, Value.isUnk, asNum, Bool.or_self, Bool.false_eq_true, if_false, Bool.not_true,
    Res.bind_ok]
  exact res_bind_pure _ _

theorem div_num (x y : Num) : Value.div (numVal x) (numVal y) = (Num.quo x y).map numVal := by
  simp only [Value.div, binMarks, Value.isMarked, Payload.isMarked, numVal, divU, typeCheck, typeCheckAux,
    Ty.equals, Ty.isDyn, Value.isUnk, asNum, Bool.or_self, Bool.false_eq_true, if_false, Bool.not_true,
    Res.bind_ok]
  exact res_bind_pure _ _

theorem neg_num (x : Num) : Value.neg (numVal x) = .ok (numVal (Num.neg x)) := by
  simp [Value.neg, unMarks, Value.isMarked, Payload.isMarked, numVal, negU, typeCheck, typeCheckAux,
    Ty.equals, Ty.isDyn, Value.isUnk, asNum]

theorem abs_num (x : Num) : Value.abs (numVal x) = .ok (numVal (Num.abs x)) := by
  simp [Value.abs, unMarks, Value.isMarked, Payload.isMarked, numVal, absU, typeCheck, typeCheckAux,
    Ty.equals, Ty.isDyn, Value.isUnk, asNum]

/-! ### the six comparison methods -/

theorem lt_num (x y : Num) : Value.lessThan (numVal x) (numVal y) = .ok (boolVal (decide (Num.cmp x y < 0))) := by
  simp [Value.lessThan, binMarks, Value.isMarked, Payload.isMarked, numVal, lessThanU, typeCheck, typeCheckAux,
    Ty.equals, Ty.isDyn, Value.isUnk, asNum]
theorem gt_num (x y : Num) : Value.greaterThan (numVal x) (numVal y) = .ok (boolVal (decide (Num.cmp x y > 0))) := by
  simp [Value.greaterThan, binMarks, Value.isMarked, Payload.isMarked, numVal, greaterThanU, typeCheck, typeCheckAux,
    Ty.equals, Ty.isDyn, Value.isUnk, asNum]
theorem eq_num (x y : Num) : Value.equals (numVal x) (numVal y) = .ok (boolVal (Num.rawEqual x y)) := by
  simp [Value.equals, Value.containsMarked, Payload.containsMarked, numVal, equalsP, Payload.depth, equalsFuel,
    equalsPre, Value.isNull, Payload.isNull, Payload.unmark1, definitelyNotNull, Value.isKnown, Payload.isKnown,
    hasWhollyKnownType, Ty.equals]
theorem or_bool (a b : Bool) : Value.or (boolVal a) (boolVal b) = .ok (boolVal (a || b)) := by
  cases a <;> cases b <;> rfl

theorem le_num (x y : Num) : Value.lessThanOrEqualTo (numVal x) (numVal y) =
    .ok (boolVal (decide (Num.cmp x y < 0) || Num.rawEqual x y)) := by
  simp only [lessThanOrEqualTo, lt_num, eq_num, Res.bind_ok, or_bool]

theorem ge_num (x y : Num) : Value.greaterThanOrEqualTo (numVal x) (numVal y) =
    .ok (boolVal (decide (Num.cmp x y > 0) || Num.rawEqual x y)) := by
  simp only [greaterThanOrEqualTo, gt_num, eq_num, Res.bind_ok, or_bool]

theorem not_bool (a : Bool) : Value.not (boolVal a) = .ok (boolVal (!a)) := by cases a <;> rfl

theorem ne_num (x y : Num) : Value.notEqual (numVal x) (numVal y) = .ok (boolVal (!Num.rawEqual x y)) := by
  simp only [notEqual, eq_num, Res.bind_ok, not_bool]

/-- the decidable side condition under which `==` (and so `≤ ≥ !=`) is exact:
text equality (`rawNumberEqual`) answers true whenever the values are equal -/
def EqExact (x y : Num) : Bool := Num.rawEqual x y == (Num.cmp x y == 0)

theorem eqExact_of_isInt {x y : Num} (hx : x.isInt = true) (hy : y.isInt = true) : EqExact x y = true := by
  simp [EqExact, isInt_coh hx hy]

theorem eqExact_self (x : Num) : EqExact x x = true := by
  simp [EqExact, Num.rawEq_refl, cmp_self]

theorem le_num_exact {x y : Num} (h : EqExact x y = true) :
    Value.lessThanOrEqualTo (numVal x) (numVal y) = .ok (boolVal (decide (Num.cmp x y ≤ 0))) := by
  rw [le_num]
  simp only [EqExact, beq_iff_eq] at h
  rw [h]
  congr 2
  rcases cmp_range x y with hc | hc | hc <;> simp [hc]

theorem ge_num_exact {x y : Num} (h : EqExact x y = true) :
    Value.greaterThanOrEqualTo (numVal x) (numVal y) = .ok (boolVal (decide (Num.cmp x y ≥ 0))) := by
  rw [ge_num]
  simp only [EqExact, beq_iff_eq] at h
  rw [h]
  congr 2
  rcases cmp_range x y with hc | hc | hc <;> simp [hc]

theorem eq_num_exact {x y : Num} (h : EqExact x y = true) :
    Value.equals (numVal x) (numVal y) = .ok (boolVal (decide (Num.cmp x y = 0))) := by
  rw [eq_num]
  simp only [EqExact, beq_iff_eq] at h
  rw [h]
  rcases cmp_range x y with hc | hc | hc <;> simp [hc]

theorem ne_num_exact {x y : Num} (h : EqExact x y = true) :
    Value.notEqual (numVal x) (numVal y) = .ok (boolVal (decide (Num.cmp x y ≠ 0))) := by
  rw [ne_num]
  simp only [EqExact, beq_iff_eq] at h
  rw [h]
  congr 2
  rcases cmp_range x y with hc | hc | hc <;> simp [hc]

end D02
end CtyModel
