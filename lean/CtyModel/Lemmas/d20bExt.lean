/-
C20 (d20b) — frame lemmas for the entry points of `CtyModel/HeapD20b.lean`: each of
them extends the heap it finds and writes in place only objects it allocated itself
(`Ext W m0 _` for EVERY write set `W`, the empty one included).
-/
import CtyModel.HeapD20b
import CtyModel.Lemmas.HeapPres
namespace CtyModel
namespace Heap

/-- the empty write set -/
def NoW : Addr → Prop := fun _ => False

theorem ext_prefix {m0 m : Mem} (h : Ext NoW m0 m) : m0 <+: m := by
  have ht : m.take m0.length = m0 := by
    apply List.ext_getElem?
    intro i
    by_cases hi : i < m0.length
    · rw [List.getElem?_take_of_lt hi]; exact h.2 i hi (fun f => f)
    · have hi' : m0.length ≤ i := Nat.le_of_not_lt hi
      rw [List.getElem?_eq_none (by simp; omega), List.getElem?_eq_none hi']
  have := List.take_prefix m0.length m
  rwa [ht] at this

theorem ext_noW_preserves {m0 m : Mem} (h : Ext NoW m0 m) : Preserves m0 m :=
  h.preserves fun _ hx => hx.elim

theorem Ext.trans' {W : Addr → Prop} {m0 m1 m2 : Mem} (h1 : Ext W m0 m1) (h2 : Ext W m1 m2) : Ext W m0 m2 :=
  ⟨Nat.le_trans h1.1 h2.1, fun a ha hn => by
    rw [h2.2 a (Nat.lt_of_lt_of_le ha h1.1) hn, h1.2 a ha hn]⟩

theorem sliceW_null {W : Addr → Prop} {m0 : Mem} : SliceW W m0 .null := by
  intro arr off len cap e; cases e

/-- `append(s, xs...)` -/
theorem pres_goAppendMany {W : Addr → Prop} {m0 m m' : Mem} (h : Ext W m0 m) {own : Owner} {s s' : Word}
    {xs : List Word} (hs : SliceW W m0 s) (he : goAppendMany m own s xs = some (m', s')) :
    Ext W m0 m' ∧ SliceW W m0 s' := by
  unfold goAppendMany at he
  split at he
  · cases he; exact ⟨h, hs⟩
  · cases s with
    | null =>
      simp only at he
      cases he
      refine ⟨pres_alloc h _ _, ?_⟩
      intro arr off len cap e
      cases e
      exact .inr h.1
    | slice arr off len cap =>
      simp only at he
      cases hc : cellsOf m arr with
      | none => simp [hc] at he
      | some cells =>
        simp only [hc] at he
        split at he
        · cases he
          refine ⟨pres_setBody h _ (hs arr off len cap rfl), ?_⟩
          intro arr' off' len' cap' e
          cases e
          exact hs arr off len cap rfl
        · cases he
          refine ⟨pres_alloc h _ _, ?_⟩
          intro arr' off' len' cap' e
          cases e
          exact .inr h.1
    | _ => simp at he

theorem pres_appendBuckets {W : Addr → Prop} {m0 : Mem} {own : Owner} :
    ∀ (l : List (Key × Word)) (m m' : Mem) (ret ret' : Word), Ext W m0 m → SliceW W m0 ret →
      appendBuckets own m ret l = some (m', ret') → Ext W m0 m' ∧ SliceW W m0 ret' := by
  intro l
  induction l with
  | nil =>
    intro m m' ret ret' h hs he
    simp only [appendBuckets, Option.some.injEq, Prod.mk.injEq] at he
    obtain ⟨e1, e2⟩ := he
    subst e1; subst e2
    exact ⟨h, hs⟩
  | cons kv r ih =>
    intro m m' ret ret' h hs he
    rcases kv with ⟨k, b⟩
    simp only [appendBuckets] at he
    cases hx : sliceElems m b with
    | none => simp [hx] at he
    | some xs =>
      simp only [hx] at he
      cases ha : goAppendMany m own ret xs with
      | none => simp [ha] at he
      | some p =>
        rcases p with ⟨m1, ret1⟩
        simp only [ha] at he
        obtain ⟨h1, hs1⟩ := pres_goAppendMany h hs ha
        exact ih m1 m' ret1 ret' h1 hs1 he

theorem pres_sortSlice {W : Addr → Prop} {m0 m m' : Mem} (h : Ext W m0 m) {ret ret' : Word} {perm : List Nat}
    (hs : SliceW W m0 ret) (he : sortSlice m ret perm = some (m', ret')) :
    Ext W m0 m' ∧ SliceW W m0 ret' := by
  unfold sortSlice at he
  cases ret with
  | null =>
    simp only at he
    split at he
    · cases he; exact ⟨h, hs⟩
    · cases he
  | slice arr off len cap =>
    simp only at he
    cases hc : cellsOf m arr with
    | none => simp [hc] at he
    | some cells =>
      simp only [hc] at he
      cases hp : applyPerm (window cells off len) perm with
      | none => simp [hp] at he
      | some ys =>
        simp only [hp, Option.some.injEq, Prod.mk.injEq] at he
        obtain ⟨e1, e2⟩ := he
        subst e1; subst e2
        exact ⟨pres_setBody h _ (hs arr off len cap rfl), hs⟩
  | _ => simp at he

/-- **`Set[T].Values()` writes nothing that existed**: whatever the write set `W`
allowed to the caller of `Values`, the heap after it extends the heap before it, and
the slice it returns is over an array allocated by this very call. -/
theorem pres_setValuesGo {W : Addr → Prop} {m0 m m' : Mem} (h : Ext W m0 m) {own : Owner} {a : Addr}
    {ordered : Bool} {perm : List Nat} {r : Word}
    (he : setValuesGo m own a ordered perm = some (m', r)) :
    Ext W m0 m' ∧ SliceW W m0 r := by
  unfold setValuesGo at he
  cases hk : kvsOf m a with
  | none => simp [hk] at he
  | some kvs =>
    simp only [hk] at he
    cases hb : appendBuckets own m .null kvs with
    | none => simp [hb] at he
    | some p =>
      rcases p with ⟨m1, ret⟩
      simp only [hb] at he
      obtain ⟨h1, hs1⟩ := pres_appendBuckets kvs m m1 .null ret h sliceW_null hb
      split at he
      · exact pres_sortSlice h1 hs1 he
      · cases he; exact ⟨h1, hs1⟩

/-- the slice `Values()` returns is fresh: over an array at an address the heap did not have -/
theorem setValuesGo_fresh {m m' : Mem} {own : Owner} {a : Addr} {ordered : Bool} {perm : List Nat} {r : Word}
    (he : setValuesGo m own a ordered perm = some (m', r)) :
    ∀ arr off len cap, r = .slice arr off len cap → m.length ≤ arr := by
  intro arr off len cap e
  rcases (pres_setValuesGo (W := NoW) (Ext.refl NoW m) he).2 arr off len cap e with hw | hw
  · exact hw.elim
  · exact hw

theorem pres_collectValues {W : Addr → Prop} {st st' : St} {a : Addr} {ordered : Bool} {perm : List Nat}
    {wrap : Word → Word} (he : collectValues st a ordered perm wrap = some st') :
    Ext W st.mem st'.mem := by
  unfold collectValues at he
  cases hm : setMembers st.mem a with
  | none => simp [hm] at he
  | some xs =>
    simp only [hm] at he
    split at he
    · cases he; exact Ext.refl W _
    · simp only [alloc] at he
      cases hv : setValuesGo (st.mem ++ [⟨Owner.caller, Body.array (List.replicate xs.length Word.null)⟩]) .caller a ordered perm with
      | none => simp [hv] at he
      | some p =>
        rcases p with ⟨m1, vals⟩
        simp only [hv] at he
        cases hy : sliceElems m1 vals with
        | none => simp [hy] at he
        | some ys =>
          simp only [hy, Option.some.injEq] at he
          subst he
          have h0 : Ext W st.mem (alloc st.mem .caller (.array (List.replicate xs.length Word.null))).1 :=
            pres_alloc (Ext.refl W _) _ _
          have h1 := (pres_setValuesGo h0 hv).1
          exact pres_setBody h1 _ (.inr (Nat.le_refl _))

theorem pres_unifyGo {W : Addr → Prop} {m m' : Mem} {types ty : Word}
    (he : unifyTuplesAsListGo m types = some (m', ty)) : Ext W m m' := by
  unfold unifyTuplesAsListGo at he
  cases hc : sliceElems m types with
  | none => simp [hc] at he
  | some cells =>
    simp only [hc] at he
    cases hf : unifyFragment m cells with
    | none => simp [hf] at he
    | some p =>
      simp only [hf, alloc, Option.some.injEq, Prod.mk.injEq] at he
      obtain ⟨e1, _⟩ := he
      subst e1
      have h1 : Ext W m (alloc m .caller (.array (cells.filter isTupleTy))).1 := pres_alloc (Ext.refl W _) _ _
      have h2 := pres_alloc h1 .caller (.array cells)
      refine pres_setBody h2 _ (.inr ?_)
      simp

/-! ### `UnmarkDeepWithPaths` -/

/-- a recorded `PathValueMarks` entry is made of objects the heap `m0` did not have -/
def FreshPV (n : Nat) (e : Word × Word) : Prop :=
  (∃ pa off len cap, e.1 = .slice pa off len cap ∧ n ≤ pa) ∧ ∃ mk, e.2 = .marks mk ∧ n ≤ mk

/-- what a (sub)transform guarantees relative to the heap `m0` the call started from -/
def UDGood (W : Addr → Prop) (m0 : Mem) (r : UDRes) : Prop :=
  Ext W m0 r.1 ∧ ∀ e ∈ r.2.2, FreshPV m0.length e

theorem udEnter_good {W : Addr → Prop} {m0 m : Mem} (h : Ext W m0 m) (path : List Word) (p : Word) :
    UDGood W m0 (udEnter m path p) := by
  unfold udEnter
  cases p with
  | marked ms r =>
    simp only [alloc]
    split
    · exact ⟨pres_alloc h _ _, fun e he => by cases he⟩
    · refine ⟨pres_alloc (pres_alloc h _ _) _ _, fun e he => ?_⟩
      simp only [List.mem_singleton] at he
      subst he
      refine ⟨⟨_, _, _, _, rfl, ?_⟩, _, rfl, h.1⟩
      simp only [List.length_append, List.length_singleton]
      exact Nat.le_succ_of_le h.1
  | _ => exact ⟨h, fun e he => by cases he⟩

theorem udSeq_good {W : Addr → Prop} {m0 : Mem}
    {rec : Mem → List Word → Word → Word → Option UDRes}
    (hrec : ∀ m path t x r, Ext W m0 m → rec m path t x = some r → UDGood W m0 r) (path : List Word) :
    ∀ (l : List (Word × Word)) (m : Mem) (i : Nat) (m' : Mem) (xs' : List Word) (pvs : List (Word × Word)),
      Ext W m0 m → udSeq rec path m i l = some (m', xs', pvs) →
      Ext W m0 m' ∧ ∀ e ∈ pvs, FreshPV m0.length e := by
  intro l
  induction l with
  | nil =>
    intro m i m' xs' pvs h he
    simp only [udSeq, Option.some.injEq, Prod.mk.injEq] at he
    obtain ⟨e1, _, e3⟩ := he
    subst e1; subst e3
    exact ⟨h, fun e he => by cases he⟩
  | cons tx r ih =>
    intro m i m' xs' pvs h he
    rcases tx with ⟨t, x⟩
    simp only [udSeq, alloc] at he
    cases h1 : rec (m ++ [⟨Owner.lib, Body.bigfloat i⟩]) (path ++ [.pair tNumber (.num m.length)]) t x with
    | none => simp [h1] at he
    | some r1 =>
      rcases r1 with ⟨m2, x', pv⟩
      simp only [h1] at he
      have g1 := hrec _ _ _ _ _ (pres_alloc h .lib (.bigfloat i)) h1
      cases h2 : udSeq rec path m2 (i + 1) r with
      | none => simp [h2] at he
      | some r2 =>
        rcases r2 with ⟨m3, xs2, pvs2⟩
        simp only [h2, Option.some.injEq, Prod.mk.injEq] at he
        obtain ⟨e1, _, e3⟩ := he
        subst e1; subst e3
        obtain ⟨g2, g3⟩ := ih m2 (i + 1) m3 xs2 pvs2 g1.1 h2
        refine ⟨g2, fun e he => ?_⟩
        rcases List.mem_append.mp he with he | he
        · exact g1.2 e he
        · exact g3 e he

theorem udKV_good {W : Addr → Prop} {m0 : Mem}
    {rec : Mem → List Word → Word → Word → Option UDRes}
    (hrec : ∀ m path t x r, Ext W m0 m → rec m path t x = some r → UDGood W m0 r) (path : List Word) (attr : Bool) :
    ∀ (l : List (Key × Word × Word)) (m : Mem) (m' : Mem) (xs' : List (Key × Word)) (pvs : List (Word × Word)),
      Ext W m0 m → udKV rec path attr m l = some (m', xs', pvs) →
      Ext W m0 m' ∧ ∀ e ∈ pvs, FreshPV m0.length e := by
  intro l
  induction l with
  | nil =>
    intro m m' xs' pvs h he
    simp only [udKV, Option.some.injEq, Prod.mk.injEq] at he
    obtain ⟨e1, _, e3⟩ := he
    subst e1; subst e3
    exact ⟨h, fun e he => by cases he⟩
  | cons ktx r ih =>
    intro m m' xs' pvs h he
    rcases ktx with ⟨k, t, x⟩
    simp only [udKV] at he
    cases h1 : rec m (path ++ [udStep attr k]) t x with
    | none => simp [h1] at he
    | some r1 =>
      rcases r1 with ⟨m2, x', pv⟩
      simp only [h1] at he
      have g1 := hrec _ _ _ _ _ h h1
      cases h2 : udKV rec path attr m2 r with
      | none => simp [h2] at he
      | some r2 =>
        rcases r2 with ⟨m3, xs2, pvs2⟩
        simp only [h2, Option.some.injEq, Prod.mk.injEq] at he
        obtain ⟨e1, _, e3⟩ := he
        subst e1; subst e3
        obtain ⟨g2, g3⟩ := ih m2 m3 xs2 pvs2 g1.1 h2
        refine ⟨g2, fun e he => ?_⟩
        rcases List.mem_append.mp he with he | he
        · exact g1.2 e he
        · exact g3 e he

theorem udGood_append {W : Addr → Prop} {m0 m : Mem} {p : Word} {pv pvs : List (Word × Word)}
    (h : Ext W m0 m) (h1 : ∀ e ∈ pv, FreshPV m0.length e) (h2 : ∀ e ∈ pvs, FreshPV m0.length e) :
    UDGood W m0 (m, p, pv ++ pvs) :=
  ⟨h, fun e he => by
    rcases List.mem_append.mp he with he | he
    · exact h1 e he
    · exact h2 e he⟩

/-- **`UnmarkDeepWithPaths` writes nothing that existed, and every mark set and path it
records is an object of its own** -/
theorem udw_good {W : Addr → Prop} {m0 : Mem} :
    ∀ (f : Nat) (m : Mem) (path : List Word) (t p : Word) (r : UDRes), Ext W m0 m →
      udw udEnter f m path t p = some r → UDGood W m0 r := by
  intro f
  induction f with
  | zero => intro m path t p r _ he; simp [udw] at he
  | succ f ih =>
    intro m path t p r h he
    have hrec : ∀ m path t x r, Ext W m0 m → udw udEnter f m path t x = some r → UDGood W m0 r :=
      fun m path t x r h he => ih m path t x r h he
    simp only [udw] at he
    have ge := udEnter_good (W := W) h path p
    generalize udEnter m path p = en at he ge
    rcases en with ⟨m1, p1, pv⟩
    obtain ⟨g1, gpv⟩ := ge
    simp only at he g1 gpv
    split at he
    · -- list
      split at he
      · cases he
      · split at he
        · cases he; exact ⟨g1, gpv⟩
        · split at he
          · cases he
          · rename_i m2 xs' pvs hs
            split at he
            · cases he
            · cases he
              obtain ⟨g2, g3⟩ := udSeq_good hrec path _ _ _ _ _ _ g1 hs
              exact udGood_append (pres_alloc g2 _ _) gpv g3
    · -- tuple
      split at he
      · split at he
        · cases he; exact ⟨g1, gpv⟩
        · split at he
          · cases he
          · rename_i m2 xs' pvs hs
            split at he
            · cases he
            · cases he
              obtain ⟨g2, g3⟩ := udSeq_good hrec path _ _ _ _ _ _ g1 hs
              exact udGood_append (pres_alloc (pres_alloc g2 _ _) _ _) gpv g3
      · cases he
    · -- map
      split at he
      · cases he
      · split at he
        · cases he; exact ⟨g1, gpv⟩
        · split at he
          · cases he
          · rename_i m2 kvs' pvs hs
            split at he
            · cases he
            · cases he
              obtain ⟨g2, g3⟩ := udKV_good hrec path false _ _ _ _ _ g1 hs
              exact udGood_append (pres_alloc g2 _ _) gpv g3
    · -- object
      split at he
      · split at he
        · cases he; exact ⟨g1, gpv⟩
        · split at he
          · cases he
          · rename_i m2 kvs' pvs hs
            split at he
            · cases he
            · cases he
              obtain ⟨g2, g3⟩ := udKV_good hrec path true _ _ _ _ _ g1 hs
              exact udGood_append (pres_alloc (pres_alloc g2 _ _) _ _) gpv g3
      · cases he
    · cases he
    · cases he; exact ⟨g1, gpv⟩

/-! ### `PathSet.Subtract` / `Union` -/

theorem pres_subtractLoop {W : Addr → Prop} {m0 : Mem} {eq : Equiv} {r b : Addr} :
    ∀ (xs : List Word) (hs : List Int) (m m' : Mem), Ext W m0 m → SetW W m0 m r →
      subtractLoop eq r b m xs hs = some m' → Ext W m0 m' ∧ SetW W m0 m' r := by
  intro xs
  induction xs with
  | nil =>
    intro hs m m' h hw he
    cases hs with
    | nil => simp only [subtractLoop, Option.some.injEq] at he; subst he; exact ⟨h, hw⟩
    | cons _ _ => simp [subtractLoop] at he
  | cons x xs ih =>
    intro hs m m' h hw he
    cases hs with
    | nil => simp [subtractLoop] at he
    | cons hh hs =>
      simp only [subtractLoop] at he
      split at he
      · cases he
      · exact ih hs m m' h hw he
      · split at he
        · cases he
        · rename_i m1 ha
          obtain ⟨h1, hw1⟩ := pres_setAdd h hw ha
          exact ih hs m1 m' h1 hw1 he

/-- the storage of a set that may be written stays so while other objects are allocated
or written (its bucket map is not among them) -/
theorem setW_of_kvs_eq {W : Addr → Prop} {m0 m m' : Mem} {a : Addr} (hw : SetW W m0 m a)
    (hk : kvsOf m' a = kvsOf m a) : SetW W m0 m' a :=
  ⟨hw.1, fun kvs h kv hkv => hw.2 kvs (hk ▸ h) kv hkv⟩

end Heap
end CtyModel
